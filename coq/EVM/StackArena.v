(* EVM/StackArena.v — executable model of the SHARED STACK ARENA of
   /repo/core/vm/stack.go and of the interpreter's stack-bound check
   (/repo/core/vm/interpreter.go, "Validate stack"), for C28.

   Conventions
   * A Go [int] is a [Z] (no wrap-around is reachable: every value is bounded
     by the arena length).  [s.size] may go NEGATIVE in Go when an operation is
     applied outside the interpreter's checks (pop on an empty child frame
     silently walks into the parent's window) — the model keeps that behaviour,
     it does not hide it behind an error.
   * [None] = the Go expression panics (index / slice bounds out of range).
   * The arena object is explicit: ONE [a_data] list shared by all frames, and
     per-frame windows [(s_bottom, s_size)] (the [Stack] struct without its
     [inner] pointer).  Frames are kept in a list, active frame first, exactly
     the LIFO discipline the interpreter's [defer stack.release()] enforces.
   * [slices.Grow] allocates a runtime-chosen capacity; the model takes the
     number of fresh elements as a function [grow : old length -> extra] and the
     theorems hold for every [grow] with [frame_room <= grow n].
   No proofs in this file. *)
From Coq Require Import List NArith ZArith Bool.
Import ListNotations.
Local Open Scope Z_scope.

Definition word := N.                     (* uint256.Int, < 2^256 *)

(* params.StackLimit *)
Definition stack_limit : Z := 1024.
(* the literal 1024 of stackArena.stack(): "every substack has at least 1024 elements" *)
Definition frame_room : Z := 1024.
(* stack.go: initialStackSize *)
Definition initial_stack_size : nat := 1025.

(* type stackArena struct { data []uint256.Int; top int } *)
Record arena := mkArena { a_data : list word; a_top : Z }.
(* type Stack struct { bottom int; size int; inner *stackArena } *)
Record stk := mkStk { s_bottom : Z; s_size : Z }.

(* Go indexing  l[i]  with an int index *)
Definition zget {A} (l : list A) (i : Z) : option A :=
  if i <? 0 then None else nth_error l (Z.to_nat i).

Fixpoint set_nth {A} (l : list A) (n : nat) (v : A) : option (list A) :=
  match l, n with
  | [], _ => None
  | _ :: r, O => Some (v :: r)
  | x :: r, S n' => match set_nth r n' v with Some r' => Some (x :: r') | None => None end
  end.

(* Go assignment  l[i] = v *)
Definition zset {A} (l : list A) (i : Z) (v : A) : option (list A) :=
  if i <? 0 then None else set_nth l (Z.to_nat i) v.

(* Go slice expression  l[lo:hi]  (len(l) = cap(l) for the arena) *)
Definition zslice {A} (l : list A) (lo hi : Z) : option (list A) :=
  if (lo <? 0) || (hi <? lo) || (Z.of_nat (length l) <? hi) then None
  else Some (firstn (Z.to_nat (hi - lo)) (skipn (Z.to_nat lo) l)).

(* -------- the interpreter's view: scripts of frame enter/exit and checked stack operations *)

Inductive sop :=
| OEnter                       (* interpreter.go Run: stack = evm.arena.stack() *)
| OExit                        (* deferred stack.release() *)
| OPush (v : word)             (* PUSHn *)
| OPop                         (* POP *)
| OPop1Peek1                   (* a binary operation's operand fetch *)
| ODup (n : Z)                 (* DUPn, 1 <= n <= 16 *)
| OSwap (n : Z)                (* SWAPn, 1 <= n <= 16 *)
| OBack (n : Z)                (* read *back(n) under the check sLen >= n+1 *)
| OSetBack (n : Z) (v : word)  (* write *back(n) under the same check *)
| OLen                         (* stack.len() *)
| OData (k : nat)              (* Data() of the frame k levels below the active one *)
| ODupN (x : N)                (* EIP-8024 DUPN with immediate byte x     (instructions.go: opDupN) *)
| OSwapN (x : N)               (* EIP-8024 SWAPN with immediate byte x    (instructions.go: opSwapN) *)
| OExchange (x : N).           (* EIP-8024 EXCHANGE with immediate byte x (instructions.go: opExchange) *)

Inductive sobs :=
| BUnit | BWord (w : word) | BWord2 (w r : word) | BWords (l : list word) | BInt (z : Z)
| BErr (c : Z).
(* error classes: 1 ErrStackUnderflow, 2 ErrStackOverflow, 3 no such frame (script error,
   decided by the driver, not by stack.go), 4 Go panic, 5 not an opcode of the jump table *)

(* instructions.go: decodeSingle / decodePair *)
Definition decode_single (x : N) : Z := Z.of_N ((x + 145) mod 256).
Definition decode_pair (x : N) : Z * Z :=
  let k := N.lxor x 143 in
  let q := (k / 16)%N in let r := (k mod 16)%N in
  if (q <? r)%N then (Z.of_N (q + 1), Z.of_N (r + 1)) else (Z.of_N (r + 1), 29 - Z.of_N q).
(* the immediates opDupN/opSwapN (x > 90 && x < 128) and opExchange (x > 81 && x < 128) reject
   with ErrInvalidOpCode; a byte is < 256 *)
Definition imm_single_ok (x : N) : bool := (x <? 256)%N && negb ((90 <? x)%N && (x <? 128)%N).
Definition imm_pair_ok (x : N) : bool := (x <? 256)%N && negb ((81 <? x)%N && (x <? 128)%N).

(* stack_table.go: minStack / maxStack / minDupStack / ... as used by jump_table.go for
   PUSHn (0,1), POP (1,0), DUPn, SWAPn; OPop1Peek1 stands for a binary op (2,1);
   OBack/OSetBack n stand for an operation whose minStack is n+1 and that neither
   pops nor pushes *)
Definition max_stack (pop push : Z) : Z := stack_limit + pop - push.
Definition min_stack (pops push : Z) : Z := pops.
Definition bounds (o : sop) : option (Z * Z) :=
  match o with
  | OPush _ => Some (min_stack 0 1, max_stack 0 1)
  | OPop => Some (min_stack 1 0, max_stack 1 0)
  | OPop1Peek1 => Some (min_stack 2 1, max_stack 2 1)
  | ODup n => if (1 <=? n) && (n <=? 16) then Some (min_stack n (n + 1), max_stack n (n + 1)) else None
  | OSwap n => if (1 <=? n) && (n <=? 16) then Some (min_stack (n + 1) (n + 1), max_stack (n + 1) (n + 1)) else None
  | OBack n | OSetBack n _ => if 0 <=? n then Some (min_stack (n + 1) (n + 1), max_stack (n + 1) (n + 1)) else None
  | OLen | OData _ | OEnter | OExit => Some (0, stack_limit)
  (* eips.go: enable8024 — the jump table's bounds; the operand-dependent depth is checked
     inside the operation *)
  | ODupN _ => Some (min_stack 1 0, max_stack 0 1)
  | OSwapN _ | OExchange _ => Some (min_stack 2 0, max_stack 0 0)
  end.

(* interpreter.go: if sLen < minStack -> ErrStackUnderflow else if sLen > maxStack -> ErrStackOverflow *)
Definition check (slen : Z) (b : Z * Z) : option Z :=
  if slen <? fst b then Some 1 else if snd b <? slen then Some 2 else None.

Section Arena.
  (* number of fresh (zero) elements slices.Grow + [:cap] adds to an arena of the given length *)
  Variable grow : nat -> nat.

  (* stack.go: (sa *stackArena) stack() *)
  Definition arena_stack (a : arena) : arena * stk :=
    let data :=
      if Z.of_nat (length (a_data a)) <=? a_top a + frame_room
      then a_data a ++ repeat 0%N (grow (length (a_data a)))
      else a_data a in
    (mkArena data (a_top a), mkStk (a_top a) 0).

  (* stack.go: (s *Stack) release()   s.inner.top = s.bottom *)
  Definition stk_release (a : arena) (s : stk) : arena := mkArena (a_data a) (s_bottom s).

  (* stack.go: returnStack — arena.top = 0 before going back to the pool *)
  Definition return_stack (a : arena) : arena := mkArena (a_data a) 0.

  (* stack.go: push = get() then *elem = *d *)
  Definition stk_push (a : arena) (s : stk) (v : word) : option (arena * stk) :=
    match zset (a_data a) (a_top a) v with
    | Some d => Some (mkArena d (a_top a + 1), mkStk (s_bottom s) (s_size s + 1))
    | None => None
    end.

  (* stack.go: pop *)
  Definition stk_pop (a : arena) (s : stk) : option (arena * stk * word) :=
    let top := a_top a - 1 in
    match zget (a_data a) top with
    | Some v => Some (mkArena (a_data a) top, mkStk (s_bottom s) (s_size s - 1), v)
    | None => None
    end.

  (* stack.go: pop1Peek1 — returns (&data[top], &data[top-1]) after top-- *)
  Definition stk_pop1peek1 (a : arena) (s : stk) : option (arena * stk * word * word) :=
    let top := a_top a - 1 in
    match zget (a_data a) top, zget (a_data a) (top - 1) with
    | Some v, Some r => Some (mkArena (a_data a) top, mkStk (s_bottom s) (s_size s - 1), v, r)
    | _, _ => None
    end.

  (* stack.go: dup(n) *)
  Definition stk_dup (a : arena) (s : stk) (n : Z) : option (arena * stk) :=
    match zget (a_data a) (s_bottom s + s_size s - n) with
    | Some v =>
        match zset (a_data a) (s_bottom s + s_size s) v with
        | Some d => Some (mkArena d (a_top a + 1), mkStk (s_bottom s) (s_size s + 1))
        | None => None
        end
    | None => None
    end.

  (* stack.go: swap1 .. swap16 — swapN exchanges data[bottom+size-N-1] and data[bottom+size-1] *)
  Definition stk_swap (a : arena) (s : stk) (n : Z) : option (arena * stk) :=
    let i := s_bottom s + s_size s - n - 1 in
    let j := s_bottom s + s_size s - 1 in
    match zget (a_data a) i, zget (a_data a) j with
    | Some x, Some y =>
        match zset (a_data a) i y with
        | Some d1 => match zset d1 j x with
                     | Some d2 => Some (mkArena d2 (a_top a), s)
                     | None => None
                     end
        | None => None
        end
    | _, _ => None
    end.

  (* stack.go: back(n) (peek = back(0)); the pointer is read ... *)
  Definition stk_back (a : arena) (s : stk) (n : Z) : option word :=
    zget (a_data a) (s_bottom s + s_size s - n - 1).
  (* ... or written through (binary operations write their result into peek();
     SWAPN / EXCHANGE write through back(n)) *)
  Definition stk_set_back (a : arena) (s : stk) (n : Z) (v : word) : option arena :=
    match zset (a_data a) (s_bottom s + s_size s - n - 1) v with
    | Some d => Some (mkArena d (a_top a))
    | None => None
    end.

  (* stack.go: Data() *)
  Definition stk_data (a : arena) (s : stk) : option (list word) :=
    zslice (a_data a) (s_bottom s) (s_bottom s + s_size s).

  Definition astate := (arena * list stk)%type.

  Definition panic (st : astate) : astate * sobs := (st, BErr 4).

  (* one script step on the arena implementation *)
  Definition astep (st : astate) (o : sop) : astate * sobs :=
    let '(a, fs) := st in
    match o with
    | OEnter => let '(a', s) := arena_stack a in ((a', s :: fs), BUnit)
    | OExit => match fs with
               | s :: fs' => ((stk_release a s, fs'), BUnit)
               | [] => (st, BErr 3)
               end
    | OData k => match nth_error fs k with
                 | Some s => match stk_data a s with
                             | Some l => (st, BWords l)
                             | None => panic st
                             end
                 | None => (st, BErr 3)
                 end
    | _ =>
      match fs with
      | [] => (st, BErr 3)
      | s :: fs' =>
        match bounds o with
        | None => (st, BErr 5)
        | Some b =>
          match check (s_size s) b with
          | Some e => (st, BErr e)
          | None =>
            match o with
            | OPush v => match stk_push a s v with
                         | Some (a', s') => ((a', s' :: fs'), BUnit)
                         | None => panic st end
            | OPop => match stk_pop a s with
                      | Some (a', s', v) => ((a', s' :: fs'), BWord v)
                      | None => panic st end
            | OPop1Peek1 => match stk_pop1peek1 a s with
                            | Some (a', s', v, r) => ((a', s' :: fs'), BWord2 v r)
                            | None => panic st end
            | ODup n => match stk_dup a s n with
                        | Some (a', s') => ((a', s' :: fs'), BUnit)
                        | None => panic st end
            | OSwap n => match stk_swap a s n with
                         | Some (a', s') => ((a', s' :: fs'), BUnit)
                         | None => panic st end
            | OBack n => match stk_back a s n with
                         | Some v => (st, BWord v)
                         | None => panic st end
            | OSetBack n v => match stk_set_back a s n v with
                              | Some a' => ((a', s :: fs'), BUnit)
                              | None => panic st end
            | OLen => (st, BInt (s_size s))
            | ODupN x =>
                (* opDupN: operand range; if scope.Stack.len() < n -> ErrStackUnderflow;
                   scope.Stack.push(scope.Stack.back(n - 1)) *)
                if negb (imm_single_ok x) then (st, BErr 5)
                else let n := decode_single x in
                  if s_size s <? n then (st, BErr 1)
                  else match stk_back a s (n - 1) with
                       | Some v => match stk_push a s v with
                                   | Some (a', s') => ((a', s' :: fs'), BUnit)
                                   | None => panic st end
                       | None => panic st end
            | OSwapN x =>
                (* opSwapN: if scope.Stack.len() < n+1 -> ErrStackUnderflow;
                   top := peek(); nth := back(n); *top, *nth = *nth, *top *)
                if negb (imm_single_ok x) then (st, BErr 5)
                else let n := decode_single x in
                  if s_size s <? n + 1 then (st, BErr 1)
                  else match stk_back a s 0, stk_back a s n with
                       | Some t, Some v =>
                           match stk_set_back a s 0 v with
                           | Some a1 => match stk_set_back a1 s n t with
                                        | Some a2 => ((a2, s :: fs'), BUnit)
                                        | None => panic st end
                           | None => panic st end
                       | _, _ => panic st end
            | OExchange x =>
                (* opExchange: need := max(n, m) + 1; nth := back(n); mth := back(m); swap *)
                if negb (imm_pair_ok x) then (st, BErr 5)
                else let '(n, m) := decode_pair x in
                  if s_size s <? Z.max n m + 1 then (st, BErr 1)
                  else match stk_back a s n, stk_back a s m with
                       | Some u, Some v =>
                           match stk_set_back a s n v with
                           | Some a1 => match stk_set_back a1 s m u with
                                        | Some a2 => ((a2, s :: fs'), BUnit)
                                        | None => panic st end
                           | None => panic st end
                       | _, _ => panic st end
            | _ => (st, BErr 3)
            end
          end
        end
      end
    end.

  Fixpoint arun (st : astate) (ops : list sop) : list sobs :=
    match ops with
    | [] => []
    | o :: r => let '(st', ob) := astep st o in ob :: arun st' r
    end.

  Fixpoint afinal (st : astate) (ops : list sop) : astate :=
    match ops with
    | [] => st
    | o :: r => afinal (fst (astep st o)) r
    end.
End Arena.

(* -------- the reference: ONE PRIVATE LIST PER FRAME (bottom first, top of stack last).
   No arena, no sharing, no capacity: what the EVM specification calls "the stack". *)

Definition pstate := list (list word).      (* active frame first *)

Definition plen (p : list word) : Z := Z.of_nat (length p).

Definition pstep (st : pstate) (o : sop) : pstate * sobs :=
  match o with
  | OEnter => ([] :: st, BUnit)
  | OExit => match st with _ :: r => (r, BUnit) | [] => (st, BErr 3) end
  | OData k => match nth_error st k with Some p => (st, BWords p) | None => (st, BErr 3) end
  | _ =>
    match st with
    | [] => (st, BErr 3)
    | p :: r =>
      match bounds o with
      | None => (st, BErr 5)
      | Some b =>
        match check (plen p) b with
        | Some e => (st, BErr e)
        | None =>
          match o with
          | OPush v => ((p ++ [v]) :: r, BUnit)
          | OPop => match zget p (plen p - 1) with
                    | Some v => (removelast p :: r, BWord v)
                    | None => (st, BErr 4) end
          | OPop1Peek1 => match zget p (plen p - 1), zget p (plen p - 2) with
                          | Some v, Some x => (removelast p :: r, BWord2 v x)
                          | _, _ => (st, BErr 4) end
          | ODup n => match zget p (plen p - n) with
                      | Some v => ((p ++ [v]) :: r, BUnit)
                      | None => (st, BErr 4) end
          | OSwap n => match zget p (plen p - n - 1), zget p (plen p - 1) with
                       | Some x, Some y =>
                           match zset p (plen p - n - 1) y with
                           | Some p1 => match zset p1 (plen p - 1) x with
                                        | Some p2 => (p2 :: r, BUnit)
                                        | None => (st, BErr 4) end
                           | None => (st, BErr 4) end
                       | _, _ => (st, BErr 4) end
          | OBack n => match zget p (plen p - n - 1) with
                       | Some v => (st, BWord v)
                       | None => (st, BErr 4) end
          | OSetBack n v => match zset p (plen p - n - 1) v with
                            | Some p' => (p' :: r, BUnit)
                            | None => (st, BErr 4) end
          | OLen => (st, BInt (plen p))
          | ODupN x =>
              if negb (imm_single_ok x) then (st, BErr 5)
              else let n := decode_single x in
                if plen p <? n then (st, BErr 1)
                else match zget p (plen p - n) with
                     | Some v => ((p ++ [v]) :: r, BUnit)
                     | None => (st, BErr 4) end
          | OSwapN x =>
              if negb (imm_single_ok x) then (st, BErr 5)
              else let n := decode_single x in
                if plen p <? n + 1 then (st, BErr 1)
                else match zget p (plen p - 1), zget p (plen p - n - 1) with
                     | Some t, Some v =>
                         match zset p (plen p - 1) v with
                         | Some p1 => match zset p1 (plen p - n - 1) t with
                                      | Some p2 => (p2 :: r, BUnit)
                                      | None => (st, BErr 4) end
                         | None => (st, BErr 4) end
                     | _, _ => (st, BErr 4) end
          | OExchange x =>
              if negb (imm_pair_ok x) then (st, BErr 5)
              else let '(n, m) := decode_pair x in
                if plen p <? Z.max n m + 1 then (st, BErr 1)
                else match zget p (plen p - n - 1), zget p (plen p - m - 1) with
                     | Some u, Some v =>
                         match zset p (plen p - n - 1) v with
                         | Some p1 => match zset p1 (plen p - m - 1) u with
                                      | Some p2 => (p2 :: r, BUnit)
                                      | None => (st, BErr 4) end
                         | None => (st, BErr 4) end
                     | _, _ => (st, BErr 4) end
          | _ => (st, BErr 3)
          end
        end
      end
    end
  end.

Fixpoint prun (st : pstate) (ops : list sop) : list sobs :=
  match ops with
  | [] => []
  | o :: r => let '(st', ob) := pstep st o in ob :: prun st' r
  end.

Fixpoint pfinal (st : pstate) (ops : list sop) : pstate :=
  match ops with
  | [] => st
  | o :: r => pfinal (fst (pstep st o)) r
  end.
