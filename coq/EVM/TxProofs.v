(* EVM/TxProofs.v — lemmas about the transaction and block level of the execution
   specification (EVM/Tx.v, EVM/Block.v), used by Properties/C26.v.

   They are statements about the SPECIFICATION (determinism, totality, gas
   accounting, rejection, canonicity of the state root); conformance of go-ethereum
   to the specification is decided by the correspondence check, not here. *)
From GV Require Import Lib.Tactics Lib.Bytes Rlp.Codec Trie.Hex Trie.Node Trie.Ops Trie.Hash Trie.Canon.
From GV Require Import EVM.Word256 EVM.Memory EVM.Gas EVM.State EVM.Instr EVM.Step EVM.Interp EVM.InterpProofs.
From GV Require Import EVM.StateProofs EVM.RefundProofs.
From GV Require Import EVM.Tx EVM.Block.
From GV Require Gas.Fees.
Local Open Scope N_scope.

(* ------------------------------------------------------------------ *)
(* the outermost frame with an access list: same bounds as top_call / top_create *)

Lemma top_call_al_good e w pcs al auths to value input gas :
  let r := top_call_al e w pcs al auths to value input gas in t_gas r <= gas /\ okst (t_status r).
Proof.
  unfold top_call_al. cbv zeta.
  match goal with |- context [evm_call ?rc ?a ?b ?c ?d ?ee ?f ?g ?h ?i ?j ?k ?l] =>
    pose proof (evm_call_ok rc a b c d ee f g h i j k l hyp_rec_top) as H; cbv zeta in H end.
  destruct H as [Hg He]. simpl. split; auto.
  destruct (cr_err _); simpl in *; auto.
Qed.

Lemma top_create_al_good e w pcs al value init gas :
  let r := top_create_al e w pcs al value init gas in t_gas r <= gas /\ okst (t_status r).
Proof.
  unfold top_create_al. cbv zeta.
  match goal with |- context [evm_create ?rc ?a ?b ?c ?d ?ee ?f ?g ?h ?i] =>
    pose proof (evm_create_ok rc a b c d ee f g h i hyp_rec_top) as H; cbv zeta in H end.
  destruct H as [Hg He]. simpl. split; auto.
  destruct (xr_err _); simpl in *; auto.
Qed.

(* with an empty access list these are Interp.top_call / top_create *)
Lemma top_call_al_nil e w pcs to value input gas :
  fk_7702 (e_fork e) = false ->
  top_call_al e w pcs [] [] to value input gas = top_call e w pcs to value input gas.
Proof.
  intros H. unfold top_call_al, top_call, prepare_al, prepare. rewrite H. simpl.
  rewrite app_nil_r. reflexivity.
Qed.

Lemma top_create_al_nil e w pcs value init gas :
  top_create_al e w pcs [] value init gas = top_create e w pcs value init gas.
Proof. unfold top_create_al, top_create, prepare_al, prepare. simpl. rewrite app_nil_r. reflexivity. Qed.

(* no model fault at all (C27's refund-counter invariant): the prepared state of a
   transaction satisfies the invariant because the committed storage of the environment
   is the storage the transaction starts from *)
Lemma inv_add_refund e w g : Inv e w -> Inv e (add_refund w g).
Proof.
  intros H. eapply inv_same; [exact H|]. apply same_sr_accounts; simpl; [reflexivity|lia].
Qed.

Lemma inv_prepare_al e w dst pcs al :
  (forall a k, orig_storage e a k = get_storage w a k) -> Inv e (prepare_al e w dst pcs al).
Proof. intros H. apply refund_inv_start. intros a k. rewrite H. reflexivity. Qed.

Lemma inv_apply_auth e chainid w a : Inv e w -> Inv e (apply_auth chainid w a).
Proof.
  intros H. unfold apply_auth. destruct (negb _); [exact H|]. destruct (_ <=? _); [exact H|].
  destruct (au_authority a) as [authority|]; [|exact H].
  cbv zeta. destruct (_ && _); [apply inv_warm_addr, H|].
  destruct (negb _); [apply inv_warm_addr, H|].
  apply inv_set_nonce, inv_set_code.
  destruct (is_empty _ _); [apply inv_warm_addr, H|apply inv_add_refund, inv_warm_addr, H].
Qed.

Lemma inv_apply_auths e chainid auths : forall w, Inv e w -> Inv e (fold_left (apply_auth chainid) auths w).
Proof. induction auths as [|a r IH]; intros w H; simpl; auto. apply IH, inv_apply_auth, H. Qed.

Lemma top_call_al_full e w pcs al auths to value input gas :
  (forall a k, orig_storage e a k = get_storage w a k) ->
  forall k, t_status (top_call_al e w pcs al auths to value input gas) <> S_Fault k.
Proof.
  intros H. apply okst_not_ru; [apply top_call_al_good|].
  unfold top_call_al. cbv zeta. simpl. apply not_ru_status_of.
  apply (evm_call_inv _ e K_CALL (e_origin e) 0 0 false 0 _ to value input gas (hyp_rec_inv_top e)).
  pose proof (inv_apply_auths e (e_chainid e) auths _ (inv_prepare_al e w (Some to) pcs al H)) as Hi.
  destruct (fk_7702 (e_fork e)); [|exact Hi].
  destruct (parse_delegation _); [apply inv_warm_addr, Hi|exact Hi].
Qed.

Lemma top_create_al_full e w pcs al value init gas :
  (forall a k, orig_storage e a k = get_storage w a k) ->
  forall k, t_status (top_create_al e w pcs al value init gas) <> S_Fault k.
Proof.
  intros H. apply okst_not_ru; [apply top_create_al_good|].
  unfold top_create_al. cbv zeta. simpl. apply not_ru_status_of.
  apply (evm_create_inv _ e (e_origin e) false 0 _ init gas value _ (hyp_rec_inv_top e)
           (inv_prepare_al e w None pcs al H)).
Qed.

Lemma exec_tx_good tf b w t :
  let r := exec_tx tf b w t in
  t_gas r <= tx_gas t - intrinsic_gas t /\ forall k, t_status r <> S_Fault k.
Proof.
  unfold exec_tx. cbv zeta.
  assert (Hs : forall a k, orig_storage (tx_env tf b w t) a k = get_storage (buy_gas b w t) a k).
  { intros a k. rewrite (orig_storage_start (tx_env tf b w t) w a k eq_refl).
    symmetry. apply (proj1 (same_sr_set_balance w _ _)). }
  destruct (tx_to t).
  - split; [apply top_call_al_good|]. apply top_call_al_full.
    intros a k. rewrite Hs. symmetry. apply (proj1 (same_sr_set_nonce _ _ _)).
  - split; [apply top_create_al_good|]. apply top_create_al_full. exact Hs.
Qed.

(* ------------------------------------------------------------------ *)
(* intrinsic gas *)

Lemma intrinsic_gas_ge t : 21000 <= intrinsic_gas t.
Proof.
  unfold intrinsic_gas. cbv zeta.
  set (z := count_zero (tx_data t)). set (nz := lenN (tx_data t) - z).
  set (a := lenN (tx_access t)). set (k := access_keys (tx_access t)).
  unfold Fees.spec_intrinsic_gas, pre_amsterdam. cbn [Fees.f_amsterdam Fees.f_homestead Fees.f_istanbul Fees.f_shanghai].
  unfold Fees.TX_BASE_COST, Fees.TX_CREATE_COST, Fees.PER_EMPTY_ACCOUNT_COST, Fees.TX_DATA_NONZERO_COST_2028,
    Fees.TX_DATA_ZERO_COST, Fees.INITCODE_WORD_COST, Fees.ACCESS_LIST_ADDRESS_COST,
    Fees.ACCESS_LIST_STORAGE_KEY_COST, Fees.words.
  set (au := lenN (tx_auths t)).
  destruct (is_create t); cbn [andb]; lia.
Qed.

(* ------------------------------------------------------------------ *)
(* what validation guarantees *)

Lemma validate_tx_ok tf b w ga t :
  validate_tx tf b w ga t = None ->
  tx_gas t <= ga /\ intrinsic_gas t <= tx_gas t /\ (tf_floor tf = true -> floor_gas t <= tx_gas t).
Proof.
  unfold validate_tx. cbv zeta.
  repeat match goal with
         | |- (if ?c then Some _ else _) = None -> _ => destruct c eqn:?; [discriminate|]
         end.
  match goal with |- match ?x with Some e => Some e | None => _ end = None -> _ => destruct x; [discriminate|] end.
  repeat match goal with
         | |- (if ?c then Some _ else _) = None -> _ => destruct c eqn:?; [discriminate|]
         end.
  intros _. split; [lia|]. split; [lia|]. intros Hf.
  match goal with H : tf_floor tf && _ = false |- _ => rewrite Hf in H; simpl in H end. lia.
Qed.

(* ------------------------------------------------------------------ *)
(* settlement *)

Lemma settle_bounds tf t gas_left counter used refund :
  intrinsic_gas t <= tx_gas t -> (tf_floor tf = true -> floor_gas t <= tx_gas t) ->
  gas_left <= tx_gas t - intrinsic_gas t ->
  settle tf t gas_left counter = (used, refund) ->
  used <= tx_gas t /\ 0 < used /\ refund <= (used + refund) / 5 /\ refund <= counter.
Proof.
  intros Hi Hf Hg. unfold settle. cbv zeta.
  pose proof (intrinsic_gas_ge t) as H21.
  set (used0 := tx_gas t - gas_left).
  assert (H0 : 21000 <= used0 /\ used0 <= tx_gas t) by (unfold used0; lia).
  set (refund0 := N.min (used0 / 5) counter).
  assert (Hr : refund0 <= used0 / 5 /\ refund0 <= counter) by (unfold refund0; lia).
  destruct (tf_floor tf && (used0 - refund0 <? floor_gas t)) eqn:E; intros X; inversion X; subst; clear X.
  - apply andb_true_iff in E. destruct E as [E1 E2]. specialize (Hf E1).
    apply N.ltb_lt in E2. repeat split; lia.
  - repeat split; lia.
Qed.

(* ------------------------------------------------------------------ *)
(* one transaction *)

(* the receipt's status is an EVM outcome, never a model fault *)
Definition okrc (rc : tx_receipt) : Prop := forall k, rc_status rc <> S_Fault k.

Lemma apply_tx_included tf b accts ga t accts' rc :
  apply_tx tf b accts ga t = inr (accts', rc) ->
  rc_gas_used rc <= tx_gas t /\ tx_gas t <= ga /\ 0 < rc_gas_used rc /\
  rc_refund rc <= (rc_gas_used rc + rc_refund rc) / 5 /\ okrc rc.
Proof.
  unfold apply_tx. cbv zeta.
  destruct (validate_tx _ _ _ _ _) eqn:V; [discriminate|].
  destruct (validate_tx_ok _ _ _ _ _ V) as (Hga & Hi & Hf).
  destruct (_ <? tx_value t); [discriminate|].
  set (w := mk_world accts [] [] [] 0 [] [] []).
  destruct (exec_tx_good tf b w t) as [Hg Hs].
  destruct (settle tf t _ _) as [used refund] eqn:S.
  destruct (settle_bounds _ _ _ _ _ _ Hi Hf Hg S) as (A & B & C & D).
  intros X. inversion X; subst; clear X. unfold okrc. simpl. auto.
Qed.

(* ------------------------------------------------------------------ *)
(* the transaction loop *)

(* what does not depend on the numbering of the transactions *)
Definition ls_core (ls : loop_state) : nmap account * N * N * list (tx_receipt * N) :=
  (ls_accounts ls, ls_gas_used ls, ls_blob_gas ls, ls_receipts ls).

Lemma reject_core ls e : ls_core (reject ls e) = ls_core ls.
Proof. reflexivity. Qed.

(* a step of the loop either rejects the transaction — and then accounts, gas counters
   and receipts are exactly what they were — or includes it *)
Lemma step_tx_cases tf b ls t :
  (exists e, step_tx tf b ls t = reject ls e) \/
  (exists accts rc,
     apply_tx tf b (ls_accounts ls) (b_gaslimit b - ls_gas_used ls) t = inr (accts, rc) /\
     step_tx tf b ls t =
       mk_loop_state accts (ls_gas_used ls + rc_gas_used rc)
                     (ls_blob_gas ls + (if tx_type t =? 3 then blob_gas t else 0))
                     (ls_index ls + 1) ((rc, ls_gas_used ls + rc_gas_used rc) :: ls_receipts ls)
                     (ls_rejected ls)).
Proof.
  unfold step_tx. destruct (_ && _).
  - left. eexists. reflexivity.
  - destruct (apply_tx _ _ _ _ _) as [e|[accts rc]] eqn:A.
    + left. eexists. reflexivity.
    + right. exists accts, rc. split; reflexivity.
Qed.

(* cumulative gas along the receipts, oldest first: each entry adds the (positive) gas
   used by its transaction to the previous total *)
Inductive cum_chain : N -> list (tx_receipt * N) -> N -> Prop :=
| cum_nil p : cum_chain p [] p
| cum_cons p rc c l q :
    c = p + rc_gas_used rc -> p < c -> cum_chain c l q -> cum_chain p ((rc, c) :: l) q.

Lemma cum_chain_snoc p l q rc c :
  cum_chain p l q -> c = q + rc_gas_used rc -> q < c -> cum_chain p (l ++ [(rc, c)]) c.
Proof.
  induction 1 as [p|p rc' c' l q' E L H IH]; intros Ec Hc; simpl.
  - apply cum_cons; auto. constructor.
  - apply cum_cons; auto.
Qed.

Lemma cum_chain_le p l q : cum_chain p l q -> p <= q.
Proof. induction 1; lia. Qed.

Lemma cum_chain_in p l q rc c : cum_chain p l q -> In (rc, c) l -> p < c /\ c <= q.
Proof.
  induction 1 as [p|p rc' c' l q' E L H IH]; intros HI; [destruct HI|].
  destruct HI as [X|X].
  - inversion X; subst. apply cum_chain_le in H. lia.
  - specialize (IH X). lia.
Qed.

(* the invariant of the loop *)
Definition loop_inv (b : benv) (ls : loop_state) : Prop :=
  cum_chain 0 (rev (ls_receipts ls)) (ls_gas_used ls) /\
  ls_gas_used ls <= b_gaslimit b /\
  Forall (fun x => okrc (fst x)) (ls_receipts ls).

Lemma step_tx_inv tf b ls t : loop_inv b ls -> loop_inv b (step_tx tf b ls t).
Proof.
  intros (C & G & F).
  destruct (step_tx_cases tf b ls t) as [[e ->]|(accts & rc & A & ->)].
  - split; [exact C|]. split; [exact G|exact F].
  - destruct (apply_tx_included _ _ _ _ _ _ _ A) as (U & GA & P & _ & O).
    split; [|split]; simpl.
    + apply cum_chain_snoc with (q := ls_gas_used ls); auto. lia.
    + lia.
    + constructor; auto.
Qed.

Lemma tx_loop_inv tf b accts txs : loop_inv b (tx_loop tf b accts txs).
Proof.
  unfold tx_loop.
  assert (H : forall txs ls, loop_inv b ls -> loop_inv b (fold_left (step_tx tf b) txs ls)).
  { clear. intros txs. induction txs as [|t txs IH]; intros ls Hl; simpl; auto.
    apply IH, step_tx_inv, Hl. }
  apply H. split; [constructor|]. split; [simpl; lia|constructor].
Qed.

(* ------------------------------------------------------------------ *)
(* rejected transactions leave no trace: the loop over the included transactions alone
   reaches the same accounts, counters and receipts and rejects nothing *)

Fixpoint included_txs (tf : tfork) (b : benv) (ls : loop_state) (txs : list tx) : list tx :=
  match txs with
  | [] => []
  | t :: r =>
      let ls' := step_tx tf b ls t in
      if (length (ls_rejected ls') =? length (ls_rejected ls))%nat
      then t :: included_txs tf b ls' r
      else included_txs tf b ls' r
  end.

Lemma eqb_S n : (S n =? n)%nat = false.
Proof. apply Nat.eqb_neq. lia. Qed.

Lemma step_tx_core tf b ls1 ls2 t :
  ls_core ls1 = ls_core ls2 ->
  ls_core (step_tx tf b ls1 t) = ls_core (step_tx tf b ls2 t) /\
  ((length (ls_rejected (step_tx tf b ls1 t)) =? length (ls_rejected ls1))%nat =
   (length (ls_rejected (step_tx tf b ls2 t)) =? length (ls_rejected ls2))%nat).
Proof.
  intros E.
  assert (E1 : ls_accounts ls1 = ls_accounts ls2)
    by (change (fst (fst (fst (ls_core ls1))) = fst (fst (fst (ls_core ls2)))); rewrite E; reflexivity).
  assert (E2 : ls_gas_used ls1 = ls_gas_used ls2)
    by (change (snd (fst (fst (ls_core ls1))) = snd (fst (fst (ls_core ls2)))); rewrite E; reflexivity).
  assert (E3 : ls_blob_gas ls1 = ls_blob_gas ls2)
    by (change (snd (fst (ls_core ls1)) = snd (fst (ls_core ls2))); rewrite E; reflexivity).
  assert (E4 : ls_receipts ls1 = ls_receipts ls2)
    by (change (snd (ls_core ls1) = snd (ls_core ls2)); rewrite E; reflexivity).
  clear E. unfold ls_core, step_tx. rewrite E1, E2, E3. destruct (_ && _).
  - unfold reject. cbn [ls_accounts ls_gas_used ls_blob_gas ls_receipts ls_rejected length].
    split; [congruence|rewrite !eqb_S; reflexivity].
  - destruct (apply_tx _ _ _ _ _) as [e|[accts rc]].
    + unfold reject. cbn [ls_accounts ls_gas_used ls_blob_gas ls_receipts ls_rejected length].
      split; [congruence|rewrite !eqb_S; reflexivity].
    + cbn [ls_accounts ls_gas_used ls_blob_gas ls_receipts ls_rejected].
      split; [congruence|rewrite !Nat.eqb_refl; reflexivity].
Qed.

Lemma step_tx_rejected_len tf b ls t :
  (length (ls_rejected (step_tx tf b ls t)) =? length (ls_rejected ls))%nat = false ->
  ls_core (step_tx tf b ls t) = ls_core ls.
Proof.
  destruct (step_tx_cases tf b ls t) as [[e ->]|(accts & rc & A & ->)]; intros H.
  - reflexivity.
  - cbn [ls_rejected] in H. rewrite Nat.eqb_refl in H. discriminate.
Qed.

Lemma step_tx_included_len tf b ls t :
  (length (ls_rejected (step_tx tf b ls t)) =? length (ls_rejected ls))%nat = true ->
  ls_rejected (step_tx tf b ls t) = ls_rejected ls.
Proof.
  destruct (step_tx_cases tf b ls t) as [[e ->]|(accts & rc & A & ->)]; intros H.
  - unfold reject in H. cbn [ls_rejected length] in H. rewrite eqb_S in H. discriminate.
  - reflexivity.
Qed.

Lemma included_txs_same tf b : forall txs ls1 ls2,
  ls_core ls1 = ls_core ls2 ->
  ls_core (fold_left (step_tx tf b) txs ls1) =
  ls_core (fold_left (step_tx tf b) (included_txs tf b ls1 txs) ls2) /\
  ls_rejected (fold_left (step_tx tf b) (included_txs tf b ls1 txs) ls2) = ls_rejected ls2.
Proof.
  induction txs as [|t txs IH]; intros ls1 ls2 E; simpl.
  - split; [exact E|reflexivity].
  - destruct (length (ls_rejected (step_tx tf b ls1 t)) =? length (ls_rejected ls1))%nat eqn:L.
    + simpl. destruct (step_tx_core tf b ls1 ls2 t E) as [E' L'].
      rewrite L in L'. symmetry in L'.
      destruct (IH _ _ E') as [A B]. split; [exact A|].
      rewrite B. apply step_tx_included_len. exact L'.
    + apply IH. rewrite (step_tx_rejected_len _ _ _ _ L). exact E.
Qed.

(* ------------------------------------------------------------------ *)
(* system calls *)

Lemma system_call_ok tf b accts addr input k :
  cr_err (system_call tf b accts addr input) <> Some (S_Fault k).
Proof.
  unfold system_call.
  match goal with |- context [evm_call ?rc ?a ?b ?c ?d ?ee ?f ?g ?h ?i ?j ?k ?l] =>
    pose proof (evm_call_ok rc a b c d ee f g h i j k l hyp_rec_top) as H1; cbv zeta in H1;
    assert (H2 : not_ru_err (cr_err (evm_call rc a b c d ee f g h i j k l)))
  end.
  { apply evm_call_inv; [apply hyp_rec_inv_top|]. apply refund_inv_start. intros a k0.
    rewrite (orig_storage_start (sys_env tf b accts) (mk_world accts [] [0; addr] [] 0 [] [] []) a k0 eq_refl).
    reflexivity. }
  destruct H1 as [_ H1]. destruct (cr_err _) as [s|]; [|discriminate].
  intros E. inversion E; subst. simpl in H1. destruct k; simpl in H1; try contradiction;
    apply H2; reflexivity.
Qed.

Lemma apply_system_call_fault tf b accts addr input : snd (apply_system_call tf b accts addr input) = None.
Proof.
  unfold apply_system_call. simpl. pose proof (system_call_ok tf b accts addr input) as H.
  destruct (cr_err _) as [s|]; [|reflexivity]. destruct s; try reflexivity. exfalso. eapply H. reflexivity.
Qed.

Lemma request_call_fault tf b accts ty addr k : request_call tf b accts ty addr <> inl (BE_Fault k).
Proof.
  unfold request_call. destruct (get_code _ _); [discriminate|].
  pose proof (system_call_ok tf b accts addr []) as H.
  destruct (cr_err _) as [s|]; [|discriminate].
  destruct s; try discriminate. intros X. inversion X; subst. eapply H. reflexivity.
Qed.

(* ------------------------------------------------------------------ *)
(* the block *)

Lemma apply_block_receipts tf bk pre :
  exists a, br_receipts (apply_block tf bk pre) = rev (ls_receipts (tx_loop tf (bk_env bk) a (bk_txs bk))) /\
            br_gas_used (apply_block tf bk pre) = ls_gas_used (tx_loop tf (bk_env bk) a (bk_txs bk)) /\
            br_rejected (apply_block tf bk pre) = rev (ls_rejected (tx_loop tf (bk_env bk) a (bk_txs bk))).
Proof.
  unfold apply_block. cbv zeta.
  destruct (match bk_beacon_root bk with Some _ => _ | None => _ end) as [a1 f1].
  destruct (if tf_requests tf then _ else _) as [a2 f2] eqn:E2.
  exists a2. destruct (tf_requests tf).
  - destruct (request_call _ _ _ 1 _) as [e|[a4 r1]]; [simpl; auto|].
    destruct (request_call _ _ _ 2 _) as [e|[a5 r2]]; simpl; auto.
  - simpl. auto.
Qed.

Lemma apply_block_error tf bk pre k : br_error (apply_block tf bk pre) <> Some (BE_Fault k).
Proof.
  unfold apply_block. cbv zeta.
  destruct (match bk_beacon_root bk with Some _ => _ | None => _ end) as [a1 f1] eqn:E1.
  assert (H1 : f1 = None).
  { destruct (bk_beacon_root bk).
    - pose proof (apply_system_call_fault tf (bk_env bk) pre BEACON_ROOTS_ADDRESS l) as X. rewrite E1 in X. exact X.
    - inversion E1. reflexivity. }
  destruct (if tf_requests tf then _ else _) as [a2 f2] eqn:E2.
  assert (H2 : f2 = None).
  { destruct (tf_requests tf).
    - match type of E2 with apply_system_call ?a ?b ?c ?d ?e = _ =>
        pose proof (apply_system_call_fault a b c d e) as X end. rewrite E2 in X. exact X.
    - inversion E2. reflexivity. }
  subst f1 f2. simpl.
  destruct (tf_requests tf).
  - destruct (request_call _ _ _ 1 _) as [e|[a4 r1]] eqn:R1.
    + simpl. intros X. inversion X; subst. eapply request_call_fault. exact R1.
    + destruct (request_call _ _ _ 2 _) as [e|[a5 r2]] eqn:R2; simpl.
      * intros X. inversion X; subst. eapply request_call_fault. exact R2.
      * discriminate.
  - simpl. discriminate.
Qed.

(* ------------------------------------------------------------------ *)
(* the state root: it exists, and depends only on the key -> value map of the
   secure tries, for ANY hash function with byte outputs *)

Section RootCanon.
  Variable H : list N -> list N.
  Hypothesis H_bytes : forall x, bytes_key (H x).

  Lemma root_of_canonical ops1 ops2 :
    bytes_ops ops1 -> bytes_ops ops2 ->
    (forall k, final_map ops1 k = final_map ops2 k) ->
    root_of H ops1 = root_of H ops2 /\ exists r, root_of H ops1 = Some r.
  Proof.
    intros B1 B2 He.
    destruct (root_depends_only_on_set no_resolve ops1 ops2 B1 B2 He) as (t & e1 & e2 & F1 & F2 & C & _).
    unfold root_of. rewrite F1, F2. split; [reflexivity|]. apply hash_root_total. exact C.
  Qed.

  Lemma storage_ops_bytes st : bytes_ops (storage_ops H st).
  Proof.
    unfold storage_ops, bytes_ops. apply Forall_forall. intros kv HI.
    apply in_map_iff in HI. destruct HI as (x & <- & _). simpl. apply H_bytes.
  Qed.

  Lemma storage_root_total st : exists r, storage_root H st = Some r.
  Proof.
    unfold storage_root.
    apply (root_of_canonical (storage_ops H st) (storage_ops H st));
      auto using storage_ops_bytes.
  Qed.

  Lemma account_ops_total accts : exists ops, account_ops H accts = Some ops /\ bytes_ops ops.
  Proof.
    induction accts as [|[a x] r (ops & E & B)]; simpl.
    - exists []. split; [reflexivity|constructor].
    - unfold account_value. destruct (storage_root_total (acc_storage x)) as [sr ->].
      rewrite E. eexists. split; [reflexivity|]. constructor; [apply H_bytes|exact B].
  Qed.

  Lemma state_root_total accts : exists r, state_root H accts = Some r.
  Proof.
    unfold state_root. destruct (account_ops_total accts) as (ops & -> & B).
    apply (root_of_canonical ops ops); auto.
  Qed.

  Lemma state_root_canonical accts1 accts2 ops1 ops2 :
    account_ops H accts1 = Some ops1 -> account_ops H accts2 = Some ops2 ->
    (forall k, final_map ops1 k = final_map ops2 k) ->
    state_root H accts1 = state_root H accts2.
  Proof.
    intros E1 E2 He. unfold state_root. rewrite E1, E2.
    destruct (account_ops_total accts1) as (o1 & X1 & B1). rewrite E1 in X1. inversion X1; subst.
    destruct (account_ops_total accts2) as (o2 & X2 & B2). rewrite E2 in X2. inversion X2; subst.
    apply root_of_canonical; assumption.
  Qed.

  (* the same for a storage trie *)
  Lemma storage_root_canonical st1 st2 :
    (forall k, final_map (storage_ops H st1) k = final_map (storage_ops H st2) k) ->
    storage_root H st1 = storage_root H st2.
  Proof. intros He. apply root_of_canonical; auto using storage_ops_bytes. Qed.
End RootCanon.

(* ------------------------------------------------------------------ *)
(* the statements used by Properties/C26.v *)

Lemma spec_deterministic tf bk pre r1 r2 :
  apply_block tf bk pre = r1 -> apply_block tf bk pre = r2 -> r1 = r2.
Proof. intros A B. rewrite <- A, <- B. reflexivity. Qed.

Lemma spec_total_tx tf b accts ga t accts' rc k :
  apply_tx tf b accts ga t = inr (accts', rc) -> rc_status rc <> S_Fault k.
Proof.
  intros A. destruct (apply_tx_included _ _ _ _ _ _ _ A) as (_ & _ & _ & _ & O). apply O.
Qed.

Lemma spec_total_block tf bk pre :
  let r := apply_block tf bk pre in
  (forall rc cum k, In (rc, cum) (br_receipts r) -> rc_status rc <> S_Fault k) /\
  (forall k, br_error r <> Some (BE_Fault k)) /\
  ((forall x, bytes_key (fk_keccak (tf_evm tf) x)) -> exists h, br_state_root r = Some h).
Proof.
  cbv zeta. split; [|split].
  - destruct (apply_block_receipts tf bk pre) as (a & -> & _ & _).
    intros rc cum k HI. apply in_rev in HI.
    destruct (tx_loop_inv tf (bk_env bk) a (bk_txs bk)) as (_ & _ & F).
    rewrite Forall_forall in F. apply (F _ HI).
  - intros k. apply apply_block_error.
  - intros Hb. unfold apply_block. cbv zeta.
    destruct (match bk_beacon_root bk with Some _ => _ | None => _ end) as [a1 f1].
    destruct (if tf_requests tf then _ else _) as [a2 f2].
    destruct (tf_requests tf).
    + destruct (request_call _ _ _ 1 _) as [e|[a4 r1]]; [simpl; apply state_root_total, Hb|].
      destruct (request_call _ _ _ 2 _) as [e|[a5 r2]]; simpl; apply state_root_total, Hb.
    + simpl. apply state_root_total, Hb.
Qed.

Lemma receipt_gas_monotone tf bk pre :
  let r := apply_block tf bk pre in
  cum_chain 0 (br_receipts r) (br_gas_used r) /\
  br_gas_used r <= b_gaslimit (bk_env bk) /\
  (forall rc c, In (rc, c) (br_receipts r) -> 0 < c /\ c <= br_gas_used r).
Proof.
  cbv zeta. destruct (apply_block_receipts tf bk pre) as (a & -> & -> & _).
  destruct (tx_loop_inv tf (bk_env bk) a (bk_txs bk)) as (C & G & _).
  split; [exact C|]. split; [exact G|]. intros rc c HI. eapply cum_chain_in; eauto.
Qed.

Lemma invalid_tx_no_effect_step tf b ls t :
  length (ls_rejected (step_tx tf b ls t)) <> length (ls_rejected ls) ->
  ls_accounts (step_tx tf b ls t) = ls_accounts ls /\
  ls_gas_used (step_tx tf b ls t) = ls_gas_used ls /\
  ls_blob_gas (step_tx tf b ls t) = ls_blob_gas ls /\
  ls_receipts (step_tx tf b ls t) = ls_receipts ls.
Proof.
  intros H. apply Nat.eqb_neq in H. apply step_tx_rejected_len in H.
  unfold ls_core in H. inversion H as [[A B C D]]. rewrite A, B, C, D. auto.
Qed.

Lemma invalid_tx_no_effect_loop tf b accts txs :
  let init := mk_loop_state accts 0 0 0 [] [] in
  let ls := tx_loop tf b accts txs in
  let ls' := tx_loop tf b accts (included_txs tf b init txs) in
  ls_accounts ls' = ls_accounts ls /\ ls_gas_used ls' = ls_gas_used ls /\
  ls_blob_gas ls' = ls_blob_gas ls /\ ls_receipts ls' = ls_receipts ls /\ ls_rejected ls' = [].
Proof.
  cbv zeta. unfold tx_loop.
  destruct (included_txs_same tf b txs (mk_loop_state accts 0 0 0 [] []) (mk_loop_state accts 0 0 0 [] []) eq_refl)
    as [A B].
  unfold ls_core in A. inversion A as [[A1 A2 A3 A4]]. rewrite B. auto.
Qed.

(* a boolean check for the non-vacuity example of Properties/C26.v *)
Definition example_check (r : block_result) (root : list N) (gas : N) : bool :=
  match br_receipts r, br_rejected r, br_state_root r with
  | [(rc, cum)], [(1, TE_NonceTooHigh)], Some h =>
      match rc_status rc with S_Ok => true | _ => false end
      && (rc_gas_used rc =? gas) && (cum =? gas) && (br_gas_used r =? gas) && bytes_eqb h root
      && match br_error r with None => true | Some _ => false end
  | _, _, _ => false
  end.
