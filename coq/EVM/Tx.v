(* EVM/Tx.v — the TRANSACTION level of the execution specification (property C26).

   SPECIFICATION, written from the Yellow Paper (section 6, "Transaction Execution")
   and the EIPs:
     EIP-2    (creation costs 53000)            EIP-2028 (calldata 16/4)
     EIP-2681 (nonce < 2^64-1)                  EIP-2929/2930 (access list, warm sets)
     EIP-1559 (fee cap, tip, base fee burnt)    EIP-3529 (refund cap used/5)
     EIP-3607 (sender has no code; EIP-7702: a delegation designator is allowed)
     EIP-3651 (warm coinbase)                   EIP-3860 (initcode size / word cost)
     EIP-4844 (blob gas fee, versioned hashes)  EIP-7623 (calldata floor, Prague)
     EIP-7825 (transaction gas cap 2^24, Osaka) EIP-7594 (at most 6 blobs per tx, Osaka)
     EIP-7702 (set-code transactions, Prague)
   on top of the EVM core of C27 (EVM/Step.v, EVM/Interp.v — not modified).  It is NOT a
   transcription of /repo/core/state_transition.go; it was cross-read against it
   (preCheck, buyGas, execute, settleGas) for one purpose only: the ORDER in which
   several simultaneous defects of one transaction are reported is not consensus
   relevant (a transaction with any defect is invalid), and the specification
   reports them in geth's order so that error CLASSES can be compared.

   The intrinsic gas and the EIP-7623 floor are the specification functions of
   property C35 (Gas/Fees.v: spec_intrinsic_gas, spec_floor_data_gas), not redefined.

   EIP-7702 set-code transactions (type 4): the authorisation list is processed after
   the sender's nonce increment (chain id, nonce bound, recovered authority, code empty
   or a delegation, nonce match, refund 25000 - 12500 for an existing authority, set or
   clear the delegation designator, bump the authority's nonce), invalid tuples are
   skipped, nothing of it is rolled back when the execution fails; the delegation
   target of the destination is warm.  The recovered authority is part of the tuple
   (signature recovery is C03's subject; None = invalid signature).  Delegation
   resolution inside the CALL family is the EVM core's (Step.v resolve_code).

   Numbers are unbounded [N]; every uint256/uint64 overflow test of a client ends in
   the same rejection as the comparison in unbounded numbers (see [buy_gas]).

   Names other families rely on (keep stable):
     tx tfork benv tx_err tx_receipt intrinsic_gas floor_gas eff_price validate_tx
     auth apply_auth buy_gas prepare_al top_call_al top_create_al exec_tx settle apply_tx finalise
   No proofs in this file. *)
From Coq Require Import List NArith ZArith Bool.
From GV Require Import Lib.Bytes EVM.Word256 EVM.Memory EVM.Gas EVM.State EVM.Instr EVM.Step EVM.Interp.
From GV Require Gas.Fees.
Import ListNotations.
Local Open Scope N_scope.

(* ------------------------------------------------------------------ *)
(* transactions, rule sets, block environment *)

(* EIP-7702 authorisation tuple; [au_authority] = the address recovered from the
   signature (None = the signature is invalid) *)
Record auth := mk_auth { au_chain : N; au_address : N; au_nonce : N; au_authority : option N }.

(* tx_type: 0 legacy, 1 EIP-2930, 2 EIP-1559, 3 EIP-4844, 4 EIP-7702.  For types 0 and 1
   the gas price is both the fee cap and the tip cap (EIP-1559, "legacy transactions"). *)
Record tx := mk_tx {
  tx_type : N;
  tx_from : N;                         (* the recovered sender; signatures are C03's subject *)
  tx_nonce : N;
  tx_gas : N;                          (* gas limit *)
  tx_feecap : N;                       (* max_fee_per_gas *)
  tx_tipcap : N;                       (* max_priority_fee_per_gas *)
  tx_to : option N;                    (* None = contract creation *)
  tx_value : N;
  tx_data : list N;
  tx_access : list (N * list N);       (* EIP-2930 access list *)
  tx_blobfeecap : N;                   (* max_fee_per_blob_gas *)
  tx_blobhashes : list N;              (* versioned hashes (type 3) *)
  tx_auths : list auth                 (* authorisation list (type 4) *)
}.

(* what the transaction level distinguishes between Cancun / Prague / Osaka *)
Record tfork := mk_tfork {
  tf_evm : fork;                       (* the EVM rule set (EVM/Instr.v) *)
  tf_precompiles : list N;             (* warm at the start of a transaction (EIP-2929) *)
  tf_floor : bool;                     (* EIP-7623 (Prague) *)
  tf_gascap : bool;                    (* EIP-7825, and EIP-7594's per-tx blob limit (Osaka) *)
  tf_requests : bool;                  (* EIP-2935 / 7002 / 7251 system calls (Prague) *)
  tf_max_blob_gas : N                  (* per block: max blobs * GAS_PER_BLOB *)
}.

Record benv := mk_benv {
  b_coinbase : N; b_timestamp : N; b_number : N; b_prevrandao : N; b_gaslimit : N;
  b_chainid : N; b_basefee : N;
  b_blobbasefee : N                    (* get_base_fee_per_blob_gas(excess_blob_gas): property C35 *)
}.

Definition GAS_PER_BLOB : N := 131072.
Definition TX_MAX_GAS : N := 16777216.                 (* EIP-7825: 2^24 *)
Definition MAX_BLOBS_PER_TX : N := 6.                  (* EIP-7594 *)
Definition VERSIONED_HASH_VERSION_KZG : N := 1.

Inductive tx_err :=
| TE_NonceTooHigh | TE_NonceTooLow | TE_NonceMax        (* nonce mismatch; EIP-2681 *)
| TE_GasLimitTooHigh                                    (* EIP-7825 *)
| TE_SenderNoEOA                                        (* EIP-3607 *)
| TE_TipAboveFeeCap | TE_FeeCapTooLow                   (* EIP-1559 *)
| TE_BlobCreate | TE_MissingBlobHashes | TE_TooManyBlobs | TE_BlobVersion   (* EIP-4844 / 7594 *)
| TE_BlobFeeCapTooLow                                   (* EIP-4844 *)
| TE_InitCodeSize                                       (* EIP-3860 *)
| TE_GasLimitReached                                    (* block gas limit *)
| TE_InsufficientFunds
| TE_IntrinsicGas
| TE_FloorDataGas                                       (* EIP-7623 *)
| TE_InsufficientFundsForTransfer
| TE_BlobGasLimitReached                                (* block blob gas limit (Block.v) *)
| TE_EmptyAuthList | TE_SetCodeCreate                   (* EIP-7702 *)
| TE_TxTypeNotSupported.                                (* type 4 before Prague *)

(* ------------------------------------------------------------------ *)
(* gas of a transaction before execution *)

Definition count_zero (l : list N) : N := lenN (filter (fun b => b =? 0) l).

Definition access_keys (al : list (N * list N)) : N :=
  fold_left (fun n e => n + lenN (snd e)) al 0.

Definition pre_amsterdam : Fees.spec_forks :=
  Fees.Build_spec_forks true true true false.

Definition is_create (t : tx) : bool := match tx_to t with None => true | Some _ => false end.

(* EIP-2 / 2028 / 2930 / 3860 / 7702: Gas/Fees.v spec_intrinsic_gas *)
Definition intrinsic_gas (t : tx) : N :=
  let z := count_zero (tx_data t) in
  let nz := lenN (tx_data t) - z in
  Z.to_N (Fees.spec_intrinsic_gas pre_amsterdam (is_create t) false (negb (tx_value t =? 0))
            (Z.of_N (lenN (tx_auths t)))
            (Z.of_N z) (Z.of_N nz) (Z.of_N (lenN (tx_access t))) (Z.of_N (access_keys (tx_access t)))).

(* EIP-7623: Gas/Fees.v spec_floor_data_gas *)
Definition floor_gas (t : tx) : N :=
  let z := count_zero (tx_data t) in
  let nz := lenN (tx_data t) - z in
  Z.to_N (Fees.spec_floor_data_gas pre_amsterdam (is_create t) false (negb (tx_value t =? 0))
            (Z.of_N z) (Z.of_N nz) 0 0).

(* EIP-1559: effective_gas_price = min(max_fee, base_fee + max_priority_fee) *)
Definition eff_price (b : benv) (t : tx) : N :=
  N.min (tx_feecap t) (b_basefee b + tx_tipcap t).

Definition blob_gas (t : tx) : N := GAS_PER_BLOB * lenN (tx_blobhashes t).

(* EIP-7702: 0xef0100 || address (Step.parse_delegation) *)
Definition is_delegation (code : list N) : bool :=
  match parse_delegation code with Some _ => true | None => false end.
Definition delegation_code (a : N) : list N := 239 :: 1 :: 0 :: addr_bytes a.
Definition PER_EMPTY_ACCOUNT_COST : N := 25000.
Definition PER_AUTH_BASE_COST : N := 12500.

(* the version byte of a versioned hash *)
Definition hash_version (h : N) : N := h / 2 ^ 248.

(* ------------------------------------------------------------------ *)
(* validity of a transaction against the state [w] (accounts only) and the gas still
   available in the block.  Defects are reported in the order of geth's preCheck. *)
Definition validate_tx (tf : tfork) (b : benv) (w : world) (gas_available : N) (t : tx)
  : option tx_err :=
  let from := tx_from t in
  let st_nonce := get_nonce w from in
  if (tx_type t =? 4) && negb (fk_7702 (tf_evm tf)) then Some TE_TxTypeNotSupported
  else if st_nonce <? tx_nonce t then Some TE_NonceTooHigh
  else if tx_nonce t <? st_nonce then Some TE_NonceTooLow
  else if 2 ^ 64 <=? st_nonce + 1 then Some TE_NonceMax
  else if tf_gascap tf && (TX_MAX_GAS <? tx_gas t) then Some TE_GasLimitTooHigh
  else if (match get_code w from with [] => false | _ => true end)
          && negb (is_delegation (get_code w from)) then Some TE_SenderNoEOA
  else if tx_feecap t <? tx_tipcap t then Some TE_TipAboveFeeCap
  else if tx_feecap t <? b_basefee b then Some TE_FeeCapTooLow
  else
  match (if tx_type t =? 3 then
           if is_create t then Some TE_BlobCreate
           else match tx_blobhashes t with
                | [] => Some TE_MissingBlobHashes
                | _ =>
                    if tf_gascap tf && (MAX_BLOBS_PER_TX <? lenN (tx_blobhashes t))
                    then Some TE_TooManyBlobs
                    else if forallb (fun h => hash_version h =? VERSIONED_HASH_VERSION_KZG) (tx_blobhashes t)
                    then if tx_blobfeecap t <? b_blobbasefee b then Some TE_BlobFeeCapTooLow else None
                    else Some TE_BlobVersion
                end
         else None) with
  | Some e => Some e
  | None =>
      if (tx_type t =? 4) && is_create t then Some TE_SetCodeCreate
      else if (tx_type t =? 4) && (match tx_auths t with [] => true | _ => false end) then Some TE_EmptyAuthList
      else if is_create t && (max_initcode_size <? lenN (tx_data t)) then Some TE_InitCodeSize
      else if gas_available <? tx_gas t then Some TE_GasLimitReached
      else if get_balance w from <? tx_gas t * tx_feecap t + tx_value t + blob_gas t * tx_blobfeecap t
      then Some TE_InsufficientFunds
      else if tx_gas t <? intrinsic_gas t then Some TE_IntrinsicGas
      else if tf_floor tf && (tx_gas t <? floor_gas t) then Some TE_FloorDataGas
      else None
  end.

(* the up-front payment: gas_limit * effective_gas_price + blob_gas * blob_base_fee.
   (validate_tx guarantees it is covered: price <= fee cap, blob base fee <= blob fee cap.) *)
Definition upfront_cost (b : benv) (t : tx) : N :=
  tx_gas t * eff_price b t + blob_gas t * b_blobbasefee b.

Definition buy_gas (b : benv) (w : world) (t : tx) : world :=
  set_balance w (tx_from t) (get_balance w (tx_from t) - upfront_cost b t).

(* ------------------------------------------------------------------ *)
(* execution of the message *)

(* EIP-2929/2930/3651: the accessed sets at the start of the transaction — sender,
   destination, precompiles, coinbase and the transaction's access list; transient
   storage, refund counter, logs and the per-transaction marks start empty.
   With an empty access list this is Interp.prepare. *)
Definition prepare_al (e : env) (w : world) (dst : option N) (precompiles : list N)
           (al : list (N * list N)) : world :=
  let warm := e_origin e :: (match dst with Some a => [a] | None => [] end)
              ++ precompiles ++ [e_coinbase e] in
  mk_world (w_accounts w) [] (warm ++ map fst al)
           (flat_map (fun x => map (fun k => (fst x, k)) (snd x)) al) 0 [] [] [].

(* EIP-7702: one authorisation tuple; an invalid tuple is skipped (the authority stays
   warm once it has been recovered) *)
Definition apply_auth (chainid : N) (w : world) (a : auth) : world :=
  if negb ((au_chain a =? 0) || (au_chain a =? chainid)) then w
  else if 2 ^ 64 <=? au_nonce a + 1 then w
  else
    match au_authority a with
    | None => w
    | Some authority =>
        let w1 := warm_addr w authority in
        let code := get_code w1 authority in
        if (match code with [] => false | _ => true end) && negb (is_delegation code) then w1
        else if negb (get_nonce w1 authority =? au_nonce a) then w1
        else
          let w2 := if is_empty w1 authority then w1
                    else add_refund w1 (PER_EMPTY_ACCOUNT_COST - PER_AUTH_BASE_COST) in
          let w3 := set_code w2 authority
                             (if au_address a =? 0 then [] else delegation_code (au_address a)) in
          set_nonce w3 authority (au_nonce a + 1)
    end.

(* Interp.top_call with a transaction access list and an authorisation list: the
   authorisations are applied to the prepared state, then the delegation target of the
   destination (if any) is warm, then the message call runs; a failing call reverts to
   the state AFTER the authorisations *)
Definition top_call_al (e : env) (w : world) (precompiles : list N) (al : list (N * list N))
           (auths : list auth) (to value : N) (input : list N) (gas : N) : tx_result :=
  let w0 := prepare_al e w (Some to) precompiles al in
  let w1 := fold_left (apply_auth (e_chainid e)) auths w0 in
  let w2 := if fk_7702 (e_fork e) then
              match parse_delegation (get_code w1 to) with
              | Some t => warm_addr w1 t
              | None => w1
              end
            else w1 in
  let r := evm_call (run (pred max_depth_fuel)) e K_CALL (e_origin e) 0 0 false 0 w2 to value input gas in
  mk_tx_result (status_of (cr_err r)) (cr_ret r) (cr_gas r) to (cr_w r).

(* Interp.top_create with a transaction access list *)
Definition top_create_al (e : env) (w : world) (precompiles : list N) (al : list (N * list N))
           (value : N) (init : list N) (gas : N) : tx_result :=
  let w0 := prepare_al e w None precompiles al in
  let addr := create_address (fk_keccak (e_fork e)) (e_origin e) (get_nonce w0 (e_origin e)) in
  let r := evm_create (run (pred max_depth_fuel)) e (e_origin e) false 0 w0 init gas value addr in
  mk_tx_result (status_of (xr_err r)) (xr_ret r) (xr_gas r) addr (xr_w r).

Definition tx_env (tf : tfork) (b : benv) (w : world) (t : tx) : env :=
  mk_env (tf_evm tf) (tx_from t) (eff_price b t) (b_coinbase b) (b_timestamp b) (b_number b)
         (b_prevrandao b) (b_gaslimit b) (b_chainid b) (b_basefee b) (b_blobbasefee b)
         (tx_blobhashes t) (w_accounts w).

(* Yellow Paper (6.2): the sender's nonce is incremented and the up-front cost deducted
   (checkpoint state), then the message call / contract creation runs with
   gas limit - intrinsic gas.  A creation increments the nonce inside evm_create. *)
Definition exec_tx (tf : tfork) (b : benv) (w : world) (t : tx) : tx_result :=
  let e := tx_env tf b w t in
  let w1 := buy_gas b w t in
  let gas := tx_gas t - intrinsic_gas t in
  match tx_to t with
  | Some to =>
      let w2 := set_nonce w1 (tx_from t) (get_nonce w1 (tx_from t) + 1) in
      top_call_al e w2 (tf_precompiles tf) (tx_access t) (tx_auths t) to (tx_value t) (tx_data t) gas
  | None =>
      top_create_al e w1 (tf_precompiles tf) (tx_access t) (tx_value t) (tx_data t) gas
  end.

(* ------------------------------------------------------------------ *)
(* settlement *)

(* gas used: EIP-3529 refund cap, then the EIP-7623 floor.  Returns (gas used, refund applied). *)
Definition settle (tf : tfork) (t : tx) (gas_left refund_counter : N) : N * N :=
  let used0 := tx_gas t - gas_left in
  let refund := N.min (used0 / 5) refund_counter in
  let used1 := used0 - refund in
  (if tf_floor tf && (used1 <? floor_gas t) then floor_gas t else used1, refund).

(* end of transaction (Yellow Paper (6.2) final state; EIP-161; EIP-6780): accounts marked
   by SELFDESTRUCT disappear, so do accounts that are empty (nonce 0, balance 0, no code) *)
Definition account_dead (x : N * account) : bool :=
  let a := snd x in
  (acc_nonce a =? 0) && (acc_balance a =? 0) && match acc_code a with [] => true | _ => false end.
Definition finalise (w : world) : nmap account :=
  filter (fun x => negb (account_dead x)) (finalise_accounts w).

(* the receipt of an included transaction.  [rc_status] is the outcome of the outermost
   frame (S_Ok = receipt status 1); a [S_Fault] status is a model artefact that
   Properties/C26.v (spec_total) and Properties/C27.v bound. *)
Record tx_receipt := mk_tx_receipt {
  rc_status : status; rc_gas_used : N; rc_refund : N; rc_logs : list log;
  rc_created : N                       (* the new contract's address for a creation, else 0 *)
}.

(* One transaction against the accounts [accts] with [gas_available] gas left in the
   block: either a rejection (the caller keeps [accts]) or the new accounts and the
   receipt.  The unused gas is returned at the effective price, the priority fee goes
   to the coinbase, the base fee and the blob fee are burnt. *)
Definition apply_tx (tf : tfork) (b : benv) (accts : nmap account) (gas_available : N) (t : tx)
  : tx_err + (nmap account * tx_receipt) :=
  let w := mk_world accts [] [] [] 0 [] [] [] in
  match validate_tx tf b w gas_available t with
  | Some e => inl e
  | None =>
      (* after the up-front payment the sender must still own the value *)
      if get_balance (buy_gas b w t) (tx_from t) <? tx_value t then inl TE_InsufficientFundsForTransfer
      else
      let r := exec_tx tf b w t in
      let '(used, refund) := settle tf t (t_gas r) (w_refund (t_w r)) in
      let price := eff_price b t in
      let w1 := add_balance (t_w r) (tx_from t) ((tx_gas t - used) * price) in
      let w2 := add_balance w1 (b_coinbase b) (used * (price - b_basefee b)) in
      inr (finalise w2, mk_tx_receipt (t_status r) used refund (rev (w_logs (t_w r)))
                                    (if is_create t then t_addr r else 0))
  end.
