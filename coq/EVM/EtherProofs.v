(* EVM/EtherProofs.v — conservation of ether in the EVM core model and in the
   transaction / block level of the execution specification (C32).

   Part A: sums of balances over association lists and through the state primitives.
   Part B: transfer_conserves; the SELFDESTRUCT cases, exactly.
   Part C: frames never create ether (instance of FramesProofs.run_P), instructions other
           than SELFDESTRUCT / CALL-family / CREATE-family conserve exactly, calls and
           creations conserve exactly up to the child frame, failed frames conserve.
   Part D: one transaction of EVM/Tx.v (tx_accounting).
   Part E: the transaction loop and the withdrawals of EVM/Block.v (block_conservation). *)
From GV Require Import Lib.Tactics Lib.Bytes EVM.Word256 EVM.Memory EVM.Gas EVM.State EVM.Instr.
From GV Require Import EVM.Step EVM.Interp EVM.InterpProofs EVM.Frames EVM.FramesProofs.
From GV Require Import EVM.Tx EVM.TxProofs EVM.Block EVM.Ether.
Local Open Scope Z_scope.

Local Arguments N.add : simpl never.
Local Arguments N.sub : simpl never.
Local Arguments N.mul : simpl never.
Local Arguments N.div : simpl never.
Local Arguments N.modulo : simpl never.
Local Arguments N.pow : simpl never.
Local Arguments N.ltb : simpl never.
Local Arguments N.leb : simpl never.
Local Arguments N.eqb : simpl never.
Local Arguments Z.of_N : simpl never.
Local Arguments Z.add : simpl never.
Local Arguments Z.sub : simpl never.

(* ------------------------------------------------------------------ *)
(* Part A *)

Lemma total_accts_nonneg m : 0 <= total_accts m.
Proof. induction m as [|[k x] r IH]; simpl; lia. Qed.

Lemma bal_of_nonneg o : 0 <= bal_of o.
Proof. destruct o; simpl; lia. Qed.

Lemma total_nm_set m k x :
  total_accts (nm_set m k x) = total_accts m - bal_of (nm_get m k) + Z.of_N (acc_balance x).
Proof.
  induction m as [|[k' v'] r IH]; simpl.
  - lia.
  - destruct (k =? k')%N eqn:E1; simpl.
    + lia.
    + destruct (k <? k')%N; simpl; [lia|]. rewrite IH. lia.
Qed.

Lemma total_nm_remove m k :
  total_accts (nm_remove m k) = total_accts m - bal_of (nm_get m k).
Proof.
  induction m as [|[k' v'] r IH]; simpl.
  - lia.
  - destruct (k =? k')%N eqn:E1; simpl.
    + lia.
    + destruct (k <? k')%N; simpl; [lia|]. rewrite IH. lia.
Qed.

Lemma bal_of_get_le m k : bal_of (nm_get m k) <= total_accts m.
Proof.
  induction m as [|[k' v'] r IH]; simpl; [lia|].
  pose proof (total_accts_nonneg r).
  destruct (k =? k')%N; simpl; [lia|]. destruct (k <? k')%N; simpl; lia.
Qed.

Lemma bal_of_get_two m a b :
  a <> b -> bal_of (nm_get m a) + bal_of (nm_get m b) <= total_accts m.
Proof.
  intros Hne. induction m as [|[k' v'] r IH]; simpl; [lia|].
  pose proof (total_accts_nonneg r). pose proof (bal_of_get_le r a). pose proof (bal_of_get_le r b).
  destruct (a =? k')%N eqn:Ea; destruct (b =? k')%N eqn:Eb; simpl.
  - apply N.eqb_eq in Ea, Eb. congruence.
  - destruct (b <? k')%N; simpl; lia.
  - destruct (a <? k')%N; simpl; lia.
  - destruct (a <? k')%N; destruct (b <? k')%N; simpl; lia.
Qed.

Lemma bal_of_get w a : bal_of (nm_get (w_accounts w) a) = Z.of_N (get_balance w a).
Proof. unfold get_balance, get_account. destruct (nm_get _ a); reflexivity. Qed.

Lemma get_balance_le_total w a : Z.of_N (get_balance w a) <= total w.
Proof. rewrite <- bal_of_get. apply bal_of_get_le. Qed.

Lemma get_balance_two_le_total w a b :
  a <> b -> Z.of_N (get_balance w a) + Z.of_N (get_balance w b) <= total w.
Proof. intros H. rewrite <- !bal_of_get. apply bal_of_get_two. exact H. Qed.

Lemma total_nonneg w : 0 <= total w.
Proof. apply total_accts_nonneg. Qed.

Lemma total_set_account w a x :
  total (set_account w a x) = total w - Z.of_N (get_balance w a) + Z.of_N (acc_balance x).
Proof. unfold total, set_account. simpl. rewrite total_nm_set, bal_of_get. reflexivity. Qed.

Lemma total_set_balance w a b :
  total (set_balance w a b) = total w - Z.of_N (get_balance w a) + Z.of_N b.
Proof. unfold set_balance. rewrite total_set_account. reflexivity. Qed.

Lemma total_set_nonce w a n : total (set_nonce w a n) = total w.
Proof. unfold set_nonce. rewrite total_set_account. simpl. unfold get_balance. lia. Qed.
Lemma total_set_code w a c : total (set_code w a c) = total w.
Proof. unfold set_code. rewrite total_set_account. simpl. unfold get_balance. lia. Qed.
Lemma total_set_storage w a k v : total (set_storage w a k v) = total w.
Proof. unfold set_storage. rewrite total_set_account. simpl. unfold get_balance. lia. Qed.

Lemma total_warm_addr w a : total (warm_addr w a) = total w.
Proof. unfold warm_addr. destruct (is_warm_addr w a); reflexivity. Qed.
Lemma total_warm_slot w a k : total (warm_slot w a k) = total w.
Proof. unfold warm_slot. destruct (is_warm_slot w a k); reflexivity. Qed.
Lemma total_mark_created w a : total (mark_created w a) = total w.
Proof. unfold mark_created. destruct (is_created w a); reflexivity. Qed.
Lemma total_mark_destructed w a : total (mark_destructed w a) = total w.
Proof. unfold mark_destructed. destruct (is_destructed w a); reflexivity. Qed.

Lemma get_balance_set_balance_same w a b : get_balance (set_balance w a b) a = b.
Proof. unfold get_balance, set_balance. rewrite get_account_set_same. reflexivity. Qed.
Lemma get_balance_set_balance_other w a b c :
  c <> a -> get_balance (set_balance w a b) c = get_balance w c.
Proof. intros H. unfold get_balance, set_balance. rewrite get_account_set_other; auto. Qed.

(* AddBalance without uint256 wrap-around *)
Lemma add_balance_nowrap w a v :
  Z.of_N (get_balance w a) + Z.of_N v < Z.of_N wmod ->
  add_balance w a v = set_balance w a (get_balance w a + v)%N.
Proof. intros H. unfold add_balance. rewrite wrap_small by lia. reflexivity. Qed.

Lemma total_add_balance' w a v :
  Z.of_N (get_balance w a) + Z.of_N v < Z.of_N wmod -> total (add_balance w a v) = total w + Z.of_N v.
Proof. intros H. rewrite add_balance_nowrap by lia. rewrite total_set_balance. lia. Qed.

Lemma total_add_balance w a v :
  total w + Z.of_N v < Z.of_N wmod -> total (add_balance w a v) = total w + Z.of_N v.
Proof. intros H. pose proof (get_balance_le_total w a). apply total_add_balance'. lia. Qed.

Lemma get_balance_add_balance_same w a v :
  total w + Z.of_N v < Z.of_N wmod -> get_balance (add_balance w a v) a = (get_balance w a + v)%N.
Proof.
  intros H. pose proof (get_balance_le_total w a).
  rewrite add_balance_nowrap by lia. apply get_balance_set_balance_same.
Qed.
Lemma get_balance_add_balance_other w a v c :
  c <> a -> get_balance (add_balance w a v) c = get_balance w c.
Proof. intros H. unfold add_balance. apply get_balance_set_balance_other. exact H. Qed.

(* ------------------------------------------------------------------ *)
(* Part B *)

(* core.CanTransfer + core.Transfer: a value transfer moves ether, it neither creates nor
   destroys any *)
Lemma transfer_conserves w a b v w' :
  supply_ok w -> transfer w a b v = Some w' -> total w' = total w.
Proof.
  unfold supply_ok, transfer. intros Hs H.
  destruct (get_balance w a <? v)%N eqn:E; [discriminate|]. apply N.ltb_ge in E.
  inversion H; subst w'; clear H.
  set (w1 := set_balance w a (get_balance w a - v)%N).
  assert (T1 : total w1 = total w - Z.of_N v) by (unfold w1; rewrite total_set_balance; lia).
  assert (Hb : Z.of_N (get_balance w1 b) + Z.of_N v <= total w).
  { destruct (N.eq_dec b a) as [->|Hne].
    - unfold w1. rewrite get_balance_set_balance_same. pose proof (get_balance_le_total w a). lia.
    - unfold w1. rewrite get_balance_set_balance_other by auto.
      pose proof (get_balance_two_le_total w a b (not_eq_sym Hne)). lia. }
  rewrite add_balance_nowrap by lia. rewrite total_set_balance. lia.
Qed.

Lemma sd_burn_nonneg w this ben : 0 <= sd_burn w this ben.
Proof. unfold sd_burn. destruct (_ && _); lia. Qed.

(* opSelfdestruct6780, every case: the supply changes by exactly sd_burn *)
Lemma selfdestruct_cases w1 this ben :
  supply_ok w1 -> total (sd_effect w1 this ben) = total w1 - sd_burn w1 this ben.
Proof.
  unfold supply_ok, sd_effect, sd_burn. intros Hs. cbv zeta.
  pose proof (get_balance_le_total w1 this) as Hle.
  destruct (is_created w1 this) eqn:Ec; simpl andb.
  - rewrite total_mark_destructed. destruct (this =? ben)%N eqn:E.
    + rewrite total_set_balance. lia.
    + apply N.eqb_neq in E.
      pose proof (get_balance_two_le_total w1 this ben E) as H2.
      rewrite total_set_balance.
      rewrite get_balance_add_balance_other by auto.
      rewrite total_add_balance' by lia. lia.
  - destruct (this =? ben)%N eqn:E; [lia|]. apply N.eqb_neq in E.
    pose proof (get_balance_two_le_total w1 this ben E) as H2.
    assert (T1 : total (set_balance w1 this 0) = total w1 - Z.of_N (get_balance w1 this))
      by (rewrite total_set_balance; lia).
    rewrite total_add_balance' by (rewrite get_balance_set_balance_other by auto; lia). lia.
Qed.

(* ------------------------------------------------------------------ *)
(* Part C *)

Section NoCreation.
Variable w0 : world.
Hypothesis H0 : supply_ok w0.

Let P := fun w => total w <= total w0.

Lemma P_supply w : P w -> supply_ok w.
Proof. unfold P, supply_ok in *. lia. Qed.

Lemma le_warm_addr w a : P w -> P (warm_addr w a).
Proof. unfold P. rewrite total_warm_addr. auto. Qed.
Lemma le_warm_slot w a k : P w -> P (warm_slot w a k).
Proof. unfold P. rewrite total_warm_slot. auto. Qed.
Lemma le_transfer w a b v w' : P w -> transfer w a b v = Some w' -> P w'.
Proof. intros Hp Ht. unfold P. rewrite (transfer_conserves _ _ _ _ _ (P_supply _ Hp) Ht). exact Hp. Qed.
Lemma le_sd w this ben : P w -> P (sd_effect w this ben).
Proof.
  intros Hp. unfold P. rewrite (selfdestruct_cases _ _ _ (P_supply _ Hp)).
  pose proof (sd_burn_nonneg w this ben). unfold P in Hp. lia.
Qed.

Ltac le_close :=
  try unfold sd_closed; intros;
  first [ eapply le_transfer; eassumption
        | apply le_sd; assumption
        | unfold P in *;
          rewrite ?total_warm_addr, ?total_warm_slot, ?total_set_nonce, ?total_mark_created,
                  ?total_set_code, ?total_set_storage; assumption ].

Lemma le_run d : rec_ok P true (run d).
Proof. apply (run_P P true); le_close. Qed.

Lemma le_frame d c w gas : P w -> P (r_w (run d c w gas)).
Proof. intros Hp. apply le_run; auto. left; reflexivity. Qed.

Lemma le_reachable d c w gas f :
  P w -> reachable (step (run d) c) (init_frame w gas) f -> P (f_w f).
Proof.
  intros Hp Hr.
  apply (reachable_P P true) with (rec := run d) (c := c) (w := w) (gas := gas);
    try exact Hr; try exact Hp; try apply le_run; try (left; reflexivity); le_close.
Qed.

Lemma le_call d e k this tc tv static depth w to value input gas :
  P w -> P (cr_w (evm_call (run d) e k this tc tv static depth w to value input gas)).
Proof.
  intros Hp. apply (evm_call_P P true); try exact Hp; try apply le_run; try (left; reflexivity); le_close.
Qed.

Lemma le_create d e this static depth w init gas value addr :
  P w -> P (xr_w (evm_create (run d) e this static depth w init gas value addr)).
Proof.
  intros Hp. apply (evm_create_P P true); try exact Hp; try apply le_run; try reflexivity; le_close.
Qed.
End NoCreation.

(* frame_conserves, global form: no frame — message call or creation, at any depth, with
   all its descendants — ever increases the supply; the decrease is the ether burnt by
   SELFDESTRUCT (selfdestruct_cases) in frames that were not reverted *)
Lemma frame_conserves_le d c w gas :
  supply_ok w ->
  total (r_w (run d c w gas)) <= total w /\
  forall f, reachable (step (run (pred d)) c) (init_frame w gas) f -> total (f_w f) <= total w.
Proof.
  intros Hs. split.
  - apply (le_frame w Hs). lia.
  - intros f Hr. apply (le_reachable w Hs (pred d) c w gas f); [lia|exact Hr].
Qed.

Lemma call_conserves_le d e k this tc tv static depth w to value input gas :
  supply_ok w ->
  total (cr_w (evm_call (run d) e k this tc tv static depth w to value input gas)) <= total w.
Proof. intros Hs. apply (le_call w Hs). lia. Qed.

Lemma create_conserves_le d e this static depth w init gas value addr :
  supply_ok w ->
  total (xr_w (evm_create (run d) e this static depth w init gas value addr)) <= total w.
Proof. intros Hs. apply (le_create w Hs). lia. Qed.

(* frame_conserves, local exact form 1: every instruction other than SELFDESTRUCT, the
   CALL family and CREATE / CREATE2 leaves the supply exactly unchanged *)
Definition plain_instr (i : instr) : bool :=
  match i with I_SELFDESTRUCT | I_CREATE | I_CREATE2 | I_call _ => false | _ => true end.

Definition rec_id (c : ctx) (w : world) (g : N) : fresult := mk_fresult S_Ok [] g w.

Lemma plain_instr_conserves rec c f i :
  plain_instr i = true -> supply_ok (f_w f) ->
  total (out_world (exec_instr rec c f i)) = total (f_w f).
Proof.
  intros Hp Hs.
  assert (E : exec_instr rec c f i = exec_instr rec_id c f i)
    by (destruct i; try discriminate; reflexivity).
  rewrite E.
  set (Q := fun w => total w = total (f_w f)).
  assert (Qs : forall w, Q w -> supply_ok w) by (unfold Q, supply_ok in *; intros; lia).
  assert (Qt : forall w a b v w', Q w -> transfer w a b v = Some w' -> Q w').
  { intros w a b v w' Hq Ht. unfold Q. rewrite (transfer_conserves _ _ _ _ _ (Qs _ Hq) Ht). exact Hq. }
  assert (Qsd : i = I_SELFDESTRUCT -> sd_closed Q true) by (intros ->; discriminate).
  apply (exec_instr_P Q true) with (rec := rec_id);
    try exact Qsd; try (left; reflexivity); try reflexivity;
    try (intros c1 w g _ Hq; exact Hq);
    intros;
    first [ eapply Qt; eassumption
          | unfold Q in *;
            rewrite ?total_warm_addr, ?total_warm_slot, ?total_set_nonce, ?total_mark_created,
                    ?total_set_code, ?total_set_storage; assumption ].
Qed.

(* local exact form 2: a message call leaves the supply unchanged except for what the
   callee's frame does, which starts from a state with the same supply (the value
   transfer conserves) *)
Lemma call_conserves_exact rec e k this tc tv static depth w to value input gas :
  supply_ok w ->
  let r := evm_call rec e k this tc tv static depth w to value input gas in
  total (cr_w r) = total w \/
  exists c' w1, total w1 = total w /\ cr_w r = r_w (rec c' w1 gas).
Proof.
  intros Hs. cbv zeta. unfold evm_call. destruct (1024 <? depth)%N; [left; reflexivity|].
  assert (H : forall c' a w1, total w1 = total w ->
    total (cr_w (run_callee rec c' a w w1 input gas)) = total w \/
    exists c'' w1', total w1' = total w /\ cr_w (run_callee rec c' a w w1 input gas) = r_w (rec c'' w1' gas)).
  { intros c' a w1 Hw1. unfold run_callee, run_precompile. destruct (fk_is_precompile _ a).
    - destruct (fk_precompile _ a input) as [cost out]. destruct (charge gas cost); [|left; reflexivity].
      destruct out; left; simpl; auto.
    - destruct (c_code c'); [left; exact Hw1|].
      destruct (r_status (rec c' w1 gas)) eqn:Es; simpl; try (left; reflexivity).
      right. exists c', w1. auto. }
  destruct k.
  - destruct (transfer w this to value) as [w1|] eqn:Et; [|left; reflexivity].
    apply H. eapply transfer_conserves; eauto.
  - destruct (_ <? _)%N; [left; reflexivity|]. apply H. reflexivity.
  - apply H. reflexivity.
  - apply H. reflexivity.
Qed.

(* local exact form 3: a creation leaves the supply unchanged except for what the init
   code's frame does (nonce bump, endowment transfer and code deposit conserve) *)
Lemma create_conserves_exact rec e this static depth w init gas value addr :
  supply_ok w ->
  let r := evm_create rec e this static depth w init gas value addr in
  total (xr_w r) = total w \/
  exists c' w1, total w1 = total w /\ total (xr_w r) = total (r_w (rec c' w1 gas)).
Proof.
  intros Hs. cbv zeta. unfold evm_create.
  destruct (1024 <? depth)%N; [left; reflexivity|].
  destruct (_ <? value)%N; [left; reflexivity|].
  destruct (2 ^ 64 <=? _)%N; [left; reflexivity|].
  cbv zeta.
  set (w2 := warm_addr (set_nonce w this (get_nonce w this + 1)%N) addr).
  assert (T2 : total w2 = total w) by (unfold w2; rewrite total_warm_addr, total_set_nonce; reflexivity).
  destruct (_ || _); [left; exact T2|].
  destruct (transfer _ this addr value) as [w4|] eqn:Et; [|left; reflexivity].
  assert (T4 : total w4 = total w).
  { rewrite (transfer_conserves _ _ _ _ _ ltac:(unfold supply_ok in *; rewrite total_set_nonce, total_mark_created, T2; exact Hs) Et).
    rewrite total_set_nonce, total_mark_created. exact T2. }
  set (c' := new_ctx e addr this value [] init static (depth + 1)%N).
  set (r := match init with [] => mk_fresult S_Ok [] gas w4 | _ :: _ => rec c' w4 gas end).
  assert (Hr : total (r_w r) = total w \/ r_w r = r_w (rec c' w4 gas)).
  { subst r. destruct init; [left; exact T4|right; reflexivity]. }
  destruct (r_status r); simpl; try (left; exact T2).
  apply (ef_elim (fun t => total (xr_w t) = total w \/
                    exists c'' w1, total w1 = total w /\ total (xr_w t) = total (r_w (rec c'' w1 gas)))).
  - left; exact T2.
  - destruct (charge _ _); simpl; [|left; exact T2].
    destruct (max_code_size <? _)%N; simpl; [left; exact T2|].
    assert (Hc : total (match r_out r with [] => r_w r | _ :: _ => set_code (r_w r) addr (r_out r) end)
                 = total (r_w r)) by (destruct (r_out r); [reflexivity|apply total_set_code]).
    rewrite Hc. destruct Hr as [Hr|Hr]; [left; exact Hr|].
    right. exists c', w4. split; [exact T4|]. rewrite Hr. reflexivity.
Qed.

(* revert_conserves: a failed call or creation leaves the supply exactly as it was (a
   corollary of C29: the world is restored) *)
Lemma revert_conserves_call rec e k this tc tv static depth w to value input gas s :
  cr_err (evm_call rec e k this tc tv static depth w to value input gas) = Some s ->
  total (cr_w (evm_call rec e k this tc tv static depth w to value input gas)) = total w.
Proof. intros H. rewrite (call_revert_restores _ _ _ _ _ _ _ _ _ _ _ _ _ _ H). reflexivity. Qed.

Lemma revert_conserves_create rec e this static depth w init gas value addr s :
  xr_err (evm_create rec e this static depth w init gas value addr) = Some s ->
  total (xr_w (evm_create rec e this static depth w init gas value addr)) = total w.
Proof.
  intros H. rewrite (create_revert_restores _ _ _ _ _ _ _ _ _ _ _ H).
  unfold create_failed_world, create_entry. destruct (create_precheck_fails _ _ _ _); [reflexivity|].
  rewrite total_warm_addr, total_set_nonce. reflexivity.
Qed.

(* ------------------------------------------------------------------ *)
(* Part D: one transaction *)

Lemma destroyed_fold_nonneg l : forall m, 0 <= destroyed_fold m l.
Proof.
  induction l as [|a l IH]; intros m; simpl; [lia|].
  pose proof (bal_of_nonneg (nm_get m a)). specialize (IH (nm_remove m a)). lia.
Qed.

Lemma total_remove_all l : forall m,
  total_accts (fold_left (fun m a => nm_remove m a) l m) = total_accts m - destroyed_fold m l.
Proof.
  induction l as [|a l IH]; intros m; simpl; [lia|].
  rewrite IH, total_nm_remove. lia.
Qed.

Lemma total_filter_dead m :
  total_accts (filter (fun x => negb (account_dead x)) m) = total_accts m.
Proof.
  induction m as [|[k x] r IH]; simpl; [reflexivity|].
  destruct (account_dead (k, x)) eqn:E; simpl; [|rewrite IH; reflexivity].
  unfold account_dead in E. simpl in E.
  apply andb_true_iff in E. destruct E as [E _]. apply andb_true_iff in E. destruct E as [_ E].
  apply N.eqb_eq in E. rewrite IH, E. lia.
Qed.

(* Finalise: exactly the ether held by the accounts marked self-destructed disappears *)
Lemma total_finalise w : total_accts (finalise w) = total w - finalise_destroyed w.
Proof.
  unfold finalise, finalise_accounts, finalise_destroyed, total.
  rewrite total_filter_dead, total_remove_all. reflexivity.
Qed.

Lemma finalise_destroyed_nonneg w : 0 <= finalise_destroyed w.
Proof. apply destroyed_fold_nonneg. Qed.

(* what validation guarantees about money: the fee cap covers the base fee and the
   sender owns the up-front cost *)
Lemma validate_tx_funds tf b w ga t :
  validate_tx tf b w ga t = None -> tx_wf t ->
  (b_basefee b <= tx_feecap t)%N /\ (upfront_cost b t <= get_balance w (tx_from t))%N.
Proof.
  unfold validate_tx. cbv zeta. intros V Hwf. revert V.
  repeat match goal with
         | |- (if ?c then Some _ else _) = None -> _ => destruct c eqn:?; [discriminate|]
         end.
  match goal with |- match ?x with Some e => Some e | None => _ end = None -> _ =>
    destruct x eqn:Hblob; [discriminate|] end.
  repeat match goal with
         | |- (if ?c then Some _ else _) = None -> _ => destruct c eqn:?; [discriminate|]
         end.
  intros _.
  assert (Hfee : (b_basefee b <= tx_feecap t)%N).
  { match goal with H : (tx_feecap t <? b_basefee b)%N = false |- _ => apply N.ltb_ge in H; exact H end. }
  split; [exact Hfee|].
  assert (Hblobfee : (blob_gas t * b_blobbasefee b <= blob_gas t * tx_blobfeecap t)%N).
  { destruct (tx_type t =? 3)%N eqn:E3.
    - revert Hblob.
      destruct (is_create t); [discriminate|].
      destruct (tx_blobhashes t) eqn:Eh; [discriminate|].
      destruct (tf_gascap tf && (MAX_BLOBS_PER_TX <? _)%N); [discriminate|].
      destruct (forallb _ _); [|discriminate].
      destruct (tx_blobfeecap t <? b_blobbasefee b)%N eqn:Ef; [discriminate|]. intros _.
      apply N.ltb_ge in Ef. apply N.mul_le_mono_l. exact Ef.
    - apply N.eqb_neq in E3. unfold blob_gas. rewrite (Hwf E3).
      replace (lenN (@nil N)) with 0%N by reflexivity. rewrite N.mul_0_r. simpl. lia. }
  assert (Hprice : (tx_gas t * eff_price b t <= tx_gas t * tx_feecap t)%N).
  { apply N.mul_le_mono_l. unfold eff_price. apply N.le_min_l. }
  match goal with H : (get_balance w (tx_from t) <? _)%N = false |- _ => apply N.ltb_ge in H end.
  unfold upfront_cost. lia.
Qed.

Lemma eff_price_ge_basefee b t : (b_basefee b <= tx_feecap t)%N -> (b_basefee b <= eff_price b t)%N.
Proof. intros H. unfold eff_price. lia. Qed.

Lemma total_buy_gas b w t :
  (upfront_cost b t <= get_balance w (tx_from t))%N ->
  total (buy_gas b w t) = total w - Z.of_N (upfront_cost b t).
Proof. intros H. unfold buy_gas. rewrite total_set_balance. lia. Qed.

(* EIP-7702 authorisations touch code, nonces, warmth and the refund counter only *)
Lemma total_apply_auth cid w a : total (apply_auth cid w a) = total w.
Proof.
  unfold apply_auth.
  destruct (negb _); [reflexivity|].
  destruct (2 ^ 64 <=? _)%N; [reflexivity|].
  destruct (au_authority a) as [authority|]; [|reflexivity].
  cbv zeta.
  destruct (_ && _); [apply total_warm_addr|].
  destruct (negb _); [apply total_warm_addr|].
  rewrite total_set_nonce, total_set_code.
  destruct (is_empty _ _); [apply total_warm_addr|].
  unfold add_refund. change (total (set_refund ?x ?r)) with (total x). apply total_warm_addr.
Qed.

Lemma total_fold_auth cid auths : forall w,
  total (fold_left (apply_auth cid) auths w) = total w.
Proof.
  induction auths as [|a auths IH]; intros w; simpl; [reflexivity|].
  rewrite IH. apply total_apply_auth.
Qed.

(* the execution proper never creates ether *)
Lemma exec_tx_le tf b w t :
  supply_ok (buy_gas b w t) -> total (t_w (exec_tx tf b w t)) <= total (buy_gas b w t).
Proof.
  intros Hs. unfold exec_tx. cbv zeta. destruct (tx_to t) as [to|].
  - unfold top_call_al. cbv zeta. cbn [t_w].
    match goal with |- total (cr_w (evm_call _ _ _ _ _ _ _ _ ?w0 _ _ _ _)) <= _ =>
      assert (T0 : total w0 = total (buy_gas b w t)) end.
    { match goal with |- total (if ?c then _ else _) = _ => destruct c end;
        [match goal with |- total (match ?x with Some _ => _ | None => _ end) = _ => destruct x end;
         [rewrite total_warm_addr|]|];
        rewrite total_fold_auth; unfold total, prepare_al; cbn [w_accounts]; apply total_set_nonce. }
    rewrite <- T0. apply call_conserves_le. unfold supply_ok in *. rewrite T0. exact Hs.
  - unfold top_create_al. cbv zeta. cbn [t_w].
    match goal with |- total (xr_w (evm_create _ _ _ _ _ ?w0 _ _ _ _)) <= _ =>
      assert (T0 : total w0 = total (buy_gas b w t)) by reflexivity end.
    rewrite <- T0. apply create_conserves_le. unfold supply_ok in *. rewrite T0. exact Hs.
Qed.

Lemma fee_split g u p bf :
  (u <= g)%N -> (bf <= p)%N -> ((g - u) * p + u * (p - bf) + u * bf = g * p)%N.
Proof. intros H1 H2. nia. Qed.

(* tx_accounting.  For an included transaction of EVM/Tx.v:
   - the receipt's gas used is [tx_used], the new accounts are Finalise of [tx_settled];
   - the sender owns and pays gas * price + blob fee up front, without truncation;
   - gas used <= gas limit and base fee <= effective price, so that the sender gets back
     (gas - used) * price, the coinbase receives used * (price - base fee) — exactly these
     amounts, on top of whatever the execution left in the accounts, for every address;
   - hence the supply shrinks by exactly used * base fee + blob fee (credited to nobody)
     plus the ether destroyed by the execution (>= 0) and by Finalise (>= 0). *)
Lemma tx_accounting tf b accts ga t accts' rc :
  apply_tx tf b accts ga t = inr (accts', rc) -> tx_wf t -> supply_ok (pre_world accts) ->
  let w := pre_world accts in
  let used := tx_used tf b accts t in
  let price := eff_price b t in
  let r := tx_exec tf b accts t in
  rc_gas_used rc = used /\ accts' = finalise (tx_settled tf b accts t) /\
  (upfront_cost b t <= get_balance w (tx_from t))%N /\
  get_balance (buy_gas b w t) (tx_from t) = (get_balance w (tx_from t) - upfront_cost b t)%N /\
  (used <= tx_gas t)%N /\ (b_basefee b <= price)%N /\
  (forall a, Z.of_N (get_balance (tx_settled tf b accts t) a) =
             Z.of_N (get_balance (t_w r) a)
             + (if (a =? tx_from t)%N then Z.of_N ((tx_gas t - used) * price) else 0)
             + (if (a =? b_coinbase b)%N then Z.of_N (used * (price - b_basefee b)) else 0)) /\
  total_accts accts' = total_accts accts - tx_fee_burnt b t used
                       - tx_evm_destroyed tf b accts t - tx_final_destroyed tf b accts t /\
  0 <= tx_evm_destroyed tf b accts t /\ 0 <= tx_final_destroyed tf b accts t.
Proof.
  intros Happ Hwf Hs. cbv zeta.
  unfold apply_tx in Happ. cbv zeta in Happ.
  fold (pre_world accts) in Happ. set (w := pre_world accts) in *.
  destruct (validate_tx tf b w ga t) eqn:V; [discriminate|].
  destruct (validate_tx_ok _ _ _ _ _ V) as (Hga & Hi & Hf).
  destruct (validate_tx_funds _ _ _ _ _ V Hwf) as (Hfee & Hfunds).
  destruct (_ <? tx_value t)%N; [discriminate|].
  destruct (exec_tx_good tf b w t) as [Hg _].
  destruct (settle tf t _ _) as [used refund] eqn:S.
  destruct (settle_bounds _ _ _ _ _ _ Hi Hf Hg S) as (Hused & _).
  inversion Happ; subst accts' rc; clear Happ.
  assert (Eu : tx_used tf b accts t = used).
  { unfold tx_used, tx_exec. fold w. rewrite S. reflexivity. }
  rewrite Eu. simpl rc_gas_used.
  pose proof (eff_price_ge_basefee b t Hfee) as Hp.
  set (price := eff_price b t) in *.
  set (r := exec_tx tf b w t) in *.
  assert (Er : tx_exec tf b accts t = r) by reflexivity.
  rewrite Er.
  assert (Tb : total (buy_gas b w t) = total w - Z.of_N (upfront_cost b t)) by (apply total_buy_gas; exact Hfunds).
  assert (Sb : supply_ok (buy_gas b w t)) by (unfold supply_ok in *; lia).
  pose proof (exec_tx_le tf b w t Sb) as Hle. fold r in Hle.
  pose proof (fee_split (tx_gas t) used price (b_basefee b) Hused Hp) as Hsplit.
  assert (Hup : (tx_gas t * price <= upfront_cost b t)%N) by (unfold upfront_cost; fold price; lia).
  set (refundv := ((tx_gas t - used) * price)%N) in *.
  set (tipv := (used * (price - b_basefee b))%N) in *.
  assert (Hset : tx_settled tf b accts t = add_balance (add_balance (t_w r) (tx_from t) refundv) (b_coinbase b) tipv).
  { unfold tx_settled. cbv zeta. rewrite Eu, Er. reflexivity. }
  pose proof (total_nonneg (t_w r)) as Hnn.
  assert (N1 : total (t_w r) + Z.of_N refundv < Z.of_N wmod) by (unfold supply_ok in Hs; lia).
  assert (T1 : total (add_balance (t_w r) (tx_from t) refundv) = total (t_w r) + Z.of_N refundv)
    by (apply total_add_balance; exact N1).
  assert (N2 : total (add_balance (t_w r) (tx_from t) refundv) + Z.of_N tipv < Z.of_N wmod)
    by (unfold supply_ok in Hs; lia).
  assert (T2 : total (tx_settled tf b accts t) = total (t_w r) + Z.of_N refundv + Z.of_N tipv)
    by (rewrite Hset, total_add_balance by exact N2; lia).
  split; [reflexivity|]. split; [rewrite Hset; reflexivity|].
  split; [exact Hfunds|].
  split; [unfold buy_gas; apply get_balance_set_balance_same|].
  split; [exact Hused|]. split; [exact Hp|].
  split.
  { intros a. rewrite Hset.
    destruct (a =? b_coinbase b)%N eqn:Ec.
    - apply N.eqb_eq in Ec. subst a. rewrite get_balance_add_balance_same by exact N2.
      destruct (b_coinbase b =? tx_from t)%N eqn:Ef.
      + apply N.eqb_eq in Ef. rewrite Ef. rewrite get_balance_add_balance_same by exact N1. lia.
      + apply N.eqb_neq in Ef. rewrite get_balance_add_balance_other by exact Ef. lia.
    - apply N.eqb_neq in Ec. rewrite get_balance_add_balance_other by exact Ec.
      destruct (a =? tx_from t)%N eqn:Ef.
      + apply N.eqb_eq in Ef. subst a. rewrite get_balance_add_balance_same by exact N1. lia.
      + apply N.eqb_neq in Ef. rewrite get_balance_add_balance_other by exact Ef. lia. }
  split.
  { rewrite <- Hset, total_finalise, T2. unfold tx_fee_burnt, tx_evm_destroyed, tx_final_destroyed.
    fold w. rewrite Er, Tb. unfold upfront_cost in *. fold price in Hup |- *.
    change (total w) with (total_accts accts). lia. }
  split.
  - unfold tx_evm_destroyed. fold w. rewrite Er. lia.
  - apply finalise_destroyed_nonneg.
Qed.

(* ------------------------------------------------------------------ *)
(* Part E: the transaction loop and the withdrawals *)

Lemma tx_fee_burnt_nonneg b t used : 0 <= tx_fee_burnt b t used.
Proof. unfold tx_fee_burnt. lia. Qed.

Lemma step_tx_conserves tf b ls t :
  tx_wf t -> total_accts (ls_accounts ls) < Z.of_N wmod ->
  total_accts (ls_accounts (step_tx tf b ls t)) =
    total_accts (ls_accounts ls)
    - (if step_included tf b ls t then tx_fee_burnt b t (tx_used tf b (ls_accounts ls) t) else 0)
    - (if step_included tf b ls t
       then tx_evm_destroyed tf b (ls_accounts ls) t + tx_final_destroyed tf b (ls_accounts ls) t else 0) /\
  0 <= (if step_included tf b ls t
        then tx_evm_destroyed tf b (ls_accounts ls) t + tx_final_destroyed tf b (ls_accounts ls) t else 0).
Proof.
  intros Hwf Hs. unfold step_tx, step_included.
  destruct ((tx_type t =? 3)%N && _) eqn:Eb; simpl negb; simpl andb.
  - simpl. split; lia.
  - destruct (apply_tx tf b (ls_accounts ls) _ t) as [e|[accts' rc]] eqn:Ea.
    + simpl. split; lia.
    + pose proof (tx_accounting _ _ _ _ _ _ _ Ea Hwf Hs) as H. cbv zeta in H.
      destruct H as (_ & _ & _ & _ & _ & _ & _ & Ht & H1 & H2).
      simpl ls_accounts. split; lia.
Qed.

Lemma loop_conserves tf b : forall txs ls,
  Forall tx_wf txs -> total_accts (ls_accounts ls) < Z.of_N wmod ->
  total_accts (ls_accounts (fold_left (step_tx tf b) txs ls)) =
    total_accts (ls_accounts ls) - loop_burnt tf b ls txs - loop_destroyed tf b ls txs /\
  0 <= loop_burnt tf b ls txs /\ 0 <= loop_destroyed tf b ls txs.
Proof.
  induction txs as [|t txs IH]; intros ls Hwf Hs; simpl.
  - repeat split; lia.
  - inversion Hwf as [|? ? Ht Hr]; subst.
    destruct (step_tx_conserves tf b ls t Ht Hs) as [E1 E2].
    assert (Hb : 0 <= (if step_included tf b ls t then tx_fee_burnt b t (tx_used tf b (ls_accounts ls) t) else 0)).
    { destruct (step_included tf b ls t); [apply tx_fee_burnt_nonneg|lia]. }
    assert (Hs' : total_accts (ls_accounts (step_tx tf b ls t)) < Z.of_N wmod) by lia.
    destruct (IH (step_tx tf b ls t) Hr Hs') as (E3 & E4 & E5).
    repeat split; lia.
Qed.

Lemma withdrawals_total_nonneg ws : 0 <= withdrawals_total ws.
Proof. induction ws as [|x ws IH]; simpl; lia. Qed.

Lemma total_withdrawals_fold ws : forall w,
  total w + withdrawals_total ws < Z.of_N wmod ->
  let w' := fold_left (fun w x => add_balance w (fst x) (snd x * GWEI)%N) ws w in
  total w' = total w + withdrawals_total ws /\ w_destructed w' = w_destructed w.
Proof.
  induction ws as [|x ws IH]; intros w H; simpl in *.
  - split; [lia|reflexivity].
  - pose proof (withdrawals_total_nonneg ws) as Hn.
    assert (T1 : total (add_balance w (fst x) (snd x * GWEI)%N) = total w + Z.of_N (snd x * GWEI))
      by (apply total_add_balance; lia).
    destruct (IH (add_balance w (fst x) (snd x * GWEI)%N)) as [E1 E2]; [lia|].
    split; [lia|]. rewrite E2. reflexivity.
Qed.

(* EIP-4895: withdrawals mint exactly amount * 10^9 wei each *)
Lemma withdrawals_mint accts ws :
  total_accts accts + withdrawals_total ws < Z.of_N wmod ->
  total_accts (apply_withdrawals accts ws) = total_accts accts + withdrawals_total ws.
Proof.
  intros H. unfold apply_withdrawals. cbv zeta.
  destruct (total_withdrawals_fold ws (mk_world accts [] [] [] 0%N [] [] []) H) as [E1 E2].
  cbv zeta in E1, E2. rewrite total_finalise, E1.
  unfold finalise_destroyed. rewrite E2. simpl. unfold total. simpl. lia.
Qed.

(* block_conservation: transactions and withdrawals of a block *)
Lemma block_conservation tf b pre txs ws :
  Forall tx_wf txs -> total_accts pre + withdrawals_total ws < Z.of_N wmod ->
  total_accts (block_body tf b pre txs ws) =
    total_accts pre + withdrawals_total ws
    - loop_burnt tf b (init_loop pre) txs - loop_destroyed tf b (init_loop pre) txs /\
  0 <= loop_burnt tf b (init_loop pre) txs /\ 0 <= loop_destroyed tf b (init_loop pre) txs.
Proof.
  intros Hwf H. pose proof (withdrawals_total_nonneg ws) as Hn.
  unfold block_body, tx_loop. fold (init_loop pre).
  destruct (loop_conserves tf b txs (init_loop pre) Hwf) as (E1 & E2 & E3); [simpl; lia|].
  simpl ls_accounts in E1.
  rewrite withdrawals_mint by lia. repeat split; lia.
Qed.

Lemma supply_ok_iff w : supply_ok w <-> total w < 2 ^ 256.
Proof. unfold supply_ok. replace (Z.of_N wmod) with (2 ^ 256) by reflexivity. tauto. Qed.

Lemma tx_wfb_sound t : tx_wfb t = true -> tx_wf t.
Proof.
  unfold tx_wfb, tx_wf. intros H Hne. apply orb_true_iff in H. destruct H as [H|H].
  - apply N.eqb_eq in H. contradiction.
  - destruct (tx_blobhashes t); [reflexivity|discriminate].
Qed.
