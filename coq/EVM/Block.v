(* EVM/Block.v — the BLOCK level of the execution specification (property C26).

   SPECIFICATION, written from the Yellow Paper (sections 4.1, 4.3, 11, appendix D) and
   the EIPs:
     EIP-4788 (beacon block root system call)      EIP-2935 (parent hash system call, Prague)
     EIP-4895 (withdrawals, in Gwei)               EIP-7685 / 7002 / 7251 (requests, Prague)
     EIP-4844 (block blob gas limit)               EIP-161 (state clearing)
   on top of EVM/Tx.v.  The transaction loop rejects an invalid transaction and goes on
   with the unchanged state (the behaviour of the transition tool; inside a block
   import the same rejection makes the block invalid).

   System calls are plain message calls from SYSTEM_ADDRESS with 30,000,000 gas and
   value 0 to whatever code the pre-state holds at the system contract's address
   ("if no code exists the call must fail silently", EIP-4788/2935; for EIP-7002/7251
   missing code or a failing call makes the block invalid).  EIP-6110 deposit
   requests (logs of the deposit contract) are NOT in the specification.

   The state root is computed with the trie library of C06/C07 (Trie/Ops.v update_seq,
   Trie/Hash.v hash_root): secure-trie keys keccak(address) / keccak(slot), account
   value rlp([nonce, balance, storageRoot, codeHash]), slot value rlp(value).  The hash
   function is a parameter (fk_keccak of the fork record; Keccak.Sponge.keccak256 in Run/C26.v).

   Names other families rely on (keep stable):
     block block_result block_err system_call apply_system_call tx_loop loop_state
     apply_withdrawals storage_ops storage_root account_ops state_root apply_block
   No proofs in this file. *)
From Coq Require Import List NArith Bool.
From GV Require Import Lib.Bytes Rlp.Item Rlp.Codec Trie.Node Trie.Ops Trie.Hash.
From GV Require Import EVM.Word256 EVM.Memory EVM.Gas EVM.State EVM.Instr EVM.Step EVM.Interp EVM.Tx.
Import ListNotations.
Local Open Scope N_scope.

Record block := mk_block {
  bk_env : benv;
  bk_beacon_root : option (list N);      (* EIP-4788: parent beacon block root, 32 bytes *)
  bk_txs : list tx;
  bk_withdrawals : list (N * N)          (* EIP-4895: (address, amount in Gwei) *)
}.

Inductive block_err :=
| BE_EmptySystemContract                 (* EIP-7002/7251: no code at the system contract *)
| BE_SystemCallFailed                    (* EIP-7002/7251: the system call failed *)
| BE_Fault (k : fault).                  (* model artefact inside a system call *)

(* ------------------------------------------------------------------ *)
(* system calls *)

Definition SYSTEM_ADDRESS : N := 2 ^ 160 - 2.       (* 0xffff...fffe *)
Definition SYSTEM_CALL_GAS : N := 30000000.
Definition BEACON_ROOTS_ADDRESS : N := 0x000F3df6D732807Ef1319fB7B8bB8522d0Beac02.
Definition HISTORY_STORAGE_ADDRESS : N := 0x0000F90827F1C53a10cb7A02335B175320002935.
Definition WITHDRAWAL_REQUEST_ADDRESS : N := 0x00000961Ef480Eb55e80D19ad83579A64c007002.
Definition CONSOLIDATION_REQUEST_ADDRESS : N := 0x0000BBdDc7CE488642fb579F8B00f3a590007251.

Definition sys_env (tf : tfork) (b : benv) (accts : nmap account) : env :=
  mk_env (tf_evm tf) SYSTEM_ADDRESS 0 (b_coinbase b) (b_timestamp b) (b_number b)
         (b_prevrandao b) (b_gaslimit b) (b_chainid b) (b_basefee b) (b_blobbasefee b)
         [] accts.

(* a message call from SYSTEM_ADDRESS: only the target (and the zero address) is warm *)
Definition system_call (tf : tfork) (b : benv) (accts : nmap account) (addr : N) (input : list N)
  : call_result :=
  let w0 := mk_world accts [] [0; addr] [] 0 [] [] [] in
  evm_call (run (pred max_depth_fuel)) (sys_env tf b accts) K_CALL SYSTEM_ADDRESS 0 0 false 0
           w0 addr 0 input SYSTEM_CALL_GAS.

Definition fault_of (o : option status) : option fault :=
  match o with Some (S_Fault k) => Some k | _ => None end.

(* EIP-4788 / EIP-2935: the call may fail silently; the state after it (or the
   unchanged state) is finalised *)
Definition apply_system_call (tf : tfork) (b : benv) (accts : nmap account) (addr : N)
           (input : list N) : nmap account * option fault :=
  let r := system_call tf b accts addr input in
  (finalise (cr_w r), fault_of (cr_err r)).

(* ------------------------------------------------------------------ *)
(* the transaction loop *)

Record loop_state := mk_loop_state {
  ls_accounts : nmap account;
  ls_gas_used : N;                       (* cumulative gas used *)
  ls_blob_gas : N;                       (* cumulative blob gas used *)
  ls_index : N;                          (* index of the next transaction *)
  ls_receipts : list (tx_receipt * N);   (* (receipt, cumulative gas used), newest first *)
  ls_rejected : list (N * tx_err)        (* newest first *)
}.

Definition reject (ls : loop_state) (e : tx_err) : loop_state :=
  mk_loop_state (ls_accounts ls) (ls_gas_used ls) (ls_blob_gas ls) (ls_index ls + 1)
                (ls_receipts ls) ((ls_index ls, e) :: ls_rejected ls).

Definition step_tx (tf : tfork) (b : benv) (ls : loop_state) (t : tx) : loop_state :=
  if (tx_type t =? 3) && (tf_max_blob_gas tf <? ls_blob_gas ls + blob_gas t)
  then reject ls TE_BlobGasLimitReached
  else
    match apply_tx tf b (ls_accounts ls) (b_gaslimit b - ls_gas_used ls) t with
    | inl e => reject ls e
    | inr (accts, rc) =>
        let cum := ls_gas_used ls + rc_gas_used rc in
        mk_loop_state accts cum
                      (ls_blob_gas ls + (if tx_type t =? 3 then blob_gas t else 0))
                      (ls_index ls + 1) ((rc, cum) :: ls_receipts ls) (ls_rejected ls)
    end.

Definition tx_loop (tf : tfork) (b : benv) (accts : nmap account) (txs : list tx) : loop_state :=
  fold_left (step_tx tf b) txs (mk_loop_state accts 0 0 0 [] []).

(* ------------------------------------------------------------------ *)
(* EIP-4895 *)

Definition GWEI : N := 1000000000.
Definition apply_withdrawals (accts : nmap account) (ws : list (N * N)) : nmap account :=
  let w := fold_left (fun w x => add_balance w (fst x) (snd x * GWEI)) ws
                     (mk_world accts [] [] [] 0 [] [] []) in
  finalise w.

(* ------------------------------------------------------------------ *)
(* EIP-7685: requests of type [ty] produced by the system contract at [addr] *)

Definition request_call (tf : tfork) (b : benv) (accts : nmap account) (ty addr : N)
  : block_err + (nmap account * list (list N)) :=
  match get_code (mk_world accts [] [] [] 0 [] [] []) addr with
  | [] => inl BE_EmptySystemContract
  | _ :: _ =>
      let r := system_call tf b accts addr [] in
      match cr_err r with
      | Some (S_Fault k) => inl (BE_Fault k)
      | Some _ => inl BE_SystemCallFailed
      | None =>
          inr (finalise (cr_w r),
               match cr_ret r with [] => [] | out => [ty :: out] end)
      end
  end.

(* ------------------------------------------------------------------ *)
(* the state root *)

Section Root.
  Variable H : list N -> list N.

  Definition no_resolve : list N -> list N -> option (node * list N) := fun _ _ => None.

  Definition root_of (kvs : list (list N * list N)) : option (list N) :=
    match update_seq no_resolve NEmpty kvs with
    | TOk (t, _) => hash_root H t
    | TErr _ => None
    end.

  (* storage trie: keccak(slot as 32 bytes) -> rlp(value as minimal big-endian bytes);
     slots holding zero are absent (Yellow Paper (4.1)) *)
  Definition live_slots (st : nmap N) : nmap N := filter (fun kv => negb (snd kv =? 0)) st.
  Definition storage_ops (st : nmap N) : list (list N * list N) :=
    map (fun kv => (H (word_bytes (fst kv)), enc_str (be_bytes (snd kv)))) (live_slots st).
  Definition storage_root (st : nmap N) : option (list N) := root_of (storage_ops st).

  (* account trie: keccak(address as 20 bytes) -> rlp([nonce, balance, storageRoot, codeHash]) *)
  Definition account_value (a : account) : option (list N) :=
    match storage_root (acc_storage a) with
    | Some sr =>
        Some (enc (Lst [Str (be_bytes (acc_nonce a)); Str (be_bytes (acc_balance a));
                        Str sr; Str (H (acc_code a))]))
    | None => None
    end.

  Fixpoint account_ops (accts : nmap account) : option (list (list N * list N)) :=
    match accts with
    | [] => Some []
    | (a, x) :: r =>
        match account_value x, account_ops r with
        | Some v, Some l => Some ((H (addr_bytes a), v) :: l)
        | _, _ => None
        end
    end.

  (* None = a trie operation of the library failed; excluded by Properties/C26.v
     (state_root_canonical) *)
  Definition state_root (accts : nmap account) : option (list N) :=
    match account_ops accts with
    | Some ops => root_of ops
    | None => None
    end.
End Root.

(* ------------------------------------------------------------------ *)
(* the block *)

Record block_result := mk_block_result {
  br_accounts : nmap account;
  br_receipts : list (tx_receipt * N);     (* oldest first *)
  br_rejected : list (N * tx_err);         (* oldest first *)
  br_gas_used : N;
  br_blob_gas_used : N;
  br_requests : list (list N);
  br_error : option block_err;
  br_state_root : option (list N)
}.

Definition first_fault (a b : option fault) : option fault :=
  match a with Some k => Some k | None => b end.

Definition apply_block (tf : tfork) (bk : block) (pre : nmap account) : block_result :=
  let b := bk_env bk in
  let keccak := fk_keccak (tf_evm tf) in
  (* EIP-4788 *)
  let '(a1, f1) := match bk_beacon_root bk with
                   | Some root => apply_system_call tf b pre BEACON_ROOTS_ADDRESS root
                   | None => (pre, None)
                   end in
  (* EIP-2935: the parent's hash (the block-hash oracle of the environment) *)
  let '(a2, f2) := if tf_requests tf
                   then apply_system_call tf b a1 HISTORY_STORAGE_ADDRESS
                          (word_bytes (blockhash_of keccak (b_number b - 1)))
                   else (a1, None) in
  let ls := tx_loop tf b a2 (bk_txs bk) in
  let a3 := apply_withdrawals (ls_accounts ls) (bk_withdrawals bk) in
  let pre_fault := match first_fault f1 f2 with Some k => Some (BE_Fault k) | None => None end in
  let finish accts reqs err :=
    mk_block_result accts (rev (ls_receipts ls)) (rev (ls_rejected ls)) (ls_gas_used ls)
                    (ls_blob_gas ls) reqs err (state_root keccak accts) in
  if tf_requests tf then
    match request_call tf b a3 1 WITHDRAWAL_REQUEST_ADDRESS with
    | inl e => finish a3 [] (Some e)
    | inr (a4, r1) =>
        match request_call tf b a4 2 CONSOLIDATION_REQUEST_ADDRESS with
        | inl e => finish a4 [] (Some e)
        | inr (a5, r2) => finish a5 (r1 ++ r2) pre_fault
        end
    end
  else finish a3 [] pre_fault.
