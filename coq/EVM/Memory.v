(* EVM/Memory.v — the byte memory of one call frame.

   Transcribed from /repo/core/vm/memory.go (Memory{store,lastGasCost}, Set, Set32,
   Resize, GetCopy, GetPtr, Copy, Len), /repo/core/vm/common.go (calcMemSize64,
   calcMemSize64WithUint, toWordSize) and /repo/core/vm/gas_table.go
   (memoryGasCost), cross-read with Yellow Paper (appendix H, C_mem).

   An access outside the store — a Go slice-bounds panic or the explicit
   panic("invalid memory: store empty") — is [None]; nothing is padded or
   extended silently.  Sizes are [N] (Go: uint64, the overflow tests are
   transcribed); list positions are [nat] only after the bounds test.

   Names other families rely on (keep stable):
     memory mk_memory m_store m_last mem_empty mem_len to_word_size
     calc_mem_size mem_fee memory_gas_cost mem_resize mem_read mem_write
     mem_write_word mem_write_byte mem_copy
   No proofs in this file. *)
From Coq Require Import List NArith Bool.
From GV Require Import Lib.Bytes EVM.Word256.
Import ListNotations.
Local Open Scope N_scope.

(* memory.go: type Memory struct { store []byte; lastGasCost uint64 } *)
Record memory := mk_memory { m_store : list N; m_last : N }.
Definition mem_empty : memory := mk_memory [] 0.
(* Memory.Len *)
Definition mem_len (m : memory) : N := lenN (m_store m).

Definition two64 : N := 2 ^ 64.

(* common.go:toWordSize *)
Definition to_word_size (size : N) : N :=
  if two64 - 1 - 31 <? size then (two64 - 1) / 32 + 1 else (size + 31) / 32.

(* common.go:calcMemSize64 / calcMemSize64WithUint; [off], [len] are uint256 stack
   words.  None = "overflow" (interpreter returns ErrGasUintOverflow). *)
Definition calc_mem_size (off len : N) : option N :=
  if two64 <=? len then None                      (* !l.IsUint64() *)
  else if len =? 0 then Some 0
  else if two64 <=? off then None                 (* off.Uint64WithOverflow() *)
  else if two64 <=? off + len then None           (* val < offset64: wrapped *)
  else Some (off + len).

(* the larger of two optional sizes; None if either overflowed (memoryCall etc.) *)
Definition max_mem_size (a b : option N) : option N :=
  match a, b with Some x, Some y => Some (N.max x y) | _, _ => None end.

(* interpreter.go:Run — memorySize = toWordSize(memSize) * 32 with SafeMul *)
Definition round_mem_size (sz : N) : option N :=
  let w := to_word_size sz * 32 in if two64 <=? w then None else Some w.

(* total fee for a memory of [w] words:  3w + w^2/512  (params.MemoryGas, QuadCoeffDiv) *)
Definition mem_fee (w : N) : N := w * 3 + (w * w) / 512.

(* gas_table.go:memoryGasCost.  Returns the fee to charge and the memory with the
   updated lastGasCost; None = ErrGasUintOverflow. *)
Definition memory_gas_cost (m : memory) (new_size : N) : option (N * memory) :=
  if new_size =? 0 then Some (0, m)
  else if 137438953440 <? new_size then None        (* 0x1FFFFFFFE0 *)
  else
    let words := to_word_size new_size in
    let new_size' := words * 32 in
    if mem_len m <? new_size' then
      let total := mem_fee words in
      Some (total - m_last m, mk_memory (m_store m) total)
    else Some (0, m).

(* Memory.Resize *)
Definition mem_resize (m : memory) (size : N) : memory :=
  if mem_len m <? size
  then mk_memory (m_store m ++ repeat 0 (N.to_nat (size - mem_len m))) (m_last m)
  else m.

(* Memory.GetCopy / GetPtr: nil for size 0, else store[offset:offset+size] *)
Definition mem_read (m : memory) (off size : N) : option (list N) :=
  if size =? 0 then Some []
  else if off + size <=? mem_len m
  then Some (firstn (N.to_nat size) (skipn (N.to_nat off) (m_store m)))
  else None.

(* l[off:off+len(data)] = data, requires off + len(data) <= len(l) *)
Definition splice (l : list N) (off : nat) (data : list N) : list N :=
  firstn off l ++ data ++ skipn (off + length data) l.

(* Memory.Set(offset, size, value): copy(store[offset:offset+size], value) — copies
   min(size, len(value)) bytes; no-op for size 0; panics if offset+size > len *)
Definition mem_write (m : memory) (off size : N) (value : list N) : option memory :=
  if size =? 0 then Some m
  else if off + size <=? mem_len m
  then Some (mk_memory (splice (m_store m) (N.to_nat off) (firstn (N.to_nat size) value)) (m_last m))
  else None.

(* Memory.Set32 *)
Definition mem_write_word (m : memory) (off : N) (v : N) : option memory :=
  mem_write m off 32 (word_bytes v).

(* opMstore8: store[off] = byte(val) *)
Definition mem_write_byte (m : memory) (off : N) (v : N) : option memory :=
  mem_write m off 1 [v mod 256].

(* Memory.Copy(dst, src, len): copy(store[dst:], store[src:src+len]) *)
Definition mem_copy (m : memory) (dst src len : N) : option memory :=
  if len =? 0 then Some m
  else match mem_read m src len with
       | None => None
       | Some d => mem_write m dst len d
       end.
