(* EVM/Forks.v — the executable fork records of the EVM specification: Cancun (target),
   Prague and Osaka, with Keccak-256 instantiated by Keccak.Sponge.keccak256 (the
   Uint63 implementation that is the subject of C04) and the precompile sets of
   /repo/core/vm/contracts.go (PrecompiledContractsCancun / Prague / Osaka).

   Names other families rely on (keep stable):
     cancun prague osaka osaka8024 cancun_precompiles prague_precompiles osaka_precompiles
     spec_precompile
   No proofs in this file. *)
From Coq Require Import List NArith Bool.
From GV Require Import Lib.Bytes Keccak.Sponge EVM.Gas EVM.Instr.
Import ListNotations.
Local Open Scope N_scope.

(* the Cancun precompile set 0x01..0x0a with only the identity contract (0x04)
   modelled: the others consume all gas and fail, and are never called by the
   generated programs *)
Definition cancun_precompiles : list N := [1; 2; 3; 4; 5; 6; 7; 8; 9; 10].
Definition spec_precompile (a : N) (input : list N) : N * option (list N) :=
  if a =? 4 then (identity_gas (lenN input), Some input) else (0, None).
Definition cancun : fork :=
  mk_fork false false (fun a => (1 <=? a) && (a <=? 10)) spec_precompile keccak256 false.
(* Prague: BLS12-381 precompiles 0x0b..0x11, EIP-7702 delegation resolution *)
Definition prague_precompiles : list N := cancun_precompiles ++ [11; 12; 13; 14; 15; 16; 17].
Definition prague : fork :=
  mk_fork false true (fun a => (1 <=? a) && (a <=? 17)) spec_precompile keccak256 false.
(* Osaka: + CLZ (EIP-7939), + P256VERIFY at 0x100 *)
Definition osaka_precompiles : list N := prague_precompiles ++ [256].
Definition osaka : fork :=
  mk_fork true true (fun a => ((1 <=? a) && (a <=? 17)) || (a =? 256)) spec_precompile keccak256 false.

(* the jump table "Osaka + EIP 8024" (vm.Config.ExtraEips = [8024]): the stack opcodes of
   Amsterdam without its two-dimensional gas *)
Definition osaka8024 : fork :=
  mk_fork true true (fun a => ((1 <=? a) && (a <=? 17)) || (a =? 256)) spec_precompile keccak256 true.
