(* EVM/Frames.v — vocabulary for "static and reverted frames have no lasting effects"
   (C29) over the EVM core model EVM/{State,Step,Interp}.v.  Definitions only:
   the relations between the world at frame entry and at frame exit, the exact
   state a failed CREATE leaves behind (evm.create bumps the creator's nonce and warms
   the new address BEFORE its snapshot), and the effect of SELFDESTRUCT as one named
   function (the same expression as in Step.exec_instr, opSelfdestruct6780).

   Go anchors: /repo/core/vm/evm.go Call / CallCode / DelegateCall / StaticCall / create
   (snapshot := StateDB.Snapshot() ... if err != nil { RevertToSnapshot(snapshot) }),
   interpreter.go Run (readOnly is set once and never cleared for children),
   instructions.go opSstore / opTstore / makeLog / opCreate / opCreate2 / opCall /
   opSelfdestruct6780 and the readOnly tests of gas_table.go / operations_acl.go.

   No proofs in this file. *)
From Coq Require Import List NArith Bool.
From GV Require Import Lib.Bytes EVM.Word256 EVM.Memory EVM.Gas EVM.State EVM.Instr EVM.Step EVM.Interp.
Import ListNotations.
Local Open Scope N_scope.

(* ------------------------------------------------------------------ *)
(* what a static frame may not change *)

(* balances, nonces, code and storage of every address (extensional: the association
   list may gain an entry for an empty account, as StateDB gains a state object when
   a zero-value transfer "touches" an address) *)
Definition same_accounts (w w' : world) : Prop := forall a, get_account w a = get_account w' a.

(* a static frame leaves everything but the EIP-2929 warm sets unchanged *)
Definition static_same (w w' : world) : Prop :=
  same_accounts w w' /\ w_transient w = w_transient w' /\ w_logs w = w_logs w' /\
  w_refund w = w_refund w' /\ w_destructed w = w_destructed w' /\ w_created w = w_created w'.

(* balances are uint256 values (AddBalance is a uint256 addition) *)
Definition bal_wf (w : world) : Prop := forall a, get_balance w a < wmod.

(* ------------------------------------------------------------------ *)
(* what a failed frame leaves behind *)

(* [w'] is [w] with some more addresses in the EIP-2929 warm-address set, nothing else
   (what the gas function of a CALL-family opcode does before evm.Call is entered: the
   callee address and, since Prague, the target of its EIP-7702 delegation become warm) *)
Definition only_warmed (w w' : world) : Prop :=
  w_accounts w' = w_accounts w /\ w_transient w' = w_transient w /\
  w_warm_slots w' = w_warm_slots w /\ w_refund w' = w_refund w /\ w_logs w' = w_logs w /\
  w_destructed w' = w_destructed w /\ w_created w' = w_created w /\
  forall a, In a (w_warm_addrs w) -> In a (w_warm_addrs w').

(* createFramePreCheck: depth, balance, nonce overflow -- nothing has been touched yet *)
Definition create_precheck_fails (depth : N) (w : world) (this value : N) : bool :=
  (1024 <? depth) || (get_balance w this <? value) || (2 ^ 64 <=? get_nonce w this + 1).

(* the state at evm.create's snapshot: creator nonce bumped, new address warm *)
Definition create_entry (w : world) (this addr : N) : world :=
  warm_addr (set_nonce w this (get_nonce w this + 1)) addr.

(* the world a failed CREATE/CREATE2 hands back *)
Definition create_failed_world (depth : N) (w : world) (this value addr : N) : world :=
  if create_precheck_fails depth w this value then w else create_entry w this addr.

(* ------------------------------------------------------------------ *)
(* the read-only flag of the frame a CALL-family opcode starts *)
Definition child_static (k : callop) (static : bool) : bool :=
  match k with K_STATICCALL => true | _ => static end.

(* opSelfdestruct6780 on the state [w1] in which the beneficiary is already warm *)
Definition sd_effect (w1 : world) (this ben : N) : world :=
  let bal := get_balance w1 this in
  if is_created w1 this then
    mark_destructed
      (if this =? ben then set_balance w1 this 0
       else set_balance (add_balance w1 ben bal) this 0) this
  else if this =? ben then w1
  else add_balance (set_balance w1 this 0) ben bal.

(* the world carried by either outcome of a step *)
Definition out_world (o : frame + fresult) : world :=
  match o with inl f => f_w f | inr r => r_w r end.

(* ------------------------------------------------------------------ *)
(* observable dump of a world for the correspondence (used by Run/C29.v) *)

(* transient storage without zero values and without empty accounts, in key order *)
Definition transient_dump (w : world) : list (N * list (N * N)) :=
  filter (fun x => match snd x with [] => false | _ => true end)
         (map (fun x => (fst x, filter (fun kv => negb (snd kv =? 0)) (snd x))) (w_transient w)).

(* insertion sort of a list of N / of pairs (canonical order for the warm sets) *)
Fixpoint ins_N (x : N) (l : list N) : list N :=
  match l with
  | [] => [x]
  | y :: r => if x <? y then x :: l else if x =? y then l else y :: ins_N x r
  end.
Definition sort_N (l : list N) : list N := fold_left (fun acc x => ins_N x acc) l [].

Definition ltb_NN (x y : N * N) : bool :=
  (fst x <? fst y) || ((fst x =? fst y) && (snd x <? snd y)).
Definition eqb_NN (x y : N * N) : bool := (fst x =? fst y) && (snd x =? snd y).
Fixpoint ins_NN (x : N * N) (l : list (N * N)) : list (N * N) :=
  match l with
  | [] => [x]
  | y :: r => if ltb_NN x y then x :: l else if eqb_NN x y then l else y :: ins_NN x r
  end.
Definition sort_NN (l : list (N * N)) : list (N * N) := fold_left (fun acc x => ins_NN x acc) l [].
