(* EVM/Ether.v — vocabulary for "ether is conserved by block execution" (C32) over the
   EVM core model (EVM/State.v, Step.v, Interp.v) and the transaction / block level of
   the execution specification (EVM/Tx.v, EVM/Block.v, delivered for C26).
   Definitions only; sums of balances are taken in unbounded Z.

   Go anchors: /repo/core/evm.go CanTransfer / Transfer; /repo/core/vm/instructions.go
   opSelfdestruct6780 (the only place where the EVM itself removes ether: a contract
   created in the same transaction that names itself as beneficiary burns its balance);
   /repo/core/state/statedb.go Finalise (accounts marked self-destructed vanish with
   whatever balance they hold at the end of the transaction);
   /repo/core/state_transition.go buyGas (sender pays gas * price + blob fee up front),
   settleGas (unused gas returned at the same price), execute (coinbase receives gas used
   * effective tip; the base-fee part and the blob fee are credited to nobody);
   /repo/consensus/beacon/consensus.go Finalize (withdrawals: amount * 1e9 wei minted).

   No proofs in this file. *)
From Coq Require Import List NArith ZArith Bool.
From GV Require Import Lib.Bytes EVM.Word256 EVM.Memory EVM.Gas EVM.State EVM.Instr EVM.Step EVM.Interp.
From GV Require Import EVM.Frames EVM.Tx EVM.Block.
Import ListNotations.
Local Open Scope Z_scope.

(* ------------------------------------------------------------------ *)
(* the ether supply of a state *)

Fixpoint total_accts (m : nmap account) : Z :=
  match m with
  | [] => 0
  | (_, x) :: r => Z.of_N (acc_balance x) + total_accts r
  end.
Definition total (w : world) : Z := total_accts (w_accounts w).

(* the named magnitude guard: no uint256 overflow in balances (wmod = 2^256, Word256.v) *)
Definition supply_ok (w : world) : Prop := total w < Z.of_N wmod.

(* ------------------------------------------------------------------ *)
(* SELFDESTRUCT (EIP-6780), the cases enumerated: ether burnt by one execution of the
   opcode in state [w1] (beneficiary already warm) by contract [this] naming [ben]
     created in this transaction, beneficiary = self   : the whole balance is burnt
     created in this transaction, beneficiary = other  : moved, nothing burnt
     not created in this transaction, beneficiary = self  : no-op, nothing burnt
     not created in this transaction, beneficiary = other : moved, nothing burnt *)
Definition sd_burn (w1 : world) (this ben : N) : Z :=
  if is_created w1 this && (this =? ben)%N then Z.of_N (get_balance w1 this) else 0.

(* end of transaction: accounts marked self-destructed are removed (State.finalise_accounts
   = fold_left nm_remove); the ether that disappears with them, in removal order *)
Definition bal_of (o : option account) : Z :=
  match o with Some x => Z.of_N (acc_balance x) | None => 0 end.
Fixpoint destroyed_fold (m : nmap account) (l : list N) : Z :=
  match l with
  | [] => 0
  | a :: r => bal_of (nm_get m a) + destroyed_fold (nm_remove m a) r
  end.
Definition finalise_destroyed (w : world) : Z := destroyed_fold (w_accounts w) (w_destructed w).

(* ------------------------------------------------------------------ *)
(* one transaction of EVM/Tx.v, taken apart *)

(* blob hashes only on blob transactions (types.Transaction guarantees it) *)
Definition tx_wf (t : tx) : Prop := tx_type t <> 3%N -> tx_blobhashes t = [].
Definition tx_wfb (t : tx) : bool :=
  (tx_type t =? 3)%N || match tx_blobhashes t with [] => true | _ => false end.

Definition pre_world (accts : nmap account) : world := mk_world accts [] [] [] 0 [] [] [].

(* the outermost frame's result, the gas used after refunds / floor, the world after the
   leftover gas went back to the sender and the tip to the coinbase (before Finalise) *)
Definition tx_exec (tf : tfork) (b : benv) (accts : nmap account) (t : tx) : tx_result :=
  exec_tx tf b (pre_world accts) t.
Definition tx_used (tf : tfork) (b : benv) (accts : nmap account) (t : tx) : N :=
  let r := tx_exec tf b accts t in fst (settle tf t (t_gas r) (w_refund (t_w r))).
Definition tx_settled (tf : tfork) (b : benv) (accts : nmap account) (t : tx) : world :=
  let r := tx_exec tf b accts t in
  let used := tx_used tf b accts t in
  let price := eff_price b t in
  add_balance (add_balance (t_w r) (tx_from t) ((tx_gas t - used) * price))
              (b_coinbase b) (used * (price - b_basefee b)).

(* fees credited to nobody: base fee on the gas used, and the blob fee *)
Definition tx_fee_burnt (b : benv) (t : tx) (used : N) : Z :=
  Z.of_N (used * b_basefee b) + Z.of_N (blob_gas t * b_blobbasefee b).
(* ether removed by the execution proper (SELFDESTRUCT burns of frames that were not
   reverted) and by Finalise *)
Definition tx_evm_destroyed (tf : tfork) (b : benv) (accts : nmap account) (t : tx) : Z :=
  total (buy_gas b (pre_world accts) t) - total (t_w (tx_exec tf b accts t)).
Definition tx_final_destroyed (tf : tfork) (b : benv) (accts : nmap account) (t : tx) : Z :=
  finalise_destroyed (tx_settled tf b accts t).

(* ------------------------------------------------------------------ *)
(* the transaction loop of EVM/Block.v: fees burnt and ether destroyed, summed over the
   included transactions *)

Definition step_included (tf : tfork) (b : benv) (ls : loop_state) (t : tx) : bool :=
  negb ((tx_type t =? 3)%N && (tf_max_blob_gas tf <? ls_blob_gas ls + blob_gas t)%N)
  && match apply_tx tf b (ls_accounts ls) (b_gaslimit b - ls_gas_used ls) t with
     | inr _ => true | inl _ => false end.

Fixpoint loop_burnt (tf : tfork) (b : benv) (ls : loop_state) (txs : list tx) : Z :=
  match txs with
  | [] => 0
  | t :: r =>
      (if step_included tf b ls t then tx_fee_burnt b t (tx_used tf b (ls_accounts ls) t) else 0)
      + loop_burnt tf b (step_tx tf b ls t) r
  end.

Fixpoint loop_destroyed (tf : tfork) (b : benv) (ls : loop_state) (txs : list tx) : Z :=
  match txs with
  | [] => 0
  | t :: r =>
      (if step_included tf b ls t
       then tx_evm_destroyed tf b (ls_accounts ls) t + tx_final_destroyed tf b (ls_accounts ls) t
       else 0)
      + loop_destroyed tf b (step_tx tf b ls t) r
  end.

Definition init_loop (accts : nmap account) : loop_state := mk_loop_state accts 0 0 0 [] [].

(* EIP-4895: wei minted by the withdrawals of a block *)
Definition withdrawals_total (ws : list (N * N)) : Z :=
  fold_right (fun x acc => Z.of_N (snd x * GWEI) + acc) 0 ws.

(* transactions + withdrawals of one block (the system calls of EIP-4788 / 2935 / 7002 /
   7251 move no ether: value 0 from SYSTEM_ADDRESS) *)
Definition block_body (tf : tfork) (b : benv) (pre : nmap account) (txs : list tx)
           (ws : list (N * N)) : nmap account :=
  apply_withdrawals (ls_accounts (tx_loop tf b pre txs)) ws.
