(* EVM/BuildProofs.v — lemmas about the block-builder model EVM/Build.v.

   Structure
   1. the loop body: what one iteration does (body_spec), the environment only changes
      through commit_transaction (env_change);
   2. simulation: the builder's environment after any number of attempts equals the
      importer's transaction loop over the included transactions (sim) -> the assembled
      header carries the importer's values and the model importer accepts the block;
   3. gas / blob limits from the C31 pool lemmas (Gas/Pool.v);
   4. termination and the link to the C43 iterator theorems (Pool/OrderingProofs.v). *)
From GV Require Import Lib.Tactics Gas.GoArith Gas.Pool_gen Gas.Pool Pool.Ordering Pool.OrderingProofs EVM.Build.
From Coq Require Import Permutation Sorted.
Local Open Scope Z_scope.

(* destruct the scrutinee of the outermost match of a hypothesis *)
Ltac dmatch H :=
  match type of H with
  | context [match ?x with _ => _ end] => destruct x eqn:?
  end.

Arguments e_state {S Rc} _.
Arguments e_pool {S Rc} _.
Arguments e_tcount {S Rc} _.
Arguments e_size {S Rc} _.
Arguments e_blobs {S Rc} _.
Arguments e_txs {S Rc} _.
Arguments e_receipts {S Rc} _.
Arguments e_gasused {S Rc} _.
Arguments e_blobgasused {S Rc} _.
Arguments e_reverted {S Rc} _.

Lemma set_snapshot gp gp' : GasPool_Set gp' (snd (GasPool_Snapshot gp)) = gp.
Proof. destruct gp, gp'. reflexivity. Qed.

Lemma set_snapshot' gp gp' :
  GasPool_Set gp' (mkGasPool (GasPool_remaining gp) (GasPool_initial gp) (GasPool_cumulativeUsed gp)
                             (GasPool_cumulativeExecution gp) (GasPool_cumulativeState gp)) = gp.
Proof. destruct gp, gp'. reflexivity. Qed.

Section Proofs.
  Variables S Rc H Q : Type.
  Variable meta : tx -> txmeta.
  Variable pre_check : S -> tx -> pre_res.
  Variable exec : S -> tx -> exec_res S Rc.
  Variable cfg : bconfig.

  Notation benv := (benv S Rc).
  Notation apply_message := (apply_message S Rc meta pre_check exec cfg).
  Notation apply_transaction := (apply_transaction S Rc meta pre_check exec cfg).
  Notation commit_transaction := (commit_transaction S Rc meta pre_check exec cfg).
  Notation loop_body := (loop_body S Rc meta pre_check exec cfg).
  Notation commit_loop := (commit_loop S Rc meta pre_check exec cfg).
  Notation commit_transactions := (commit_transactions S Rc meta pre_check exec cfg).
  Notation process_txs := (process_txs S Rc meta pre_check exec cfg).
  Notation maybe_clear := (maybe_clear S Rc cfg).

  (* ----------------------------------------------------------------------- *)
  (* 1. one attempt                                                           *)

  (* the effect of applyTransaction in terms of core.ApplyTransaction *)
  Inductive applied (env : benv) (t : tx) : benv -> (Rc + apply_err) -> Prop :=
  | applied_err gp' e :
      apply_message (e_pool env) (e_state env) t = (gp', inr e) ->
      applied env t
        (mkEnv S Rc (e_state env) (e_pool env) (e_tcount env) (e_size env) (e_blobs env) (e_txs env)
               (e_receipts env) (e_gasused env) (e_blobgasused env) (e_reverted env ++ [(t, e_tcount env)]))
        (inr e)
  | applied_ok gp' s' rc gp'' used :
      apply_message (e_pool env) (e_state env) t = (gp', inl (s', rc)) ->
      GasPool_Used gp' = Some (gp'', used) ->
      applied env t
        (mkEnv S Rc s' gp' (e_tcount env) (e_size env) (e_blobs env) (e_txs env)
               (e_receipts env) used (e_blobgasused env) (e_reverted env))
        (inl rc).

  Lemma apply_transaction_spec env t env' r :
    apply_transaction env t = Ok (env', r) -> applied env t env' r.
  Proof.
    unfold Build.apply_transaction. intros E. cbv zeta in E.
    destruct (apply_message (e_pool env) (e_state env) t) as [gp' [[s' rc]|e]] eqn:Em.
    - destruct (GasPool_Used gp') as [[gp'' used]|] eqn:Eu; [|discriminate].
      injection E as <- <-. eapply applied_ok; eauto.
    - injection E as <- <-. rewrite ?set_snapshot, ?set_snapshot'. eapply applied_err; eauto.
  Qed.

  (* the effect of commitTransaction: nothing but bookkeeping on top of [applied] *)
  Inductive committed (env : benv) (t : tx) : benv -> option apply_err -> bool -> Prop :=
  | committed_cap nb :
      m_isblob (meta t) = true -> m_scblobs (meta t) = Some nb ->
      c_maxblobs cfg < e_blobs env + Z.of_N nb ->
      committed env t env (Some EOther) false
  | committed_err env1 e :
      applied env t env1 (inr e) ->
      (m_isblob (meta t) = true ->
       exists nb, m_scblobs (meta t) = Some nb /\ e_blobs env + Z.of_N nb <= c_maxblobs cfg) ->
      committed env t env1 (Some e) true
  | committed_plain env1 rc :
      m_isblob (meta t) = false -> applied env t env1 (inl rc) ->
      committed env t
        (mkEnv S Rc (e_state env1) (e_pool env1) (e_tcount env1 + 1)
               ((e_size env1 + m_size (meta t)) mod two64) (e_blobs env1)
               (e_txs env1 ++ [t]) (e_receipts env1 ++ [rc]) (e_gasused env1)
               (e_blobgasused env1) (e_reverted env1))
        None true
  | committed_blob env1 rc nb :
      m_isblob (meta t) = true -> m_scblobs (meta t) = Some nb ->
      e_blobs env + Z.of_N nb <= c_maxblobs cfg ->
      applied env t env1 (inl rc) ->
      committed env t
        (mkEnv S Rc (e_state env1) (e_pool env1) (e_tcount env1 + 1)
               ((e_size env1 + m_size_noblob (meta t)) mod two64) (e_blobs env1 + Z.of_N nb)
               (e_txs env1 ++ [t]) (e_receipts env1 ++ [rc]) (e_gasused env1)
               ((e_blobgasused env1 + m_blobgas (meta t)) mod two64) (e_reverted env1))
        None true.

  Lemma commit_transaction_spec env t env' err reached :
    commit_transaction env t = Ok (env', err, reached) -> committed env t env' err reached.
  Proof.
    unfold Build.commit_transaction. intros E.
    destruct (m_isblob (meta t)) eqn:Eb.
    - destruct (m_scblobs (meta t)) as [nb|] eqn:Es; [|discriminate].
      destruct (Z.ltb_spec (c_maxblobs cfg) (e_blobs env + Z.of_N nb)).
      + injection E as <- <- <-. eapply committed_cap; eauto.
      + destruct (apply_transaction env t) as [[env1 r]| |] eqn:Ea; cbn [bind] in E; try discriminate.
        apply apply_transaction_spec in Ea. destruct r as [rc|e]; injection E as <- <- <-.
        * eapply committed_blob; eauto.
        * eapply committed_err; eauto.
    - destruct (apply_transaction env t) as [[env1 r]| |] eqn:Ea; cbn [bind] in E; try discriminate.
      apply apply_transaction_spec in Ea. destruct r as [rc|e]; injection E as <- <- <-.
      + eapply committed_plain; eauto.
      + eapply committed_err; eauto. congruence.
  Qed.

  (* what one iteration that consumed a head did *)
  Record stepped (env : benv) (plain blob : state) (a : attempt) (env' : benv) (plain' blob' : state) : Prop := {
    st_sel : select plain (maybe_clear env blob) = (at_blob a, Some (at_item a));
    st_adv : advance (at_blob a) (at_op a) plain (maybe_clear env blob) = Ok (plain', blob');
    st_env : (env' = env /\ at_op a = OPop /\
              (at_why a = WGas \/ at_why a = WBlobSpace \/ at_why a = WEvicted \/ at_why a = WReplay)) \/
             (exists err reached,
                 commit_transaction env (it_tx (at_item a)) = Ok (env', err, reached) /\
                 at_op a = op_of err /\
                 at_why a = (if reached then WApplied err else WBlobCap) /\
                 Z.of_N (m_gas (meta (it_tx (at_item a)))) <= snd (GasPool_Gas (e_pool env)) /\
                 m_resolves (meta (it_tx (at_item a))) = true) }.

  Lemma body_step sig env plain blob a env' plain' blob' :
    loop_body sig env plain blob = Ok (BStep S Rc a env' plain' blob') ->
    stepped env plain blob a env' plain' blob'.
  Proof.
    unfold Build.loop_body. intros E.
    destruct (negb (sig =? 0)%N); [destruct (sig <=? 3)%N; discriminate|].
    destruct (snd (GasPool_Gas (e_pool env)) <? TxGas) eqn:Eg0; [discriminate|].
    fold (maybe_clear env blob) in E.
    destruct (select plain (maybe_clear env blob)) as [isb [it|]] eqn:Es; [|discriminate].
    destruct (Z.ltb_spec (snd (GasPool_Gas (e_pool env))) (Z.of_N (m_gas (meta (it_tx it))))) as [Hg|Hg].
    { destruct (advance isb OPop plain (maybe_clear env blob)) as [[p' b']| |] eqn:Ea; cbn [bind] in E; try discriminate.
      injection E as <- <- <- <-. constructor; cbn; auto 8. }
    destruct (c_cancun cfg && (c_maxblobs cfg - e_blobs env <? Z.of_N (m_blobgas (meta (it_tx it)) / BlobTxBlobGasPerBlob))) eqn:Ebs.
    { destruct (advance isb OPop plain (maybe_clear env blob)) as [[p' b']| |] eqn:Ea; cbn [bind] in E; try discriminate.
      injection E as <- <- <- <-. constructor; cbn; auto 8. }
    destruct (m_resolves (meta (it_tx it))) eqn:Er; cbn [negb] in E.
    2:{ destruct (advance isb OPop plain (maybe_clear env blob)) as [[p' b']| |] eqn:Ea; cbn [bind] in E; try discriminate.
        injection E as <- <- <- <-. constructor; cbn; auto 8. }
    destruct (negb (tx_fits_size S Rc meta env (it_tx it))); [discriminate|].
    destruct (m_protected (meta (it_tx it)) && negb (c_eip155 cfg)).
    { destruct (advance isb OPop plain (maybe_clear env blob)) as [[p' b']| |] eqn:Ea; cbn [bind] in E; try discriminate.
      injection E as <- <- <- <-. constructor; cbn; auto 8. }
    destruct (commit_transaction env (it_tx it)) as [[[env1 err] reached]| |] eqn:Ec; cbn [bind] in E; try discriminate.
    assert (E' : (do (p', b') <- advance isb (op_of err) plain (maybe_clear env blob);
                  Ok (BStep S Rc (mkAtt isb it (op_of err) (if reached then WApplied err else WBlobCap)) env1 p' b'))
                 = Ok (BStep S Rc a env' plain' blob')).
    { destruct err as [[]|]; exact E. }
    clear E.
    destruct (advance isb (op_of err) plain (maybe_clear env blob)) as [[p' b']| |] eqn:Ea; cbn [bind] in E'; try discriminate.
    injection E' as <- <- <- <-. constructor; cbn; auto.
    right. exists err, reached. auto.
  Qed.

  Lemma body_stop sig env plain blob st blob' :
    loop_body sig env plain blob = Ok (BStop S Rc st blob') ->
    blob' = blob \/ blob' = maybe_clear env blob.
  Proof.
    unfold Build.loop_body. intros E.
    destruct (negb (sig =? 0)%N).
    { destruct (sig <=? 3)%N; [|discriminate]. injection E as _ <-. auto. }
    destruct (snd (GasPool_Gas (e_pool env)) <? TxGas). { injection E as _ <-. auto. }
    fold (maybe_clear env blob) in E.
    destruct (select plain (maybe_clear env blob)) as [isb [it|]]. 2:{ injection E as _ <-. auto. }
    assert (Hdead : forall o w env1,
               (do (p', b') <- advance isb o plain (maybe_clear env blob);
                Ok (BStep S Rc (mkAtt isb it o w) env1 p' b')) <> Ok (BStop S Rc st blob')).
    { intros o w env1. destruct (advance isb o plain (maybe_clear env blob)) as [[? ?]| |]; cbn [bind]; discriminate. }
    destruct (snd (GasPool_Gas (e_pool env)) <? Z.of_N (m_gas (meta (it_tx it)))); [now apply Hdead in E|].
    destruct (c_cancun cfg && _); [now apply Hdead in E|].
    destruct (negb (m_resolves (meta (it_tx it)))); [now apply Hdead in E|].
    destruct (negb (tx_fits_size S Rc meta env (it_tx it))). { injection E as _ <-. auto. }
    destruct (m_protected (meta (it_tx it)) && negb (c_eip155 cfg)); [now apply Hdead in E|].
    destruct (commit_transaction env (it_tx it)) as [[[env1 err] reached]| |]; cbn [bind] in E; try discriminate.
    destruct err as [[]|]; now apply Hdead in E.
  Qed.

  (* ----------------------------------------------------------------------- *)
  (* induction principle: an invariant of [committed] is an invariant of the loop *)

  Lemma loop_inv (P : benv -> Prop) :
    (forall env t env' err reached, P env -> committed env t env' err reached -> P env') ->
    forall fuel sigs env plain blob env' p' b' tr st,
      P env -> commit_loop fuel sigs env plain blob = Ok (env', p', b', tr, st) -> P env'.
  Proof.
    intros HP. induction fuel as [|f IH]; intros sigs env plain blob env' p' b' tr st Henv E; [discriminate|].
    cbn [Build.commit_loop] in E.
    destruct (loop_body _ env plain blob) as [[st0 blob0|a env1 plain1 blob1]| |] eqn:Eb; cbn [bind] in E; try discriminate.
    - injection E as <- _ _ _ _. exact Henv.
    - destruct (commit_loop f (tl sigs) env1 plain1 blob1) as [[[[[env2 p2] b2] tr2] st2]| |] eqn:El; cbn [bind] in E; try discriminate.
      injection E as <- _ _ _ _.
      assert (H1 : P env1).
      { apply body_step in Eb. destruct (st_env _ _ _ _ _ _ _ Eb) as [(-> & _)|(err & reached & Hc & _)]; eauto.
        apply commit_transaction_spec in Hc. eauto. }
      exact (IH _ _ _ _ _ _ _ _ _ H1 El).
  Qed.

  Notation fill_phase := (fill_phase S Rc meta pre_check exec cfg).
  Notation fill_transactions := (fill_transactions S Rc meta pre_check exec cfg).

  Lemma phase_inv (P : benv -> Prop) :
    (forall env t env' err reached, P env -> committed env t env' err reached -> P env') ->
    forall sigs env pp pb env' tr st,
      P env -> fill_phase sigs env pp pb = Ok (env', tr, st) -> P env'.
  Proof.
    intros HP sigs env pp pb env' tr st Henv E. unfold Build.fill_phase in E.
    destruct (nonempty pp || nonempty pb). 2:{ injection E as <- _ _. exact Henv. }
    destruct (new_by_price_and_nonce pp (c_basefee cfg)) as [plain| |]; cbn [bind] in E; try discriminate.
    destruct (new_by_price_and_nonce pb (c_basefee cfg)) as [blob| |]; cbn [bind] in E; try discriminate.
    destruct (commit_transactions sigs env plain blob) as [[[[[env2 p2] b2] tr2] st2]| |] eqn:El;
      cbn [bind] in E; try discriminate.
    injection E as <- _ _. unfold Build.commit_transactions in El. eapply loop_inv; eauto.
  Qed.

  Lemma fill_inv (P : benv -> Prop) :
    (forall env t env' err reached, P env -> committed env t env' err reached -> P env') ->
    forall sigs1 sigs2 prio env pp pb env' tr1 tr2,
      P env -> fill_transactions sigs1 sigs2 prio env pp pb = Ok (env', tr1, tr2) -> P env'.
  Proof.
    intros HP sigs1 sigs2 prio env pp pb env' tr1 tr2 Henv E. unfold Build.fill_transactions in E.
    destruct (split_prio prio pp) as [pp1 np]. destruct (split_prio prio pb) as [pb1 nb].
    destruct (fill_phase sigs1 env pp1 pb1) as [[[env1 t1] st1]| |] eqn:E1; cbn [bind] in E; try discriminate.
    assert (H1 : P env1) by (eapply phase_inv; eauto).
    destruct (interrupted st1). { injection E as <- _ _. exact H1. }
    destruct (fill_phase sigs2 env1 np nb) as [[[env2 t2] st2]| |] eqn:E2; cbn [bind] in E; try discriminate.
    injection E as <- _ _. eapply phase_inv; eauto.
  Qed.

  (* ----------------------------------------------------------------------- *)
  (* 2. the builder's environment is the importer's loop over the included txs  *)

  Lemma process_txs_snoc : forall l gp s rs t,
    process_txs gp s rs (l ++ [t]) =
    match process_txs gp s rs l with
    | None => None
    | Some (gp1, s1, rs1) =>
        match apply_message gp1 s1 t with
        | (gp', inl (s', rc)) => Some (gp', s', rs1 ++ [rc])
        | (_, inr _) => None
        end
    end.
  Proof.
    induction l as [|a l IH]; intros gp s rs t; cbn [app Build.process_txs].
    - destruct (apply_message gp s t) as [gp' [[s' rc]|e]]; reflexivity.
    - destruct (apply_message gp s a) as [gp' [[s' rc]|e]]; [apply IH|reflexivity].
  Qed.

  Variable s0 : S.     (* the state after the pre-execution system calls *)

  Definition sim (env : benv) : Prop :=
    process_txs (NewGasPool (c_gaslimit cfg)) s0 [] (e_txs env) =
      Some (e_pool env, e_state env, e_receipts env) /\
    (exists gp'', GasPool_Used (e_pool env) = Some (gp'', e_gasused env)).

  Lemma applied_err_sim env t env1 e : applied env t env1 (inr e) -> sim env -> sim env1.
  Proof. intros Ha Hs. inversion Ha; subst. exact Hs. Qed.

  Lemma applied_ok_sim env t env1 rc :
    applied env t env1 (inl rc) -> sim env ->
    e_txs env1 = e_txs env /\
    process_txs (NewGasPool (c_gaslimit cfg)) s0 [] (e_txs env ++ [t]) =
      Some (e_pool env1, e_state env1, e_receipts env1 ++ [rc]) /\
    (exists gp'', GasPool_Used (e_pool env1) = Some (gp'', e_gasused env1)).
  Proof.
    intros Ha [Hs _]. inversion Ha; subst. cbn. split; [reflexivity|]. split; [|eauto].
    rewrite process_txs_snoc, Hs. rewrite H1. reflexivity.
  Qed.

  Lemma committed_sim env t env' err reached :
    sim env -> committed env t env' err reached -> sim env'.
  Proof.
    intros Hs Hc. destruct Hc as [nb _ _ _|env1 e Ha _|env1 rc _ Ha|env1 rc nb _ _ _ Ha].
    - exact Hs.
    - eapply applied_err_sim; eauto.
    - destruct (applied_ok_sim _ _ _ _ Ha Hs) as (Et & Hp & Hu). unfold sim. cbn. rewrite Et. auto.
    - destruct (applied_ok_sim _ _ _ _ Ha Hs) as (Et & Hp & Hu). unfold sim. cbn. rewrite Et. auto.
  Qed.

  (* ----------------------------------------------------------------------- *)
  (* 3. limits                                                                *)

  Definition P64' := P64.

  (* what the theorems ask of the transactions the pools hand out and of execution *)
  Hypothesis meta_gas : forall t, Z.of_N (m_gas (meta t)) < P64.
  Hypothesis exec_wf : forall s t c s' r, exec s t = ExecOk S Rc c s' r ->
    let gas := Z.of_N (m_gas (meta t)) in
    if c_amsterdam cfg
    then 0 <= ch_exec c <= Z.min gas MaxTxGas /\ 0 <= ch_state c <= gas /\
         0 <= ch_used c <= ch_exec c + ch_state c
    else 0 <= ch_left c /\ 0 <= ch_used c /\ ch_left c + ch_used c = gas.

  Definition pool_ok (gp : GasPool) : Prop :=
    (if c_amsterdam cfg then pool_ams gp else pool_legacy gp) /\ Ini gp = c_gaslimit cfg.

  Lemma apply_message_pool gp s t gp' s' rc :
    pool_ok gp -> apply_message gp s t = (gp', inl (s', rc)) -> pool_ok gp'.
  Proof.
    intros [Hp Hi] E. unfold Build.apply_message in E.
    destruct (pre_check s t); try discriminate.
    pose proof (meta_gas t) as Hg. set (gas := Z.of_N (m_gas (meta t))) in *.
    assert (Hg0 : 0 <= gas) by (unfold gas; lia).
    unfold pool_ok. destruct (c_amsterdam cfg) eqn:Ea.
    - assert (Her : 0 <= Z.min gas MaxTxGas < P64) by (unfold MaxTxGas, P64 in *; lia).
      assert (Hsr : 0 <= gas < P64) by lia.
      pose proof (check_amsterdam_spec gp _ _ Hp Her Hsr) as Hc.
      destruct (GasPool_CheckGasAmsterdam gp (Z.min gas MaxTxGas) gas) as [gp1 e1] eqn:Ec.
      injection Hc as -> He1.
      destruct (negb (e1 =? 0)) eqn:En; [discriminate|].
      destruct (exec s t) as [c s1 r|] eqn:Ex; [|discriminate].
      pose proof (exec_wf _ _ _ _ _ Ex) as Hw. rewrite ?Ea in Hw. cbn zeta in Hw. fold gas in Hw.
      destruct Hw as (Hte & Hts & Hru).
      assert (Hs0 : snd (GasPool_CheckGasAmsterdam gp (Z.min gas MaxTxGas) gas) = 0).
      { rewrite Ec. cbn. destruct (Z.eqb_spec e1 0); [assumption|discriminate]. }
      destruct (check_then_charge_ok gp _ _ _ _ _ Hp Her Hsr Hs0 Hte Hts Hru) as (Hz & Hpa & Hini).
      destruct (GasPool_ChargeGasAmsterdam gp (ch_exec c) (ch_state c) (ch_used c)) as [gp2 e2] eqn:Eg.
      cbn [fst snd] in *. subst e2. cbn in E. injection E as <- _ _. split; [assumption|lia].
    - assert (Hl : 0 <= gas < P64) by lia.
      pose proof (check_legacy_spec gp gas Hp Hl) as Hc.
      destruct (Z.ltb_spec (Rem gp) gas) as [Hlt|Hge].
      + rewrite Hc in E. cbn in E. discriminate.
      + destruct (GasPool_CheckGasLegacy gp gas) as [gp1 e1] eqn:Ec.
        injection Hc as -> ->. cbn in E.
        destruct (exec s t) as [c s1 r|] eqn:Ex; [|discriminate].
        pose proof (exec_wf _ _ _ _ _ Ex) as Hw. rewrite ?Ea in Hw. cbn zeta in Hw. fold gas in Hw.
        destruct Hw as (Hr & Hu & Hsum).
        destruct (legacy_tx_ok gp gas (ch_left c) (ch_used c) Hp Hl Hge Hr Hu Hsum) as (_ & Hch & Hpl).
        rewrite Ec in Hch, Hpl. cbn [fst] in Hch, Hpl. rewrite Hch in E, Hpl. cbn in E.
        injection E as <- _ _. split; [exact Hpl|]. cbn. exact Hi.
  Qed.

  Hypothesis meta_blob : forall t,
    if m_isblob (meta t)
    then exists nb, m_scblobs (meta t) = Some nb /\ m_blobgas (meta t) = (BlobTxBlobGasPerBlob * nb)%N
    else m_blobgas (meta t) = 0%N.
  Hypothesis maxblobs_small : 0 <= c_maxblobs cfg /\ c_maxblobs cfg * 131072 < P64.

  Definition lim (env : benv) : Prop :=
    pool_ok (e_pool env) /\
    0 <= e_blobs env <= c_maxblobs cfg /\
    Z.of_N (e_blobgasused env) = 131072 * e_blobs env /\
    sum_blobgas meta (e_txs env) = e_blobgasused env.

  Lemma sum_blobgas_snoc l t : sum_blobgas meta (l ++ [t]) = (sum_blobgas meta l + m_blobgas (meta t))%N.
  Proof.
    unfold sum_blobgas. induction l as [|a l IH]; cbn [app fold_right]; [lia|]. rewrite IH. lia.
  Qed.

  Lemma committed_lim env t env' err reached :
    lim env -> committed env t env' err reached -> lim env'.
  Proof.
    intros (Hp & Hb & Hg & Hsum) Hc.
    assert (Hap : forall env1 rc, applied env t env1 (inl rc) ->
              pool_ok (e_pool env1) /\ e_blobs env1 = e_blobs env /\
              e_blobgasused env1 = e_blobgasused env /\ e_txs env1 = e_txs env).
    { intros env1 rc Ha. inversion Ha; subst. cbn. split; [|auto]. eapply apply_message_pool; eauto. }
    destruct Hc as [nb _ _ _|env1 e Ha _|env1 rc Hnb Ha|env1 rc nb Hib Hsc Hcap Ha].
    - unfold lim; auto.
    - inversion Ha; subst. unfold lim; cbn; auto.
    - destruct (Hap _ _ Ha) as (Hp1 & Eb & Eg & Et). unfold lim. cbn [e_pool e_blobs e_blobgasused e_txs]. rewrite Eb, Eg, Et.
      split; [assumption|]. split; [assumption|]. split; [assumption|].
      rewrite sum_blobgas_snoc, Hsum. pose proof (meta_blob t) as Hm. rewrite Hnb in Hm. lia.
    - destruct (Hap _ _ Ha) as (Hp1 & Eb & Eg & Et). unfold lim. cbn [e_pool e_blobs e_blobgasused e_txs]. rewrite Eb, Eg, Et.
      pose proof (meta_blob t) as Hm. rewrite Hib in Hm. destruct Hm as (nb' & Hsc' & Hbg).
      rewrite Hsc in Hsc'. injection Hsc' as <-.
      unfold BlobTxBlobGasPerBlob in Hbg. unfold two64, P64 in *.
      assert (Hnw : (e_blobgasused env + m_blobgas (meta t) < 18446744073709551616)%N) by lia.
      rewrite (N.mod_small _ _ Hnw).
      split; [assumption|]. split; [lia|]. split; [lia|].
      rewrite sum_blobgas_snoc, Hsum. reflexivity.
  Qed.

  Lemma lim_gas env : lim env -> sim env -> 0 <= e_gasused env <= c_gaslimit cfg.
  Proof.
    intros ((Hp & Hi) & _) (_ & gp'' & Hu). destruct (c_amsterdam cfg).
    - destruct (used_amsterdam _ Hp) as (Hu' & Hb). rewrite Hu in Hu'. injection Hu' as _ ->. lia.
    - destruct (used_legacy _ Hp) as (Hu' & Hb). rewrite Hu in Hu'. injection Hu' as _ ->. lia.
  Qed.
End Proofs.

(* ------------------------------------------------------------------------- *)
(* 5. the assembled block: header fields are the importer's values; the model
      importer accepts it                                                      *)

Section Block.
  Variables S Rc H Q : Type.
  Variable meta : tx -> txmeta.
  Variable pre_check : S -> tx -> pre_res.
  Variable exec : S -> tx -> exec_res S Rc.
  Variable cfg : bconfig.
  Variable pre_exec : S -> S.
  Variable post_exec : S -> list Rc -> option (S * Q).
  Variable finalize : S -> S.
  Variables (root_of bal_hash_of : S -> H) (receipts_root bloom_of : list Rc -> H) (requests_hash : Q -> H).
  Variable H_eqb : H -> H -> bool.
  Hypothesis H_eqb_refl : forall h, H_eqb h h = true.

  Hypothesis meta_gas : forall t, Z.of_N (m_gas (meta t)) < P64.
  Hypothesis exec_wf : forall s t c s' r, exec s t = ExecOk S Rc c s' r ->
    let gas := Z.of_N (m_gas (meta t)) in
    if c_amsterdam cfg
    then 0 <= ch_exec c <= Z.min gas MaxTxGas /\ 0 <= ch_state c <= gas /\
         0 <= ch_used c <= ch_exec c + ch_state c
    else 0 <= ch_left c /\ 0 <= ch_used c /\ ch_left c + ch_used c = gas.
  Hypothesis meta_blob : forall t,
    if m_isblob (meta t)
    then exists nb, m_scblobs (meta t) = Some nb /\ m_blobgas (meta t) = (BlobTxBlobGasPerBlob * nb)%N
    else m_blobgas (meta t) = 0%N.
  Hypothesis maxblobs_small : 0 <= c_maxblobs cfg /\ c_maxblobs cfg * 131072 < P64.
  Hypothesis gaslimit_small : 0 <= c_gaslimit cfg < P63.
  Variable proto_max : N.
  Hypothesis proto_ge : c_maxblobs cfg <= Z.of_N proto_max.
  Variable ccfg : FeesImpl.chain_config.
  Variable parent_hdr : FeesImpl.header.
  Variable parent_cancun : bool.
  Variable head_time : Z.
  (* the parent of a Cancun block is a Cancun block (Cancun is active from genesis on) *)
  Hypothesis parent_post_cancun : c_cancun cfg = true -> parent_cancun = true.

  Notation generate_work :=
    (generate_work S Rc H Q meta pre_check exec cfg pre_exec post_exec finalize root_of bal_hash_of
                   receipts_root bloom_of requests_hash ccfg parent_hdr parent_cancun head_time).
  Notation process := (process S Rc Q meta pre_check exec cfg pre_exec post_exec finalize).
  Notation validate :=
    (validate S Rc H Q meta pre_check exec cfg pre_exec post_exec finalize root_of bal_hash_of
              receipts_root bloom_of requests_hash H_eqb ccfg parent_hdr).
  Notation prepare_excess := (prepare_excess cfg ccfg parent_hdr parent_cancun head_time).

  (* the excess blob gas prepareWork computes with the NEW block's time is what
     VerifyEIP4844Header recomputes from the header's own time *)
  Lemma verify_excess_ok ex gl gu bgu r rr bl rq bh :
    prepare_excess = Some ex ->
    verify_excess H cfg ccfg parent_hdr (mkHeader H gl gu bgu r rr bl rq bh head_time ex) = true.
  Proof.
    unfold Build.prepare_excess, verify_excess. cbn [h_time h_excessblobgas]. intros E.
    destruct (c_cancun cfg) eqn:Ec; [|reflexivity].
    rewrite (parent_post_cancun eq_refl) in E.
    destruct (FeesImpl.calc_excess_blob_gas ccfg parent_hdr head_time) as [e| | |]; try discriminate.
    injection E as <-. apply Z.eqb_refl.
  Qed.

  Lemma used_new l : exists gp, GasPool_Used (NewGasPool l) = Some (gp, 0).
  Proof.
    unfold GasPool_Used, NewGasPool. cbn. rewrite Z.ltb_irrefl, Z.sub_diag. eexists. reflexivity.
  Qed.

  Lemma make_env_inv parent size0 :
    let env := make_env S Rc cfg pre_exec parent size0 in
    sim S Rc meta pre_check exec cfg (pre_exec parent) env /\ lim S Rc meta cfg env.
  Proof.
    cbn zeta. split.
    - split; [reflexivity|]. cbn. destruct (used_new (c_gaslimit cfg)) as (gp & E). eauto.
    - unfold lim, make_env. cbn. split; [|lia].
      unfold pool_ok. split; [|reflexivity].
      destruct (c_amsterdam cfg); [apply new_pool_ams; lia|apply new_pool_legacy; unfold P63, P64 in *; lia].
  Qed.

  (* the builder's result, the importer's run and the limits, for every interrupt
     schedule, priority list and pending maps *)
  Theorem generate_work_sound sigs1 sigs2 prio parent size0 pp pb b env tr1 tr2 :
    generate_work sigs1 sigs2 prio parent size0 pp pb = GwBlock S Rc H b env tr1 tr2 ->
    (* the importer re-executes every included transaction successfully, at its position *)
    (exists pr, process parent (c_gaslimit cfg) (b_txs H b) = Some pr /\
       (* header_fields_are_recomputed_values *)
       h_gasused H (b_header H b) = pr_gasused S Rc Q pr /\
       h_root H (b_header H b) = root_of (pr_state S Rc Q pr) /\
       h_balhash H (b_header H b) = bal_hash_of (pr_state S Rc Q pr) /\
       h_receipts H (b_header H b) = receipts_root (pr_receipts S Rc Q pr) /\
       h_bloom H (b_header H b) = bloom_of (pr_receipts S Rc Q pr) /\
       h_requests H (b_header H b) = requests_hash (pr_requests S Rc Q pr)) /\
    (* so the importer accepts *)
    validate proto_max parent b = true /\
    (* built_within_limits *)
    0 <= h_gasused H (b_header H b) <= c_gaslimit cfg /\
    h_gaslimit H (b_header H b) = c_gaslimit cfg /\
    0 <= e_blobs env <= c_maxblobs cfg /\
    Z.of_N (h_blobgasused H (b_header H b)) = 131072 * e_blobs env /\
    sum_blobgas meta (b_txs H b) = h_blobgasused H (b_header H b) /\
    b_txs H b = e_txs env /\
    process_txs S Rc meta pre_check exec cfg (NewGasPool (c_gaslimit cfg)) (pre_exec parent) [] (b_txs H b)
      = Some (e_pool env, e_state env, e_receipts env) /\
    (* the header carries the new block's time and the excess blob gas computed with it *)
    h_time H (b_header H b) = head_time /\
    prepare_excess = Some (h_excessblobgas H (b_header H b)).
  Proof.
    unfold Build.generate_work. intros E.
    destruct prepare_excess as [ex|] eqn:Epe; [|discriminate].
    destruct (fill_transactions S Rc meta pre_check exec cfg sigs1 sigs2 prio
                (make_env S Rc cfg pre_exec parent size0) pp pb) as [[[env' t1] t2]| |] eqn:Ef; try discriminate.
    destruct (assemble S Rc H Q cfg post_exec finalize root_of bal_hash_of receipts_root bloom_of requests_hash
                       head_time env' ex) as [b'|] eqn:Ea; [|discriminate].
    injection E as <- <- _ _.
    destruct (make_env_inv parent size0) as (Hs0 & Hl0).
    assert (Hinv : sim S Rc meta pre_check exec cfg (pre_exec parent) env' /\ lim S Rc meta cfg env').
    { eapply (fill_inv S Rc meta pre_check exec cfg
               (fun e => sim S Rc meta pre_check exec cfg (pre_exec parent) e /\ lim S Rc meta cfg e))
      ; [|split; [exact Hs0|exact Hl0]|exact Ef].
      intros e t e' err reached [Hs Hl] Hc. split.
      - eapply committed_sim; eauto.
      - eapply committed_lim; eauto. }
    destruct Hinv as (Hs & Hl).
    assert (Hgas : 0 <= e_gasused env' <= c_gaslimit cfg) by (eapply lim_gas; eauto).
    destruct Hs as (Hp & gp'' & Hu). destruct Hl as (_ & Hb & Hbg & Hsum).
    unfold assemble in Ea. destruct (post_exec (e_state env') (e_receipts env')) as [[s1 q]|] eqn:Epost; [|discriminate].
    injection Ea as <-. cbn [b_header b_txs h_gasused h_root h_balhash h_receipts h_bloom h_requests h_gaslimit h_blobgasused h_time h_excessblobgas].
    assert (Epr : process parent (c_gaslimit cfg) (e_txs env') =
                  Some (mkPR S Rc Q (finalize s1) (e_receipts env') q (e_gasused env'))).
    { unfold Build.process. rewrite Hp, Epost, Hu. reflexivity. }
    split.
    { eexists. split; [exact Epr|]. cbn. auto 8. }
    split.
    { unfold Build.validate. cbn [b_header b_txs]. rewrite (verify_excess_ok _ _ _ _ _ _ _ _ _ Epe).
      cbn [h_gasused h_root h_balhash h_receipts h_bloom h_requests h_gaslimit h_blobgasused andb].
      rewrite Epr. cbn [pr_gasused pr_state pr_receipts pr_requests]. rewrite Z.eqb_refl, !H_eqb_refl, Hsum, N.eqb_refl.
      cbn [andb]. rewrite !andb_true_r. apply andb_true_intro. split.
      - apply N.leb_le. unfold BlobTxBlobGasPerBlob. lia.
      - apply N.eqb_eq. unfold BlobTxBlobGasPerBlob. lia. }
    auto 12.
  Qed.
End Block.

(* closed forms over the [well_formed] bundle *)
Theorem header_fields_are_recomputed_values :
  forall (S Rc H Q : Type) meta pre_check exec cfg pre_exec post_exec finalize
         (root_of bal_hash_of : S -> H) (receipts_root bloom_of : list Rc -> H) (requests_hash : Q -> H)
         ccfg parent_hdr parent_cancun head_time
         sigs1 sigs2 prio parent size0 pp pb b env tr1 tr2,
  well_formed meta exec cfg -> (c_cancun cfg = true -> parent_cancun = true) ->
  generate_work S Rc H Q meta pre_check exec cfg pre_exec post_exec finalize root_of bal_hash_of
                receipts_root bloom_of requests_hash ccfg parent_hdr parent_cancun head_time
                sigs1 sigs2 prio parent size0 pp pb
    = GwBlock S Rc H b env tr1 tr2 ->
  (exists pr, process S Rc Q meta pre_check exec cfg pre_exec post_exec finalize
                     parent (h_gaslimit H (b_header H b)) (b_txs H b) = Some pr /\
    h_gasused H (b_header H b) = pr_gasused S Rc Q pr /\
    h_root H (b_header H b) = root_of (pr_state S Rc Q pr) /\
    h_balhash H (b_header H b) = bal_hash_of (pr_state S Rc Q pr) /\
    h_receipts H (b_header H b) = receipts_root (pr_receipts S Rc Q pr) /\
    h_bloom H (b_header H b) = bloom_of (pr_receipts S Rc Q pr) /\
    h_requests H (b_header H b) = requests_hash (pr_requests S Rc Q pr)) /\
  (* excess blob gas: computed with the header's own time, as VerifyEIP4844Header does *)
  h_time H (b_header H b) = head_time /\
  (c_cancun cfg = true ->
   exists e, FeesImpl.calc_excess_blob_gas ccfg parent_hdr (h_time H (b_header H b)) = FeesImpl.Ok e /\
             h_excessblobgas H (b_header H b) = Some e).
Proof.
  intros S Rc H Q meta pre_check exec cfg pre_exec post_exec finalize root_of bal_hash_of receipts_root
         bloom_of requests_hash ccfg parent_hdr parent_cancun head_time sigs1 sigs2 prio parent size0 pp pb b env tr1 tr2
         (W1 & W2 & W3 & W4 & W5) Hpc E.
  destruct (generate_work_sound S Rc H Q meta pre_check exec cfg pre_exec post_exec finalize root_of
              bal_hash_of receipts_root bloom_of requests_hash (fun _ _ => true) (fun _ => eq_refl)
              W1 W2 W3 W4 W5 (Z.to_N (c_maxblobs cfg)) ltac:(lia) ccfg parent_hdr parent_cancun head_time Hpc _ _ _ _ _ _ _ _ _ _ _ E)
    as (Hpr & _ & _ & Hgl & _ & _ & _ & _ & _ & Ht & Hex).
  rewrite Hgl. split; [exact Hpr|]. split; [exact Ht|].
  intros Hc. rewrite Ht. unfold prepare_excess in Hex. rewrite Hc, (Hpc Hc) in Hex.
  destruct (FeesImpl.calc_excess_blob_gas ccfg parent_hdr head_time) as [e| | |]; try discriminate.
  injection Hex as Hex. eauto.
Qed.

Theorem built_block_accepted :
  forall (S Rc H Q : Type) meta pre_check exec cfg pre_exec post_exec finalize
         (root_of bal_hash_of : S -> H) (receipts_root bloom_of : list Rc -> H) (requests_hash : Q -> H)
         ccfg parent_hdr parent_cancun head_time
         (H_eqb : H -> H -> bool) proto_max
         sigs1 sigs2 prio parent size0 pp pb b env tr1 tr2,
  (forall h, H_eqb h h = true) ->
  well_formed meta exec cfg -> (c_cancun cfg = true -> parent_cancun = true) ->
  (c_maxblobs cfg <= Z.of_N proto_max) ->
  generate_work S Rc H Q meta pre_check exec cfg pre_exec post_exec finalize root_of bal_hash_of
                receipts_root bloom_of requests_hash ccfg parent_hdr parent_cancun head_time
                sigs1 sigs2 prio parent size0 pp pb
    = GwBlock S Rc H b env tr1 tr2 ->
  validate S Rc H Q meta pre_check exec cfg pre_exec post_exec finalize root_of bal_hash_of
           receipts_root bloom_of requests_hash H_eqb ccfg parent_hdr proto_max parent b = true.
Proof.
  intros S Rc H Q meta pre_check exec cfg pre_exec post_exec finalize root_of bal_hash_of receipts_root
         bloom_of requests_hash ccfg parent_hdr parent_cancun head_time H_eqb proto_max sigs1 sigs2 prio parent size0 pp pb b env tr1 tr2
         Hrefl (W1 & W2 & W3 & W4 & W5) Hpc Hpm E.
  destruct (generate_work_sound S Rc H Q meta pre_check exec cfg pre_exec post_exec finalize root_of
              bal_hash_of receipts_root bloom_of requests_hash H_eqb Hrefl
              W1 W2 W3 W4 W5 proto_max Hpm ccfg parent_hdr parent_cancun head_time Hpc _ _ _ _ _ _ _ _ _ _ _ E) as (_ & Hv & _).
  exact Hv.
Qed.

Theorem built_within_limits :
  forall (S Rc H Q : Type) meta pre_check exec cfg pre_exec post_exec finalize
         (root_of bal_hash_of : S -> H) (receipts_root bloom_of : list Rc -> H) (requests_hash : Q -> H)
         ccfg parent_hdr parent_cancun head_time
         sigs1 sigs2 prio parent size0 pp pb b env tr1 tr2,
  well_formed meta exec cfg -> (c_cancun cfg = true -> parent_cancun = true) ->
  generate_work S Rc H Q meta pre_check exec cfg pre_exec post_exec finalize root_of bal_hash_of
                receipts_root bloom_of requests_hash ccfg parent_hdr parent_cancun head_time
                sigs1 sigs2 prio parent size0 pp pb
    = GwBlock S Rc H b env tr1 tr2 ->
  (* gas: the header's gas used is the pool's Used() (legacy: the sum of the receipts'
     gas; Amsterdam: max of the two cumulative dimensions) and within the limit *)
  (0 <= h_gasused H (b_header H b) <= h_gaslimit H (b_header H b))%Z /\
  (* blobs: sidecar blobs of the included transactions within the miner's maximum, and
     the header's blob gas used is their number times the gas per blob *)
  (0 <= e_blobs env <= c_maxblobs cfg)%Z /\
  Z.of_N (h_blobgasused H (b_header H b)) = (131072 * e_blobs env)%Z /\
  sum_blobgas meta (b_txs H b) = h_blobgasused H (b_header H b) /\
  (* every included transaction's apply succeeds at its position: the importer's loop
     over exactly these transactions, from the same start, does not fail and reaches the
     builder's pool, state and receipts *)
  process_txs S Rc meta pre_check exec cfg (NewGasPool (c_gaslimit cfg)) (pre_exec parent) [] (b_txs H b)
    = Some (e_pool env, e_state env, e_receipts env).
Proof.
  intros S Rc H Q meta pre_check exec cfg pre_exec post_exec finalize root_of bal_hash_of receipts_root
         bloom_of requests_hash ccfg parent_hdr parent_cancun head_time sigs1 sigs2 prio parent size0 pp pb b env tr1 tr2
         (W1 & W2 & W3 & W4 & W5) Hpc E.
  destruct (generate_work_sound S Rc H Q meta pre_check exec cfg pre_exec post_exec finalize root_of
              bal_hash_of receipts_root bloom_of requests_hash (fun _ _ => true) (fun _ => eq_refl)
              W1 W2 W3 W4 W5 (Z.to_N (c_maxblobs cfg)) ltac:(lia) ccfg parent_hdr parent_cancun head_time Hpc _ _ _ _ _ _ _ _ _ _ _ E)
    as (_ & _ & Hg & Hgl & Hb & Hbg & Hsum & _ & Hp & _).
  rewrite Hgl. auto.
Qed.

(* failed_attempt_restores_pool: whatever the transaction kind (the blob path of
   commitBlobTransaction included), an attempt that ends in an error leaves the block gas
   pool, the state, the included transactions, the receipts and the header's gas / blob gas
   used exactly as they were: a tried-and-reverted transaction does not eat into the block *)
Theorem failed_attempt_restores_pool :
  forall (S Rc : Type) meta pre_check exec cfg (env env' : benv S Rc) t e reached,
  commit_transaction S Rc meta pre_check exec cfg env t = Ok (env', Some e, reached) ->
  e_pool env' = e_pool env /\ e_state env' = e_state env /\ e_txs env' = e_txs env /\
  e_receipts env' = e_receipts env /\ e_gasused env' = e_gasused env /\
  e_blobgasused env' = e_blobgasused env /\ e_blobs env' = e_blobs env /\
  e_tcount env' = e_tcount env /\
  (e_reverted env' = e_reverted env ++ (if reached then [(t, e_tcount env)] else [])).
Proof.
  intros S Rc meta pre_check exec cfg env env' t e reached E.
  apply commit_transaction_spec in E.
  inversion E as [nb ? ? ?|env1 e1 Ha ?| |]; subst.
  - rewrite app_nil_r. auto 10.
  - inversion Ha; subst. cbn. auto 10.
Qed.

(* ------------------------------------------------------------------------- *)
(* a concrete instance for the non-vacuity example of Properties/C36.v: a legacy
   (pre-Amsterdam) block of gas limit 70000; every transaction has gas limit 30000 and
   uses 21000; transaction 12 is refused as nonce-too-low (Shift), 21 as an "other"
   error (Pop: 22 is dropped with it); after two inclusions 9000 + ... the rest no
   longer fits *)
Definition ex_meta (t : tx) : txmeta := mkMeta 30000 0 None 110 110 true true false.
Definition ex_pre (s : list N) (t : tx) : pre_res :=
  if (tx_id t =? 12)%N then PreNonceTooLow else if (tx_id t =? 21)%N then PreOther else PreOk.
Definition ex_exec (s : list N) (t : tx) : exec_res (list N) N :=
  ExecOk (list N) N (mkCharge 9000 21000 0 0) (s ++ [tx_id t]) (tx_id t).
Definition ex_cfg : bconfig := mkCfg true false true 6 70000 (Some 10%N).
Definition ex_pend : amap :=
  [ (1%N, [mkTx 11 0 100 50 1%Z; mkTx 12 1 100 60 2%Z; mkTx 13 2 100 5 3%Z]);
    (2%N, [mkTx 21 0 100 40 4%Z; mkTx 22 1 100 90 5%Z]);
    (3%N, [mkTx 31 7 100 30 6%Z; mkTx 32 8 100 20 7%Z]) ].

Lemma ex_well_formed : well_formed ex_meta ex_exec ex_cfg.
Proof.
  unfold well_formed. split; [intros; cbn; lia|]. split.
  - intros s t c s' r E. unfold ex_exec in E. injection E as <- _ _. cbn. lia.
  - split; [intros; reflexivity|]. cbn. lia.
Qed.

(* ------------------------------------------------------------------------- *)
(* 6. termination: every iteration that does not stop consumes a head of one of the
      two iterators (Shift: the next transaction of the sender or nothing replaces it;
      Pop: the sender is dropped), so the number of transactions the iterators can still
      yield ([iter_size], the fuel the model gives the loop) strictly decreases *)

Definition total_txs (m : amap) : nat := fold_right (fun p n => (length (snd p) + n)%nat) 0%nat m.

Lemma iter_size_eq (st : state) :
  iter_size st = (length (st_heads st) + total_txs (st_txs st))%nat.
Proof. reflexivity. Qed.

Lemma total_update a t1 rest m :
  lookup a m = Some (t1 :: rest) -> (total_txs (update a rest m) + 1 = total_txs m)%nat.
Proof.
  induction m as [|[b v] m IH]; cbn [lookup update]; [discriminate|].
  destruct (N.eqb_spec b a) as [->|Hne]; intros E.
  - injection E as ->. unfold total_txs. cbn [fold_right snd length]. lia.
  - specialize (IH E). unfold total_txs in *. cbn [fold_right snd length]. lia.
Qed.

Lemma size_pop bf st aq h0 hr st' :
  R bf st aq -> st_heads st = h0 :: hr -> pop st = Ok st' ->
  (length (st_heads st') + 1 = length (st_heads st))%nat /\ st_txs st' = st_txs st.
Proof.
  intros (_ & Hh & _) E Hp. unfold pop in Hp.
  destruct (heap_pop_spec less less_asym nless_trans (st_heads st)) as (x & h' & Hpop & _ & Pp & _); auto.
  { rewrite E; discriminate. }
  rewrite Hpop in Hp. cbn [bind] in Hp. injection Hp as <-. cbn [st_heads st_txs].
  apply Permutation_length in Pp. cbn in Pp. split; [lia|reflexivity].
Qed.

Lemma size_shift bf st aq h0 hr st' :
  R bf st aq -> st_heads st = h0 :: hr -> shift st = Ok st' ->
  (length (st_heads st') + total_txs (st_txs st') < length (st_heads st) + total_txs (st_txs st))%nat.
Proof.
  intros HR E Hs.
  assert (Hpopcase : pop st = Ok st' ->
            (length (st_heads st') + total_txs (st_txs st') < length (st_heads st) + total_txs (st_txs st))%nat).
  { intros Hp. destruct (size_pop _ _ _ _ _ _ HR E Hp) as (Hl & ->). lia. }
  unfold shift in Hs. rewrite E in Hs.
  destruct (lookup (it_from h0) (st_txs st)) as [[|t1 rest]|] eqn:El; auto.
  destruct (new_tx_with_miner_fee t1 (it_from h0) (st_basefee st)) as [w|] eqn:Ew; auto.
  cbn [set_nth] in Hs.
  destruct HR as (_ & Hh & _). rewrite E in Hh.
  destruct (heap_fix0_spec less less_asym nless_trans h0 w hr Hh) as (hs & Hfix & Pf & _).
  rewrite Hfix in Hs. cbn [bind] in Hs. injection Hs as <-. cbn [st_heads st_txs].
  apply Permutation_length in Pf. cbn in Pf. pose proof (total_update _ _ _ _ El). rewrite E. cbn [length]. lia.
Qed.

Lemma R_clear bf : R bf (mkState [] [] bf) [].
Proof.
  unfold R. cbn. split; [reflexivity|]. split.
  - intros j x y _ Hx. destruct j; discriminate.
  - split; [constructor|]. split; [constructor|]. intros a q [].
Qed.

Section Termination.
  Variables S Rc : Type.
  Variable meta : tx -> txmeta.
  Variable pre_check : S -> tx -> pre_res.
  Variable exec : S -> tx -> exec_res S Rc.
  Variable cfg : bconfig.
  Variable bf : option N.

  Notation loop_body := (loop_body S Rc meta pre_check exec cfg).
  Notation commit_loop := (commit_loop S Rc meta pre_check exec cfg).
  Notation size := iter_size.

  Lemma maybe_clear_R env blob aq :
    R bf blob aq -> exists aq', R bf (maybe_clear S Rc cfg env blob) aq' /\
                                (size (maybe_clear S Rc cfg env blob) <= size blob)%nat.
  Proof.
    intros HR. unfold maybe_clear.
    destruct (negb (empty blob) && (c_maxblobs cfg <=? e_blobs env)).
    - exists []. unfold clear. replace (st_basefee blob) with bf by (symmetry; apply HR).
      split; [apply R_clear|]. cbn. lia.
    - eauto.
  Qed.

  Lemma select_head plain blob isb it :
    select plain blob = (isb, Some it) ->
    exists hr, st_heads (if isb then blob else plain) = it :: hr.
  Proof.
    unfold select, peek.
    destruct (st_heads plain) as [|p pr] eqn:Ep; destruct (st_heads blob) as [|b br] eqn:Ebl; intros E;
      try (injection E as <- <-; eauto; fail); try discriminate.
    destruct (it_fee p <? it_fee b)%N; injection E as <- <-; eauto.
  Qed.

  (* Shift / Pop on the chosen iterator: never fails, keeps both iterators well-formed,
     and strictly fewer transactions remain *)
  Lemma advance_R plain blob aqp aqb isb it o :
    R bf plain aqp -> R bf blob aqb -> select plain blob = (isb, Some it) ->
    exists p' b' aqp' aqb',
      advance isb o plain blob = Ok (p', b') /\ R bf p' aqp' /\ R bf b' aqb' /\
      (size p' + size b' < size plain + size blob)%nat.
  Proof.
    intros HRp HRb Hsel. destruct (select_head _ _ _ _ Hsel) as (hr & Eh).
    unfold advance. destruct isb.
    - assert (Hstep : exists st', apply_op o blob = Ok st' /\ R bf st' (astep o (it_from it) aqb)).
      { destruct o; cbn [apply_op]; [eapply shift_R|eapply pop_R]; eauto. }
      destruct Hstep as (st' & Ea & HR'). rewrite Ea. cbn [bind].
      exists plain, st', aqp, (astep o (it_from it) aqb). repeat (split; [solve [auto]|]).
      rewrite !iter_size_eq. destruct o; cbn [apply_op] in Ea.
      + pose proof (size_shift _ _ _ _ _ _ HRb Eh Ea). lia.
      + destruct (size_pop _ _ _ _ _ _ HRb Eh Ea) as (Hl & ->). lia.
    - assert (Hstep : exists st', apply_op o plain = Ok st' /\ R bf st' (astep o (it_from it) aqp)).
      { destruct o; cbn [apply_op]; [eapply shift_R|eapply pop_R]; eauto. }
      destruct Hstep as (st' & Ea & HR'). rewrite Ea. cbn [bind].
      exists st', blob, (astep o (it_from it) aqp), aqb. repeat (split; [solve [auto]|]).
      rewrite !iter_size_eq. destruct o; cbn [apply_op] in Ea.
      + pose proof (size_shift _ _ _ _ _ _ HRp Eh Ea). lia.
      + destruct (size_pop _ _ _ _ _ _ HRp Eh Ea) as (Hl & ->). lia.
  Qed.

  Lemma commit_transaction_fuel env t :
    commit_transaction S Rc meta pre_check exec cfg env t <> OutOfFuel.
  Proof.
    unfold commit_transaction, apply_transaction.
    destruct (m_isblob (meta t)); [destruct (m_scblobs (meta t)); [|discriminate];
                                    destruct (_ <? _); [discriminate|]|];
      destruct (apply_message S Rc meta pre_check exec cfg (e_pool env) (e_state env) t) as [gp' [[s' rc]|e]];
      try destruct (GasPool_Used gp') as [[? ?]|]; cbn [bind]; discriminate.
  Qed.

  Lemma body_fuel sig env plain blob aqp aqb :
    R bf plain aqp -> R bf blob aqb -> loop_body sig env plain blob <> OutOfFuel.
  Proof.
    intros HRp HRb. unfold Build.loop_body.
    destruct (negb (sig =? 0)%N); [destruct (sig <=? 3)%N; discriminate|].
    destruct (_ <? TxGas); [discriminate|].
    destruct (maybe_clear_R env blob aqb HRb) as (aqb' & HRb' & _).
    destruct (select plain (maybe_clear S Rc cfg env blob)) as [isb [it|]] eqn:Es; [|discriminate].
    assert (Hadv : forall o w env1,
               (do (p', b') <- advance isb o plain (maybe_clear S Rc cfg env blob);
                Ok (BStep S Rc (mkAtt isb it o w) env1 p' b')) <> OutOfFuel).
    { intros o w env1. destruct (advance_R _ _ _ _ _ _ o HRp HRb' Es) as (p' & b' & _ & _ & -> & _).
      cbn [bind]. discriminate. }
    destruct (_ <? Z.of_N _); [apply Hadv|].
    destruct (c_cancun cfg && _); [apply Hadv|].
    destruct (negb (m_resolves _)); [apply Hadv|].
    destruct (negb (tx_fits_size S Rc meta env (it_tx it))); [discriminate|].
    destruct (m_protected _ && negb _); [apply Hadv|].
    pose proof (commit_transaction_fuel env (it_tx it)) as Hc.
    destruct (commit_transaction S Rc meta pre_check exec cfg env (it_tx it)) as [[[env1 err] reached]| |];
      cbn [bind]; [|discriminate|congruence].
    destruct err as [[]|]; apply Hadv.
  Qed.

  Lemma loop_terminates : forall fuel sigs env plain blob aqp aqb,
    R bf plain aqp -> R bf blob aqb -> (size plain + size blob < fuel)%nat ->
    commit_loop fuel sigs env plain blob <> OutOfFuel.
  Proof.
    induction fuel as [|f IH]; intros sigs env plain blob aqp aqb HRp HRb Hlt; [lia|].
    cbn [Build.commit_loop].
    pose proof (body_fuel (match sigs with [] => 0%N | s :: _ => s end) env plain blob aqp aqb HRp HRb) as Hb.
    destruct (loop_body _ env plain blob) as [[st0 blob0|a env1 plain1 blob1]| |] eqn:Eb;
      cbn [bind]; try discriminate; [|congruence].
    apply (body_step S Rc meta pre_check exec cfg) in Eb.
    destruct Eb as [Hsel Hadv _].
    destruct (maybe_clear_R env blob aqb HRb) as (aqb' & HRb' & Hle).
    destruct (advance_R _ _ _ _ _ _ (at_op a) HRp HRb' Hsel) as (p' & b' & aqp1 & aqb1 & Ea & HRp1 & HRb1 & Hdec).
    rewrite Ea in Hadv. injection Hadv as <- <-.
    assert (Hrec : commit_loop f (tl sigs) env1 p' b' <> OutOfFuel) by (eapply IH; eauto; lia).
    destruct (commit_loop f (tl sigs) env1 p' b') as [[[[[? ?] ?] ?] ?]| |]; cbn [bind]; congruence.
  Qed.

  (* build_terminates: commitTransactions over iterators built from maps (distinct
     senders, no empty list) returns — a result or a Go panic — never runs out of the
     fuel the model gives it, whatever the execution oracle and the interrupt do *)
  Theorem build_terminates sigs env pp pb plain blob :
    NoDup (map fst pp) -> NoDup (map fst pb) ->
    new_by_price_and_nonce pp bf = Ok plain -> new_by_price_and_nonce pb bf = Ok blob ->
    commit_transactions S Rc meta pre_check exec cfg sigs env plain blob <> OutOfFuel.
  Proof.
    intros NDp NDb Ep Eb. unfold commit_transactions.
    destruct (new_R pp bf NDp (new_ok_nonempty _ _ _ Ep)) as (st1 & E1 & HR1).
    destruct (new_R pb bf NDb (new_ok_nonempty _ _ _ Eb)) as (st2 & E2 & HR2).
    rewrite Ep in E1. injection E1 as <-. rewrite Eb in E2. injection E2 as <-.
    eapply loop_terminates; eauto.
  Qed.
End Termination.

(* ------------------------------------------------------------------------- *)
(* 7. the attempts made on each iterator form a run of the C43 iterator: Peek, then
      Shift or Pop as decided; so every C43 theorem applies to the builder's traces *)

Section Order.
  Variables S Rc : Type.
  Variable meta : tx -> txmeta.
  Variable pre_check : S -> tx -> pre_res.
  Variable exec : S -> tx -> exec_res S Rc.
  Variable cfg : bconfig.

  Notation loop_body := (loop_body S Rc meta pre_check exec cfg).
  Notation commit_loop := (commit_loop S Rc meta pre_check exec cfg).
  Notation maybe_clear := (maybe_clear S Rc cfg).

  Lemma trace_of_cons isb a tr :
    trace_of isb (a :: tr) =
    if Bool.eqb (at_blob a) isb then (at_item a, at_op a) :: trace_of isb tr else trace_of isb tr.
  Proof. unfold trace_of. cbn [filter]. destruct (Bool.eqb (at_blob a) isb); reflexivity. Qed.

  Lemma select_peek plain blob isb it :
    select plain blob = (isb, Some it) -> peek (if isb then blob else plain) = Some it.
  Proof.
    unfold select. destruct (peek plain) as [p|] eqn:Ep; destruct (peek blob) as [b|] eqn:Ebl; intros E;
      try (injection E as <- <-; assumption); try discriminate.
    destruct (it_fee p <? it_fee b)%N; injection E as <- <-; assumption.
  Qed.

  Lemma maybe_clear_cases env blob :
    maybe_clear env blob = blob \/ (maybe_clear env blob = clear blob /\ peek (clear blob) = None).
  Proof.
    unfold Build.maybe_clear. destruct (negb (empty blob) && (c_maxblobs cfg <=? e_blobs env));
      [right; split; reflexivity|left; reflexivity].
  Qed.

  Lemma maybe_clear_empty env blob : st_heads blob = [] -> maybe_clear env blob = blob.
  Proof. intros E. unfold Build.maybe_clear, empty. rewrite E. reflexivity. Qed.

  Lemma advance_inv isb o plain blob p' b' :
    advance isb o plain blob = Ok (p', b') ->
    if isb then apply_op o blob = Ok b' /\ p' = plain else apply_op o plain = Ok p' /\ b' = blob.
  Proof.
    unfold advance. destruct isb.
    - destruct (apply_op o blob); cbn [bind]; intros E; try discriminate. injection E as <- <-. auto.
    - destruct (apply_op o plain); cbn [bind]; intros E; try discriminate. injection E as <- <-. auto.
  Qed.

  Lemma no_blob_attempts : forall fuel sigs env plain blob env' p' b' tr st,
    st_heads blob = [] ->
    commit_loop fuel sigs env plain blob = Ok (env', p', b', tr, st) -> trace_of true tr = [].
  Proof.
    induction fuel as [|f IH]; intros sigs env plain blob env' p' b' tr st Hb E; [discriminate|].
    cbn [Build.commit_loop] in E.
    destruct (loop_body _ env plain blob) as [[st0 blob0|a env1 plain1 blob1]| |] eqn:Eb; cbn [bind] in E; try discriminate.
    - injection E as _ _ _ <- _. reflexivity.
    - destruct (commit_loop f (tl sigs) env1 plain1 blob1) as [[[[[env2 p2] b2] tr2] st2]| |] eqn:El;
        cbn [bind] in E; try discriminate.
      injection E as _ _ _ <- _.
      apply (body_step S Rc meta pre_check exec cfg) in Eb. destruct Eb as [Hsel Hadv _].
      rewrite (maybe_clear_empty env blob Hb) in Hsel, Hadv.
      assert (Hpk : peek blob = None) by (unfold peek; rewrite Hb; reflexivity).
      assert (Hab : at_blob a = false).
      { unfold select in Hsel. rewrite Hpk in Hsel. destruct (peek plain); [|discriminate].
        injection Hsel as <- _. reflexivity. }
      rewrite Hab in Hadv. apply advance_inv in Hadv. destruct Hadv as (_ & ->).
      rewrite trace_of_cons, Hab. cbn [Bool.eqb]. eapply IH; eauto.
  Qed.

  Lemma loop_run : forall fuel sigs env plain blob env' p' b' tr st,
    commit_loop fuel sigs env plain blob = Ok (env', p', b', tr, st) ->
    (exists pe, run plain (map snd (trace_of false tr)) = Ok (trace_of false tr, pe)) /\
    (exists be, run blob (map snd (trace_of true tr)) = Ok (trace_of true tr, be)).
  Proof.
    induction fuel as [|f IH]; intros sigs env plain blob env' p' b' tr st E; [discriminate|].
    cbn [Build.commit_loop] in E.
    destruct (loop_body _ env plain blob) as [[st0 blob0|a env1 plain1 blob1]| |] eqn:Eb; cbn [bind] in E; try discriminate.
    - injection E as _ _ _ <- _. cbn. eauto.
    - destruct (commit_loop f (tl sigs) env1 plain1 blob1) as [[[[[env2 p2] b2] tr2] st2]| |] eqn:El;
        cbn [bind] in E; try discriminate.
      injection E as _ _ _ <- _.
      apply (body_step S Rc meta pre_check exec cfg) in Eb. destruct Eb as [Hsel Hadv _].
      destruct (IH _ _ _ _ _ _ _ _ _ El) as ((pe & Hrp) & (be & Hrb)).
      apply select_peek in Hsel. apply advance_inv in Hadv.
      rewrite !trace_of_cons. destruct (at_blob a) eqn:Hab; cbn [Bool.eqb].
      + destruct Hadv as (Hop & ->).
        assert (Hm : maybe_clear env blob = blob).
        { destruct (maybe_clear_cases env blob) as [H0|[H0 H1]]; [exact H0|]. rewrite H0, H1 in Hsel. discriminate. }
        rewrite Hm in Hsel, Hop. split; [eauto|].
        exists be. cbn [map snd run]. rewrite Hsel, Hop. cbn [bind]. rewrite Hrb. reflexivity.
      + destruct Hadv as (Hop & ->). split.
        * exists pe. cbn [map snd run]. rewrite Hsel, Hop. cbn [bind]. rewrite Hrp. reflexivity.
        * destruct (maybe_clear_cases env blob) as [H0|[H0 _]].
          -- rewrite H0 in Hrb. eauto.
          -- assert (Hnil : trace_of true tr2 = []).
             { eapply no_blob_attempts; [|exact El]. rewrite H0. reflexivity. }
             rewrite Hnil. cbn. eauto.
  Qed.

  (* included_order_valid: for one commitTransactions call over iterators built from the
     pending maps, on each iterator the attempts are a C43 run, hence (C43
     never_before_predecessor / pop_drops_account) when a transaction is attempted exactly
     its predecessors in the sender's list have been attempted before it, in list order
     (no gap, no reordering), and after a Pop nothing of that sender follows.  Included
     transactions are attempts (those with [at_why = WApplied None], each followed by a
     Shift); that [e_txs] is exactly that sub-list of the trace is not proved here. *)
  Theorem included_order_valid bf sigs env pp pb plain blob env' p' b' tr st :
    NoDup (map fst pp) -> NoDup (map fst pb) ->
    new_by_price_and_nonce pp bf = Ok plain -> new_by_price_and_nonce pb bf = Ok blob ->
    commit_transactions S Rc meta pre_check exec cfg sigs env plain blob = Ok (env', p', b', tr, st) ->
    forall isb : bool, let pend := if isb then pb else pp in
    forall tr1 it o tr2, trace_of isb tr = tr1 ++ (it, o) :: tr2 ->
      nth_error (txs_of (it_from it) pend) (length (proj (it_from it) tr1)) = Some (it_tx it) /\
      firstn (length (proj (it_from it) tr1)) (txs_of (it_from it) pend) = proj (it_from it) tr1 /\
      (o = OPop -> proj (it_from it) tr2 = []).
  Proof.
    intros NDp NDb Ep Eb E isb pend tr1 it o tr2 Etr. unfold commit_transactions in E.
    destruct (loop_run _ _ _ _ _ _ _ _ _ _ E) as ((pe & Hrp) & (be & Hrb)).
    destruct isb; cbn zeta in *.
    - destruct (never_before_predecessor pb bf blob NDb Eb _ _ _ Hrb _ _ _ _ Etr) as (H1 & H2).
      split; [exact H1|]. split; [exact H2|]. intros ->.
      exact (pop_drops_account pb bf blob NDb Eb _ _ _ Hrb _ _ _ Etr).
    - destruct (never_before_predecessor pp bf plain NDp Ep _ _ _ Hrp _ _ _ _ Etr) as (H1 & H2).
      split; [exact H1|]. split; [exact H2|]. intros ->.
      exact (pop_drops_account pp bf plain NDp Ep _ _ _ Hrp _ _ _ Etr).
  Qed.
End Order.

(* ------------------------------------------------------------------------- *)
(* 8. the history of the loop: environments before each attempt; what is included is
      exactly the successful attempts; Shift / Pop follow the outcome                 *)

Lemma included_cons a tr :
  included (a :: tr) = if is_included a then it_tx (at_item a) :: included tr else included tr.
Proof.
  unfold included, is_included. cbn [filter].
  destruct (at_why a) as [| | | | |[e|]]; reflexivity.
Qed.

Lemma included_app t1 t2 : included (t1 ++ t2) = included t1 ++ included t2.
Proof. unfold included. now rewrite filter_app, map_app. Qed.

Section Trace.
  Variables S Rc : Type.
  Variable meta : tx -> txmeta.
  Variable pre_check : S -> tx -> pre_res.
  Variable exec : S -> tx -> exec_res S Rc.
  Variable cfg : bconfig.

  Notation benv := (benv S Rc).
  Notation commit_transaction := (commit_transaction S Rc meta pre_check exec cfg).
  Notation commit_loop := (commit_loop S Rc meta pre_check exec cfg).
  Notation step_env := (step_env S Rc meta pre_check exec cfg).
  Notation chain := (chain S Rc meta pre_check exec cfg).
  Notation committed := (committed S Rc meta pre_check exec cfg).

  Lemma loop_hist : forall fuel sigs env plain blob env' p' b' tr st,
    commit_loop fuel sigs env plain blob = Ok (env', p', b', tr, st) ->
    exists h, map snd h = tr /\ chain env h env'.
  Proof.
    induction fuel as [|f IH]; intros sigs env plain blob env' p' b' tr st E; [discriminate|].
    cbn [Build.commit_loop] in E.
    destruct (loop_body S Rc meta pre_check exec cfg _ env plain blob) as [[st0 blob0|a env1 plain1 blob1]| |] eqn:Eb;
      cbn [bind] in E; try discriminate.
    - injection E as <- _ _ <- _. exists []. split; reflexivity.
    - destruct (commit_loop f (tl sigs) env1 plain1 blob1) as [[[[[env2 p2] b2] tr2] st2]| |] eqn:El;
        cbn [bind] in E; try discriminate.
      injection E as <- _ _ <- _.
      destruct (IH _ _ _ _ _ _ _ _ _ El) as (h & Hm & Hc).
      exists ((env, a) :: h). split; [cbn; now rewrite Hm|].
      cbn [Build.chain]. split; [reflexivity|]. exists env1. split; [|exact Hc].
      apply (body_step S Rc meta pre_check exec cfg) in Eb.
      destruct (st_env _ _ _ _ _ _ _ _ _ _ _ _ _ Eb) as [H0|(err & reached & Hct & Hop & Hw & _)].
      + left. exact H0.
      + right. exists err, reached. auto.
  Qed.

  Lemma chain_app h1 : forall e h2 e1 e2, chain e h1 e1 -> chain e1 h2 e2 -> chain e (h1 ++ h2) e2.
  Proof.
    induction h1 as [|[e0 a] h1 IH]; intros e h2 e1 e2 H1 H2; cbn in *.
    - subst. exact H2.
    - destruct H1 as (-> & ex & Hs & Hc). split; [reflexivity|]. exists ex. split; [exact Hs|]. eapply IH; eauto.
  Qed.

  (* an invariant of commit_transaction holds before every attempt and at the end *)
  Lemma chain_inv (P : benv -> Prop) :
    (forall e t e1 err reached, P e -> commit_transaction e t = Ok (e1, err, reached) -> P e1) ->
    forall h e e', chain e h e' -> P e -> P e' /\ Forall (fun ea => P (fst ea)) h.
  Proof.
    intros HP. induction h as [|[e0 a] h IH]; intros e e' Hc He; cbn in Hc.
    - subst. auto.
    - destruct Hc as (-> & e1 & Hs & Hc).
      assert (H1 : P e1).
      { destruct Hs as [(-> & _)|(err & reached & Hct & _)]; eauto. }
      destruct (IH _ _ Hc H1) as (He' & Hf). split; [exact He'|]. constructor; auto.
  Qed.

  Lemma committed_txs e t e1 err reached :
    committed e t e1 err reached ->
    e_txs e1 = e_txs e ++ (match err with None => [t] | Some _ => [] end) /\
    (reached = false -> err = Some EOther).
  Proof.
    intros Hc. destruct Hc as [nb _ _ _|ex er Ha _|ex rc _ Ha|ex rc nb _ _ _ Ha].
    - rewrite app_nil_r. auto.
    - inversion Ha; subst. cbn. rewrite app_nil_r. split; [reflexivity|discriminate].
    - inversion Ha; subst. cbn. split; [reflexivity|discriminate].
    - inversion Ha; subst. cbn. split; [reflexivity|discriminate].
  Qed.

  (* one attempt: what it adds to the block, and Shift / Pop against its outcome *)
  Lemma step_env_spec e a e1 :
    step_env e a e1 ->
    e_txs e1 = e_txs e ++ (if is_included a then [it_tx (at_item a)] else []) /\
    (at_op a = OShift <-> at_why a = WApplied None \/ at_why a = WApplied (Some ENonceTooLow)).
  Proof.
    intros [(-> & Hop & Hw)|(err & reached & Hct & Hop & Hw)].
    - split.
      + unfold is_included. destruct Hw as [-> |[-> |[-> | ->]]]; now rewrite app_nil_r.
      + rewrite Hop. split; [discriminate|]. intros [H0|H0]; destruct Hw as [Hw|[Hw|[Hw|Hw]]]; congruence.
    - apply (commit_transaction_spec S Rc meta pre_check exec cfg) in Hct.
      destruct (committed_txs _ _ _ _ _ Hct) as (Ht & Hr). rewrite Ht, Hop. unfold is_included. rewrite Hw.
      destruct reached.
      + split; [destruct err; reflexivity|].
        destruct err as [[]|]; cbn; split; intros H0; try discriminate; auto;
          destruct H0 as [H0|H0]; discriminate.
      + rewrite (Hr eq_refl). cbn. split; [reflexivity|]. split; [discriminate|]. intros [H0|H0]; discriminate.
  Qed.

  Lemma chain_included h : forall e e', chain e h e' ->
    e_txs e' = e_txs e ++ included (map snd h) /\
    Forall (fun a => at_op a = OShift <-> at_why a = WApplied None \/ at_why a = WApplied (Some ENonceTooLow)) (map snd h).
  Proof.
    induction h as [|[e0 a] h IH]; intros e e' Hc; cbn in Hc.
    - subst. cbn. rewrite app_nil_r. auto.
    - destruct Hc as (-> & e1 & Hs & Hc). destruct (step_env_spec _ _ _ Hs) as (Ht & Hop).
      destruct (IH _ _ Hc) as (Ht' & Hf). cbn [map snd]. rewrite included_cons. split.
      + rewrite Ht', Ht, <- app_assoc. destruct (is_included a); reflexivity.
      + constructor; assumption.
  Qed.
End Trace.

(* ------------------------------------------------------------------------- *)
(* 9. per sender: included transactions against the sender's pending list        *)

Lemma filter_split {A} (p : A -> bool) : forall l pre x post,
  filter p l = pre ++ x :: post ->
  exists l1 l2, l = l1 ++ x :: l2 /\ filter p l1 = pre /\ filter p l2 = post /\ p x = true.
Proof.
  induction l as [|y l IH]; intros pre x post E; cbn in E.
  - destruct pre; discriminate.
  - destruct (p y) eqn:Ey.
    + destruct pre as [|z pre]; cbn in E.
      * injection E as <- <-. exists [], l. cbn. auto.
      * injection E as <- E. destruct (IH _ _ _ E) as (l1 & l2 & -> & H1 & H2 & H3).
        exists (y :: l1), l2. cbn. rewrite Ey, H1. auto.
    + destruct (IH _ _ _ E) as (l1 & l2 & -> & H1 & H2 & H3).
      exists (y :: l1), l2. cbn. rewrite Ey. auto.
Qed.

(* if every element but possibly the last satisfies p, filtering drops at most the last *)
Lemma filter_all_but_last {A} (p : A -> bool) (l : list A) :
  (forall pre x post, l = pre ++ x :: post -> post <> [] -> p x = true) ->
  filter p l = l \/ exists x, l = filter p l ++ [x].
Proof.
  induction l as [|y l IHl] using rev_ind; [left; reflexivity|]. intros H.
  assert (Hall : filter p l = l).
  { clear IHl. assert (Hf : Forall (fun z => p z = true) l).
    { apply Forall_forall. intros z Hz. apply in_split in Hz as (l1 & l2 & ->).
      apply (H l1 z (l2 ++ [y])); [now rewrite <- app_assoc|]. destruct l2; discriminate. }
    clear H. induction Hf as [|z l Hz _ IH]; cbn; [reflexivity|]. now rewrite Hz, IH. }
  rewrite filter_app, Hall. cbn. destruct (p y); [left; reflexivity|right]. exists y. now rewrite app_nil_r.
Qed.

Lemma afford_prefix_firstn bf l : exists m, afford_prefix bf l = firstn m l.
Proof.
  induction l as [|t l (m & IH)]; [exists 0%nat; reflexivity|]. cbn.
  destruct (affordable bf t); [exists (Datatypes.S m); cbn; now rewrite IH|exists 0%nat; reflexivity].
Qed.

Lemma prefix_firstn {A} (l p s : list A) m : firstn m l = p ++ s -> p = firstn (length p) l.
Proof.
  revert l m. induction p as [|x p IH]; intros l m E; [reflexivity|].
  destruct m, l as [|y l]; cbn in E; try discriminate. injection E as <- E. cbn. f_equal. eapply IH; eauto.
Qed.

Lemma in_firstn' {A} (x : A) : forall k l, In x (firstn k l) -> In x l.
Proof. induction k as [|k IH]; destruct l; cbn; try tauto. intros [H|H]; auto. Qed.

Lemma sorted_firstn {A} (f : A -> N) l k :
  StronglySorted N.lt (map f l) -> StronglySorted N.lt (map f (firstn k l)).
Proof.
  revert k. induction l as [|x l IH]; intros k H; destruct k; cbn; try constructor.
  - apply IH. now inversion H.
  - inversion H as [|? ? _ Hf]; subst. rewrite Forall_forall in *. intros z Hz. apply Hf.
    apply in_map_iff in Hz as (w & <- & Hw). apply in_map. eapply in_firstn'; eauto.
Qed.

(* Prague rules from genesis; the parent (time 9000) carried 7 blobs: one above the target *)
Definition ex_ccfg : FeesImpl.chain_config :=
  FeesImpl.Build_chain_config (Some 0%Z) (Some 0%Z) (Some 0%Z) None None None None None None
    (Some (FeesImpl.Build_blob_schedule (Some (FeesImpl.Build_blob_config 3 6 3338477))
             (Some (FeesImpl.Build_blob_config 6 9 5007716)) None None None None None)).
Definition ex_parent : FeesImpl.header :=
  FeesImpl.Build_header 1 70000 0 9000 (Some 1000000000%Z) (Some 0%Z) (Some 917504%Z).

Definition ex_run :=
  generate_work (list N) N (list N) N ex_meta ex_pre ex_exec ex_cfg
    (fun s => s) (fun s rs => Some (s, 0%N)) (fun s => s) (fun s => s) (fun s => s)
    (fun rs => rs) (fun rs => rs) (fun q => [q]) ex_ccfg ex_parent true 9012%Z [] [] [] [] 600 ex_pend [].

Lemma proj_trace_of isb a tr :
  proj a (trace_of isb tr) = map (fun x => it_tx (at_item x)) (attempts_of isb a tr).
Proof.
  unfold proj, trace_of, attempts_of. induction tr as [|x tr IH]; [reflexivity|]. cbn [filter].
  destruct (Bool.eqb (at_blob x) isb); cbn [andb map filter fst]; [|exact IH].
  destruct (it_from (at_item x) =? a)%N; cbn [map fst]; now rewrite IH.
Qed.

Lemma trace_of_app isb t1 t2 : trace_of isb (t1 ++ t2) = trace_of isb t1 ++ trace_of isb t2.
Proof. unfold trace_of. now rewrite filter_app, map_app. Qed.

Lemma sorted_map_filter {A} (f : A -> N) (p : A -> bool) l :
  StronglySorted N.lt (map f l) -> StronglySorted N.lt (map f (filter p l)).
Proof.
  induction l as [|x l IH]; intros H; cbn; [constructor|]. inversion H as [|? ? Hs Hf]; subst.
  destruct (p x); [|now apply IH]. cbn. constructor; [now apply IH|].
  rewrite Forall_forall in *. intros z Hz. apply Hf. apply in_map_iff in Hz as (w & <- & Hw).
  apply in_map. now apply filter_In in Hw.
Qed.

Lemma nth_error_firstn_some {A} (t : A) : forall i j l,
  nth_error (firstn j l) i = Some t -> nth_error l i = Some t.
Proof. induction i as [|i IH]; intros j l; destruct j, l; cbn; try discriminate; auto. apply IH. Qed.

Section OrderFull.
  Variables S Rc : Type.
  Variable meta : tx -> txmeta.
  Variable pre_check : S -> tx -> pre_res.
  Variable exec : S -> tx -> exec_res S Rc.
  Variable cfg : bconfig.

  (* included_order_valid.  One commitTransactions call over iterators built from the pending
     maps [pp] (plain) and [pb] (blob):
     - the transactions the call adds to the block are exactly the successful attempts, in
       attempt order;
     - Shift is chosen exactly after a success or a nonce-too-low;
     - per iterator and sender, the attempted transactions are a PREFIX of the sender's pending
       list, in list order, and every attempt but the last one is followed by a Shift;
     - hence, when none of the sender's attempts was refused as nonce-too-low (the pool's view
       of the account nonce is current), the sender's included transactions are a prefix of its
       pending list too (all attempts, or all but the last): no gap, no reordering - with the
       pool's consecutive nonces n0, n0+1, ... exactly the nonces n0 .. n0+j-1;
     - in general (nonce-too-low attempts skipped) they are a sub-list of that prefix, so
       strictly increasing nonces in the pending list give strictly increasing included nonces. *)
  Theorem included_order_valid_full bf sigs env pp pb plain blob env' p' b' tr st :
    NoDup (map fst pp) -> NoDup (map fst pb) ->
    new_by_price_and_nonce pp bf = Ok plain -> new_by_price_and_nonce pb bf = Ok blob ->
    commit_transactions S Rc meta pre_check exec cfg sigs env plain blob = Ok (env', p', b', tr, st) ->
    e_txs env' = e_txs env ++ included tr /\
    (forall x, In x tr ->
       (at_op x = OShift <-> at_why x = WApplied None \/ at_why x = WApplied (Some ENonceTooLow))) /\
    forall (isb : bool) a,
      let l := txs_of a (if isb then pb else pp) in
      let att := attempts_of isb a tr in
      map (fun x => it_tx (at_item x)) att = firstn (length att) l /\
      (forall pre x post, att = pre ++ x :: post -> post <> [] -> at_op x = OShift) /\
      ((forall x, In x att -> at_why x <> WApplied (Some ENonceTooLow)) ->
       exists j, included_of isb a tr = firstn j l /\ (j = length att \/ Datatypes.S j = length att)) /\
      (forall n0, (forall i t, nth_error l i = Some t -> tx_nonce t = n0 + N.of_nat i)%N ->
         (forall x, In x att -> at_why x <> WApplied (Some ENonceTooLow)) ->
         forall i t, nth_error (included_of isb a tr) i = Some t -> tx_nonce t = (n0 + N.of_nat i)%N) /\
      (StronglySorted N.lt (map tx_nonce l) ->
       StronglySorted N.lt (map tx_nonce (included_of isb a tr))).
  Proof.
    intros NDp NDb Ep Eb E. unfold commit_transactions in E.
    destruct (loop_hist S Rc meta pre_check exec cfg _ _ _ _ _ _ _ _ _ _ E) as (h & Hm & Hc).
    destruct (chain_included S Rc meta pre_check exec cfg _ _ _ Hc) as (Htx & Hops). rewrite Hm in Htx, Hops.
    split; [exact Htx|]. split; [now apply Forall_forall|].
    intros isb a l att.
    destruct (loop_run S Rc meta pre_check exec cfg _ _ _ _ _ _ _ _ _ _ E) as ((pe & Hrp) & (be & Hrb)).
    set (pend := if isb then pb else pp) in *.
    assert (Hrun : exists st0 ND se, new_by_price_and_nonce pend bf = Ok st0 /\
                     NoDup (map fst pend) = ND /\
                     run st0 (map snd (trace_of isb tr)) = Ok (trace_of isb tr, se)).
    { destruct isb; [exists blob|exists plain]; eauto. }
    destruct Hrun as (st0 & _ & se & Enew & _ & Hrun).
    assert (ND : NoDup (map fst pend)) by (unfold pend; destruct isb; assumption).
    (* attempts = prefix of the pending list *)
    assert (Hpre : map (fun x => it_tx (at_item x)) att = firstn (length att) l).
    { destruct (per_account_prefix pend bf st0 ND Enew _ _ _ Hrun a) as (s & Hs).
      destruct (afford_prefix_firstn bf (txs_of a pend)) as (m & Hmm). rewrite Hmm in Hs.
      rewrite proj_trace_of in Hs. apply prefix_firstn in Hs. fold att in Hs. rewrite map_length in Hs. exact Hs. }
    (* every attempt but the last is followed by a Shift *)
    assert (Hshift : forall pre x post, att = pre ++ x :: post -> post <> [] -> at_op x = OShift).
    { intros pre x post Eatt Hne. destruct (at_op x) eqn:Eo; [reflexivity|exfalso].
      unfold att, attempts_of in Eatt. apply filter_split in Eatt as (t1 & t2 & Etr & _ & H2 & Hpx).
      apply andb_prop in Hpx as (Hb & Hf). apply Bool.eqb_prop in Hb. apply N.eqb_eq in Hf.
      assert (Et : trace_of isb tr = trace_of isb t1 ++ (at_item x, OPop) :: trace_of isb t2).
      { rewrite Etr, trace_of_app. f_equal. unfold trace_of at 1. cbn [filter]. rewrite Hb, Bool.eqb_reflx.
        cbn [map]. now rewrite Eo. }
      pose proof (pop_drops_account pend bf st0 ND Enew _ _ _ Hrun _ _ _ Et) as Hd.
      rewrite Hf, proj_trace_of in Hd. fold (attempts_of isb a t2) in H2. rewrite H2 in Hd.
      destruct post; [congruence|discriminate]. }
    split; [exact Hpre|]. split; [exact Hshift|].
    assert (Hincl : (forall x, In x att -> at_why x <> WApplied (Some ENonceTooLow)) ->
              exists j, included_of isb a tr = firstn j l /\ (j = length att \/ Datatypes.S j = length att)).
    { intros Hnl.
      assert (Hp : forall pre x post, att = pre ++ x :: post -> post <> [] -> is_included x = true).
      { intros pre x post Eatt Hne. pose proof (Hshift _ _ _ Eatt Hne) as Ho.
        assert (Hin : In x att) by (rewrite Eatt; apply in_or_app; right; now left).
        assert (Hintr : In x tr) by (unfold att, attempts_of in Hin; now apply filter_In in Hin).
        rewrite Forall_forall in Hops. apply (Hops _ Hintr) in Ho. unfold is_included.
        destruct Ho as [-> | Ho]; [reflexivity|]. now apply Hnl in Ho. }
      unfold included_of. fold att.
      destruct (filter_all_but_last is_included att Hp) as [Hall|(x & Hx)].
      - rewrite Hall. exists (length att). auto.
      - exists (length (filter is_included att)). split.
        + rewrite Hx in Hpre at 1. rewrite map_app in Hpre. symmetry in Hpre.
          apply prefix_firstn in Hpre. now rewrite map_length in Hpre.
        + right. rewrite Hx at 2. rewrite app_length. cbn. lia. }
    split; [exact Hincl|]. split.
    - intros n0 Hn Hnl i t Hi. destruct (Hincl Hnl) as (j & Ej & _). rewrite Ej in Hi.
      apply Hn. eapply nth_error_firstn_some; eauto.
    - intros Hs. unfold included_of. fold att.
      assert (Hs' : StronglySorted N.lt (map tx_nonce (map (fun x => it_tx (at_item x)) att))).
      { rewrite Hpre. now apply sorted_firstn. }
      rewrite map_map in Hs'. rewrite map_map. now apply sorted_map_filter.
  Qed.
End OrderFull.

(* ------------------------------------------------------------------------- *)
(* 10. builder trace = importer trace, attempt by attempt                          *)

Section Importer.
  Variables S Rc H Q : Type.
  Variable meta : tx -> txmeta.
  Variable pre_check : S -> tx -> pre_res.
  Variable exec : S -> tx -> exec_res S Rc.
  Variable cfg : bconfig.
  Variable pre_exec : S -> S.
  Variable post_exec : S -> list Rc -> option (S * Q).
  Variable finalize : S -> S.
  Variables (root_of bal_hash_of : S -> H) (receipts_root bloom_of : list Rc -> H) (requests_hash : Q -> H).
  Variable ccfg : FeesImpl.chain_config.
  Variable parent_hdr : FeesImpl.header.
  Variable parent_cancun : bool.
  Variable head_time : Z.
  Hypothesis WF : well_formed meta exec cfg.

  Notation benv := (benv S Rc).
  Notation commit_transaction := (commit_transaction S Rc meta pre_check exec cfg).
  Notation apply_message := (apply_message S Rc meta pre_check exec cfg).
  Notation process_txs := (process_txs S Rc meta pre_check exec cfg).
  Notation chain := (chain S Rc meta pre_check exec cfg).
  Notation step_env := (step_env S Rc meta pre_check exec cfg).
  Notation fill_phase := (fill_phase S Rc meta pre_check exec cfg).
  Notation fill_transactions := (fill_transactions S Rc meta pre_check exec cfg).

  Lemma phase_hist sigs env pp pb env' tr st :
    fill_phase sigs env pp pb = Ok (env', tr, st) -> exists h, map snd h = tr /\ chain env h env'.
  Proof.
    unfold Build.fill_phase. intros E.
    destruct (nonempty pp || nonempty pb). 2:{ injection E as <- <- _. exists []. split; reflexivity. }
    destruct (new_by_price_and_nonce pp (c_basefee cfg)) as [plain| |]; cbn [bind] in E; try discriminate.
    destruct (new_by_price_and_nonce pb (c_basefee cfg)) as [blob| |]; cbn [bind] in E; try discriminate.
    destruct (Build.commit_transactions S Rc meta pre_check exec cfg sigs env plain blob)
      as [[[[[env2 p2] b2] tr2] st2]| |] eqn:El; cbn [bind] in E; try discriminate.
    injection E as <- <- _. unfold Build.commit_transactions in El. eapply loop_hist; eauto.
  Qed.

  Lemma fill_hist sigs1 sigs2 prio env pp pb env' tr1 tr2 :
    fill_transactions sigs1 sigs2 prio env pp pb = Ok (env', tr1, tr2) ->
    exists h, map snd h = tr1 ++ tr2 /\ chain env h env'.
  Proof.
    unfold Build.fill_transactions. intros E.
    destruct (split_prio prio pp) as [pp1 np]. destruct (split_prio prio pb) as [pb1 nb].
    destruct (fill_phase sigs1 env pp1 pb1) as [[[env1 t1] st1]| |] eqn:E1; cbn [bind] in E; try discriminate.
    destruct (phase_hist _ _ _ _ _ _ _ E1) as (h1 & Hm1 & Hc1).
    destruct (interrupted st1). { injection E as <- <- <-. exists h1. rewrite app_nil_r. auto. }
    destruct (fill_phase sigs2 env1 np nb) as [[[env2 t2] st2]| |] eqn:E2; cbn [bind] in E; try discriminate.
    destruct (phase_hist _ _ _ _ _ _ _ E2) as (h2 & Hm2 & Hc2).
    injection E as <- <- <-. exists (h1 ++ h2). rewrite map_app, Hm1, Hm2. split; [reflexivity|].
    eapply chain_app; eauto.
  Qed.

  Variable parent : S.
  Let gp0 := NewGasPool (c_gaslimit cfg).
  Let s0 := pre_exec parent.

  Notation entry_ok := (entry_ok S Rc meta pre_check exec cfg pre_exec parent).

  Definition inv (e : benv) : Prop := sim S Rc meta pre_check exec cfg s0 e /\ lim S Rc meta cfg e.

  Lemma inv_step e t e1 err reached : inv e -> commit_transaction e t = Ok (e1, err, reached) -> inv e1.
  Proof.
    destruct WF as (W1 & W2 & W3 & W4 & W5).
    intros (Hs & Hl) Hc. apply (commit_transaction_spec S Rc meta pre_check exec cfg) in Hc. split.
    - eapply committed_sim; eauto.
    - eapply committed_lim; eauto.
  Qed.

  Lemma chain_entries h : forall e e', chain e h e' -> inv e -> Forall entry_ok h.
  Proof.
    induction h as [|[e0 a] h IH]; intros e e' Hc Hi; [constructor|].
    cbn in Hc. destruct Hc as (-> & e1 & Hs & Hc).
    assert (Hi1 : inv e1).
    { destruct Hs as [(-> & _)|(err & reached & Hct & _)]; [exact Hi|eapply inv_step; eauto]. }
    constructor; [|eapply IH; eauto].
    destruct Hi as ((Hp & Hu) & (_ & _ & Hbg & Hsum)). unfold Build.entry_ok. cbn [fst snd]. unfold gp0, s0 in *.
    split; [exact Hp|]. split; [now symmetry|]. split; [exact Hbg|]. split; [exact Hu|].
    intros Hinc. unfold is_included in Hinc.
    destruct Hs as [(_ & _ & Hw)|(err & reached & Hct & _ & Hw)].
    { destruct Hw as [Hw|[Hw|[Hw|Hw]]]; rewrite Hw in Hinc; discriminate. }
    rewrite Hw in Hinc. destruct reached; [|discriminate]. destruct err; [discriminate|].
    apply (commit_transaction_spec S Rc meta pre_check exec cfg) in Hct.
    assert (Hap : exists ex rc, applied S Rc meta pre_check exec cfg e (it_tx (at_item a)) ex (inl rc)).
    { inversion Hct; subst; eauto. }
    destruct Hap as (ex & rc & Hap). inversion Hap; subst.
    do 3 eexists. split; [eassumption|]. rewrite process_txs_snoc, Hp.
    match goal with Hx : Build.apply_message _ _ _ _ _ _ _ _ _ = _ |- _ => rewrite Hx end. reflexivity.
  Qed.

  (* builder_trace_is_importer_trace *)
  Theorem builder_trace_is_importer_trace sigs1 sigs2 prio size0 pp pb b env tr1 tr2 :
    generate_work S Rc H Q meta pre_check exec cfg pre_exec post_exec finalize root_of bal_hash_of
                  receipts_root bloom_of requests_hash ccfg parent_hdr parent_cancun head_time
                  sigs1 sigs2 prio parent size0 pp pb = GwBlock S Rc H b env tr1 tr2 ->
    exists h, map snd h = tr1 ++ tr2 /\
              chain (make_env S Rc cfg pre_exec parent size0) h env /\
              b_txs H b = included (tr1 ++ tr2) /\
              Forall entry_ok h.
  Proof.
    unfold Build.generate_work. intros E.
    destruct (Build.prepare_excess cfg ccfg parent_hdr parent_cancun head_time) as [ex|]; [|discriminate].
    destruct (fill_transactions sigs1 sigs2 prio (make_env S Rc cfg pre_exec parent size0) pp pb)
      as [[[env' t1] t2]| |] eqn:Ef; try discriminate.
    destruct (assemble S Rc H Q cfg post_exec finalize root_of bal_hash_of receipts_root bloom_of requests_hash
                       head_time env' ex) as [b'|] eqn:Ea; [|discriminate].
    injection E as <- <- <- <-.
    destruct (fill_hist _ _ _ _ _ _ _ _ _ Ef) as (h & Hm & Hc).
    exists h. split; [exact Hm|]. split; [exact Hc|]. split.
    - destruct (chain_included S Rc meta pre_check exec cfg _ _ _ Hc) as (Ht & _). rewrite Hm in Ht.
      unfold assemble in Ea. destruct (post_exec (e_state env') (e_receipts env')) as [[s1 q]|]; [|discriminate].
      injection Ea as <-. cbn [b_txs]. rewrite Ht. reflexivity.
    - eapply chain_entries; [exact Hc|].
      destruct WF as (W1 & W2 & W3 & W4 & W5).
      split.
      + split; [reflexivity|]. cbn. destruct (used_new (c_gaslimit cfg)) as (g & Eg). eauto.
      + unfold lim, make_env. cbn. split; [|unfold P64; lia].
        unfold pool_ok. split; [|reflexivity].
        destruct (c_amsterdam cfg); [apply new_pool_ams|apply new_pool_legacy]; unfold P63, P64; lia.
  Qed.
End Importer.

(* ------------------------------------------------------------------------- *)
(* 11. the same, position by position over the block's transaction list              *)

Section Positions.
  Variables S Rc : Type.
  Variable meta : tx -> txmeta.
  Variable pre_check : S -> tx -> pre_res.
  Variable exec : S -> tx -> exec_res S Rc.
  Variable cfg : bconfig.
  Notation chain := (chain S Rc meta pre_check exec cfg).

  (* every transaction the run added to the block was added by one attempt of the history,
     made from an environment holding exactly the transactions before it *)
  Lemma chain_position h : forall e0 e', chain e0 h e' ->
    forall pre t post, e_txs e' = e_txs e0 ++ pre ++ t :: post ->
    exists e a, In (e, a) h /\ is_included a = true /\ it_tx (at_item a) = t /\
                e_txs e = e_txs e0 ++ pre.
  Proof.
    induction h as [|[e a] h IH]; intros e0 e' Hc pre t post Et; cbn in Hc.
    - subst. exfalso. apply (f_equal (@length tx)) in Et. rewrite !app_length in Et. cbn in Et. lia.
    - destruct Hc as (-> & e1 & Hs & Hc).
      destruct (step_env_spec S Rc meta pre_check exec cfg _ _ _ Hs) as (H1 & _).
      destruct (chain_included S Rc meta pre_check exec cfg _ _ _ Hc) as (H2 & _).
      destruct (is_included a) eqn:Ei.
      + assert (H2' := H2). rewrite H1, <- app_assoc in H2. rewrite H2 in Et. apply app_inv_head in Et.
        cbn [app] in Et.
        destruct pre as [|x pre]; cbn [app] in Et.
        * injection Et as Ea _. exists e0, a. rewrite app_nil_r. repeat split; auto. now left.
        * injection Et as <- Et.
          assert (Et' : e_txs e' = e_txs e1 ++ pre ++ t :: post).
          { rewrite H2'. f_equal. exact Et. }
          destruct (IH _ _ Hc _ _ _ Et') as (e & a' & Hin & Hi & Ht & Hp).
          exists e, a'. repeat split; auto; [now right|]. rewrite Hp, H1, <- app_assoc. reflexivity.
      + rewrite app_nil_r in H1. rewrite <- H1 in Et.
        destruct (IH _ _ Hc _ _ _ Et) as (e & a' & Hin & Hi & Ht & Hp).
        exists e, a'. repeat split; auto; [now right|]. now rewrite Hp, H1.
  Qed.
End Positions.

(* importer_replays_each_included_tx: for EVERY position of the built block's transaction list,
   the importer, having processed the transactions before it, is in exactly the (gas pool,
   state, receipts, blob-gas counter) the builder was in when it attempted this transaction, and
   the evaluation of the per-transaction function at this position is the very evaluation the
   builder made: same result pool / state / receipt *)
Theorem importer_replays_each_included_tx :
  forall (S Rc H Q : Type) meta pre_check exec cfg pre_exec post_exec finalize
         (root_of bal_hash_of : S -> H) (receipts_root bloom_of : list Rc -> H) (requests_hash : Q -> H)
         ccfg parent_hdr parent_cancun head_time,
  well_formed meta exec cfg ->
  forall parent sigs1 sigs2 prio size0 pp pb b env tr1 tr2,
  generate_work S Rc H Q meta pre_check exec cfg pre_exec post_exec finalize root_of bal_hash_of
                receipts_root bloom_of requests_hash ccfg parent_hdr parent_cancun head_time
                sigs1 sigs2 prio parent size0 pp pb
    = GwBlock S Rc H b env tr1 tr2 ->
  forall pre t post, b_txs H b = pre ++ t :: post ->
  exists (e : benv S Rc) gp' s' rc,
    (* the builder's environment when it attempted t: holding exactly the transactions before t *)
    e_txs e = pre /\ e_blobgasused e = sum_blobgas meta pre /\
    (* the importer before this position is in that environment's pool, state, receipts *)
    process_txs S Rc meta pre_check exec cfg (NewGasPool (c_gaslimit cfg)) (pre_exec parent) [] pre
      = Some (e_pool e, e_state e, e_receipts e) /\
    (* one evaluation, shared *)
    apply_message S Rc meta pre_check exec cfg (e_pool e) (e_state e) t = (gp', inl (s', rc)) /\
    process_txs S Rc meta pre_check exec cfg (NewGasPool (c_gaslimit cfg)) (pre_exec parent) [] (pre ++ [t])
      = Some (gp', s', e_receipts e ++ [rc]).
Proof.
  intros S Rc H Q meta pre_check exec cfg pre_exec post_exec finalize root_of bal_hash_of receipts_root
         bloom_of requests_hash ccfg parent_hdr parent_cancun head_time WF parent sigs1 sigs2 prio size0
         pp pb b env tr1 tr2 E pre t post Eb.
  destruct (builder_trace_is_importer_trace S Rc H Q meta pre_check exec cfg pre_exec post_exec finalize
              root_of bal_hash_of receipts_root bloom_of requests_hash ccfg parent_hdr parent_cancun head_time
              WF parent _ _ _ _ _ _ _ _ _ _ E) as (h & Hm & Hc & Htx & Hok).
  destruct (chain_included S Rc meta pre_check exec cfg _ _ _ Hc) as (Hfin & _).
  rewrite Hm, <- Htx, Eb in Hfin. cbn [make_env e_txs app] in Hfin.
  destruct (chain_position S Rc meta pre_check exec cfg h _ _ Hc pre t post Hfin) as (e & a & Hin & Hi & Ht & Hp).
  cbn [make_env e_txs app] in Hp.
  rewrite Forall_forall in Hok. specialize (Hok _ Hin). unfold entry_ok in Hok. cbn [fst snd] in Hok.
  destruct Hok as (H1 & H2 & _ & _ & H5). destruct (H5 Hi) as (gp' & s' & rc & Ha & Hs).
  rewrite Ht in *. rewrite Hp in *. exists e, gp', s', rc. auto 8.
Qed.
