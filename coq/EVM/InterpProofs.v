(* EVM/InterpProofs.v — invariants of the step function and of the interpreter loop of
   the EVM specification (EVM/Step.v, EVM/Interp.v): gas never increases and every
   continuing step costs at least 1, the operand stack obeys the stack table, memory
   is well-formed and paid for, memory and stack accesses never fail, fuel suffices. *)
From GV Require Import Lib.Tactics Lib.Bytes EVM.Jumpdest EVM.Word256 EVM.Memory EVM.MemoryProofs.
From GV Require Import EVM.Gas EVM.State EVM.Instr EVM.Step EVM.Interp.
Local Open Scope N_scope.

Local Arguments N.add : simpl never.
Local Arguments N.sub : simpl never.
Local Arguments N.mul : simpl never.
Local Arguments N.div : simpl never.
Local Arguments N.modulo : simpl never.
Local Arguments N.pow : simpl never.
Local Arguments N.ltb : simpl never.
Local Arguments N.leb : simpl never.
Local Arguments N.max : simpl never.
Local Arguments N.of_nat : simpl never.
Local Arguments N.to_nat : simpl never.
Local Arguments skipn : simpl never.
Local Arguments firstn : simpl never.
Local Arguments nth_error : simpl never.

(* a status that is an EVM outcome, or the one fault not excluded here *)
Definition okst (s : status) : Prop :=
  match s with
  | S_Fault F_RefundUnderflow => True
  | S_Fault _ => False
  | _ => True
  end.
Definition okerr (o : option status) : Prop := match o with Some s => okst s | None => True end.

(* the result of running a frame that was given [g] gas *)
Definition good (r : fresult) (g : N) : Prop := r_gas r <= g /\ okst (r_status r).

(* what the step function of a frame at depth [depth] may assume about child frames *)
Definition hyp_rec (rec : ctx -> world -> N -> fresult) (depth : N) : Prop :=
  1024 < depth \/ forall c' w g, c_depth c' = depth + 1 -> good (rec c' w g) g.

Lemma charge_some g c g' : charge g c = Some g' -> g' + c = g.
Proof.
  unfold charge. destruct (g <? c) eqn:E; [discriminate|]. apply N.ltb_ge in E.
  intros H; inversion H. lia.
Qed.

(* ------------------------------------------------------------------ *)
(* calls and creates hand back at most the gas they were given *)

Section WithRec.
Variable rec : ctx -> world -> N -> fresult.

Lemma run_precompile_ok fk snap w a input gas :
  let r := run_precompile fk snap w a input gas in cr_gas r <= gas /\ okerr (cr_err r).
Proof.
  unfold run_precompile. destruct (fk_precompile fk a input) as [cost out].
  destruct (charge gas cost) eqn:E.
  - apply charge_some in E. destruct out; cbn; split; auto; lia.
  - cbn. split; auto; lia.
Qed.

Lemma run_callee_ok c' a snap w input gas :
  (forall w g, good (rec c' w g) g) ->
  let r := run_callee rec c' a snap w input gas in cr_gas r <= gas /\ okerr (cr_err r).
Proof.
  intros H. unfold run_callee. destruct (fk_is_precompile _ a).
  - apply run_precompile_ok.
  - destruct (c_code c'); [cbn; split; auto; lia|].
    destruct (H w gas) as [Hg Hs]. destruct (r_status (rec c' w gas)); cbn; split; auto; lia.
Qed.

Lemma evm_call_ok e k this tc tv static depth w to value input gas :
  hyp_rec rec depth ->
  let r := evm_call rec e k this tc tv static depth w to value input gas in
  cr_gas r <= gas /\ okerr (cr_err r).
Proof.
  intros H. unfold evm_call. destruct (1024 <? depth) eqn:E; [cbn; split; auto; lia|].
  apply N.ltb_ge in E. destruct H as [H|H]; [lia|].
  destruct k.
  - destruct (transfer w this to value); [|cbn; split; auto; lia].
    apply run_callee_ok. intros; apply H; reflexivity.
  - destruct (_ <? value); [cbn; split; auto; lia|].
    apply run_callee_ok. intros; apply H; reflexivity.
  - apply run_callee_ok. intros; apply H; reflexivity.
  - apply run_callee_ok. intros; apply H; reflexivity.
Qed.

Lemma evm_create_ok e this static depth w init gas value addr :
  hyp_rec rec depth ->
  let r := evm_create rec e this static depth w init gas value addr in
  xr_gas r <= gas /\ okerr (xr_err r).
Proof.
  intros H. unfold evm_create. destruct (1024 <? depth) eqn:E; [cbn; split; auto; lia|].
  apply N.ltb_ge in E. destruct H as [H|H]; [lia|].
  destruct (_ <? value); [cbn; split; auto; lia|].
  destruct (_ <=? _); [cbn; split; auto; lia|].
  destruct (_ || _); [cbn; split; auto; lia|].
  destruct (transfer _ _ _ _) as [w4|]; [|cbn; split; auto; lia].
  set (c' := new_ctx _ _ _ _ _ _ _ _).
  assert (Hr : good (match init with [] => mk_fresult S_Ok [] gas w4 | _ :: _ => rec c' w4 gas end) gas).
  { destruct init; [split; cbn; auto; lia|]. apply H. reflexivity. }
  destruct Hr as [Hg Hs]. revert Hg Hs.
  generalize (match init with [] => mk_fresult S_Ok [] gas w4 | _ :: _ => rec c' w4 gas end).
  intros r Hg Hs. destruct (r_status r); try (cbn; split; auto; lia).
  assert (Hd : forall code,
     let x := match charge (r_gas r) (code_deposit_gas (lenN code)) with
              | None => mk_create_result code 0 (Some (S_Halt E_CodeStoreOutOfGas)) (warm_addr (set_nonce w this (get_nonce w this + 1)) addr)
              | Some g => if max_code_size <? lenN code
                          then mk_create_result code 0 (Some (S_Halt E_MaxCodeSize)) (warm_addr (set_nonce w this (get_nonce w this + 1)) addr)
                          else mk_create_result code g None
                                 (match code with [] => r_w r | _ => set_code (r_w r) addr code end)
              end in xr_gas x <= gas /\ okerr (xr_err x)).
  { intros code. destruct (charge _ _) eqn:Ec; [|cbn; split; auto; lia].
    apply charge_some in Ec. destruct (_ <? _); cbn; split; auto; lia. }
  destruct (r_out r) as [|b l]; [apply Hd|].
  destruct b as [|p]; [apply Hd|].
  do 8 (destruct p as [p|p|]; try apply Hd); cbn; split; auto; lia.
Qed.

End WithRec.

(* ------------------------------------------------------------------ *)
(* memory expansion *)

Lemma pay_mem_inl f ms extra f1 :
  mem_wf (f_mem f) -> pay_mem f ms extra = inl f1 ->
  f_pc f1 = f_pc f /\ f_stack f1 = f_stack f /\ f_ret f1 = f_ret f /\ f_w f1 = f_w f /\
  mem_wf (f_mem f1) /\
  f_gas f1 + m_last (f_mem f1) + extra = f_gas f + m_last (f_mem f) /\
  m_last (f_mem f) <= m_last (f_mem f1) /\
  exists sz, ms = Some sz /\ sz <= mem_len (f_mem f1).
Proof.
  intros Hwf. unfold pay_mem, oog, halt. destruct ms as [sz|]; [|discriminate].
  destruct (round_mem_size sz) as [sz'|] eqn:Er; [|discriminate].
  destruct (memory_gas_cost (f_mem f) sz') as [[fee m']|] eqn:Em; [|discriminate].
  destruct (charge (f_gas f) (fee + extra)) as [g|] eqn:Ec; [|discriminate].
  intros H; inversion H; subst; clear H. cbn [f_pc f_stack f_mem f_gas f_ret f_w].
  apply round_mem_size_spec in Er. destruct Er as (Hle & Hmod & _).
  apply charge_some in Ec.
  pose proof (mgc_spec _ _ _ _ Hwf Hmod Em) as (Hw1 & Hl1 & Hs1 & _).
  repeat match goal with |- _ /\ _ => split end; auto; try lia. exists sz. split; auto. lia.
Qed.

Lemma pay_mem_inr f ms extra r :
  pay_mem f ms extra = inr r -> r_gas r <= f_gas f /\ okst (r_status r).
Proof.
  unfold pay_mem, oog, halt. destruct ms as [sz|]; [|intros H; inversion H; cbn; split; auto; lia].
  destruct (round_mem_size sz) as [sz'|]; [|intros H; inversion H; cbn; split; auto; lia].
  destruct (memory_gas_cost (f_mem f) sz') as [[fee m']|]; [|intros H; inversion H; cbn; split; auto; lia].
  destruct (charge (f_gas f) (fee + extra)) as [g|]; [discriminate|intros H; inversion H; cbn; split; auto; lia].
Qed.

(* ------------------------------------------------------------------ *)
(* the post-condition of executing one instruction on frame [f] (constant gas already
   charged): stack table obeyed exactly, memory invariant kept, gas + total memory fee
   does not grow, and at least 1 gas is spent if the constant gas was 0 *)

Definition exec_post (i : instr) (f : frame) (o : frame + fresult) : Prop :=
  match o with
  | inl f' =>
      (length (f_stack f') + fst (stack_req i) = length (f_stack f) + snd (stack_req i))%nat /\
      mem_wf (f_mem f') /\
      f_gas f' + m_last (f_mem f') + (if const_gas i =? 0 then 1 else 0)
        <= f_gas f + m_last (f_mem f) /\
      m_last (f_mem f) <= m_last (f_mem f')
  | inr r => r_gas r <= f_gas f /\ okst (r_status r)
  end.

Ltac fin :=
  unfold exec_post, next, next_m, next_w, halt, oog, fault_, set_gas, set_w;
  simpl;
  repeat match goal with |- _ /\ _ => split end; auto; try lia.

Lemma sstore_cost_ge o c v cold : 100 <= fst (sstore_cost_refund o c v cold).
Proof.
  unfold sstore_cost_refund, warm_read_cost, cold_sload_cost.
  destruct (c =? v); [cbn; lia|]. destruct (o =? c).
  - destruct (o =? 0); cbn; lia.
  - cbn. lia.
Qed.

Lemma exp_gas_ge e : 10 <= exp_gas e.
Proof. unfold exp_gas. lia. Qed.
Lemma log_gas_ge n s : 375 <= log_gas n s.
Proof. unfold log_gas. lia. Qed.

Lemma upd_nth_length l : forall i x, length (upd_nth l i x) = length l.
Proof. induction l as [|a r IH]; intros [|j] x; simpl; auto. Qed.

Section ExecProofs.
Variable rec : ctx -> world -> N -> fresult.

Lemma exec_call_ok c f k :
  hyp_rec rec (c_depth c) -> mem_wf (f_mem f) ->
  (fst (stack_req (I_call k)) <= length (f_stack f))%nat ->
  exec_post (I_call k) f (exec_call rec c f k).
Proof.
  intros Hrec Hwf Hlen. unfold exec_call.
  set (parsed := match k, f_stack f with
    | (K_CALL | K_CALLCODE), g :: a :: v :: io :: isz :: ro :: rsz :: rest => Some (g, a, v, io, isz, ro, rsz, rest)
    | (K_DELEGATECALL | K_STATICCALL), g :: a :: io :: isz :: ro :: rsz :: rest => Some (g, a, 0, io, isz, ro, rsz, rest)
    | _, _ => None end).
  assert (Hp : exists g a v io isz ro rsz rest, parsed = Some (g, a, v, io, isz, ro, rsz, rest) /\
                (length rest + fst (stack_req (I_call k)) = length (f_stack f))%nat).
  { subst parsed. destruct k; cbn in Hlen;
    destruct (f_stack f) as [|x0 [|x1 [|x2 [|x3 [|x4 [|x5 [|x6 r]]]]]]]; cbn in Hlen; try lia;
    repeat eexists; cbn; lia. }
  destruct Hp as (greq & a & value & io & isz & ro & rsz & rest & -> & Hrest).
  cbv zeta. destruct (max_mem_size _ _) as [sz|] eqn:Emax; [|fin].
  destruct (round_mem_size sz) as [sz'|] eqn:Er; [|fin].
  destruct (access_account (f_w f) (addr_of_word a)) as [cold w1] eqn:Ea.
  destruct (charge (f_gas f) cold) as [ga|] eqn:Ec1; [|fin].
  destruct (_ && _); [fin|].
  destruct (memory_gas_cost (f_mem f) sz') as [[fee m']|] eqn:Em; [|fin].
  cbv zeta.
  match goal with |- context [charge ga (fee + ?t + ?n)] => set (tv := t); set (newacct := n) end.
  destruct (charge ga (fee + tv + newacct)) as [avail0|] eqn:Ec2; [|fin].
  destruct (delegation_access _ w1 _) as [dcost w1'] eqn:Ed.
  destruct (charge avail0 dcost) as [avail|] eqn:Ec2b; [|fin].
  destruct (charge avail (call_gas_cap avail greq)) as [g2|] eqn:Ec3; [|fin].
  apply round_mem_size_spec in Er. destruct Er as (Hle & Hmod & _).
  pose proof (mgc_spec _ _ _ _ Hwf Hmod Em) as (Hw1 & Hl1 & Hs1 & _).
  set (m1 := if 0 <? sz' then mem_resize m' sz' else m') in *.
  apply max_mem_size_spec in Emax. destruct Emax as (x & y & Hx & Hy & Hxs & Hys).
  destruct (mem_read m1 io isz) as [args|] eqn:Erd.
  2:{ exfalso. revert Erd. eapply mem_read_ok; [exact Hy|lia]. }
  set (stip := if negb (value =? 0) then call_stipend else 0).
  pose proof (evm_call_ok rec (c_env c) k (c_addr c) (c_caller c) (c_value c) (c_static c)
                (c_depth c) w1' (addr_of_word a) value args (call_gas_cap avail greq + stip) Hrec) as Hcall.
  cbv zeta in Hcall. destruct Hcall as [Hcg Hce].
  set (r := evm_call _ _ _ _ _ _ _ _ _ _ _ _ _) in *.
  apply charge_some in Ec1, Ec2, Ec2b, Ec3.
  assert (Hstip : stip <= tv).
  { subst stip tv. destruct (negb _); unfold call_stipend, call_value_gas; lia. }
  assert (Hmw : exists m2, mem_write m1 ro rsz (cr_ret r) = Some m2 /\ mem_wf m2 /\ m_last m2 = m_last m1).
  { destruct (mem_write m1 ro rsz (cr_ret r)) as [m2|] eqn:Ew.
    - exists m2. split; auto. split; [eapply mem_write_wf; eauto|]. apply (mem_write_spec _ _ _ _ _ Ew).
    - exfalso. revert Ew. eapply mem_write_ok; [exact Hx|lia]. }
  destruct Hmw as (m2 & Ew & Hw2 & Hf2).
  assert (Hk : (length rest + fst (stack_req (I_call k)) = length (f_stack f))%nat) by exact Hrest.
  destruct (cr_err r) as [s|] eqn:Ee.
  - destruct s as [| |e0|x0]; try rewrite Ew.
    + unfold exec_post. simpl. repeat match goal with |- _ /\ _ => split end; auto; try lia.
      destruct k; simpl in *; lia.
    + unfold exec_post. simpl. rewrite Hf2. repeat match goal with |- _ /\ _ => split end; auto; try lia.
      destruct k; simpl in *; lia.
    + unfold exec_post. simpl. repeat match goal with |- _ /\ _ => split end; auto; try lia.
      destruct k; simpl in *; lia.
    + cbn in Hce. destruct x0; try contradiction. fin.
  - rewrite Ew. unfold exec_post. simpl. rewrite Hf2.
    repeat match goal with |- _ /\ _ => split end; auto; try lia.
    destruct k; simpl in *; lia.
Qed.

Lemma exec_create_ok c f (is2 : bool) :
  hyp_rec rec (c_depth c) -> mem_wf (f_mem f) ->
  (fst (stack_req (if is2 then I_CREATE2 else I_CREATE)) <= length (f_stack f))%nat ->
  exec_post (if is2 then I_CREATE2 else I_CREATE) f (exec_create rec c f is2).
Proof.
  intros Hrec Hwf Hlen. unfold exec_create.
  destruct is2; simpl in Hlen;
  destruct (f_stack f) as [|value [|off [|size [|salt rest]]]] eqn:Hs; simpl in Hlen; try lia;
  (destruct (c_static c); [fin|]);
  (destruct (_ || _); [fin|]);
  unfold bindf;
  (destruct (pay_mem f _ _) as [f1|r0] eqn:Ep; [|apply pay_mem_inr in Ep; exact Ep]);
  (apply pay_mem_inl in Ep; auto);
  destruct Ep as (Hpc & Hst & Hrt & Hw & Hwf1 & Hg & Hml & szm & Hms & Hszm);
  (destruct (mem_read (f_mem f1) off size) as [init|] eqn:Erd;
   [|exfalso; revert Erd; eapply mem_read_ok; eauto]);
  cbv zeta;
  (destruct (charge (f_gas f1) (all_but_one_64th (f_gas f1))) as [g2|] eqn:Ec; [|fin]);
  apply charge_some in Ec;
  match goal with |- context [evm_create rec ?e ?t ?s ?d ?w ?i ?g ?v ?a] =>
    pose proof (evm_create_ok rec e t s d w i g v a Hrec) as Hcr; cbv zeta in Hcr;
    set (r := evm_create rec e t s d w i g v a) in * end;
  destruct Hcr as [Hcg Hce];
  (destruct (xr_err r) as [s|] eqn:Ee;
   [destruct s as [| |e0|x0];
    [| | |cbn in Hce; destruct x0; try contradiction; fin]|]);
  unfold exec_post; rewrite Hs; simpl in *; repeat match goal with |- _ /\ _ => split end; auto; lia.
Qed.

Ltac mem_step :=
  unfold bindf;
  match goal with |- context [pay_mem ?f ?ms ?ex] =>
    let f1 := fresh "f1" in let r0 := fresh "r0" in let Ep := fresh "Ep" in
    destruct (pay_mem f ms ex) as [f1|r0] eqn:Ep;
    [apply pay_mem_inl in Ep; [|assumption];
     destruct Ep as (Hpc & Hst & Hrt & Hw & Hwf1 & Hg & Hml & szm & Hms & Hszm)
    | apply pay_mem_inr in Ep; exact Ep] end.

Ltac post := unfold exec_post; simpl in *;
  repeat match goal with |- _ /\ _ => split end; auto;
  repeat match goal with H : f_stack _ = _ |- _ => rewrite H end; simpl; try lia.

Ltac stack4 Hs Hlen f :=
  destruct (f_stack f) as [|x0 [|x1 [|x2 [|x3 r]]]] eqn:Hs; simpl in Hlen; try lia.

Lemma exec_instr_ok c f i :
  hyp_rec rec (c_depth c) -> mem_wf (f_mem f) ->
  (fst (stack_req i) <= length (f_stack f))%nat ->
  exec_post i f (exec_instr rec c f i).
Proof.
  intros Hrec Hwf Hlen.
  destruct i.
  - (* STOP *) unfold exec_post, exec_instr. simpl. post.
  - (* un *) unfold exec_post, exec_instr. stack4 Hs Hlen f; destruct u; post.
  - (* bin *) unfold exec_post, exec_instr. stack4 Hs Hlen f; destruct b; try solve [post].
    + destruct (charge _ _) eqn:Ec; [apply charge_some in Ec|post].
      pose proof (exp_gas_ge x1). post.
    + destruct (charge _ _) eqn:Ec; [apply charge_some in Ec|post].
      pose proof (exp_gas_ge x1). post.
    + destruct (charge _ _) eqn:Ec; [apply charge_some in Ec|post].
      pose proof (exp_gas_ge x1). post.
  - (* ter *) unfold exec_post, exec_instr. stack4 Hs Hlen f; destruct t; post.
  - (* KECCAK256 *) unfold exec_post, exec_instr. stack4 Hs Hlen f;
    (destruct (2 ^ 64 <=? x1); [post|]); mem_step;
    (destruct (mem_read _ _ _) eqn:Erd; [|exfalso; revert Erd; eapply mem_read_ok; eauto]);
    post; rewrite ?Hst; simpl; lia.
  - (* env0 *) unfold exec_post, exec_instr. post. destruct e; simpl; lia.
  - (* env1 *) unfold exec_post, exec_instr. stack4 Hs Hlen f; post; destruct e; simpl; lia.
  - (* acct *) unfold exec_post, exec_instr. stack4 Hs Hlen f;
    (destruct (access_account _ _) as [extra w1]);
    (destruct (charge _ _) eqn:Ec; [apply charge_some in Ec|post]); post.
  - (* copy *) unfold exec_post, exec_instr. stack4 Hs Hlen f;
    (destruct (2 ^ 64 <=? x2); [post|]); mem_step;
    (destruct c0; [| |(destruct (2 ^ 64 <=? x1); [post|]); (destruct (_ || _); [post|])]);
    (destruct (mem_write _ _ _ _) eqn:Ew; [|exfalso; revert Ew; eapply mem_write_ok; eauto]);
    pose proof (mem_write_spec _ _ _ _ _ Ew) as [Hl2 Hf2];
    pose proof (mem_write_wf _ _ _ _ _ Hwf1 Ew);
    post; rewrite ?Hst, ?Hf2; simpl; lia.
  - (* EXTCODECOPY *) unfold exec_post, exec_instr.
    destruct (f_stack f) as [|x0 [|x1 [|x2 [|x3 r]]]] eqn:Hs; simpl in Hlen; try lia.
    destruct (2 ^ 64 <=? x3); [post|].
    destruct (access_account _ _) as [extra w1].
    assert (Hwf' : mem_wf (f_mem (set_w f w1))) by exact Hwf.
    unfold bindf.
    destruct (pay_mem (set_w f w1) _ _) as [f1|r0] eqn:Ep.
    2:{ apply pay_mem_inr in Ep. exact Ep. }
    apply pay_mem_inl in Ep; [|assumption].
    destruct Ep as (Hpc & Hst & Hrt & Hw & Hwf1 & Hg & Hml & szm & Hms & Hszm).
    destruct (mem_write _ _ _ _) eqn:Ew; [|exfalso; revert Ew; eapply mem_write_ok; eauto].
    pose proof (mem_write_spec _ _ _ _ _ Ew) as [Hl2 Hf2].
    pose proof (mem_write_wf _ _ _ _ _ Hwf1 Ew).
    post; rewrite ?Hst, ?Hf2; simpl in *; try rewrite Hs; simpl; lia.
  - (* POP *) unfold exec_post, exec_instr. stack4 Hs Hlen f; post.
  - (* MLOAD *) unfold exec_post, exec_instr. stack4 Hs Hlen f; mem_step;
    (destruct (mem_read _ _ _) eqn:Erd; [|exfalso; revert Erd; eapply mem_read_ok; eauto]);
    post; rewrite ?Hst; simpl; lia.
  - (* MSTORE *) unfold exec_post, exec_instr. stack4 Hs Hlen f; mem_step;
    unfold mem_write_word;
    (destruct (mem_write _ _ _ _) eqn:Ew; [|exfalso; revert Ew; eapply mem_write_ok; eauto]);
    pose proof (mem_write_spec _ _ _ _ _ Ew) as [Hl2 Hf2];
    pose proof (mem_write_wf _ _ _ _ _ Hwf1 Ew);
    post; rewrite ?Hst, ?Hf2; simpl; lia.
  - (* MSTORE8 *) unfold exec_post, exec_instr. stack4 Hs Hlen f; mem_step;
    unfold mem_write_byte;
    (destruct (mem_write _ _ _ _) eqn:Ew; [|exfalso; revert Ew; eapply mem_write_ok; eauto]);
    pose proof (mem_write_spec _ _ _ _ _ Ew) as [Hl2 Hf2];
    pose proof (mem_write_wf _ _ _ _ _ Hwf1 Ew);
    post; rewrite ?Hst, ?Hf2; simpl; lia.
  - (* SLOAD *) unfold exec_post, exec_instr. stack4 Hs Hlen f;
    (destruct (is_warm_slot _ _ _));
    (destruct (charge _ _) eqn:Ec; [apply charge_some in Ec|post]);
    unfold warm_read_cost, cold_sload_cost in *; post.
  - (* SSTORE *) unfold exec_post, exec_instr. stack4 Hs Hlen f;
    (destruct (c_static c); [post|]);
    (destruct (_ <=? sstore_sentry); [post|]);
    match goal with |- context [sstore_cost_refund ?a ?b ?d ?e] =>
      pose proof (sstore_cost_ge a b d e); destruct (sstore_cost_refund a b d e) as [cost refunds] end;
    (destruct (apply_refunds _ _); [|post]);
    (destruct (charge _ _) eqn:Ec; [apply charge_some in Ec|post]); post.
  - (* JUMP *) unfold exec_post, exec_instr. stack4 Hs Hlen f; (destruct (valid_jump _ _); post).
  - (* JUMPI *) unfold exec_post, exec_instr. stack4 Hs Hlen f;
    (destruct (_ =? 0); [post|]); (destruct (valid_jump _ _); post).
  - (* JUMPDEST *) unfold exec_post, exec_instr. post.
  - (* TSTORE *) unfold exec_post, exec_instr. stack4 Hs Hlen f; (destruct (c_static c); post).
  - (* MCOPY *) unfold exec_post, exec_instr. stack4 Hs Hlen f;
    (destruct (2 ^ 64 <=? x2); [post|]); mem_step;
    (destruct (mem_copy _ _ _ _) eqn:Ew; [|exfalso; revert Ew; eapply mem_copy_ok; eauto]);
    pose proof (mem_copy_spec _ _ _ _ _ Ew) as [Hl2 Hf2];
    assert (mem_wf m) by (destruct Hwf1 as [A B]; unfold mem_wf; rewrite Hl2, Hf2; auto);
    post; rewrite ?Hst, ?Hf2; simpl; lia.
  - (* PUSH *) unfold exec_post, exec_instr. post.
  - (* DUP *) unfold exec_post, exec_instr. simpl in Hlen.
    destruct (nth_error (f_stack f) n) eqn:En.
    + post.
    + apply nth_error_None in En. lia.
  - (* SWAP *) unfold exec_post, exec_instr. simpl in Hlen.
    destruct (f_stack f) as [|top r] eqn:Hs; simpl in Hlen; [lia|].
    destruct (nth_error r n) eqn:En.
    + post. rewrite app_length, firstn_length_le by lia. simpl. rewrite skipn_length. lia.
    + apply nth_error_None in En. lia.
  - (* LOG *) unfold exec_post, exec_instr. simpl in Hlen.
    destruct (f_stack f) as [|off [|size r]] eqn:Hs; simpl in Hlen; try lia.
    destruct (2 ^ 64 <=? size); [post|].
    destruct (length r <? n)%nat eqn:El; [apply Nat.ltb_lt in El; lia|]. apply Nat.ltb_ge in El.
    mem_step.
    destruct (c_static c); [post|].
    destruct (mem_read _ _ _) eqn:Erd; [|exfalso; revert Erd; eapply mem_read_ok; eauto].
    pose proof (log_gas_ge (N.of_nat n) size).
    post; rewrite ?Hst; simpl; rewrite ?skipn_length; lia.
  - (* CREATE *) apply (exec_create_ok c f false); assumption.
  - (* CREATE2 *) apply (exec_create_ok c f true); assumption.
  - (* call *) apply exec_call_ok; assumption.
  - (* RETURN *) unfold exec_post, exec_instr. stack4 Hs Hlen f; mem_step;
    (destruct (mem_read _ _ _) eqn:Erd; [|exfalso; revert Erd; eapply mem_read_ok; eauto]); post.
  - (* REVERT *) unfold exec_post, exec_instr. stack4 Hs Hlen f; mem_step;
    (destruct (mem_read _ _ _) eqn:Erd; [|exfalso; revert Erd; eapply mem_read_ok; eauto]); post.
  - (* INVALID *) unfold exec_post, exec_instr. post.
  - (* SELFDESTRUCT *) unfold exec_post, exec_instr. stack4 Hs Hlen f;
    (destruct (c_static c); [post|]); cbv zeta;
    (destruct (_ <? _); [post|]);
    (destruct (charge _ _) eqn:Ec; [apply charge_some in Ec|post]); post.
  - (* DUPN *) unfold exec_post, exec_instr. simpl in Hlen.
    destruct (nth_error (f_stack f) n) eqn:En.
    + post.
    + apply nth_error_None in En. lia.
  - (* SWAPN *) unfold exec_post, exec_instr. simpl in Hlen.
    destruct (f_stack f) as [|top r] eqn:Hs; simpl in Hlen; [lia|].
    destruct (nth_error r n) eqn:En.
    + post. rewrite app_length, firstn_length_le by lia. simpl. rewrite skipn_length. lia.
    + apply nth_error_None in En. lia.
  - (* EXCHANGE *) unfold exec_post, exec_instr. simpl in Hlen.
    destruct (nth_error (f_stack f) n) eqn:En.
    2:{ apply nth_error_None in En. lia. }
    destruct (nth_error (f_stack f) m) eqn:Em.
    2:{ apply nth_error_None in Em. lia. }
    post. rewrite !upd_nth_length. lia.
  - (* IMMBAD *) unfold exec_post, exec_instr. post.
Qed.

End ExecProofs.

(* ------------------------------------------------------------------ *)
(* one interpreter step *)

Definition frame_inv (f : frame) : Prop :=
  (length (f_stack f) <= stack_limit)%nat /\ mem_wf (f_mem f).

Lemma stack_req_le i : (snd (stack_req i) <= S (fst (stack_req i)))%nat.
Proof. destruct i; try destruct k; try destruct dup; simpl; lia. Qed.

Section StepProofs.
Variable rec : ctx -> world -> N -> fresult.

Lemma step_post c f :
  hyp_rec rec (c_depth c) -> frame_inv f ->
  match step rec c f with
  | inl f' => frame_inv f' /\ f_gas f' < f_gas f /\
              f_gas f' + m_last (f_mem f') <= f_gas f + m_last (f_mem f)
  | inr r => r_gas r <= f_gas f /\ okst (r_status r)
  end.
Proof.
  intros Hrec [Hst Hwf]. unfold step.
  set (i := decode _ _ _).
  pose proof (stack_req_le i) as Hle.
  destruct (stack_req i) as [pops pushes] eqn:Hreq. simpl in Hle.
  destruct (length (f_stack f) <? pops)%nat eqn:E1; [simpl; split; auto; lia|].
  apply Nat.ltb_ge in E1.
  destruct (stack_limit + pops - pushes <? length (f_stack f))%nat eqn:E2; [simpl; split; auto; lia|].
  apply Nat.ltb_ge in E2.
  destruct (charge (f_gas f) (const_gas i)) as [g|] eqn:Ec; [|simpl; split; auto; lia].
  apply charge_some in Ec.
  pose proof (exec_instr_ok rec c (set_gas f g) i Hrec Hwf) as Hex.
  rewrite Hreq in Hex. simpl in Hex. specialize (Hex E1).
  destruct (exec_instr rec c (set_gas f g) i) as [f'|r]; simpl in Hex.
  - rewrite Hreq in Hex. simpl in Hex. destruct Hex as (Hl & Hw' & Hg & Hm).
    unfold frame_inv. unfold stack_limit in *.
    destruct (const_gas i =? 0) eqn:E0.
    + apply N.eqb_eq in E0. repeat match goal with |- _ /\ _ => split end; auto; lia.
    + apply N.eqb_neq in E0. repeat match goal with |- _ /\ _ => split end; auto; lia.
  - destruct Hex. split; auto. lia.
Qed.

End StepProofs.

(* ------------------------------------------------------------------ *)
(* iteration *)

Section Iter.
Context {S R : Type} (f : S -> S + R) (P : S -> Prop) (m : S -> N).
Hypothesis Hstep : forall s s', P s -> f s = inl s' -> P s' /\ m s' < m s.

Lemma iter_pow_inl k : forall s s',
  P s -> iter_pow k f s = inl s' -> P s' /\ m s' + 2 ^ N.of_nat k <= m s.
Proof.
  induction k as [|k IH]; intros s s' Hp H.
  - simpl in H. destruct (Hstep _ _ Hp H). split; auto. change (2 ^ N.of_nat 0) with 1. lia.
  - simpl in H. destruct (iter_pow k f s) as [s1|] eqn:E1; [|discriminate].
    destruct (IH _ _ Hp E1) as [Hp1 Hm1]. destruct (IH _ _ Hp1 H) as [Hp2 Hm2].
    split; auto. rewrite Nat2N.inj_succ, N.pow_succ_r'. lia.
Qed.

Lemma iter_pow_inr k : forall s r,
  P s -> iter_pow k f s = inr r -> exists s0, P s0 /\ m s0 <= m s /\ f s0 = inr r.
Proof.
  induction k as [|k IH]; intros s r Hp H.
  - exists s. repeat split; auto. lia.
  - simpl in H. destruct (iter_pow k f s) as [s1|r1] eqn:E1.
    + destruct (iter_pow_inl k _ _ Hp E1) as [Hp1 Hm1].
      destruct (IH _ _ Hp1 H) as (s0 & A & B & C). exists s0. repeat split; auto.
      assert (2 ^ N.of_nat k <> 0) by (apply N.pow_nonzero; discriminate). lia.
    + inversion H; subst. apply (IH _ _ Hp E1).
Qed.

Lemma reachable_inv s0 s : P s0 -> reachable f s0 s -> P s /\ m s <= m s0.
Proof.
  intros Hp H. induction H as [|s s' Hr [IH1 IH2] Hf].
  - split; auto. lia.
  - destruct (Hstep _ _ IH1 Hf). split; auto. lia.
Qed.

End Iter.

(* ------------------------------------------------------------------ *)
(* frames and the recursion over depth *)

Lemma frame_inv_init w gas : frame_inv (init_frame w gas).
Proof. split; [simpl; unfold stack_limit; lia|apply mem_wf_empty]. Qed.

Lemma step_dec rec c :
  hyp_rec rec (c_depth c) ->
  forall s s', frame_inv s -> step rec c s = inl s' -> frame_inv s' /\ f_gas s' < f_gas s.
Proof.
  intros Hrec s s' Hi H. pose proof (step_post rec c s Hrec Hi) as Hp. rewrite H in Hp.
  destruct Hp as (A & B & _). auto.
Qed.

Lemma fuel_bound_gt gas : gas + 1 < 2 ^ N.of_nat (fuel_bound gas).
Proof. unfold fuel_bound. rewrite N2Nat.id. apply N.size_gt. Qed.

Lemma run_frame_good rec c w gas :
  hyp_rec rec (c_depth c) -> good (run_frame rec c w gas) gas.
Proof.
  intros Hrec. unfold run_frame. destruct (c_code c); [split; simpl; auto; lia|].
  destruct (iter_pow _ _ _) as [f|r] eqn:E.
  - exfalso.
    destruct (iter_pow_inl (step rec c) frame_inv f_gas (step_dec rec c Hrec) _ _ _
                (frame_inv_init w gas) E) as [_ Hm].
    pose proof (fuel_bound_gt gas). simpl in Hm. lia.
  - destruct (iter_pow_inr (step rec c) frame_inv f_gas (step_dec rec c Hrec) _ _ _
                (frame_inv_init w gas) E) as (s0 & Hi & Hg & Hs).
    pose proof (step_post rec c s0 Hrec Hi) as Hp. rewrite Hs in Hp. destruct Hp.
    simpl in Hg. split; auto. lia.
Qed.

Lemma run_good d : forall c w g,
  (1 <= d)%nat -> 1026 <= c_depth c + N.of_nat d -> good (run d c w g) g.
Proof.
  induction d as [|d IH]; intros c w g Hd Hdepth; [lia|].
  simpl. apply run_frame_good.
  destruct (N.ltb 1024 (c_depth c)) eqn:E.
  - left. apply N.ltb_lt in E. exact E.
  - right. apply N.ltb_ge in E. intros c' w' g' Hc'. apply IH; lia.
Qed.

Lemma hyp_rec_run d c :
  1026 <= c_depth c + N.of_nat (S d) -> hyp_rec (run d) (c_depth c).
Proof.
  intros H. destruct (N.ltb 1024 (c_depth c)) eqn:E.
  - left. apply N.ltb_lt in E. exact E.
  - right. apply N.ltb_ge in E. intros c' w' g' Hc'. apply run_good; lia.
Qed.

Lemma hyp_rec_top : hyp_rec (run (pred max_depth_fuel)) 0.
Proof. right. intros c' w g Hc. apply run_good; [unfold max_depth_fuel; simpl; lia|]. rewrite Hc. unfold max_depth_fuel. simpl. lia. Qed.

(* every frame state the interpreter passes through *)
Lemma reachable_frame_inv d c w gas f :
  1026 <= c_depth c + N.of_nat (S d) ->
  reachable (step (run d) c) (init_frame w gas) f ->
  frame_inv f /\ f_gas f <= gas.
Proof.
  intros Hd Hr.
  apply (reachable_inv (step (run d) c) frame_inv f_gas (step_dec _ c (hyp_rec_run d c Hd)) _ _
           (frame_inv_init w gas) Hr).
Qed.

Lemma reachable_mem_paid d c w gas f :
  1026 <= c_depth c + N.of_nat (S d) ->
  reachable (step (run d) c) (init_frame w gas) f ->
  f_gas f + m_last (f_mem f) <= gas.
Proof.
  intros Hd Hr. pose proof (hyp_rec_run d c Hd) as Hrec.
  assert (H : frame_inv f /\ f_gas f + m_last (f_mem f) <= gas).
  { induction Hr as [|s s' Hr' IH Hs].
    - split; [apply frame_inv_init|simpl; lia].
    - destruct IH as [Hi Hg]. pose proof (step_post _ c s Hrec Hi) as Hp. rewrite Hs in Hp.
      destruct Hp as (A & B & C). split; auto. lia. }
  apply H.
Qed.

Lemma top_call_good e w pcs to value input gas :
  let r := top_call e w pcs to value input gas in t_gas r <= gas /\ okst (t_status r).
Proof.
  unfold top_call. cbv zeta.
  match goal with |- context [evm_call ?rc ?a ?b ?c ?d ?ee ?f ?g ?h ?i ?j ?k ?l] =>
    pose proof (evm_call_ok rc a b c d ee f g h i j k l hyp_rec_top) as H; cbv zeta in H end.
  destruct H as [Hg He]. simpl. split; auto.
  destruct (cr_err _); simpl in *; auto.
Qed.

Lemma top_create_good e w pcs value init gas :
  let r := top_create e w pcs value init gas in t_gas r <= gas /\ okst (t_status r).
Proof.
  unfold top_create. cbv zeta.
  match goal with |- context [evm_create ?rc ?a ?b ?c ?d ?ee ?f ?g ?h ?i] =>
    pose proof (evm_create_ok rc a b c d ee f g h i hyp_rec_top) as H; cbv zeta in H end.
  destruct H as [Hg He]. simpl. split; auto.
  destruct (xr_err _); simpl in *; auto.
Qed.

(* ------------------------------------------------------------------ *)
(* the statements used by Properties/C27.v *)

Lemma okst_not_fuel s : okst s -> s <> S_Fault F_OutOfFuel.
Proof. intros H E; subst; exact H. Qed.

Lemma okst_faults s : okst s -> forall k, s = S_Fault k -> k = F_RefundUnderflow.
Proof. intros H k E; subst. destruct k; simpl in H; try contradiction; reflexivity. Qed.

Lemma run_total_call e w pcs to value input gas :
  t_status (top_call e w pcs to value input gas) <> S_Fault F_OutOfFuel.
Proof. apply okst_not_fuel, top_call_good. Qed.

Lemma run_total_create e w pcs value init gas :
  t_status (top_create e w pcs value init gas) <> S_Fault F_OutOfFuel.
Proof. apply okst_not_fuel, top_create_good. Qed.

Lemma run_total_frame d c w gas :
  (1 <= d)%nat -> 1026 <= c_depth c + N.of_nat d ->
  r_status (run d c w gas) <> S_Fault F_OutOfFuel.
Proof. intros H1 H2. apply okst_not_fuel, run_good; assumption. Qed.

Lemma gas_never_exceeds_call e w pcs to value input gas :
  let r := top_call e w pcs to value input gas in
  t_gas r <= gas /\ exists used, used + t_gas r = gas.
Proof.
  cbv zeta. destruct (top_call_good e w pcs to value input gas) as [H _].
  split; auto. exists (gas - t_gas (top_call e w pcs to value input gas)). lia.
Qed.

Lemma gas_never_exceeds_create e w pcs value init gas :
  let r := top_create e w pcs value init gas in
  t_gas r <= gas /\ exists used, used + t_gas r = gas.
Proof.
  cbv zeta. destruct (top_create_good e w pcs value init gas) as [H _].
  split; auto. exists (gas - t_gas (top_create e w pcs value init gas)). lia.
Qed.

Lemma gas_never_exceeds_frame d c w gas :
  (1 <= d)%nat -> 1026 <= c_depth c + N.of_nat d ->
  r_gas (run d c w gas) <= gas /\
  forall f, reachable (step (run (pred d)) c) (init_frame w gas) f -> f_gas f <= gas.
Proof.
  intros H1 H2. split; [apply run_good; assumption|].
  intros f Hr. destruct d; [lia|]. simpl in Hr.
  apply (reachable_frame_inv d c w gas f H2 Hr).
Qed.

Lemma stack_bounded d c w gas f :
  1026 <= c_depth c + N.of_nat (S d) ->
  reachable (step (run d) c) (init_frame w gas) f ->
  (length (f_stack f) <= 1024)%nat.
Proof. intros H Hr. apply (reachable_frame_inv d c w gas f H Hr). Qed.

Lemma memory_paid d c w gas f :
  1026 <= c_depth c + N.of_nat (S d) ->
  reachable (step (run d) c) (init_frame w gas) f ->
  mem_len (f_mem f) mod 32 = 0 /\
  m_last (f_mem f) = mem_fee (mem_len (f_mem f) / 32) /\
  f_gas f + m_last (f_mem f) <= gas.
Proof.
  intros H Hr. destruct (reachable_frame_inv d c w gas f H Hr) as [[_ [A B]] _].
  repeat split; auto. apply (reachable_mem_paid d c w gas f H Hr).
Qed.

(* the accessors fail exactly on an access beyond the paid-for size *)
Lemma mem_read_none m off size :
  mem_read m off size = None <-> size <> 0 /\ mem_len m < off + size.
Proof.
  unfold mem_read. destruct (size =? 0) eqn:E.
  - apply N.eqb_eq in E. split; [discriminate|intros [A _]; contradiction].
  - apply N.eqb_neq in E. destruct (off + size <=? mem_len m) eqn:E2.
    + apply N.leb_le in E2. split; [discriminate|intros [_ B]; lia].
    + apply N.leb_gt in E2. split; auto.
Qed.

Lemma mem_write_none m off size v :
  mem_write m off size v = None <-> size <> 0 /\ mem_len m < off + size.
Proof.
  unfold mem_write. destruct (size =? 0) eqn:E.
  - apply N.eqb_eq in E. split; [discriminate|intros [A _]; contradiction].
  - apply N.eqb_neq in E. destruct (off + size <=? mem_len m) eqn:E2.
    + apply N.leb_le in E2. split; [discriminate|intros [_ B]; lia].
    + apply N.leb_gt in E2. split; auto.
Qed.

Lemma no_exception_value_call e w pcs to value input gas k :
  t_status (top_call e w pcs to value input gas) = S_Fault k -> k = F_RefundUnderflow.
Proof. apply okst_faults, top_call_good. Qed.

Lemma no_exception_value_create e w pcs value init gas k :
  t_status (top_create e w pcs value init gas) = S_Fault k -> k = F_RefundUnderflow.
Proof. apply okst_faults, top_create_good. Qed.

Lemma no_exception_value_frame d c w gas k :
  (1 <= d)%nat -> 1026 <= c_depth c + N.of_nat d ->
  r_status (run d c w gas) = S_Fault k -> k = F_RefundUnderflow.
Proof. intros H1 H2. apply okst_faults, run_good; assumption. Qed.
