(* EVM/MemoryProofs.v — lemmas about EVM/Memory.v: the well-formedness invariant of a
   frame's memory (size a multiple of 32, lastGasCost = fee of the current size), its
   preservation by expansion and by the accessors, and that an access inside the size
   returned by the memory-size function never fails once the memory was resized. *)
From GV Require Import Lib.Tactics Lib.Bytes EVM.Word256 EVM.Memory.
Local Open Scope N_scope.

(* invariant: Memory.Len() is a multiple of 32 and lastGasCost is the total fee for it *)
Definition mem_wf (m : memory) : Prop :=
  mem_len m mod 32 = 0 /\ m_last m = mem_fee (mem_len m / 32).

Lemma mem_wf_empty : mem_wf mem_empty.
Proof. split; reflexivity. Qed.

Lemma mem_fee_mono a b : a <= b -> mem_fee a <= mem_fee b.
Proof.
  intros H. unfold mem_fee.
  assert (a * a <= b * b) by (apply N.mul_le_mono; assumption).
  assert (a * a / 512 <= b * b / 512) by (apply N.div_le_mono; [discriminate | assumption]).
  lia.
Qed.

Lemma two64_val : two64 = 18446744073709551616.
Proof. reflexivity. Qed.

Lemma round_mem_size_spec sz sz' :
  round_mem_size sz = Some sz' -> sz <= sz' /\ sz' mod 32 = 0 /\ sz' < two64.
Proof.
  unfold round_mem_size, to_word_size. rewrite two64_val.
  destruct (18446744073709551616 - 1 - 31 <? sz) eqn:E1.
  - destruct (_ <=? _) eqn:E2; [discriminate|]. apply N.leb_gt in E2. exfalso.
    revert E2. vm_compute. intros H; discriminate.
  - destruct (_ <=? _) eqn:E2; [discriminate|]. intros H; inversion H; subst; clear H.
    apply N.leb_gt in E2. apply N.ltb_ge in E1. lia.
Qed.

Lemma mem_len_resize m size :
  mem_len (mem_resize m size) = N.max (mem_len m) size.
Proof.
  unfold mem_resize. destruct (mem_len m <? size) eqn:E.
  - apply N.ltb_lt in E. unfold mem_len, lenN in *. cbn [m_store].
    rewrite app_length, repeat_length. lia.
  - apply N.ltb_ge in E. lia.
Qed.

Lemma m_last_resize m size : m_last (mem_resize m size) = m_last m.
Proof. unfold mem_resize. destruct (_ <? _); reflexivity. Qed.

(* memoryGasCost followed by Resize, for a rounded size *)
Lemma mgc_spec m sz' fee m' :
  mem_wf m -> sz' mod 32 = 0 ->
  memory_gas_cost m sz' = Some (fee, m') ->
  let m1 := if 0 <? sz' then mem_resize m' sz' else m' in
  mem_wf m1 /\ m_last m1 = m_last m + fee /\ sz' <= mem_len m1 /\ mem_len m <= mem_len m1.
Proof.
  intros [Hl Hf] Hs. unfold memory_gas_cost.
  destruct (sz' =? 0) eqn:E0.
  { apply N.eqb_eq in E0. subst. intros H; inversion H; subst; clear H. cbn.
    repeat split; try assumption; lia. }
  apply N.eqb_neq in E0.
  destruct (137438953440 <? sz') eqn:E1; [discriminate|]. apply N.ltb_ge in E1.
  assert (Hw : to_word_size sz' = sz' / 32).
  { unfold to_word_size. rewrite two64_val.
    destruct (_ <? sz') eqn:E2; [apply N.ltb_lt in E2; lia|]. lia. }
  rewrite Hw.
  assert (Hsz : sz' / 32 * 32 = sz') by lia. rewrite Hsz.
  assert (0 <? sz' = true) as -> by (apply N.ltb_lt; lia).
  destruct (mem_len m <? sz') eqn:E3.
  - apply N.ltb_lt in E3. intros H; inversion H; subst; clear H. cbn zeta.
    assert (Hlen : mem_len (mem_resize (mk_memory (m_store m) (mem_fee (sz' / 32))) sz') = sz').
    { rewrite mem_len_resize. unfold mem_len at 1. cbn [m_store]. fold (mem_len m). lia. }
    unfold mem_wf. rewrite Hlen, m_last_resize. cbn [m_last].
    assert (mem_fee (mem_len m / 32) <= mem_fee (sz' / 32)) by (apply mem_fee_mono; lia).
    repeat split; try lia.
  - apply N.ltb_ge in E3. intros H; inversion H; subst; clear H. cbn zeta.
    assert (Hlen : mem_len (mem_resize m' sz') = mem_len m') by (rewrite mem_len_resize; lia).
    unfold mem_wf. rewrite Hlen, m_last_resize. repeat split; try assumption; lia.
Qed.

(* what the memory-size function promises *)
Lemma calc_mem_size_spec off len sz :
  calc_mem_size off len = Some sz -> (len = 0 /\ sz = 0) \/ (len <> 0 /\ sz = off + len).
Proof.
  unfold calc_mem_size. destruct (two64 <=? len); [discriminate|].
  destruct (len =? 0) eqn:E; [apply N.eqb_eq in E; intros H; inversion H; auto|].
  apply N.eqb_neq in E. destruct (two64 <=? off); [discriminate|].
  destruct (two64 <=? off + len); [discriminate|]. intros H; inversion H; auto.
Qed.

Lemma mem_read_ok m off len sz :
  calc_mem_size off len = Some sz -> sz <= mem_len m -> mem_read m off len <> None.
Proof.
  intros H Hle. apply calc_mem_size_spec in H. unfold mem_read.
  destruct H as [[-> _]|[Hn ->]]; [cbn; discriminate|].
  destruct (len =? 0); [discriminate|].
  destruct (off + len <=? mem_len m) eqn:E; [discriminate|]. apply N.leb_gt in E. lia.
Qed.

Lemma mem_read_ok_le m off len :
  off + len <= mem_len m -> mem_read m off len <> None.
Proof.
  intros Hle. unfold mem_read. destruct (len =? 0); [discriminate|].
  destruct (off + len <=? mem_len m) eqn:E; [discriminate|]. apply N.leb_gt in E. lia.
Qed.

Lemma splice_length l off data :
  (off + length data <= length l)%nat -> length (splice l off data) = length l.
Proof.
  intros H. unfold splice. rewrite !app_length, firstn_length_le, skipn_length by lia. lia.
Qed.

Lemma mem_write_spec m off size v m' :
  mem_write m off size v = Some m' -> mem_len m' = mem_len m /\ m_last m' = m_last m.
Proof.
  unfold mem_write. destruct (size =? 0); [intros H; inversion H; auto|].
  destruct (off + size <=? mem_len m) eqn:E; [|discriminate]. apply N.leb_le in E.
  intros H; inversion H; subst; clear H. split; [|reflexivity].
  unfold mem_len, lenN in *. cbn [m_store]. rewrite splice_length; [reflexivity|].
  pose proof (firstn_le_length (N.to_nat size) v). lia.
Qed.

Lemma mem_write_wf m off size v m' :
  mem_wf m -> mem_write m off size v = Some m' -> mem_wf m'.
Proof.
  intros [H1 H2] H. apply mem_write_spec in H. destruct H as [Hl Hf].
  unfold mem_wf. rewrite Hl, Hf. auto.
Qed.

Lemma mem_write_ok_le m off size v :
  off + size <= mem_len m -> mem_write m off size v <> None.
Proof.
  intros Hle. unfold mem_write. destruct (size =? 0); [discriminate|].
  destruct (off + size <=? mem_len m) eqn:E; [discriminate|]. apply N.leb_gt in E. lia.
Qed.

Lemma mem_write_ok m off size v sz :
  calc_mem_size off size = Some sz -> sz <= mem_len m -> mem_write m off size v <> None.
Proof.
  intros H Hle. apply calc_mem_size_spec in H. unfold mem_write.
  destruct H as [[-> _]|[Hn ->]]; [cbn; discriminate|].
  destruct (size =? 0); [discriminate|].
  destruct (off + size <=? mem_len m) eqn:E; [discriminate|]. apply N.leb_gt in E. lia.
Qed.

Lemma mem_copy_spec m dst src len m' :
  mem_copy m dst src len = Some m' -> mem_len m' = mem_len m /\ m_last m' = m_last m.
Proof.
  unfold mem_copy. destruct (len =? 0); [intros H; inversion H; auto|].
  destruct (mem_read m src len); [|discriminate]. apply mem_write_spec.
Qed.

Lemma mem_copy_ok m dst src len sz :
  calc_mem_size (N.max dst src) len = Some sz -> sz <= mem_len m -> mem_copy m dst src len <> None.
Proof.
  intros H Hle. apply calc_mem_size_spec in H. unfold mem_copy.
  destruct H as [[-> _]|[Hn ->]]; [cbn; discriminate|].
  destruct (len =? 0) eqn:E0; [discriminate|].
  destruct (mem_read m src len) eqn:E.
  - apply mem_write_ok_le. lia.
  - exfalso. revert E. apply mem_read_ok_le; lia.
Qed.

Lemma max_mem_size_spec a b sz :
  max_mem_size a b = Some sz -> exists x y, a = Some x /\ b = Some y /\ x <= sz /\ y <= sz.
Proof.
  destruct a, b; cbn; try discriminate. intros H; inversion H. eexists _, _. repeat split; lia.
Qed.
