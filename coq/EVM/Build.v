(* EVM/Build.v — executable model of the local block builder and of the importer's
   re-execution of a block, transcribed from

     /repo/miner/worker.go          generateWork, prepareWork/makeEnv (the initial
                                    environment), fillTransactions, commitTransactions,
                                    commitTransaction, commitBlobTransaction,
                                    applyTransaction, txFitsSize, signalToErr
     /repo/miner/worker.go          prepareWork: header.ExcessBlobGas (via C35's transcription
                                    Gas/FeesImpl.v of eip4844.CalcExcessBlobGas)
     /repo/core/state_processor.go  Process (sequential), ApplyTransaction
     /repo/core/state_transition.go preCheck / settleGas AS SEEN BY THE BLOCK GAS POOL
     /repo/core/block_validator.go  ValidateBody (blob gas), ValidateState
     /repo/consensus/misc/eip4844   VerifyEIP4844Header (blob gas used)

   Model only; proofs are in EVM/BuildProofs.v.

   What is abstract (Section variables, i.e. explicit parameters of every definition):
   * [S]  the world the EVM executes on: the StateDB together with the block access
          list under construction.  A failed core.ApplyTransaction is followed in the
          miner by RevertToSnapshot, and a failed transaction returns no access list;
          both are modelled by the state simply not changing.
   * [Rc] receipts; [H] hashes / blooms.
   * [pre_check s tx] the part of stateTransition.preCheck BEFORE the block gas pool is
          consulted (nonce, EOA, fee caps, blob / set-code / init-code checks) as an
          error class, and [exec s tx] the rest (buyGas, intrinsic gas, execution up to
          the figures settleGas hands to the pool).  Between the two the model runs the
          pool's own code: Gas/Pool_gen.v, generated from /repo/core/gaspool.go (C31).
   * [meta tx] what the miner reads off a transaction: gas, blob gas, number of
          sidecar blobs, sizes, whether the pool can still resolve it.
   * [pre_exec], [post_exec], [finalize], [root_of] ... the block-level steps that
          miner and importer both call (core.PreExecution, core.PostExecution,
          engine.Finalize, IntermediateRoot, DeriveSha, MergeBloom, BAL hash).
   The iterators are the C43 model Pool/Ordering.v.

   Numbers: uint64 quantities of the pool are [Z] with the wrap-around of
   Gas/Pool_gen.v; Go's [int] blob counters are [Z]; sizes are uint64 ([N], the one
   addition is written [mod 2^64]); counters and identities are [N]. *)
From Coq Require Import List NArith ZArith Bool.
From GV Require Import Gas.GoArith Gas.Pool_gen Pool.Ordering.
From GV Require Gas.FeesImpl.
Import ListNotations.

(* params *)
Definition TxGas : Z := 21000.
Definition MaxTxGas : Z := 16777216.
Definition BlobTxBlobGasPerBlob : N := 131072.
Definition MaxBlockSize : N := 8388608.
Definition maxBlockSizeBufferZone : N := 1000000.
Definition two64 : N := 18446744073709551616.

(* what the miner reads off a (lazy) transaction *)
Record txmeta := mkMeta {
  m_gas : N;                 (* ltx.Gas = tx.Gas() *)
  m_blobgas : N;             (* ltx.BlobGas = tx.BlobGas() = 131072 * len(tx.BlobHashes()) *)
  m_scblobs : option N;      (* len(tx.BlobTxSidecar().Blobs); None = no sidecar *)
  m_size : N;                (* tx.Size() *)
  m_size_noblob : N;         (* tx.WithoutBlobTxSidecar().Size() *)
  m_resolves : bool;         (* ltx.Resolve() != nil *)
  m_protected : bool;        (* tx.Protected() *)
  m_isblob : bool }.         (* tx.Type() == BlobTxType *)

Record bconfig := mkCfg {
  c_cancun : bool;           (* chainConfig.IsCancun(header.Number, header.Time) *)
  c_amsterdam : bool;        (* rules.IsAmsterdam *)
  c_eip155 : bool;           (* chainConfig.IsEIP155(header.Number) *)
  c_maxblobs : Z;            (* miner.maxBlobsPerBlock(header.Time) *)
  c_gaslimit : Z;            (* header.GasLimit *)
  c_basefee : option N }.    (* header.BaseFee *)

(* error classes of core.ApplyTransaction the miner distinguishes (plus the rest) *)
Inductive apply_err :=
| ENonceTooLow | ENonceTooHigh | EGasLimitReached | ETxTypeNotSupported | EOther.

Inductive pre_res :=
| PreOk | PreNonceTooLow | PreNonceTooHigh | PreTxTypeNotSupported | PreOther.

(* the figures settleGas hands to the pool *)
Record charge := mkCharge {
  ch_left : Z;               (* gasLeft   (ChargeGasLegacy's [returned]) *)
  ch_used : Z;               (* gasUsed   (receipt gas) *)
  ch_exec : Z;               (* txExecutionGas (Amsterdam) *)
  ch_state : Z }.            (* txStateGas     (Amsterdam) *)

(* why commitTransactions stopped *)
Inductive stop :=
| StopInterrupt (sig : N)    (* return signalToErr(signal) *)
| StopNoGas                  (* gasPool.Gas() < params.TxGas: break *)
| StopDrained                (* ltx == nil: break *)
| StopSize.                  (* !env.txFitsSize(tx): break *)

(* why an attempt ended the way it did (ghost: used by the statements only) *)
Inductive why :=
| WGas | WBlobSpace | WEvicted | WReplay | WBlobCap
| WApplied (r : option apply_err).

(* one iteration that consumed a head: which iterator, the head, Shift or Pop *)
Record attempt := mkAtt { at_blob : bool; at_item : item; at_op : op; at_why : why }.

Section Build.
  Variables S Rc H Q : Type.
  Variable meta : tx -> txmeta.
  Variable pre_check : S -> tx -> pre_res.
  Inductive exec_res := ExecOk (c : charge) (s' : S) (r : Rc) | ExecErr.
  Variable exec : S -> tx -> exec_res.
  Variable cfg : bconfig.

  (* core.ApplyTransaction / ApplyMessage as far as pool, state and receipt go.  The
     pool is returned in every case (on an error the caller overwrites it). *)
  Definition apply_message (gp : GasPool) (s : S) (t : tx)
    : GasPool * (S * Rc + apply_err) :=
    match pre_check s t with
    | PreNonceTooLow => (gp, inr ENonceTooLow)
    | PreNonceTooHigh => (gp, inr ENonceTooHigh)
    | PreTxTypeNotSupported => (gp, inr ETxTypeNotSupported)
    | PreOther => (gp, inr EOther)
    | PreOk =>
        let gas := Z.of_N (m_gas (meta t)) in
        (* state_transition.go:641  reserve the gas budget in the block gas pool *)
        let '(gp1, e1) :=
          if c_amsterdam cfg
          then GasPool_CheckGasAmsterdam gp (Z.min gas MaxTxGas) gas
          else GasPool_CheckGasLegacy gp gas in
        if negb (e1 =? 0)%Z then (gp1, inr EGasLimitReached)
        else
          match exec s t with
          | ExecErr => (gp1, inr EOther)
          | ExecOk c s' r =>
              (* state_transition.go:1001  settle in the block-level pool *)
              let '(gp2, e2) :=
                if c_amsterdam cfg
                then GasPool_ChargeGasAmsterdam gp1 (ch_exec c) (ch_state c) (ch_used c)
                else GasPool_ChargeGasLegacy gp1 (ch_left c) (ch_used c) in
              if (e2 =? 0)%Z then (gp2, inl (s', r))
              else if (e2 =? ErrGasLimitReached)%Z then (gp2, inr EGasLimitReached)
              else (gp2, inr EOther)
          end
    end.

  (* miner.environment, projected *)
  Record benv := mkEnv {
    e_state : S;
    e_pool : GasPool;
    e_tcount : N;
    e_size : N;
    e_blobs : Z;
    e_txs : list tx;
    e_receipts : list Rc;
    e_gasused : Z;            (* header.GasUsed *)
    e_blobgasused : N;        (* *header.BlobGasUsed *)
    e_reverted : list (tx * N) }.

  (* worker.go applyTransaction *)
  Definition apply_transaction (env : benv) (t : tx) : res (benv * (Rc + apply_err)) :=
    let gp := snd (GasPool_Snapshot (e_pool env)) in
    match apply_message (e_pool env) (e_state env) t with
    | (gp', inr e) =>
        (* env.state.RevertToSnapshot(snap); env.gasPool.Set(gp); record the revert *)
        Ok (mkEnv (e_state env) (GasPool_Set gp' gp) (e_tcount env) (e_size env) (e_blobs env)
                  (e_txs env) (e_receipts env) (e_gasused env) (e_blobgasused env)
                  (e_reverted env ++ [(t, e_tcount env)]),
            inr e)
    | (gp', inl (s', r)) =>
        (* env.header.GasUsed = env.gasPool.Used() *)
        match GasPool_Used gp' with
        | None => Panic
        | Some (_, used) =>
            Ok (mkEnv s' gp' (e_tcount env) (e_size env) (e_blobs env)
                      (e_txs env) (e_receipts env) used (e_blobgasused env) (e_reverted env),
                inl r)
        end
    end.

  (* worker.go commitTransaction / commitBlobTransaction; None = nil error *)
  Definition commit_transaction (env : benv) (t : tx) : res (benv * option apply_err * bool) :=
    (* the boolean tells whether applyTransaction was reached (ghost) *)
    if m_isblob (meta t) then
      match m_scblobs (meta t) with
      | None => Panic                       (* "blob transaction without blobs in miner" *)
      | Some nb =>
          if (c_maxblobs cfg <? e_blobs env + Z.of_N nb)%Z
          then Ok (env, Some EOther, false) (* "max data blobs reached" *)
          else
            do (env1, r) <- apply_transaction env t;
            match r with
            | inr e => Ok (env1, Some e, true)
            | inl rc =>
                Ok (mkEnv (e_state env1) (e_pool env1) (e_tcount env1 + 1)
                          ((e_size env1 + m_size_noblob (meta t)) mod two64)
                          (e_blobs env1 + Z.of_N nb)
                          (e_txs env1 ++ [t]) (e_receipts env1 ++ [rc]) (e_gasused env1)
                          ((e_blobgasused env1 + m_blobgas (meta t)) mod two64)
                          (e_reverted env1),
                    None, true)
            end
      end
    else
      do (env1, r) <- apply_transaction env t;
      match r with
      | inr e => Ok (env1, Some e, true)
      | inl rc =>
          Ok (mkEnv (e_state env1) (e_pool env1) (e_tcount env1 + 1)
                    ((e_size env1 + m_size (meta t)) mod two64) (e_blobs env1)
                    (e_txs env1 ++ [t]) (e_receipts env1 ++ [rc]) (e_gasused env1)
                    (e_blobgasused env1) (e_reverted env1),
              None, true)
      end.

  (* TransactionsByPriceAndNonce.Clear *)
  Definition clear (t : state) : state := mkState [] [] (st_basefee t).

  (* environment.txFitsSize *)
  Definition tx_fits_size (env : benv) (t : tx) : bool :=
    ((e_size env + m_size (meta t)) mod two64 <? MaxBlockSize - maxBlockSizeBufferZone)%N.

  (* number of transactions an iterator can still yield; fuel of the loop *)
  Definition iter_size (t : state) : nat :=
    (length (st_heads t) + fold_right (fun p n => length (snd p) + n) 0 (st_txs t))%nat.

  (* "if !blobTxs.Empty() && env.blobs >= maxBlobs { blobTxs.Clear() }" *)
  Definition maybe_clear (env : benv) (blob : state) : state :=
    if negb (empty blob) && (c_maxblobs cfg <=? e_blobs env)%Z then clear blob else blob.

  (* the switch over plainTxs.Peek() / blobTxs.Peek(): (chose the blob iterator, head) *)
  Definition select (plain blob : state) : bool * option item :=
    match peek plain, peek blob with
    | None, b => (true, b)
    | p, None => (false, p)
    | Some p, Some b => if (it_fee p <? it_fee b)%N then (true, Some b) else (false, Some p)
    end.

  (* Shift or Pop on the iterator the head came from *)
  Definition advance (isb : bool) (o : op) (plain blob : state) : res (state * state) :=
    do txs' <- apply_op o (if isb then blob else plain);
    Ok (if isb then plain else txs', if isb then txs' else blob).

  (* what one iteration of the for loop does *)
  Inductive body_result :=
  | BStop (st : stop) (blob' : state)
  | BStep (a : attempt) (env' : benv) (plain' blob' : state).

  (* worker.go commitTransactions: the body of the for loop.  [sig]: the value
     interrupt.Load() returns at the top of this iteration. *)
  Definition loop_body (sig : N) (env : benv) (plain blob : state) : res body_result :=
    if negb (sig =? 0)%N then
      (* signalToErr: 1 new head, 2 resubmit, 3 timeout; anything else panics *)
      if (sig <=? 3)%N then Ok (BStop (StopInterrupt sig) blob) else Panic
    else if (snd (GasPool_Gas (e_pool env)) <? TxGas)%Z then Ok (BStop StopNoGas blob)
    else
      let blob := maybe_clear env blob in
      match select plain blob with
      | (_, None) => Ok (BStop StopDrained blob)
      | (isb, Some it) =>
          let t := it_tx it in
          let step (o : op) (w : why) (env' : benv) :=
            do (p', b') <- advance isb o plain blob;
            Ok (BStep (mkAtt isb it o w) env' p' b') in
          if (snd (GasPool_Gas (e_pool env)) <? Z.of_N (m_gas (meta t)))%Z then
            step OPop WGas env
          else if c_cancun cfg &&
                  (c_maxblobs cfg - e_blobs env <? Z.of_N (m_blobgas (meta t) / BlobTxBlobGasPerBlob))%Z then
            step OPop WBlobSpace env
          else if negb (m_resolves (meta t)) then step OPop WEvicted env
          else if negb (tx_fits_size env t) then Ok (BStop StopSize blob)
          else if m_protected (meta t) && negb (c_eip155 cfg) then step OPop WReplay env
          else
            do (env1, err, reached) <- commit_transaction env t;
            let w := if reached then WApplied err else WBlobCap in
            match err with
            | Some ENonceTooLow => step OShift w env1
            | None => step OShift w env1
            | Some _ => step OPop w env1
            end
      end.

  (* worker.go commitTransactions: the for loop.  [sigs]: what interrupt.Load() returns
     at the top of each iteration (none left = commitInterruptNone). *)
  Fixpoint commit_loop (fuel : nat) (sigs : list N) (env : benv) (plain blob : state)
    : res (benv * state * state * list attempt * stop) :=
    match fuel with
    | O => OutOfFuel
    | Datatypes.S f =>
        do br <- loop_body (match sigs with [] => 0%N | s :: _ => s end) env plain blob;
        match br with
        | BStop st blob' => Ok (env, plain, blob', [], st)
        | BStep a env' plain' blob' =>
            do (env'', p, b, tr, st) <- commit_loop f (tl sigs) env' plain' blob';
            Ok (env'', p, b, a :: tr, st)
        end
    end.

  Definition commit_transactions (sigs : list N) (env : benv) (plain blob : state) :=
    commit_loop (Datatypes.S (iter_size plain + iter_size blob)) sigs env plain blob.

  (* worker.go fillTransactions: the split of the two pending maps by [prio] *)
  Definition split_prio (prio : list N) (pend : amap) : amap * amap :=
    fold_left (fun '(pr, nm) a =>
                 match lookup a nm with
                 | Some ((_ :: _) as l) => (update a l pr, delete a nm)
                 | _ => (pr, nm)
                 end) prio ([], pend).

  Definition nonempty (m : amap) : bool := match m with [] => false | _ => true end.

  (* One commitTransactions call of fillTransactions over freshly built iterators.
     [sigs] is what the interrupt shows during this call. *)
  Definition fill_phase (sigs : list N) (env : benv) (pp pb : amap)
    : res (benv * list attempt * option stop) :=
    if nonempty pp || nonempty pb then
      do plain <- new_by_price_and_nonce pp (c_basefee cfg);
      do blob <- new_by_price_and_nonce pb (c_basefee cfg);
      do (env', _, _, tr, st) <- commit_transactions sigs env plain blob;
      Ok (env', tr, Some st)
    else Ok (env, [], None).

  Definition interrupted (st : option stop) : bool :=
    match st with Some (StopInterrupt _) => true | _ => false end.

  (* fillTransactions: prioritised senders first, then the rest; an interrupt in the
     first phase returns at once.  [sigs1]/[sigs2]: the interrupt during each phase. *)
  Definition fill_transactions (sigs1 sigs2 : list N) (prio : list N) (env : benv)
             (pend_plain pend_blob : amap)
    : res (benv * list attempt * list attempt) :=
    let '(pp, np) := split_prio prio pend_plain in
    let '(pb, nb) := split_prio prio pend_blob in
    do (env1, tr1, st1) <- fill_phase sigs1 env pp pb;
    if interrupted st1 then Ok (env1, tr1, [])
    else
      do (env2, tr2, _) <- fill_phase sigs2 env1 np nb;
      Ok (env2, tr1, tr2).

  (* ----------------------------------------------------------------------- *)
  (* block level: what generateWork and StateProcessor.Process share           *)

  Variable pre_exec : S -> S.                       (* core.PreExecution *)
  Variable post_exec : S -> list Rc -> option (S * Q).  (* core.PostExecution: requests; None = error *)
  Variable finalize : S -> S.                       (* engine.Finalize (withdrawals) *)
  Variable root_of : S -> H.                        (* IntermediateRoot *)
  Variable bal_hash_of : S -> H.                    (* hash of the merged access list *)
  Variable receipts_root : list Rc -> H.            (* DeriveSha(receipts) *)
  Variable bloom_of : list Rc -> H.                 (* MergeBloom(receipts) *)
  Variable requests_hash : Q -> H.                  (* CalcRequestsHash *)
  Variable H_eqb : H -> H -> bool.

  (* prepareWork's EIP-4844 header fields.  CalcExcessBlobGas is the C35 transcription
     Gas/FeesImpl.v [calc_excess_blob_gas]; it depends on the fork / blob schedule in force
     at the timestamp it is given. *)
  Variable ccfg : FeesImpl.chain_config.     (* fork times and blob schedule *)
  Variable parent_hdr : FeesImpl.header.     (* the parent: base fee, excess blob gas, blob gas used *)
  Variable parent_cancun : bool.             (* chainConfig.IsCancun(parent.Number, parent.Time) *)
  Variable head_time : Z.                    (* [timestamp]: the NEW block's time *)

  (* worker.go:328  "if IsCancun(header) { var excessBlobGas uint64; if IsCancun(parent) {
     excessBlobGas = eip4844.CalcExcessBlobGas(chainConfig, parent, timestamp) } ... }"
     None = the Go code panics; Some None = header.ExcessBlobGas stays nil *)
  Definition prepare_excess : option (option Z) :=
    if c_cancun cfg then
      if parent_cancun then
        match FeesImpl.calc_excess_blob_gas ccfg parent_hdr head_time with
        | FeesImpl.Ok e => Some (Some e)
        | _ => None
        end
      else Some (Some 0%Z)
    else Some None.

  Record header := mkHeader {
    h_gaslimit : Z; h_gasused : Z; h_blobgasused : N;
    h_root : H; h_receipts : H; h_bloom : H; h_requests : H; h_balhash : H;
    h_time : Z; h_excessblobgas : option Z }.

  Record block := mkBlock { b_header : header; b_txs : list tx }.

  (* prepareWork/makeEnv: state after the pre-execution system calls, a fresh pool,
     size of header + withdrawals ([size0]), blob gas used 0 *)
  Definition make_env (parent : S) (size0 : N) : benv :=
    mkEnv (pre_exec parent) (NewGasPool (c_gaslimit cfg)) 0 size0 0 [] [] 0 0 [].

  (* generateWork after fillTransactions: PostExecution, Finalize, AssembleBlock *)
  Definition assemble (env : benv) (excess : option Z) : option block :=
    match post_exec (e_state env) (e_receipts env) with
    | None => None
    | Some (s1, q) =>
        let s2 := finalize s1 in
        Some (mkBlock (mkHeader (c_gaslimit cfg) (e_gasused env) (e_blobgasused env)
                                (root_of s2) (receipts_root (e_receipts env))
                                (bloom_of (e_receipts env)) (requests_hash q) (bal_hash_of s2)
                                head_time excess)
                      (e_txs env))
    end.

  Inductive gw_res := GwBlock (b : block) (env : benv) (tr1 tr2 : list attempt)
                    | GwPostExecError | GwPanic | GwOutOfFuel.

  Definition generate_work (sigs1 sigs2 prio : list N) (parent : S) (size0 : N)
             (pend_plain pend_blob : amap) : gw_res :=
    match prepare_excess with
    | None => GwPanic
    | Some excess =>
        match fill_transactions sigs1 sigs2 prio (make_env parent size0) pend_plain pend_blob with
        | Panic => GwPanic
        | OutOfFuel => GwOutOfFuel
        | Ok (env, tr1, tr2) =>
            match assemble env excess with
            | None => GwPostExecError
            | Some b => GwBlock b env tr1 tr2
            end
        end
    end.

  (* StateProcessor.Process, sequential path: the transaction loop *)
  Fixpoint process_txs (gp : GasPool) (s : S) (rs : list Rc) (txs : list tx)
    : option (GasPool * S * list Rc) :=
    match txs with
    | [] => Some (gp, s, rs)
    | t :: r =>
        match apply_message gp s t with
        | (gp', inl (s', rc)) => process_txs gp' s' (rs ++ [rc]) r
        | (_, inr _) => None                    (* "could not apply tx" *)
        end
    end.

  Record process_result := mkPR { pr_state : S; pr_receipts : list Rc; pr_requests : Q; pr_gasused : Z }.

  Definition process (parent : S) (gaslimit : Z) (txs : list tx) : option process_result :=
    match process_txs (NewGasPool gaslimit) (pre_exec parent) [] txs with
    | None => None
    | Some (gp, s, rs) =>
        match post_exec s rs with
        | None => None
        | Some (s1, q) =>
            match GasPool_Used gp with
            | None => None                      (* panic *)
            | Some (_, used) => Some (mkPR (finalize s1) rs q used)
            end
        end
    end.

  Definition sum_blobgas (txs : list tx) : N :=
    fold_right (fun t n => (m_blobgas (meta t) + n)%N) 0%N txs.

  (* VerifyEIP4844Header + ValidateBody on blob gas, Process, ValidateState.
     [proto_max] = the protocol's blob maximum at the block's time. *)
  (* VerifyEIP4844Header: "expectedExcessBlobGas := CalcExcessBlobGas(config, parent,
     header.Time); if *header.ExcessBlobGas != expectedExcessBlobGas { error }" *)
  Definition verify_excess (h : header) : bool :=
    if c_cancun cfg then
      match h_excessblobgas h, FeesImpl.calc_excess_blob_gas ccfg parent_hdr (h_time h) with
      | Some e, FeesImpl.Ok e' => (e =? e')%Z
      | _, _ => false
      end
    else true.

  Definition validate (proto_max : N) (parent : S) (b : block) : bool :=
    let h := b_header b in
    verify_excess h &&
    (h_blobgasused h <=? proto_max * BlobTxBlobGasPerBlob)%N &&
    (h_blobgasused h mod BlobTxBlobGasPerBlob =? 0)%N &&
    (sum_blobgas (b_txs b) / BlobTxBlobGasPerBlob =? h_blobgasused h / BlobTxBlobGasPerBlob)%N &&
    match process parent (h_gaslimit h) (b_txs b) with
    | None => false
    | Some pr =>
        (h_gasused h =? pr_gasused pr)%Z &&
        H_eqb (bloom_of (pr_receipts pr)) (h_bloom h) &&
        H_eqb (receipts_root (pr_receipts pr)) (h_receipts h) &&
        H_eqb (requests_hash (pr_requests pr)) (h_requests h) &&
        H_eqb (root_of (pr_state pr)) (h_root h) &&
        H_eqb (bal_hash_of (pr_state pr)) (h_balhash h)
    end.
End Build.

(* ------------------------------------------------------------------------- *)
(* Specification vocabulary (used by the statements in Properties/C36.v; none of it
   is executed by the builder above)                                          *)

(* What the theorems ask of the transactions the pools hand out, of execution and of
   the configuration:
   - gas limits are uint64;
   - the figures settleGas hands to the pool are those of a transaction that stayed
     within its reservation (C31: Gas/Pool.v [legacy_tx_wf] / [ams_tx_ok]);
   - a blob transaction carries a sidecar with as many blobs as it has blob hashes
     (pool validation), other transactions have no blob gas;
   - the blob maximum and the block gas limit are in range (header validation casts
     the gas limit to int64). *)
Definition well_formed {S Rc : Type} (meta : tx -> txmeta) (exec : S -> tx -> exec_res S Rc)
           (cfg : bconfig) : Prop :=
  (forall t, (Z.of_N (m_gas (meta t)) < 18446744073709551616)%Z) /\
  (forall s t c s' r, exec s t = ExecOk S Rc c s' r ->
     let gas := Z.of_N (m_gas (meta t)) in
     if c_amsterdam cfg
     then (0 <= ch_exec c <= Z.min gas MaxTxGas /\ 0 <= ch_state c <= gas /\
           0 <= ch_used c <= ch_exec c + ch_state c)%Z
     else (0 <= ch_left c /\ 0 <= ch_used c /\ ch_left c + ch_used c = gas)%Z) /\
  (forall t,
     if m_isblob (meta t)
     then exists nb, m_scblobs (meta t) = Some nb /\ m_blobgas (meta t) = (BlobTxBlobGasPerBlob * nb)%N
     else m_blobgas (meta t) = 0%N) /\
  (0 <= c_maxblobs cfg /\ c_maxblobs cfg * 131072 < 18446744073709551616)%Z /\
  (0 <= c_gaslimit cfg < 9223372036854775808)%Z.

(* Shift exactly after a success or a nonce-too-low, Pop otherwise *)
Definition op_of (err : option apply_err) : op :=
  match err with None | Some ENonceTooLow => OShift | Some _ => OPop end.

(* The history of a run of the loop: the environment BEFORE each attempt.  One attempt
   either leaves the environment alone (the head was dropped by a pre-check) or is one call
   of commit_transaction; [chain e h e'] threads the environments through the attempts. *)
Section History.
  Variables S Rc : Type.
  Variable meta : tx -> txmeta.
  Variable pre_check : S -> tx -> pre_res.
  Variable exec : S -> tx -> exec_res S Rc.
  Variable cfg : bconfig.

  Definition step_env (e : benv S Rc) (a : attempt) (e1 : benv S Rc) : Prop :=
    (e1 = e /\ at_op a = OPop /\
     (at_why a = WGas \/ at_why a = WBlobSpace \/ at_why a = WEvicted \/ at_why a = WReplay)) \/
    (exists err reached,
        commit_transaction S Rc meta pre_check exec cfg e (it_tx (at_item a)) = Ok (e1, err, reached) /\
        at_op a = op_of err /\
        at_why a = (if reached then WApplied err else WBlobCap)).

  Fixpoint chain (e : benv S Rc) (h : list (benv S Rc * attempt)) (e' : benv S Rc) : Prop :=
    match h with
    | [] => e' = e
    | (e0, a) :: r => e0 = e /\ exists e1, step_env e0 a e1 /\ chain e1 r e'
    end.
End History.

(* the transactions of a trace that were included (applyTransaction succeeded) *)
Definition included (tr : list attempt) : list tx :=
  map (fun a => it_tx (at_item a))
      (filter (fun a => match at_why a with WApplied None => true | _ => false end) tr).

Definition is_included (a : attempt) : bool :=
  match at_why a with WApplied None => true | _ => false end.

(* What "builder trace = importer trace" says of one history entry (e, a), e the builder's
   environment before attempt a: the importer's transaction loop (StateProcessor.Process) over
   the transactions included SO FAR, started from a fresh pool and the state after the
   pre-execution system calls, has reached exactly the builder's gas pool, state and receipts;
   the builder's blob-gas counter is that of those transactions and its header gas used is the
   pool's Used(); and if the attempt is included, the ONE evaluation of the per-transaction
   function that the builder performs here is the evaluation the importer performs at this
   position, with the same pool / state / receipt as result. *)
Section Entry.
  Variables S Rc : Type.
  Variable meta : tx -> txmeta.
  Variable pre_check : S -> tx -> pre_res.
  Variable exec : S -> tx -> exec_res S Rc.
  Variable cfg : bconfig.
  Variable pre_exec : S -> S.
  Variable parent : S.

  Definition entry_ok (ea : benv S Rc * attempt) : Prop :=
    let e := fst ea in let a := snd ea in
    let gp0 := NewGasPool (c_gaslimit cfg) in let s0 := pre_exec parent in
    process_txs S Rc meta pre_check exec cfg gp0 s0 [] (e_txs S Rc e)
      = Some (e_pool S Rc e, e_state S Rc e, e_receipts S Rc e) /\
    e_blobgasused S Rc e = sum_blobgas meta (e_txs S Rc e) /\
    Z.of_N (e_blobgasused S Rc e) = (131072 * e_blobs S Rc e)%Z /\
    (exists g, GasPool_Used (e_pool S Rc e) = Some (g, e_gasused S Rc e)) /\
    (is_included a = true ->
     exists gp' s' rc,
       apply_message S Rc meta pre_check exec cfg (e_pool S Rc e) (e_state S Rc e) (it_tx (at_item a))
         = (gp', inl (s', rc)) /\
       process_txs S Rc meta pre_check exec cfg gp0 s0 [] (e_txs S Rc e ++ [it_tx (at_item a)])
         = Some (gp', s', e_receipts S Rc e ++ [rc])).
End Entry.

(* the attempts made on iterator [isb] (false = plain, true = blob) on sender [from]'s
   transactions, and those of them that were included *)
Definition attempts_of (isb : bool) (from : N) (tr : list attempt) : list attempt :=
  filter (fun a => Bool.eqb (at_blob a) isb && (it_from (at_item a) =? from)%N) tr.

Definition included_of (isb : bool) (from : N) (tr : list attempt) : list tx :=
  map (fun a => it_tx (at_item a)) (filter is_included (attempts_of isb from tr)).

(* the attempts made on one of the two iterators, as a C43 trace *)
Definition trace_of (isb : bool) (tr : list attempt) : list (item * op) :=
  map (fun a => (at_item a, at_op a)) (filter (fun a => Bool.eqb (at_blob a) isb) tr).
