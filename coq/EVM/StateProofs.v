(* EVM/StateProofs.v — lemmas about EVM/State.v and the SSTORE refund-counter invariant.

   [refund_inv orig w]: for every duplicate-free list of storage slots that are "owing"
   (original value non-zero, current value zero — the slots for which EIP-2200/3529 has
   handed out a clear refund that a later non-zero write takes back) the refund counter
   is at least 4800 per slot.  It holds at the start of a transaction (no slot differs
   from its original value), is preserved by every state operation that leaves storage
   alone and does not lower the counter, by SSTORE itself, and trivially by a revert
   (the snapshot is a copy of a state that satisfied it).  Under it SubRefund never
   goes below zero. *)
From GV Require Import Lib.Tactics EVM.Word256 EVM.Gas EVM.State.
Local Open Scope N_scope.

Lemma nm_get_set {V} (m : nmap V) k v k' :
  nm_get (nm_set m k v) k' = if k' =? k then Some v else nm_get m k'.
Proof.
  induction m as [|[k0 v0] r IH]; simpl.
  - destruct (k' =? k) eqn:E; [reflexivity|]. destruct (k' <? k); reflexivity.
  - destruct (k =? k0) eqn:E0.
    + apply N.eqb_eq in E0. subst k0. simpl. destruct (k' =? k); reflexivity.
    + apply N.eqb_neq in E0. destruct (k <? k0) eqn:E1.
      * apply N.ltb_lt in E1. simpl. destruct (k' =? k) eqn:E2; [reflexivity|].
        apply N.eqb_neq in E2. destruct (k' <? k) eqn:E3; [|reflexivity].
        apply N.ltb_lt in E3.
        assert (k' =? k0 = false) as -> by (apply N.eqb_neq; lia).
        assert (k' <? k0 = true) as -> by (apply N.ltb_lt; lia). reflexivity.
      * apply N.ltb_ge in E1. simpl. destruct (k' =? k0) eqn:E2.
        -- apply N.eqb_eq in E2. subst k'.
           assert (k0 =? k = false) as -> by (apply N.eqb_neq; lia). reflexivity.
        -- destruct (k' <? k0) eqn:E3; [|apply IH].
           apply N.ltb_lt in E3.
           assert (k' =? k = false) as -> by (apply N.eqb_neq; lia). reflexivity.
Qed.

Lemma get_account_set w a x a' :
  get_account (set_account w a x) a' = if a' =? a then x else get_account w a'.
Proof.
  unfold get_account, set_account. simpl. rewrite nm_get_set. destruct (a' =? a); reflexivity.
Qed.

Lemma get_storage_set_account w a x a' k :
  acc_storage x = acc_storage (get_account w a) ->
  get_storage (set_account w a x) a' k = get_storage w a' k.
Proof.
  intros H. unfold get_storage. rewrite get_account_set. destruct (a' =? a) eqn:E; [|reflexivity].
  apply N.eqb_eq in E. subst. rewrite H. reflexivity.
Qed.

Lemma get_storage_set_storage w a k v a' k' :
  get_storage (set_storage w a k v) a' k' =
  if (a' =? a) && (k' =? k) then v else get_storage w a' k'.
Proof.
  unfold set_storage, get_storage. rewrite get_account_set. destruct (a' =? a) eqn:E; simpl; [|reflexivity].
  apply N.eqb_eq in E. subst. rewrite nm_get_set. destruct (k' =? k); reflexivity.
Qed.

(* storage untouched and refund counter not lowered *)
Definition same_sr (w w' : world) : Prop :=
  (forall a k, get_storage w' a k = get_storage w a k) /\ w_refund w <= w_refund w'.

Lemma same_sr_refl w : same_sr w w.
Proof. split; [reflexivity|lia]. Qed.

Lemma same_sr_trans w1 w2 w3 : same_sr w1 w2 -> same_sr w2 w3 -> same_sr w1 w3.
Proof. intros [A B] [C D]. split; [intros; rewrite C; apply A|lia]. Qed.

Lemma same_sr_accounts w w' :
  w_accounts w' = w_accounts w -> w_refund w <= w_refund w' -> same_sr w w'.
Proof.
  intros H1 H2. split; auto. intros a k. unfold get_storage, get_account. rewrite H1. reflexivity.
Qed.

Lemma same_sr_set_account w a x :
  acc_storage x = acc_storage (get_account w a) -> same_sr w (set_account w a x).
Proof. intros H. split; [intros; apply get_storage_set_account; exact H|simpl; lia]. Qed.

Lemma same_sr_set_balance w a b : same_sr w (set_balance w a b).
Proof. apply same_sr_set_account. reflexivity. Qed.
Lemma same_sr_add_balance w a v : same_sr w (add_balance w a v).
Proof. apply same_sr_set_balance. Qed.
Lemma same_sr_set_nonce w a n : same_sr w (set_nonce w a n).
Proof. apply same_sr_set_account. reflexivity. Qed.
Lemma same_sr_set_code w a c : same_sr w (set_code w a c).
Proof. apply same_sr_set_account. reflexivity. Qed.
Lemma same_sr_warm_addr w a : same_sr w (warm_addr w a).
Proof. unfold warm_addr. destruct (is_warm_addr w a); [apply same_sr_refl|apply same_sr_accounts; simpl; [reflexivity|lia]]. Qed.
Lemma same_sr_warm_slot w a k : same_sr w (warm_slot w a k).
Proof. unfold warm_slot. destruct (is_warm_slot w a k); [apply same_sr_refl|apply same_sr_accounts; simpl; [reflexivity|lia]]. Qed.
Lemma same_sr_add_log w l : same_sr w (add_log w l).
Proof. apply same_sr_accounts; simpl; [reflexivity|lia]. Qed.
Lemma same_sr_mark_destructed w a : same_sr w (mark_destructed w a).
Proof. unfold mark_destructed. destruct (is_destructed w a); [apply same_sr_refl|apply same_sr_accounts; simpl; [reflexivity|lia]]. Qed.
Lemma same_sr_mark_created w a : same_sr w (mark_created w a).
Proof. unfold mark_created. destruct (is_created w a); [apply same_sr_refl|apply same_sr_accounts; simpl; [reflexivity|lia]]. Qed.
Lemma same_sr_set_transient w a k v : same_sr w (set_transient w a k v).
Proof. apply same_sr_accounts; simpl; [reflexivity|lia]. Qed.
Lemma same_sr_transfer w a b v w' : transfer w a b v = Some w' -> same_sr w w'.
Proof.
  unfold transfer. destruct (_ <? v); [discriminate|]. intros H; inversion H.
  eapply same_sr_trans; [apply same_sr_set_balance|apply same_sr_add_balance].
Qed.

(* ------------------------------------------------------------------ *)

Definition owing (orig : N -> N -> N) (w : world) (s : N * N) : bool :=
  negb (orig (fst s) (snd s) =? 0) && (get_storage w (fst s) (snd s) =? 0).

Definition refund_inv (orig : N -> N -> N) (w : world) : Prop :=
  forall L, NoDup L -> (forall s, In s L -> owing orig w s = true) ->
  sstore_clear_refund * N.of_nat (length L) <= w_refund w.

Lemma slot_eq_dec (x y : N * N) : {x = y} + {x <> y}.
Proof. decide equality; apply N.eq_dec. Qed.

(* one slot changes its owing status, the counter moves accordingly *)
Lemma refund_inv_update orig w w' s0 :
  refund_inv orig w ->
  (forall s, s <> s0 -> owing orig w' s = owing orig w s) ->
  w_refund w + (if owing orig w' s0 then sstore_clear_refund else 0)
    <= w_refund w' + (if owing orig w s0 then sstore_clear_refund else 0) ->
  refund_inv orig w'.
Proof.
  intros Hinv Hoth Href L Hnd Hall. unfold sstore_clear_refund in *.
  destruct (in_dec slot_eq_dec s0 L) as [Hin|Hnin].
  - rewrite (Hall _ Hin) in Href.
    apply in_split in Hin. destruct Hin as (l1 & l2 & ->).
    pose proof (NoDup_remove _ _ _ Hnd) as [Hnd0 Hn0].
    assert (Hall0 : forall s, In s (l1 ++ l2) -> owing orig w s = true).
    { intros s Hs. assert (s <> s0) by (intros ->; contradiction).
      rewrite <- Hoth by assumption. apply Hall. apply in_app_or in Hs. apply in_or_app.
      destruct Hs; [left; assumption|right; right; assumption]. }
    rewrite app_length. simpl length. rewrite <- plus_n_Sm, <- app_length.
    destruct (owing orig w s0) eqn:E0.
    + assert (H1 : NoDup (s0 :: l1 ++ l2)) by (constructor; assumption).
      specialize (Hinv _ H1). simpl length in Hinv.
      assert (forall s, In s (s0 :: l1 ++ l2) -> owing orig w s = true) as Hx
        by (intros s [<-|Hs]; auto).
      specialize (Hinv Hx). unfold sstore_clear_refund in *; lia.
    + specialize (Hinv _ Hnd0 Hall0). unfold sstore_clear_refund in *; lia.
  - assert (Hall0 : forall s, In s L -> owing orig w s = true).
    { intros s Hs. assert (s <> s0) by (intros ->; contradiction).
      rewrite <- Hoth by assumption. apply Hall; assumption. }
    destruct (owing orig w s0) eqn:E0.
    + assert (H1 : NoDup (s0 :: L)) by (constructor; assumption).
      specialize (Hinv _ H1). simpl length in Hinv.
      assert (forall s, In s (s0 :: L) -> owing orig w s = true) as Hx
        by (intros s [<-|Hs]; auto).
      specialize (Hinv Hx). destruct (owing orig w' s0); unfold sstore_clear_refund in *; lia.
    + specialize (Hinv _ Hnd Hall0). destruct (owing orig w' s0); unfold sstore_clear_refund in *; lia.
Qed.

Lemma refund_inv_same orig w w' : refund_inv orig w -> same_sr w w' -> refund_inv orig w'.
Proof.
  intros Hinv [Hs Hr] L Hnd Hall.
  assert (forall s, In s L -> owing orig w s = true) as Hall'.
  { intros s Hin. specialize (Hall s Hin). unfold owing in *. rewrite Hs in Hall. exact Hall. }
  specialize (Hinv L Hnd Hall'). lia.
Qed.

(* an owing slot guarantees the counter covers one clear refund *)
Lemma refund_inv_owing orig w s :
  refund_inv orig w -> owing orig w s = true -> sstore_clear_refund <= w_refund w.
Proof.
  intros Hinv Ho. specialize (Hinv [s]). simpl in Hinv.
  assert (NoDup [s]) by (constructor; [intros []|constructor]).
  assert (forall s', s = s' \/ False -> owing orig w s' = true) by (intros s' [<-|[]]; exact Ho).
  specialize (Hinv H H0). unfold sstore_clear_refund in *. lia.
Qed.

(* at the start of a transaction no slot differs from its original value *)
Lemma refund_inv_start orig w :
  (forall a k, orig a k = get_storage w a k) -> refund_inv orig w.
Proof.
  intros H L _ Hall. destruct L as [|s L]; [simpl; unfold sstore_clear_refund; lia|].
  exfalso. specialize (Hall s (or_introl eq_refl)). unfold owing in Hall. rewrite H in Hall.
  destruct (get_storage w (fst s) (snd s) =? 0); simpl in Hall; discriminate.
Qed.

(* ------------------------------------------------------------------ *)
(* SSTORE *)

Lemma owing_at orig w a k :
  owing orig w (a, k) = negb (orig a k =? 0) && (get_storage w a k =? 0).
Proof. reflexivity. Qed.

Lemma sstore_update orig w1 w2 a k v :
  refund_inv orig w1 -> w_accounts w2 = w_accounts w1 ->
  w_refund w1 + (if negb (orig a k =? 0) && (v =? 0) then sstore_clear_refund else 0)
    <= w_refund w2 + (if negb (orig a k =? 0) && (get_storage w1 a k =? 0) then sstore_clear_refund else 0) ->
  refund_inv orig (set_storage w2 a k v).
Proof.
  intros Hinv Hacc Href.
  assert (Hst : forall a' k', get_storage w2 a' k' = get_storage w1 a' k').
  { intros. unfold get_storage, get_account. rewrite Hacc. reflexivity. }
  apply (refund_inv_update orig w1 _ (a, k) Hinv).
  - intros [a' k'] Hne. unfold owing. simpl. rewrite get_storage_set_storage, Hst.
    destruct (a' =? a) eqn:Ea; [|reflexivity]. destruct (k' =? k) eqn:Ek; [|reflexivity].
    apply N.eqb_eq in Ea, Ek. subst. contradiction.
  - rewrite !owing_at, get_storage_set_storage, !N.eqb_refl. simpl andb.
    replace (w_refund (set_storage w2 a k v)) with (w_refund w2) by reflexivity. exact Href.
Qed.
