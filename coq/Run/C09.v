(* Run/C09.v — case decoder / observable encoder for the C09 correspondence.
   case  = ( trie (query..) [1] ) trie = ((x<key> x<value>)..): the trie the queries are about; used by
                                  the Go oracle only (the model is given the root hash in each query)
   query = ( x<rootHash> x<firstKey> (x<key>..) (x<value>..) proof )
   proof = (0)                    proof == nil
         | (1 x<blob>..)          a proof set holding the blobs, each stored under its Keccak-256
   observation = ( (more class)..)   class 0 = accepted; 1.. = the error classes of Trie/Range.v in
                                     declaration order (17 = the Go code panics, 18 = model fuel). *)
From GV Require Import Lib.Sx Keccak.Sponge Trie.Node Trie.Hash Trie.Proof Trie.Range.

Definition rerr_code (e : rerr) : Z :=
  match e with
  | RLen => 1 | RMono => 2 | RPrefix => 3 | RDeletion => 4 | RRoot => 5 | RMissing => 6
  | RBad _ => 7 | RNotContained => 8 | RMore => 9 | RPreceding => 10 | RKey => 11 | RData => 12
  | REdge => 13 | REdgeLen => 14 | REmptyRange => 15 | RMissingNode => 16 | RPanic => 17 | RFuel => 18
  end%Z.

Definition rr_sx (r : rr bool) : sx :=
  match r with
  | Rok more => SL [sbool more; SI 0%Z]
  | Rerr e => SL [SI 0%Z; SI (rerr_code e)]
  end.

Definition proof_of (s : sx) : option (option pdb) :=
  match s with
  | SL [SI 0%Z] => Some None
  | SL (SI 1%Z :: blobs) =>
      match opt_map sx_bytes blobs with
      | Some bs => Some (Some (map (fun b => (keccak256 b, b)) bs))
      | None => None
      end
  | _ => None
  end.

Definition run_query (q : sx) : sx :=
  match q with
  | SL [SB root; SB first; SL ks; SL vs; p] =>
      match opt_map sx_bytes ks, opt_map sx_bytes vs, proof_of p with
      | Some keys, Some values, Some proof => rr_sx (verify_range_proof keccak256 root first keys values proof)
      | _, _, _ => SErr 1
      end
  | _ => SErr 0
  end.

Definition C09_run (c : sx) : sx :=
  match c with
  | SL [SL _; SL qs] => SL (map run_query qs)
  | SL [SL _; SL qs; _] => SL (map run_query qs)      (* crafted (non-genuine) proof nodes: no oracle on the Go side *)
  | _ => SErr 0
  end.
