(* Run/C40.v — case decoder / observable encoder for the C40 correspondence.

   case  = ( (lvpm hbits lmpe brl ldiff) layers rowtab coltab (stage ...) go-only-params )
   rowtab = per value id: per layer: per map index m: rowIndex(m, layer, value)   (real function)
   coltab = per value id: per log value index lv: columnIndex(lv, value)         (real function)
   stage = ( history cutoff chain (query ...) race-flag [trans] )
   trans = () | ( (begin end (addr ...) ((topic ...) ...) tick ((validFirst validAfterLast) ...)) )
           a range query running while the chain moves from the previous stage's chain to this one;
           obs: (9 trace-echo result) appended to the stage-obs
   chain = ( block ... ) from genesis, block = ( log ... ), log = ( tx idx addr (topic ...) )
   query = (0 begin end (addr ...) ((topic ...) ...))     range filter (begin/end as given to NewRangeFilter)
         | (1 number (addr ...) ((topic ...) ...))         block-hash filter, canonical block [number]
         | (2 (addr ...) ((topic ...) ...))                block-hash filter, unknown hash
         | (3 number (log ...) (addr ...) ((topic ...) ...)) block-hash filter, non-canonical block with these logs
   obs   = ( stage-obs ... ),  stage-obs = ( (blocksFirst blocksAfterLast mapsFirst mapsAfterLast) result ... )
   result = (0 (blk tx idx) ...) | (1 class) | (2)
   Addresses and topics are value ids: addr_value = topic_value = identity on
   disjoint id ranges (no collision between an address value and a topic value). *)
From GV Require Import Lib.Sx Chain.LogIndex.
Local Open Scope N_scope.

Definition miss : N := 1099511627776.   (* 2^40: never a row or column index *)

Definition tab_row (t : list (list (list N))) (mmi : N) (layer : nat) (v : N) : N :=
  match nth_error t (N.to_nat v) with
  | Some tl => match nth_error tl layer with
               | Some tm => match nth_error tm (N.to_nat mmi) with Some x => x | None => miss end
               | None => miss end
  | None => miss end.

Definition tab_col (t : list (list N)) (lv v : N) : N :=
  match nth_error t (N.to_nat v) with
  | Some tl => match nth_error tl (N.to_nat lv) with Some x => x | None => miss end
  | None => miss end.

Definition idN (x : N) : N := x.

Definition dec_params (s : sx) : option params :=
  match s with
  | SL [a; b; c; d; e] =>
      match sx_N a, sx_N b, sx_N c, sx_N d, sx_N e with
      | Some a, Some b, Some c, Some d, Some e => Some (mkParams a b c d e)
      | _, _, _, _, _ => None end
  | _ => None end.

Definition dec_log (blk : N) (s : sx) : option log :=
  match s with
  | SL [t; i; a; ts] =>
      match sx_N t, sx_N i, sx_N a, sx_list_of sx_N ts with
      | Some t, Some i, Some a, Some ts => Some (mkLog blk t i a ts)
      | _, _, _, _ => None end
  | _ => None end.

Fixpoint dec_blocks (blk : N) (l : list sx) : option (list (list log)) :=
  match l with
  | [] => Some []
  | b :: r => match sx_list_of (dec_log blk) b, dec_blocks (blk + 1) r with
              | Some b, Some r => Some (b :: r) | _, _ => None end
  end.

Definition dec_chain (s : sx) : option (list (list log)) :=
  match s with SL l => dec_blocks 0 l | _ => None end.

Definition dec_topics (s : sx) : option (list (list N)) := sx_list_of (sx_list_of sx_N) s.

Definition enc_log (l : log) : sx := SL [sn (lg_blk l); sn (lg_tx l); sn (lg_idx l)].
Definition enc_qres (r : qres) : sx :=
  match r with
  | QOk ls => SL (SI 0%Z :: map enc_log ls)
  | QErr c => SL [SI 1%Z; sn c]
  | QFail => SL [SI 2%Z]
  end.

Section Run.
Variable P : params.
Variable layers : nat.
Variable rowtab : list (list (list N)).
Variable coltab : list (list N).

Definition run_query (chain : list (list log)) (ix : index) (rg : irange) (head cutoff : N) (q : sx) : sx :=
  match q with
  | SL [SI 0%Z; SI b; SI e; ad; tp] =>
      match sx_list_of sx_N ad, dec_topics tp with
      | Some ad, Some tp =>
          enc_qres (filter_logs P idN idN (tab_row rowtab) (tab_col coltab) layers chain ix rg head cutoff ad tp b e)
      | _, _ => SErr 3 end
  | SL [SI 1%Z; n; ad; tp] =>
      match sx_N n, sx_list_of sx_N ad, dec_topics tp with
      | Some n, Some ad, Some tp =>
          match block_logs chain n with
          | Some ls => enc_qres (filter_block_logs cutoff ad tp n ls)
          | None => SErr 4 end
      | _, _, _ => SErr 3 end
  | SL [SI 2%Z; _; _] => enc_qres (QErr 5)
  | SL [SI 3%Z; n; ls; ad; tp] =>
      match sx_N n, sx_list_of sx_N ad, dec_topics tp with
      | Some n, Some ad, Some tp =>
          match sx_list_of (dec_log n) ls with
          | Some ls => enc_qres (filter_block_logs cutoff ad tp n ls)
          | None => SErr 3 end
      | _, _, _ => SErr 3 end
  | _ => SErr 3
  end.

(* the transition query of a stage: it runs while the chain moves from the previous
   stage's world to this one (switch right before environment call [tick]) *)
Definition dec_rng (s : sx) : option (N * N) :=
  match s with SL [a; b] => match sx_N a, sx_N b with Some a, Some b => Some (a, b) | _, _ => None end
  | _ => None end.
Definition dec_bound (z : Z) : option (option N) :=
  match z with (-2)%Z => Some None | Zneg _ => None | _ => Some (Some (Z.to_N z)) end.
Definition enc_dres (r : dres (list log)) : sx :=
  match r with
  | DOk ls => SL (SI 0%Z :: map enc_log ls)
  | DErr c => SL [SI 1%Z; sn c]
  | DFail => SL [SI 1%Z; SI 99%Z]
  end.

Definition run_trans (w0 w1 : dworld) (tr : sx) : list sx :=
  match tr with
  | SL [SL [SI b; SI e; ad; tp; tk; trace]] =>
      match dec_bound b, dec_bound e, sx_list_of sx_N ad, dec_topics tp, sx_nat tk, sx_list_of dec_rng trace with
      | Some fb, Some lb, Some ad, Some tp, Some tick, Some tcs =>
          let env_world := fun t : nat => if (tick <=? t)%nat then w1 else w0 in
          let env_valid := fun t : nat => nth t tcs (0, 0) in
          [SL [SI 9%Z; trace;
               enc_dres (d_range_logs P idN idN (tab_row rowtab) (tab_col coltab) layers
                                      env_world env_valid ad tp fb lb)]]
      | _, _, _, _, _, _ => [SErr 6]
      end
  | _ => []
  end.

(* one stage; [prev] = the world of the previous stage; returns the stage's world too *)
Definition run_stage (prev : option dworld) (s : sx) : option dworld * sx :=
  let core h c ch qs tr :=
      match sx_N h, sx_N c, dec_chain ch with
      | Some history, Some cutoff, Some chain =>
          match build_index P idN idN (tab_row rowtab) (tab_col coltab) layers chain with
          | None => (None, SErr 5)
          | Some ix =>
              let head := N.of_nat (length chain) - 1 in
              let rg := idle_range P ix head history cutoff in
              let w1 := mkDW chain ix rg in
              (Some w1,
               SL (SL [sn (r_bfirst rg); sn (r_bafter rg); sn (r_mfirst rg); sn (r_mafter rg)]
                   :: map (run_query chain ix rg head cutoff) qs
                   ++ match prev with Some w0 => run_trans w0 w1 tr | None => [] end))
          end
      | _, _, _ => (None, SErr 2) end in
  match s with
  | SL [h; c; ch; SL qs; _] => core h c ch qs (SL [])
  | SL [h; c; ch; SL qs; _; tr] => core h c ch qs tr
  | _ => (None, SErr 2)
  end.

Fixpoint run_stages (prev : option dworld) (l : list sx) : list sx :=
  match l with
  | [] => []
  | s :: r => let '(w, o) := run_stage prev s in o :: run_stages w r
  end.
End Run.

Definition C40_run (c : sx) : sx :=
  match c with
  | SL [ps; ly; rt; ct; SL stages; _] =>
      match dec_params ps, sx_nat ly,
            sx_list_of (sx_list_of (sx_list_of sx_N)) rt, sx_list_of (sx_list_of sx_N) ct with
      | Some P, Some layers, Some rowtab, Some coltab =>
          SL (run_stages P layers rowtab coltab None stages)
      | _, _, _, _ => SErr 1 end
  | _ => SErr 0
  end.
