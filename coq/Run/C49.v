(* Run/C49.v — case decoder / observable encoder for the C49 correspondence.

   case   (mode item_limit resp_limit inv_size (message ...))
            mode 0 = connection served by ServeCodec (no request timeout),
            mode 1 = one HTTP request (request timeout configured)
   message (0 entry fire) | (1 (entry ...) fire)
            fire = -1: the timer does not fire; i >= 0: it fires (both actions) while the
            processor executes the entry after i entries have been popped
   entry  (vsn idkind idtok method params result error out size sub late ...)
            idkind 0 absent / 1 valid / 2 invalid; method 0 none / 1 plain / 2 *_subscription;
            sub = -1 or the number of Notify calls before the subscribe call returns;
            late = number of Notify calls after it returned.  Further fields (which test
            method to call) are for the Go harness only.
   probe  (8 n t): as (9 n t) but the request context carries its own deadline of t microseconds
            (an external cancellation, thread TX of the model)
   probe  (9 n t): a batch of n trivial calls with ids 1..n under a timeout of t microseconds
            that may fire anywhere: observable projected to (number of responses, ids are 1..n)

   observables: one list per message: (0 resp) single reply, (1 (resp ...)) batch reply,
   then (2 ownertok (seq ...)) per notifier; resp = (id kind), id = () absent | (tok). *)
From GV Require Import Lib.Sx Rpc.Batch.

Definition dec_id (k t : sx) : option idk :=
  match k, sx_N t with
  | SI 0%Z, Some _ => Some IdAbsent
  | SI 1%Z, Some n => Some (IdVal true n)
  | SI 2%Z, Some n => Some (IdVal false n)
  | _, _ => None
  end.

Definition dec_method (s : sx) : option mkind :=
  match s with
  | SI 0%Z => Some MEmpty | SI 1%Z => Some MPlain | SI 2%Z => Some MSubNotif | _ => None
  end.

Definition dec_sub (s l : sx) : option (option (nat * nat)) :=
  match s, sx_nat l with
  | SI (-1)%Z, Some _ => Some None
  | SI z, Some j => if (z <? 0)%Z then None else Some (Some (Z.to_nat z, j))
  | _, _ => None
  end.

Definition dec_entry (s : sx) : option msg :=
  match s with
  | SL (vsn :: idk :: idt :: meth :: par :: res :: err :: out :: size :: sub :: late :: _) =>
      match sx_bool vsn, dec_id idk idt, dec_method meth, sx_bool par, sx_bool res, sx_bool err,
            sx_N out, sx_N size, dec_sub sub late with
      | Some v, Some i, Some m, Some p, Some r, Some e, Some o, Some sz, Some sb =>
          Some (mkMsg v i m p r e o sz sb)
      | _, _, _, _, _, _, _, _, _ => None
      end
  | _ => None
  end.

Definition dec_fire (s : sx) : option (option nat) :=
  match s with
  | SI (-1)%Z => Some None
  | SI z => if (z <? 0)%Z then None else Some (Some (Z.to_nat z))
  | _ => None
  end.

Definition enc_rid (r : rid) : sx :=
  match r with
  | RNull => SL [sn 0]
  | RCopy IdAbsent => SL []
  | RCopy (IdVal _ t) => SL [sn t]
  end.
Definition enc_resp (r : resp) : sx := SL [enc_rid (r_id r); sn (r_kind r)].

Definition id_tok (m : msg) : N := match m_id m with IdVal _ t => t | IdAbsent => 0%N end.

Definition same_msg_id (a b : msg) : bool := (id_tok a =? id_tok b)%N.

(* replies in the order written, then one notification group per notifier *)
Definition enc_out (nots : list notifier) (out : list wevent) : list sx :=
  flat_map (fun e => match e with
                     | WBatch rs => [SL [sn 1; SL (map enc_resp rs)]]
                     | WSingle r => [SL [sn 0; enc_resp r]]
                     | WNotif _ _ => []
                     end) out
  ++ map (fun n =>
            SL [sn 2; sn (id_tok (n_msg n));
                SL (flat_map (fun e => match e with
                                       | WNotif o q => if same_msg_id o (n_msg n) then [snat q] else []
                                       | _ => []
                                       end) out)]) nots.

Definition late_of (n : notifier) : nat :=
  match m_sub (n_msg n) with Some (_, j) => j | None => 0 end.

(* schedule of the Notify calls made after the subscribe call returned *)
Fixpoint late_schedule (i : nat) (nots : list notifier) : list tid :=
  match nots with
  | [] => []
  | n :: r => repeat (TE i) (late_of n) ++ late_schedule (S i) r
  end.

(* canonical schedule of the batch system: the processor runs; when [fire] = Some i and
   it is executing with i entries popped, the timer callback runs to completion *)
Fixpoint bdrive (c : cfg) (fuel : nat) (fire : option nat) (s : bstate) : bstate :=
  match fuel with
  | O => s
  | S f =>
      let fire_now :=
        match fire, b_ppc s, b_tpc s with
        | Some i, PExec _, TIdle => Nat.eqb (length (b_done s)) i
        | _, _, _ => false
        end in
      if fire_now then bdrive c f fire (brun c [TT; TT] s)
      else match pstep c s with
           | Some s' => bdrive c f fire s'
           | None => s
           end
  end.

Definition run_batch (c : cfg) (msgs : list msg) (fire : option nat) : sx :=
  match handle_batch_front c msgs with
  | FNothing => SL []
  | FEmpty r => SL [SL [sn 0; enc_resp r]]
  | FTooLarge rs => SL [SL [sn 1; SL (map enc_resp rs)]]
  | FRun calls =>
      let s := bdrive c (6 * length calls + 20) fire (binit c calls) in
      let s := brun c (late_schedule 0 (b_notifiers s)) s in
      if bfinal s then SL (enc_out (b_notifiers s) (b_out s)) else SErr 2
  end.

Fixpoint sdrive (c : cfg) (m : msg) (fuel : nat) (fire : option nat) (s : sstate) : sstate :=
  match fuel with
  | O => s
  | S f =>
      let fire_now :=
        match fire, s_spc s, s_tpc s with
        | Some _, SExec, TIdle => true
        | _, _, _ => false
        end in
      if fire_now then sdrive c m f fire (srun c m [TT; TT] s)
      else match spstep m s with
           | Some s' => sdrive c m f fire s'
           | None => s
           end
  end.

Definition run_single (c : cfg) (m : msg) (fire : option nat) : sx :=
  if handle_msg_dispatches m then
    let s := sdrive c m 20 fire (sinit c) in
    let s := srun c m (late_schedule 0 (s_notifiers s)) s in
    if sfinal s then SL (enc_out (s_notifiers s) (s_out s)) else SErr 3
  else SL [].

Definition run_message (c : cfg) (s : sx) : sx :=
  match s with
  | SL [SI 0%Z; e; f] =>
      match dec_entry e, dec_fire f with
      | Some m, Some fire => run_single c m fire
      | _, _ => SErr 4
      end
  | SL [SI 1%Z; SL es; f] =>
      match opt_map dec_entry es, dec_fire f with
      | Some ms, Some fire => run_batch c ms fire
      | _, _ => SErr 5
      end
  | _ => SErr 6
  end.

(* probe: ids 1..n, every call returns a 1-byte result *)
Fixpoint probe_calls (n : nat) (acc : list msg) : list msg :=
  match n with
  | O => acc
  | S k => probe_calls k (mkMsg true (IdVal true (N.of_nat n)) MPlain false false false 0 1 None :: acc)
  end.

Fixpoint ids_from (i : N) (rs : list resp) : bool :=
  match rs with
  | [] => true
  | r :: t => match r_id r with
              | RCopy (IdVal true j) => (i =? j)%N && ids_from (i + 1)%N t
              | _ => false
              end
  end.

Definition run_probe (n : nat) : sx :=
  let c := mkCfg 0 0 0 true false false false in
  let calls := probe_calls n [] in
  match handle_batch_front c calls with
  | FRun cs =>
      let s := bdrive c (6 * length cs + 20) None (binit c cs) in
      match batches (b_out s) with
      | [rs] => SL [snat (length rs); sbool (ids_from 1 rs)]
      | _ => SL [snat 0; sbool false]
      end
  | _ => SErr 7
  end.

Definition C49_run (c : sx) : sx :=
  match c with
  | SL [SI 9%Z; n; _] =>
      match sx_nat n with Some k => run_probe k | None => SErr 8 end
  | SL [SI 8%Z; n; _] =>   (* same batch, request context with its own deadline *)
      match sx_nat n with Some k => run_probe k | None => SErr 8 end
  | SL [mode; il; rl; isz; SL msgs] =>
      match sx_bool mode, sx_N il, sx_N rl, sx_N isz with
      | Some md, Some i, Some r, Some z =>
          SL (map (run_message (mkCfg i r z md false false false)) msgs)
      | _, _, _, _ => SErr 1
      end
  | _ => SErr 0
  end.
