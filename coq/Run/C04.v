(* Run/C04.v — case decoder / observable encoder for the C04 correspondence.
   case (0 x<msg>)                 -> ( x<digest by the implementation model: Reset, Write msg, Read 32>
                                        x<digest by the spec keccak256> )
   case (1 x<chunk> x<chunk> ...)  -> x<digest: fresh state, Write each chunk, Read 32>
   case (2 op op ...)              -> ( obs obs ... )   on a fresh KeccakState, where
        op  ::= (0 x<p>) Write | (1 x<prefix>) Sum | (2 k) Read k bytes | (3) Reset
        obs ::= () returned | x<bytes> output of Sum/Read | (c) the call panicked with class c *)
From GV Require Import Lib.Sx Keccak.Permutation Keccak.Sponge.

Definition dec_op (s : sx) : option op :=
  match s with
  | SL [SI 0%Z; SB p] => Some (OWrite p)
  | SL [SI 1%Z; SB p] => Some (OSum p)
  | SL [SI 2%Z; k] => match sx_nat k with Some n => Some (ORead n) | None => None end
  | SL [SI 3%Z] => Some OReset
  | _ => None
  end.

Definition enc_obs (v : obs) : sx :=
  match v with
  | VUnit => SL []
  | VBytes b => SB b
  | VPanic c => SL [sn c]
  end.

Definition enc_res (r : res (list N)) : sx :=
  match r with Ok h => SB h | Panic c => SL [sn c] end.

Definition C04_run (c : sx) : sx :=
  match c with
  | SL [SI 0%Z; SB msg] =>
      SL [ enc_res (keccak256_impl keccak_f init [msg]); SB (keccak256 msg) ]
  | SL (SI 1%Z :: chunks) =>
      match opt_map sx_bytes chunks with
      | Some cs => enc_res (keccak256_impl keccak_f init cs)
      | None => SErr 1
      end
  | SL (SI 2%Z :: ops) =>
      match opt_map dec_op ops with
      | Some os => SL (map enc_obs (k_run init os))
      | None => SErr 2
      end
  | _ => SErr 0
  end.
