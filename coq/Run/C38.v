(* Run/C38.v -- case decoder / observable encoder for the C38 correspondence.
   case  = ( BLOCKS OPS ) or ( BLOCKS OPS 1 ); the flag makes the Go oracle report the recorded
           deviations (known findings) as failures instead of tags; the model ignores it
     block = (id parent number TXS)  with TXS a list of (txid nlogs); id 0 = genesis
     op    = (0 IDS) InsertChain | (1 id) InsertBlockWithoutSetHead | (2 id) SetCanonical
           | (3 n) SetHead | (4) Stop + NewBlockChain
   obs   one entry per op:
     ( errclass CANON HEADS LOOKUPS RESOLVE CHAINEV REMOVED LOGS HEADEV )
       CANON   = canon[0..maxnum+1], each (id) or ()
       HEADS   = (head_block head_header head_snap)
       LOOKUPS = per tx id of the case, ascending: (n) or ()
       CHAINEV / HEADEV = block ids; REMOVED / LOGS = one list of log ids per event
   log id = (block x 4096 + tx) x 4096 + index-in-block.
   RESOLVE (after LOOKUPS) = per tx id: (block number) as BlockChain.GetCanonicalTransaction
   answers (the cached public path), or (). *)
From GV Require Import Lib.Sx Chain.Tree Chain.Canonical Chain.LookupCache.
Local Open Scope N_scope.

Fixpoint tx_logs (bid : N) (txs : list (N * N)) (idx : N) : list N :=
  match txs with
  | [] => []
  | (tx, nl) :: r =>
    map (fun j => (bid * 4096 + tx) * 4096 + (idx + N.of_nat j)) (seq 0 (N.to_nat nl))
    ++ tx_logs bid r (idx + nl)
  end.

Definition dec_tx (s : sx) : option (N * N) :=
  match s with SL [a; b] => match sx_N a, sx_N b with Some x, Some y => Some (x, y) | _, _ => None end
  | _ => None end.

Definition dec_block (s : sx) : option (N * block * list N) :=
  match s with
  | SL [i; p; n; txs] =>
    match sx_N i, sx_N p, sx_N n, sx_list_of dec_tx txs with
    | Some i, Some p, Some n, Some txs =>
      (* the genesis header's ParentHash is the zero hash, which is no block: sentinel *)
      let p' := if i =? 0 then 4294967295 else p in
      Some (i, mkblock p' n (map fst txs) (tx_logs i txs 0), map fst txs)
    | _, _, _, _ => None
    end
  | _ => None
  end.

Definition dec_op (s : sx) : option op :=
  match s with
  | SL [SI 0%Z; ids] => match sx_list_of sx_N ids with Some l => Some (OInsert l) | None => None end
  | SL [SI 1%Z; i] => match sx_N i with Some h => Some (OInsertNoHead h) | None => None end
  | SL [SI 2%Z; i] => match sx_N i with Some h => Some (OSetCanonical h) | None => None end
  | SL [SI 3%Z; n] => match sx_N n with Some n => Some (OSetHead n) | None => None end
  | SL [SI 4%Z] => Some ORestart
  | _ => None
  end.

Definition err_code (e : option err) : Z :=
  match e with
  | None => 0
  | Some EOutOfFuel => 1 | Some EInvalidOldChain => 2 | Some EInvalidNewChain => 3
  | Some EUnknownAncestor => 4 | Some EPrunedAncestor => 5 | Some EMissingParent => 6
  | Some ENonContiguous => 7 | Some EUnknownBlock => 8 | Some ENestedPruned => 9
  | Some EHeadMissing => 10
  end%Z.

Fixpoint nodup_sorted_insert (x : N) (l : list N) : list N :=
  match l with
  | [] => [x]
  | y :: r => if x <? y then x :: l else if x =? y then l else y :: nodup_sorted_insert x r
  end.

Definition obs_of (T : tree) (maxn : N) (txids : list N) (c : cache) (o : outcome) : sx :=
  let '(st, evs, e) := o in
  SL [ SI (err_code e);
       SL (map (fun k => sopt sn (canon st (N.of_nat k))) (seq 0 (N.to_nat maxn + 2)));
       SL [sn (hd_block st); sn (hd_header st); sn (hd_snap st)];
       SL (map (fun tx => sopt sn (lookup st tx)) txids);
       SL (map (fun tx => match answer T st c tx with
                          | Some (h, n) => SL [sn h; sn n] | None => SL [] end) txids);
       SL (flat_map (fun ev => match ev with EvChain h => [sn h] | _ => [] end) evs);
       SL (flat_map (fun ev => match ev with EvRemoved l => [SL (map sn l)] | _ => [] end) evs);
       SL (flat_map (fun ev => match ev with EvLogs l => [SL (map sn l)] | _ => [] end) evs);
       SL (flat_map (fun ev => match ev with EvHead h => [sn h] | _ => [] end) evs) ].

Fixpoint run_ops (T : tree) (fuel : nat) (maxn : N) (txids : list N) (st : db) (c : cache) (ops : list op) : list sx :=
  match ops with
  | [] => []
  | o :: r => let out := step T fuel st o in
              let st1 := fst (fst out) in
              let c1 := if purges false o (snd (fst out)) then [] else c in
              obs_of T maxn txids c1 out :: run_ops T fuel maxn txids st1 (refresh T st1 c1 txids) r
  end.

Definition C38_run (c : sx) : sx :=
  match c with
  | SL (bs :: os :: ([] | [_])) =>   (* an optional third element only steers the harness's reporting *)
    match sx_list_of dec_block bs, sx_list_of dec_op os with
    | Some blocks, Some ops =>
      let T := tree_of_list (map fst blocks) in
      let maxn := fold_left (fun m b => N.max m (b_number (snd (fst b)))) blocks 0 in
      let txids := fold_left (fun acc b => fold_left (fun a t => nodup_sorted_insert t a) (snd b) acc) blocks [] in
      let fuel := (2 * N.to_nat maxn + 20)%nat in
      SL (run_ops T fuel maxn txids genesis_db [] ops)
    | _, _ => SErr 1
    end
  | _ => SErr 0
  end.
