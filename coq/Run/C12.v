(* Run/C12.v — case decoder / observable encoder for the C12 correspondence.
   case = ( scheme x<root> ((x<key> x<value>)..) (x<src blob>..) (op..) )
     scheme 0 = hash, 1 = path; the (key value) list is the initial content of the
     destination database (real rawdb keys); src = the blobs of the serving side
     (deliveries refer to them by index; the model never looks at them otherwise).
   op:
     (0 k)                                  Missing(k) closed under equal priorities
                                            -> (0 ((x<path> x<hash>)..) (x<codehash>..))  both sorted
     (1 (x<path>..) (x<hash>..) (blob..))   OnTrieNodes + processTrienodeHealResponse for a request
                                            of these (path, hash) answered by these blobs
                                            -> (1 class fills dups nops pending memsize)
     (2 (x<hash>..) (blob..))               onHealByteCodes + processBytecodeHealResponse
                                            -> (2 class fills dups nops pending memsize)
     (3)                                    commitHealer(true)  -> (3 ok pending memsize)
     blob = index into src | x<literal bytes>
   class: 0 empty response, 1 unexpected blob (whole response rejected), 2 processed,
          3 panic, 4 Commit failed.
   The script stops at a panic (and at construction when NewSync panics).
   observation = ( ctor (obs..) ((x<key> x<value>)..) )   ctor 0 ok / 1 NewSync panicked;
   the last component is the destination database at the end, sorted by key. *)
From GV Require Import Lib.Sx Keccak.Sponge Trie.Node Trie.Hash Storage.KV Trie.Sync.

Definition HK := keccak256.

(* the driving discipline of the harness: Missing(k-1), peek, Missing(1), then
   Missing(1) while the head of the queue has the peeked priority (so that the popped
   set does not depend on how Go breaks ties between equal priorities) *)
Definition peek (s : sync) : option Z :=
  match queue s with (p, _) :: _ => Some p | [] => None end.

Fixpoint missing_tail (fuel : nat) (last : Z) (s : sync)
         (ns : list (list N * list N)) (cs : list (list N)) :=
  match fuel with
  | O => (s, ns, cs)
  | S f =>
      match peek s with
      | Some p =>
          if Z.eqb p last then
            let '(s1, ns1, cs1) := missing s 1 in
            if Nat.eqb (length (queue s1)) (length (queue s)) then (s1, ns, cs)   (* throttled *)
            else missing_tail f last s1 (ns ++ ns1) (cs ++ cs1)
          else (s, ns, cs)
      | None => (s, ns, cs)
      end
  end.

Definition missing_closed (s : sync) (k : N) :=
  if N.eqb k 0 then missing s 0
  else
    let '(s1, ns1, cs1) := if N.leb 2 k then missing s (k - 1) else (s, [], []) in
    match peek s1 with
    | None => (s1, ns1, cs1)
    | Some p =>
        let '(s2, ns2, cs2) := missing s1 1 in
        missing_tail (length (queue s2)) p s2 (ns1 ++ ns2) (cs1 ++ cs2)
    end.

(* insertion sorts (byte-lexicographic) *)
Fixpoint ins_pair (x : list N * list N) (l : list (list N * list N)) :=
  match l with
  | [] => [x]
  | y :: r => if blt (fst y) (fst x) then y :: ins_pair x r else x :: l
  end.
Definition sort_pairs (l : list (list N * list N)) := fold_right ins_pair [] l.
Fixpoint ins_b (x : list N) (l : list (list N)) :=
  match l with
  | [] => [x]
  | y :: r => if blt y x then y :: ins_b x r else x :: l
  end.
Definition sort_bytes (l : list (list N)) := fold_right ins_b [] l.

Definition resp_sx (tag : Z) (r : rresp) (s : sync) : sx * bool :=
  let mk (c : Z) (d : dstat) :=
    SL [SI tag; SI c; sn (ds_fills d); sn (ds_dups d); sn (ds_nops d); snat (pending s); sn (mb_size s)] in
  match r with
  | DEmptyResp => (mk 0%Z dstat0, false)
  | DUnexpected => (mk 1%Z dstat0, false)
  | DDone d => (mk 2%Z d, false)
  | DPanicked d => (SL [SI tag; SI 3%Z], true)
  | DCommitFailed d => (SL [SI tag; SI 4%Z], true)
  end.

Definition blob_of (src : list (list N)) (b : sx) : option (list N) :=
  match b with
  | SI z => if (z <? 0)%Z then None else nth_error src (Z.to_nat z)
  | SB l => Some l
  | _ => None
  end.

(* one op: new state, observation, stop? *)
Definition run_op (src : list (list N)) (s : sync) (o : sx) : sync * sx * bool :=
  match o with
  | SL [SI 0%Z; k] =>
      match sx_N k with
      | Some k =>
          let '(s1, ns, cs) := missing_closed s k in
          (s1, SL [SI 0%Z; SL (map (fun ph => SL [SB (fst ph); SB (snd ph)]) (sort_pairs ns));
                   SL (map SB (sort_bytes cs))], false)
      | None => (s, SErr 10, true)
      end
  | SL [SI 1%Z; paths; hashes; blobs] =>
      match sx_list_of sx_bytes paths, sx_list_of sx_bytes hashes, sx_list_of (blob_of src) blobs with
      | Some ps, Some hs, Some bs =>
          if Nat.eqb (length ps) (length hs) then
            let '(s1, r) := on_trie_nodes HK s ps hs bs in
            let '(o, stop) := resp_sx 1 r s1 in (s1, o, stop)
          else (s, SErr 12, true)
      | _, _, _ => (s, SErr 11, true)
      end
  | SL [SI 2%Z; hashes; blobs] =>
      match sx_list_of sx_bytes hashes, sx_list_of (blob_of src) blobs with
      | Some hs, Some bs =>
          let '(s1, r) := on_byte_codes HK s hs bs in
          let '(o, stop) := resp_sx 2 r s1 in (s1, o, stop)
      | _, _ => (s, SErr 13, true)
      end
  | SL [SI 3%Z] =>
      match commit s with
      | Some s1 => (s1, SL [SI 3%Z; SI 1%Z; snat (pending s1); sn (mb_size s1)], false)
      | None => (s, SL [SI 3%Z; SI 0%Z], true)
      end
  | _ => (s, SErr 14, true)
  end.

Fixpoint run_ops (src : list (list N)) (s : sync) (ops : list sx) (acc : list sx) : sync * list sx :=
  match ops with
  | [] => (s, rev acc)
  | o :: r =>
      let '(s1, ob, stop) := run_op src s o in
      if stop then (s1, rev (ob :: acc)) else run_ops src s1 r (ob :: acc)
  end.

Definition kv_of (s : sx) : option (list N * list N) :=
  match s with SL [SB k; SB v] => Some (k, v) | _ => None end.

Definition db_sx (d : kv) : sx := SL (map (fun e => SL [SB (fst e); SB (snd e)]) d).

(* large-scale cases (9 scheme seed naccounts kind mode): a wide trie built by the
   harness from the seed and synced with huge batches so that the per-depth throttle of
   Missing engages.  The 50k-request state is not simulated here: the observation is the
   property's value (9 completed=1 missing=0), which C12_nothing_lost (queue
   invariant, every bound) and the completeness theorems predict for the model. *)
Definition C12_run (c : sx) : sx :=
  match c with
  | SL [SI 9%Z; _; _; _; _; _] => SL [SI 9%Z; SI 1%Z; SI 0%Z]
  | SL [sch; SB root; pre; srcs; SL ops] =>
      match sx_bool sch, sx_list_of kv_of pre, sx_list_of sx_bytes srcs with
      | Some ps, Some pre, Some src =>
          let db := fold_left (fun d e => put (fst e) (snd e) d) pre [] in
          match new_sync HK ps db root CbAccount with
          | inl s => SL [SI 1%Z; SL []; db_sx (sc_db s)]
          | inr s =>
              let '(s1, obs) := run_ops src s ops [] in
              SL [SI 0%Z; SL obs; db_sx (sc_db s1)]
          end
      | _, _, _ => SErr 1
      end
  | _ => SErr 0
  end.
