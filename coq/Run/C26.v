(* Run/C26.v — case decoder / observable encoder for the C26 correspondence.

   case  (debug fork env beacon withdrawals pre txs)
     debug 0 / 1 (1: the observation ends with a dump of all accounts)
     fork  0 = Cancun, 1 = Prague, 2 = Osaka
     env   (coinbase timestamp number prevrandao gaslimit chainid basefee excessblobgas blobbasefee)
           excessblobgas is for the implementation only (blobbasefee = its image, property C35)
     beacon  () | (x<32 bytes>)                          EIP-4788 parent beacon block root
     withdrawals ((addr amount_gwei) ...)
     pre   ((addr balance nonce x<code> ((key value) ...)) ...)
     tx    (type key from nonce gas feecap tipcap to value x<data> ((addr (key ...)) ...) blobfeecap (hash ...)
            ((chain_id address nonce key authority) ...))
           key: the signer's private key (implementation only); to: () | (addr);
           authority: () = invalid signature | (addr) = the address of key
   obs   (block_error root receipts rejected gas_used blob_gas_used requests dump)
     block_error 0 none, 1 empty system contract, 2 system call failed (then every other field is
                 empty / 0: an invalid block has no result), 100.. model fault
     root        x<32 bytes>  (() = trie library failure)
     receipts    ((status gas_used cumulative_gas created ((addr (topic ...) x<data>) ...)) ...)
                 status as in Run/C27.v: 0 ok, 1 revert, 2.. EVM error class, 100.. model fault
     rejected    ((index class) ...)
     requests    (x<type ++ data> ...)
     dump        () | ((addr balance nonce x<code> ((key value) ...)) ...) *)
From GV Require Import Lib.Sx Lib.Bytes EVM.Word256 EVM.Memory EVM.Gas EVM.State EVM.Instr EVM.Step EVM.Interp EVM.Forks.
From GV Require Import EVM.Tx EVM.Block EVM.BlockForks.
Local Open Scope N_scope.

Definition err_code (e : evm_err) : Z :=
  match e with
  | E_OutOfGas => 2 | E_StackUnderflow => 3 | E_StackOverflow => 4 | E_InvalidJump => 5
  | E_InvalidOpcode => 6 | E_WriteProtection => 7 | E_ReturnDataOOB => 8 | E_Depth => 9
  | E_InsufficientBalance => 10 | E_Collision => 11 | E_MaxCodeSize => 12 | E_InvalidCode => 13
  | E_CodeStoreOutOfGas => 14 | E_NonceOverflow => 15 | E_Precompile => 16
  end%Z.
Definition fault_code (k : fault) : Z :=
  match k with
  | F_OutOfFuel => 100 | F_MemOOB => 101 | F_StackShape => 102 | F_RefundUnderflow => 103
  end%Z.
Definition status_code (s : status) : Z :=
  match s with
  | S_Ok => 0 | S_Revert => 1 | S_Halt e => err_code e | S_Fault k => fault_code k
  end%Z.

Definition tx_err_code (e : tx_err) : Z :=
  match e with
  | TE_NonceTooHigh => 1 | TE_NonceTooLow => 2 | TE_NonceMax => 3 | TE_GasLimitTooHigh => 4
  | TE_SenderNoEOA => 5 | TE_TipAboveFeeCap => 6 | TE_FeeCapTooLow => 7 | TE_BlobCreate => 8
  | TE_MissingBlobHashes => 9 | TE_TooManyBlobs => 10 | TE_BlobVersion => 11
  | TE_BlobFeeCapTooLow => 12 | TE_InitCodeSize => 13 | TE_GasLimitReached => 14
  | TE_InsufficientFunds => 15 | TE_IntrinsicGas => 16 | TE_FloorDataGas => 17
  | TE_InsufficientFundsForTransfer => 18 | TE_BlobGasLimitReached => 19
  | TE_EmptyAuthList => 20 | TE_TxTypeNotSupported => 21 | TE_SetCodeCreate => 22
  end%Z.

Definition block_err_code (e : option block_err) : Z :=
  match e with
  | None => 0 | Some BE_EmptySystemContract => 1 | Some BE_SystemCallFailed => 2
  | Some (BE_Fault k) => fault_code k
  end%Z.

Definition dec_slot (s : sx) : option (N * N) :=
  match s with SL [SI k; SI v] => Some (Z.to_N k, Z.to_N v) | _ => None end.
Definition dec_account (s : sx) : option (N * account) :=
  match s with
  | SL [SI a; SI b; SI n; SB code; st] =>
      match sx_list_of dec_slot st with
      | Some slots =>
          Some (Z.to_N a, mk_account (Z.to_N b) (Z.to_N n) code
                  (fold_left (fun m kv => if snd kv =? 0 then m else nm_set m (fst kv) (snd kv)) slots []))
      | None => None
      end
  | _ => None
  end.
Definition dec_access (s : sx) : option (N * list N) :=
  match s with
  | SL [SI a; ks] => match sx_list_of sx_N ks with Some l => Some (Z.to_N a, l) | None => None end
  | _ => None
  end.
Definition dec_withdrawal (s : sx) : option (N * N) :=
  match s with SL [SI a; SI v] => Some (Z.to_N a, Z.to_N v) | _ => None end.

Definition dec_auth (s : sx) : option auth :=
  match s with
  | SL [SI chain; SI addr; SI nonce; SI _; SL []] => Some (mk_auth (Z.to_N chain) (Z.to_N addr) (Z.to_N nonce) None)
  | SL [SI chain; SI addr; SI nonce; SI _; SL [SI a]] =>
      Some (mk_auth (Z.to_N chain) (Z.to_N addr) (Z.to_N nonce) (Some (Z.to_N a)))
  | _ => None
  end.

Definition dec_tx (s : sx) : option tx :=
  match s with
  | SL [SI ty; SI _; SI from; SI nonce; SI gas; SI feecap; SI tipcap; to; SI value; SB data; al;
        SI blobfeecap; bh; aus] =>
      let to' := match to with
                 | SL [] => Some None
                 | SL [SI a] => Some (Some (Z.to_N a))
                 | _ => None
                 end in
      match to', sx_list_of dec_access al, sx_list_of sx_N bh, sx_list_of dec_auth aus with
      | Some t, Some al', Some bh', Some aus' =>
          Some (mk_tx (Z.to_N ty) (Z.to_N from) (Z.to_N nonce) (Z.to_N gas) (Z.to_N feecap)
                      (Z.to_N tipcap) t (Z.to_N value) data al' (Z.to_N blobfeecap) bh' aus')
      | _, _, _, _ => None
      end
  | _ => None
  end.

Definition enc_account (x : N * account) : sx :=
  let '(a, acc) := x in
  SL [sn a; sn (acc_balance acc); sn (acc_nonce acc); SB (acc_code acc);
      SL (map (fun kv => SL [sn (fst kv); sn (snd kv)]) (live_slots (acc_storage acc)))].
Definition enc_log (l : log) : sx :=
  SL [sn (log_addr l); SL (map sn (log_topics l)); SB (log_data l)].
Definition enc_receipt (x : tx_receipt * N) : sx :=
  let '(rc, cum) := x in
  SL [SI (status_code (rc_status rc)); sn (rc_gas_used rc); sn cum; sn (rc_created rc);
      SL (map enc_log (rc_logs rc))].
Definition enc_rejected (x : N * tx_err) : sx := SL [sn (fst x); SI (tx_err_code (snd x))].

(* an invalid block (EIP-7002/7251 system contract missing or failing) has no result *)
Definition enc_block_result (debug : bool) (r : block_result) : sx :=
  match br_error r with
  | Some BE_EmptySystemContract | Some BE_SystemCallFailed =>
      SL [SI (block_err_code (br_error r)); SL []; SL []; SL []; sn 0; sn 0; SL []; SL []]
  | _ =>
  SL [SI (block_err_code (br_error r));
      match br_state_root r with Some h => SB h | None => SL [] end;
      SL (map enc_receipt (br_receipts r));
      SL (map enc_rejected (br_rejected r));
      sn (br_gas_used r); sn (br_blob_gas_used r);
      SL (map SB (br_requests r));
      if debug then SL (map enc_account (br_accounts r)) else SL []]
  end.

Definition C26_run (c : sx) : sx :=
  match c with
  | SL [SI debug; SI fk;
        SL [SI coinbase; SI time; SI number; SI randao; SI gaslimit; SI chainid; SI basefee;
            SI _; SI blobbasefee];
        beacon; wds; pre; txs] =>
      let beacon' := match beacon with
                     | SL [] => Some None
                     | SL [SB root] => Some (Some root)
                     | _ => None
                     end in
      match beacon', sx_list_of dec_withdrawal wds, sx_list_of dec_account pre, sx_list_of dec_tx txs with
      | Some br, Some ws, Some accts, Some ts =>
          let accounts := fold_left (fun m x => nm_set m (fst x) (snd x)) accts [] in
          let tf := match fk with 1%Z => prague_tf | 2%Z => osaka_tf | _ => cancun_tf end in
          let b := mk_benv (Z.to_N coinbase) (Z.to_N time) (Z.to_N number) (Z.to_N randao)
                           (Z.to_N gaslimit) (Z.to_N chainid) (Z.to_N basefee) (Z.to_N blobbasefee) in
          enc_block_result (Z.eqb debug 1) (apply_block tf (mk_block b br ts ws) accounts)
      | _, _, _, _ => SErr 1
      end
  | _ => SErr 0
  end.
