(* Run/C41.v — case decoder / observable encoder for the C41 correspondence.
   case = ( (bump aslots gslots aqueue gqueue naccts gastip)
            (block ...)   block = (id parent num gaslimit basefee (nonce...) (balance...) (txid...)); first = genesis
            (tx ...)      tx    = (id from nonce gas feecap tip value slots intr)
            (op ...) )    op    = (0 txid...) Add(sync) | (1 blockid) Reset(head -> block) | (2 tip) SetGasTip
                           | (3) Content | (4 acct) ContentFrom | (5) Pending | (6) Stats   (public listings)
   obs  = one entry per op: ( (errclass...) dump ), or (63) from the first op on at which the
          queue truncation may have depended on Go's map iteration order (see harness/c41). *)
From GV Require Import Lib.Sx Pool.Legacy.
Local Open Scope N_scope.

Definition dec_tx (s : sx) : option tx :=
  match sx_list_of sx_N s with
  | Some [i; f; n; g; fc; tp; v; sl; intr] => Some (mkTx i f n g fc tp v sl intr)
  | _ => None
  end.

Definition find_tx (txs : list tx) (i : N) : option tx := find (fun t => t_id t =? i) txs.

Definition dec_block (txs : list tx) (s : sx) : option block :=
  match s with
  | SL [i; p; n; gl; bf; nonces; bals; tids] =>
      match sx_N i, sx_N p, sx_N n, sx_N gl, sx_N bf,
            sx_list_of sx_N nonces, sx_list_of sx_N bals, sx_list_of sx_N tids with
      | Some i, Some p, Some n, Some gl, Some bf, Some ns, Some bs, Some ts =>
          match opt_map (find_tx txs) ts with
          | Some btxs => Some (mkBlock i p n gl bf ns bs btxs)
          | None => None end
      | _, _, _, _, _, _, _, _ => None
      end
  | _ => None
  end.

Fixpoint ins_N (x : N) (l : list N) : list N :=
  match l with [] => [x] | y :: r => if x <=? y then x :: l else y :: ins_N x r end.
Definition sort_N (l : list N) : list N := fold_right ins_N [] l.

Definition ids (l : list tx) : sx := SL (map (fun t => sn (t_id t)) l).
Definition sorted_ids (l : list tx) : sx := SL (map sn (sort_N (map t_id l))).

Definition dump_list (o : option tlist) : sx :=
  match o with
  | None => SL []
  | Some l => SL [ids (l_txs l); SI (l_total l); sopt ids (l_cache l)]
  end.

Definition dump (st : pool) : sx :=
  let accts := c_accts (p_cfg st) in
  SL [ SL (map (fun a => dump_list (p_pending st a)) accts);
       SL (map (fun a => dump_list (p_queue st a)) accts);
       SL (map (fun a => sn (pn_get a st)) accts);
       sorted_ids (p_all st); SI (p_slots st);
       sorted_ids (p_urgent st); sorted_ids (p_floating st); SI (p_stales st);
       SL (map sn (queue_by_beat st));
       sbool (p_panic st); sbool (p_fuel st) ].

(* harness-level normalisation, mirrored in harness/c41: heartbeats written during the
   op (>= t0) are re-issued in account order, so that later ops do not depend on the
   order in which Go iterated its maps *)
Definition canon_beats (t0 : N) (st : pool) : pool :=
  fold_left (fun s a =>
               match p_beats s a with
               | Some b => if t0 <=? b
                           then let '(now, s1) := tick s in set_beats s1 (upd (p_beats s1) a (Some now))
                           else s
               | None => s end) (c_accts (p_cfg st)) st.

(* the queue is exactly full and every account left in it got its heartbeat during this op *)
Definition ambiguous (t0 : N) (st : pool) : bool :=
  let qa := queue_addresses st in
  negb (match qa with [] => true | _ => false end) &&
  Nat.eqb (queue_count st) (N.to_nat (c_gqueue (p_cfg st))) &&
  forallb (fun a => t0 <=? beat_of a st) qa.

(* price-heap normalisation, mirrored in harness/c41: when truncatePending may have processed
   several offenders of equal length, the identity of the stale heap entries depends on Go's map
   iteration order; both sides rebuild the heaps at the op boundary *)
Definition norm_priced (st : pool) : pool :=
  let c := p_cfg st in
  let n_as := length (filter (fun a => Nat.leb (N.to_nat (c_aslots c)) (pending_len a st)) (c_accts c)) in
  if negb (p_stales st =? 0)%Z && Nat.leb 2 n_as &&
     Nat.ltb (N.to_nat (c_gslots c)) (pending_count st + length (c_accts c))
  then priced_reheap st else st.

Inductive dop := DAdd (txs : list tx) | DReset (b : block) | DTip (tip : N)
                | DContent | DContentFrom (a : N) | DPending | DStats.

Definition dec_op (txs : list tx) (blocks : list block) (s : sx) : option dop :=
  match sx_list_of sx_N s with
  | Some (0 :: tids) => match opt_map (find_tx txs) tids with Some l => Some (DAdd l) | None => None end
  | Some [1; bid] => match get_block blocks bid with Some b => Some (DReset b) | None => None end
  | Some [2; tip] => Some (DTip tip)
  | Some [3] => Some DContent
  | Some [4; a] => Some (DContentFrom a)
  | Some [5] => Some DPending
  | Some [6] => Some DStats
  | _ => None
  end.

Fixpoint run_ops (blocks : list block) (ops : list dop) (head : block) (st : pool) : list sx :=
  match ops with
  | [] => []
  | o :: rest =>
      let t0 := p_clock st in
      let '(st1, out, head1) :=
        match o with
        | DAdd txs => let '(s, e) := pool_Add txs st in (s, SL (map sn e), head)
        | DReset b => (run_reorg_reset blocks head b st, SL [], b)
        | DTip tip => (* Go removes in map order, which decides which sorted caches survive:
                         both sides list everything afterwards, filling all caches *)
                      (snd (pool_Content (pool_SetGasTip tip st)), SL [], head)
        | DContent => let '(pq, s) := pool_Content st in
                      (s, SL (map (fun '(p, q) => SL [ids p; ids q]) pq), head)
        | DContentFrom a => let '(pq, s) := pool_ContentFrom a st in
                      (s, SL [ids (fst pq); ids (snd pq)], head)
        | DPending => let '(ps, s) := pool_Pending st in (s, SL (map ids ps), head)
        | DStats => (st, SL [snat (pending_count st); snat (queue_count st)], head)
        end in
      (* SetGasTip removes txs in Go's map order, which decides whether a queue entry (and its
         heartbeat) is deleted and recreated or survives: all heartbeats are re-issued after it *)
      let is_tip := match o with DTip _ => true | _ => false end in
      if negb is_tip && ambiguous t0 st1 then [SL [SI 99]]
      else
        let st2 := norm_priced (canon_beats (if is_tip then 0 else t0) st1) in
        SL [out; dump st2] :: run_ops blocks rest head1 st2
  end.

Definition C41_run (c : sx) : sx :=
  match c with
  | SL [conf; sblocks; stxs; sops] =>
      match sx_list_of sx_N conf, sx_list_of dec_tx stxs with
      | Some [bump; aslots; gslots; aqueue; gqueue; naccts; gastip], Some txs =>
          match sx_list_of (dec_block txs) sblocks with
          | Some ((genesis :: _) as blocks) =>
              match sx_list_of (dec_op txs blocks) sops with
              | Some ops =>
                  let c := mkCfg bump aslots gslots aqueue gqueue (map N.of_nat (seq 0 (N.to_nat naccts))) in
                  SL (run_ops blocks ops genesis (pool_init c gastip genesis))
              | None => SErr 3
              end
          | _ => SErr 2
          end
      | _, _ => SErr 1
      end
  | _ => SErr 0
  end.
