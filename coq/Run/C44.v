(* Run/C44.v — case decoder / observable encoder for the C44 correspondence.
   The framing model of Net/Rlpx.v is instantiated with REAL primitives computed in
   Coq: AES-CTR and the AES block of the MAC from Net/Aes.v, the legacy-Keccak256
   streaming state machine of Keccak/Sponge.v; snappy is a table carried by the case
   (library code, computed by the harness generator); newcap = exact fit.

   kind 0  (0 flags x<aes> x<mac> x<macinit> ((code x<data>)..) ((x<plain> x<comp>)..)
              ((x<wire> declen|-1 (x<dec>)|())..) (chunk..) (op a b))
           -> ( ((0 wsz x<wire>)|(1 class) ..)  ((code x<data> wsz)..)  errclass )
   kind 1  (1 (fsizes I->R..) (fsizes R->I..) (dir region off))   tamper prediction
           -> (hsI hsR deliveredIR errIR deliveredRI errRI)
   kind 2  (2 x<pubkey bytes> variant ..)  -> 0 | 12 | 10
           variant 0/1: importPublicKey accepts / rejects the key carried by auth / authResp;
           variant 2: the key replaces the ECIES ephemeral key: invalid point -> 12, valid -> decrypt error 10
   kind 3  (3 code datalen snappy complen) -> (0 fsize wirelen x<header plaintext>) | (1 class) *)
From GV Require Import Lib.Sx Lib.Bytes Net.Rlpx Net.Aes Keccak.Sponge.
Local Open Scope N_scope.

Definition kwrite (s : Sponge.state) (p : list N) : Sponge.state :=
  match k_write s p with Sponge.Ok s' => s' | Sponge.Panic _ => s end.
Definition ksum (s : Sponge.state) : list N :=
  match k_sum s [] with Sponge.Ok (_, h) => h | Sponge.Panic _ => [] end.

Fixpoint assoc {B} (k : list N) (t : list (list N * B)) : option B :=
  match t with
  | [] => None
  | (k', v) :: r => if bytes_eqb k k' then Some v else assoc k r
  end.

Definition tab_enc (t : list (list N * list N)) (d : list N) : list N :=
  match assoc d t with Some c => c | None => [] end.
Definition tab_declen (t : list (list N * (option N * option (list N)))) (d : list N) : option N :=
  match assoc d t with Some (n, _) => n | None => None end.
Definition tab_dec (t : list (list N * (option N * option (list N)))) (d : list N) : option (list N) :=
  match assoc d t with Some (_, x) => x | None => None end.

Definition exact_cap (c n : nat) : nat := (c + n)%nat.

(* decoders *)
Definition dec_msg (s : sx) : option (N * list N) :=
  match s with SL [c; SB d] => match sx_N c with Some n => Some (n, d) | None => None end | _ => None end.
Definition dec_pair (s : sx) : option (list N * list N) :=
  match s with SL [SB a; SB b] => Some (a, b) | _ => None end.
Definition dec_dent (s : sx) : option (list N * (option N * option (list N))) :=
  match s with
  | SL [SB w; SI n; SL []] => Some (w, ((if (n <? 0)%Z then None else Some (Z.to_N n)), None))
  | SL [SB w; SI n; SL [SB d]] => Some (w, ((if (n <? 0)%Z then None else Some (Z.to_N n)), Some d))
  | _ => None
  end.

Fixpoint cut (sizes : list nat) (wire : list N) : list (list N) :=
  match sizes with
  | [] => [wire]
  | n :: r => firstn n wire :: cut r (skipn n wire)
  end.

Fixpoint xor_at (pos : nat) (mask : N) (l : list N) : list N :=
  match l with
  | [] => []
  | b :: r => match pos with O => N.lxor b mask :: r | S p => b :: xor_at p mask r end
  end.

Fixpoint set_nth {A} (i : nat) (x : A) (l : list A) : list A :=
  match l with
  | [] => []
  | y :: r => match i with O => x :: r | S i' => y :: set_nth i' x r end
  end.

Definition apply_tamper (op a b : N) (frames : list (list N)) : list N :=
  let i := N.to_nat a in let j := N.to_nat b in
  match op with
  | 1 => xor_at i b (concat frames)
  | 2 => firstn i (concat frames)
  | 3 => concat (set_nth i (nth j frames []) (set_nth j (nth i frames []) frames))
  | 4 => concat (firstn i frames ++ skipn (S i) frames)
  | 5 => concat (firstn (S i) frames ++ skipn i frames)
  | _ => concat frames
  end.

Definition enc_wres (r : rres (list N * N)) : sx :=
  match r with
  | Good (wire, wsz) => SL [SI 0; sn wsz; SB wire]
  | Bad e => SL [SI 1; sn (rerr_code e)]
  end.
Definition enc_rmsg (m : msg) : sx :=
  match m with (code, data, wsz) => SL [sn code; SB data; sn wsz] end.
(* io.EOF vs io.ErrUnexpectedEOF depends on how much an earlier read buffered, i.e. on the
   capacity Go's append chose (newcap): compared as one class (norm_err) *)
Definition enc_err (e : option rerr) : sx :=
  match e with Some e => sn (rerr_code (norm_err e)) | None => SI 0 end.

Fixpoint good_wires (l : list (rres (list N * N))) : list (list N) :=
  match l with
  | [] => []
  | Good (w, _) :: r => w :: good_wires r
  | Bad _ :: r => good_wires r
  end.

Definition run_session (flags : N) (aes mac macinit : list N) (ms : list (N * list N))
    (etab : list (list N * list N)) (dtab : list (list N * (option N * option (list N))))
    (chunks : list nat) (op a b : N) : sx :=
  let rk_aes := round_keys aes in
  let rk_mac := round_keys mac in
  let cnext := ctr_next rk_aes in
  let blk := enc_block rk_mac in
  let m0 := kwrite Sponge.init macinit in
  let ssnap := N.testbit flags 0 in
  let rsnap := N.testbit flags 1 in
  let ws := write_each _ cnext _ kwrite ksum blk (tab_enc etab) ssnap (mkw _ _ ctr_init m0) ms in
  let wire := apply_tamper op a b (good_wires ws) in
  let fr := cut chunks wire in
  let '(got, e) :=
    read_until _ cnext _ kwrite ksum blk (tab_declen dtab) (tab_dec dtab) exact_cap
      (S (S (length ms))) rsnap (mkr _ _ ctr_init m0 rb_empty) fr in
  SL [SL (map enc_wres ws); SL (map enc_rmsg got); enc_err e].

(* kind 1: where a single modified byte lands and what the reader must report *)
Definition predict (fi fr : list N) (dir region off : N) : sx :=
  let ni := lenN fi in let nr := lenN fr in
  match region with
  | 0 => if dir =? 0 then SL [SI 0; SI 0; SI 0; SI 0; SI 0; SI 0]
         else SL [SI 0; SI 1; SI 0; SI 0; SI 0; SI 0]
  | 1 =>
      let fs := if dir =? 0 then fi else fr in
      match locate fs off 0 with
      | None => SErr 2
      | Some (idx, o, f) =>
          let cls := rerr_code (tamper_class f o) in
          if dir =? 0 then SL [SI 1; SI 1; sn idx; sn cls; sn nr; SI 0]
          else SL [SI 1; SI 1; sn ni; SI 0; sn idx; sn cls]
      end
  | _ => SL [SI 1; SI 1; sn ni; SI 0; sn nr; SI 0]
  end.

(* kind 3: size decisions of Conn.Write / writeFrame from lengths alone *)
Definition size_only (code dlen snappy clen : N) : sx :=
  if max_uint24 <? dlen then SL [SI 1; sn (rerr_code ETooLarge)] else
  let wl := if snappy =? 1 then clen else dlen in
  let fsize := int_size code + wl in
  if max_uint24 <? fsize then SL [SI 1; sn (rerr_code ETooLarge)] else
  SL [SI 0; sn fsize; sn (frame_wire_len fsize);
      SB (put_uint24 fsize ++ zero_header ++ repeat 0 10)].

Definition C44_run (c : sx) : sx :=
  match c with
  | SL [SI 0%Z; fl; SB aes; SB mac; SB macinit; ms; et; dt; ch; SL [op; a; b]] =>
      match sx_N fl, sx_list_of dec_msg ms, sx_list_of dec_pair et, sx_list_of dec_dent dt,
            sx_list_of sx_nat ch, sx_N op, sx_N a, sx_N b with
      | Some fl, Some ms, Some et, Some dt, Some ch, Some op, Some a, Some b =>
          run_session fl aes mac macinit ms et dt ch op a b
      | _, _, _, _, _, _, _, _ => SErr 1
      end
  | SL (SI 1%Z :: fi :: fr :: SL [dir; region; off] :: _) =>
      match sx_list_of sx_N fi, sx_list_of sx_N fr, sx_N dir, sx_N region, sx_N off with
      | Some fi, Some fr, Some dir, Some region, Some off => predict fi fr dir region off
      | _, _, _, _, _ => SErr 1
      end
  | SL (SI 2%Z :: SB pk :: SI variant :: _) =>
      match import_pub_secp pk with
      | Some _ => if (variant =? 2)%Z then sn (rerr_code EHsDecrypt) else SI 0
      | None => sn (rerr_code EHsInvalidPub)
      end
  | SL (SI 3%Z :: code :: dlen :: sn_ :: clen :: _) =>
      match sx_N code, sx_N dlen, sx_N sn_, sx_N clen with
      | Some code, Some dlen, Some s, Some clen => size_only code dlen s clen
      | _, _, _, _ => SErr 1
      end
  | _ => SErr 0
  end.
