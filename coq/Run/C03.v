(* Run/C03.v — case decoder / observable encoder for the C03 correspondence.

   The abstract signature scheme of Crypto/Signer.v is instantiated by DATA
   carried in the case: a sign table ((x<hash> r s recid)..) holding what
   crypto.Sign returned for the case's key, and a recover table
   ((x<hash> r s v ()|(x<addr>))..) holding what crypto.Ecrecover (+ Keccak of
   the key) returned.  H is the Coq Keccak-256 (Keccak/Sponge.v), so the
   signature hashes are computed by the model from the transcribed field
   selection and must equal the implementation's.  A query the tables do not
   answer is reported as (-1 10) / (-1 11), never guessed.

     tx     = (type chain v r s (nonce price feecap gas to value x<data> access blobfeecap blobhashes auth))
              to = () | (x<20>), access = ((x<addr> (x<key>..))..), blobhashes = (x<32>..),
              auth = ((chain x<addr> nonce v r s)..)
     signer = (0) Frontier | (1) Homestead | (2 chain) EIP155 | (3 fork chain) modern, fork 0..3
     cfg    = (chain homestead eip155 berlin london cancun prague), each () | (n)

   (0 tx signer x<key> signer' SIGN REC)  SignTx then Sender with signer'
        -> (x<hash> (0 chain v r s)|(class) x<hash'>|() (0 x<addr>)|(class)|())
   (1 tx signer REC)                      Sender of a tx with arbitrary V R S
        -> (protected chainid x<hash> (0 x<addr>)|(class))
   (2 v r s x<hash>)                      ValidateSignatureValues, frontier and homestead (the hash is
                                          used by the Go oracle: Ecrecover / SigToPub / VerifySignature)
   (3 x<hash> x<key>), (9 v r s x<hash>)  curve-only cases (crypto.Sign round trip; recovery ids 4..7): ()
   (8 v r s x<hash>)                      crypto.Ecrecover vs the executable curve Crypto/Secp.v (a few per run)
                                          -> ((x y)) | ()
   (4 cfg num|() time) MakeSigner, (5 cfg) LatestSigner, (6 ()|(chain)) LatestSignerForChainID
        -> (signer) | () when the constructor panics
   (7 v r s maybeProtected)               deriveChainId, isProtectedV, sanityCheckSignature *)
From GV Require Import Lib.Sx Lib.Bytes Rlp.Item Keccak.Sponge Crypto.Signer Crypto.Secp.
Local Open Scope Z_scope.

Definition bind {A B} (o : option A) (f : A -> option B) : option B :=
  match o with Some a => f a | None => None end.
Notation "'do' x <- a ; b" := (bind a (fun x => b))
  (at level 200, x pattern, a at level 100, b at level 200).

Definition d_opt {A} (f : sx -> option A) (s : sx) : option (option A) :=
  match s with
  | SL [] => Some None
  | SL [x] => match f x with Some a => Some (Some a) | None => None end
  | _ => None
  end.

Definition d_access1 (s : sx) : option (list N * list (list N)) :=
  match s with
  | SL [SB a; ks] => do ks <- sx_list_of sx_bytes ks; Some (a, ks)
  | _ => None
  end.
Definition d_auth1 (s : sx) : option authz :=
  match s with
  | SL [c; SB a; n; v; r; s'] =>
      do c <- sx_N c; do n <- sx_N n; do v <- sx_N v; do r <- sx_N r; do s' <- sx_N s';
      Some {| a_chain := c; a_addr := a; a_nonce := n; a_v := v; a_r := r; a_s := s' |}
  | _ => None
  end.

Definition d_payload (s : sx) : option payload :=
  match s with
  | SL [nonce; price; feecap; gas; to; value; SB data; access; bfc; bhs; auth] =>
      do nonce <- sx_N nonce; do price <- sx_N price; do feecap <- sx_N feecap;
      do gas <- sx_N gas; do to <- d_opt sx_bytes to; do value <- sx_N value;
      do access <- sx_list_of d_access1 access; do bfc <- sx_N bfc;
      do bhs <- sx_list_of sx_bytes bhs; do auth <- sx_list_of d_auth1 auth;
      Some {| p_nonce := nonce; p_price := price; p_feecap := feecap; p_gas := gas;
              p_to := to; p_value := value; p_data := data; p_access := access;
              p_blobfeecap := bfc; p_blobhashes := bhs; p_auth := auth |}
  | _ => None
  end.

Definition d_type (z : Z) : option txtype :=
  match z with
  | 0 => Some LegacyTx | 1 => Some AccessListTx | 2 => Some DynamicFeeTx
  | 3 => Some BlobTx | 4 => Some SetCodeTx | _ => None
  end.

Definition d_tx (s : sx) : option tx :=
  match s with
  | SL [SI ty; SI chain; SI v; SI r; SI s'; p] =>
      do ty <- d_type ty; do p <- d_payload p;
      (* BlobTx / SetCodeTx have a non-pointer To *)
      if is_u256_type ty && negb (is_some (p_to p)) then None else
      Some {| t_type := ty; t_payload := p; t_chain := chain; t_v := v; t_r := r; t_s := s' |}
  | _ => None
  end.

Definition d_fork (z : Z) : option fork :=
  match z with 0 => Some Berlin | 1 => Some London | 2 => Some Cancun | 3 => Some Prague
          | _ => None end.
Definition d_signer (s : sx) : option signer :=
  match s with
  | SL [SI 0] => Some Frontier
  | SL [SI 1] => Some Homestead
  | SL [SI 2; SI c] => Some (EIP155 c)
  | SL [SI 3; SI f; SI c] => do f <- d_fork f; Some (Modern f c)
  | _ => None
  end.
Definition e_signer (o : option signer) : sx :=
  match o with
  | None => SL []
  | Some Frontier => SL [SL [SI 0]]
  | Some Homestead => SL [SL [SI 1]]
  | Some (EIP155 c) => SL [SL [SI 2; SI c]]
  | Some (Modern f c) => SL [SL [SI 3; sn (fork_rank f); SI c]]
  end.

Definition d_cfg (s : sx) : option config :=
  match s with
  | SL [c; h; e; b; l; ca; pr] =>
      do c <- d_opt sx_Z c; do h <- d_opt sx_Z h; do e <- d_opt sx_Z e; do b <- d_opt sx_Z b;
      do l <- d_opt sx_Z l; do ca <- d_opt sx_N ca; do pr <- d_opt sx_N pr;
      Some {| c_chain := c; c_homestead := h; c_eip155 := e; c_berlin := b; c_london := l;
              c_cancun := ca; c_prague := pr |}
  | _ => None
  end.

(* ---- the scheme, from data ---- *)
Definition sign_tbl := list (list N * (Z * Z * Z)).
Definition rec_tbl := list (list N * Z * Z * Z * option (list N)).

Definition d_sign1 (s : sx) : option (list N * (Z * Z * Z)) :=
  match s with SL [SB h; SI r; SI s'; SI v] => Some (h, (r, s', v)) | _ => None end.
Definition d_rec1 (s : sx) : option (list N * Z * Z * Z * option (list N)) :=
  match s with
  | SL [SB h; SI r; SI s'; SI v; a] => do a <- d_opt sx_bytes a; Some (h, r, s', v, a)
  | _ => None
  end.

Definition bytes_eqb : list N -> list N -> bool := list_eqb N.eqb.

Fixpoint lookup_sign (t : sign_tbl) (h : list N) : option (Z * Z * Z) :=
  match t with
  | [] => None
  | (h', x) :: r => if bytes_eqb h h' then Some x else lookup_sign r h
  end.
Fixpoint lookup_rec (t : rec_tbl) (h : list N) (r s v : Z) : option (option (list N)) :=
  match t with
  | [] => None
  | (h', r', s', v', a) :: rest =>
      if bytes_eqb h h' && (r =? r') && (s =? s') && (v =? v') then Some a
      else lookup_rec rest h r s v
  end.

(* pubkey := the address itself; an unanswered query yields the impossible address [] *)
Definition recover_of (t : rec_tbl) (h : list N) (r s v : Z) : option (list N) :=
  match lookup_rec t h r s v with
  | Some a => a
  | None => Some []
  end.
Definition sign_of (t : sign_tbl) (_ : unit) (h : list N) : Z * Z * Z :=
  match lookup_sign t h with Some x => x | None => (0, 0, 0) end.

Definition m_hash (sg : signer) (t : tx) : list N := signer_hash keccak256 sg t.
Definition m_sender (rt : rec_tbl) (sg : signer) (t : tx) : res (list N) :=
  sender (list N) keccak256 (recover_of rt) (fun a => a) sg t.
Definition m_sign_tx (st : sign_tbl) (sg : signer) (t : tx) : res tx :=
  sign_tx unit keccak256 (sign_of st) sg t tt.

Definition e_sender (r : res (list N)) : sx :=
  match r with
  | ROk [] => SErr 11
  | ROk a => SL [SI 0; SB a]
  | RErr e => SL [SI (serr_code e)]
  end.

Definition C03_run (c : sx) : sx :=
  match c with
  | SL [SI 0; txs; sgs; SB _; sgr; stb; rtb] =>
      match d_tx txs, d_signer sgs, d_signer sgr, sx_list_of d_sign1 stb, sx_list_of d_rec1 rtb with
      | Some t, Some sg, Some sg', Some st, Some rt =>
          let h := m_hash sg t in
          match lookup_sign st h with
          | None => SL [SB h; SErr 10]
          | Some _ =>
              match m_sign_tx st sg t with
              | RErr e => SL [SB h; SL [SI (serr_code e)]; SL []; SL []]
              | ROk t' =>
                  SL [SB h; SL [SI 0; SI (tx_chain_id t'); SI (t_v t'); SI (t_r t'); SI (t_s t')];
                      SB (m_hash sg' t'); e_sender (m_sender rt sg' t')]
              end
          end
      | _, _, _, _, _ => SErr 1
      end
  | SL [SI 1; txs; sgs; rtb] =>
      match d_tx txs, d_signer sgs, sx_list_of d_rec1 rtb with
      | Some t, Some sg, Some rt =>
          SL [sbool (tx_protected t); SI (tx_chain_id t); SB (m_hash sg t);
              e_sender (m_sender rt sg t)]
      | _, _, _ => SErr 1
      end
  | SL [SI 2; SI v; SI r; SI s; SB _] =>
      SL [sbool (validate_signature_values v r s false);
          sbool (validate_signature_values v r s true)]
  (* kinds 3 and 9 exercise the curve only (Go oracle + backend comparison) *)
  | SL [SI 3; SB _; SB _] => SL []
  | SL [SI 9; SI _; SI _; SI _; SB _] => SL []
  (* kind 8: the executable curve Crypto/Secp.v as a third implementation of Ecrecover *)
  | SL [SI 8; SI v; SI r; SI s; SB h] =>
      match sp_recover (Z.of_N (be_decode h)) r s v with
      | Some (x, y) => SL [SL [SI x; SI y]]
      | None => SL []
      end
  | SL [SI 4; cfg; num; time] =>
      match d_cfg cfg, d_opt sx_Z num, sx_N time with
      | Some cfg, Some num, Some time => e_signer (make_signer cfg num time)
      | _, _, _ => SErr 1
      end
  | SL [SI 5; cfg] =>
      match d_cfg cfg with Some cfg => e_signer (latest_signer cfg) | None => SErr 1 end
  | SL [SI 6; c] =>
      match d_opt sx_Z c with
      | Some c => e_signer (latest_signer_for_chain_id c)
      | None => SErr 1
      end
  | SL [SI 7; SI v; SI r; SI s; mp] =>
      match sx_bool mp with
      | Some mp =>
          SL [SI (derive_chain_id v); sbool (is_protected_v v);
              SI (match sanity_check_signature v r s mp with ROk _ => 0 | RErr e => serr_code e end)]
      | None => SErr 1
      end
  | _ => SErr 0
  end.
