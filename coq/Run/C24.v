(* Run/C24.v — case decoder / observable encoder for the C24 correspondence.
   case  (snappy maxsz (op ...) (cut ...) ((x<raw> x<enc>) ...))
     op   (0 x<blob> ...) append batch | (1 n) truncateHead | (2 n) truncateTail | (3) Sync
          | (4) index.Sync only | (5) index.Sync + head.Sync only
     cut  (ai bi ad bd cm)   selectors for the index / data-file cut+zero-pad, cm=1: current metadata
     the pair list is the codec (snappy) as data: encode = lookup, decode = reverse lookup;
     empty for raw tables (identity).
   obs   ((op error classes) (idx_dur idx_len) ((id dur len) ...) (vtail_syn flush_syn vtail_cur flush_cur)
          (items hidden offset tail head headbytes)
          (per cut: ((ci pi) ((id c p) ...) reopen))  )
     (-1 50) = the executable invariant inv_b fails on the final state although the index passes checkIndex
     reopen = (1 class) | (0 items hidden offset tail head headbytes flush ((id len) ...) (retrieve lo..hi)) *)
From GV Require Import Lib.Sx Storage.FreezerTable Storage.Freezer.
Local Open Scope N_scope.

Definition codec := list (list N * list N).
Fixpoint enc_of (c : codec) (raw : list N) : list N :=
  match c with
  | [] => raw
  | (r, e) :: c' => if bytes_eqb r raw then e else enc_of c' raw
  end.
Fixpoint dec_lookup (c : codec) (e : list N) : option (list N) :=
  match c with
  | [] => None
  | (r, e') :: c' => if bytes_eqb e' e then Some r else dec_lookup c' e
  end.
Definition dec_of (c : codec) (e : list N) : option (list N) :=
  match c with [] => Some e | _ => dec_lookup c e end.

Definition sx_op (s : sx) : option op :=
  match s with
  | SL (SI 0%Z :: blobs) => match opt_map sx_bytes blobs with Some b => Some (OAppend b) | None => None end
  | SL [SI 1%Z; n] => match sx_N n with Some n => Some (OTruncHead n) | None => None end
  | SL [SI 2%Z; n] => match sx_N n with Some n => Some (OTruncTail n) | None => None end
  | SL [SI 3%Z] => Some OSync
  | SL [SI 4%Z] => Some OSyncIndex
  | SL [SI 5%Z] => Some OSyncIndexHead
  | _ => None
  end.

Record cutsel := mkCut { c_ai : nat; c_bi : nat; c_ad : nat; c_bd : nat; c_m : bool }.
Definition sx_cut (s : sx) : option cutsel :=
  match s with
  | SL [a; b; c; d; m] =>
      match sx_nat a, sx_nat b, sx_nat c, sx_nat d, sx_bool m with
      | Some a, Some b, Some c, Some d, Some m => Some (mkCut a b c d m)
      | _, _, _, _, _ => None
      end
  | _ => None
  end.
Definition sx_pair (s : sx) : option (list N * list N) :=
  match s with SL [SB r; SB e] => Some (r, e) | _ => None end.

Definition sres {A} (f : A -> sx) (r : res A) : sx :=
  match r with Ok a => SL [SI 0%Z; f a] | Err c => SL [sn c] end.

Definition range_incl (lo hi : N) : list N :=
  if hi <? lo then [] else map (fun k => lo + N.of_nat k) (seq 0 (S (N.to_nat (hi - lo)))).

Definition obs_table (dec : list N -> option (list N)) (t : table) : list sx :=
  [ sn (t_items t); sn (t_hidden t); sn (t_offset t); sn (t_tail t); sn (t_head t); sn (t_headbytes t) ].

Definition obs_reopen (dec : list N -> option (list N)) (r : res table) : sx :=
  match r with
  | Err c => SL [SI 1%Z; sn c]
  | Ok t =>
      let lo := N.max (t_hidden t) 1 - 1 in
      SL (SI 0%Z :: obs_table dec t ++
          [ sn (mflush (t_mcur t));
            SL (map (fun kf => SL [sn (fst kf); sn (fsize (snd kf))]) (t_data t));
            SL (map (fun i => sres SB (retrieve dec t i)) (range_incl lo (t_items t))) ])
  end.

Definition obs_cut (maxsz : N) (dec : list N -> option (list N)) (t : table) (c : cutsel) : sx :=
  let ci := sel_cut (t_index t) (c_ai c) (c_bi c) in
  let cd := fun id => match dget id (t_data t) with
                      | Some f => sel_cut f (c_ad c) (c_bd c)
                      | None => (O, O)
                      end in
  SL [ SL [snat (fst ci); snat (snd ci)];
       SL (map (fun kf => SL [sn (fst kf); snat (fst (cd (fst kf))); snat (snd (cd (fst kf)))]) (t_data t));
       obs_reopen dec (crash_reopen true t ci cd (c_m c)) ].

(* ---------- freezer-level cases (kind 9) ----------
   case  (9 maxsz ntables (op ...) (crash ...))
     op    (0 n size_0 size_1 ...) ModifyAncients appending n items to every table (table k: size_(k mod #sizes) bytes)
           | (1 n) TruncateHead | (2 n) TruncateTail | (3) SyncAncient
     crash (sel_0 sel_1 ...)  per table: 0 as on disk, 1 as at the last SyncAncient, 2 files of then + metadata of now
   obs   (9 (op error classes) (per crash: (1 class) | (0 head tail ((items hidden) ...) ((retrieve lo..head) ...)))) *)
Definition sx_fop (s : sx) : option fop :=
  match s with
  | SL (SI 0%Z :: n :: sizes) =>
      match sx_nat n, opt_map sx_nat sizes with
      | Some n, Some sz => Some (FAppend n sz)
      | _, _ => None
      end
  | SL [SI 1%Z; n] => match sx_N n with Some n => Some (FTruncHead n) | None => None end
  | SL [SI 2%Z; n] => match sx_N n with Some n => Some (FTruncTail n) | None => None end
  | SL [SI 3%Z] => Some FSync
  | _ => None
  end.

Definition obs_freezer (r : res freezer) : sx :=
  match r with
  | Err c => SL [SI 1%Z; sn c]
  | Ok f =>
      let lo := N.max (fz_tail f) 1 - 1 in
      SL [ SI 0%Z; sn (fz_head f); sn (fz_tail f);
           SL (map (fun t => SL [sn (t_items t); sn (t_hidden t)]) (fz_tables f));
           SL (map (fun t => SL (map (fun i => sres SB (retrieve raw_decode t i)) (range_incl lo (fz_head f))))
                   (fz_tables f)) ]
  end.

Definition run_freezer (mx nt : sx) (ops crashes : list sx) : sx :=
  match sx_N mx, sx_nat nt, opt_map sx_fop ops, opt_map (sx_list_of sx_N) crashes with
  | Some maxsz, Some nt, Some ops, Some crashes =>
      match fz_open true (repeat (f_empty, [], None) nt) with
      | Err e => SErr (Z.of_N e + 200)
      | Ok f0 =>
          let '(f, snap, codes) := fz_run maxsz f0 (fz_tables f0) ops in
          SL [ SI 9%Z; SL (map sn codes);
               SL (map (fun sels => obs_freezer (fz_open true (crash_tables 0 sels snap (fz_tables f)))) crashes) ]
      end
  | _, _, _, _ => SErr 9
  end.

Definition C24_run (c : sx) : sx :=
  match c with
  | SL [SI 9%Z; mx; nt; SL ops; SL crashes] => run_freezer mx nt ops crashes
  | SL (SI 8%Z :: _) => SL [SI 8%Z]     (* torn-metadata case: Go oracle only, no model *)
  | SL [sn_; mx; SL ops; SL cuts; SL pairs] =>
      match sx_N mx, opt_map sx_op ops, opt_map sx_cut cuts, opt_map sx_pair pairs with
      | Some maxsz, Some ops, Some cuts, Some cd =>
          let enc := enc_of cd in
          let dec := dec_of cd in
          match init true with
          | Err e => SErr (Z.of_N e + 100)
          | Ok t0 =>
              let '(t, codes) := run maxsz enc t0 ops in
              if negb (inv_b t) && is_none (check_index (entries_of (fbytes (t_index t)))) then SErr 50 else
              SL [ SL (map sn codes);
                   SL [snat (fdur (t_index t)); snat (flen (t_index t))];
                   SL (map (fun kf => SL [sn (fst kf); snat (fdur (snd kf)); snat (flen (snd kf))]) (t_data t));
                   SL [sn (mvtail (t_msyn t)); sn (mflush (t_msyn t)); sn (mvtail (t_mcur t)); sn (mflush (t_mcur t))];
                   SL (obs_table dec t);
                   SL (map (obs_cut maxsz dec t) cuts) ]
          end
      | _, _, _, _ => SErr 1
      end
  | _ => SErr 0
  end.
