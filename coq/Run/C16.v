(* Run/C16.v -- case decoder / observable encoder for the C16 correspondence.
   case  ( (limit noasync maxlayers relink cache) op ... )   cache (clean caches on/off) is ignored by the model
     op  (0 root parent (sent ...) (nent ...))  Database.Update     sent = (a v) | (a s v), nent = (owner path v)
         (1 root n)                             layerTree.cap(root,n) under the database lock
         (2 root)                               Database.Commit(root)
         (3 root (skey ...) (nkey ...))         reads at root       skey = (a) | (a s), nkey = (owner path)
         (4)                                    background flusher completes (no-op for the implementation)
   obs   one item per op, stopping after a panic:
         mutation -> (class baseRoot nLayers)   class 0 = ok, else error class; (99) = panic
         reads    -> ((r ...) (r ...))          r = (0 x<value>) | (1 class)
         flush    -> ()  *)
From GV Require Import Lib.Sx PathDB.Lookup PathDB.Layers.
Local Open Scope N_scope.

Definition err_code (e : err) : Z :=
  match e with
  | EStale => 1 | EUnavail => 2 | EMissing => 3 | EDiskLayer => 4 | ECycle => 5
  | ENoParent => 6 | EFlush => 7 | ENotFrozen => 8 | EFuel => 20 | EBadRef => 21
  end%Z.

Definition dec_sent (s : sx) : option (skey * val) :=
  match s with
  | SL [SI a; SB v] => if (a <? 0)%Z then None else Some (KA (Z.to_N a), v)
  | SL [SI a; SI b; SB v] =>
      if ((a <? 0) || (b <? 0))%Z then None else Some (KS (Z.to_N a) (Z.to_N b), v)
  | _ => None
  end.
Definition dec_nent (s : sx) : option (nkey * val) :=
  match s with
  | SL [SI o; SB p; SB v] => if (o <? 0)%Z then None else Some ((Z.to_N o, p), v)
  | _ => None
  end.
Definition dec_skey (s : sx) : option skey :=
  match s with
  | SL [SI a] => if (a <? 0)%Z then None else Some (KA (Z.to_N a))
  | SL [SI a; SI b] => if ((a <? 0) || (b <? 0))%Z then None else Some (KS (Z.to_N a) (Z.to_N b))
  | _ => None
  end.
Definition dec_nkey (s : sx) : option nkey :=
  match s with
  | SL [SI o; SB p] => if (o <? 0)%Z then None else Some (Z.to_N o, p)
  | _ => None
  end.

Inductive cop : Type :=
| CMut (o : op)
| CRead (root : N) (sk : list skey) (nk : list nkey).

Definition dec_op (s : sx) : option cop :=
  match s with
  | SL [SI 0%Z; r; p; ss; ns] =>
      match sx_N r, sx_N p, sx_list_of dec_sent ss, sx_list_of dec_nent ns with
      | Some r, Some p, Some ss, Some ns => Some (CMut (OUpdate r p ss ns))
      | _, _, _, _ => None
      end
  | SL [SI 1%Z; r; n] =>
      match sx_N r, sx_N n with
      | Some r, Some n => Some (CMut (OCap r n))
      | _, _ => None
      end
  | SL [SI 2%Z; r] => match sx_N r with Some r => Some (CMut (OCommit r)) | None => None end
  | SL [SI 3%Z; r; sk; nk] =>
      match sx_N r, sx_list_of dec_skey sk, sx_list_of dec_nkey nk with
      | Some r, Some sk, Some nk => Some (CRead r sk nk)
      | _, _, _ => None
      end
  | SL [SI 4%Z] => Some (CMut OFlush)
  | _ => None
  end.

Definition enc_res (r : res val) : sx :=
  match r with
  | Ok v => SL [SI 0%Z; SB v]
  | Err e => SL [SI 1%Z; SI (err_code e)]
  | Panic => SL [SI 99%Z]
  end.

Definition enc_mut (s : db) (r : res unit) : sx :=
  let base := match base_root s with Some b => sn b | None => SI (-2)%Z end in
  let n := snat (length (t_layers (tr s))) in
  match r with
  | Ok _ => SL [SI 0%Z; base; n]
  | Err e => SL [SI (err_code e); base; n]
  | Panic => SL [SI 99%Z]
  end.

Fixpoint exec (s : db) (ops : list cop) : list sx :=
  match ops with
  | [] => []
  | CRead root sk nk :: rest =>
      SL [SL (map (fun k => enc_res (read_state s root k)) sk);
          SL (map (fun k => enc_res (read_node s root k)) nk)] :: exec s rest
  | CMut OFlush :: rest => SL [] :: exec (flush_all s) rest
  | CMut o :: rest =>
      let '(s', r) := step s o in
      match r with
      | Panic => [enc_mut s' r]
      | _ => enc_mut s' r :: exec s' rest
      end
  end.

Definition C16_run (c : sx) : sx :=
  match c with
  | SL (SL [SI limit; nas; ml; rl; _] :: ops) =>
      match sx_bool nas, sx_N ml, sx_bool rl, opt_map dec_op ops with
      | Some nas, Some ml, Some rl, Some ops =>
          SL (exec (init_db {| c_limit := limit; c_noasync := nas; c_maxlayers := ml;
                               c_relink := rl |}) ops)
      | _, _, _, _ => SErr 1
      end
  | _ => SErr 0
  end.
