(* Run/C15.v — case decoder / observable encoder for the C15 correspondence.

   BAL dump (one BlockAccessList, canonical text):
     ( (addr ((slot ((idx val) ...)) ...) (readslot ...) ((idx bal) ...) ((idx nonce) ...) ((idx x<code>) ...)) ... )

   case (0 db ops gaslimit txcount)     a block history on a StateDB
       db  as in Run/C13.v;  ops = ( op ... ) with
         (tag args..) tag 0..18 : the C13 calls (see Run/C13.v dec_op; 19 = OTxStart is not used)
         (20 th ti bai)                      SetTxContext(th, ti, blockAccessIndex)
         (21 rules sender coinbase (dst) al) Prepare
         (22 q a [k])                        a getter: q = 0 Exist 1 Empty 2 GetBalance 3 GetNonce 4 GetCode
                                             5 GetCodeHash 6 HasSelfDestructed 7 IsNewContract
                                             8 GetState a k   9 GetCommittedState a k
       output = ( o1 ... on  merged validate x<rlp> ) where per op
         C13 call      -> 0 none | 1 panic | id+2
         getter        -> its value
         Finalise      -> ( ret dump ) : ret = () for nil or ( baldump ) = ToEncodingObj of the returned
                          list; dump = all C13 getters on the finalised state (Run/C13.v dump_with)
       merged = baldump of all returned lists Merge()d in order; validate = Validate(gaslimit, txcount)
       class of it; x<rlp> = its EncodeRLP.
   case (1 bal gaslimit txcount)  ->  ( validate x<EncodeRLP> decode(EncodeRLP) )   decode: (0 baldump) | (1)
   case (2 x<bytes> gaslimit txcount) ->  decode(bytes) followed by validate when it decodes: (0 baldump validate) | (1) *)
From stdpp Require Import gmap.
From GV Require Import Lib.Sx Lib.Bytes Rlp.Item State.Ref State.Journal State.BalEnc State.Bal Run.C13.
Local Open Scope N_scope.

(* the harness's code id -> bytes convention (harness/c13 codeOf): c bytes 0xC0+c *)
Definition code_of (c : N) : list N := repeat (192 + c) (N.to_nat c).

(* ---- BAL dump ---- *)
Definition enc_pair (p : N * N) : sx := SL [sn (fst p); sn (snd p)].
Definition enc_account (e : account_access) : sx :=
  SL [ sn (aa_addr e);
       SL (map (λ sc, SL [sn (fst sc); SL (map enc_pair (snd sc))]) (aa_changes e));
       SL (map sn (aa_reads e));
       SL (map enc_pair (aa_bal e));
       SL (map enc_pair (aa_nonce e));
       SL (map (λ c, SL [sn (fst c); SB (snd c)]) (aa_code e)) ].
Definition enc_bal (b : bal) : sx := SL (map enc_account b).

Definition dec_pair (s : sx) : option (N * N) :=
  match s with SL [i; v] => match sx_N i, sx_N v with Some i, Some v => Some (i, v) | _, _ => None end
             | _ => None end.
Definition dec_changes (s : sx) : option (N * list (N * N)) :=
  match s with SL [k; ws] => match sx_N k, sx_list_of dec_pair ws with Some k, Some ws => Some (k, ws) | _, _ => None end
             | _ => None end.
Definition dec_code (s : sx) : option (N * list N) :=
  match s with SL [i; SB c] => match sx_N i with Some i => Some (i, c) | None => None end
             | _ => None end.
Definition dec_account (s : sx) : option account_access :=
  match s with
  | SL [a; ch; rd; bl; nn; cd] =>
      match sx_N a, sx_list_of dec_changes ch, sx_list_of sx_N rd, sx_list_of dec_pair bl,
            sx_list_of dec_pair nn, sx_list_of dec_code cd with
      | Some a, Some ch, Some rd, Some bl, Some nn, Some cd =>
          Some {| aa_addr := a; aa_changes := ch; aa_reads := rd; aa_bal := bl; aa_nonce := nn; aa_code := cd |}
      | _, _, _, _, _, _ => None
      end
  | _ => None
  end.

(* ---- ops ---- *)
Definition dec_query (q a : N) (k : option N) : option query :=
  match q, k with
  | 0, None => Some (QExist a) | 1, None => Some (QEmpty a) | 2, None => Some (QBalance a)
  | 3, None => Some (QNonce a) | 4, None => Some (QCode a) | 5, None => Some (QCodeHash a)
  | 6, None => Some (QSelfDestructed a) | 7, None => Some (QNewContract a)
  | 8, Some k => Some (QState a k) | 9, Some k => Some (QCommitted a k)
  | _, _ => None
  end.

Definition dec_bop (s : sx) : option bop :=
  match s with
  | SL [SI 20%Z; th; ti; bai] =>
      match sx_N th, sx_N ti, sx_N bai with
      | Some th, Some ti, Some bai => Some (BSetTx th ti bai) | _, _, _ => None end
  | SL [SI 21%Z; r; sender; coinbase; dst; al] =>
      match sx_N r, sx_N sender, sx_N coinbase, sx_list_of sx_N dst, sx_list_of dec_al_entry al with
      | Some r, Some sender, Some coinbase, Some dst, Some al =>
          Some (BPrepare (dec_rules r) sender coinbase (head dst) al)
      | _, _, _, _, _ => None
      end
  | SL [SI 22%Z; q; a] =>
      match sx_N q, sx_N a with Some q, Some a => BGet <$> dec_query q a None | _, _ => None end
  | SL [SI 22%Z; q; a; k] =>
      match sx_N q, sx_N a, sx_N k with Some q, Some a, Some k => BGet <$> dec_query q a (Some k) | _, _, _ => None end
  | SL (SI 19%Z :: _) => None
  | _ => BOp <$> dec_op s
  end.

Definition enc_ret (ret : option cbal) : sx :=
  match ret with None => SL [] | Some L => SL [enc_bal (to_encoding_obj code_of L)] end.

(* run, collecting the observables and the merged block list *)
Fixpoint run_obs (b : bstate) (acc : cbal) (ops : list bop) : list sx * cbal :=
  match ops with
  | [] => ([], acc)
  | o :: rest =>
      let '(b', w) := step_b b o in
      let '(x, acc') :=
        match w with
        | BOut w => (enc_out w, acc)
        | BAns a => (enc_answer a, acc)
        | BFin ret => (SL [enc_ret ret; dump_with (query_j (b_j b'))],
                       match ret with Some L => cbal_merge acc L | None => acc end)
        end in
      let '(l, accf) := run_obs b' acc' rest in
      ((if j_bad (b_j b') then SErr 99 else x) :: l, accf)
  end.

Definition enc_decode (r : result bal) (gl : option (N * N)) : sx :=
  match r with
  | Ok b => SL (SI 0%Z :: enc_bal b :: match gl with Some (g, t) => [sn (validate g t b)] | None => [] end)
  | Err _ => SL [SI 1%Z]
  end.

Definition C15_run (c : sx) : sx :=
  match c with
  | SL [SI 0%Z; db; ops; gl; tc] =>
      match sx_list_of dec_dbacct db, sx_list_of dec_bop ops, sx_N gl, sx_N tc with
      | Some db, Some ops, Some gl, Some tc =>
          let '(l, acc) := run_obs (init_b (list_to_map db)) ∅ ops in
          let e := to_encoding_obj code_of acc in
          SL (l ++ [enc_bal e; sn (validate gl tc e); SB (encode e)])
      | _, _, _, _ => SErr 0
      end
  | SL [SI 1%Z; b; gl; tc] =>
      match sx_list_of dec_account b, sx_N gl, sx_N tc with
      | Some b, Some gl, Some tc =>
          SL [sn (validate gl tc b); SB (encode b); enc_decode (decode (encode b)) None]
      | _, _, _ => SErr 1
      end
  | SL [SI 2%Z; SB bytes; gl; tc] =>
      match sx_N gl, sx_N tc with
      | Some gl, Some tc => enc_decode (decode bytes) (Some (gl, tc))
      | _, _ => SErr 2
      end
  | _ => SErr 3
  end.
