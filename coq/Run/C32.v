(* Run/C32.v — case decoder / observable encoder for the C32 correspondence.

   case  (fork env withdrawals pre txs)  |  (fork env withdrawals pre txs split)
     split (optional) = number of transactions in a first block (no withdrawals); the rest
           and the withdrawals form a second block in the same environment
     fork  0 = Cancun, 1 = Prague, 2 = Osaka
     env   (coinbase timestamp number prevrandao gaslimit chainid basefee blobbasefee)
     withdrawals ((addr amount_gwei) ...)
     pre   ((addr balance nonce x<code> ((key value) ...)) ...)
     tx    (type from nonce gas feecap tipcap to value x<data> ((addr (key ...)) ...) blobfeecap (hash ...))
           to: () | (addr)
   obs   (txs total_pre total_post withdrawals burnt destroyed accounts)
     txs       per transaction, in order: (0 class) rejected | (1 status gas_used) included
               class: 1 nonce too high, 2 nonce too low, 6 tip above fee cap, 7 fee cap below
               base fee, 14 block gas limit, 15 insufficient funds, 16 intrinsic gas,
               17 floor data gas, 18 insufficient funds for transfer, 99 any other
               status as in Run/C27.v: 0 ok, 1 revert, 2.. EVM error class, 100.. model fault
     total_pre / total_post   sum of all balances before / after (Ether.total_accts)
     withdrawals              wei minted (Ether.withdrawals_total)
     burnt                    Ether.loop_burnt: sum of gas used * base fee + blob fee
     destroyed                Ether.loop_destroyed: ether destroyed by SELFDESTRUCT / Finalise
     accounts                 ((addr balance nonce) ...) all accounts of the post-state, sorted
   The implementation side computes burnt from its receipts and destroyed as
   total_pre + withdrawals - burnt - total_post; the model computes them from their
   definitions, so the comparison checks the block_conservation equation on the
   implementation. *)
From GV Require Import Lib.Sx Lib.Bytes EVM.Word256 EVM.Memory EVM.Gas EVM.State EVM.Instr EVM.Step EVM.Interp EVM.Forks.
From GV Require Import EVM.Frames EVM.Tx EVM.Block EVM.BlockForks EVM.Ether.
Local Open Scope N_scope.

Definition err_code (e : evm_err) : Z :=
  match e with
  | E_OutOfGas => 2 | E_StackUnderflow => 3 | E_StackOverflow => 4 | E_InvalidJump => 5
  | E_InvalidOpcode => 6 | E_WriteProtection => 7 | E_ReturnDataOOB => 8 | E_Depth => 9
  | E_InsufficientBalance => 10 | E_Collision => 11 | E_MaxCodeSize => 12 | E_InvalidCode => 13
  | E_CodeStoreOutOfGas => 14 | E_NonceOverflow => 15 | E_Precompile => 16
  end%Z.
Definition status_code (s : status) : Z :=
  match s with
  | S_Ok => 0 | S_Revert => 1 | S_Halt e => err_code e
  | S_Fault F_OutOfFuel => 100 | S_Fault F_MemOOB => 101 | S_Fault F_StackShape => 102
  | S_Fault F_RefundUnderflow => 103
  end%Z.

Definition tx_err_code (e : tx_err) : Z :=
  match e with
  | TE_NonceTooHigh => 1 | TE_NonceTooLow => 2 | TE_TipAboveFeeCap => 6 | TE_FeeCapTooLow => 7
  | TE_GasLimitReached => 14 | TE_InsufficientFunds => 15 | TE_IntrinsicGas => 16
  | TE_FloorDataGas => 17 | TE_InsufficientFundsForTransfer => 18
  | _ => 99
  end%Z.

Definition dec_slot (s : sx) : option (N * N) :=
  match s with SL [SI k; SI v] => Some (Z.to_N k, Z.to_N v) | _ => None end.
Definition dec_account (s : sx) : option (N * account) :=
  match s with
  | SL [SI a; SI b; SI n; SB code; st] =>
      match sx_list_of dec_slot st with
      | Some slots =>
          Some (Z.to_N a, mk_account (Z.to_N b) (Z.to_N n) code
                  (fold_left (fun m kv => if snd kv =? 0 then m else nm_set m (fst kv) (snd kv)) slots []))
      | None => None
      end
  | _ => None
  end.
Definition dec_access (s : sx) : option (N * list N) :=
  match s with
  | SL [SI a; ks] => match sx_list_of sx_N ks with Some l => Some (Z.to_N a, l) | None => None end
  | _ => None
  end.
Definition dec_withdrawal (s : sx) : option (N * N) :=
  match s with SL [SI a; SI v] => Some (Z.to_N a, Z.to_N v) | _ => None end.

Definition dec_tx (s : sx) : option tx :=
  match s with
  | SL [SI ty; SI from; SI nonce; SI gas; SI feecap; SI tipcap; to; SI value; SB data; al;
        SI blobfeecap; bh] =>
      let to' := match to with
                 | SL [] => Some None
                 | SL [SI a] => Some (Some (Z.to_N a))
                 | _ => None
                 end in
      match to', sx_list_of dec_access al, sx_list_of sx_N bh with
      | Some t, Some al', Some bh' =>
          Some (mk_tx (Z.to_N ty) (Z.to_N from) (Z.to_N nonce) (Z.to_N gas) (Z.to_N feecap)
                      (Z.to_N tipcap) t (Z.to_N value) data al' (Z.to_N blobfeecap) bh' [])
      | _, _, _ => None
      end
  | _ => None
  end.

(* the outcome of each transaction, in order *)
Fixpoint run_txs (tf : tfork) (b : benv) (ls : loop_state) (txs : list tx) : list sx :=
  match txs with
  | [] => []
  | t :: r =>
      let ls' := step_tx tf b ls t in
      (if (length (ls_rejected ls) <? length (ls_rejected ls'))%nat
       then match ls_rejected ls' with
            | (_, e) :: _ => SL [SI 0; SI (tx_err_code e)]
            | [] => SErr 9
            end
       else match ls_receipts ls' with
            | (rc, _) :: _ =>
                (* the receipt only says failed / not failed; model faults stay visible *)
                let s := match rc_status rc with
                         | S_Ok => 0%Z | S_Fault k => status_code (S_Fault k) | _ => 1%Z
                         end in
                SL [SI 1; SI s; sn (rc_gas_used rc)]
            | [] => SErr 9
            end)
      :: run_txs tf b ls' r
  end.

(* one block, or two blocks: the first [split] transactions (no withdrawals), then the rest
   with the withdrawals, in the same block environment *)
Definition run_case (fk : Z) (b : benv) (ws : list (N * N)) (accounts : nmap account)
           (txl : list tx) (split : nat) : sx :=
  let tf := match fk with 1%Z => prague_tf | 2%Z => osaka_tf | _ => cancun_tf end in
  let txs1 := if (split <? length txl)%nat then firstn split txl else txl in
  let txs2 := if (split <? length txl)%nat then skipn split txl else [] in
  let two := (split <? length txl)%nat in
  let mid := if two then block_body tf b accounts txs1 [] else accounts in
  let post := if two then block_body tf b mid txs2 ws else block_body tf b accounts txs1 ws in
  SL [SL (run_txs tf b (init_loop accounts) txs1 ++ (if two then run_txs tf b (init_loop mid) txs2 else []));
      SI (total_accts accounts); SI (total_accts post); SI (withdrawals_total ws);
      SI (loop_burnt tf b (init_loop accounts) txs1 + (if two then loop_burnt tf b (init_loop mid) txs2 else 0))%Z;
      SI (loop_destroyed tf b (init_loop accounts) txs1
          + (if two then loop_destroyed tf b (init_loop mid) txs2 else 0))%Z;
      SL (map (fun x => SL [sn (fst x); sn (acc_balance (snd x)); sn (acc_nonce (snd x))]) post)].

Definition C32_run (c : sx) : sx :=
  match c with
  | SL [SI fk;
        SL [SI coinbase; SI time; SI number; SI randao; SI gaslimit; SI chainid; SI basefee;
            SI blobbasefee];
        wds; pre; txs; SI split] =>
      match sx_list_of dec_withdrawal wds, sx_list_of dec_account pre, sx_list_of dec_tx txs with
      | Some ws, Some accts, Some txl =>
          let accounts := fold_left (fun m x => nm_set m (fst x) (snd x)) accts [] in
          let b := mk_benv (Z.to_N coinbase) (Z.to_N time) (Z.to_N number) (Z.to_N randao)
                           (Z.to_N gaslimit) (Z.to_N chainid) (Z.to_N basefee) (Z.to_N blobbasefee) in
          run_case fk b ws accounts txl (Z.to_nat split)
      | _, _, _ => SErr 1
      end
  | SL [SI fk;
        SL [SI coinbase; SI time; SI number; SI randao; SI gaslimit; SI chainid; SI basefee;
            SI blobbasefee];
        wds; pre; txs] =>
      match sx_list_of dec_withdrawal wds, sx_list_of dec_account pre, sx_list_of dec_tx txs with
      | Some ws, Some accts, Some txl =>
          let accounts := fold_left (fun m x => nm_set m (fst x) (snd x)) accts [] in
          let tf := match fk with 1%Z => prague_tf | 2%Z => osaka_tf | _ => cancun_tf end in
          let b := mk_benv (Z.to_N coinbase) (Z.to_N time) (Z.to_N number) (Z.to_N randao)
                           (Z.to_N gaslimit) (Z.to_N chainid) (Z.to_N basefee) (Z.to_N blobbasefee) in
          let post := block_body tf b accounts txl ws in
          SL [SL (run_txs tf b (init_loop accounts) txl);
              SI (total_accts accounts); SI (total_accts post); SI (withdrawals_total ws);
              SI (loop_burnt tf b (init_loop accounts) txl);
              SI (loop_destroyed tf b (init_loop accounts) txl);
              SL (map (fun x => SL [sn (fst x); sn (acc_balance (snd x)); sn (acc_nonce (snd x))]) post)]
      | _, _, _ => SErr 1
      end
  | _ => SErr 0
  end.
