(* Run/C10.v — case decoder / observable encoder for the C10 correspondence.
   case  (0 x<bytes>)        -> (hexToCompact inPlace compactToHex keybytesToHex hexToKeybytes)
                                each as ( x<bytes> ) or () when the Go function panics
   case  (1 x<a> x<b>)       -> prefixLen a b *)
From GV Require Import Lib.Sx Trie.Hex.

Definition ob (o : option (list N)) : sx := sopt SB o.

Definition C10_run (c : sx) : sx :=
  match c with
  | SL [SI 0%Z; SB b] =>
      SL [ ob (hex_to_compact b); ob (hex_to_compact_in_place b);
           ob (Some (compact_to_hex b)); ob (Some (keybytes_to_hex b));
           ob (hex_to_keybytes b) ]
  | SL [SI 1%Z; SB a; SB b] => snat (prefix_len a b)
  | _ => SErr 0
  end.
