(* Run/C23.v — case decoder / observable encoder for the C23 correspondence.
   case  (mask x<p1> x<p2> (op ...))     mask = which backends the harness runs (ignored here)
   views 0 = the store, 1 = NewTable(store,p1), 2 = NewTable(store,p2),
         3 = NewTable(NewTable(store,p1),p2)  (= prefix p1++p2, see Storage/Table.v)
   ops   (0 v k x) Put  (1 v k) Delete  (2 v s e) DeleteRange  (3 v k) Has  (4 v k) Get
         (5 v) NewBatch  (6 b k x) b.Put  (7 b k) b.Delete  (8 b s e) b.DeleteRange
         (9 b) b.Write  (a b) b.Reset  (b b v) b.Replay(view v)
         (c v prefix start) NewIterator  (d i) it.Next()+Key()+Value()  (e) dump
         optional bytes s/e: () = nil, (x..) = non-nil
   obs   one item per op: () ok | 0/1 Has | () / (xv) Get | () / (xk xv) Next | (9) replay error
         | ((xk xv) ...) dump | (-1 1) bad handle
   The model run is memorydb ([mem_norm]) under the table wrapper. *)
From GV Require Import Lib.Sx Storage.KV Storage.Table Storage.MemDB Storage.World.

Definition dview (p1 p2 : key) (s : sx) : option view :=
  match s with
  | SI 0%Z => Some None
  | SI 1%Z => Some (Some p1)
  | SI 2%Z => Some (Some p2)
  | SI 3%Z => Some (Some (p1 ++ p2))
  | _ => None
  end.

Definition dopt (s : sx) : option (option key) :=
  match s with
  | SL [] => Some None
  | SL [SB b] => Some (Some b)
  | _ => None
  end.

Definition dop (p1 p2 : key) (s : sx) : option op :=
  match s with
  | SL [SI 0%Z; v; SB k; SB x] =>
      match dview p1 p2 v with Some v' => Some (OPut v' k x) | None => None end
  | SL [SI 1%Z; v; SB k] =>
      match dview p1 p2 v with Some v' => Some (ODelete v' k) | None => None end
  | SL [SI 2%Z; v; s'; e'] =>
      match dview p1 p2 v, dopt s', dopt e' with
      | Some v', Some a, Some b => Some (ODeleteRange v' a b) | _, _, _ => None end
  | SL [SI 3%Z; v; SB k] =>
      match dview p1 p2 v with Some v' => Some (OHas v' k) | None => None end
  | SL [SI 4%Z; v; SB k] =>
      match dview p1 p2 v with Some v' => Some (OGet v' k) | None => None end
  | SL [SI 5%Z; v] =>
      match dview p1 p2 v with Some v' => Some (ONewBatch v') | None => None end
  | SL [SI 6%Z; b; SB k; SB x] =>
      match sx_nat b with Some b' => Some (OBPut b' k x) | None => None end
  | SL [SI 7%Z; b; SB k] =>
      match sx_nat b with Some b' => Some (OBDelete b' k) | None => None end
  | SL [SI 8%Z; b; s'; e'] =>
      match sx_nat b, dopt s', dopt e' with
      | Some b', Some x, Some y => Some (OBDeleteRange b' x y) | _, _, _ => None end
  | SL [SI 9%Z; b] =>
      match sx_nat b with Some b' => Some (OBWrite b') | None => None end
  | SL [SI 10%Z; b] =>
      match sx_nat b with Some b' => Some (OBReset b') | None => None end
  | SL [SI 11%Z; b; v] =>
      match sx_nat b, dview p1 p2 v with
      | Some b', Some v' => Some (OBReplay b' v') | _, _ => None end
  | SL [SI 12%Z; v; SB p; SB s'] =>
      match dview p1 p2 v with Some v' => Some (ONewIter v' p s') | None => None end
  | SL [SI 13%Z; i] =>
      match sx_nat i with Some i' => Some (OIterNext i') | None => None end
  | SL [SI 14%Z] => Some ODump
  | _ => None
  end.

Definition eitem (kx : key * value) : sx := SL [SB (fst kx); SB (snd kx)].

Definition eout (u : out) : sx :=
  match u with
  | UOk => SL []
  | UBool b => sbool b
  | UVal o => sopt SB o
  | UItem None => SL []
  | UItem (Some kx) => eitem kx
  | UErr => SL [SI 9%Z]
  | UBadHandle => SErr 1
  | UDump m => SL (map eitem m)
  end.

Definition C23_run (c : sx) : sx :=
  match c with
  | SL [SI _; SB p1; SB p2; SL ops] =>
      match opt_map (dop p1 p2) ops with
      | Some h => SL (map eout (fst (run mem_norm h (init []))))
      | None => SErr 0
      end
  | _ => SErr 0
  end.
