(* Run/C45.v — case decoder / observable encoder for the C45 correspondence.

   case (0 x<b> v expect)     node record: rlp.DecodeBytes(b, &enr.Record) + enode.New.
        v = result of the real secp256k1 verification of the record's signature
        (the model treats verify abstractly; the harness computes the bit).
        -> (1 code)                                       decode error class
         | (0 class x<Record.encode of fields> x<EncodeRLP> seq (x<key>..) x<keccak(signed content)>)
           class = 0 accepted by enode.New, else error class
   case (1 x<localid> x<unmasked packet> x<priv>)   header layer: Decode on a fresh codec, masking
        removed (the harness masks the bytes for the real codec)
        -> decode observation (see ob_dres)
   case (2 (nodes) (msgs) (ops))   session layer: three codecs exchanging packets, model
        instantiated with an IDEAL cryptography of the same sizes (see below)
        node = (x<id> x<priv> seq x<record>)     msgs = x<kind byte ++ rlp(body)>
        ops:  (0 from to msg x<rnd8> x<rnd12> x<iv> x<junk>)   Encode message / random packet
              (1 pkt to fromaddr region off xor)                Decode packet #pkt at node to
              (2 from to pkt knows x<idnonce> x<iv>)            Encode WHOAREYOU answering #pkt
              (3 from to msg x<eph> x<rnd8> x<iv>)              Encode handshake with last challenge
              (4 node)                                          restart codec
        -> one observation per op *)
From GV Require Import Lib.Sx Lib.Bytes Keccak.Sponge Rlp.Item Rlp.Raw Rlp.Codec Rlp.Stream Net.Enr Net.V5wire.
Local Open Scope N_scope.

(* ================= records ================= *)

Definition C45_record (b : list N) (v : bool) : sx :=
  match Enr.decode b with
  | EErr e => SL [SI 1; sn (eerr_code e)]
  | EOk r =>
      let cls := match new_node keccak256 (fun _ _ _ => v) r with
                 | EOk _ => 0 | EErr e => eerr_code e end in
      SL [SI 0; sn cls; SB (Enr.encode r); SB (encode_rlp r); sn (r_seq r);
          SL (map SB (keys r)); SB (keccak256 (signed_content r))]
  end.

(* ================= ideal cryptography for the session layer =================
   Functional stand-ins with the byte sizes of the real primitives, so that all
   length-driven branches coincide: 16-byte AEAD tag, 64-byte signatures,
   33-byte public keys, 16-byte session keys.  They satisfy the hypotheses of
   the theorems (round trip, integrity) up to Keccak collisions. *)
Definition kx (l : list bytes) : bytes := keccak256 (concat l).

Definition i_ks (key iv : bytes) (i : nat) : N :=
  N.lxor (nth (Nat.modulo i 16) key 0) (fold_left N.add iv 0 mod 256).
Definition i_tag (k n pt ad : bytes) : bytes := firstn 16 (kx [k; n; pt; ad]).
Definition i_seal (k n pt ad : bytes) : bytes := pt ++ i_tag k n pt ad.
Definition i_open (k n ct ad : bytes) : option bytes :=
  if lenN ct <? 16 then None else
  let m := (length ct - 16)%nat in
  let pt := firstn m ct in
  if beq (skipn m ct) (i_tag k n pt ad) then Some pt else None.
Definition i_pub (priv : bytes) : bytes := 2 :: priv.
Definition i_sign (priv h : bytes) : bytes := let d := kx [priv; h] in d ++ kx [d].
Definition i_verify (pub h sig : bytes) : bool := beq sig (i_sign (tl pub) h).
Definition i_pub_valid (p : bytes) : bool := lenN p =? 33.
Fixpoint xor2 (a b : bytes) : bytes :=
  match a, b with x :: a', y :: b' => N.lxor x y :: xor2 a' b' | _, _ => [] end.
Definition i_ecdh (priv pub : bytes) : bytes := xor2 priv (tl pub).
Definition i_kdf (s salt info : bytes) : bytes * bytes :=
  let d := kx [s; salt; info] in (firstn 16 d, skipn 16 d).
Definition i_rec_seq (b : bytes) : option N :=
  match Enr.decode b with EOk r => Some (r_seq r) | EErr _ => None end.

Section Net.
  Variable table : list (bytes * node).            (* valid records -> their node *)
  Definition i_rec_node (b : bytes) : option node :=
    match find (fun e => beq (fst e) b) table with Some (_, n) => Some n | None => None end.

  Definition m_decode := V5wire.decode i_ks i_open keccak256 i_verify i_pub_valid i_ecdh i_kdf
                                       i_rec_seq i_rec_node (fun _ => true).
  Definition m_encode_message := V5wire.encode_message i_ks i_seal.
  Definition m_encode_handshake := V5wire.encode_handshake i_ks i_seal keccak256 i_pub i_sign i_ecdh i_kdf.
  Definition m_encode_whoareyou := V5wire.encode_whoareyou i_ks.
End Net.

Definition discv5 : bytes := [100; 105; 115; 99; 118; 53].

(* ---- observations ---- *)
Definition ob_dres (d : dres) : sx :=
  match d with
  | DErr src e => SL [SI 1; sn (v5err_code e); SB src]
  | DUnknown src _ => SL [SI 2; SB src]
  | DWhoareyou w => SL [SI 3; sn (w_seq w)]
  | DMsg src n pt => SL [SI 4; SB src; sbool (match n with Some _ => true | None => false end); SB pt]
  end.

(* the fuller observation of the header layer: nonces and challenge data are
   part of the input there *)
Definition ob_dres_full (d : dres) : sx :=
  match d with
  | DErr src e => SL [SI 1; sn (v5err_code e); SB src]
  | DUnknown src nonce => SL [SI 2; SB src; SB nonce]
  | DWhoareyou w => SL [SI 3; SB (w_nonce w); SB (w_idnonce w); sn (w_seq w); SB (w_cdata w)]
  | DMsg src n pt => SL [SI 4; SB src; SB pt]
  end.

Definition C45_header (localid input : bytes) : sx :=
  let c := mkCodec (mkNode localid [] 0 []) [] discv5 [] [] in
  let d := V5wire.decode (fun _ _ _ => 0) (fun _ _ _ _ => None) keccak256 (fun _ _ _ => false)
                         (fun _ => false) (fun _ _ => []) (fun _ _ _ => ([], []))
                         (fun _ => None) (fun _ => None) (fun _ => true) c input [] in
  ob_dres_full (snd d).

(* ---- session layer driver ---- *)
Record world : Type := mkWorld {
  w_codecs : list codec;
  w_pool : list (bytes * nat);                 (* packet, index of the node it was built for *)
  w_lastw : list (option challenge)            (* per node: last decoded WHOAREYOU *)
}.

Fixpoint set_nth {A} (i : nat) (x : A) (l : list A) : list A :=
  match l, i with
  | [], _ => []
  | _ :: t, O => x :: t
  | y :: t, S j => y :: set_nth j x t
  end.

Definition addr_of (i : nat) : bytes := [N.of_nat i].

Definition fresh (c : codec) : codec := mkCodec (c_node c) (c_priv c) (c_proto c) [] [].

(* header of a pool packet as its destination would parse it *)
Definition pkt_header (w : world) (p : bytes) (dest : nat) : option (sheader * bytes * bytes) :=
  match nth_error (w_codecs w) dest with
  | None => None
  | Some cd =>
      match V5wire.parse_packet i_ks (c_id cd) discv5 p with
      | inr (_, _, h, auth, msg) => Some (h, auth, msg)
      | inl _ => None
      end
  end.

Definition ob_sent (w : world) (p : bytes) (dest : nat) (extra : list sx) : sx :=
  match pkt_header w p dest with
  | Some (h, _, _) => SL ([sn (h_flag h); sn (h_authsize h); sn (lenN p)] ++ extra)
  | None => SL [SI (-2)]
  end.

Definition xor_at (i : nat) (v : N) (p : bytes) : bytes :=
  firstn i p ++ match skipn i p with x :: t => N.lxor x v :: t | [] => [] end.

(* tampering: region 0 none, 1 iv, 2 static header, 3 authdata, 4 message,
   5 truncate, 6 append *)
Definition tamper (w : world) (p : bytes) (dest : nat) (region off : nat) (v : N) : bytes :=
  match pkt_header w p dest with
  | None => p
  | Some (h, auth, msg) =>
      let asz := length auth in
      match region with
      | 1%nat => xor_at (Nat.modulo off 16) v p
      | 2%nat => xor_at (16 + Nat.modulo off 23) v p
      | 3%nat => match asz with O => p | _ => xor_at (39 + Nat.modulo off asz) v p end
      | 4%nat => match length msg with O => p | m => xor_at (39 + asz + Nat.modulo off m) v p end
      | 5%nat => firstn (length p - (Nat.modulo off 40 + 1)) p
      | 6%nat => p ++ repeat v (Nat.modulo off 8 + 1)
      | _ => p
      end
  end.

Definition sess_ob (c : codec) (peer : codec) (peeraddr : bytes) : list sx :=
  [ match lookup (c_id peer, peeraddr) (c_sessions c) with
    | Some s => SL [sn (s_ctr s)]
    | None => SL []
    end;
    sbool (match lookup (c_id peer, peeraddr) (c_handshakes c) with Some _ => true | None => false end) ].

(* ops that build a packet always append one pool entry; a dummy when they fail *)
Definition dummy (w : world) (t : nat) : world :=
  mkWorld (w_codecs w) (w_pool w ++ [([], t)]) (w_lastw w).

Section Step.
  Variable table : list (bytes * node).
  Variable msgs : list bytes.

  Definition step (w : world) (op : sx) : world * sx :=
    match op with
    | SL [SI 0%Z; f; t; m; SB rnd8; SB rnd12; SB iv; SB junk] =>
        match sx_nat f, sx_nat t, sx_nat m with
        | Some f, Some t, Some m =>
            match nth_error (w_codecs w) f, nth_error (w_codecs w) t, nth_error msgs m with
            | Some cf, Some ct, Some pt =>
                match m_encode_message cf (c_id ct) (addr_of t) rnd8 rnd12 iv pt junk with
                | Some (cf', p) =>
                    let w' := mkWorld (set_nth f cf' (w_codecs w)) (w_pool w ++ [(p, t)]) (w_lastw w) in
                    (w', ob_sent w' p t (sess_ob cf' ct (addr_of t)))
                | None => (w, SErr 1)
                end
            | _, _, _ => (w, SErr 2)
            end
        | _, _, _ => (w, SErr 3)
        end
    | SL [SI 1%Z; pk; t; fa; rg; off; xv] =>
        match sx_nat pk, sx_nat t, sx_nat fa, sx_nat rg, sx_nat off, sx_N xv with
        | Some pk, Some t, Some fa, Some rg, Some off, Some xv =>
            match nth_error (w_pool w) pk, nth_error (w_codecs w) t, nth_error (w_codecs w) fa with
            | Some (p, dest), Some ct, Some cfa =>
                let p' := tamper w p dest rg off xv in
                let (ct', d) := m_decode table ct p' (addr_of fa) in
                let lw := match d with
                          | DWhoareyou ch => set_nth t (Some ch) (w_lastw w)
                          | _ => w_lastw w
                          end in
                (mkWorld (set_nth t ct' (w_codecs w)) (w_pool w) lw,
                 SL (ob_dres d :: sess_ob ct' cfa (addr_of fa)))
            | None, _, _ => (w, SL [])
            | _, _, _ => (w, SErr 2)
            end
        | _, _, _, _, _, _ => (w, SErr 3)
        end
    | SL [SI 2%Z; f; t; pk; kn; SB idnonce; SB iv] =>
        match sx_nat f, sx_nat t, sx_nat pk, sx_nat kn with
        | Some f, Some t, Some pk, Some kn =>
            match nth_error (w_codecs w) f, nth_error (w_codecs w) t, nth_error (w_pool w) pk with
            | Some cf, Some ct, Some (p, dest) =>
                match pkt_header w p dest with
                | None => (dummy w t, SL [])
                | Some (h, _, _) =>
                    let tn := c_node ct in
                    let ch := match kn with
                              | O => mkChal (h_nonce h) idnonce 0 None []
                              | 1%nat => mkChal (h_nonce h) idnonce (n_seq tn) (Some tn) []
                              | _ => mkChal (h_nonce h) idnonce (n_seq tn - 1) (Some tn) []
                              end in
                    match m_encode_whoareyou cf (c_id ct) (addr_of t) ch iv with
                    | Some (cf', p2, _) =>
                        let w' := mkWorld (set_nth f cf' (w_codecs w)) (w_pool w ++ [(p2, t)]) (w_lastw w) in
                        (w', ob_sent w' p2 t (sess_ob cf' ct (addr_of t)))
                    | None => (w, SErr 1)
                    end
                end
            | Some _, Some _, None => (dummy w t, SL [])
            | _, _, _ => (w, SErr 2)
            end
        | _, _, _, _ => (w, SErr 3)
        end
    | SL [SI 3%Z; f; t; m; SB eph; SB rnd8; SB iv] =>
        match sx_nat f, sx_nat t, sx_nat m with
        | Some f, Some t, Some m =>
            match nth_error (w_codecs w) f, nth_error (w_codecs w) t, nth_error msgs m,
                  nth_error (w_lastw w) f with
            | Some cf, Some ct, Some pt, Some (Some ch) =>
                let ch' := mkChal (w_nonce ch) (w_idnonce ch) (w_seq ch) (Some (c_node ct)) (w_cdata ch) in
                match m_encode_handshake cf (c_id ct) (addr_of t) ch' eph rnd8 iv pt with
                | Some (cf', p) =>
                    let w' := mkWorld (set_nth f cf' (w_codecs w)) (w_pool w ++ [(p, t)]) (w_lastw w) in
                    (w', ob_sent w' p t (sess_ob cf' ct (addr_of t)))
                | None => (w, SErr 1)
                end
            | Some _, Some _, Some _, Some None => (dummy w t, SL [])
            | _, _, _, _ => (w, SErr 2)
            end
        | _, _, _ => (w, SErr 3)
        end
    | SL [SI 4%Z; n] =>
        match sx_nat n with
        | Some n =>
            match nth_error (w_codecs w) n with
            | Some c => (mkWorld (set_nth n (fresh c) (w_codecs w)) (w_pool w)
                                 (set_nth n None (w_lastw w)), SL [])
            | None => (w, SErr 2)
            end
        | None => (w, SErr 3)
        end
    | _ => (w, SErr 4)
    end.

  Fixpoint steps (w : world) (ops : list sx) : list sx :=
    match ops with
    | [] => []
    | op :: tl => let (w', o) := step w op in o :: steps w' tl
    end.
End Step.

Definition sx_node (s : sx) : option (node * bytes) :=
  match s with
  | SL [SB id; SB priv; sq; SB rec] =>
      match sx_N sq with
      | Some q => Some (mkNode id (i_pub priv) q rec, priv)
      | None => None
      end
  | _ => None
  end.

Definition C45_session (ns ms ops : list sx) : sx :=
  match opt_map sx_node ns, opt_map sx_bytes ms with
  | Some nodes, Some msgs =>
      let codecs := map (fun np => mkCodec (fst np) (snd np) discv5 [] []) nodes in
      let table := map (fun np => (n_rec (fst np), fst np)) nodes in
      SL (steps table msgs (mkWorld codecs [] (map (fun _ => None) nodes)) ops)
  | _, _ => SErr 5
  end.

Definition C45_run (c : sx) : sx :=
  match c with
  | SL [SI 0%Z; SB b; v; _] =>
      match sx_bool v with Some v => C45_record b v | None => SErr 0 end
  | SL [SI 1%Z; SB id; SB input; _] => C45_header id input
  | SL [SI 2%Z; SL ns; SL ms; SL ops] => C45_session ns ms ops
  | _ => SErr 0
  end.
