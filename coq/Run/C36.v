(* Run/C36.v — case decoder / observable encoder for the C36 correspondence.
   case    (scenario (record ...))   the scenario is for the Go side only; one record per round
   record  (0)                                    the real builder returned an error
           (2)                                    parent block built by Miner.BuildTestingPayload
                                                  from a given list (no pools): not modelled
           (1 cfg prio pend_plain pend_blob meta table blobhdr)
     cfg    (cancun amsterdam eip155 max_blobs gas_limit base_fee size0 protocol_max_blobs)
     blobhdr ((cancun_t prague_t osaka_t bpo1_t bpo2_t) (cancun prague bpo1 bpo2 blob configs)
             (parent_excess parent_blob_gas_used parent_base_fee) head_time)  optionals as () / (v),
             a blob config as (target max update_fraction)
     prio   (acct ...)
     pend   ((acct ((id nonce feecap tipcap time gas blobgas) ...)) ...)
     meta   ((id gas blobgas sidecar_blobs size size_noblob resolves protected isblob) ...)
     table  ((pos id class a b c) ...)   outcome of core.ApplyTransaction for tx [id] tried
            with [pos] transactions already included: class 0 ok (legacy: a = gas used,
            b = gas handed back to the pool; Amsterdam: a = execution gas, b = state gas,
            c = receipt gas), 1 nonce too low, 2 nonce too high, 3 gas limit reached,
            4 tx type not supported, 5 other (before the pool is consulted), 6 other (after)
   result  (1 (round ...)),  round = (0) | (1 wf (included ids) gas_used blob_gas_used (excess_blob_gas)
                                            ((reverted id pos) ...))
           wf = every recorded charge satisfies the well-formedness hypotheses of the
           theorems.  (-1 code) when the record does not decode, the table has no row
           for an attempt the model makes (7), or the model importer [validate] rejects
           the block the model builder assembled (11). *)
From GV Require Import Lib.Sx Gas.GoArith Gas.Pool_gen Pool.Ordering EVM.Build.
From GV Require Gas.FeesImpl.
Local Open Scope N_scope.

Definition dec_tx (s : sx) : option tx :=
  match s with
  | SL [i; n; f; t; SI tm; _; _] =>
      match sx_N i, sx_N n, sx_N f, sx_N t with
      | Some i', Some n', Some f', Some t' => Some (mkTx i' n' f' t' tm)
      | _, _, _, _ => None
      end
  | _ => None
  end.

Definition dec_acc (s : sx) : option (N * list tx) :=
  match s with
  | SL [a; l] =>
      match sx_N a, sx_list_of dec_tx l with
      | Some a', Some l' => Some (a', l')
      | _, _ => None
      end
  | _ => None
  end.

Definition dec_meta (s : sx) : option (N * txmeta) :=
  match s with
  | SL [i; g; bg; nb; sz; szn; rs; pr; ib] =>
      match sx_N i, sx_N g, sx_N bg, sx_N nb, sx_N sz, sx_N szn, sx_bool rs, sx_bool pr, sx_bool ib with
      | Some i', Some g', Some bg', Some nb', Some sz', Some szn', Some rs', Some pr', Some ib' =>
          Some (i', mkMeta g' bg' (if ib' then Some nb' else None) sz' szn' rs' pr' ib')
      | _, _, _, _, _, _, _, _, _ => None
      end
  | _ => None
  end.

Record row := mkRow { r_pos : N; r_id : N; r_class : N; r_a : Z; r_b : Z; r_c : Z }.

Definition dec_row (s : sx) : option row :=
  match s with
  | SL [p; i; c; SI a; SI b; SI d] =>
      match sx_N p, sx_N i, sx_N c with
      | Some p', Some i', Some c' => Some (mkRow p' i' c' a b d)
      | _, _, _ => None
      end
  | _ => None
  end.

Fixpoint find_row (tab : list row) (pos id : N) : option row :=
  match tab with
  | [] => None
  | r :: rest => if (r_pos r =? pos) && (r_id r =? id) then Some r else find_row rest pos id
  end.

Fixpoint find_meta (ms : list (N * txmeta)) (id : N) : txmeta :=
  match ms with
  | [] => mkMeta 0 0 None 0 0 false false false    (* unknown tx: cannot be resolved *)
  | (i, m) :: rest => if i =? id then m else find_meta rest id
  end.

(* the abstract world of the table-driven run: the ids included so far, and whether
   the table lacked a row for an attempt *)
Definition W : Type := (list N * bool)%type.

Section Table.
  Variable ams : bool.
  Variable tab : list row.

  Definition t_pre (w : W) (t : tx) : pre_res :=
    match find_row tab (N.of_nat (length (fst w))) (tx_id t) with
    | None => PreOk
    | Some r =>
        match r_class r with
        | 1 => PreNonceTooLow | 2 => PreNonceTooHigh | 4 => PreTxTypeNotSupported | 5 => PreOther
        | _ => PreOk
        end
    end.

  Definition t_exec (w : W) (t : tx) : exec_res W N :=
    match find_row tab (N.of_nat (length (fst w))) (tx_id t) with
    | None => ExecOk W N (mkCharge 0 0 0 0) (fst w ++ [tx_id t], true) (tx_id t)
    | Some r =>
        match r_class r with
        | 0 =>
            let c := if ams then mkCharge 0 (r_c r) (r_a r) (r_b r)
                     else mkCharge (r_b r) (r_a r) 0 0 in
            ExecOk W N c (fst w ++ [tx_id t], snd w) (tx_id t)
        | 3 => (* the pool check was expected to refuse: reaching exec is a table defect *)
            ExecOk W N (mkCharge 0 0 0 0) (fst w ++ [tx_id t], true) (tx_id t)
        | _ => ExecErr W N
        end
    end.
End Table.

(* the well-formedness of a recorded charge (the hypotheses [exec_wf] of the theorems) *)
Definition row_wf (ams : bool) (ms : list (N * txmeta)) (r : row) : bool :=
  if negb (r_class r =? 0) then true
  else
    let gas := Z.of_N (m_gas (find_meta ms (r_id r))) in
    if ams then
      ((0 <=? r_a r) && (r_a r <=? Z.min gas MaxTxGas) && (0 <=? r_b r) && (r_b r <=? gas) &&
       (0 <=? r_c r) && (r_c r <=? r_a r + r_b r))%Z
    else ((0 <=? r_a r) && (0 <=? r_b r) && (r_a r + r_b r =? gas))%Z.

Definition list_eqb (a b : list N) : bool :=
  (length a =? length b)%nat && forallb (fun p => fst p =? snd p) (combine a b).

Definition enc_rev (p : tx * N) : sx := SL [sn (tx_id (fst p)); sn (snd p)].

Definition dec_optZ (s : sx) : option (option Z) :=
  match s with SL [] => Some None | SL [SI z] => Some (Some z) | _ => None end.

Definition dec_bc (s : sx) : option (option FeesImpl.blob_config) :=
  match s with
  | SL [] => Some None
  | SL [SL [SI t; SI m; SI f]] => Some (Some (FeesImpl.Build_blob_config t m f))
  | _ => None
  end.

(* the fork / blob schedule, the parent's blob fields and the new block's time *)
Definition dec_blobhdr (s : sx) : option (FeesImpl.chain_config * FeesImpl.header * Z) :=
  match s with
  | SL [SL [tc; tp; to; t1; t2]; SL [bc; bp; b1; b2]; SL [pe; pu; pb]; SI ht] =>
      match dec_optZ tc, dec_optZ tp, dec_optZ to, dec_optZ t1, dec_optZ t2,
            dec_bc bc, dec_bc bp, dec_bc b1, dec_bc b2, dec_optZ pe, dec_optZ pu, dec_optZ pb with
      | Some tc', Some tp', Some to', Some t1', Some t2',
        Some bc', Some bp', Some b1', Some b2', Some pe', Some pu', Some pb' =>
          Some (FeesImpl.Build_chain_config (Some 0%Z) tc' tp' to' t1' t2' None None None
                  (Some (FeesImpl.Build_blob_schedule bc' bp' b1' b2' None None None)),
                FeesImpl.Build_header 0 0 0 0 pb' pe' pu', ht)
      | _, _, _, _, _, _, _, _, _, _, _, _ => None
      end
  | _ => None
  end.

Definition run_round (rec : sx) : sx :=
  match rec with
  | SL [SI 0%Z] => SL [SI 0%Z]
  | SL [SI 2%Z] => SL [SI 2%Z]     (* a block built by BuildTestingPayload: not modelled *)
  | SL [SI 1%Z; SL [cc; ca; ce; SI mb; SI gl; bf; sz; SI pm]; prio; pp; pb; ms; tb; bh] =>
      match sx_bool cc, sx_bool ca, sx_bool ce, sx_N bf, sx_N sz,
            sx_list_of sx_N prio, sx_list_of dec_acc pp, sx_list_of dec_acc pb,
            sx_list_of dec_meta ms, sx_list_of dec_row tb, dec_blobhdr bh with
      | Some cc', Some ca', Some ce', Some bf', Some sz',
        Some prio', Some pp', Some pb', Some ms', Some tb', Some (ccfg, phdr, ht) =>
          let cfg := mkCfg cc' ca' ce' mb gl (Some bf') in
          let meta := fun t => find_meta ms' (tx_id t) in
          let lhash : W -> list N := fun w => fst w in
          match generate_work W N (list N) N meta (t_pre tb') (t_exec ca' tb') cfg
                  (fun w => w) (fun w rs => Some (w, 0)) (fun w => w)
                  lhash lhash (fun rs => rs) (fun rs => rs) (fun q => [q])
                  ccfg phdr true ht
                  [] [] prio' ([], false) sz' pp' pb' with
          | GwBlock _ _ _ b env _ _ =>
              if snd (e_state _ _ env) then SErr 7
              else if negb (validate W N (list N) N meta (t_pre tb') (t_exec ca' tb') cfg
                             (fun w => w) (fun w rs => Some (w, 0)) (fun w => w)
                             lhash lhash (fun rs => rs) (fun rs => rs) (fun q => [q])
                             list_eqb ccfg phdr (Z.to_N pm) ([], false) b)
              then SErr 11      (* the model importer rejects the model builder's block *)
              else
                SL [SI 1; sbool (forallb (row_wf ca' ms') tb');
                    SL (map (fun t => sn (tx_id t)) (e_txs _ _ env));
                    SI (e_gasused _ _ env); sn (e_blobgasused _ _ env);
                    match h_excessblobgas _ (b_header _ b) with Some e => SL [SI e] | None => SL [] end;
                    SL (map enc_rev (e_reverted _ _ env))]
          | GwPostExecError _ _ _ => SErr 8
          | GwPanic _ _ _ => SErr 9
          | GwOutOfFuel _ _ _ => SErr 10
          end
      | _, _, _, _, _, _, _, _, _, _, _ => SErr 2
      end
  | _ => SErr 1
  end.

Definition C36_run (c : sx) : sx :=
  match c with
  | SL [_; SL recs] => SL [SI 1; SL (map run_round recs)]
  | _ => SErr 1
  end.
