(* Run/C11.v — case decoder / observable encoder for the C11 correspondence.
   case = ( scheme x<expected root> ((x<account hash> x<slim rlp>)..) ((x<account hash> x<slot hash> x<value>)..) )
     scheme 0 = hash scheme, 1 = path scheme; the two lists are what the harness wrote with
     rawdb.WriteAccountSnapshot / WriteStorageSnapshot into an empty memory database (any order).
   observation =
     ( (0 scanned updated deleted) accounts storage nodes )    GenerateTrie returned nil
     ( (6) accounts storage nodes )                             "state root mismatch" (everything was written)
     ( (class) )                                                any other error (database contents are schedule
                                                                dependent then): 1 decode account, 2 storage stack
                                                                trie update, 3 account stack trie update, 4 panic,
                                                                5 mount partition
     accounts / storage / nodes = sorted dumps ((x<key without prefix byte> x<value>)..) of the "a" and "o"
     snapshot key spaces and ((x<rawdb key> x<blob>)..) of the trie-node key space afterwards. *)
From GV Require Import Lib.Sx Keccak.Sponge Trie.Node Trie.Commit Trie.Generate.

Definition kv2 (s : sx) : option (list N * list N) :=
  match s with SL [SB k; SB v] => Some (k, v) | _ => None end.
Definition kv3 (s : sx) : option (list N * list N) :=
  match s with SL [SB a; SB k; SB v] => Some (a ++ k, v) | _ => None end.

Definition dump_sx (m : amap (list N)) : sx :=
  SL (map (fun kv => SL [SB (fst kv); SB (snd kv)]) m).

Definition gerr_code (e : gerr) : Z :=
  match e with
  | GDecode => 1 | GStorUpdate _ => 2 | GAcctUpdate _ => 3 | GPanic _ => 4 | GMount _ => 5 | GMismatch => 6
  end%Z.

Definition build (l : list (list N * list N)) : amap (list N) :=
  fold_left (fun m kv => am_put (fst kv) (snd kv) m) l [].

Definition C11_run (c : sx) : sx :=
  match c with
  | SL [SI sc; SB expected; SL accs; SL stor] =>
      match opt_map kv2 accs, opt_map kv3 stor with
      | Some la, Some ls =>
          let scheme := if (sc =? 0)%Z then HashScheme else PathScheme in
          let db := mkDb (build la) (build ls) [] in
          match generate keccak256 scheme expected db with
          | (GOk st, db') =>
              SL [SL [SI 0%Z; sn (s_scanned st); sn (s_updated st); sn (s_deleted st)];
                  dump_sx (g_accts db'); dump_sx (g_stor db'); dump_sx (g_nodes db')]
          | (GErr GMismatch, db') =>
              SL [SL [SI 6%Z]; dump_sx (g_accts db'); dump_sx (g_stor db'); dump_sx (g_nodes db')]
          | (GErr e, _) => SL [SL [SI (gerr_code e)]]
          end
      | _, _ => SErr 1
      end
  | _ => SErr 0
  end.
