(* Run/C48.v — case decoder / observable encoder for the C48 correspondence.
   case   ( view reqs spec )          [spec] is the Go-side recipe of the state; ignored here
   view   ( root accounts codes acctable )
          accounts = ( ( hash x<slim body> ( (slothash x<value>) ... ) table ) ... )
          codes    = ( (codehash len) ... )
          table    = ( (x<hexpath> nodehash len) | (x<hexpath>) ... )   stored | embedded/value node
   req    (0 root origin limit bytes)                        GetAccountRange   (root 1 = the head root)
          (1 root (acchash ...) x<origin> x<limit> bytes)    GetStorageRanges
          (2 (codehash ...) bytes)                           GetByteCodes
          (3 root pathsets bytes)                            GetTrieNodes; pathsets is an RLP tree:
                                                             x<..> = string, ( .. ) = list
   obs    one entry per request:
          0: ( ((hash x<body>) ...) proofnodes>0 )
          1: ( ( ((hash x<value>) ...) ... ) proofnodes>0 )
          2: ( codehash ... )
          3: ( ( () | (nodehash) ... ) err ) *)
From GV Require Import Lib.Sx Lib.Bytes Net.SnapServe.
Local Open Scope N_scope.

Definition dec_item (s : sx) : option item :=
  match s with SL [SI k; SB v] => Some (Z.to_N k, v) | _ => None end.

Definition dec_node (s : sx) : option (list N * nkind) :=
  match s with
  | SL [SB p; SI h; SI len] => Some (p, KStored (Z.to_N h) (Z.to_N len))
  | SL [SB p] => Some (p, KInline)
  | _ => None
  end.

Definition dec_account (s : sx) : option (account * ntable) :=
  match s with
  | SL [SI h; SB body; slots; tbl] =>
      match sx_list_of dec_item slots, sx_list_of dec_node tbl with
      | Some sl, Some t => Some ({| a_hash := Z.to_N h; a_body := body; a_slots := sl |}, t)
      | _, _ => None
      end
  | _ => None
  end.

Definition dec_code (s : sx) : option (N * N) :=
  match s with SL [SI h; SI len] => Some (Z.to_N h, Z.to_N len) | _ => None end.

Fixpoint dec_ritem (s : sx) : ritem :=
  match s with
  | SB b => RStr b
  | SI _ => RStr []
  | SL l => RList (map dec_ritem l)
  end.

Definition enc_item (it : item) : sx := SL [sn (fst it); SB (snd it)].
Definition enc_blob (b : blob) : sx :=
  match b with Some (h, _) => SL [sn h] | None => SL [] end.

(* root field: 1 stands for "the head root" *)
Definition sel_root (st : state) (r : Z) : N :=
  if (r =? 1)%Z then s_root st else Z.to_N r.

Definition run_req (st : state) (env : tn_env (list (list N))) (r : sx) : sx :=
  match r with
  | SL [SI 0%Z; SI root; SI origin; SI limit; SI bytes] =>
      let '(items, pk) :=
        serve_account_range st (sel_root st root) (Z.to_N origin) (Z.to_N limit) (Z.to_N bytes) in
      SL [SL (map enc_item items); sbool (nonempty pk && nonempty (s_accounts st))]
  | SL [SI 1%Z; SI root; accs; SB origin; SB limit; SI bytes] =>
      match sx_list_of sx_N accs with
      | Some al =>
          let '(slots, pr) :=
            serve_storage_ranges st (sel_root st root) al origin limit (Z.to_N bytes) in
          SL [SL (map (fun l => SL (map enc_item l)) slots);
              sbool (match pr with
                     | Some (a, _) => nonempty (storage_items st a)
                     | None => false
                     end)]
      | None => SErr 2
      end
  | SL [SI 2%Z; hs; SI bytes] =>
      match sx_list_of sx_N hs with
      | Some hl => SL (map (fun e => sn (fst e)) (serve_byte_codes st hl (Z.to_N bytes)))
      | None => SErr 3
      end
  | SL [SI 3%Z; SI root; SL sets; SI bytes] =>
      let '(nodes, err) :=
        serve_trie_nodes env (classify_root st (sel_root st root)) (map dec_ritem sets) (Z.to_N bytes) in
      SL [SL (map enc_blob nodes); sbool err]
  | _ => SErr 1
  end.

Definition C48_run (c : sx) : sx :=
  match c with
  | SL (SL [SI root; accs; codes; acct] :: SL reqs :: _) =>
      match sx_list_of dec_account accs, sx_list_of dec_code codes, sx_list_of dec_node acct with
      | Some al, Some cl, Some at_ =>
          let st := {| s_root := Z.to_N root; s_accounts := map fst al; s_codes := cl |} in
          let env := table_env at_ (map (fun e => (a_hash (fst e), snd e)) al) in
          SL (map (run_req st env) reqs)
      | _, _, _ => SErr 4
      end
  | _ => SErr 0
  end.
