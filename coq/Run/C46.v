(* Run/C46.v — case decoder / observable encoder for the C46 correspondence.
   case   (self op ...)
   op     (0)                                           close(initDone)
          (1 id x<ip> udp seq tok inbound forceLive)    handleAddNode
          (2 id rnd)                                    deleteNode
          (3 tok idhint responded (|id x<ip> udp seq) rnd)   revalidation.handleResponse
          (4 id success prior ((id x<ip> udp seq tok) ...) rnd)   handleTrackRequest
          (5 target n preferLive)                       findnodeByID
   x<ip> is the raw address of the record: 0, 4 or 16 bytes.
   result ((per-op result ...) full-dump)
   per-op (ret (touched bucket dumps ...) table-ips) ; findnode: (ids ...) ; panic: dead
   bucket (index (node ...) (replacement ...) ((key count) ... sorted))
   node   (id ipkind ipval udp seq tok rl checks live) *)
From GV Require Import Lib.Sx Net.Table.
Local Open Scope N_scope.

Definition be_num (b : list N) : N := fold_left (fun acc x => acc * 256 + x) b 0.

Definition dec_ip (s : sx) : option ip :=
  match s with
  | SB b => match length b with
            | O => Some IPnone
            | 4%nat => Some (IP4 (be_num b))
            | 16%nat => Some (IP6 (be_num b))
            | _ => None
            end
  | _ => None
  end.

Definition id_ok (n : N) : bool := n <? 2 ^ 256.

Definition dec_rec (id ipx udp seq : sx) : option rec :=
  match sx_N id, dec_ip ipx, sx_N udp, sx_N seq with
  | Some i, Some a, Some u, Some s =>
      if id_ok i then Some (mkRec i (enode_ip a) u s) else None
  | _, _, _, _ => None
  end.

Definition dec_found (s : sx) : option (rec * N) :=
  match s with
  | SL [id; ipx; udp; seq; tok] =>
      match dec_rec id ipx udp seq, sx_N tok with
      | Some r, Some k => Some (r, k)
      | _, _ => None
      end
  | _ => None
  end.

Inductive cmd := CStep (o : op) (touch : list N) | CFind (target : N) (n : nat) (pl : bool).

Definition dec_args (tag : N) (args : list sx) : option cmd :=
  if tag =? 0 then
    match args with [] => Some (CStep OInitDone []) | _ => None end
  else if tag =? 1 then
    match args with
    | [id; ipx; udp; seq; tok; inb; fl] =>
        match dec_rec id ipx udp seq, sx_N tok, sx_bool inb, sx_bool fl with
        | Some r, Some k, Some i, Some f => Some (CStep (OAdd r k i f) [r_id r])
        | _, _, _, _ => None
        end
    | _ => None
    end
  else if tag =? 2 then
    match args with
    | [id; rnd] =>
        match sx_N id, sx_N rnd with
        | Some i, Some r => if id_ok i then Some (CStep (ODelete i r) [i]) else None
        | _, _ => None
        end
    | _ => None
    end
  else if tag =? 3 then
    match args with
    | [tok; hint; resp; nrs; rnd] =>
        match sx_N tok, sx_N hint, sx_bool resp, sx_list nrs, sx_N rnd with
        | Some k, Some h, Some rs, Some nr, Some r =>
            if id_ok h then
              match nr with
              | [] => Some (CStep (OReval k rs None r) [h])
              | [id; ipx; udp; seq] =>
                  match dec_rec id ipx udp seq with
                  | Some x => Some (CStep (OReval k rs (Some x) r) [h])
                  | None => None
                  end
              | _ => None
              end
            else None
        | _, _, _, _, _ => None
        end
    | _ => None
    end
  else if tag =? 4 then
    match args with
    | [id; succ; prior; founds; rnd] =>
        match sx_N id, sx_bool succ, sx_N prior, sx_list_of dec_found founds, sx_N rnd with
        | Some i, Some sc, Some p, Some f, Some r =>
            if id_ok i then Some (CStep (OTrack i sc p f r) (i :: map (fun x => r_id (fst x)) f)) else None
        | _, _, _, _, _ => None
        end
    | _ => None
    end
  else if tag =? 5 then
    match args with
    | [target; n; pl] =>
        match sx_N target, sx_nat n, sx_bool pl with
        | Some tg, Some k, Some p => if id_ok tg && (N.of_nat k <? 1000) then Some (CFind tg k p) else None
        | _, _, _ => None
        end
    | _ => None
    end
  else None.

Definition dec_cmd (s : sx) : option cmd :=
  match s with
  | SL (t :: args) => match sx_N t with Some tag => dec_args tag args | None => None end
  | _ => None
  end.

Definition enc_ip (a : ip) : list sx :=
  match a with
  | IPnone => [SI 0%Z; SI 0%Z]
  | IP4 x => [SI 4%Z; sn x]
  | IP6 x => [SI 6%Z; sn x]
  end.

Definition enc_node (n : tnode) : sx :=
  SL ([sn (n_id n)] ++ enc_ip (n_ip n) ++
      [sn (r_udp (n_rec n)); sn (r_seq (n_rec n)); sn (n_tok n); sn (n_rl n); sn (n_checks n);
       sbool (n_live n)]).

Fixpoint ns_insert (p : N * N) (l : netset) : netset :=
  match l with
  | [] => [p]
  | q :: r => if fst p <=? fst q then p :: l else q :: ns_insert p r
  end.
Definition ns_sort (m : netset) : netset := fold_right ns_insert [] m.
Definition enc_ns (m : netset) : sx :=
  SL (map (fun p => SL [sn (fst p); sn (snd p)]) (ns_sort m)).

Definition enc_bucket (i : nat) (b : bucket) : sx :=
  SL [snat i; SL (map enc_node (entries b)); SL (map enc_node (repl b)); enc_ns (bips b)].

Definition enc_touched (t : table) (ids : list N) : sx :=
  SL (map (fun id => let i := bucket_of t id in
                     match nth_error (buckets t) i with
                     | Some b => enc_bucket i b
                     | None => SL [snat i]
                     end) ids).

Fixpoint enc_buckets (i : nat) (l : list bucket) : list sx :=
  match l with [] => [] | b :: r => enc_bucket i b :: enc_buckets (S i) r end.

Definition enc_table (t : table) : sx :=
  SL [SL (enc_buckets O (buckets t)); enc_ns (tips t); sbool (init_done t)].

Definition dead : sx := SI 57005%Z.

(* return value of the operation, computed by re-running the model function *)
Definition enc_ret (t : table) (o : op) : sx :=
  match o with
  | OAdd r tok inb fl =>
      match handle_add_node t r tok inb fl with Some (_, ok) => sbool ok | None => dead end
  | ODelete id rnd =>
      match delete_node_op t id rnd with
      | Some (_, Some rp) => SL [sn (n_id rp)]
      | Some (_, None) => SL []
      | None => dead
      end
  | _ => SL []
  end.

Fixpoint go (t : table) (cs : list sx) (acc : list sx) : list sx * option table :=
  match cs with
  | [] => (rev acc, Some t)
  | c :: rest =>
      match dec_cmd c with
      | None => (rev (SErr 1 :: acc), None)
      | Some (CFind tg n pl) =>
          go t rest (SL (map (fun r => sn (r_id r)) (findnode t tg n pl)) :: acc)
      | Some (CStep o touch) =>
          match step t o with
          | None => (rev (dead :: acc), None)
          | Some t' => go t' rest (SL [enc_ret t o; enc_touched t' touch; enc_ns (tips t')] :: acc)
          end
      end
  end.

Definition C46_run (c : sx) : sx :=
  match c with
  | SL (s :: cs) =>
      match sx_N s with
      | Some sid =>
          if id_ok sid then
            let '(res, fin) := go (new_table sid) cs [] in
            SL [SL res; match fin with Some t => enc_table t | None => SL [] end]
          else SErr 2
      | None => SErr 0
      end
  | _ => SErr 0
  end.
