(* Run/C05.v — case decoder / observable encoder for the C05 correspondence.
   Results:  (0 x<bytes>) success with output bytes, (1 class) rejected with error class,
             (0) / (0 n) success without modelled output.
   case (0 x<input>)                      blake2F precompile (contracts.go blake2F.Run)
        -> (0 x<64 bytes>) | (1 1) bad length | (1 2) bad final flag
   case (1 (h0..h7) (m0..m15) c0 c1 flag rounds)   fGeneric / f directly (raw flag word, uint64 rounds)
        -> (0 (h0'..h7'))
   case (2 x<input>)                      bn256Add precompile
   case (3 x<input>)                      bn256ScalarMul precompile
        -> (0 x<64 bytes>) | (1 class)    class: 1 size, 2 coordinate >= p, 3 not on curve, 9 internal
   case (4 x<input>)                      bn256Pairing precompile, decoding phase only
        -> (0) every modelled check passed | (1 class)
   case (5 x<buf>)                        G1.Unmarshal then Marshal
        -> (0 x<64 bytes>) | (1 class)
   case (6 x<buf>)                        G2.Unmarshal, modelled checks only
        -> (0 0) infinity | (0 1) on the twist (subgroup check not modelled) | (1 class)
   case (7 x<commitment> x<z> x<y> x<proof>)      kzg VerifyProof: syntactic class
   case (8 x<blob> x<commitment> x<proof>)        kzg VerifyBlobProof: syntactic class
   case (9 x<blob>)                               kzg BlobToCommitment: syntactic class
   case (10 x<blob> x<z>)                         kzg ComputeProof: syntactic class
        -> (k)  k = first failing syntactic check, 0 = none (see Crypto/KzgInput.v)
   case (11 x<input>)                     bn256ScalarMul precompile, decoding decision only
        -> (0) | (1 class)                (full-size scalars: result bytes are compared
                                           between the backends only) *)
From GV Require Import Lib.Sx Crypto.Blake2b Crypto.Bn254 Crypto.KzgInput.

Definition err_code (e : dec_err) : Z :=
  match e with ESize => 1 | ECoord => 2 | ECurve => 3 | EInternal => 9 end%Z.

Definition ob_res (r : res (list N)) : sx :=
  match r with
  | Ok b => SL [SI 0%Z; SB b]
  | Err e => SL [SI 1%Z; SI (err_code e)]
  end.

Definition blob_fe : nat := 4096.

Definition C05_run (c : sx) : sx :=
  match c with
  | SL [SI 0%Z; SB input] =>
      match blake2f_run input with
      | FOk out => SL [SI 0%Z; SB out]
      | FErr ErrLength => SL [SI 1%Z; SI 1%Z]
      | FErr ErrFinalFlag => SL [SI 1%Z; SI 2%Z]
      | FErr ErrInternal => SErr 9
      end
  | SL [SI 1%Z; h; m; c0; c1; flag; rounds] =>
      match sx_list_of sx_N h, sx_list_of sx_N m, sx_N c0, sx_N c1, sx_N flag, sx_N rounds with
      | Some h, Some m, Some c0, Some c1, Some flag, Some rounds =>
          match f_generic h m c0 c1 flag rounds with
          | Some h' => SL [SI 0%Z; SL (map sn h')]
          | None => SErr 2
          end
      | _, _, _, _, _, _ => SErr 1
      end
  | SL [SI 2%Z; SB input] => ob_res (bn_add_run input)
  | SL [SI 3%Z; SB input] => ob_res (bn_mul_run input)
  | SL [SI 4%Z; SB input] =>
      match bn_pairing_decode input with
      | None => SL [SI 0%Z]
      | Some e => SL [SI 1%Z; SI (err_code e)]
      end
  | SL [SI 5%Z; SB buf] =>
      match g1_decode buf with
      | Ok p => SL [SI 0%Z; SB (g1_encode p)]
      | Err e => SL [SI 1%Z; SI (err_code e)]
      end
  | SL [SI 6%Z; SB buf] =>
      match g2_decode_checks buf with
      | G2Err e => SL [SI 1%Z; SI (err_code e)]
      | G2Inf => SL [SI 0%Z; SI 0%Z]
      | G2OnTwist _ _ => SL [SI 0%Z; SI 1%Z]
      end
  | SL [SI 7%Z; SB cm; SB z; SB y; SB pr] => SL [sn (verify_proof_class cm z y pr)]
  | SL [SI 8%Z; SB blob; SB cm; SB pr] => SL [sn (verify_blob_class blob_fe blob cm pr)]
  | SL [SI 9%Z; SB blob] => SL [sn (blob_class blob_fe blob)]
  | SL [SI 10%Z; SB blob; SB z] =>
      SL [sn (if negb (N.eqb (blob_class blob_fe blob) 0) then blob_class blob_fe blob
              else if negb (fe_canonical z) then 2%N else 0%N)]
  | SL [SI 11%Z; SB input] =>
      match g1_decode (get_data input 0 64) with
      | Ok _ => SL [SI 0%Z]
      | Err e => SL [SI 1%Z; SI (err_code e)]
      end
  | _ => SErr 0
  end.
