(* Run/C07.v — case decoder / observable encoder for the C07 correspondence.
   case = ( scheme ( gen.. ) )       scheme: 0 = hash scheme, 1 = path scheme
     gen = ( op.. )  one trie session: trie.New(current root) ; ops ; Commit ;
                     triedb.Update + triedb.Commit when the root changed
     op  = (0 x<key> x<value>)       Update (empty value = Delete)
           (2 x<key>)                Get
           (3 x<hexpath>)            GetNode(hexToCompact(path)) -> (0) nil | (1 x<blob>) | (2) error,
                                     reported among the get results
           (4 x<key>)                Prove(key)          no session effect (no observable)
           (5)                       full NodeIterator walk, no session effect (no observable)
                                     (4 and 5 run the hasher, which caches hashes in dirty nodes; only a later
                                      GetNode on such a node could observe that — not modelled: the generator
                                      emits them before the first Update of a session only)
   The store starts empty, the first root is the empty root.
   observation = ( genobs.. ), genobs =
     ( ( getresult.. ) x<root> nodeset dump dels pvs )
       getresult = (x<value>) | ()
       nodeset   = (0)                                  nil node set
                 | (1 ( entry.. ))                      sorted by path
       entry     = (x<path> 0 x<hash> x<blob> x<prev>)  update, prev empty = none
                 | (x<path> 1 x<prev>)                  deletion
       dump      = ( (x<key> x<blob>).. )               the whole trie-node keyspace of the
                                                        store after applying, sorted by key
                                                        (key = path / hash)
       dels      = ( x<path>.. )   opTracer.deletes right before the commit, sorted
       pvs       = ( x<path>.. )   paths holding a pre-value (Trie.Witness keys), sorted
   an error yields (-2 <class>) in place of the genobs and stops the run. *)
From GV Require Import Lib.Sx Keccak.Sponge Trie.Hex Trie.Node Trie.Ops Trie.Hash Trie.Commit.

Definition terr_code (e : terr) : Z :=
  match e with EMissing => 1 | EPanic => 2 | EFuel => 3 end%Z.
Definition serr (e : terr) : sx := SL [SI (-2)%Z; SI (terr_code e)].

Definition entry_sx (pe : list N * nentry) : sx :=
  match snd pe with
  | Upd h blob prev => SL [SB (fst pe); SI 0%Z; SB h; SB blob; SB prev]
  | Del prev => SL [SB (fst pe); SI 1%Z; SB prev]
  end.

Definition dump_sx (s : store) : sx :=
  SL (map (fun kv => SL [SB (fst kv); SB (snd kv)]) s).

(* the operations of one session: (get results in order, final session) *)
Fixpoint run_ops (sc : scheme) (s : store) (ss : sess) (ops : list sx) (gets : list sx)
  : option (tres (list sx * sess)) :=
  match ops with
  | [] => Some (TOk (rev gets, ss))
  | SL [SI 0%Z; SB k; SB v] :: r =>
      match sess_update keccak256 sc s ss k v with
      | TOk ss' => run_ops sc s ss' r gets
      | TErr e => Some (TErr e)
      end
  | SL [SI 2%Z; SB k] :: r =>
      match sess_get keccak256 sc s ss k with
      | TOk (v, ss') => run_ops sc s ss' r (sopt SB v :: gets)
      | TErr e => Some (TErr e)
      end
  | SL [SI 3%Z; SB path] :: r =>
      let '(g, ss') := sess_getnode keccak256 sc s ss path in
      run_ops sc s ss' r
              (match g with
               | GNone => SL [SI 0%Z]
               | GItem b => SL [SI 1%Z; SB b]
               | GErr => SL [SI 2%Z]
               end :: gets)
  | SL [SI 4%Z; SB _] :: r => run_ops sc s ss r gets
  | SL [SI 5%Z] :: r => run_ops sc s ss r gets
  | _ => None
  end.

Fixpoint run_gens (sc : scheme) (s : store) (root : list N) (gens : list sx) : list sx :=
  match gens with
  | [] => []
  | SL ops :: r =>
      match open_trie keccak256 sc s root with
      | TErr e => [serr e]
      | TOk ss =>
          match run_ops sc s ss ops [] with
          | None => [SErr 1]
          | Some (TErr e) => [serr e]
          | Some (TOk (gets, ss')) =>
              match commit keccak256 ss' with
              | None => [serr EPanic]
              | Some (root', ons) =>
                  let s' := match ons with
                            | Some ns => if bytes_eqb root' root then s
                                         else apply_nodeset sc ns s
                            | None => s
                            end in
                  SL [SL gets; SB root';
                      match ons with
                      | None => SL [SI 0%Z]
                      | Some ns => SL [SI 1%Z; SL (map entry_sx ns)]
                      end;
                      dump_sx s';
                      SL (map (fun pu => SB (fst pu)) (tr_del (s_tr ss')));
                      SL (map (fun pb => SB (fst pb)) (tr_pv (s_tr ss')))] :: run_gens sc s' root' r
              end
          end
      end
  | _ => [SErr 2]
  end.

Definition C07_run (c : sx) : sx :=
  match c with
  | SL [SI sc; SL gens] =>
      let sch := if (sc =? 0)%Z then HashScheme else PathScheme in
      SL (run_gens sch [] (keccak256 empty_root_preimage) gens)
  | _ => SErr 0
  end.
