(* Run/C33.v — case decoder / observable encoder for the C33 correspondence.

   case  (seed nmut gaslimit pre steps sched bal muts)
     pre    ((key val) ...)                       parent-state values of every key in play
     steps  one per block-access index 0..n+1:
            (dep reads writes (ok gl exec state used nlogs) out)
              dep    ((key val) ...)  keys the phase touched with the values it saw
              reads  (key ...)        recordable keys it accessed
              writes ((key val) ...)  its net changes
     sched  ((worker label) ...)      label 0 = Claim, 1 = Finish
     bal    (((key ((idx val) ...)) ...) (readkey ...))   the block's access list, flattened
     muts   ((adj bal) ...)   mutated lists; adj 0: body only, 1: the header's access-list hash follows
                              the list, 2: hash and state root follow it

   A phase is replayed as the table transaction "if the view agrees with [dep] then the
   recorded effects, else a consensus error".

   output ((seq) (par) (mut ...))
     seq/par  ((receipts gas bal reqout vals)) or () on a processing error;
              receipts ((out used cum (logindex ...)) ...), vals = installed state on the pre keys
     mut      (0) if the list fails Validate, else (1 aff class rooteq):
              aff   first block-access index whose dep sees another value through the overlay, or -1
              class verdict_par (0 accept, 1 ValidateBody, 2 Process, 3 gas, 4 receipts, 5 requests,
                    6 rebuilt access list, 7 state root); 9 = rejected, class unspecified, when aff >= 0
              rooteq  ApplyBlockAccessList(list) installs the true post-state *)
From GV Require Import Lib.Sx State.Parallel.

Definition bview := view bkey bkey.
Definition beff := effects bkey bkey bkey.
Definition btx := tx bkey bkey bkey.

Definition dec_kv (s : sx) : option (bkey * bkey) :=
  match s with SL [SB k; SB v] => Some (k, v) | _ => None end.
Definition dec_entry (s : sx) : option (N * bkey) :=
  match s with SL [i; SB v] => match sx_N i with Some n => Some (n, v) | None => None end | _ => None end.
Definition dec_change (s : sx) : option (bkey * list (N * bkey)) :=
  match s with
  | SL [SB k; es] => match sx_list_of dec_entry es with Some l => Some (k, l) | None => None end
  | _ => None
  end.
Definition dec_bal (s : sx) : option (bal bkey bkey) :=
  match s with
  | SL [ws; rs] =>
      match sx_list_of dec_change ws, sx_list_of sx_bytes rs with
      | Some w, Some r => Some (Build_bal bkey bkey w r)
      | _, _ => None
      end
  | _ => None
  end.

Definition bad_eff : beff := Build_effects bkey bkey bkey false [] [] 0 0 0 0 0 [].

Definition table_tx (dep : list (bkey * bkey)) (e : beff) : btx :=
  fun v => if forallb (fun kv => bytes_eqb (v (fst kv)) (snd kv)) dep then e else bad_eff.

Record step := { st_dep : list (bkey * bkey); st_eff : beff }.

Definition dec_step (s : sx) : option step :=
  match s with
  | SL [dep; rd; ws; SL [ok; gl; ex; sg; us; nl]; SB out] =>
      match sx_list_of dec_kv dep, sx_list_of sx_bytes rd, sx_list_of dec_kv ws,
            sx_bool ok, sx_N gl, sx_N ex, sx_N sg, sx_N us, sx_N nl with
      | Some d, Some r, Some w, Some o, Some g, Some e, Some t, Some u, Some n =>
          Some {| st_dep := d; st_eff := Build_effects bkey bkey bkey o r w g e t u n out |}
      | _, _, _, _, _, _, _, _, _ => None
      end
  | _ => None
  end.

Definition dec_sched (s : sx) : option (nat * wlabel) :=
  match s with
  | SL [w; SI 0%Z] => option_map (fun n => (n, Claim)) (sx_nat w)
  | SL [w; SI 1%Z] => option_map (fun n => (n, Finish)) (sx_nat w)
  | _ => None
  end.
Definition dec_mut (s : sx) : option (N * bal bkey bkey) :=
  match s with
  | SL [a; b] => match sx_N a, dec_bal b with Some x, Some y => Some (x, y) | _, _ => None end
  | _ => None
  end.

Fixpoint agetb (k : bkey) (l : list (bkey * bkey)) : bkey :=
  match l with
  | [] => []
  | (k0, v) :: r => if bytes_eqb k0 k then v else agetb k r
  end.

(* encoders *)
Definition enc_bal (b : bal bkey bkey) : sx :=
  SL [ SL (map (fun kes => SL [SB (fst kes); SL (map (fun ix => SL [sn (fst ix); SB (snd ix)]) (snd kes))])
               (b_w _ _ b));
       SL (map SB (b_r _ _ b)) ].
Fixpoint log_idx (from : N) (n : nat) : list sx :=
  match n with O => [] | S m => sn from :: log_idx (from + 1) m end.
Fixpoint enc_receipts (rs : list (receipt bkey)) (nl : list N) : list sx :=
  match rs, nl with
  | r :: rs', n :: nl' =>
      SL [SB (rc_out _ r); sn (rc_used _ r); sn (rc_cum _ r); SL (log_idx (rc_log0 _ r) (N.to_nat n))]
      :: enc_receipts rs' nl'
  | _, _ => []
  end.
Definition enc_result (keys : list bkey) (nl : list N)
           (o : option (presult bkey bkey bkey * bview)) : sx :=
  match o with
  | None => SL []
  | Some (res, st) =>
      SL [ SL [ SL (enc_receipts (r_receipts _ _ _ res) nl); sn (r_gas _ _ _ res);
                enc_bal (to_encoding bkey bkey bytes_ltb (r_bal _ _ _ res));
                SB (r_post _ _ _ res); SL (map (fun k => SB (st k)) keys) ] ]
  end.

Fixpoint split_last {A} (l : list A) : option (list A * A) :=
  match l with
  | [] => None
  | a :: r => match r with
              | [] => Some ([], a)
              | _ => match split_last r with Some (m, z) => Some (a :: m, z) | None => None end
              end
  end.

Fixpoint first_aff (pre : bview) (m : bal bkey bkey) (steps : list step) (i : nat) : Z :=
  match steps with
  | [] => (-1)%Z
  | s :: r =>
      let v := overlay bkey bkey bytes_eqb bkey key_acct bytes_eqb pre m (N.of_nat i) in
      if forallb (fun kv => bytes_eqb (v (fst kv)) (snd kv)) (st_dep s)
      then first_aff pre m r (S i) else Z.of_nat i
  end.

Definition C33_run (c : sx) : sx :=
  match c with
  | SL [_; _; gl; pre; steps; sched; tb; muts] =>
      match sx_N gl, sx_list_of dec_kv pre, sx_list_of dec_step steps,
            sx_list_of dec_sched sched, dec_bal tb, sx_list_of dec_mut muts with
      | Some gaslimit, Some prel, Some stl, Some sch, Some trueb, Some ml =>
          match stl with
          | [] => SErr 2
          | s0 :: rest =>
              match split_last rest with
              | None => SErr 3
              | Some (mid, sp) =>
                  let mk := fun s => table_tx (st_dep s) (st_eff s) in
                  let blk := Build_block bkey bkey bkey (mk s0) (map mk mid) (mk sp) gaslimit in
                  let prev : bview := fun k => agetb k prel in
                  let keys := map fst prel in
                  let nl := map (fun s => e_nlogs _ _ _ (st_eff s)) mid in
                  let txs := map mk mid in
                  let seq := seq_process bkey bkey bkey bytes_eqb bytes_eqb prev blk in
                  let outcome := fun (b : bal bkey bkey) =>
                    match prun bkey bkey bkey bytes_eqb bkey key_acct bytes_eqb prev b txs (p_init _ _ _) sch with
                    | Some s => if p_done _ _ _ (length txs) s
                                then Some (p_outcome _ _ _ txs s) else None
                    | None => None
                    end in
                  match outcome trueb with
                  | None => SErr 4        (* the schedule of the case does not complete *)
                  | Some oc =>
                      let par := par_process bkey bkey bkey bytes_eqb bytes_eqb bkey key_acct bytes_eqb prev blk trueb oc in
                      let mobs :=
                        match seq with
                        | None => []
                        | Some rs =>
                            let hd := header_of bkey bkey bkey digest bytes_ltb DBal DRec DReq
                                                (root_on keys) rs in
                            let postv := map (snd rs) keys in
                            map (fun am : N * bal bkey bkey =>
                              let (adj, m) := am in
                              if negb (bal_validate bkey bkey bytes_eqb bytes_ltb
                                         (N.of_nat (length txs) + 1) m)
                              then SL [SI 0]
                              else
                                let hd' :=
                                  if (adj =? 0)%N then hd
                                  else Build_header digest (h_gas _ hd) (h_rec _ hd) (h_req _ hd) (DBal m)
                                         (if (adj =? 1)%N then h_root _ hd
                                          else root_on keys (apply_bal bkey bkey bytes_eqb prev m)) in
                                let aff := first_aff prev m stl 0 in
                                let cls :=
                                  match outcome m with
                                  | None => 8%N
                                  | Some ocm =>
                                      verdict_par bkey bkey bkey digest bytes_eqb bytes_ltb bytes_eqb
                                        digest_eqb bkey key_acct bytes_eqb DBal DRec DReq (root_on keys) prev blk hd' m ocm
                                  end in
                                let cls' := if (aff <? 0)%Z then cls
                                            else if (cls =? 0)%N || (cls =? 1)%N then cls else 9%N in
                                let req := list_eqb bytes_eqb
                                             (map (apply_bal bkey bkey bytes_eqb prev m) keys) postv in
                                SL [SI 1; SI aff; sn cls'; sbool req]) ml
                        end in
                      SL [enc_result keys nl seq; enc_result keys nl par; SL mobs]
                  end
              end
          end
      | _, _, _, _, _, _ => SErr 1
      end
  | _ => SErr 0
  end.
