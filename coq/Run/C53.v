(* Run/C53.v — case decoder / observable encoder for the C53 correspondence.

   The cryptographic Section variables of Light/Committee.v are instantiated with a
   SYMBOLIC hash: values are terms [sh] (atoms, literal 32-byte values, committee
   roots, binary nodes) and H2 is the free constructor [Nd] — injective by
   construction.  The Go harness maps every term to real bytes (atoms and committees
   to fixed pseudo-random values, [Nd l r] to SHA-256(l || r), [CR c] to
   SerializedSyncCommittee.Root()) and runs the real code on those; equality of
   terms coincides with equality of the real values unless SHA-256 collides.
   Signatures: [SigBy c root bits] is concretised as the dummy test signature of
   committee c over root with bitmask bits (light/test_helpers.go makeDummySignature).

   case   (mode cfg (op ...))       mode is used by the Go oracle only
   cfg    (threshold enforce genesis ((epoch domain version) ...) (trusted-hash ...))
   op     (0 now bootstrap) | (1 now forged? update (nextcommittee?)) |
          (2 now signed-header payload-branch) | (3 period root) | (4 period committee)
   out    ((code dump) ...)  dump = ((fs fe) (cs ce) (us ue) (fixed roots) (committee ids)
                                      ((slot signers finalized next-root) ...)) *)
From GV Require Import Lib.Sx Light.Merkle Light.Committee Light.Symbolic.
Local Open Scope N_scope.

(* the instantiated model *)
Notation Hdr := (header sh).
Notation Signed := (signed_header sh ssig).
Notation Upd := (update sh ssig).
Notation Boot := (bootstrap sh N).
Notation Chain := (chain sh N ssig).
Notation Cfg := (config sh).
Definition m_signing_root := signing_root sh Nd sh_zero sh_lit64.
Definition m_header_hash := header_hash sh Nd sh_zero sh_lit64.
Definition m_deliver_update := deliver_update sh sh_eqb Nd sh_zero sh_lit64 N CR ssig ssig_verify.
Definition m_deliver_bootstrap := deliver_bootstrap sh sh_eqb Nd sh_zero sh_lit64 N CR ssig.
Definition m_head_validate := head_validate sh Nd sh_zero sh_lit64 N ssig ssig_verify.
Definition m_add_fixed_root := add_fixed_root sh sh_eqb sh_zero N ssig.
Definition m_add_committee := add_committee sh sh_eqb sh_zero N CR ssig.

(* ---- decoding ---- *)
Fixpoint dh (s : sx) : option sh :=
  match s with
  | SI z => if (z <? 0)%Z then None else Some (At (Z.to_N z))
  | SB b => Some (Lit b)
  | SL [SI 0%Z; SI c] => if (c <? 0)%Z then None else Some (CR (Z.to_N c))
  | SL [SI 1%Z; l; r] =>
      match dh l, dh r with Some a, Some b => Some (Nd a b) | _, _ => None end
  | _ => None
  end.

Fixpoint eh (h : sh) : sx :=
  match h with
  | At n => sn n
  | Lit b => SB b
  | CR c => SL [SI 0%Z; sn c]
  | Nd l r => SL [SI 1%Z; eh l; eh r]
  end.

Definition d_header (s : sx) : option Hdr :=
  match s with
  | SL [sl; pr; pa; st; bo] =>
      match sx_N sl, sx_N pr, dh pa, dh st, dh bo with
      | Some a, Some b, Some c, Some d, Some e => Some (mkHeader sh a b c d e)
      | _, _, _, _, _ => None
      end
  | _ => None
  end.

Definition d_sig (cfg : Cfg) (h : Hdr) (s : sx) : option ssig :=
  match s with
  | SL [SI 0%Z; c; SB bits] =>
      match sx_N c with
      | Some c' =>
          match m_signing_root cfg h with
          | Some r => Some (SigBy c' r bits)
          | None => Some (SigJunk 0)
          end
      | None => None
      end
  | SL [SI 1%Z; c; SB bits; r] =>
      match sx_N c, dh r with Some c', Some r' => Some (SigBy c' r' bits) | _, _ => None end
  | SL [SI 2%Z; n] => match sx_N n with Some n' => Some (SigJunk n') | None => None end
  | _ => None
  end.

Definition d_signed (cfg : Cfg) (s : sx) : option Signed :=
  match s with
  | SL [h; SB signers; sg; ss] =>
      match d_header h with
      | Some h' =>
          match d_sig cfg h' sg, sx_N ss with
          | Some sg', Some ss' => Some (mkSigned sh ssig h' signers sg' ss')
          | _, _ => None
          end
      | None => None
      end
  | _ => None
  end.

Definition d_update (cfg : Cfg) (s : sx) : option Upd :=
  match s with
  | SL [old; att; nr; nb; fin; fb] =>
      match sx_bool old, d_signed cfg att, dh nr, sx_list_of dh nb, sx_list_of dh fb with
      | Some o, Some a, Some r, Some b, Some f =>
          match fin with
          | SL [] => Some (mkUpdate sh ssig o a r b None f)
          | SL [fh] => match d_header fh with
                       | Some fh' => Some (mkUpdate sh ssig o a r b (Some fh') f)
                       | None => None
                       end
          | _ => None
          end
      | _, _, _, _, _ => None
      end
  | _ => None
  end.

Definition d_boot (s : sx) : option Boot :=
  match s with
  | SL [old; h; cr; c; br] =>
      match sx_bool old, d_header h, dh cr, sx_N c, sx_list_of dh br with
      | Some o, Some h', Some cr', Some c', Some br' => Some (mkBootstrap sh N o h' cr' c' br')
      | _, _, _, _, _ => None
      end
  | _ => None
  end.

Definition d_fork (s : sx) : option (N * sh) :=
  match s with
  | SL [e; d; _] => match sx_N e, dh d with Some e', Some d' => Some (e', d') | _, _ => None end
  | _ => None
  end.

Definition d_cfg (s : sx) : option (Cfg * list sh) :=
  match s with
  | SL [th; en; ge; fk; tr] =>
      match sx_N th, sx_bool en, sx_N ge, sx_list_of d_fork fk, sx_list_of dh tr with
      | Some a, Some b, Some c, Some d, Some t => Some (mkConfig sh a b c d, t)
      | _, _, _, _, _ => None
      end
  | _ => None
  end.

(* ---- dump ---- *)
Definition periods_of (r : range) : list N :=
  map (fun i => r_start r + N.of_nat i) (seq 0 (N.to_nat (r_end r - r_start r))).

Definition e_range (r : range) : sx := SL [sn (r_start r); sn (r_end r)].

Definition dump_store {T} (s : store T) (f : T -> sx) : sx :=
  SL (map (fun p => match st_get s p with Some v => f v | None => SL [] end) (periods_of (st_rng s))).

Definition dump (s : Chain) : sx :=
  SL [ e_range (st_rng (fixed _ _ _ s)); e_range (st_rng (comms _ _ _ s)); e_range (st_rng (upds _ _ _ s));
       dump_store (fixed _ _ _ s) eh;
       dump_store (comms _ _ _ s) sn;
       dump_store (upds _ _ _ s) (fun u =>
         SL [ sn (h_slot _ (sh_header _ _ (u_att _ _ u)));
              sn (signer_count (sh_signers _ _ (u_att _ _ u)));
              sbool (match u_fin _ _ u with Some _ => true | None => false end);
              eh (u_next_root _ _ u) ]) ].

(* ---- running ---- *)
Record rstate := mkR { rs_chain : Chain; rs_slot : N; rs_count : N }.

Definition step (cfg : Cfg) (trusted : list sh) (st : rstate) (op : sx) : option (rstate * sx) :=
  let s := rs_chain st in
  let ret (s' : Chain) (code : N) (sl ct : N) :=
    Some (mkR s' sl ct, SL [sn code; dump s']) in
  match op with
  | SL [SI 0%Z; _; b] =>
      match d_boot b with
      | Some b' =>
          let '(s', e) := m_deliver_bootstrap (fun h => existsb (sh_eqb h) trusted) s b' in
          ret s' e (rs_slot st) (rs_count st)
      | None => None
      end
  | SL [SI 1%Z; now; _; u; nc] =>
      match sx_Z now, d_update cfg u, sx_list_of sx_N nc with
      | Some now', Some u', Some ncl =>
          let '(s', e) := m_deliver_update cfg now' s u' (hd_error ncl) in
          ret s' e (rs_slot st) (rs_count st)
      | _, _, _ => None
      end
  | SL [SI 2%Z; now; h; _] =>
      match sx_Z now, d_signed cfg h with
      | Some now', Some h' =>
          let code := m_head_validate cfg now' s (rs_slot st) (rs_count st) h' in
          if code =? 0
          then ret s code (h_slot _ (sh_header _ _ h')) (signer_count (sh_signers _ _ h'))
          else ret s code (rs_slot st) (rs_count st)
      | _, _ => None
      end
  | SL [SI 3%Z; p; r] =>
      match sx_N p, dh r with
      | Some p', Some r' =>
          let '(s', e) := m_add_fixed_root s p' r' in ret s' e (rs_slot st) (rs_count st)
      | _, _ => None
      end
  | SL [SI 4%Z; p; c] =>
      match sx_N p, sx_N c with
      | Some p', Some c' =>
          let '(s', e) := m_add_committee s p' c' in ret s' e (rs_slot st) (rs_count st)
      | _, _ => None
      end
  | _ => None
  end.

Fixpoint run_ops (cfg : Cfg) (trusted : list sh) (st : rstate) (ops : list sx) : option (list sx) :=
  match ops with
  | [] => Some []
  | op :: rest =>
      match step cfg trusted st op with
      | Some (st', o) =>
          match run_ops cfg trusted st' rest with
          | Some os => Some (o :: os)
          | None => None
          end
      | None => None
      end
  end.

Definition C53_run (c : sx) : sx :=
  match c with
  | SL [_; cfg; SL ops] =>
      match d_cfg cfg with
      | Some (cfg', trusted) =>
          match run_ops cfg' trusted (mkR (chain_empty _ _ _) 0 0) ops with
          | Some os => SL os
          | None => SErr 1
          end
      | None => SErr 2
      end
  | _ => SErr 0
  end.
