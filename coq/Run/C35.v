(* Run/C35.v — case decoder / observable encoder for the C35 correspondence.
   opt  ::= () | (v)                   res ::= (0 v) ok | (1 class) error | (2 class) panic | (3) out of fuel
   hdr  ::= (number gasLimit gasUsed time baseFee:opt excessBlobGas:opt blobGasUsed:opt)
   bc   ::= (target max updateFraction)
   cfg  ::= (london:opt cancun:opt prague:opt osaka:opt bpo1:opt .. bpo5:opt
             schedule:opt((cancun:opt(bc) prague bpo1 .. bpo5)))
   (0 parentGasLimit headerGasLimit)            -> class                     VerifyGaslimit
   (1 cfg parent header)                        -> (res res)                 CalcBaseFee, VerifyEIP1559Header
   (2 cfg parent headTimestamp)                 -> res                       CalcExcessBlobGas
   (3 cfg header)                               -> res                       CalcBlobFee
   (4 factor numerator denominator)             -> res                       fakeExponential
   (5 data al:opt((n..)) auth:opt from to:opt value:opt (homestead istanbul shanghai amsterdam))
                                                -> (res res)                 IntrinsicGas, FloorDataGas
   (6 isOsaka bc parent)                        -> res                       calcExcessBlobGas *)
From GV Require Import Lib.Sx Gas.FeesImpl.
Local Open Scope Z_scope.

Definition enc_res (r : res Z) : sx :=
  match r with
  | Ok v => SL [SI 0; SI v]
  | Err c => SL [SI 1; SI c]
  | Panic c => SL [SI 2; SI c]
  | OutOfFuel => SL [SI 3]
  end.

Definition obind {A B} (o : option A) (f : A -> option B) : option B :=
  match o with Some a => f a | None => None end.
Notation "x <~ o ;; k" := (obind o (fun x => k)) (at level 61, o at next level, right associativity).

Definition dec_opt {A} (f : sx -> option A) (s : sx) : option (option A) :=
  match s with
  | SL [] => Some None
  | SL [v] => a <~ f v ;; Some (Some a)
  | _ => None
  end.

Definition dec_hdr (s : sx) : option header :=
  match s with
  | SL [SI num; SI gl; SI gu; SI tm; bf; ex; bu] =>
      bf <~ dec_opt sx_Z bf ;; ex <~ dec_opt sx_Z ex ;; bu <~ dec_opt sx_Z bu ;;
      Some {| h_number := num; h_gas_limit := gl; h_gas_used := gu; h_time := tm;
              h_base_fee := bf; h_excess_blob_gas := ex; h_blob_gas_used := bu |}
  | _ => None
  end.

Definition dec_bc (s : sx) : option blob_config :=
  match s with
  | SL [SI t; SI m; SI u] => Some {| bc_target := t; bc_max := m; bc_update_fraction := u |}
  | _ => None
  end.

Definition dec_sched (s : sx) : option blob_schedule :=
  match s with
  | SL [c; p; b1; b2; b3; b4; b5] =>
      c <~ dec_opt dec_bc c ;; p <~ dec_opt dec_bc p ;; b1 <~ dec_opt dec_bc b1 ;;
      b2 <~ dec_opt dec_bc b2 ;; b3 <~ dec_opt dec_bc b3 ;; b4 <~ dec_opt dec_bc b4 ;;
      b5 <~ dec_opt dec_bc b5 ;;
      Some {| bs_cancun := c; bs_prague := p; bs_bpo1 := b1; bs_bpo2 := b2; bs_bpo3 := b3;
              bs_bpo4 := b4; bs_bpo5 := b5 |}
  | _ => None
  end.

Definition dec_cfg (s : sx) : option chain_config :=
  match s with
  | SL [l; c; p; o; b1; b2; b3; b4; b5; sch] =>
      l <~ dec_opt sx_Z l ;; c <~ dec_opt sx_Z c ;; p <~ dec_opt sx_Z p ;; o <~ dec_opt sx_Z o ;;
      b1 <~ dec_opt sx_Z b1 ;; b2 <~ dec_opt sx_Z b2 ;; b3 <~ dec_opt sx_Z b3 ;;
      b4 <~ dec_opt sx_Z b4 ;; b5 <~ dec_opt sx_Z b5 ;; sch <~ dec_opt dec_sched sch ;;
      Some {| cfg_london_block := l; cfg_cancun_time := c; cfg_prague_time := p; cfg_osaka_time := o;
              cfg_bpo1_time := b1; cfg_bpo2_time := b2; cfg_bpo3_time := b3; cfg_bpo4_time := b4;
              cfg_bpo5_time := b5; cfg_blob_schedule := sch |}
  | _ => None
  end.

Definition dec_rules (s : sx) : option rules :=
  match s with
  | SL [h; i; sh; a] =>
      h <~ sx_bool h ;; i <~ sx_bool i ;; sh <~ sx_bool sh ;; a <~ sx_bool a ;;
      Some {| IsHomestead := h; IsIstanbul := i; IsShanghai := sh; IsAmsterdam := a |}
  | _ => None
  end.

Definition or_err (o : option sx) : sx := match o with Some s => s | None => SErr 1 end.

Definition C35_run (c : sx) : sx :=
  match c with
  | SL [SI 0; SI p; SI h] => SI (verify_gaslimit p h)
  | SL [SI 1; cfg; parent; hdr] =>
      or_err (cfg <~ dec_cfg cfg ;; parent <~ dec_hdr parent ;; hdr <~ dec_hdr hdr ;;
              Some (SL [enc_res (calc_base_fee cfg parent); enc_res (verify_eip1559_header cfg parent hdr)]))
  | SL [SI 2; cfg; parent; SI t] =>
      or_err (cfg <~ dec_cfg cfg ;; parent <~ dec_hdr parent ;;
              Some (enc_res (calc_excess_blob_gas cfg parent t)))
  | SL [SI 3; cfg; hdr] =>
      or_err (cfg <~ dec_cfg cfg ;; hdr <~ dec_hdr hdr ;; Some (enc_res (calc_blob_fee cfg hdr)))
  | SL [SI 4; SI f; SI n; SI d] => enc_res (fake_exponential f n d)
  | SL [SI 5; SB data; al; auth; SB from; to; value; r] =>
      or_err (al <~ dec_opt (sx_list_of sx_Z) al ;; auth <~ dec_opt sx_Z auth ;;
              to <~ dec_opt sx_bytes to ;; value <~ dec_opt sx_Z value ;; r <~ dec_rules r ;;
              let a := {| ta_data := data; ta_access_list := al; ta_auth_len := auth;
                          ta_from := from; ta_to := to; ta_value := value |} in
              Some (SL [enc_res (intrinsic_gas a r); enc_res (floor_data_gas a r)]))
  | SL [SI 6; osaka; bc; parent] =>
      or_err (osaka <~ sx_bool osaka ;; bc <~ dec_bc bc ;; parent <~ dec_hdr parent ;;
              Some (enc_res (calc_excess_blob_gas_inner osaka bc parent)))
  | _ => SErr 0
  end.
