(* Run/C06.v — case decoder / observable encoder for the C06 correspondence.
   case = ( op.. ) applied to one in-memory trie starting empty:
     (0 x<key> x<value>)            Update (empty value = delete) -> root hash after the op
     (1 (order..) ((x<k> x<v>)..))  UpdateBatch; order = nibble application order used by the model
                                    (the result is order-independent; the harness passes ascending) -> root hash
     (2 x<key>)                     Get -> (x<value>) or ()
     (3)                            NewIterator(NodeIterator(nil)) drained -> ((x<key> x<value>)..)
     (4 ((x<k> x<v>)..))            a fresh StackTrie: Update each pair in order, then Hash
                                    -> ((code..) x<root>), code 0 = ok, 1 = empty value, 2 = non-ascending;
                                    a panic ends it: ((code..) (-2 2))
   observation = list of per-op results; an op that errors yields (-2 <class>) and stops the run. *)
From GV Require Import Lib.Sx Keccak.Sponge Trie.Hex Trie.Node Trie.Ops Trie.Hash Trie.Iter Trie.Stack.

Definition no_resolve (h p : list N) : option (node * list N) := None.

Definition terr_code (e : terr) : Z :=
  match e with EMissing => 1 | EPanic => 2 | EFuel => 3 end%Z.
Definition serr (e : terr) : sx := SL [SI (-2)%Z; SI (terr_code e)].

Definition root_sx (n : node) : sx :=
  match hash_root keccak256 n with
  | Some h => SB h
  | None => SL [SI (-2)%Z; SI 2%Z]
  end.

Definition kv_of (s : sx) : option (list N * list N) :=
  match s with SL [SB k; SB v] => Some (k, v) | _ => None end.

Fixpoint stack_run (s : stack) (kvs : list (list N * list N)) (codes : list sx) : sx :=
  match kvs with
  | [] =>
      match st_root keccak256 s with
      | TOk h => SL [SL (rev codes); SB h]
      | TErr e => SL [SL (rev codes); serr e]
      end
  | (k, v) :: r =>
      match st_update keccak256 s k v with
      | TErr e => SL [SL (rev codes); serr e]
      | TOk (inl c) => stack_run s r (SI (Z.of_N c) :: codes)
      | TOk (inr s') => stack_run s' r (SI 0%Z :: codes)
      end
  end.

Fixpoint run_ops (root : node) (ops : list sx) : list sx :=
  match ops with
  | [] => []
  | SL [SI 0%Z; SB k; SB v] :: r =>
      match update no_resolve root k v with
      | TOk (root', _) => root_sx root' :: run_ops root' r
      | TErr e => [serr e]
      end
  | SL [SI 1%Z; SL order; SL kvs] :: r =>
      match opt_map sx_N order, opt_map kv_of kvs with
      | Some ord, Some l =>
          match update_batch no_resolve ord root l with
          | TOk (root', _) => root_sx root' :: run_ops root' r
          | TErr e => [serr e]
          end
      | _, _ => [SErr 1]
      end
  | SL [SI 2%Z; SB k] :: r =>
      match trie_get no_resolve root k with
      | TOk (v, root', _, _) => sopt SB v :: run_ops root' r
      | TErr e => [serr e]
      end
  | SL [SI 4%Z; SL kvs] :: r =>
      match opt_map kv_of kvs with
      | Some l => stack_run stack_new l [] :: run_ops root r
      | None => [SErr 1]
      end
  | SL [SI 3%Z] :: r =>
      match trie_iterate root with
      | TOk l => SL (map (fun kv => SL [SB (fst kv); SB (snd kv)]) l) :: run_ops root r
      | TErr e => [serr e]
      end
  | _ => [SErr 0]
  end.

Definition C06_run (c : sx) : sx :=
  match c with
  | SL ops => SL (run_ops NEmpty ops)
  | _ => SErr 0
  end.
