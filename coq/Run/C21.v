(* Run/C21.v — case decoder / observable encoder for the C21 correspondence.
   case  (cns ideal ((id size (kid ...)) ...) (op ...) extra)      extra = blobs, used by Go only
     op  (0 (node ...) ((child parent) ...) sets)   Update (insertion order, account-root references; sets: Go only)
         (1 child parent)                      Reference
         (2 root)                              Dereference
         (3 limit)                             Cap
         (4 root)                              Commit
   obs   one dump per executed op:
         (0 oldest newest dirtiesSize childrenSize size ((id parents (ext sorted) prev next) ...) (disk id ...))
         nodes and disk in the order of the world list;  (1) = nil dereference panic (run stops),
         (2) = out of fuel.
   Canonicalisation (both sides): [newest] is reported as 0 when the list is empty and
   flushPrev of the head as 0 — the Go code leaves stale values there which depend on the
   iteration order of the [external] Go map (the code never reads them). *)
From GV Require Import Lib.Sx Storage.HashDB.
From Coq Require Import FMapPositive.

Definition world := nmap (N * list N).

Definition w_kids (w : world) (h : N) : list N :=
  match mget h w with Some (_, k) => k | None => [] end.
Definition w_size (w : world) (h : N) : N :=
  match mget h w with Some (s, _) => s | None => 0%N end.

Definition dec_node (s : sx) : option (N * (N * list N)) :=
  match s with
  | SL [i; sz; k] =>
      match sx_N i, sx_N sz, sx_list_of sx_N k with
      | Some i', Some sz', Some k' => Some (i', (sz', k'))
      | _, _, _ => None
      end
  | _ => None
  end.

Definition dec_pair (s : sx) : option (N * N) :=
  match s with
  | SL [a; b] => match sx_N a, sx_N b with Some a', Some b' => Some (a', b') | _, _ => None end
  | _ => None
  end.

Definition dec_op (s : sx) : option op :=
  match s with
  | SL [SI 0%Z; ns; rs; _] =>
      match sx_list_of sx_N ns, sx_list_of dec_pair rs with
      | Some ns', Some rs' => Some (OUpdate ns' rs')
      | _, _ => None
      end
  | SL [SI 1%Z; c; p] =>
      match sx_N c, sx_N p with Some c', Some p' => Some (OReference c' p') | _, _ => None end
  | SL [SI 2%Z; r] => match sx_N r with Some r' => Some (ODereference r') | None => None end
  | SL [SI 3%Z; SI l] => Some (OCap l)
  | SL [SI 4%Z; r] => match sx_N r with Some r' => Some (OCommit r') | None => None end
  | _ => None
  end.

Fixpoint ins_sorted (x : N) (l : list N) : list N :=
  match l with
  | [] => [x]
  | y :: r => if (x <=? y)%N then x :: l else y :: ins_sorted x r
  end.
Definition sort_N (l : list N) : list N := fold_right ins_sorted [] l.

Definition dump (cns : Z) (ids : list N) (st : db) : sx :=
  SL [ SI 0%Z; sn (oldest st); sn (if (oldest st =? 0)%N then 0%N else newest st); SI (dsize st); SI (csize st); SI (Size cns st);
       SL (flat_map (fun h => match getd st h with
                              | Some e => [SL [sn h; sn (e_parents e); SL (map sn (sort_N (e_ext e)));
                                               sn (if (h =? oldest st)%N then 0%N else e_prev e); sn (e_next e)]]
                              | None => []
                              end) ids);
       SL (flat_map (fun h => match mget h (disk st) with Some _ => [sn h] | None => [] end) ids) ].

Fixpoint run_ops (w : world) (cns ideal : Z) (ids : list N) (ops : list op) (st : db) : list sx :=
  match ops with
  | [] => []
  | o :: r =>
      match step (w_kids w) (w_size w) cns ideal st o with
      | Ok st' => dump cns ids st' :: run_ops w cns ideal ids r st'
      | Panic => [SL [SI 1%Z]]
      | OutOfFuel => [SL [SI 2%Z]]
      end
  end.

Definition C21_run (c : sx) : sx :=
  match c with
  | SL [SI cns; SI ideal; wl; ol; _] =>
      match sx_list_of dec_node wl, sx_list_of dec_op ol with
      | Some nodes, Some ops =>
          let w := fold_left (fun m n => mset (fst n) (snd n) m) nodes (mempty : world) in
          SL (run_ops w cns ideal (map fst nodes) ops empty_db)
      | _, _ => SErr 1
      end
  | _ => SErr 0
  end.
