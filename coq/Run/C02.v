(* Run/C02.v — case decoder / observable encoder for the C02 correspondence.

   case (0 x<bytes>)   raw input:
       -> ( U E )      U = UnmarshalBinary(bytes) observation, E = DecodeRLP(stream over bytes)
   case (1 type fields sidecar)   structured transaction (NewTx):
       fields  : value as sx   (number = integer, bytes = x.., nil pointer = -1, list = ( .. ))
       sidecar : () | (version (blob ..) (commitment ..) (proof ..)),  blob = (fill x<prefix>)
                 standing for prefix ++ fill^(131072 - len prefix)
       -> ( M L H S U E )  M = MarshalBinary, L = EncodeRLP, H = Hash, S = Size (fresh),
                 U = UnmarshalBinary(M) observation, E = DecodeRLP(L ++ 0x01) observation

   observation of a decoded transaction o:
       (0 type B(MarshalBinary) Hash Size sidecar-version|-1  Size(WithoutBlobTxSidecar) B(MarshalBinary of it))
     + for E: B(EncodeRLP) and the number of unread bytes
   an error: (class)
   B(b) = x<b> when len b <= 300, else (len s1 s2) with the checksum [cksum]. *)
From GV Require Import Lib.Sx Lib.Bytes Keccak.Sponge Rlp.Item Rlp.Schema EVM.TxEnvelope.
Local Open Scope N_scope.

(* long outputs are compared by length and a position-sensitive checksum
   (s1 = sum of bytes, s2 = sum of the running s1), not by a second Keccak *)
Definition cksum (b : list N) : N * N :=
  fold_left (fun (acc : N * N) x => let s1 := fst acc + x in (s1, snd acc + s1)) b (0, 0).
Definition ob_bytes (b : list N) : sx :=
  if lenN b <=? 300 then SB b
  else let c := cksum b in SL [sn (lenN b); sn (fst c); sn (snd c)].

Definition ob_res (r : tres (list N)) : sx :=
  match r with
  | TOk b => SL [SI 0; ob_bytes b]
  | TErr e => SL [sn (txerr_code e)]
  end.

Definition ob_txo (o : txo) (extra : list sx) : sx :=
  let t := inner o in
  let w := without_sidecar o in
  SL ([SI 0; sn (tx_type t); ob_res (marshal_binary t); SB (hash keccak256 t); sn (size o);
       match tx_sidecar t with Some sc => sn (sc_version sc) | None => SI (-1) end;
       sn (size w); ob_res (marshal_binary (inner w))] ++ extra).

Definition ob_unmarshal (b : list N) : sx :=
  match unmarshal_binary b with
  | TErr e => SL [sn (txerr_code e)]
  | TOk o => ob_txo o []
  end.

Definition ob_elem (b : list N) : sx :=
  match decode_rlp_elem b with
  | TErr e => SL [sn (txerr_code e)]
  | TOk (o, rest) => ob_txo o [ob_res (encode_rlp_elem (inner o)); sn (lenN rest)]
  end.

(* ---- structured cases ---- *)

Fixpoint sx_value (s : sx) : value :=
  match s with
  | SI z => if (z <? 0)%Z then VNone else VNum (Z.to_N z)
  | SB b => VBytes b
  | SL l => VList (map sx_value l)
  end.

Definition blob_len : N := 131072.

Definition sx_blob (s : sx) : option value :=
  match s with
  | SL [SI fill; SB pre] =>
      if (fill <? 0)%Z then None
      else if blob_len <? lenN pre then None
      else Some (VBytes (pre ++ repeat (Z.to_N fill) (N.to_nat (blob_len - lenN pre))))
  | _ => None
  end.

Definition sx_sidecar (s : sx) : option (option sidecar) :=
  match s with
  | SL [] => Some None
  | SL [SI ver; SL blobs; cm; pr] =>
      if (ver <? 0)%Z then None else
      match opt_map sx_blob blobs with
      | Some bl => Some (Some (mkSc (Z.to_N ver) (VList bl) (sx_value cm) (sx_value pr)))
      | None => None
      end
  | _ => None
  end.

Definition sx_tx (ty : Z) (fields : sx) (sc : sx) : option tx :=
  let v := sx_value fields in
  match ty, sx_sidecar sc with
  | 0%Z, Some None => Some (TxLegacy v)
  | 1%Z, Some None => Some (TxAccessList v)
  | 2%Z, Some None => Some (TxDynamicFee v)
  | 3%Z, Some o => Some (TxBlob v o)
  | 4%Z, Some None => Some (TxSetCode v)
  | _, _ => None
  end.

(* the case describes Go values of the right types (any sidecar version: versions > 1
   make MarshalBinary fail, which is an observation) *)
Definition shape_ok (t : tx) : bool :=
  wf (match t with
      | TxBlob v (Some sc) => TxBlob v (Some (mkSc 0 (sc_blobs sc) (sc_commitments sc) (sc_proofs sc)))
      | _ => t
      end).

Definition C02_run (c : sx) : sx :=
  match c with
  | SL [SI 0%Z; SB b] => SL [ob_unmarshal b; ob_elem b]
  | SL [SI 1%Z; SI ty; fields; sc] =>
      match sx_tx ty fields sc with
      | None => SErr 1
      | Some t =>
          if negb (shape_ok t) then SErr 2 else
          let m := marshal_binary t in
          let l := encode_rlp_elem t in
          SL [ob_res m; ob_res l; SB (hash keccak256 t); sn (size (mkTxo t 0));
              match m with TOk b => ob_unmarshal b | TErr _ => SL [] end;
              match l with TOk b => ob_elem (b ++ [1]) | TErr _ => SL [] end]
      end
  | _ => SErr 0
  end.
