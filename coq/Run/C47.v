(* Run/C47.v — case decoder / observable encoder for the C47 correspondence.
   case ( (scheme acc sto) accounts codes events script )
     accounts ((key xblob root codehash ((slotkey xval)...))...)   codes ((hash xcode)...)
     events   (0 id items hasproof ok more)            items: idx | (key xblob root codehash)
              (1 id sets hasproof lenmis ok more)      sets: ((idx | (key xval))...)...; idx into the
                                                       slots of the i-th account of the request
              (2 id (idx | (hash xcode))...)  (3 id)  (4 root)  (5)  (6)
   The script (harness side of the same trace) is ignored.
   obs  ( digests saves final ) — see harness/c47/main.go. *)
From GV Require Import Lib.Sx Net.SnapSync.
Local Open Scope N_scope.

Record tacc := { ta_key : N; ta_acct : acct; ta_slots : list (N * bytes) }.

Definition dec_slot (s : sx) : option (N * bytes) :=
  match s with SL [k; SB v] => match sx_N k with Some k' => Some (k', v) | None => None end | _ => None end.
Definition dec_tacc (s : sx) : option tacc :=
  match s with
  | SL [k; SB blob; r; c; sl] =>
      match sx_N k, sx_N r, sx_N c, sx_list_of dec_slot sl with
      | Some k', Some r', Some c', Some sl' =>
          Some {| ta_key := k'; ta_acct := {| a_blob := blob; a_root := r'; a_code := c' |}; ta_slots := sl' |}
      | _, _, _, _ => None
      end
  | _ => None
  end.

Fixpoint bytes_eqb (a b : bytes) : bool :=
  match a, b with
  | [], [] => true
  | x :: a', y :: b' => (x =? y) && bytes_eqb a' b'
  | _, _ => false
  end.

Definition dec_acc_item (tg : list tacc) (s : sx) : option (N * acct) :=
  match s with
  | SI _ => match sx_nat s with
            | Some i => match nth_error tg i with Some ta => Some (ta_key ta, ta_acct ta) | None => None end
            | None => None
            end
  | SL [k; SB blob; r; c] =>
      match sx_N k, sx_N r, sx_N c with
      | Some k', Some r', Some c' => Some (k', {| a_blob := blob; a_root := r'; a_code := c' |})
      | _, _, _ => None
      end
  | _ => None
  end.

Fixpoint find_tacc (k : N) (tg : list tacc) : option tacc :=
  match tg with
  | [] => None
  | ta :: r => if ta_key ta =? k then Some ta else find_tacc k r
  end.

Definition dec_slot_item (slots : list (N * bytes)) (s : sx) : option (N * bytes) :=
  match s with
  | SI _ => match sx_nat s with Some i => nth_error slots i | None => None end
  | _ => dec_slot s
  end.

(* sets against the accounts of the request *)
Fixpoint dec_sets (tg : list tacc) (accounts : list (N * N)) (l : list sx) : option (list (list (N * bytes))) :=
  match l with
  | [] => Some []
  | s :: r =>
      let slots := match accounts with
                   | (a, _) :: _ => match find_tacc a tg with Some ta => ta_slots ta | None => [] end
                   | [] => []
                   end in
      match sx_list_of (dec_slot_item slots) s, dec_sets tg (tl accounts) r with
      | Some x, Some r' => Some (x :: r')
      | _, _ => None
      end
  end.

Definition dec_code_item (codes : list (N * bytes)) (s : sx) : option (N * bytes) :=
  match s with
  | SI _ => match sx_nat s with Some i => nth_error codes i | None => None end
  | _ => dec_slot s
  end.

Definition find_req (id : N) (s : syncer) : option req :=
  match take_req id (s_reqs s) with Some (q, _) => Some q | None => None end.

Definition dec_event (tg : list tacc) (codes : list (N * bytes)) (s : syncer) (e : sx) : option event :=
  match e with
  | SL [SI 0%Z; id; items; hp; ok; more] =>
      match sx_N id, sx_list_of (dec_acc_item tg) items, sx_bool hp, sx_bool ok, sx_bool more with
      | Some id', Some it, Some a, Some b, Some c => Some (EAcc id' it a b c)
      | _, _, _, _, _ => None
      end
  | SL [SI 1%Z; id; SL sets; hp; lm; ok; more] =>
      match sx_N id with
      | Some id' =>
          match find_req id' s with
          | None => Some (ESto id' [] false false false false)   (* stale: ignored by [handle] *)
          | Some q =>
              match dec_sets tg (q_accounts q) sets, sx_bool hp, sx_bool lm, sx_bool ok, sx_bool more with
              | Some st, Some a, Some b, Some c, Some d => Some (ESto id' st a b c d)
              | _, _, _, _, _ => None
              end
          end
      | None => None
      end
  | SL [SI 2%Z; id; cs] =>
      match sx_N id, sx_list_of (dec_code_item codes) cs with
      | Some id', Some l => Some (ECode id' l)
      | _, _ => None
      end
  | SL [SI 3%Z; id] => match sx_N id with Some id' => Some (ETimeout id') | None => None end
  | SL [SI 4%Z; r] => match sx_N r with Some r' => Some (ERestart r') | None => None end
  | SL [SI 5%Z] => Some EStop
  | SL [SI 6%Z] => Some EComplete
  | _ => None
  end.

(* ---- observables *)
Definition two64 : N := 2 ^ 64.
Definition digest (s : syncer) : sx :=
  let sumn := fold_left (fun acc t =>
                fold_left (fun acc2 '(_, l) => fold_left (fun a3 st => a3 + st_next st) l acc2) (t_subs t) (acc + t_next t))
                (s_tasks s) 0 in
  let pend := fold_left (fun acc t => (acc + t_pend t)%Z) (s_tasks s) 0%Z in
  SL [snat (length (s_reqs s)); snat (length (s_tasks s)); sn (sumn mod two64); SI pend].

Definition progress_sx (s : syncer) : sx :=
  match s_saved s with
  | None => SL [SI (-2)%Z]
  | Some ps =>
      SL (map (fun p => SL [sn (p_next p); sn (p_last p);
                            SL (map (fun '(a, l) => SL [sn a; SL (map (fun '(n, l') => SL [sn n; sn l']) l)]) (p_subs p));
                            SL (map sn (p_completed p))]) ps)
  end.

Fixpoint pos_tacc (k : N) (tg : list tacc) (i : nat) : option (nat * tacc) :=
  match tg with
  | [] => None
  | ta :: r => if ta_key ta =? k then Some (i, ta) else pos_tacc k r (S i)
  end.
Fixpoint pos_kv (k : N) (l : list (N * bytes)) (i : nat) : option (nat * bytes) :=
  match l with
  | [] => None
  | (k', v) :: r => if k' =? k then Some (i, v) else pos_kv k r (S i)
  end.

Definition kv_sx (ref : list (N * bytes)) (kv : N * bytes) : sx :=
  let '(k, v) := kv in
  match pos_kv k ref O with
  | Some (i, v') => if bytes_eqb v v' then snat i else SL [sn k; SB v]
  | None => SL [sn k; SB v]
  end.

Definition dump_sx (tg : list tacc) (codes : list (N * bytes)) (db : store) : sx :=
  SL [ SL (map (fun '(k, v) =>
         match pos_tacc k tg O with
         | Some (i, ta) => if bytes_eqb v (a_blob (ta_acct ta)) then snat i else SL [sn k; SB v]
         | None => SL [sn k; SB v]
         end) (d_acc db));
       SL (map (fun '(a, m) =>
         let ref := match find_tacc a tg with Some ta => ta_slots ta | None => [] end in
         SL [sn a; SL (map (kv_sx ref) m)]) (d_slot db));
       SL (map (kv_sx codes) (d_code db)) ].

Definition eclass (s : syncer) (dflt : Z) : sx := SI (if s_panic s then 3%Z else dflt).

Record acc := { o_s : syncer; o_dig : list sx; o_saves : list sx; o_final : option sx; o_bad : bool }.

Definition run_event (c : config) (tg : list tacc) (codes : list (N * bytes)) (o : acc) (e : sx) : acc :=
  match o_final o with
  | Some _ => {| o_s := o_s o; o_dig := o_dig o; o_saves := o_saves o; o_final := o_final o; o_bad := true |}
  | None =>
      match dec_event tg codes (o_s o) e with
      | None => {| o_s := o_s o; o_dig := o_dig o; o_saves := o_saves o; o_final := None; o_bad := true |}
      | Some ev =>
          match ev with
          | ERestart root =>
              let s1 := shutdown (o_s o) in
              let sv := SL [eclass s1 1%Z; progress_sx s1; dump_sx tg codes (s_db s1)] in
              let s2 := step c (o_s o) ev in
              {| o_s := s2; o_dig := o_dig o ++ [digest s2]; o_saves := o_saves o ++ [sv]; o_final := None; o_bad := o_bad o |}
          | EStop =>
              let s1 := step c (o_s o) ev in
              {| o_s := s1; o_dig := o_dig o; o_saves := o_saves o;
                 o_final := Some (SL [eclass s1 1%Z; progress_sx s1; dump_sx tg codes (s_db s1)]); o_bad := o_bad o |}
          | EComplete =>
              let s1 := o_s o in
              (* the snap phase must be over: no account task left *)
              {| o_s := s1; o_dig := o_dig o; o_saves := o_saves o;
                 o_final := Some (SL [eclass s1 0%Z; SL []; dump_sx tg codes (s_db s1)]);
                 o_bad := o_bad o || negb (match s_tasks s1 with [] => true | _ => false end) |}
          | _ =>
              let s1 := step c (o_s o) ev in
              {| o_s := s1; o_dig := o_dig o ++ [digest s1]; o_saves := o_saves o; o_final := None; o_bad := o_bad o |}
          end
      end
  end.

Definition C47_run (c : sx) : sx :=
  match c with
  | SL [SL [_; ca; cs]; accounts; codes; SL events; _] =>
      match sx_N ca, sx_N cs, sx_list_of dec_tacc accounts, sx_list_of dec_slot codes with
      | Some ca', Some cs', Some tg, Some cds =>
          let cfg := {| c_acc := ca'; c_sto := cs' |} in
          (* the root is abstract in the model: any fixed number *)
          let s0 := start cfg fresh 1 in
          let o := fold_left (run_event cfg tg cds) events
                     {| o_s := s0; o_dig := [digest s0]; o_saves := []; o_final := None; o_bad := false |} in
          match o_final o with
          | Some f => if o_bad o then SErr 2 else SL [SL (o_dig o); SL (o_saves o); f]
          | None => SErr 3
          end
      | _, _, _, _ => SErr 1
      end
  | _ => SErr 0
  end.
