(* Run/C37.v — case decoder / observable encoder for the C37 correspondence.
   case  ( params prog table )
     params = (hdrGas callGas isCancun isOsaka isAmsterdam feeCap? gasPrice? balance value?
               nblobs blobFeeCap gasCap dataLen toNil codeSize erNum erK)
              x? = () for nil or (n);  ErrorRatio = erNum / 2^erK exactly (a float64)
     prog   = the scenario the Go side rebuilds (ignored here)
     table  = ((gas kind cls used maxUsed) ...) the answers of core.ApplyMessage recorded from
              the real EVM: kind 0 ErrIntrinsicGas, 1 ErrGasLimitTooHigh, 2 other consensus
              error cls, 3 success, 4 out of gas, 5 other VM error cls
   obs   ( class value (probed gas limits in order) )
     class 0 estimate, 1 ErrInsufficientFundsForTransfer, 2 ErrInsufficientFunds,
           3 consensus error cls, 4 VM error cls, 5 "gas required exceeds allowance (value)",
           6 model out of fuel *)
From GV Require Import Lib.Sx Gas.Estimator.
Local Open Scope N_scope.

Definition sx_optN (s : sx) : option (option N) :=
  match s with
  | SL [] => Some None
  | SL [x] => match sx_N x with Some n => Some (Some n) | None => None end
  | _ => None
  end.

Definition dec_entry (s : sx) : option (N * run_result) :=
  match s with
  | SL [g; k; c; u; m] =>
      match sx_N g, sx_N k, sx_N c, sx_N u, sx_N m with
      | Some g, Some k, Some c, Some u, Some m =>
          match k with
          | 0 => Some (g, RunErrIntrinsic)
          | 1 => Some (g, RunErrGasLimitTooHigh)
          | 2 => Some (g, RunErrOther c)
          | 3 => Some (g, RunRes VmNone u m)
          | 4 => Some (g, RunRes VmOOG u m)
          | 5 => Some (g, RunRes (VmOther c) u m)
          | _ => None
          end
      | _, _, _, _, _ => None
      end
  | _ => None
  end.

Definition dec_params (s : sx) : option (params * (N * N)) :=
  match s with
  | SL [hg; cg; ic; io; ia; fc; gp; bal; v; nb; bfc; gc; dl; tn; cs; en; ek] =>
      match sx_N hg, sx_N cg, sx_bool ic, sx_bool io, sx_bool ia, sx_optN fc, sx_optN gp, sx_N bal with
      | Some hg, Some cg, Some ic, Some io, Some ia, Some fc, Some gp, Some bal =>
          match sx_optN v, sx_N nb, sx_N bfc, sx_N gc, sx_N dl, sx_bool tn, sx_N cs, sx_N en, sx_N ek with
          | Some v, Some nb, Some bfc, Some gc, Some dl, Some tn, Some cs, Some en, Some ek =>
              Some ({| p_header_gas := hg; p_call_gas := cg; p_is_cancun := ic; p_is_osaka := io;
                       p_is_amsterdam := ia; p_gas_fee_cap := fc; p_gas_price := gp;
                       p_balance := bal; p_value := v; p_nblobs := nb; p_blob_fee_cap := bfc;
                       p_gas_cap := gc; p_data_len := dl; p_to_nil := tn; p_code_size := cs |},
                    (en, ek))
          | _, _, _, _, _, _, _, _, _ => None
          end
      | _, _, _, _, _, _, _, _ => None
      end
  | _ => None
  end.

Definition enc_result (r : est_result) : list sx :=
  match r with
  | EstOk g => [sn 0; sn g]
  | EstErrFundsTransfer => [sn 1; sn 0]
  | EstErrFunds => [sn 2; sn 0]
  | EstErrBail c => [sn 3; sn c]
  | EstErrVm c => [sn 4; sn c]
  | EstErrAllowance h => [sn 5; sn h]
  | EstOutOfFuel => [sn 6; sn 0]
  end.

Definition C37_run (c : sx) : sx :=
  match c with
  | SL [ps; _; tbl] =>
      match dec_params ps, sx_list_of dec_entry tbl with
      | Some (p, (en, ek)), Some t =>
          let '(r, tr) := estimate (execute (table_run t)) (er_exit_float en ek) p in
          SL (enc_result r ++ [SL (map sn (rev tr))])
      | None, _ => SErr 1
      | _, None => SErr 2
      end
  | _ => SErr 0
  end.
