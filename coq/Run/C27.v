(* Run/C27.v — case decoder / observable encoder for the C27 correspondence.

   case  (kind fork env pre tx [annotation ...])
     kind  0 = runtime.Call, 1 = runtime.Create
     fork  0 = Cancun, 1 = Prague, 2 = Osaka, 3 = Osaka + EIP-8024 (DUPN/SWAPN/EXCHANGE)
     env   (origin gasprice coinbase time number prevrandao chainid basefee blobbasefee (blobhash ...))
     pre   ((addr balance nonce x<code> ((key value) ...)) ...)
     tx    kind 0: (to value x<input> gas)      kind 1: (value x<initcode> gas)
   obs   (status x<return data> gas_left created_address refund
          ((addr (topic ...) x<data>) ...)                       logs, oldest first
          ((addr balance nonce x<code> ((key value) ...)) ...))  non-empty accounts, sorted
     status: 0 ok, 1 revert, 2.. EVM error class, 100.. model fault *)
From GV Require Import Lib.Sx Lib.Bytes EVM.Word256 EVM.Memory EVM.Gas EVM.State EVM.Instr EVM.Step EVM.Interp EVM.Forks.
Local Open Scope N_scope.

Definition err_code (e : evm_err) : Z :=
  match e with
  | E_OutOfGas => 2 | E_StackUnderflow => 3 | E_StackOverflow => 4 | E_InvalidJump => 5
  | E_InvalidOpcode => 6 | E_WriteProtection => 7 | E_ReturnDataOOB => 8 | E_Depth => 9
  | E_InsufficientBalance => 10 | E_Collision => 11 | E_MaxCodeSize => 12 | E_InvalidCode => 13
  | E_CodeStoreOutOfGas => 14 | E_NonceOverflow => 15 | E_Precompile => 16
  end%Z.
Definition status_code (s : status) : Z :=
  match s with
  | S_Ok => 0 | S_Revert => 1 | S_Halt e => err_code e
  | S_Fault F_OutOfFuel => 100 | S_Fault F_MemOOB => 101 | S_Fault F_StackShape => 102
  | S_Fault F_RefundUnderflow => 103
  end%Z.

Definition dec_slot (s : sx) : option (N * N) :=
  match s with SL [SI k; SI v] => Some (Z.to_N k, Z.to_N v) | _ => None end.
Definition dec_account (s : sx) : option (N * account) :=
  match s with
  | SL [SI a; SI b; SI n; SB code; st] =>
      match sx_list_of dec_slot st with
      | Some slots =>
          Some (Z.to_N a, mk_account (Z.to_N b) (Z.to_N n) code
                  (fold_left (fun m kv => if snd kv =? 0 then m else nm_set m (fst kv) (snd kv)) slots []))
      | None => None
      end
  | _ => None
  end.

(* the non-zero slots *)
Definition live_slots (acc : account) : list (N * N) :=
  filter (fun kv => negb (snd kv =? 0)) (acc_storage acc).
Definition enc_account (x : N * account) : sx :=
  let '(a, acc) := x in
  SL [sn a; sn (acc_balance acc); sn (acc_nonce acc); SB (acc_code acc);
      SL (map (fun kv => SL [sn (fst kv); sn (snd kv)]) (live_slots acc))].
Definition nonempty_account (x : N * account) : bool :=
  let acc := snd x in
  negb ((acc_balance acc =? 0) && (acc_nonce acc =? 0)
        && match acc_code acc with [] => true | _ => false end
        && match live_slots acc with [] => true | _ => false end).
Definition enc_log (l : log) : sx :=
  SL [sn (log_addr l); SL (map sn (log_topics l)); SB (log_data l)].

Definition enc_result (r : tx_result) : sx :=
  SL [SI (status_code (t_status r)); SB (t_ret r); sn (t_gas r); sn (t_addr r);
      sn (w_refund (t_w r));
      SL (map enc_log (rev (w_logs (t_w r))));
      SL (map enc_account (filter nonempty_account (finalise_accounts (t_w r))))].

Definition C27_run (c : sx) : sx :=
  match c with
  | SL (SI kind :: SI fk ::
        SL [SI origin; SI gasprice; SI coinbase; SI time; SI number; SI randao; SI chainid;
            SI basefee; SI blobbasefee; bh] ::
        pre :: tx :: _) =>      (* trailing elements: annotations for the Go-side oracle *)
      match sx_list_of sx_N bh, sx_list_of dec_account pre with
      | Some blobhashes, Some accts =>
          let accounts := fold_left (fun m x => nm_set m (fst x) (snd x)) accts [] in
          let w := mk_world accounts [] [] [] 0 [] [] [] in
          let '(fork, pcs) := match fk with
                              | 1%Z => (prague, prague_precompiles)
                              | 2%Z => (osaka, osaka_precompiles)
                              | 3%Z => (osaka8024, osaka_precompiles)
                              | _ => (cancun, cancun_precompiles)
                              end in
          let mk gas := mk_env fork (Z.to_N origin) (Z.to_N gasprice) (Z.to_N coinbase) (Z.to_N time)
                               (Z.to_N number) (Z.to_N randao) gas (Z.to_N chainid) (Z.to_N basefee)
                               (Z.to_N blobbasefee) blobhashes accounts in
          match kind, tx with
          | 0%Z, SL [SI to; SI value; SB input; SI gas] =>
              enc_result (top_call (mk (Z.to_N gas)) w pcs (Z.to_N to) (Z.to_N value) input (Z.to_N gas))
          | 1%Z, SL [SI value; SB init; SI gas] =>
              enc_result (top_create (mk (Z.to_N gas)) w pcs (Z.to_N value) init (Z.to_N gas))
          | _, _ => SErr 2
          end
      | _, _ => SErr 1
      end
  | _ => SErr 0
  end.
