(* Run/C30.v — case decoder / observable encoder for the C30 correspondence.
   Answers are bytes: 1 = true, 0 = false, 2 = Go panics (index out of range),
   3 = model ran out of fuel (never produced by the implementation).
   case (0 x<code> (d ...))  -> ( bitmap  seg  vj  vjx )
        bitmap = (x<codeBitmap code>) | () on panic
        seg    = codeSegment(bitmap, p) for p = 0 .. 8*len(bitmap)+7
        vj     = validJumpdest(p) for p = 0 .. len(code)-1 on ONE fresh contract without hash
        vjx    = validJumpdest(d) for the extra destinations d (same contract, afterwards)
   case (1 ((x<code> hash) ...)) -> ( vj ... )   the contracts are created one after the other
        against ONE shared jumpdest cache; vj = validJumpdest(p), p = 0 .. len(code)-1
   case (2 which flag pos x<bits>) -> (x<bits'>) | ()   one setter on a given vector
        which = 1: set1, 0: setN(flag), 8: set8, 16: set16
   case (3 x<code> x<bits>)  -> (x<bits'>) | ()   codeBitmapInternal on a given vector
   case (4 prague cachekind (op ...)) -> ( (outcome frame) ... )   one entry per call/create
        op = (0 addr x<code> hash)   StateDB.SetCode(addr, code); hash = the code hash the state stores
             (1 kind addr)           kind 0 Call, 1 CallCode, 2 DelegateCall, 3 StaticCall
             (2 x<initcode>)         Create / Create2
        all frames share ONE jumpdest cache (cachekind selects the Go implementation only);
        outcome 0 = no error, 1 = ErrInvalidJump, 2 = panic, 3 = stack underflow, 4 = other
        error, 5 = out of fuel/gas; frame = (hash) the CodeHash of the frame that executed
        code, () if no code was executed *)
From GV Require Import Lib.Sx EVM.Jumpdest EVM.JumpdestCalls.
Local Open Scope N_scope.

Definition res_code (r : result bool) : N :=
  match r with
  | Ok true => 1 | Ok false => 0
  | Err IndexOOB => 2 | Err OutOfFuel => 3
  end.

Definition ob_bits (r : result BitVec) : sx :=
  match r with
  | Ok b => SL [SB b]
  | Err IndexOOB => SL []
  | Err OutOfFuel => SErr 9
  end.

Fixpoint vj_all (c : contract) (jd : cache) (dests : list N) : list N * contract * cache :=
  match dests with
  | [] => ([], c, jd)
  | d :: r =>
      let '(res, c1, jd1) := validJumpdest c jd d in
      let '(out, c2, jd2) := vj_all c1 jd1 r in
      (res_code res :: out, c2, jd2)
  end.

Definition positions (n : nat) : list N := map N.of_nat (seq 0 n).

Fixpoint run_contracts (jd : cache) (l : list (list N * N)) : list sx :=
  match l with
  | [] => []
  | (code, h) :: r =>
      let '(out, _, jd1) := vj_all (new_contract code h) jd (positions (length code)) in
      SB out :: run_contracts jd1 r
  end.

Definition dec_contract (s : sx) : option (list N * N) :=
  match s with
  | SL [SB code; h] => match sx_N h with Some n => Some (code, n) | None => None end
  | _ => None
  end.

Definition outcome_code (o : outcome) : N :=
  match o with
  | OStop => 0 | OInvalidJump => 1 | OPanic => 2 | OUnderflow => 3 | OOther => 4 | OFuel => 5
  end.

Definition dec_op (s : sx) : option evm_op :=
  match s with
  | SL [SI 0%Z; a; SB code; h] =>
      match sx_N a, sx_N h with Some a', Some h' => Some (OpSetCode a' code h') | _, _ => None end
  | SL [SI 1%Z; k; a] =>
      match sx_N k, sx_N a with Some k', Some a' => Some (OpCall k' a') | _, _ => None end
  | SL [SI 2%Z; SB ic] => Some (OpCreate ic)
  | _ => None
  end.

Definition enc_call (r : outcome * option (list N * hash)) : sx :=
  SL [sn (outcome_code (fst r));
      match snd r with
      | Some (_ :: _, h) => SL [sn h]
      | _ => SL []
      end].

Definition C30_run (c : sx) : sx :=
  match c with
  | SL [SI 0%Z; SB code; ds] =>
      match sx_list_of sx_N ds with
      | None => SErr 1
      | Some dests =>
          let bm := codeBitmap code in
          let seg := match bm with
                     | Ok b => map (fun p => res_code (codeSegment b p)) (seq 0 (8 * length b + 8))
                     | Err _ => []
                     end in
          let '(vj, c1, jd1) := vj_all (new_contract code 0) cache_empty (positions (length code)) in
          let '(vjx, _, _) := vj_all c1 jd1 dests in
          SL [ob_bits bm; SB seg; SB vj; SB vjx]
      end
  | SL [SI 1%Z; SL cs] =>
      match opt_map dec_contract cs with
      | None => SErr 2
      | Some l => SL (run_contracts cache_empty l)
      end
  | SL [SI 2%Z; SI which; flag; pos; SB bits] =>
      match sx_N flag, sx_nat pos with
      | Some fl, Some p =>
          match which with
          | 1%Z => ob_bits (set1 bits p)
          | 0%Z => ob_bits (setN bits fl p)
          | 8%Z => ob_bits (set8 bits p)
          | 16%Z => ob_bits (set16 bits p)
          | _ => SErr 3
          end
      | _, _ => SErr 3
      end
  | SL [SI 3%Z; SB code; SB bits] => ob_bits (codeBitmapInternal code bits)
  | SL [SI 4%Z; pr; _; SL ops] =>
      match sx_bool pr, opt_map dec_op ops with
      | Some prague, Some l => SL (map enc_call (run_ops prague state_empty cache_empty l))
      | _, _ => SErr 4
      end
  | _ => SErr 0
  end.
