(* Run/C42.v — case decoder / observable encoder for the C42 correspondence.
   case = ( (datacap bump naccts tip0)
            (tx ...)      tx    = (id from nonce tip fee bfee cost shelf)
            (block ...)   block = (id parent num (btx ...) (nonce ...) (bal ...) base blob);
                          btx = (tid from isblob); nonce/bal lists are indexed by account;
                          the first block is the head the pool is initialised at
            (tables)      ( (prioE: (base fee prio) ...) (prioB: (blob bfee prio) ...)
                            (closeE: (a b) ...) (closeB ...)   a > b with NOT jumps a - jumps b > 0.001
                            (nearE: (a b) ...) (nearB ...) )   a <> b with |jumps a - jumps b| < 0.01
            (op ...) )    op = (0 tid) Add | (1 tip) SetGasTip | (2 blockid final) Reset
                               | (3 tip) Close + New + Init | (4 tip) abrupt stop: Init on a copy of the directory
   obs  = one entry per op: (errclass dump); (63) from the first op on whose result
          depends on Go's map iteration order (see harness/c42); (-2 e) on a model error. *)
From GV Require Import Lib.Sx Pool.Blob.
Local Open Scope N_scope.

Definition dec_tx (s : sx) : option tx :=
  match sx_list_of sx_N s with
  | Some [i; f; n; tp; fc; bf; co; sh] => Some (mkTx i f n tp fc bf co sh)
  | _ => None
  end.
Definition find_tx (txs : list tx) (i : N) : option tx := find (fun t => t_id t =? i) txs.

Definition dec_btx (s : sx) : option btx :=
  match sx_list_of sx_N s with
  | Some [i; f; b] => Some (mkBtx i f (negb (b =? 0)))
  | _ => None
  end.
Definition index_list (l : list N) : list (N * N) :=
  combine (map N.of_nat (seq 0 (length l))) l.
Definition dec_block (s : sx) : option block :=
  match s with
  | SL [i; p; n; btxs; nonces; bals; base; blob] =>
      match sx_N i, sx_N p, sx_N n, sx_list_of dec_btx btxs, sx_list_of sx_N nonces, sx_list_of sx_N bals,
            sx_N base, sx_N blob with
      | Some i, Some p, Some n, Some ts, Some ns, Some bs, Some ba, Some bl =>
          Some (mkBlock i p n ts (index_list ns) (index_list bs) ba bl)
      | _, _, _, _, _, _, _, _ => None
      end
  | _ => None
  end.

Definition dec_triple (s : sx) : option (N * N * Z) :=
  match s with
  | SL [a; b; z] => match sx_N a, sx_N b, sx_Z z with Some a, Some b, Some z => Some (a, b, z) | _, _, _ => None end
  | _ => None
  end.
Definition dec_pair (s : sx) : option (N * N) :=
  match sx_list_of sx_N s with Some [a; b] => Some (a, b) | _ => None end.

Definition lookup3 (t : list (N * N * Z)) (a b : N) : option Z :=
  match find (fun '(x, y, _) => (x =? a) && (y =? b)) t with Some (_, _, z) => Some z | None => None end.
Definition prio_of (t : list (N * N * Z)) (a b : N) : Z :=
  match lookup3 t a b with Some z => z | None => 0%Z end.
Definition in_pairs (t : list (N * N)) (a b : N) : bool :=
  existsb (fun '(x, y) => (x =? a) && (y =? b)) t.
(* jumps a - jumps b > 0.001 : a > b and the pair is not listed as close *)
Definition gt_of (close : list (N * N)) (a b : N) : bool := (b <? a) && negb (in_pairs close a b).
Definition near_of (near : list (N * N)) (a b : N) : bool :=
  (a =? b) || in_pairs near a b || in_pairs near b a.

Inductive dop := DAdd (t : tx) | DTip (tip : N) | DReset (b : block) (final : N) | DRestart (tip : N) | DCrash (tip : N).
Definition dec_op (txs : list tx) (blocks : list block) (s : sx) : option dop :=
  match sx_list_of sx_N s with
  | Some [0; tid] => match find_tx txs tid with Some t => Some (DAdd t) | None => None end
  | Some [1; tip] => Some (DTip tip)
  | Some [2; bid; final] => match get_block blocks bid with Some b => Some (DReset b final) | None => None end
  | Some [3; tip] => Some (DRestart tip)
  | Some [4; tip] => Some (DCrash tip)
  | _ => None
  end.

Definition sort_pairs {V} (l : list (N * V)) : list (N * V) :=
  fold_right (fun x acc =>
                (fix ins (l : list (N * V)) := match l with
                                               | [] => [x]
                                               | y :: r => if fst x <=? fst y then x :: l else y :: ins r end) acc)
             [] l.

Definition dump (nondet : bool) (p : pool) : sx :=
  let sid (i : N) := if nondet then sn 0 else sn i in
  SL [ SL (map (fun '(a, l) =>
                  SL [sn a; sn (spent_of p a);
                      SL (map (fun m => SL [sn (m_id m); sid (m_sid m); sn (m_evtip m); sn (m_evfee m); sn (m_evbfee m)]) l)])
               (p_index p));
       sn (p_stored p);
       SL (map sn (p_heap p)); sn (p_hbase p); sn (p_hblob p);
       SL (map (fun '(h, i) => SL [sn h; sid i]) (sort_pairs (p_lookup p)));
       SL (map (fun '(i, it) => SL [sid i; sn (t_id (i_tx it))])
               (if nondet then sort_pairs (map (fun '(i, it) => (t_id (i_tx it), it)) (billy_live (p_store p)))
                else billy_live (p_store p)));
       SL (map (fun '(h, i) => SL [sn h; sid i]) (sort_pairs (l_index (p_limbo p))));
       SL (map (fun '(blk, g) => SL [sn blk; SL (map sn (sort_N (map snd g)))]) (sort_pairs (l_groups (p_limbo p))));
       SL (map (fun '(i, it) => SL [sid i; sn (t_id (i_tx it)); sn (i_block it)])
               (if nondet then sort_pairs (map (fun '(i, it) => (t_id (i_tx it), it)) (billy_live (l_store (p_limbo p))))
                else billy_live (l_store (p_limbo p))));
       SL (map (fun '(a, l) => SL [sn a; SL (map (fun t => sn (t_id t)) l)]) (p_gapped p));
       SL (map sn (sort_N (p_gsrc p)));
       match p_tip p with Some t => sn t | None => SI (-1) end ].

Section Run.
Variable prioE prioB : N -> N -> Z.
Variable gtE gtB nearE nearB : N -> N -> bool.
Variable c : cfg.
Variable blocks : list block.

Definition below_tip (tip : N) (p : pool) : nat :=
  length (filter (fun '(_, l) => existsb (fun m => t_tip (m_tx m) <? tip) l) (p_index p)).

Definition rebuild := heap_rebuild prioE prioB.

(* one op: Ok (Some (pool, errclass, nondet')) or Ok None for a cut *)
Definition step (o : dop) (nondet : bool) (p : pool) : res (option (pool * N * bool)) :=
  match o with
  | DAdd t => do x <- pool_add prioE prioB gtE gtB c t p ; Ok (Some (fst x, snd x, nondet))
  | DTip tip =>
      let raised := match p_tip p with None => true | Some o => o <? tip end in
      let n := below_tip tip p in
      do p1 <- set_gas_tip prioE prioB tip p ;
      do p2 <- (if raised && Nat.leb 2 n then rebuild p1 else Ok p1) ;
      Ok (Some (p2, 0, nondet))
  | DReset b final =>
      let many := match get_block blocks (p_head p) with
                  | Some oldh => match reorg blocks oldh b with
                                 | Some ro => Nat.leb 2 (length (ro_transactors ro))
                                 | None => false end
                  | None => false end in
      do p1 <- pool_reset prioE prioB nearE nearB false false blocks b final p ;
      do p2 <- (if many then rebuild p1 else Ok p1) ;
      Ok (Some (p2, 0, nondet || many))
  | DRestart tip | DCrash tip =>
      let crash := match o with DCrash _ => true | _ => false end in
      if crash && nondet then Ok None else
      let img := if crash then crash_image else close_image in
      match get_block blocks (p_head p) with
      | None => Err 1
      | Some head =>
          do p1 <- pool_init_load prioE prioB false (img (p_store p)) (img (l_store (p_limbo p))) head ;
          let n := below_tip tip p1 in
          do p2 <- set_gas_tip prioE prioB tip p1 ;
          if Nat.leb 2 n && (c_datacap c <? p_stored p2) then Ok None else
          do p3 <- drop_loop prioE prioB gtE gtB c (S (count_txs p2)) p2 ;
          do p4 <- (if Nat.leb 2 n then rebuild p3 else Ok p3) ;
          Ok (Some (p4, 0, nondet))
      end
  end.

Fixpoint run_ops (ops : list dop) (nondet : bool) (p : pool) : list sx :=
  match ops with
  | [] => []
  | o :: rest =>
      match step o nondet p with
      | Err e => [SL [SI (-2); sn e]]
      | Ok None => [SL [SI 99]]
      | Ok (Some (p1, e, nd)) => SL [sn e; dump nd p1] :: run_ops rest nd p1
      end
  end.
End Run.

Definition tables_cover (pe pb : list (N * N * Z)) (txs : list tx) (blocks : list block) : bool :=
  forallb (fun b => forallb (fun t =>
                               match lookup3 pe (b_base b) (t_fee t), lookup3 pb (b_blob b) (t_bfee t) with
                               | Some _, Some _ => true | _, _ => false end) txs) blocks.

Definition C42_run (cs : sx) : sx :=
  match cs with
  | SL [conf; stxs; sblocks; SL [spe; spb; sce; scb; sne; snb]; sops] =>
      match sx_list_of sx_N conf, sx_list_of dec_tx stxs, sx_list_of dec_block sblocks with
      | Some [datacap; bump; naccts; tip0], Some txs, Some ((genesis :: _) as blocks) =>
          match sx_list_of dec_triple spe, sx_list_of dec_triple spb,
                sx_list_of dec_pair sce, sx_list_of dec_pair scb,
                sx_list_of dec_pair sne, sx_list_of dec_pair snb with
          | Some pe, Some pb, Some ce, Some cb, Some ne, Some nb =>
              if negb (tables_cover pe pb txs blocks) then SErr 5 else
              match sx_list_of (dec_op txs blocks) sops with
              | Some ops =>
                  let c := mkCfg datacap bump in
                  let prioE := prio_of pe in let prioB := prio_of pb in
                  let gtE := gt_of ce in let gtB := gt_of cb in
                  match pool_init prioE prioB gtE gtB c false
                                  (crash_image empty_billy) (crash_image empty_billy) genesis tip0 with
                  | Ok p0 =>
                      SL (SL [sn 0; dump false p0] ::
                          run_ops prioE prioB gtE gtB (near_of ne) (near_of nb) c blocks ops false p0)
                  | Err e => SL [SL [SI (-2); sn e]]
                  end
              | None => SErr 4
              end
          | _, _, _, _, _, _ => SErr 3
          end
      | _, _, _ => SErr 1
      end
  | _ => SErr 0
  end.
