(* Run/C43.v — case decoder / observable encoder for the C43 correspondence.
   case   (mode bf pend script)
     mode   0 = exact: run [script] (0 = Shift, 1 = Pop) and report every yield
            1 = ties possible: all-Shift until empty, report per-account projections
     bf     () = nil base fee | (n)
     pend   ((acc ((id nonce feecap tipcap time) ...)) ...)   in iteration order
   result (1)                          the constructor panics (empty account list)
          (0 yields empty tail)        mode 0: yields = ((acc id nonce fee) ...),
                                       empty = Empty() after the run,
                                       tail = (shift-class pop-class) on an empty
                                       iterator (1 = panic), () otherwise
          (0 ((acc (id ...)) ...))     mode 1: per account, in [pend] order *)
From GV Require Import Lib.Sx Pool.Ordering.
Local Open Scope N_scope.

Definition dec_tx (s : sx) : option tx :=
  match s with
  | SL [i; n; f; t; SI tm] =>
      match sx_N i, sx_N n, sx_N f, sx_N t with
      | Some i', Some n', Some f', Some t' => Some (mkTx i' n' f' t' tm)
      | _, _, _, _ => None
      end
  | _ => None
  end.

Definition dec_acc (s : sx) : option (N * list tx) :=
  match s with
  | SL [a; l] =>
      match sx_N a, sx_list_of dec_tx l with
      | Some a', Some l' => Some (a', l')
      | _, _ => None
      end
  | _ => None
  end.

Definition dec_bf (s : sx) : option (option N) :=
  match s with
  | SL [] => Some None
  | SL [b] => match sx_N b with Some b' => Some (Some b') | None => None end
  | _ => None
  end.

Definition dec_op (s : sx) : option op :=
  match s with SI 0%Z => Some OShift | SI 1%Z => Some OPop | _ => None end.

Definition class {A} (r : res A) : sx :=
  match r with Ok _ => SI 0 | Panic => SI 1 | OutOfFuel => SI 3 end.

Definition enc_yield (p : item * op) : sx :=
  let it := fst p in
  SL [sn (it_from it); sn (tx_id (it_tx it)); sn (tx_nonce (it_tx it)); sn (it_fee it)].

Definition total_len (pend : amap) : nat :=
  fold_right (fun p n => (length (snd p) + n)%nat) O pend.

Definition proj_ids (a : N) (tr : list (item * op)) : list sx :=
  map (fun p => sn (tx_id (it_tx (fst p))))
      (filter (fun p => it_from (fst p) =? a) tr).

Definition C43_run (c : sx) : sx :=
  match c with
  | SL [SI mode; bf; pend; script] =>
      match dec_bf bf, sx_list_of dec_acc pend, sx_list_of dec_op script with
      | Some bf', Some pend', Some script' =>
          match new_by_price_and_nonce pend' bf' with
          | Panic => SL [SI 1]
          | OutOfFuel => SL [SI 3]
          | Ok st =>
              match mode with
              | 0%Z =>
                  match run st script' with
                  | Ok (tr, st') =>
                      SL [SI 0; SL (map enc_yield tr); sbool (empty st');
                          if empty st' then SL [class (shift st'); class (pop st')] else SL []]
                  | Panic => SL [SI 2]
                  | OutOfFuel => SL [SI 3]
                  end
              | 1%Z =>
                  match run st (repeat OShift (S (total_len pend'))) with
                  | Ok (tr, st') =>
                      if empty st' then
                        SL [SI 0; SL (map (fun p => SL [sn (fst p); SL (proj_ids (fst p) tr)]) pend')]
                      else SL [SI 4]
                  | Panic => SL [SI 2]
                  | OutOfFuel => SL [SI 3]
                  end
              | _ => SErr 1
              end
          end
      | _, _, _ => SErr 2
      end
  | _ => SErr 0
  end.
