(* Run/C18.v -- case decoder / observable encoder for the C18 correspondence.
   case  ( (limit full maxdiff async mem na ns) op ... )      as Run/C17.v, with
         Config.EnableStateIndexing = true (the indexer has finished its initial phase)
     op  0..4 as in Run/C17.v (Update / Commit / cap / Recover / observe), and
         (5 (root ...))  for every listed root: Database.HistoricReader(root), then
                         AccountRLP / Storage of every key of the universe
         (6 slot root)   create a HistoricReader for root and keep it in [slot]
         (7 slot)        read every key of the universe through the kept reader
         (8)             one index-pruner pass with the real tail, then the reads of op 5 at
                         the oldest retained root ((1) when no history is retained)
   obs   op 5 -> one item per root: (1) refused, or (0 r ...) with r = v | (-1) refused
         op 6 -> (0) created / (1) refused;  op 7 -> (r ...) or (1) when the slot is empty
         op 0..4 additionally report the index metadata: (obs (meta) | ()) *)
From GV Require Import Lib.Sx PathDB.History Run.C17.
Local Open Scope N_scope.

Definition enc_read (r : res N) : sx :=
  match r with Ok v => sn v | Err _ => SI (-1)%Z end.

Definition read_root (univ : list key) (st : db) (root : N) : sx :=
  match historic_reader st root with
  | Err _ => SL [SI 1%Z]
  | Ok rd => SL (SI 0%Z :: map (fun k => enc_read (reader_read st rd k)) univ)
  end.

Definition meta_sx (st : db) : sx :=
  match ix st with
  | Some x => match ix_meta x with Some m => SL [sn m] | None => SL [] end
  | None => SL []
  end.

Fixpoint slot_get (l : list (N * hreader)) (s : N) : option hreader :=
  match l with [] => None | (s', rd) :: r => if s' =? s then Some rd else slot_get r s end.

Definition step18 (univ : list key) (stl : db * list (N * hreader)) (op : sx)
  : option ((db * list (N * hreader)) * sx) :=
  let (st, slots) := stl in
  match op with
  | SL [SI 5%Z; SL rs] =>
      match opt_map dec_n rs with
      | Some rs => Some ((st, slots), SL (map (read_root univ st) rs))
      | None => None
      end
  | SL [SI 6%Z; s; r] =>
      match dec_n s, dec_n r with
      | Some s, Some r =>
          match historic_reader st r with
          | Ok rd => Some ((st, (s, rd) :: slots), SL [SI 0%Z])
          | Err _ => Some ((st, slots), SL [SI 1%Z])
          end
      | _, _ => None
      end
  | SL [SI 7%Z; s] =>
      match dec_n s with
      | Some s =>
          match slot_get slots s with
          | Some rd => Some ((st, slots), SL (map (fun k => enc_read (reader_read st rd k)) univ))
          | None => Some ((st, slots), SL [SI 1%Z])
          end
      | None => None
      end
  | SL [SI 8%Z] =>
      (* index pruner pass (most aggressive cut allowed: the first retained history, for
         every key), then every key at the oldest retained root *)
      let st1 :=
        match ix st with
        | Some x => set_ix st (Some (fold_left (fun x k => ix_prune_key (fr st) x k (fr_tail (fr st) + 1)) univ x))
        | None => st
        end in
      match fr_read (fr st1) (fr_tail (fr st1) + 1) with
      | Some h => Some ((st1, slots), read_root univ st1 (h_parent h))
      | None => Some ((st1, slots), SL [SI 1%Z])
      end
  | _ =>
      match step univ st op with
      | Some (st', o) => Some ((st', slots), SL [o; meta_sx st'])
      | None => None
      end
  end.

Fixpoint steps18 (univ : list key) (stl : db * list (N * hreader)) (ops : list sx) : option (list sx) :=
  match ops with
  | [] => Some []
  | op :: r =>
      match step18 univ stl op with
      | None => None
      | Some (stl', o) =>
          match steps18 univ stl' r with Some os => Some (o :: os) | None => None end
      end
  end.

Definition C18_run (c : sx) : sx :=
  match c with
  | SL (SL [limit; full; maxdiff; _; _; na; ns] :: ops) =>
      match dec_n limit, sx_bool full, sx_nat maxdiff, sx_nat na, sx_nat ns with
      | Some limit, Some full, Some maxdiff, Some na, Some ns =>
          match steps18 (universe na ns) (init_db (mkCfg limit full maxdiff false false false) 0 true, []) ops with
          | Some os => SL os
          | None => SErr 1
          end
      | _, _, _, _, _ => SErr 0
      end
  | _ => SErr 0
  end.
