(* Run/C28.v — case decoder / observable encoder for the C28 correspondence.

   case (0 dirt (op ...))   script on the shared stack arena (EVM/StackArena.v: arun)
        dirt: how the harness dirtied the real arena before the script — ignored by the model
              (the model starts from an all-zero arena of initialStackSize; that earlier contents
              cannot matter is theorem C28_arena_refines_private_stacks)
        op ::= (0) enter | (1) exit | (2 v) push | (3) pop | (4) pop1Peek1 | (5 n) dup n
             | (6 n) swap n | (7 n) read back(n) | (8 n v) write back(n) | (9) len
             | (a k) Data() of the frame k levels below the active one
             | (b x) DUPN | (c x) SWAPN | (d x) EXCHANGE with immediate byte x (EIP-8024: the real
               opDupN/opSwapN/opExchange run on the frame; x >= 256 is not a byte -> class 5)
        -> one observation per op:
           (0) done | (1 w) | (2 w r) | (3 (w ...)) | (4 z) | (5 class)
           classes: 1 underflow, 2 overflow, 3 no such frame, 4 Go panic, 5 not an opcode
   case (1 dirt (op ...))   script on a pooled Memory (EVM/MemoryPool.v: mrun)
        op ::= (0 size) Resize | (1 off size x<value>) Set | (2 off val) Set32
             | (3 dst src len) Copy | (4 off size) GetCopy | (5) Len | (6 newSize) memoryGasCost
             | (7) Free; NewMemory
        -> (0) done | (1 x<bytes>) | (2 n) | (3 class)   classes: 1 panic, 2 gas uint overflow,
           3 Copy/GetCopy not covered by a preceding Resize (outside the interpreter's contract, not executed)
   case (2 ...) / (3 ...) / (4 ...)   whole-EVM independence, precompile-cache and call-history
        (fresh vs shared caches/EVM/arena) cases: decided by the
        direct Go oracle only; the model just echoes the case kind. *)
From GV Require Import Lib.Sx EVM.StackArena EVM.MemoryPool.

Definition run_grow (n : nat) : nat := Z.to_nat frame_room.
Definition run_mgrow (oldcap newlen : nat) : nat := newlen.

Definition word_max : Z := 2 ^ 256.

Definition dec_word (s : sx) : option N :=
  match s with
  | SI z => if ((0 <=? z) && (z <? word_max))%Z then Some (Z.to_N z) else None
  | _ => None
  end.

Definition dec_small (s : sx) : option Z :=
  match s with
  | SI z => if ((-4096 <=? z) && (z <? 4096))%Z then Some z else None
  | _ => None
  end.

Definition dec_imm (s : sx) : option N :=
  match dec_small s with
  | Some z => if (0 <=? z)%Z then Some (Z.to_N z) else None
  | None => None
  end.

Definition dec_sop (s : sx) : option sop :=
  match s with
  | SL [SI 0%Z] => Some OEnter
  | SL [SI 1%Z] => Some OExit
  | SL [SI 2%Z; v] => option_map OPush (dec_word v)
  | SL [SI 3%Z] => Some OPop
  | SL [SI 4%Z] => Some OPop1Peek1
  | SL [SI 5%Z; n] => option_map ODup (dec_small n)
  | SL [SI 6%Z; n] => option_map OSwap (dec_small n)
  | SL [SI 7%Z; n] => option_map OBack (dec_small n)
  | SL [SI 8%Z; n; v] =>
      match dec_small n, dec_word v with
      | Some n', Some v' => Some (OSetBack n' v')
      | _, _ => None
      end
  | SL [SI 9%Z] => Some OLen
  | SL [SI 10%Z; k] =>
      match dec_small k with
      | Some k' => if (0 <=? k')%Z then Some (OData (Z.to_nat k')) else None
      | None => None
      end
  | SL [SI 11%Z; x] => option_map ODupN (dec_imm x)
  | SL [SI 12%Z; x] => option_map OSwapN (dec_imm x)
  | SL [SI 13%Z; x] => option_map OExchange (dec_imm x)
  | _ => None
  end.

Definition enc_sobs (o : sobs) : sx :=
  match o with
  | BUnit => SL [SI 0%Z]
  | BWord w => SL [SI 1%Z; sn w]
  | BWord2 w r => SL [SI 2%Z; sn w; sn r]
  | BWords l => SL [SI 3%Z; SL (map sn l)]
  | BInt z => SL [SI 4%Z; SI z]
  | BErr c => SL [SI 5%Z; SI c]
  end.

(* sizes and offsets of memory scripts: anything representable in a uint64; the ones that
   become lengths of lists are additionally bounded so that the model stays executable *)
Definition dec_u64 (s : sx) : option N :=
  match s with
  | SI z => if ((0 <=? z) && (z <? 18446744073709551616))%Z then Some (Z.to_N z) else None
  | _ => None
  end.

Definition size_cap : N := 1048576.

Definition dec_mop (s : sx) : option mop :=
  match s with
  | SL [SI 0%Z; n] =>
      match dec_u64 n with
      | Some n' => if (n' <=? size_cap)%N then Some (MResize n') else None
      | None => None
      end
  | SL [SI 1%Z; off; sz; SB v] =>
      match dec_u64 off, dec_u64 sz with
      | Some o, Some z => Some (MSet o z v)
      | _, _ => None
      end
  | SL [SI 2%Z; off; v] =>
      match dec_u64 off, dec_word v with
      | Some o, Some w => Some (MSet32 o w)
      | _, _ => None
      end
  | SL [SI 3%Z; d; s0; l] =>
      match dec_u64 d, dec_u64 s0, dec_u64 l with
      | Some d', Some s', Some l' => Some (MCopy d' s' l')
      | _, _, _ => None
      end
  | SL [SI 4%Z; off; sz] =>
      match dec_u64 off, dec_u64 sz with
      | Some o, Some z => Some (MGet o z)
      | _, _ => None
      end
  | SL [SI 5%Z] => Some MLen
  | SL [SI 6%Z; n] => option_map MGas (dec_u64 n)
  | SL [SI 7%Z] => Some (MFreeNew 0)
  | _ => None
  end.

Definition enc_mobs (o : mobs) : sx :=
  match o with
  | MUnit => SL [SI 0%Z]
  | MBytes b => SL [SI 1%Z; SB b]
  | MNum n => SL [SI 2%Z; sn n]
  | MErr c => SL [SI 3%Z; sn c]
  end.

Definition C28_run (c : sx) : sx :=
  match c with
  | SL [SI 0%Z; _; SL ops] =>
      match opt_map dec_sop ops with
      | Some l => SL (map enc_sobs (arun run_grow (mkArena (repeat 0%N initial_stack_size) 0%Z, []) l))
      | None => SErr 1
      end
  | SL [SI 1%Z; _; SL ops] =>
      match opt_map dec_mop ops with
      | Some l => SL (map enc_mobs (mrun run_mgrow (mem_new, []) l))
      | None => SErr 2
      end
  | SL (SI 2%Z :: _) => SL [SI 2%Z]
  | SL (SI 3%Z :: _) => SL [SI 3%Z]
  | SL (SI 4%Z :: _) => SL [SI 4%Z]
  | _ => SErr 0
  end.
