(* Run/C01.v — case decoder / observable encoder for the C01 correspondence.
   Results:  Ok v -> (0 v..)   Err e -> (1 code)      trees: Str b -> x<b>, Lst l -> ( .. )
   case (0 x<b> n)  -> ( DecodeBytes(b,&interface{})  NewStream.Decode + unread length
                         Split  stream Kind+Bytes/Raw (kind, content, unread)  SplitString SplitList SplitUint64 CountValues
                         DecodeBytes into uint8 uint16 uint32 uint64 *big.Int uint256.Int bool []byte [n]byte )
   case (1 tree)    -> x<EncodeToBytes(tree)>
   case (2 i)       -> ( x<enc as *big.Int> [x<enc as uint256> if i<2^256] [x<enc as uint64> x<AppendUint64> if i<2^64] )
   case (3 x<b>)    -> ( x<EncodeToBytes([]byte)> )
   case (4 0|1)     -> ( x<EncodeToBytes(bool)> )
   case (5 x y z..) -> x<EncodeToBytes(struct)> for the fixed struct schema of harness/c01 (see there)
   case (6 x<b>)    -> ()   typed decoding of a mutated struct encoding: oracle on the implementation only *)
From GV Require Import Lib.Sx Lib.Bytes Rlp.Item Rlp.Raw Rlp.Codec Rlp.Stream.
Local Open Scope N_scope.

Fixpoint tree (x : item) : sx :=
  match x with
  | Str b => SB b
  | Lst l => SL (map tree l)
  end.

Fixpoint untree_f (fuel : nat) (s : sx) : option item :=
  match fuel with
  | O => None
  | S f =>
      match s with
      | SB b => Some (Str b)
      | SL l => match opt_map (untree_f f) l with Some l' => Some (Lst l') | None => None end
      | SI _ => None
      end
  end.

Definition ok (l : list sx) : sx := SL (SI 0%Z :: l).
Definition er (e : err) : sx := SL [SI 1%Z; sn (err_code e)].

Definition r_item (r : result item) : sx :=
  match r with Ok x => ok [tree x] | Err e => er e end.
Definition r_stream (r : result (item * list N)) : sx :=
  match r with Ok (x, rest) => ok [tree x; sn (lenN rest)] | Err e => er e end.
Definition r_split (r : result (kind * list N * list N)) : sx :=
  match r with Ok (k, c, rest) => ok [sn (kind_code k); SB c; sn (lenN rest)] | Err e => er e end.
Definition r_split2 (r : result (list N * list N)) : sx :=
  match r with Ok (c, rest) => ok [SB c; sn (lenN rest)] | Err e => er e end.
Definition r_uint (r : result (N * list N)) : sx :=
  match r with Ok (v, rest) => ok [sn v; sn (lenN rest)] | Err e => er e end.
Definition r_count (r : N * option err) : sx :=
  match r with (n, None) => ok [sn n] | (n, Some e) => SL [SI 1%Z; sn (err_code e); sn n] end.
Definition r_N (r : result N) : sx :=
  match r with Ok v => ok [sn v] | Err e => er e end.
Definition r_bool (r : result bool) : sx :=
  match r with Ok v => ok [sbool v] | Err e => er e end.
Definition r_bytes (r : result (list N)) : sx :=
  match r with Ok v => ok [SB v] | Err e => er e end.

Definition two64 : Z := (2 ^ 64)%Z.
Definition two256 : Z := (2 ^ 256)%Z.

(* the fixed struct schema of harness/c01 (type outer), as an item tree *)
Definition inner_item (s : sx) : option item :=
  match s with
  | SL [SI a; SB b; SI c] =>
      Some (Lst [Str (be_bytes (Z.to_N a)); Str b; Str (be_bytes (Z.to_N c))])
  | _ => None
  end.
Definition bytes_item (s : sx) : option item :=
  match s with SB b => Some (Str b) | _ => None end.
Definition outer_item (l : list sx) : option item :=
  match l with
  | [SI x; SB y; SL z; SB str; SI f; SI u; SL bl] =>
      match opt_map inner_item z, opt_map bytes_item bl with
      | Some z', Some bl' =>
          Some (Lst [Str (be_bytes (Z.to_N x)); Str y; Lst z'; Str str;
                     Str (be_bytes (Z.to_N f)); Str (be_bytes (Z.to_N u)); Lst bl'])
      | _, _ => None
      end
  | _ => None
  end.

Definition C01_run (c : sx) : sx :=
  match c with
  | SL [SI 0%Z; SB b; SI n] =>
      SL [ r_item (decode_bytes b); r_stream (stream_decode b);
           r_split (split b); r_split (stream_split b); r_split2 (split_string b); r_split2 (split_list b);
           r_uint (split_uint64 b); r_count (count_values b);
           r_N (decode_bytes_with (uint_ 8) b); r_N (decode_bytes_with (uint_ 16) b);
           r_N (decode_bytes_with (uint_ 32) b); r_N (decode_bytes_with (uint_ 64) b);
           r_N (decode_bytes_with (bigint_ false) b); r_N (decode_bytes_with (bigint_ true) b);
           r_bool (decode_bytes_with bool_ b); r_bytes (decode_bytes_with byteslice_ b);
           r_bytes (decode_bytes_with (byte_array_ (Z.to_N n)) b) ]
  | SL [SI 1%Z; t] =>
      match untree_f 64 t with
      | Some x => SB (enc x)
      | None => SErr 1
      end
  | SL [SI 2%Z; SI i] =>
      if (i <? 0)%Z then SErr 2 else
      let e := SB (enc_uint (Z.to_N i)) in
      SL ([e] ++ (if (i <? two256)%Z then [e] else [])
              ++ (if (i <? two64)%Z then [e; e] else []))
  | SL [SI 3%Z; SB b] => SL [SB (enc_str b)]
  | SL [SI 4%Z; SI v] => SL [SB (enc_bool (negb (v =? 0)%Z))]
  | SL (SI 5%Z :: l) =>
      match outer_item l with
      | Some x => SB (enc x)
      | None => SErr 5
      end
  | SL [SI 6%Z; SB _] => SL []     (* implementation-side oracle only *)
  | _ => SErr 0
  end.
