(* Run/C19.v — case decoder / observable encoder for the C19 correspondence.
   Error classes are [err_code]; 0 = no error.

   (0 (op...))   single-block session on a blockWriter (fresh, desc id 0)
       (0 id) append | (1 id) pop | (2 limit) reopen from finish() bytes with limit
            -> (cls max entries datalen nrestarts)
       (3 q)  blockReader(finish()).readGreaterThan q      -> (pcls) | (0 cls val)
       (4 q)  SeekGT q then Next*                          -> (pcls) | (0 found ecls (ids))
       (5)    Next* from a fresh iterator                  -> (pcls) | (0 1 ecls (ids))
       (6 (ids)) bulk append                               -> ((cls...) max entries datalen nrestarts)
       (7)    dump                                         -> (x<finish()> (elements) full)
       (8 n)  n times pop(last())                          -> ((cls...) max entries datalen nrestarts)
   (1 (op...))   index session over a store
       (0 limit (ids)) newIndexWriter, appends, finish+write -> (opencls) | (0 (cls...) lastID)
       (1 limit (ids)) newIndexDeleter, pops, finish+write   -> (opencls) | (0 (cls...) lastID)
       (2 q) readGreaterThan | (3 q) SeekGT+Next* | (4) Next*  -> as above with opencls
       (5) dump                                              -> (x<meta> ((id x<block>)...))
       (6 tail) index pruner scan with the given tail         -> (blocks-pruned)
   (2 x<blob> (q...))            malformed block: parseIndexBlock, parseIndex, reader queries
   (3 x<meta> ((id x<blob>)...) (q...))   malformed store: index reader queries
   (4 x<blob> max entries limit n)  malformed block under a WRITER: newBlockWriter(blob,
        desc{max,entries}, limit) then n times pop(last()), stopping at the first error
        -> (opencls) | (0 (summary) (cls summary...)...) *)
From GV Require Import Lib.Sx Lib.Uvarint PathDB.Index.
Local Open Scope N_scope.

Definition scls {A} (r : res A) : sx :=
  match r with Ok _ => SI 0%Z | Err e => SI (err_code e) end.
Definition socls (o : option err) : sx :=
  match o with None => SI 0%Z | Some e => SI (err_code e) end.
Definition sns (l : list N) : sx := SL (map sn l).

Definition bw_summary (b : bwriter) : list sx :=
  [sn (d_max (bw_desc b)); sn (d_entries (bw_desc b)); snat (length (bw_data b));
   snat (length (bw_restarts b))].

(* iterate after a seek: (found ecls ids) *)
Definition block_seek_obs (r : breader) (q : N) : sx :=
  match bi_seek_gt r (bi_reset r) q with
  | Err e => SL [SI (err_code e)]
  | Ok (it, found) =>
      if found then
        match bi_drain (S (length (br_data r))) r it [bi_id it] with
        | Err e => SL [SI (err_code e)]
        | Ok (it', ids) => SL [SI 0%Z; sbool true; socls (bi_err it'); sns ids]
        end
      else SL [SI 0%Z; sbool false; socls (bi_err it); sns []]
  end.
Definition block_drain_obs (r : breader) : sx :=
  match bi_drain (S (length (br_data r))) r (bi_reset r) [] with
  | Err e => SL [SI (err_code e)]
  | Ok (it', ids) => SL [SI 0%Z; sbool true; socls (bi_err it'); sns ids]
  end.
Definition read_obs (r : res (res N)) : sx :=
  match r with
  | Err e => SL [SI (err_code e)]
  | Ok (Err e) => SL [SI 0%Z; SI (err_code e); sn 0]
  | Ok (Ok v) => SL [SI 0%Z; SI 0%Z; sn v]
  end.

Fixpoint bulk_append (b : bwriter) (ids : list N) (acc : list sx) : bwriter * list sx :=
  match ids with
  | [] => (b, acc)
  | id :: r => match bw_append b id with
               | Ok b' => bulk_append b' r (acc ++ [SI 0%Z])
               | Err e => bulk_append b r (acc ++ [SI (err_code e)])
               end
  end.
Fixpoint bulk_pop (b : bwriter) (n : nat) (acc : list sx) : bwriter * list sx :=
  match n with
  | O => (b, acc)
  | S n' => match bw_pop b (bw_last b) with
            | Ok b' => bulk_pop b' n' (acc ++ [SI 0%Z])
            | Err e => bulk_pop b n' (acc ++ [SI (err_code e)])
            end
  end.

Definition block_op (b : bwriter) (op : sx) : bwriter * sx :=
  match op with
  | SL [SI 0%Z; SI id] =>
      match bw_append b (Z.to_N id) with
      | Ok b' => (b', SL (SI 0%Z :: bw_summary b'))
      | Err e => (b, SL (SI (err_code e) :: bw_summary b))
      end
  | SL [SI 1%Z; SI id] =>
      match bw_pop b (Z.to_N id) with
      | Ok b' => (b', SL (SI 0%Z :: bw_summary b'))
      | Err e => (b, SL (SI (err_code e) :: bw_summary b))
      end
  | SL [SI 2%Z; SI limit] =>
      match new_block_writer (bw_finish b) (bw_desc b) (Z.to_N limit) with
      | Ok b' => (b', SL (SI 0%Z :: bw_summary b'))
      | Err e => (b, SL (SI (err_code e) :: bw_summary b))
      end
  | SL [SI 3%Z; SI q] =>
      (b, match new_block_reader (bw_finish b) with
          | Err e => SL [SI (err_code e)]
          | Ok r => read_obs (br_read_gt r (Z.to_N q))
          end)
  | SL [SI 4%Z; SI q] =>
      (b, match new_block_reader (bw_finish b) with
          | Err e => SL [SI (err_code e)]
          | Ok r => block_seek_obs r (Z.to_N q)
          end)
  | SL [SI 5%Z] =>
      (b, match new_block_reader (bw_finish b) with
          | Err e => SL [SI (err_code e)]
          | Ok r => block_drain_obs r
          end)
  | SL [SI 6%Z; SL ids] =>
      match opt_map sx_N ids with
      | Some l => let '(b', cl) := bulk_append b l [] in (b', SL (SL cl :: bw_summary b'))
      | None => (b, SErr 2)
      end
  | SL [SI 7%Z] =>
      (b, SL [SB (bw_finish b);
              match block_elems (bw_restarts b) (bw_data b) with
              | Ok l => sns l | Err e => SI (err_code e) end;
              sbool (bw_estimate_full b)])
  | SL [SI 8%Z; SI n] =>
      let '(b', cl) := bulk_pop b (Z.to_nat n) [] in (b', SL (SL cl :: bw_summary b'))
  | _ => (b, SErr 1)
  end.

Fixpoint block_session (b : bwriter) (ops : list sx) : list sx :=
  match ops with
  | [] => []
  | op :: r => let '(b', o) := block_op b op in o :: block_session b' r
  end.

(* ---- index session ---- *)
Fixpoint iw_bulk (w : iwriter) (ids : list N) (acc : list sx) : iwriter * list sx :=
  match ids with
  | [] => (w, acc)
  | id :: r => match iw_append w id with
               | Ok w' => iw_bulk w' r (acc ++ [SI 0%Z])
               | Err e => iw_bulk w r (acc ++ [SI (err_code e)])
               end
  end.
Fixpoint id_bulk (db : idb) (d : ideleter) (ids : list N) (acc : list sx) : ideleter * list sx :=
  match ids with
  | [] => (d, acc)
  | id :: r => match id_pop db d id with
               | Ok d' => id_bulk db d' r (acc ++ [SI 0%Z])
               | Err e => id_bulk db d r (acc ++ [SI (err_code e)])
               end
  end.

Definition db_size (db : idb) : nat :=
  fold_left (fun a kv => (a + length (snd kv))%nat) (db_blocks db) (length (db_meta db)).

Definition index_seek_obs (db : idb) (r : ireader) (q : N) : sx :=
  match ii_seek_gt r (ii_reset r) q with
  | Err e => SL [SI (err_code e)]
  | Ok (it, found) =>
      if found then
        match ii_id it with
        | Err e => SL [SI (err_code e)]
        | Ok v =>
            match ii_drain (S (db_size db)) r it [v] with
            | Err e => SL [SI (err_code e)]
            | Ok (it', ids) => SL [SI 0%Z; sbool true; socls (ii_error it'); sns ids]
            end
        end
      else SL [SI 0%Z; sbool false; socls (ii_error it); sns []]
  end.
Definition index_drain_obs (db : idb) (r : ireader) : sx :=
  match ii_drain (S (db_size db)) r (ii_reset r) [] with
  | Err e => SL [SI (err_code e)]
  | Ok (it', ids) => SL [SI 0%Z; sbool true; socls (ii_error it'); sns ids]
  end.

Definition db_dump (db : idb) : sx :=
  SL [SB (db_meta db); SL (map (fun kv => SL [sn (fst kv); SB (snd kv)]) (db_blocks db))].

Definition index_op (db : idb) (op : sx) : idb * sx :=
  match op with
  | SL [SI 0%Z; SI limit; SL ids] =>
      match opt_map sx_N ids with
      | None => (db, SErr 2)
      | Some l =>
          match new_index_writer db (Z.to_N limit) with
          | Err e => (db, SL [SI (err_code e)])
          | Ok w => let '(w', cl) := iw_bulk w l [] in
                    (iw_finish w' db, SL [SI 0%Z; SL cl; sn (iw_last w')])
          end
      end
  | SL [SI 1%Z; SI limit; SL ids] =>
      match opt_map sx_N ids with
      | None => (db, SErr 2)
      | Some l =>
          match new_index_deleter db (Z.to_N limit) with
          | Err e => (db, SL [SI (err_code e)])
          | Ok d => let '(d', cl) := id_bulk db d l [] in
                    (id_finish d' db, SL [SI 0%Z; SL cl; sn (id_last d')])
          end
      end
  | SL [SI 2%Z; SI q] =>
      (db, match new_index_reader db with
           | Err e => SL [SI (err_code e)]
           | Ok r => read_obs (ir_read_gt r (Z.to_N q))
           end)
  | SL [SI 3%Z; SI q] =>
      (db, match new_index_reader db with
           | Err e => SL [SI (err_code e)]
           | Ok r => index_seek_obs db r (Z.to_N q)
           end)
  | SL [SI 4%Z] =>
      (db, match new_index_reader db with
           | Err e => SL [SI (err_code e)]
           | Ok r => index_drain_obs db r
           end)
  | SL [SI 5%Z] => (db, db_dump db)
  | SL [SI 6%Z; SI tail] =>
      let '(db', n) := prune_entry db (Z.to_N tail) in (db', SL [snat n])
  | _ => (db, SErr 1)
  end.

Fixpoint index_session (db : idb) (ops : list sx) : list sx :=
  match ops with
  | [] => []
  | op :: r => let '(db', o) := index_op db op in o :: index_session db' r
  end.

Definition sdesc (d : desc) : sx := SL [sn (d_max d); sn (d_entries d); sn (d_id d)].

Definition sx_blk (s : sx) : option (N * list N) :=
  match s with SL [SI id; SB b] => Some (Z.to_N id, b) | _ => None end.

Fixpoint bad_pops (b : bwriter) (n : nat) : list sx :=
  match n with
  | O => []
  | S n' => match bw_pop b (bw_last b) with
            | Ok b' => SL (SI 0%Z :: bw_summary b') :: bad_pops b' n'
            | Err e => [SL [SI (err_code e)]]
            end
  end.

Definition C19_run (c : sx) : sx :=
  match c with
  | SL [SI 0%Z; SL ops] => SL (block_session (mkBW (mkDesc 0 0 0) [] []) ops)
  | SL [SI 1%Z; SL ops] => SL (index_session (mkDB [] []) ops)
  | SL [SI 2%Z; SB blob; SL qs] =>
      match opt_map sx_N qs with
      | None => SErr 2
      | Some ql =>
          SL [ match parse_index_block blob with
               | Err e => SL [SI (err_code e)]
               | Ok (rs, d) => SL [SI 0%Z; sns rs; snat (length d)]
               end;
               match parse_index blob with
               | Err e => SL [SI (err_code e)]
               | Ok dl => SL [SI 0%Z; SL (map sdesc dl)]
               end;
               match new_block_reader blob with
               | Err e => SL [SI (err_code e)]
               | Ok r => SL (SI 0%Z :: block_drain_obs r ::
                             map (fun q => SL [read_obs (br_read_gt r q); block_seek_obs r q]) ql)
               end ]
      end
  | SL [SI 3%Z; SB meta; SL blks; SL qs] =>
      match opt_map sx_N qs, opt_map sx_blk blks with
      | Some ql, Some bl =>
          let db := mkDB meta (fold_left (fun bs kv => blk_put bs (fst kv) (snd kv)) bl []) in
          match new_index_reader db with
          | Err e => SL [SI (err_code e)]
          | Ok r => SL (SI 0%Z :: index_drain_obs db r ::
                        map (fun q => SL [read_obs (ir_read_gt r q); index_seek_obs db r q]) ql)
          end
      | _, _ => SErr 2
      end
  | SL [SI 4%Z; SB blob; SI mx; SI en; SI limit; SI n] =>
      match new_block_writer blob (mkDesc (Z.to_N mx) (Z.to_N en) 0) (Z.to_N limit) with
      | Err e => SL [SI (err_code e)]
      | Ok b => SL (SI 0%Z :: SL (bw_summary b) :: bad_pops b (Z.to_nat n))
      end
  | _ => SErr 0
  end.
