(* Run/C31.v — case decoder / observable encoder for the C31 correspondence.
   Depends on model files only: the GENERATED Gas/Budget_gen.v, Gas/Pool_gen.v
   (tools/go2coq) and the op sequencer Gas/BudgetMachine.v.

   case (0 (ex st ue us sp) (op ...))   budget history from a raw initial budget
        op = (0 e s) Charge | (1 r) ChargeExecutionOnly | (2 r) ChargeExecution | (3 s) ChargeState
           | (4 s) RefundState | (5) DrainExecution | (6 e) Forward | (7) ForwardAll
           | (8 x) Absorb(child.Exit(x)) | (9 x) g = g.Exit(x)      x = 0 nil, 1 revert, 2 other
     -> one list per op: (guard  Ex St UE US Sp  depth  IsZero  Used(init)  return values...)
   case (1 (rem ini cu ce cs) (op ...))  gas-pool history from raw fields
        op = (0 a) CheckGasLegacy | (1 e s) CheckGasAmsterdam | (2 r u) ChargeGasLegacy
           | (3 e s u) ChargeGasAmsterdam | (4) Used | (5) Snapshot | (6 (f1..f5)) Set
           | (7) Gas/CumulativeUsed/CumulativeExecution/CumulativeState
     -> one list per op: (rem ini cu ce cs  result...)   error classes: 0 nil, 1 overflow, 2 reached
   case (2 fork blockLimit (tx ...))     real transactions through core.ApplyMessage: no model
     observable (settlement inputs are internal); -> ()  — decided by the harness oracle only *)
From GV Require Import Lib.Sx Gas.GoArith Gas.Budget_gen Gas.Pool_gen Gas.BudgetMachine.
Local Open Scope Z_scope.

Definition sx_u64 (s : sx) : option Z :=
  match s with SI z => if is_u64 z then Some z else None | _ => None end.
Definition sx_i64 (s : sx) : option Z :=
  match s with SI z => if is_i64 z then Some z else None | _ => None end.

Definition dec_exit (z : Z) : option exit_kind :=
  if z =? 0 then Some XSuccess else if z =? 1 then Some XRevert
  else if z =? 2 then Some XHalt else None.

(* an op is a flat list of integers: tag, then arguments *)
Definition sx_ints (s : sx) : option (list Z) :=
  match s with SL l => opt_map sx_u64 l | _ => None end.

Definition dec_op (s : sx) : option op :=
  match sx_ints s with
  | Some (t :: args) =>
      match args with
      | [] => if t =? 5 then Some ODrain else if t =? 7 then Some OForwardAll else None
      | [a] =>
          if t =? 1 then Some (OChargeExecOnly a) else if t =? 2 then Some (OChargeExecution a)
          else if t =? 3 then Some (OChargeState a) else if t =? 4 then Some (ORefund a)
          else if t =? 6 then Some (OForward a)
          else if t =? 8 then option_map OReturn (dec_exit a)
          else if t =? 9 then option_map OExitSelf (dec_exit a) else None
      | [a; b] => if t =? 0 then Some (OCharge a b) else None
      | _ => None
      end
  | _ => None
  end.

Fixpoint run_budget (init : GasBudget) (st : mstate) (ops : list op) : list sx :=
  match ops with
  | [] => []
  | o :: r =>
      SL (map SI (zb (guard st o) :: mobs init st o)) :: run_budget init (mstep st o) r
  end.

(* ---- gas pool ---- *)

Inductive pop :=
| PCheckLegacy (a : Z) | PCheckAmsterdam (e s : Z) | PChargeLegacy (r u : Z)
| PChargeAmsterdam (e s u : Z) | PUsed | PSnapshot | PSet (o : GasPool) | PGetters.

Definition dec_pool (s : sx) : option GasPool :=
  match sx_ints s with
  | Some [a; b; c; d; e] => Some (mkGasPool a b c d e)
  | _ => None
  end.

Definition dec_pop (s : sx) : option pop :=
  match s with
  | SL [SI t; SL p] => if t =? 6 then option_map PSet (dec_pool (SL p)) else None
  | _ =>
  match sx_ints s with
  | Some (t :: args) =>
      match args with
      | [] => if t =? 4 then Some PUsed else if t =? 5 then Some PSnapshot
              else if t =? 7 then Some PGetters else None
      | [a] => if t =? 0 then Some (PCheckLegacy a) else None
      | [a; b] => if t =? 1 then Some (PCheckAmsterdam a b)
                  else if t =? 2 then Some (PChargeLegacy a b) else None
      | [a; b; c] => if t =? 3 then Some (PChargeAmsterdam a b c) else None
      | _ => None
      end
  | _ => None
  end
  end.

Definition errcls (e : Z) : Z :=
  if e =? 0 then 0 else if e =? ErrGasLimitOverflow then 1
  else if e =? ErrGasLimitReached then 2 else 99.

Definition pfields (gp : GasPool) : list Z :=
  [ GasPool_remaining gp; GasPool_initial gp; GasPool_cumulativeUsed gp;
    GasPool_cumulativeExecution gp; GasPool_cumulativeState gp ].

(* new pool and the result part of the observation *)
Definition pstep (gp : GasPool) (o : pop) : GasPool * list sx :=
  match o with
  | PCheckLegacy a => let '(g, e) := GasPool_CheckGasLegacy gp a in (g, [SI (errcls e)])
  | PCheckAmsterdam a b => let '(g, e) := GasPool_CheckGasAmsterdam gp a b in (g, [SI (errcls e)])
  | PChargeLegacy r u => let '(g, e) := GasPool_ChargeGasLegacy gp r u in (g, [SI (errcls e)])
  | PChargeAmsterdam a b c => let '(g, e) := GasPool_ChargeGasAmsterdam gp a b c in (g, [SI (errcls e)])
  | PUsed => match GasPool_Used gp with
             | Some (g, v) => (g, [SL [SI v]])
             | None => (gp, [SL []])
             end
  | PSnapshot => let '(g, s) := GasPool_Snapshot gp in (g, map SI (pfields s))
  | PSet o => (GasPool_Set gp o, [])
  | PGetters =>
      let '(g1, a) := GasPool_Gas gp in
      let '(g2, b) := GasPool_CumulativeUsed g1 in
      let '(g3, c) := GasPool_CumulativeExecution g2 in
      let '(g4, d) := GasPool_CumulativeState g3 in
      (g4, [SI a; SI b; SI c; SI d])
  end.

Fixpoint run_pool (gp : GasPool) (ops : list pop) : list sx :=
  match ops with
  | [] => []
  | o :: r => let '(g, res) := pstep gp o in SL (map SI (pfields g) ++ res) :: run_pool g r
  end.

Definition dec_budget (s : sx) : option GasBudget :=
  match s with
  | SL [a; b; c; d; e] =>
      match sx_u64 a, sx_u64 b, sx_u64 c, sx_i64 d, sx_u64 e with
      | Some a, Some b, Some c, Some d, Some e => Some (mkGasBudget a b c d e)
      | _, _, _, _, _ => None
      end
  | _ => None
  end.

Definition C31_run (c : sx) : sx :=
  match c with
  (* kind 2: blocks of real transactions, checked by the Go-side oracle only *)
  | SL [SI 2; _; _; _] => SL []
  | SL [SI k; i; SL ops] =>
      if k =? 0 then
        match dec_budget i, opt_map dec_op ops with
        | Some init, Some ops => SL (run_budget init (mkM init []) ops)
        | _, _ => SErr 1
        end
      else if k =? 1 then
        match dec_pool i, opt_map dec_pop ops with
        | Some gp, Some ops => SL (run_pool gp ops)
        | _, _ => SErr 2
        end
      else SErr 0
  | _ => SErr 0
  end.
