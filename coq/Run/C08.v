(* Run/C08.v — case decoder / observable encoder for the C08 correspondence.
   case = ( (trie..) (query..) ),  trie = ((x<key> x<value>)..) applied with Update
   (empty value = delete) to an empty in-memory trie.
     (0 ti x<key>)                     Trie.Prove on trie ti  -> (0 ((x<hash> x<enc>)..)) the Puts in order
     (1 ti x<key>)                     VerifyProof(Hash(ti), key, Prove(key))
     (2 ti x<key> ((x<k> x<blob>)..))  VerifyProof(Hash(ti), key, db)   db = the Puts in order
     (3 x<root> x<key> (..))           VerifyProof(root, key, db)
   VerifyProof result: (0 ()) absent | (0 (x<value>)) | (1 i) node i missing |
     (2 i code) bad node i (decode error class) | (3) panic | (4) no termination.
   observation = ( (x<root>..) (result..) ). *)
From GV Require Import Lib.Sx Keccak.Sponge Rlp.Item Trie.Hex Trie.Node Trie.Ops Trie.Hash Trie.Proof.

Definition no_resolve (h p : list N) : option (node * list N) := None.

Definition terr_code (e : terr) : Z :=
  match e with EMissing => 1 | EPanic => 2 | EFuel => 3 end%Z.
Definition serr (e : terr) : sx := SL [SI (-2)%Z; SI (terr_code e)].

(* io.ErrUnexpectedEOF for an empty buffer and from the rlp splitters print alike *)
Definition derr_code (e : derr) : N :=
  match e with
  | DEmpty => err_code ErrUnexpectedEOF
  | DRlp e => err_code e
  | DCount => 100
  | DOversized => 101
  | DRefSize => 102
  | DFuel => 199
  end%N.

Definition vres_sx (r : vres) : sx :=
  match r with
  | VOk v => SL [SI 0%Z; sopt SB v]
  | VErr (VMissing i) => SL [SI 1%Z; snat i]
  | VErr (VBad i e) => SL [SI 2%Z; snat i; sn (derr_code e)]
  | VErr VPanic => SL [SI 3%Z]
  | VErr VLoop => SL [SI 4%Z]
  end.

Definition kv_of (s : sx) : option (list N * list N) :=
  match s with SL [SB k; SB v] => Some (k, v) | _ => None end.

Definition build (s : sx) : option (tres node) :=
  match s with
  | SL kvs =>
      match opt_map kv_of kvs with
      | Some l => Some (match update_seq no_resolve NEmpty l with
                        | TOk (t, _) => TOk t
                        | TErr e => TErr e
                        end)
      | None => None
      end
  | _ => None
  end.

Definition root_of (t : tres node) : option (list N) :=
  match t with TOk n => hash_root keccak256 n | TErr _ => None end.

Definition db_sx (db : pdb) : sx := SL (map (fun kv => SL [SB (fst kv); SB (snd kv)]) db).

Definition run_query (tries : list (tres node * option (list N))) (q : sx) : sx :=
  let with_trie (ti : sx) (f : node -> option (list N) -> sx) : sx :=
    match sx_nat ti with
    | Some i =>
        match nth_error tries i with
        | Some (TOk t, r) => f t r
        | Some (TErr e, _) => serr e
        | None => SErr 2
        end
    | None => SErr 1
    end in
  match q with
  | SL [SI 0%Z; ti; SB k] =>
      with_trie ti (fun t _ =>
        match prove keccak256 no_resolve t k with
        | TOk db => SL [SI 0%Z; db_sx db]
        | TErr e => serr e
        end)
  | SL [SI 1%Z; ti; SB k] =>
      with_trie ti (fun t r =>
        match prove keccak256 no_resolve t k, r with
        | TOk db, Some r => vres_sx (verify_proof r k db)
        | TErr e, _ => serr e
        | _, None => serr EPanic
        end)
  | SL [SI 2%Z; ti; SB k; SL db] =>
      match opt_map kv_of db with
      | Some d =>
          with_trie ti (fun t r =>
            match r with
            | Some r => vres_sx (verify_proof r k d)
            | None => serr EPanic
            end)
      | None => SErr 1
      end
  | SL [SI 3%Z; SB r; SB k; SL db] =>
      match opt_map kv_of db with
      | Some d => vres_sx (verify_proof r k d)
      | None => SErr 1
      end
  | _ => SErr 0
  end.

Definition C08_run (c : sx) : sx :=
  match c with
  | SL [SL ts; SL qs] =>
      match opt_map build ts with
      | Some tries =>
          let tr := map (fun t => (t, root_of t)) tries in
          SL [SL (map (fun t => match snd t with Some r => SB r | None => SL [SI (-2)%Z; SI 2%Z] end) tr);
              SL (map (run_query tr) qs)]
      | None => SErr 0
      end
  | _ => SErr 0
  end.
