(* Run/C50.v — case decoder / observable encoder for the C50 correspondence.
   case (0 0 (cs...) x)      -> caseList.find: index, or -1
   case (0 1 (cs...) idx)    -> caseList.delete: ((cs'...)) or () when Go panics
   case (0 2 (cs...) idx)    -> caseList.deactivate: (((cs[:last]...) (backing array...))) or ()
   case (1 meta (events...)) -> history recorded from the real Feed/FeedOf, checked by the
   case (2 meta (events...))    model as an acceptor: the six verdict bits of Event.Feed.accept_bits
   event: (0 s) SubInv  (1 s) SubRet  (2 v) SendInv  (3 v cnt) SendRet
          (4 s) UnsubInv (5 s) UnsubRet (6 s v late) Recv *)
From GV Require Import Lib.Sx Event.Feed.

Definition znat (z : Z) : option nat := if (z <? 0)%Z then None else Some (Z.to_nat z).
Definition slist (l : list nat) : sx := SL (map snat l).

Definition dec_ev (e : sx) : option hev :=
  match e with
  | SL [SI 0%Z; a] => option_map HSubInv (sx_N a)
  | SL [SI 1%Z; a] => option_map HSubRet (sx_N a)
  | SL [SI 2%Z; a] => option_map HSendInv (sx_N a)
  | SL [SI 3%Z; a; b] =>
      match sx_N a, sx_N b with Some v, Some c => Some (HSendRet v c) | _, _ => None end
  | SL [SI 4%Z; a] => option_map HUnsubInv (sx_N a)
  | SL [SI 5%Z; a] => option_map HUnsubRet (sx_N a)
  | SL [SI 6%Z; a; b; l] =>
      match sx_N a, sx_N b, sx_bool l with
      | Some s, Some v, Some lt => Some (HRecv s v lt)
      | _, _, _ => None
      end
  | _ => None
  end.

Definition C50_run (c : sx) : sx :=
  match c with
  | SL [SI 0%Z; SI op; cs; SI x] =>
      match sx_list_of sx_nat cs with
      | None => SErr 1
      | Some l =>
          match op with
          | 0%Z => match znat x with
                   | None => SI (-1)
                   | Some xv => match cl_find Nat.eqb l xv with
                                | Some i => snat i
                                | None => SI (-1)
                                end
                   end
          | 1%Z => sopt slist (cl_delete l (znat x))
          | 2%Z => match znat x with
                   | None => SL []
                   | Some i => sopt (fun pw => SL [slist (fst pw); slist (snd pw)]) (cl_deactivate l i)
                   end
          | _ => SErr 2
          end
      end
  | SL [SI 1%Z; _; evs] | SL [SI 2%Z; _; evs] =>
      match sx_list_of dec_ev evs with
      | None => SErr 3
      | Some h => SL (map sbool (accept_bits h))
      end
  | _ => SErr 0
  end.
