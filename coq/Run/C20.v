(* Run/C20.v -- case decoder / observable encoder for the C20 correspondence.
   case  ( (limit full maxdiff jfile na ns) op ... )
           limit = Config.StateHistory, full = 1: WriteBufferSize 0 / 0: 64 MiB,
           maxdiff = maxDiffLayers, jfile = 1: Config.JournalDirectory is set,
           na / ns = number of accounts / slots per account
     op  (0 root v0 (spec ...))  Database.Update(root, parent = head): account 0 := v0 and
                                 spec = (a del va ((s v) ...)): del = 1 deletes account a with
                                 all its slots (skipped when absent), else account a := va and
                                 slot s := v (v = 0 deletes; skipped when absent); original
                                 values are those of the head state
         (1 p)                   Database.Commit of the p-th diff layer from the top
         (2)                     Database.Journal(head)
         (3)                     Close, then pathdb.New
         (5 k)                   Database.Recover to the ancestor k states below the disk layer
         (4 i fs js op)          op, but the process dies after its i-th persistence event
                                 (i mod number of crash points); cut fs (1 = metadata last
                                 fsync'ed), js (1 = durable journal file); then pathdb.New
   obs   per op  (class (kind ...) after ((reopen ...) ...))
           class 0 ok, 3 read-only, 4 unrecoverable, 9 other; kind = persistence event
           kinds in order; after = state of the live database; then for the world before
           the first and after every event the reopen observation for every cut
           (fs, js) in [0,0] [0,1] [1,0] [1,1]  -- js = 1 only with a journal file
         state   (diskRoot diskID bufLayers nDiffs frHead frTail persistentID (v ...) (v ...))
                 dumps over accounts 0..na-1 (account value, then its ns slots): the disk
                 layer's view, then the store
         reopen  (class) for a failed open (1 gap, 2 truncation range) | (0 state) *)
From GV Require Import Lib.Sx PathDB.History PathDB.Journal.
Local Open Scope N_scope.

Definition universe (na ns : nat) : list key :=
  flat_map (fun a => KA (N.of_nat a) :: map (fun s => KS (N.of_nat a) (N.of_nat s)) (seq 0 ns))
           (seq 0 na).

Definition obs_world (univ : list key) (w : world) : sx :=
  let o := w_dk w in
  SL [sn (disk_root o); sn (disk_id o); sn (buf_layers o); snat (length (w_diffs w));
      sn (fr_head (w_fr w)); sn (fr_tail (w_fr w)); sn (pid o);
      SL (map (fun k => sn (eff o k)) univ); SL (map (fun k => sn (pflat o k)) univ)].

Definition obs_reopen (univ : list key) (jfile : bool) (w : world) : sx :=
  let cuts := if jfile
              then [mkCut false 0 false; mkCut false 0 true; mkCut true 0 false; mkCut true 0 true]
              else [mkCut false 0 false; mkCut true 0 false] in
  SL (map (fun c => match snd (open (crash c w)) with
                    | Done w' => SL [SI 0%Z; obs_world univ w']
                    | Fail e _ => SL [sn e]
                    end) cuts).

(* ---- transitions --------------------------------------------------------------------- *)

Definition dec_slot (s : sx) : option (N * N) :=
  match s with
  | SL [a; b] => match sx_N a, sx_N b with Some a, Some b => Some (a, b) | _, _ => None end
  | _ => None
  end.

Definition dec_spec (s : sx) : option (N * bool * N * list (N * N)) :=
  match s with
  | SL [a; d; v; SL sl] =>
      match sx_N a, sx_bool d, sx_N v, opt_map dec_slot sl with
      | Some a, Some d, Some v, Some sl => Some (a, d, v, sl)
      | _, _, _, _ => None
      end
  | _ => None
  end.

(* the changes of one spec on top of state m: (account changes, slot changes) *)
Definition resolve_spec (m : key -> N) (ns : nat) (sp : N * bool * N * list (N * N))
  : list change * list change :=
  let '(a, del, va, sl) := sp in
  if del then
    if m (KA a) =? 0 then ([], []) else
    ([mkChange (KA a) (m (KA a)) 0],
     flat_map (fun s => let k := KS a (N.of_nat s) in
                        if m k =? 0 then [] else [mkChange k (m k) 0]) (seq 0 ns))
  else
    ((if a =? 0 then [] else [mkChange (KA a) (m (KA a)) va]),
     flat_map (fun p => let k := KS a (fst p) in
                        if (m k =? 0) && (snd p =? 0) then [] else [mkChange k (m k) (snd p)]) sl).

Definition resolve (m : key -> N) (ns : nat) (v0 : N) (specs : list (N * bool * N * list (N * N)))
  : list change :=
  let rs := map (resolve_spec m ns) specs in
  mkChange (KA 0) (m (KA 0)) v0 :: flat_map fst rs ++ flat_map snd rs.

(* ---- operations ------------------------------------------------------------------------ *)

Fixpoint dec_op (fuel : nat) (w : world) (ns : nat) (s : sx) : option hop :=
  match s with
  | SL [SI 0%Z; r; v0; SL specs] =>
      match sx_N r, sx_N v0, opt_map dec_spec specs with
      | Some r, Some v0, Some specs => Some (HUpdate (mkTr r (resolve (head_state w) ns v0 specs)))
      | _, _, _ => None
      end
  | SL [SI 1%Z; p] => match sx_nat p with Some p => Some (HCommit p) | None => None end
  | SL [SI 2%Z] => Some HJournal
  | SL [SI 3%Z] => Some HReopen
  | SL [SI 5%Z; k] => match sx_nat k with Some k => Some (HRecover k) | None => None end
  | SL [SI 4%Z; i; fs; js; o] =>
      match fuel with
      | O => None
      | S fu =>
          match sx_nat i, sx_bool fs, sx_bool js, dec_op fu w ns o with
          | Some i, Some fs, Some js, Some o' => Some (HCrash i (mkCut fs 0 js) o')
          | _, _, _, _ => None
          end
      end
  | _ => None
  end.

(* the Recover of the checked-out /repo: 2 = journal dropped before the first revert
   (86d61ccd46); 1 = after the revert loop (045cec3993); 0 = never *)
Definition C20_recover_mode : N := 2.

Definition class_of (o : outc) : sx := match o with Done _ => SI 0%Z | Fail e _ => sn e end.

(* observation of one operation and the next live world ([None]: the history stops) *)
Definition obs_op (univ : list key) (w : world) (o : hop) : sx * option world :=
  let r := run_op w o in
  let after := match o, snd r with
               | HReopen, Fail _ _ => SL []
               | _, _ => obs_world univ (out_world (snd r))
               end in
  let kinds := match o with HReopen => [] | _ => map (fun e => sn (fst e)) (fst r) end in
  let class := match o with HReopen => SI 0%Z | _ => class_of (snd r) end in
  (SL [class; SL kinds; after; SL (map (obs_reopen univ (w_jfile w)) (crash_points w o))],
   step w o).

Fixpoint run_ops (univ : list key) (ns : nat) (w : world) (ops : list sx) : list sx :=
  match ops with
  | [] => []
  | s :: r =>
      match dec_op 2 w ns s with
      | None => [SErr 2]
      | Some o =>
          let (ob, nw) := obs_op univ w o in
          match nw with
          | Some w' => ob :: run_ops univ ns w' r
          | None => [ob]
          end
      end
  end.

Definition C20_run (c : sx) : sx :=
  match c with
  | SL (SL [limit; full; maxdiff; jfile; na; ns] :: ops) =>
      match sx_N limit, sx_bool full, sx_nat maxdiff, sx_bool jfile, sx_nat na, sx_nat ns with
      | Some limit, Some full, Some maxdiff, Some jfile, Some na, Some ns =>
          SL (run_ops (universe na ns) ns (init_world (mkJCfg limit full maxdiff C20_recover_mode) jfile 0) ops)
      | _, _, _, _, _, _ => SErr 1
      end
  | _ => SErr 0
  end.
