(* Run/C34.v — case decoder / observable encoder for the C34 correspondence.
   (formats: see the header of harness/c34/main.go)

   kind 0  ( 0 scheme ( trie.. ) ( op.. ) ( junk.. ) ( removal.. ) )
     the initial tries are built and committed with the C07 model (Trie/Commit.v) into
     one hash store (scheme 0) or one path store per trie (scheme 1: the owner prefix of
     the path database keeps the tries apart); the session is run over it with
     Trie/Witness.v, the witness is collected the way geth does (path-keyed pre-value maps
     -> Witness.AddState set), turned into a hash store (MakeHashDB) and the session is
     re-run over it, then again with single nodes removed.
   kind 1  ( 1 seed mode nblocks nremovals )  block level: the EVM is not modelled; the
     model answers with what the theorems predict for a block whose state accesses are
     a deterministic function of the values read: stateless roots = full roots (1 1) and
     no removal of a required node goes unnoticed (0). *)
From GV Require Import Lib.Sx Keccak.Sponge Trie.Hex Trie.Node Trie.Ops Trie.Hash Trie.Commit Trie.Witness.

Definition terr_code (e : terr) : Z :=
  match e with EMissing => 1 | EPanic => 2 | EFuel => 3 end%Z.
Definition serr (e : terr) : sx := SL [SI (-2)%Z; SI (terr_code e)].

(* ---- building the committed tries (Go: trie.NewEmpty / trie.New at the empty root,
   Update.., Commit, triedb.Update + Commit) ---- *)
Fixpoint updates (sc : scheme) (s : store) (ss : sess) (kvs : list sx) : option sess :=
  match kvs with
  | [] => Some ss
  | SL [SB k; SB v] :: r =>
      match sess_update keccak256 sc s ss k v with
      | TOk ss' => updates sc s ss' r
      | TErr _ => None
      end
  | _ => None
  end.

Definition build_trie (sc : scheme) (s : store) (kvs : list sx) : option (list N * store) :=
  match open_trie keccak256 sc s (keccak256 empty_root_preimage) with
  | TErr _ => None
  | TOk ss0 =>
      match updates sc s ss0 kvs with
      | None => None
      | Some ss =>
          match commit keccak256 ss with
          | None => None
          | Some (root, Some ns) => Some (root, apply_nodeset sc ns s)
          | Some (root, None) => Some (root, s)
          end
      end
  end.

(* (roots, stores): hash scheme = one shared store repeated, path scheme = one per trie *)
Fixpoint build_tries (sc : scheme) (shared : store) (tries : list sx)
  : option (list (list N) * list store * store) :=
  match tries with
  | [] => Some ([], [], shared)
  | SL kvs :: r =>
      match build_trie sc (match sc with HashScheme => shared | PathScheme => [] end) kvs with
      | None => None
      | Some (root, s') =>
          match build_tries sc (match sc with HashScheme => s' | PathScheme => shared end) r with
          | None => None
          | Some (roots, stores, fin) => Some (root :: roots, s' :: stores, fin)
          end
      end
  | _ => None
  end.

(* "c34-unknown-root" *)
Definition bogus_tag : list N :=
  [99; 51; 52; 45; 117; 110; 107; 110; 111; 119; 110; 45; 114; 111; 111; 116]%N.
Definition bogus_root (j : N) : list N := keccak256 (bogus_tag ++ [N.modulo j 256]).

(* decode the operations; also the initial-trie index each session was opened from *)
Fixpoint decode_ops (roots : list (list N)) (ops : list sx) : option (list sop * list nat) :=
  match ops with
  | [] => Some ([], [])
  | o :: r =>
      match decode_ops roots r with
      | None => None
      | Some (l, js) =>
          match o with
          | SL [SI 3%Z; SI j] =>
              let jn := Z.to_nat j in
              if (j <? 0)%Z then None
              else match nth_error roots jn with
                   | Some root => Some (SOpen root :: l, jn :: js)
                   | None => Some (SOpen (bogus_root (Z.to_N j)) :: l, O :: js)
                   end
          | SL [SI 0%Z; SI i; SB k; SB v] => if (i <? 0)%Z then None else Some (SUpd (Z.to_nat i) k v :: l, js)
          | SL [SI 1%Z; SI i; SB k] => if (i <? 0)%Z then None else Some (SDel (Z.to_nat i) k :: l, js)
          | SL [SI 2%Z; SI i; SB k] => if (i <? 0)%Z then None else Some (SGet (Z.to_nat i) k :: l, js)
          | _ => None
          end
      end
  end.

Fixpoint vals_sx (ops : list sop) (vs : list (option (list N))) : list sx :=
  match ops, vs with
  | SGet _ _ :: r, v :: vr => sopt SB v :: vals_sx r vr
  | _ :: r, _ :: vr => vals_sx r vr
  | _, _ => []
  end.

Definition res_sx (ops : list sop) (r : tres (list (option (list N)) * list node * list sev)) : sx :=
  match r with
  | TErr e => serr e
  | TOk (vs, st, _) =>
      match state_roots keccak256 st with
      | None => serr EPanic
      | Some hs => SL [SI 1%Z; SL (vals_sx ops vs); SL (map SB hs)]
      end
  end.

Fixpoint drop_nth {A} (i : nat) (l : list A) : list A :=
  match l, i with
  | [], _ => []
  | _ :: r, O => r
  | x :: r, S i' => x :: drop_nth i' r
  end.

Definition run_trie_case (scz : Z) (tries ops junk removals : list sx) : sx :=
  let sc := if (scz =? 0)%Z then HashScheme else PathScheme in
  match build_tries sc [] tries with
  | None => SL [SI 0%Z; SI (-3)%Z]
  | Some (roots, stores, shared) =>
      match decode_ops roots ops, opt_map sx_bytes junk, opt_map sx_Z removals with
      | Some (sops, js), Some junkb, Some rems =>
          let rs : nat -> resolver := fun i =>
            match sc with
            | HashScheme => resolve_of keccak256 HashScheme shared
            | PathScheme =>
                match nth_error js i with
                | Some j => match nth_error stores j with
                            | Some s => resolve_of keccak256 PathScheme s
                            | None => fun _ _ => None
                            end
                | None => fun _ _ => None
                end
            end in
          let full := run keccak256 rs [] sops in
          match full with
          | TErr _ => SL [SI 0%Z; SL (map SB roots); res_sx sops full]
          | TOk (_, st, evs) =>
              let w := collect (length st) evs in
              let db := make_hash_db keccak256 (witness_nodes w) in
              let nodes := map snd db in                  (* sorted by hash *)
              let rerun (bl : list (list N)) := res_sx sops (run_stateless keccak256 bl sops) in
              SL [SI 0%Z; SL (map SB roots); res_sx sops full;
                  rerun (nodes ++ junkb);
                  sbool (tracer_complete (length st) evs);
                  SL (map (fun kv => SB (fst kv)) db);
                  SL (map (fun r =>
                             match nodes with
                             | [] => SL []
                             | _ => rerun (drop_nth (Z.to_nat (r mod Z.of_nat (length nodes))) nodes ++ junkb)
                             end) rems)]
          end
      | _, _, _ => SErr 2
      end
  end.

Definition C34_run (c : sx) : sx :=
  match c with
  | SL [SI 0%Z; SI sc; SL tries; SL ops; SL junk; SL removals] => run_trie_case sc tries ops junk removals
  | SL [SI 1%Z; SI _; SI _; SI _; SI _] => SL [SI 1%Z; SI 1%Z; SI 1%Z; SI 0%Z]
  | _ => SErr 0
  end.
