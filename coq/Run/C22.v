(* Run/C22.v — case decoder / observable encoder for the C22 correspondence.
   case  (variant kind seek acct c n wb (L_0 ... L_{m-1}))      layers oldest first
     variant 0 = pathdb (stack = diffs ++ [buffer; disk]; observables fast + binary)
             1 = legacy snapshot tree (stack = diffs ++ [accumulator?] ++ [disk]; fast only)
     kind    0 = account iterator, 1 = storage iterator of account [acct]
     c       = the first c layers were committed to disk (Commit / Cap(root,0))
     n       = afterwards cap(head, n) was applied (0 = not applied)
     wb      = bit 0 clear: pathdb WriteBufferSize = 0, every capped layer is flushed to disk
               at once instead of staying in the buffer (bit 1: NoAsyncFlush, not observable)
     L       = (accounts storages), accounts = ((k v) ...) ascending, v = () | (x<blob>),
               storages = ((acct ((k v) ...)) ...)
   obs   (fast binary), each (0 ((k x<blob>) ...)) or (1 errclass)
   case  (2 wb (op ...))   a history on one pathdb database (PathDB/IterHist.v):
     op = (0 L) Update | (1) Commit(head) | (2 n) cap(head, n) | (3 kind acct seek skip) iterate
     obs = ((fast binary) ...) one pair per iterate op, in order *)
From GV Require Import Lib.Sx PathDB.Iter PathDB.IterHist.

Definition dec_value (s : sx) : option value :=
  match s with
  | SL [] => Some None
  | SL [SB b] => Some (Some b)
  | _ => None
  end.

Definition dec_entry (s : sx) : option (key * value) :=
  match s with
  | SL [k; v] => match sx_N k, dec_value v with
                 | Some k, Some v => Some (k, v) | _, _ => None end
  | _ => None
  end.

Definition dec_map (s : sx) : option layer := sx_list_of dec_entry s.

Definition dec_storage (s : sx) : option (key * layer) :=
  match s with
  | SL [a; m] => match sx_N a, dec_map m with
                 | Some a, Some m => Some (a, m) | _, _ => None end
  | _ => None
  end.

Definition dec_layer (s : sx) : option (layer * list (key * layer)) :=
  match s with
  | SL [a; st] => match dec_map a, sx_list_of dec_storage st with
                  | Some a, Some st => Some (a, st) | _, _ => None end
  | _ => None
  end.

Fixpoint strictly_asc (l : list N) : bool :=
  match l with
  | a :: ((b :: _) as r) => N.ltb a b && strictly_asc r
  | _ => true
  end.

(* stateSet.storageData[account] (absent = no slots known to this set) *)
Fixpoint storage_of (a : key) (st : list (key * layer)) : layer :=
  match st with
  | [] => []
  | (a', m) :: r => if N.eqb a a' then m else storage_of a r
  end.

Definition enc_err (e : err) : sx :=
  SL [SI 1; SI (match e with OutOfFuel => 0 | IndexOOB => 1 | NotFound => 2 end)%Z].

Definition enc_res (r : res (list (key * list N))) : sx :=
  match r with
  | Ok l => SL [SI 0; SL (map (fun kv => SL [sn (fst kv); SB (snd kv)]) l)]
  | Err e => enc_err e
  end.

(* the physical stack the database is in after: Update(L_0..L_{m-1}) with a
   Commit after the first c layers, then cap(head, n) *)
Definition physical (variant : N) (flushcap : bool) (ls : list layer) (c n : nat) : stack :=
  let disk := fold_left flush_states (firstn c ls) [] in
  let rest := skipn c ls in
  let r := length rest in
  if (n =? 0) || (r <=? n) then
    rev rest ++ (if N.eqb variant 0 then [[]; disk] else [disk])
  else if flushcap then
    (* pathdb: each capped layer is merged into the (empty) buffer and flushed at once;
       legacy: the accumulator layer is flattened first, then written by one diffToDisk *)
    if N.eqb variant 0
    then rev (skipn (r - n) rest) ++ [[]; fold_left flush_states (firstn (r - n) rest) disk]
    else rev (skipn (r - n) rest)
           ++ [flush_states disk (fold_left merge_states (firstn (r - n) rest) [])]
  else
    let buffer := fold_left merge_states (firstn (r - n) rest) [] in
    rev (skipn (r - n) rest) ++ [buffer; disk].

Definition layer_ok (l : layer * list (key * layer)) : bool :=
  strictly_asc (key_list (fst l)) && strictly_asc (map fst (snd l)) &&
  forallb (fun am => strictly_asc (key_list (snd am))) (snd l).

Definition dec_op (s : sx) : option hop :=
  match s with
  | SL [SI 0%Z; l] =>
      match dec_layer l with
      | Some l => if layer_ok l then Some (HUpdate (fst l) (snd l)) else None
      | None => None end
  | SL [SI 1%Z] => Some HCommit
  | SL [SI 2%Z; n] => match sx_nat n with Some n => Some (HCap n) | None => None end
  | SL [SI 3%Z; kind; acct; seek; skip] =>
      match sx_N kind, sx_N acct, sx_N seek, sx_nat skip with
      | Some kind, Some acct, Some seek, Some skip => Some (HIter kind acct seek skip)
      | _, _, _, _ => None end
  | _ => None
  end.

Definition C22_run (c : sx) : sx :=
  match c with
  | SL [SI 2%Z; wb; SL ops] =>
      match sx_N wb, opt_map dec_op ops with
      | Some wb, Some ops =>
          SL (map (fun fb => SL [enc_res (fst fb); enc_res (snd fb)])
                  (snd (h_run (negb (N.odd wb)) h_empty ops)))
      | _, _ => SErr 0
      end
  | SL [variant; kind; seek; acct; cc; n; wb; SL layers] =>
      match sx_N variant, sx_N kind, sx_N seek, sx_N acct, sx_nat cc, sx_nat n, sx_N wb,
            opt_map dec_layer layers with
      | Some variant, Some kind, Some seek, Some acct, Some cc, Some n, Some wb, Some ls =>
          let proj := map (fun l => if N.eqb kind 0 then fst l else storage_of acct (snd l)) ls in
          if forallb (fun l => strictly_asc (key_list l)) proj then
            (* legacy: the disk layer produced by the initial (empty) generation keeps its
               generator handle, which makes the first Cap persist the accumulator *)
            let flushcap := if N.eqb variant 0 then negb (N.odd wb) else (cc =? 0) in
            let s := physical variant flushcap proj cc n in
            if N.eqb variant 0
            then SL [enc_res (fast_iter s seek); enc_res (binary_iter s seek)]
            else SL [enc_res (fast_iter s seek)]
          else SErr 1
      | _, _, _, _, _, _, _, _ => SErr 0
      end
  | _ => SErr 0
  end.
