(* Run/C25.v — case decoder / observable encoder for the C25 correspondence.

   case  ( (block ...) (event ...) )
     block = ( number hash flags hdr_blob parent body rcpt bal (txhash ...) seed... )
             hash, txhash : numbers (first 8 bytes of the real hash); blobs are the
             6/8-byte fingerprints of the real RLP blobs (x = empty / not written);
             parent = () | (hash);  only the first nine fields are read here.
             flags: 1 canonical mapping, 2 header not written, 4 body not written,
                    8 receipts not written, 16 (bal written: blob non-empty), 32 tx lookups
     event = (0 hb hh fin)     markers := hashes (0 = delete marker)
           | (1)               complete freezer iteration
           | (2 stop mode late) iteration interrupted at stop 0..5, crash, reopen
                               mode: which unsynced freezer files are lost (no effect on the model)
   obs   ( state ... )   one per visible state:
     state = ( tag frozen open_check (view ...) (hasbal ...) (txview ...) )  views in block order *)
From GV Require Import Lib.Sx Storage.ChainFreezer.
Local Open Scope N_scope.

Record blk := mkBlk {
  b_num : N; b_hash : N; b_flags : N; b_hdr : blob; b_parent : option N;
  b_body : blob; b_rcpt : blob; b_bal : blob; b_txs : list N }.

Definition dec_parent (s : sx) : option (option N) :=
  match s with
  | SL [] => Some None
  | SL [p] => match sx_N p with Some v => Some (Some v) | None => None end
  | _ => None
  end.

Definition dec_blk (s : sx) : option blk :=
  match s with
  | SL (n :: h :: fl :: SB hd :: par :: SB bo :: SB rc :: SB ba :: txs :: _) =>
      match sx_N n, sx_N h, sx_N fl, dec_parent par, sx_list_of sx_N txs with
      | Some n', Some h', Some fl', Some par', Some txs' =>
          Some (mkBlk n' h' fl' hd par' bo rc ba txs')
      | _, _, _, _, _ => None
      end
  | _ => None
  end.

Definition dec_event (s : sx) : option event :=
  match s with
  | SL [SI 0%Z; a; b; c] =>
      match sx_N a, sx_N b, sx_N c with
      | Some a', Some b', Some c' => Some (EvMarkers a' b' c')
      | _, _, _ => None
      end
  | SL [SI 1%Z] => Some EvCycle
  | SL [SI 2%Z; k; m; _] =>
      match sx_nat k, sx_N m with
      | Some k', Some m' => Some (EvCrash k' m')   (* keep is resolved in [resolve] *)
      | _, _ => None
      end
  | _ => None
  end.

Definition flag (fl : N) (bit : N) : bool := N.testbit fl bit.

Definition empty_kv : kvs := mkKV [] [] [] [] [] [] [] 0 0 0.

(* rawdb.Write* calls of the harness, in block order *)
Definition write_blk (k : kvs) (b : blk) : kvs :=
  let key := (b_num b, b_hash b) in
  let wr_hdr := negb (flag (b_flags b) 1) in
  mkKV (if flag (b_flags b) 0 then put1 (b_num b) (b_hash b) (k_canon k) else k_canon k)
       (if wr_hdr then put2 key (b_hdr b) (k_hdr k) else k_hdr k)
       (if flag (b_flags b) 2 then k_body k else put2 key (b_body b) (k_body k))
       (if flag (b_flags b) 3 then k_rcpt k else put2 key (b_rcpt b) (k_rcpt k))
       (if flag (b_flags b) 4 then put2 key (b_bal b) (k_bal k) else k_bal k)
       (if wr_hdr then put1 (b_hash b) (b_num b) (k_num k) else k_num k)
       (if flag (b_flags b) 5 && negb (b_num b =? 0)
        then fold_left (fun m th => put1 th (b_num b) m) (b_txs b) (k_txl k) else k_txl k)
       (k_head_block k) (k_head_header k) (k_final k).

(* the three Section variables, instantiated from the case *)
Fixpoint be (b : blob) (acc : N) : N :=
  match b with [] => acc | x :: r => be r (acc * 256 + x) end.
Definition keccak_i (b : blob) : hash := be b 0.

Fixpoint beqb (a b : blob) : bool :=
  match a, b with
  | [], [] => true
  | x :: a', y :: b' => (x =? y) && beqb a' b'
  | _, _ => false
  end.

Definition parent_i (bs : list blk) (d : blob) : option hash :=
  match find (fun b => beqb (b_hdr b) d) bs with
  | Some b => b_parent b
  | None => None
  end.

Fixpoint index_of (x : N) (l : list N) (i : N) : option N :=
  match l with [] => None | y :: r => if x =? y then Some i else index_of x r (i + 1) end.

Definition find_tx_i (bs : list blk) (d : blob) (th : N) : option N :=
  match find (fun b => beqb (b_body b) d) bs with
  | Some b => index_of th (b_txs b) 0
  | None => None
  end.

(* the crash cut: whatever part of the unsynced files survives, the repair of the real
   freezer (C24) truncates every table back to its last flushed offset, so the head
   found after reopening is the durable count in every mode *)
Definition resolve (po : blob -> option hash) (bl : N) (s : st) (e : event) : event :=
  match e with
  | EvCrash stop mode =>
      let t := stop_state po bl s stop in
      EvCrash stop (f_durable (s_fz t))
  | _ => e
  end.

Definition sblob (b : blob) : sx := SB b.
Definition sview (v : view) : sx :=
  SL [ sn (v_canon v); sblob (v_hdr v); sbool (v_has_hdr v); sopt sn (v_parent v);
       sblob (v_body v); sblob (v_cbody v); sblob (v_cbody_nil v); sbool (v_has_body v);
       sblob (v_rcpt v); sblob (v_crcpt v); sblob (v_crcpt_nil v); sbool (v_has_rcpt v);
       sblob (v_bal v); sopt sn (v_num v) ].

Section Obs.
Variable bs : list blk.
Let kc := keccak_i.
Let po := parent_i bs.
Let ft := find_tx_i bs.

Definition stx (s : st) (th : N) : sx :=
  sopt (fun r : hash * N * N => SL [sn (fst (fst r)); sn (snd (fst r)); sn (snd r)])
       (read_canonical_tx ft s th).

Definition has_bal_obs (s : st) (b : blk) : sx := sbool (has_access_list s (b_hash b) (b_num b)).

Definition sstate (tag : N) (s : st) : sx :=
  SL [ sn tag; sn (frozen (s_fz s));
       SL (map (fun b => sview (view_of kc po s (b_hash b) (b_num b))) bs);
       SL (map (has_bal_obs s) bs);
       SL (map (stx s) (flat_map b_txs bs)) ].

Definition bl := freezer_batch_limit.

Fixpoint obs_run (s : st) (evs : list event) : list sx :=
  match evs with
  | [] => []
  | e :: r =>
      let e' := resolve po bl s e in
      let vis := visible po bl s e' in
      let oc := match e' with
                | EvCycle => [SL [sn 9; match fst (cycle po bl s) with
                                        | Backoff c => if c <? 10 then sn 1 else sn 10
                                        | Froze true => sn 0
                                        | Froze false => sn 99
                                        end]]
                | _ => []
                end in
      let s' := step po bl s e' in
      let pre := removelast vis in
      let tag := match e' with EvMarkers _ _ _ => 0 | EvCycle => 1 | EvCrash _ _ => 2 end in
      match e' with
      | EvCrash _ _ =>
          (* the crashed state is observed only if the database opens again *)
          if open_check s' =? 0
          then map (sstate tag) vis ++ [SL [sn 8; sn 0]] ++ obs_run s' r
          else map (sstate tag) pre ++ [SL [sn 8; sn (open_check s')]]
      | _ => map (sstate tag) vis ++ oc ++ obs_run s' r
      end
  end.
End Obs.


(* ---------------- the large-scale stream (kind 7) ----------------
   case ( 7 q r a cycles ((m o len) ...) ): a canonical chain 0..H with H = F + a and the
   finalized block F = q*L + r - 1, where L is the batch limit, so that the first cycle is
   capped by the limit whenever r >= 1; side branches of [len] blocks fork off the canonical
   block m*L + o.  The implementation runs it with the real limit L = 30000; the model —
   parametric in the limit, the theorems hold for every limit — runs the same scenario with
   L = 64 and both sides report a summary in which every block number is written relative
   to L:  per cycle ( class frozen/L frozen%L (window ...) (side ...) ), window entries
   ( header-in-KV  in-freezer  all-accessors-as-before ) for the numbers m*L+o (m <= q,
   |o| <= 2), F-1..F+2, H-1, H; side entries ( header body receipts number ) in the KV. *)
Definition big_L : N := 64.

Definition be4 (n : N) : blob :=
  [ (n / 16777216) mod 256; (n / 65536) mod 256; (n / 256) mod 256; n mod 256 ].

Definition big_blk (num h par : N) (canon : bool) : blk :=
  mkBlk num h (if canon then 1 else 0) (be4 h) (Some par) (1 :: be4 h) (2 :: be4 h) [] [].

Definition canon_hash (n : N) : N := 1000 + n.

Fixpoint big_canon (count : nat) (n : N) : list blk :=
  match count with
  | O => []
  | S c => big_blk n (canon_hash n) (if n =? 0 then 0 else canon_hash (n - 1)) true
           :: big_canon c (n + 1)
  end.

Fixpoint big_side (len : nat) (i : N) (j : N) (num par : N) : list blk :=
  match len with
  | O => []
  | S l => let h := 2000000 + i * 1000 + j in
           big_blk num h par false :: big_side l i (j + 1) (num + 1) h
  end.

Fixpoint big_sides (specs : list (N * Z * N)) (i : N) : list blk :=
  match specs with
  | [] => []
  | (m, o, len) :: r =>
      let p := Z.to_N (Z.of_N (m * big_L) + o) in
      big_side (N.to_nat len) i 0 (p + 1) (canon_hash p) ++ big_sides r (i + 1)
  end.

Definition dec_side (s : sx) : option (N * Z * N) :=
  match s with
  | SL [m; SI o; l] => match sx_N m, sx_N l with
                       | Some m', Some l' => Some (m', o, l')
                       | _, _ => None
                       end
  | _ => None
  end.

Definition opt_N_eqb (a b : option N) : bool :=
  match a, b with Some x, Some y => x =? y | None, None => true | _, _ => false end.

Definition view_same (v w : view) : bool :=
  (v_canon v =? v_canon w) && beqb (v_hdr v) (v_hdr w) && Bool.eqb (v_has_hdr v) (v_has_hdr w) &&
  beqb (v_body v) (v_body w) && beqb (v_cbody v) (v_cbody w) && beqb (v_cbody_nil v) (v_cbody_nil w) &&
  Bool.eqb (v_has_body v) (v_has_body w) &&
  beqb (v_rcpt v) (v_rcpt w) && beqb (v_crcpt v) (v_crcpt w) && beqb (v_crcpt_nil v) (v_crcpt_nil w) &&
  Bool.eqb (v_has_rcpt v) (v_has_rcpt w) && beqb (v_bal v) (v_bal w) &&
  opt_N_eqb (v_num v) (v_num w) && opt_N_eqb (v_parent v) (v_parent w).

Definition big_window (q f h : N) : list N :=
  flat_map (fun m => if m =? 0 then [0; 1; 2]
                     else [m * big_L - 2; m * big_L - 1; m * big_L; m * big_L + 1; m * big_L + 2])
           (seqN 0 (N.to_nat (q + 1)))
  ++ [f - 1; f; f + 1; f + 2; h - 1; h].

Section Big.
Variable bs : list blk.
Variable s0 : st.
Variables q f h : N.
Let po := parent_i bs.

Definition big_state (cls : N) (t : st) : sx :=
  SL [ sn cls; sn (frozen (s_fz t) / big_L); sn (frozen (s_fz t) mod big_L);
       SL (map (fun w =>
                  let c := read_canonical_hash s0 w in
                  SL [ sbool (kv_has (w, c) (k_hdr (s_kv t))); sbool (w <? frozen (s_fz t));
                       sbool (view_same (view_of keccak_i po t c w) (view_of keccak_i po s0 c w)) ])
               (big_window q f h));
       SL (map (fun b : blk =>
                  let key := (b_num b, b_hash b) in
                  SL [ sbool (kv_has key (k_hdr (s_kv t))); sbool (kv_has key (k_body (s_kv t)));
                       sbool (kv_has key (k_rcpt (s_kv t)));
                       sbool (match get1 (b_hash b) (k_num (s_kv t)) with Some _ => true | None => false end) ])
               (filter (fun b => negb (flag (b_flags b) 0)) bs)) ].

Fixpoint big_cycles (n : nat) (t : st) : list sx :=
  match n with
  | O => []
  | S n' =>
      let cls := match fst (cycle po big_L t) with
                 | Backoff c => if c <? 10 then 1 else 10
                 | Froze true => 0
                 | Froze false => 99
                 end in
      let t' := step po big_L t EvCycle in
      big_state cls t' :: big_cycles n' t'
  end.
End Big.

Definition big_run (q r a cycles : N) (specs : list (N * Z * N)) : sx :=
  let f := q * big_L + r - 1 in
  let h := f + a in
  let bs := big_canon (N.to_nat (h + 1)) 0 ++ big_sides specs 0 in
  let k := fold_left write_blk bs empty_kv in
  let s0 := set_markers (canon_hash h) (canon_hash h) (canon_hash f) (mkSt k (mkFrz [] 0)) in
  SL (big_cycles bs s0 q f h (N.to_nat cycles) s0).

Definition C25_run (c : sx) : sx :=
  match c with
  | SL [SI 7%Z; q; r; a; cyc; SL sides] =>
      match sx_N q, sx_N r, sx_N a, sx_N cyc, opt_map dec_side sides with
      | Some q', Some r', Some a', Some cyc', Some specs =>
          if (1 <=? q') && (q' <=? 3) && (1 <=? q' * big_L + r') && (r' + a' <? 40) && (3 <=? a') && (cyc' <=? 6)
          then big_run q' r' a' cyc' specs else SErr 2
      | _, _, _, _, _ => SErr 1
      end
  | SL [SL bsx; SL evx] =>
      match opt_map dec_blk bsx, opt_map dec_event evx with
      | Some bs, Some evs =>
          let k := fold_left write_blk bs empty_kv in
          let s0 := mkSt k (mkFrz [] 0) in
          SL (sstate bs 0 s0 :: obs_run bs s0 evs)
      | _, _ => SErr 1
      end
  | _ => SErr 0
  end.
