(* Run/C13.v — case decoder / observable encoder for the C13 correspondence.
   case = ( db ops ) | ( db ops 1 )     the second form is "quiet": no dump between ops
     db  = ( (addr nonce balance code ((slot value) ...)) ... )   committed pre-state
     ops = ( (tag args...) ... )      tags 0..19: StateDB calls, see [dec_op];
                                      (20 rules) IntermediateRoot, (21 a k) one read, see [dec_rop]
   output = one item per op: ( x dump ) where x = out (0 none | 1 panic | id+2) for a call,
   ( out x<root> ) for IntermediateRoot, and just ( GetState GetCommittedState Exist ) for a
   read; dump = all getters over addresses 1..4, slots 0..3, tx hashes 1..5 (see
   [dump_with]).  Quiet: x per op, one dump at the end.  Last item: the model-side check
   that the reference model agrees (getters, return values, and the model root at every
   IntermediateRoot).  [C13_run] runs the implementation model State/Journal.v;
   [C13_run_ref] runs the reference State/Ref.v (used by hand only). *)
From stdpp Require Import gmap.
From GV Require Import Lib.Sx Keccak.Sponge State.Ref State.Journal State.Root.
Local Open Scope N_scope.

Definition dec_rules (n : N) : rules :=
  {| r158 := N.testbit n 0; rAms := N.testbit n 1; r2929 := N.testbit n 2; rShanghai := N.testbit n 3 |}.

Definition dec_al_entry (s : sx) : option (addr * list slot) :=
  match s with
  | SL [a; ks] => match sx_N a, sx_list_of sx_N ks with
                  | Some a, Some ks => Some (a, ks) | _, _ => None end
  | _ => None
  end.

Definition dec_op (s : sx) : option op :=
  match s with
  | SL (SI tag :: args) =>
      match tag, opt_map sx_N (match tag with 19%Z => [] | _ => args end) with
      | 0%Z, Some [a] => Some (OCreateAccount a)
      | 1%Z, Some [a] => Some (OCreateContract a)
      | 2%Z, Some [a; v] => Some (OAddBalance a v)
      | 3%Z, Some [a; v] => Some (OSubBalance a v)
      | 4%Z, Some [a; v] => Some (OSetBalance a v)
      | 5%Z, Some [a; v] => Some (OSetNonce a v)
      | 6%Z, Some [a; v] => Some (OSetCode a v)
      | 7%Z, Some [a; k; v] => Some (OSetState a k v)
      | 8%Z, Some [a; k; v] => Some (OSetTransient a k v)
      | 9%Z, Some [a] => Some (OSelfDestruct a)
      | 10%Z, Some [a] => Some (OSelfDestruct6780 a)
      | 11%Z, Some [a] => Some (OAddAddress a)
      | 12%Z, Some [a; k] => Some (OAddSlot a k)
      | 13%Z, Some [g] => Some (OAddRefund g)
      | 14%Z, Some [g] => Some (OSubRefund g)
      | 15%Z, Some [a; d] => Some (OAddLog a d)
      | 16%Z, Some [] => Some OSnapshot
      | 17%Z, Some [id] => Some (ORevert id)
      | 18%Z, Some [r] => Some (OFinalise (dec_rules r))
      | 19%Z, _ =>
          match args with
          | [th; ti; r; sender; coinbase; dst; al] =>
              match sx_N th, sx_N ti, sx_N r, sx_N sender, sx_N coinbase,
                    sx_list_of sx_N dst, sx_list_of dec_al_entry al with
              | Some th, Some ti, Some r, Some sender, Some coinbase, Some dst, Some al =>
                  Some (OTxStart th ti (dec_rules r) sender coinbase (head dst) al)
              | _, _, _, _, _, _, _ => None
              end
          | _ => None
          end
      | _, _ => None
      end
  | _ => None
  end.

Definition dec_slotval (s : sx) : option (slot * word) :=
  match s with SL [k; v] => match sx_N k, sx_N v with Some k, Some v => Some (k, v) | _, _ => None end
             | _ => None end.

Definition dec_dbacct (s : sx) : option (addr * dbacct) :=
  match s with
  | SL [a; n; b; c; st] =>
      match sx_N a, sx_N n, sx_N b, sx_N c, sx_list_of dec_slotval st with
      | Some a, Some n, Some b, Some c, Some st =>
          Some (a, {| d_acct := {| a_nonce := n; a_bal := b; a_code := c |};
                      d_stor := list_to_map st |})
      | _, _, _, _, _ => None
      end
  | _ => None
  end.

Definition enc_out (w : out) : sx :=
  match w with RNone => SI 0 | RPanic => SI 1 | RId n => sn (n + 2) end.

Definition enc_answer (x : answer) : sx :=
  match x with
  | AB b => sbool b
  | AN n => sn n
  | AL l => SL (map (λ e, SL [sn (l_ti e); sn (l_idx e); sn (l_addr e); sn (l_data e)]) l)
  end.

Definition addrs4 : list addr := [1; 2; 3; 4].
Definition slots4 : list slot := [0; 1; 2; 3].
Definition hashes5 : list N := [1; 2; 3; 4; 5].

Definition all_queries : list query :=
  concat (map (λ a,
    [QExist a; QEmpty a; QBalance a; QNonce a; QCode a; QCodeHash a; QSelfDestructed a;
     QNewContract a; QAddrInAL a]
    ++ concat (map (λ k, [QState a k; QCommitted a k; QTransient a k; QSlotInAL a k]) slots4)) addrs4)
  ++ [QRefund] ++ map QLogs hashes5.

Definition dump_with (q : query → answer) : sx := SL (map (λ x, enc_answer (q x)) all_queries).

(* ---- run-level operations: a StateDB call, IntermediateRoot, or a single read ----
   (20 rules)  StateDB.IntermediateRoot(rules): on the models it is Finalise (the fields it
               changes besides - StateDB.mutations/applied, uncommittedStorage, data.Root,
               tries - are not part of the C13 models); its return value is compared with
               the MODEL ROOT computed from scratch from the model's accounts (State/Root.v)
   (21 a k)    a read of one slot: ( GetState GetCommittedState Exist ) - pure on the
               models, fills read caches of the implementation (used in quiet histories) *)
Definition K := keccak256.
Inductive rop := ROp (o : op) | RRoot (r : rules) | RPeek (a : addr) (k : slot).

Definition dec_rop (s : sx) : option rop :=
  match s with
  | SL [SI 20%Z; r] => RRoot ∘ dec_rules <$> sx_N r
  | SL [SI 21%Z; a; k] => match sx_N a, sx_N k with Some a, Some k => Some (RPeek a k) | _, _ => None end
  | _ => ROp <$> dec_op s
  end.

Definition enc_root (o : option (list N)) : sx :=
  match o with Some h => SB h | None => SErr 98 end.
Definition peek_with (q : query → answer) (a : addr) (k : slot) : sx :=
  SL [enc_answer (q (QState a k)); enc_answer (q (QCommitted a k)); enc_answer (q (QExist a))].

(* one run-level step of the implementation model: new state, and the observation
   without the full dump *)
Definition rstep_j (j : jstate) (o : rop) : jstate * sx * bool :=
  match o with
  | ROp o => let '(j', w) := step_j j o in (j', enc_out w, true)
  | RRoot r => let '(j', w) := step_j j (OFinalise r) in (j', SL [enc_out w; enc_root (root_j K j')], true)
  | RPeek a k => (j, peek_with (query_j j) a k, false)
  end.
Definition rstep_r (s : rstate) (o : rop) : rstate * sx * bool :=
  match o with
  | ROp o => let '(s', w) := step_r s o in (s', enc_out w, true)
  | RRoot r => let '(s', w) := step_r s (OFinalise r) in (s', SL [enc_out w; enc_root (root_r K s')], true)
  | RPeek a k => (s, peek_with (query_r s) a k, false)
  end.

Fixpoint run_dump_j (j : jstate) (ops : list rop) : list sx :=
  match ops with
  | [] => []
  | o :: rest =>
      let '(j', x, dump) := rstep_j j o in
      (if j_bad j' then SErr 99 else if dump then SL [x; dump_with (query_j j')] else x) :: run_dump_j j' rest
  end.

Fixpoint run_dump_r (s : rstate) (ops : list rop) : list sx :=
  match ops with
  | [] => []
  | o :: rest =>
      let '(s', x, dump) := rstep_r s o in
      (if dump then SL [x; dump_with (query_r s')] else x) :: run_dump_r s' rest
  end.

(* case (db ops) : dump after every op;  case (db ops 1) : "quiet" — only the return
   values per op and ONE dump at the end (the implementation's getters fill read caches,
   so a history observed only at its end exercises the unloaded-cache paths) *)
Definition dec_case (c : sx) : option (database * list rop * bool) :=
  match c with
  | SL (db :: ops :: rest) =>
      match sx_list_of dec_dbacct db, sx_list_of dec_rop ops, rest with
      | Some db, Some ops, [] => Some (list_to_map db, ops, false)
      | Some db, Some ops, [SI 1%Z] => Some (list_to_map db, ops, true)
      | _, _, _ => None
      end
  | _ => None
  end.

Fixpoint run_quiet_j (j : jstate) (ops : list rop) : list sx * jstate :=
  match ops with
  | [] => ([], j)
  | o :: rest =>
      let '(j', x, _) := rstep_j j o in
      let '(l, jf) := run_quiet_j j' rest in
      ((if j_bad j' then SErr 99 else x) :: l, jf)
  end.

(* Cross-check of the refinement statement itself, on every case: 1 unless the history
   is inside the guards ([hist_ok_b]) and the reference model disagrees with the
   implementation model on some return value or some getter after some op. *)
Global Instance out_eq_dec : EqDecision out.
Proof. solve_decision. Defined.
Global Instance answer_eq_dec : EqDecision answer.
Proof. solve_decision. Defined.

Definition rop_op (o : rop) : option op :=
  match o with ROp o => Some o | RRoot r => Some (OFinalise r) | RPeek _ _ => None end.

Fixpoint agree_run (j : jstate) (s : rstate) (ops : list rop) : bool :=
  match ops with
  | [] => true
  | ro :: rest =>
      match rop_op ro with
      | None => agree_run j s rest
      | Some o =>
          let '(j', w) := step_j j o in
          let '(s', w') := step_r s o in
          bool_decide (w = w') && forallb (λ q, bool_decide (query_j j' q = query_r s' q)) all_queries
          && (match ro with RRoot _ => bool_decide (root_j K j' = root_r K s') | _ => true end)
          && agree_run j' s' rest
      end
  end.

Fixpoint hist_ok_b (j : jstate) (ops : list rop) : bool :=
  match ops with
  | [] => true
  | ro :: rest =>
      match rop_op ro with
      | None => hist_ok_b j rest
      | Some o => op_ok j o && hist_ok_b (step_j j o).1 rest
      end
  end.

Definition C13_run (c : sx) : sx :=
  match dec_case c with
  | Some (db, ops, quiet) =>
      SL ((if quiet
           then let '(l, jf) := run_quiet_j (init_j db) ops in l ++ [dump_with (query_j jf)]
           else run_dump_j (init_j db) ops)
          ++ [sbool (negb (hist_ok_b (init_j db) ops) || agree_run (init_j db) (init_r db) ops)])
  | None => SErr 0
  end.

Definition C13_run_ref (c : sx) : sx :=
  match dec_case c with
  | Some (db, ops, _) => SL (run_dump_r (init_r db) ops)
  | None => SErr 0
  end.

Definition C13_guard (c : sx) : sx :=
  match dec_case c with
  | Some (db, ops, _) => sbool (hist_ok_b (init_j db) ops)
  | None => SErr 0
  end.
