(* Run/C14.v — case decoder / observable encoder for the C14 correspondence.
   case  = ( cfg ( block.. ) )      cfg: Go-side configuration (scheme, readers, prefetcher); ignored here
   block = ( rules ( item.. ) )     rules as in Run/C13.v [dec_rules]
   item  = (0 op)                   one StateDB call, op as in Run/C13.v [dec_op]
         | (1)                      IntermediateRoot(rules) between transactions
         | (2 swap ( op.. ))        c := s.Copy(); when swap = 1 the COPY continues as the main state and the
                                    original becomes the side branch; the ops run on the side branch, which
                                    stays alive until the end of the block
   The chain starts from the empty state; every block runs on state.New(previous root).
   observation = ( blockobs.. ), blockobs = ( itemobs.. sideroot.. x<root1> pdump x<root2> pdump' )
     itemobs for (0 op) = out (0 none | 1 panic | id+2);  for (1) = ( x<root> pdump );
     for (2 ..) = ( (out..) dump_side dump_main );  sideroot = x<root> of IntermediateRoot on a side branch
     at block end (or the error); root1 = IntermediateRoot, pdump = persistent getters before Commit,
     root2 = Commit, pdump' = persistent getters of state.New(root2).
   An error yields (-2 class) in place of the remaining observations of the block and stops the run.
   Harness limitation (both sides): with the path scheme or a snapshot tree (cfg bits 0, 1) a chain
   whose new root equals an EARLIER root of the same chain other than its parent cannot be added to
   the layer tree (layers are keyed by root; real chains never revisit a root because nonces grow);
   such a block ends with ( .. x<root1> pdump 3 ) before Commit and the run stops. *)
From stdpp Require Import gmap.
From GV Require Import Lib.Sx Keccak.Sponge Trie.Node State.Ref State.Journal State.Commit Run.C13.
Local Open Scope N_scope.

Definition K := keccak256.

Definition cerr_code (e : cerr) : Z :=
  match e with
  | CMissing => 1 | CDecode => 2 | CCode => 3 | CWipe => 4 | CNilObj => 5 | CEnc => 6
  | CTrie EMissing => 11 | CTrie EPanic => 12 | CTrie EFuel => 13
  end%Z.
Definition serr (e : cerr) : sx := SL [SI (-2)%Z; SI (cerr_code e)].

Definition persistent_queries : list query :=
  concat (map (λ a,
    [QExist a; QEmpty a; QBalance a; QNonce a; QCode a; QCodeHash a]
    ++ concat (map (λ k, [QState a k; QCommitted a k]) slots4)) addrs4).
Definition pdump (cs : cstate) : sx := SL (map (λ q, enc_answer (query_c cs q)) persistent_queries).
Definition fdump (cs : cstate) : sx := dump_with (query_c cs).

Fixpoint run_ops_c (cs : cstate) (ops : list op) : cstate * list sx :=
  match ops with
  | [] => (cs, [])
  | o :: rest =>
      let '(cs', w) := step_c K cs o in
      let '(csf, l) := run_ops_c cs' rest in
      (csf, (if j_bad (c_j cs') then SErr 99 else enc_out w) :: l)
  end.

(* the items of one block: Some (main, sides, observations, stopped) *)
Fixpoint run_items (r : rules) (p : pdb) (cs : cstate) (sides : list cstate) (items : list sx)
  : option (cstate * list cstate * list sx * bool) :=
  match items with
  | [] => Some (cs, sides, [], false)
  | SL [SI 0%Z; o] :: rest =>
      match dec_op o with
      | None => None
      | Some o =>
          let '(cs', w) := step_c K cs o in
          match run_items r p cs' sides rest with
          | Some (m, s, l, st) => Some (m, s, (if j_bad (c_j cs') then SErr 99 else enc_out w) :: l, st)
          | None => None
          end
      end
  | SL [SI 1%Z] :: rest =>
      match intermediate_root K r p cs with
      | CErr e => Some (cs, sides, [serr e], true)
      | COk (root, cs') =>
          match run_items r p cs' sides rest with
          | Some (m, s, l, st) => Some (m, s, SL [SB root; pdump cs'] :: l, st)
          | None => None
          end
      end
  | SL [SI 2%Z; sw; SL ops] :: rest =>
      match sx_bool sw, opt_map dec_op ops with
      | Some sw, Some ops =>
          let c := copy cs in
          let '(main, side) := if sw then (c, cs) else (cs, c) in
          let '(side', outs) := run_ops_c side ops in
          match run_items r p main (sides ++ [side']) rest with
          | Some (m, s, l, st) => Some (m, s, SL [SL outs; fdump side'; fdump main] :: l, st)
          | None => None
          end
      | _, _ => None
      end
  | _ => None
  end.

Definition side_root (r : rules) (p : pdb) (c : cstate) : sx :=
  match intermediate_root K r p c with COk (root, _) => SB root | CErr e => serr e end.

(* the end of a block: (observations, next state) ; None = stop *)
Definition end_block (layered : bool) (seen : list (list N)) (r : rules) (p : pdb) (cs : cstate)
  : list sx * option (pdb * cstate) :=
  match intermediate_root K r p cs with
  | CErr e => ([serr e], None)
  | COk (root1, cs1) =>
      if layered && negb (bool_decide (root1 = c_root cs1)) && bool_decide (root1 ∈ seen)
      then ([SB root1; pdump cs1; SI 3], None)
      else
      match commit K r p cs1 with
      | CErr e => ([SB root1; pdump cs1; serr e], None)
      | COk (root2, p') =>
          match open K addrs4 slots4 p' root2 with
          | CErr e => ([SB root1; pdump cs1; SB root2; serr e], None)
          | COk cs' => ([SB root1; pdump cs1; SB root2; pdump cs'], Some (p', cs'))
          end
      end
  end.

Fixpoint run_blocks (layered : bool) (seen : list (list N)) (p : pdb) (cs : cstate) (blocks : list sx) : list sx :=
  match blocks with
  | [] => []
  | SL [rs; SL items] :: rest =>
      match sx_N rs with
      | None => [SErr 1]
      | Some rn =>
          let r := dec_rules rn in
          match run_items r p cs [] items with
          | None => [SErr 2]
          | Some (m, sides, l, true) => [SL l]
          | Some (m, sides, l, false) =>
              let sr := map (side_root r p) sides in
              let '(e, nxt) := end_block layered seen r p m in
              SL (l ++ sr ++ e) ::
              match nxt with
              | Some (p', cs') => run_blocks layered (c_root cs' :: seen) p' cs' rest
              | None => []
              end
          end
      end
  | _ => [SErr 3]
  end.

Definition C14_run (c : sx) : sx :=
  match c with
  | SL [cfg; SL blocks] =>
      match sx_N cfg, open K addrs4 slots4 pdb0 (empty_root K) with
      | Some cfg, COk cs => SL (run_blocks (N.testbit cfg 0 || N.testbit cfg 1) [empty_root K] pdb0 cs blocks)
      | None, _ => SErr 4
      | _, CErr e => serr e
      end
  | _ => SErr 0
  end.
