(* Run/C14.v — case decoder / observable encoder for the C14 correspondence.
   case  = ( cfg ( block.. ) )      cfg: Go-side configuration (scheme, readers, prefetcher); ignored here
   block = ( rules ( item.. ) )     rules as in Run/C13.v [dec_rules]
   item  = (0 op)                   one StateDB call, op as in Run/C13.v [dec_op]
         | (1)                      IntermediateRoot(rules) between transactions
         | (2 swap ( op.. ) mode)   c := s.Copy(); when swap = 1 the COPY continues as the main state and the
                                    original becomes the side branch; the ops run on the side branch.
                                    mode 0: the side branch stays alive to the end of the block, where it is only
                                    hashed (IntermediateRoot); 1: ... where it is COMMITTED (and reopened) BEFORE the
                                    main state; 2: ... AFTER the main state; 3: it is committed and reopened
                                    immediately, while the main state carries on in the same block
         | (3 i ( op.. ) mode)      the same for a copy of the i-th live side branch (a copy of a copy)
   The chain starts from the empty state; every block runs on state.New(previous root).
   observation = ( blockobs.. ), blockobs = ( itemobs.. sideroot.. x<root1> pdump x<root2> pdump' )
     itemobs for (0 op) = out (0 none | 1 panic | id+2);  for (1) = ( x<root> pdump );
     for (2 ..)/(3 ..) = ( (out..) dump_side dump_main ) followed, for mode 3, by ( commitobs );
     at block end, for every live side branch in order: mode 0: x<root> of IntermediateRoot (or the error),
     mode 1: ( commitobs ); then the main state's commitobs inline; then ( commitobs ) of the mode 2 side branches;
     commitobs = x<root1> pdump x<root2> pdump' : root1 = IntermediateRoot, pdump = persistent getters before
     Commit, root2 = Commit, pdump' = persistent getters of state.New(root2).  All commits go into the one
     shared database.
   An error yields (-2 class) in place of the remaining observations of the block and stops the run.
   Harness limitation (both sides): with the path scheme or a snapshot tree (cfg bits 0, 1) a chain
   whose new root equals an EARLIER root of the same chain other than its parent cannot be added to
   the layer tree (layers are keyed by root; real chains never revisit a root because nonces grow);
   such a commitobs is ( x<root1> pdump 3 ), nothing is committed, and if it was the main state the run stops.
   When the root was committed by a sibling branch IN THIS BLOCK (same parent, same state) nothing needs to be
   added: the commitobs is ( x<root1> pdump 4 pdump' ) with pdump' from state.New(root1), and the run goes on. *)
From stdpp Require Import gmap.
From GV Require Import Lib.Sx Keccak.Sponge Trie.Node State.Ref State.Journal State.Commit Run.C13.
Local Open Scope N_scope.

Definition K := keccak256.

Definition cerr_code (e : cerr) : Z :=
  match e with
  | CMissing => 1 | CDecode => 2 | CCode => 3 | CWipe => 4 | CNilObj => 5 | CEnc => 6
  | CTrie EMissing => 11 | CTrie EPanic => 12 | CTrie EFuel => 13
  end%Z.
Definition serr (e : cerr) : sx := SL [SI (-2)%Z; SI (cerr_code e)].

Definition persistent_queries : list query :=
  concat (map (λ a,
    [QExist a; QEmpty a; QBalance a; QNonce a; QCode a; QCodeHash a]
    ++ concat (map (λ k, [QState a k; QCommitted a k]) slots4)) addrs4).
Definition pdump (cs : cstate) : sx := SL (map (λ q, enc_answer (query_c cs q)) persistent_queries).
Definition fdump (cs : cstate) : sx := dump_with (query_c cs).

Fixpoint run_ops_c (cs : cstate) (ops : list op) : cstate * list sx :=
  match ops with
  | [] => (cs, [])
  | o :: rest =>
      let '(cs', w) := step_c K cs o in
      let '(csf, l) := run_ops_c cs' rest in
      (csf, (if j_bad (c_j cs') then SErr 99 else enc_out w) :: l)
  end.

(* IntermediateRoot; Commit; state.New(root): observations, the database afterwards, the roots
   seen, and the reopened state when everything succeeded *)
Definition commit_obs (layered : bool) (base : nat) (seen : list (list N)) (r : rules) (p : pdb) (cs : cstate)
  : list sx * pdb * list (list N) * option cstate :=
  match intermediate_root K r p cs with
  | CErr e => ([serr e], p, seen, None)
  | COk (root1, cs1) =>
      if layered && negb (bool_decide (root1 = c_root cs1)) && bool_decide (root1 ∈ take (length seen - base) seen)
      then (* a sibling branch of this block already committed this very root: nothing to add to the
              layer tree; reopen there *)
        match open K addrs4 slots4 p root1 with
        | CErr e => ([SB root1; pdump cs1; SI 4; serr e], p, seen, None)
        | COk cs' => ([SB root1; pdump cs1; SI 4; pdump cs'], p, seen, Some cs')
        end
      else if layered && negb (bool_decide (root1 = c_root cs1)) && bool_decide (root1 ∈ seen)
      then ([SB root1; pdump cs1; SI 3], p, seen, None)
      else
      match commit K r p cs1 with
      | CErr e => ([SB root1; pdump cs1; serr e], p, seen, None)
      | COk (root2, p') =>
          match open K addrs4 slots4 p' root2 with
          | CErr e => ([SB root1; pdump cs1; SB root2; serr e], p', root2 :: seen, None)
          | COk cs' => ([SB root1; pdump cs1; SB root2; pdump cs'], p', root2 :: seen, Some cs')
          end
      end
  end.

Record rs := { r_p : pdb; r_seen : list (list N); r_main : cstate; r_sides : list (cstate * N) }.

(* a copy item: the branch to copy, the ops of the side branch, its mode *)
Definition do_copy (layered : bool) (base : nat) (r : rules) (st : rs) (from_side : option nat) (sw : bool)
           (ops : list op) (mode : N) : option (rs * list sx) :=
  let src := match from_side with
             | None => Some (r_main st)
             | Some i => fst <$> (r_sides st !! i)
             end in
  match src with
  | None => None
  | Some src =>
      let c := copy src in
      let '(keep, side) := if sw then (c, src) else (src, c) in
      let '(side', outs) := run_ops_c side ops in
      let st1 := match from_side with
                 | None => {| r_p := r_p st; r_seen := r_seen st; r_main := keep; r_sides := r_sides st |}
                 | Some i => {| r_p := r_p st; r_seen := r_seen st; r_main := r_main st;
                                r_sides := alter (λ x, (keep, x.2)) i (r_sides st) |}
                 end in
      let o1 := SL [SL outs; fdump side'; fdump keep] in
      if mode =? 3 then
        let '(co, p', seen', _) := commit_obs layered base (r_seen st1) r (r_p st1) side' in
        Some ({| r_p := p'; r_seen := seen'; r_main := r_main st1; r_sides := r_sides st1 |}, [o1; SL co])
      else
        Some ({| r_p := r_p st1; r_seen := r_seen st1; r_main := r_main st1;
                 r_sides := r_sides st1 ++ [(side', mode)] |}, [o1])
  end.

(* the items of one block: Some (state, observations, stopped) *)
Fixpoint run_items (layered : bool) (base : nat) (r : rules) (st : rs) (items : list sx) : option (rs * list sx * bool) :=
  match items with
  | [] => Some (st, [], false)
  | SL [SI 0%Z; o] :: rest =>
      match dec_op o with
      | None => None
      | Some o =>
          let '(cs', w) := step_c K (r_main st) o in
          match run_items layered base r {| r_p := r_p st; r_seen := r_seen st; r_main := cs'; r_sides := r_sides st |} rest with
          | Some (st', l, b) => Some (st', (if j_bad (c_j cs') then SErr 99 else enc_out w) :: l, b)
          | None => None
          end
      end
  | SL [SI 1%Z] :: rest =>
      match intermediate_root K r (r_p st) (r_main st) with
      | CErr e => Some (st, [serr e], true)
      | COk (root, cs') =>
          match run_items layered base r {| r_p := r_p st; r_seen := r_seen st; r_main := cs'; r_sides := r_sides st |} rest with
          | Some (st', l, b) => Some (st', SL [SB root; pdump cs'] :: l, b)
          | None => None
          end
      end
  | SL [SI 2%Z; sw; SL ops; md] :: rest =>
      match sx_bool sw, opt_map dec_op ops, sx_N md with
      | Some sw, Some ops, Some md =>
          match do_copy layered base r st None sw ops md with
          | Some (st1, o1) =>
              match run_items layered base r st1 rest with
              | Some (st', l, b) => Some (st', o1 ++ l, b)
              | None => None
              end
          | None => None
          end
      | _, _, _ => None
      end
  | SL [SI 3%Z; i; SL ops; md] :: rest =>
      match sx_nat i, opt_map dec_op ops, sx_N md with
      | Some i, Some ops, Some md =>
          match do_copy layered base r st (Some i) false ops md with
          | Some (st1, o1) =>
              match run_items layered base r st1 rest with
              | Some (st', l, b) => Some (st', o1 ++ l, b)
              | None => None
              end
          | None => None
          end
      | _, _, _ => None
      end
  | _ => None
  end.

(* side branches at block end; [phase] false = before the main state (modes 0 and 1), true = after (mode 2) *)
Fixpoint end_sides (layered : bool) (base : nat) (phase : bool) (r : rules) (p : pdb) (seen : list (list N))
         (sides : list (cstate * N)) : list sx * pdb * list (list N) :=
  match sides with
  | [] => ([], p, seen)
  | (c, md) :: rest =>
      if phase then
        if md =? 2 then
          let '(co, p', seen', _) := commit_obs layered base seen r p c in
          let '(l, p'', seen'') := end_sides layered base phase r p' seen' rest in (SL co :: l, p'', seen'')
        else end_sides layered base phase r p seen rest
      else
        if md =? 0 then
          let o := match intermediate_root K r p c with COk (root, _) => SB root | CErr e => serr e end in
          let '(l, p'', seen'') := end_sides layered base phase r p seen rest in (o :: l, p'', seen'')
        else if md =? 1 then
          let '(co, p', seen', _) := commit_obs layered base seen r p c in
          let '(l, p'', seen'') := end_sides layered base phase r p' seen' rest in (SL co :: l, p'', seen'')
        else end_sides layered base phase r p seen rest
  end.

Fixpoint run_blocks (layered : bool) (seen : list (list N)) (p : pdb) (cs : cstate) (blocks : list sx) : list sx :=
  match blocks with
  | [] => []
  | SL [rs0; SL items] :: rest =>
      match sx_N rs0 with
      | None => [SErr 1]
      | Some rn =>
          let r := dec_rules rn in
          let base := length seen in
          match run_items layered base r {| r_p := p; r_seen := seen; r_main := cs; r_sides := [] |} items with
          | None => [SErr 2]
          | Some (st, l, true) => [SL l]
          | Some (st, l, false) =>
              let '(s1, p1, seen1) := end_sides layered base false r (r_p st) (r_seen st) (r_sides st) in
              let '(mo, p2, seen2, nxt) := commit_obs layered base seen1 r p1 (r_main st) in
              match nxt with
              | None => [SL (l ++ s1 ++ mo)]
              | Some cs' =>
                  let '(s2, p3, seen3) := end_sides layered base true r p2 seen2 (r_sides st) in
                  SL (l ++ s1 ++ mo ++ s2) :: run_blocks layered seen3 p3 cs' rest
              end
          end
      end
  | _ => [SErr 3]
  end.

Definition C14_run (c : sx) : sx :=
  match c with
  | SL [cfg; SL blocks] =>
      match sx_N cfg, open K addrs4 slots4 pdb0 (empty_root K) with
      | Some cfg, COk cs => SL (run_blocks (N.testbit cfg 0 || N.testbit cfg 1) [empty_root K] pdb0 cs blocks)
      | None, _ => SErr 4
      | _, CErr e => serr e
      end
  | _ => SErr 0
  end.
