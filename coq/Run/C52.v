(* Run/C52.v — case decoder / observable encoder for the C52 correspondence.

   The model cannot compute scrypt / PBKDF2 / AES / secp256k1: every case carries, as DATA
   for the Section variables of Crypto/Keystore.v, the tables
     T = ( kdfT ctrT cbcT addrT )
       kdfT  = ( (x<pass> x<salt> x<dk32> 0 n r p) | (x<pass> x<salt> x<dk32> 1 c) .. )
       ctrT  = ( (x<key16> x<iv> x<keystream>) .. )      prefix of the keystream is used
       cbcT  = ( (x<key16> x<iv> x<ct> x<raw plaintext>) .. )
       addrT = ( (x<key32> x<addr20>) .. )
   computed by the harness with golang.org/x/crypto and crypto/aes; a missing entry is the
   error class 11 (EOracle), which no implementation observation can equal.  The MAC is
   computed by the model itself (Keccak.Sponge.keccak256), as are all accept/reject decisions.

   JSON value J:  (0) null | (1 b) bool | (2 islit lit trunc) number | (3 x<s>) string
                  | (4) array | (5 ((x<key> J)..)) object | (6) text rejected by encoding/json
   cases
     (0 T d x<addr> x<id> x<pass> n p x<salt> x<iv> (x<wrongpass>..))   EncryptKey then DecryptKey / GetKey
         -> (0 J dec (dec..)) | (1 class)
     (1 T J x<pass> x<text> meta)   (text/meta: for the implementation and its oracle only)
                                                     DecryptKey on a (mutated) file
         -> dec
     (2 T x<data> x<pass> n p x<salt> x<iv> (x<wrongpass>..))           EncryptDataV3 then DecryptDataV3
         -> (0 J ddec (ddec..)) | (1 class)
     (4 T d x<pass> n p x<salt> x<iv> x<newpass> x<salt2> x<iv2> x<wrongpass> x<otheraddr>)
                                                                        KeyStore import / reload / export
         -> ( getkey getkey-wrong export-dec getkey-tampered-address )
   dec  = (0 x<key> x<addr> x<id>) | (1 class);  ddec = (0 x<plain>) | (1 class);
   getkey = (0 x<key> x<addr>) | (1 class) *)
From GV Require Import Lib.Sx Lib.Bytes Keccak.Sponge Crypto.Keystore.

Definition err_code (e : err) : Z :=
  match e with
  | EJson => 1 | EVersion => 2 | EUuid => 3 | ECipher => 4 | EHex => 5 | EKdf => 6
  | EDecrypt => 7 | EInvalidKey => 8 | EAddrMismatch => 9 | EPanic => 10 | EOracle => 11
  | EIvLen => 12
  end%Z.
Definition serr (e : err) : sx := SL [SI 1%Z; SI (err_code e)].

(* ---- JSON trees ---- *)
Fixpoint jv_of_sx (s : sx) : option jv :=
  match s with
  | SL [SI 0%Z] => Some JNull
  | SL [SI 1%Z; SI b] => Some (JBool (negb (b =? 0)%Z))
  | SL [SI 2%Z; SI islit; SI lit; SI tr] => Some (JNum (if (islit =? 0)%Z then None else Some lit) tr)
  | SL [SI 3%Z; SB b] => Some (JStr b)
  | SL [SI 4%Z] => Some JArr
  | SL [SI 5%Z; SL kvs] =>
      match (fix go (l : list sx) : option (list (list N * jv)) :=
               match l with
               | [] => Some []
               | SL [SB k; v] :: r =>
                   match jv_of_sx v, go r with
                   | Some jv', Some t => Some ((k, jv') :: t)
                   | _, _ => None
                   end
               | _ => None
               end) kvs with
      | Some l => Some (JObj l)
      | None => None
      end
  | SL [SI 6%Z] => Some JInvalid
  | _ => None
  end.

Fixpoint sx_of_jv (j : jv) : sx :=
  match j with
  | JNull => SL [SI 0%Z]
  | JBool b => SL [SI 1%Z; sbool b]
  | JNum (Some z) t => SL [SI 2%Z; SI 1%Z; SI z; SI t]
  | JNum None t => SL [SI 2%Z; SI 0%Z; SI 0%Z; SI t]
  | JStr s => SL [SI 3%Z; SB s]
  | JArr => SL [SI 4%Z]
  | JObj kvs =>
      SL [SI 5%Z; SL ((fix go (l : list (list N * jv)) : list sx :=
                         match l with
                         | [] => []
                         | (k, v) :: r => SL [SB k; sx_of_jv v] :: go r
                         end) kvs)]
  | JInvalid => SL [SI 6%Z]
  end.

(* ---- Section data ---- *)
Definition alg_matches (alg : kdf_alg) (l : list sx) : bool :=
  match alg, l with
  | KScrypt n r p, [SI 0%Z; SI n'; SI r'; SI p'] => ((n =? n') && (r =? r') && (p =? p'))%Z
  | KPbkdf2 c, [SI 1%Z; SI c'] => (c =? c')%Z
  | _, _ => false
  end.

Fixpoint kdf_tab (t : list sx) (alg : kdf_alg) (pass salt : list N) : option (list N) :=
  match t with
  | [] => None
  | SL (SB pw :: SB sl :: SB dk :: a) :: r =>
      if bytes_eqb pw pass && bytes_eqb sl salt && alg_matches alg a then Some dk
      else kdf_tab r alg pass salt
  | _ :: r => kdf_tab r alg pass salt
  end.

Fixpoint ctr_tab (t : list sx) (key iv : list N) (n : nat) : option (list N) :=
  match t with
  | [] => None
  | SL [SB k; SB i; SB ks] :: r =>
      if bytes_eqb k key && bytes_eqb i iv && (n <=? length ks)%nat then Some (firstn n ks)
      else ctr_tab r key iv n
  | _ :: r => ctr_tab r key iv n
  end.

Fixpoint cbc_tab (t : list sx) (key iv ct : list N) : option (list N) :=
  match t with
  | [] => None
  | SL [SB k; SB i; SB c; SB p] :: r =>
      if bytes_eqb k key && bytes_eqb i iv && bytes_eqb c ct then Some p
      else cbc_tab r key iv ct
  | _ :: r => cbc_tab r key iv ct
  end.

Fixpoint addr_tab (t : list sx) (key : list N) : option (list N) :=
  match t with
  | [] => None
  | SL [SB k; SB a] :: r => if bytes_eqb k key then Some a else addr_tab r key
  | _ :: r => addr_tab r key
  end.

Section WithTables.
  Variables kT cT bT aT : list sx.
  Let H := keccak256.
  Let lg := false.          (* the repaired passphrase.go *)
  Let kdf := kdf_tab kT.
  Let ctr := ctr_tab cT.
  Let cbc := cbc_tab bT.
  Let addr := addr_tab aT.

  Definition m_decrypt_key := decrypt_key lg H kdf ctr cbc addr.
  Definition m_get_key := get_key lg H kdf ctr cbc addr.
  Definition m_decrypt_data := decrypt_data_v3 lg H kdf ctr.
  Definition m_encrypt_key := encrypt_key H kdf ctr.
  Definition m_encrypt_data := encrypt_data_v3 H kdf ctr.

  Definition dec_sx (r : res (list N * list N * list N)) : sx :=
    match r with
    | Ok (k, a, id) => SL [SI 0%Z; SB k; SB a; SB id]
    | Err e => serr e
    end.
  Definition getkey_sx (r : res (list N * list N * list N)) : sx :=
    match r with
    | Ok (k, a, _) => SL [SI 0%Z; SB k; SB a]
    | Err e => serr e
    end.
  Definition ddec_sx (r : res (list N)) : sx :=
    match r with Ok p => SL [SI 0%Z; SB p] | Err e => serr e end.

  Definition with_address (e : envelope) (a : list N) : envelope :=
    mkEnv a (e_crypto e) (e_id e) (e_version e).

  Definition run_case (c : list sx) : sx :=
    match c with
    | [SI 0%Z; SI d; SB a; SB id; SB pass; SI n; SI p; SB salt; SB iv; SL wrong] =>
        match opt_map sx_bytes wrong with
        | None => SErr 2
        | Some ws =>
            match m_encrypt_key (Z.to_N d) a id pass n p salt iv with
            | Err e => serr e
            | Ok env =>
                let j := to_json env in
                SL [SI 0%Z; sx_of_jv j; dec_sx (m_decrypt_key j pass);
                    SL (map (fun w => dec_sx (m_decrypt_key j w)) ws)]
            end
        end
    | [SI 1%Z; j; SB pass; _; _] =>
        match jv_of_sx j with
        | None => SErr 3
        | Some jv' => dec_sx (m_decrypt_key jv' pass)
        end
    | [SI 2%Z; SB data; SB pass; SI n; SI p; SB salt; SB iv; SL wrong] =>
        match opt_map sx_bytes wrong with
        | None => SErr 2
        | Some ws =>
            match m_encrypt_data data pass n p salt iv with
            | Err e => serr e
            | Ok cj =>
                SL [SI 0%Z; sx_of_jv (cj_to_json cj); ddec_sx (m_decrypt_data cj pass);
                    SL (map (fun w => ddec_sx (m_decrypt_data cj w)) ws)]
            end
        end
    | [SI 4%Z; SI d; SB pass; SI n; SI p; SB salt; SB iv; SB newpass; SB salt2; SB iv2; SB wrong; SB other] =>
        let kb := padded32 (Z.to_N d) in
        match addr kb with
        | None => serr EOracle
        | Some a =>
            (* ImportECDSA: StoreKey = EncryptKey + GetKey on the temporary file; then a fresh
               KeyStore on the same directory; Export = GetKey + EncryptKey under the new passphrase *)
            match m_encrypt_key (Z.to_N d) a (repeat 0%N 16) pass n p salt iv with
            | Err e => serr e
            | Ok env =>
                let j := to_json env in
                let exported :=
                  match m_get_key a j pass with
                  | Err e => serr e
                  | Ok (k, a', id) =>
                      match m_encrypt_key (be_decode k) a' id newpass n p salt2 iv2 with
                      | Err e => serr e
                      | Ok env2 => getkey_sx (m_decrypt_key (to_json env2) newpass)
                      end
                  end in
                SL [getkey_sx (m_get_key a j pass); getkey_sx (m_get_key a j wrong); exported;
                    getkey_sx (m_get_key other (to_json (with_address env (hex_encode other))) pass)]
            end
        end
    | _ => SErr 1
    end.
End WithTables.

Definition C52_run (c : sx) : sx :=
  match c with
  | SL (tag :: SL [SL kT; SL cT; SL bT; SL aT] :: rest) => run_case kT cT bT aT (tag :: rest)
  | _ => SErr 0
  end.
