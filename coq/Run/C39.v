(* Run/C39.v -- case decoder / observable encoder for the C39 correspondence.
   SINGLE-CRASH FORMAT
   case = ( (scheme archive snaps) (C J S) OPS (cutOp cutKind cutBlock) (DUR SNAPROOT) )
     tree: genesis 0; canonical block i (1..C) on i-1; side block 100+k (1..S) on J
           (k = 1) or 100+k-1, number J+k
     op   = (0 IDS) InsertChain | (1 id) triedb.Commit | (2 f) SetFinalized + Freeze
     cut  = the scenario is OPS[0..cutOp]; kind 0 stopWithoutSaving / 1 Stop after the last
            op, 2 = image after the block-data batch of cutBlock, 3 = image before its
            head-marker batch
     DATA = DUR: ids whose state opens on the crashed image; SNAPROOT: () or (id)
   obs  = ( 1 0 ERRS frozen OBS1 class2 OBS2 )  or  ( 1 code ) when start-up fails
     OBS  = ( (head_block head_header head_snap) has_state frozen CANON KNOWN )
     CANON = canon[0..maxn+1] each (id) or (); KNOWN = one bit per block id, ascending
   The leading 1 is the harness's "DATA recomputed = DATA of the case" flag.
   MULTI-SESSION FORMAT (side block ids 1000+k)
   case = ( (scheme archive snaps) (C J S) SESSIONS ), SESSION = ( OPS (cutKind cutBlock) DATA )
   obs  = ( 1 SESSOBS ... (class OBS AL) )
     SESSOBS = ( ERRS frozen 0 OBS AL class OBS AL ) | ( ERRS frozen code )  (start-up failed)
     AL = (disk_layer_id history_head) of the path database, (0 0) in the hash scheme;
     after each restart the blocks between the restart head and the old head block marker
     are re-imported (the cut may carry a third number: only that many of them); after the
     last session the remaining canonical blocks. *)
From GV Require Import Lib.Sx Chain.Tree Chain.Canonical Chain.Restart Chain.RestartPath.
Local Open Scope N_scope.

Definition dec_op (s : sx) : option sop :=
  match s with
  | SL [SI 0%Z; ids] => match sx_list_of sx_N ids with Some l => Some (SImport l) | None => None end
  | SL [SI 1%Z; i] => match sx_N i with Some h => Some (SCommit h) | None => None end
  | SL [SI 2%Z; n] => match sx_N n with Some n => Some (SFreeze n) | None => None end
  | _ => None
  end.

Definition err_code (e : option err) : Z :=
  match e with
  | None => 0
  | Some EOutOfFuel => 1 | Some EInvalidOldChain => 2 | Some EInvalidNewChain => 3
  | Some EUnknownAncestor => 4 | Some EPrunedAncestor => 5 | Some EMissingParent => 6
  | Some ENonContiguous => 7 | Some EUnknownBlock => 8 | Some ENestedPruned => 9
  | Some EHeadMissing => 10
  end%Z.

Definition rerr_code (e : rerr) : Z :=
  match e with
  | ROpenGap => 50 | RFuel => 61 | RReset => 62 | RNilDeref => 63 | RUnsupported => 64
  end%Z.

Definition mk_tree_b (base C J S : N) : list (N * block) :=
  (0, mkblock 4294967295 0 [] []) ::
  map (fun k => let i := N.of_nat k in (i, mkblock (i - 1) i [] [])) (seq 1 (N.to_nat C)) ++
  map (fun k => let i := N.of_nat k in
                (base + i, mkblock (if i =? 1 then J else base + i - 1) (J + i) [] [])) (seq 1 (N.to_nat S)).
Definition mk_tree := mk_tree_b 100.

Definition obs_of (T : tree) (maxn : N) (ids : list N) (p : pst) : sx :=
  let st := kv p in
  SL [ SL [sn (hd_block st); sn (hd_header st); sn (hd_snap st)];
       sbool (avail st (hd_block st));
       sn (frozen p);
       SL (map (fun k => sopt sn (canon st (N.of_nat k))) (seq 0 (N.to_nat maxn + 2)));
       SL (map (fun h => sbool (is_known st h)) ids) ].

Definition cut_of (kind cblock : N) : cut :=
  if kind =? 2 then CutBlock cblock else if kind =? 3 then CutHead cblock else CutAfter.

Definition run_v1 (sch snaps nC nJ nS : N) (ops : list sop) (cutop : nat) (kind cblock : N) (dur sr : list N) : sx :=
  let blocks := mk_tree nC nJ nS in
  let T := tree_of_list blocks in
  let ids := map fst blocks in
  let maxn := if (0 <? nS) && (nC <? nJ + nS) then nJ + nS else nC in
  let fuel := (2 * N.to_nat maxn + 2 * length blocks + 20)%nat in
  let cfg := mkcfg (sch =? 1) (if snaps =? 1 then hd_error sr else None) false in
  match run_to_cut T cfg fuel (mkp genesis_db 0) (firstn (S cutop) ops) (cut_of kind cblock) with
  | (RErr e, _) => SL [SI 1; SI (rerr_code e)]
  | (ROk p, errs) =>
    let pc := crash p (fun h => mem h dur) in
    match new_blockchain T cfg fuel pc with
    | RErr e => SL [SI 1; SI (rerr_code e)]
    | ROk p2 =>
      let hb := hd_block (kv p2) in
      let a := if hb <=? 100 then hb else nJ in
      let rest := map (fun k => a + 1 + N.of_nat k) (seq 0 (N.to_nat (nC - a))) in
      let '(p3, e3) := reimport T fuel p2 rest in
      SL [ SI 1; SI 0; SL (map (fun e => SI (err_code e)) errs); sn (frozen p);
           obs_of T maxn ids p2; SI (err_code e3); obs_of T maxn ids p3 ]
    end
  end.

(* one session of the multi-session format *)
(* (ops, cut kind, cut block, DUR, SNAPROOT, how many of the lost blocks are re-imported) *)
Definition session : Type := (list sop * N * N * list N * list N * N)%type.

Definition dec_session (s : sx) : option session :=
  match s with
  | SL [os; SL (kk :: cb :: ri); SL [sdur; ssr]] =>
    match sx_list_of dec_op os, sx_N kk, sx_N cb, sx_list_of sx_N sdur, sx_list_of sx_N ssr with
    | Some ops, Some kind, Some cblock, Some dur, Some sr =>
      match ri with
      | [] => Some (ops, kind, cblock, dur, sr, 4095)
      | [r] => match sx_N r with Some n => Some (ops, kind, cblock, dur, sr, n) | None => None end
      | _ => None
      end
    | _, _, _, _, _ => None
    end
  | _ => None
  end.

Definition al_of (path : bool) (d : pdb) : sx :=
  if path then SL [sn (pd_did d); sn (pd_fh d)] else SL [SI 0; SI 0].

Fixpoint run_sessions (T : tree) (path snaps : bool) (fuel : nat) (maxn : N) (ids : list N)
         (p : pst) (d : pdb) (ss : list session) : list sx * option (pst * pdb) :=
  match ss with
  | [] => ([], Some (p, d))
  | (ops, kind, cblock, dur, sr, reimp) :: r =>
    let cf := mkcfg path (if snaps then hd_error sr else None) false in
    match run_session T cf fuel p d ops (cut_of kind cblock) with
    | (RErr e, errs) => ([SL [SL (map (fun e => SI (err_code e)) errs); SI (rerr_code e)]], None)
    | (ROk (p1, d1), errs) =>
      let serrs := SL (map (fun e => SI (err_code e)) errs) in
      let d2 := if path && (kind =? 1) then pd_stop d1 else d1 in
      let pc := crash p1 (fun h => mem h dur) in
      match new_blockchain T cf fuel pc with
      | RErr e => ([SL [serrs; sn (frozen p1); SI (rerr_code e)]], None)
      | ROk p2 =>
        let d3 := if path then pd_reopen d2 else d2 in
        let lost := firstn (N.to_nat reimp)
                      (match path_up T fuel (hd_block (kv pc)) (hd_block (kv p2)) [] with
                       | Some l => l | None => [] end) in
        let '(p3, e3) := reimport T fuel p2 lost in
        let d4 := if path then pd_grow (max_avail T (kv p3)) d3 else d3 in
        let o := SL [ serrs; sn (frozen p1); SI 0; obs_of T maxn ids p2; al_of path d3;
                      SI (err_code e3); obs_of T maxn ids p3; al_of path d4 ] in
        let '(rest, fin) := run_sessions T path snaps fuel maxn ids p3 d4 r in
        (o :: rest, fin)
      end
    end
  end.

Definition run_v2 (sch snaps nC nJ nS : N) (ss : list session) : sx :=
  let blocks := mk_tree_b 1000 nC nJ nS in
  let T := tree_of_list blocks in
  let ids := map fst blocks in
  let maxn := if (0 <? nS) && (nC <? nJ + nS) then nJ + nS else nC in
  let fuel := (2 * N.to_nat maxn + 2 * length blocks + 20)%nat in
  let path := sch =? 1 in
  let '(obs, fin) := run_sessions T path (snaps =? 1) fuel maxn ids (mkp genesis_db 0) pd0 ss in
  match fin with
  | None => SL (SI 1 :: obs)
  | Some (p, d) =>
    let hb := hd_block (kv p) in
    let a := if hb <=? 1000 then hb else nJ in
    let rest := map (fun k => a + 1 + N.of_nat k) (seq 0 (N.to_nat (nC - a))) in
    let '(p3, e3) := reimport T fuel p rest in
    let d3 := if path then pd_grow (max_avail T (kv p3)) d else d in
    SL (SI 1 :: obs ++ [SL [SI (err_code e3); obs_of T maxn ids p3; al_of path d3]])
  end.

Definition C39_run (c : sx) : sx :=
  match c with
  | SL [SL [sch; arch; snaps]; SL [sC; sJ; sS]; os; SL [ck; kk; cb]; SL [sdur; ssr]] =>
    match sx_N sch, sx_N snaps, sx_N sC, sx_N sJ, sx_N sS, sx_list_of dec_op os with
    | Some sch, Some snaps, Some nC, Some nJ, Some nS, Some ops =>
      match sx_nat ck, sx_N kk, sx_N cb, sx_list_of sx_N sdur, sx_list_of sx_N ssr with
      | Some cutop, Some kind, Some cblock, Some dur, Some sr =>
        run_v1 sch snaps nC nJ nS ops cutop kind cblock dur sr
      | _, _, _, _, _ => SErr 2
      end
    | _, _, _, _, _, _ => SErr 1
    end
  | SL [SL [sch; arch; snaps]; SL [sC; sJ; sS]; ss] =>
    match sx_N sch, sx_N snaps, sx_N sC, sx_N sJ, sx_N sS, sx_list_of dec_session ss with
    | Some sch, Some snaps, Some nC, Some nJ, Some nS, Some sessions =>
      run_v2 sch snaps nC nJ nS sessions
    | _, _, _, _, _, _ => SErr 3
    end
  | _ => SErr 0
  end.
