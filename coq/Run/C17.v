(* Run/C17.v -- case decoder / observable encoder for the C17 correspondence.
   case  ( (limit full maxdiff async mem na ns) op ... )
           limit = Config.StateHistory, full = 1: WriteBufferSize 0 / 0: huge,
           maxdiff = maxDiffLayers; async / mem (async flush, memory freezer) are
           ignored by the model; na / ns = number of accounts / slots per account
     op  (0 root (ch ...))   Database.Update(root, parent = current head)
                             ch = (a orig new) | (a s orig new)
         (1 root)            Database.Commit(root)
         (2 k)               layerTree.cap(head, k)
         (3 root)            Database.Recover(root)
         (4 (root ...))      observe: Recoverable of every listed root + dumps
   obs   mutation -> (class diskRoot diskID bufLayers head tail nDiffs)
                     class 0 = ok, 1 = waitSync, 2 = unrecoverable, 9 = other error
         observe  -> ((bit ...) persistentID (v ...) (v ...))
                     dumps over accounts 0..na-1 (account value, then its ns slots):
                     first the disk layer's view (buffer over store), then the store *)
From GV Require Import Lib.Sx PathDB.History.
Local Open Scope N_scope.

Definition err_code (e : err) : Z :=
  match e with EWaitSync => 1 | EUnrecoverable => 2 | _ => 9 end%Z.

Definition dec_n (s : sx) : option N := sx_N s.

Definition dec_change (s : sx) : option change :=
  match s with
  | SL [a; o; n] =>
      match dec_n a, dec_n o, dec_n n with
      | Some a, Some o, Some n => Some (mkChange (KA a) o n)
      | _, _, _ => None
      end
  | SL [a; s; o; n] =>
      match dec_n a, dec_n s, dec_n o, dec_n n with
      | Some a, Some s, Some o, Some n => Some (mkChange (KS a s) o n)
      | _, _, _, _ => None
      end
  | _ => None
  end.

Definition universe (na ns : nat) : list key :=
  flat_map (fun a => KA (N.of_nat a) :: map (fun s => KS (N.of_nat a) (N.of_nat s)) (seq 0 ns))
           (seq 0 na).

Definition obs_mut (class : Z) (st : db) : sx :=
  SL [SI class; sn (disk_root (dk st)); sn (disk_id (dk st)); sn (buf_layers (dk st));
      sn (fr_head (fr st)); sn (fr_tail (fr st)); snat (length (diffs st))].

Definition obs_out (o : out) : db * sx :=
  match o with
  | Done st => (st, obs_mut 0 st)
  | Fail e st => (st, obs_mut (err_code e) st)
  end.

Definition step (univ : list key) (st : db) (op : sx) : option (db * sx) :=
  match op with
  | SL [SI 0%Z; r; SL cs] =>
      match dec_n r, opt_map dec_change cs with
      | Some r, Some cs => Some (obs_out (update st (head_root st) (mkTr r cs)))
      | _, _ => None
      end
  | SL [SI 1%Z; r] =>
      match dec_n r with Some r => Some (obs_out (commit st r)) | None => None end
  | SL [SI 2%Z; k] =>
      match sx_nat k with
      | Some k => Some (obs_out (if wait_sync st then Fail EWaitSync st else cap st (head_root st) k))
      | None => None
      end
  | SL [SI 3%Z; r] =>
      match dec_n r with Some r => Some (obs_out (recover st r)) | None => None end
  | SL [SI 4%Z; SL rs] =>
      match opt_map dec_n rs with
      | Some rs =>
          Some (st, SL [SL (map (fun r => sbool (recoverable st r)) rs);
                        sn (pid (dk st));
                        SL (map (fun k => sn (eff (dk st) k)) univ);
                        SL (map (fun k => sn (pflat (dk st) k)) univ)])
      | None => None
      end
  | _ => None
  end.

Fixpoint steps (univ : list key) (st : db) (ops : list sx) : option (list sx) :=
  match ops with
  | [] => Some []
  | op :: r =>
      match step univ st op with
      | None => None
      | Some (st', o) =>
          match steps univ st' r with Some os => Some (o :: os) | None => None end
      end
  end.

Definition C17_run (c : sx) : sx :=
  match c with
  | SL (SL [limit; full; maxdiff; _; _; na; ns] :: ops) =>
      match dec_n limit, sx_bool full, sx_nat maxdiff, sx_nat na, sx_nat ns with
      | Some limit, Some full, Some maxdiff, Some na, Some ns =>
          match steps (universe na ns) (init_db (mkCfg limit full maxdiff false false false) 0 false) ops with
          | Some os => SL os
          | None => SErr 1
          end
      | _, _, _, _, _ => SErr 0
      end
  | _ => SErr 0
  end.
