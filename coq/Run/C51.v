(* Run/C51.v — case decoder / observable encoder for the C51 correspondence.
   type   ::= (0 n) uint<n> | (1 n) int<n> | (2) bool | (3) address | (4 n) bytes<n>
            | (5) bytes | (6) string | (7 type) T[] | (8 k type) T[k] | (9 type ...) tuple
   value  ::= integer | 0/1 (bool) | x<bytes> | ( value ... )        (type-directed)
   result ::= (0 payload) ok | (1 class) error | (2) the Go code would panic
   case (0 (type ...) (value ...))    -> ( pack  unpack(pack)  spec-enc )
   case (1 (type ...) x<bytes>)    -> ( unpack  pack(unpack) )
   case (2 (type ...) (value ...) x<bytes> flag) -> as case 1 on the bytes (values/flag are
                                   for the Go-side oracle only) *)
From GV Require Import Lib.Sx Abi.Types Abi.Codec.

Fixpoint sx_ty (s : sx) : option ty :=
  match s with
  | SL [SI 0%Z; SI n] => Some (TUInt (Z.to_N n))
  | SL [SI 1%Z; SI n] => Some (TInt (Z.to_N n))
  | SL [SI 2%Z] => Some TBool
  | SL [SI 3%Z] => Some TAddress
  | SL [SI 4%Z; SI n] => Some (TFixedBytes (Z.to_N n))
  | SL [SI 5%Z] => Some TBytes
  | SL [SI 6%Z] => Some TString
  | SL [SI 7%Z; e] => option_map TArray (sx_ty e)
  | SL [SI 8%Z; SI k; e] => option_map (TFixedArray (Z.to_nat k)) (sx_ty e)
  | SL (SI 9%Z :: l) =>
      option_map TTuple
        ((fix go (l : list sx) : option (list ty) :=
            match l with
            | [] => Some []
            | x :: r => match sx_ty x, go r with
                        | Some t, Some ts => Some (t :: ts)
                        | _, _ => None
                        end
            end) l)
  | _ => None
  end.

Definition sx_tys (s : sx) : option (list ty) := sx_list_of sx_ty s.

Section Map2.
  Variable f : ty -> sx -> option val.
  Fixpoint sx_vals2 (ts : list ty) (l : list sx) : option (list val) :=
    match ts, l with
    | [], [] => Some []
    | t :: ts', x :: l' => match f t x, sx_vals2 ts' l' with
                           | Some v, Some vs => Some (v :: vs)
                           | _, _ => None
                           end
    | _, _ => None
    end.
End Map2.

Section Map1.
  Variable f : sx -> option val.
  Fixpoint sx_vals1 (l : list sx) : option (list val) :=
    match l with
    | [] => Some []
    | x :: l' => match f x, sx_vals1 l' with
                 | Some v, Some vs => Some (v :: vs)
                 | _, _ => None
                 end
    end.
End Map1.

Fixpoint sx_val (t : ty) (s : sx) {struct t} : option val :=
  match t, s with
  | TUInt _, SI z | TInt _, SI z => Some (VInt z)
  | TBool, SI 0%Z => Some (VBool false)
  | TBool, SI 1%Z => Some (VBool true)
  | TAddress, SB b | TFixedBytes _, SB b | TBytes, SB b | TString, SB b => Some (VBytes b)
  | TArray e, SL l | TFixedArray _ e, SL l => option_map VList (sx_vals1 (sx_val e) l)
  | TTuple ts, SL l => option_map VList (sx_vals2 sx_val ts l)
  | _, _ => None
  end.

Definition sx_args (ts : list ty) (s : sx) : option (list val) :=
  match s with SL l => sx_vals2 sx_val ts l | _ => None end.

Fixpoint val_sx (v : val) : sx :=
  match v with
  | VInt z => SI z
  | VBool b => sbool b
  | VBytes b => SB b
  | VList vs => SL (map val_sx vs)
  end.

Definition res_sx {A} (f : A -> sx) (r : res A) : sx :=
  match r with
  | Ok a => SL [SI 0%Z; f a]
  | Err c => SL [SI 1%Z; sn c]
  | Panic => SL [SI 2%Z]
  end.

Definition vals_sx (vs : list val) : sx := SL (map val_sx vs).

Definition run_decode (ts : list ty) (b : list N) : sx :=
  let r := unpack_args ts b in
  SL [ res_sx vals_sx r;
       match r with Ok vs => res_sx SB (pack_args ts vs) | _ => SL [] end ].

Definition C51_run (c : sx) : sx :=
  match c with
  | SL [SI 0%Z; tys; vals] =>
      match sx_tys tys with
      | None => SErr 1
      | Some ts =>
          match sx_args ts vals with
          | None => SErr 2
          | Some vs =>
              let p := pack_args ts vs in
              SL [ res_sx SB p;
                   match p with Ok b => res_sx vals_sx (unpack_args ts b) | _ => SL [] end;
                   sopt SB (enc_args ts vs) ]
          end
      end
  | SL [SI 1%Z; tys; SB b] =>
      match sx_tys tys with
      | None => SErr 1
      | Some ts => run_decode ts b
      end
  | SL [SI 2%Z; tys; _; SB b; _] =>
      match sx_tys tys with
      | None => SErr 1
      | Some ts => run_decode ts b
      end
  | _ => SErr 0
  end.
