(* Chain/CanonicalEvents.v — what every head change announces (C38): the event lists of
   reorg_if_needed + writeHeadBlock as used by SetCanonical, writeBlockAndSetHead and
   writeKnownBlock, as full lists (the >512 chunking abstracted by concatenation). *)
From Coq Require Import List NArith Bool Lia.
From GV Require Import Lib.Tactics Chain.Tree Chain.Canonical Chain.CanonicalProofs.
Import ListNotations.
Local Open Scope N_scope.

Definition chain_evs (evs : list event) : list N :=
  flat_map (fun e => match e with EvChain h => [h] | _ => [] end) evs.
Definition head_evs (evs : list event) : list N :=
  flat_map (fun e => match e with EvHead h => [h] | _ => [] end) evs.

Lemma chain_evs_app : forall a b, chain_evs (a ++ b) = chain_evs a ++ chain_evs b.
Proof. intros. unfold chain_evs. now rewrite flat_map_app. Qed.
Lemma head_evs_app : forall a b, head_evs (a ++ b) = head_evs a ++ head_evs b.
Proof. intros. unfold head_evs. now rewrite flat_map_app. Qed.

(* an event list that carries no block / head announcement *)
Definition silent (evs : list event) : Prop := chain_evs evs = [] /\ head_evs evs = [].

Lemma silent_map_removed : forall ls, silent (map EvRemoved ls).
Proof. induction ls; split; cbn; auto; apply IHls. Qed.
Lemma silent_map_logs : forall ls, silent (map EvLogs ls).
Proof. induction ls; split; cbn; auto; apply IHls. Qed.
Lemma silent_app : forall a b, silent a -> silent b -> silent (a ++ b).
Proof. intros a b (A1 & A2) (B1 & B2). split; [rewrite chain_evs_app | rewrite head_evs_app]; now rewrite ?A1, ?A2, ?B1, ?B2. Qed.

Lemma whb_purge_quiet : forall c x,
  removed_logs (whb_purge c x) = [] /\ added_logs (whb_purge c x) = [] /\ silent (whb_purge c x).
Proof. intros. unfold whb_purge. destruct (whb_replaces c x); repeat split. Qed.

Section Events.
Variable T : tree.
Notation hdr_ok := (hdr_ok T).

Lemma reorg_silent : forall fuel st old new st' evs,
  reorg T fuel st old new = Ok (st', evs) -> silent evs.
Proof.
  intros fuel st old new st' evs H. rewrite reorg_unfold in H.
  destruct (reorg_walk T fuel st old new) as [[[c oc] nc]|]; [|discriminate].
  cbv zeta in H. destruct (fold_whb fuel (rev (tl nc)) st) as [st1|]; [|discriminate].
  match type of H with context [del_canon_from fuel ?cc ?ii] =>
    destruct (del_canon_from fuel cc ii) as [c'|]; [|discriminate] end.
  inversion H; subst. apply silent_app; [apply silent_map_removed|].
  apply silent_app; [apply silent_map_logs | split; reflexivity].
Qed.

Lemma reorg_rcpt : forall fuel st old new st' evs,
  reorg T fuel st old new = Ok (st', evs) -> rcpt st' = rcpt st.
Proof.
  intros fuel st old new st' evs H. rewrite reorg_unfold in H.
  destruct (reorg_walk T fuel st old new) as [[[c oc] nc]|]; [|discriminate].
  cbv zeta in H. destruct (fold_whb fuel (rev (tl nc)) st) as [st1|] eqn:EF; [|discriminate].
  match type of H with context [del_canon_from fuel ?cc ?ii] =>
    destruct (del_canon_from fuel cc ii) as [c'|]; [|discriminate] end.
  inversion H; subst. cbn. apply (fold_whb_frame _ _ _ _ EF).
Qed.

(* the switch a head change performs: [leaving] / [entering] are the blocks that leave /
   enter the canonical chain below the new head, newest first ([entering] includes the new
   head itself iff it was not canonical already) *)
Inductive switch (st : db) (x : hdr) : list hdr -> list hdr -> Prop :=
| sw_extend : b_parent (snd x) = hd_block st -> switch st x [] [x]
| sw_reorg : forall cur c oc nc, b_parent (snd x) <> hd_block st ->
    cur_hdr T st = Some cur -> down T cur oc c -> down T x nc c -> switch st x oc nc.

Definition logs_old_first (st : db) (l : list hdr) : list N := flat_map (logs_of st) (rev l).

(* reorg_if_needed announces exactly: removed = logs of the leaving blocks, re-added = logs
   of the entering blocks EXCEPT the new head, both oldest first; no block/head event *)
Lemma rin_events : forall fuel st x st1 ev,
  reorg_if_needed T fuel st x = Ok (st1, ev) -> hdr_ok x ->
  (forall cur, cur_hdr T st = Some cur -> hdr_ok cur) ->
  exists leaving entering, switch st x leaving entering /\
    removed_logs ev = logs_old_first st leaving /\
    added_logs ev = logs_old_first st (tl entering) /\ silent ev /\ rcpt st1 = rcpt st.
Proof.
  intros fuel st x st1 ev H Hx Hcur. unfold reorg_if_needed in H.
  destruct (N.eqb_spec (b_parent (snd x)) (hd_block st)) as [E|E].
  - inversion H; subst. exists [], [x]. repeat split; auto. now constructor.
  - destruct (cur_hdr T st) as [cur|] eqn:EC; [|discriminate].
    destruct (reorg_events T _ _ _ _ _ _ H (Hcur _ eq_refl) Hx) as (c & oc & nc & Hdo & Hdn & Hr & Ha).
    exists oc, nc. repeat split; auto.
    + econstructor; eauto.
    + eapply reorg_silent; eauto.
    + eapply reorg_silent; eauto.
    + eapply reorg_rcpt; eauto.
Qed.

Lemma whb_rcpt : forall fuel st x st', write_head_block fuel st x = Some st' -> rcpt st' = rcpt st.
Proof. intros fuel st x st' H. destruct (whb_spec _ _ _ _ H) as (_ & _ & _ & (_ & E & _) & _). exact E. Qed.

(* SetCanonical (head state present) *)
Lemma set_canonical_events : forall fuel st x st' evs,
  avail st (fst x) = true -> set_canonical T fuel st x = (st', evs, None) -> hdr_ok x ->
  (forall cur, cur_hdr T st = Some cur -> hdr_ok cur) ->
  exists leaving entering, switch st x leaving entering /\
    removed_logs evs = logs_old_first st leaving /\
    added_logs evs = logs_old_first st (tl entering) ++ logs_of st x /\
    chain_evs evs = [fst x] /\ head_evs evs = [fst x].
Proof.
  intros fuel st x st' evs Hav H Hx Hcur. unfold set_canonical in H. rewrite Hav in H.
  destruct (reorg_if_needed T fuel st x) as [[st2 ev2]|] eqn:ER; [|discriminate].
  destruct (write_head_block fuel st2 x) as [st3|] eqn:EW; [|discriminate].
  inversion H; subst st' evs; clear H.
  destruct (rin_events _ _ _ _ _ ER Hx Hcur) as (lv & en & Hsw & Hr & Ha & (Hc & Hh) & Erc).
  destruct (whb_purge_quiet (canon st2) x) as (Pr & Pa & Pc & Ph).
  assert (EL : logs_of st3 x = logs_of st x).
  { unfold logs_of. now rewrite (whb_rcpt _ _ _ _ EW), Erc. }
  rewrite EL. exists lv, en. split; auto.
  cbn [app]. rewrite !removed_logs_app, !added_logs_app, !chain_evs_app, !head_evs_app.
  rewrite Hr, Ha, Hc, Hh, Pr, Pa, Pc, Ph.
  destruct (logs_of st x) as [|l0 lr] eqn:ELx; cbn; rewrite ?app_nil_r; auto.
Qed.

(* writeBlockAndSetHead (a freshly executed block; its logs come from the execution) *)
Lemma wbash_events : forall fuel st x st' evs,
  write_block_and_set_head T fuel st x = Ok (st', evs) -> hdr_ok x ->
  (forall s cur, cur_hdr T s = Some cur -> hdr_ok cur) ->
  exists st1 leaving entering, write_block_with_state st x = Ok st1 /\ switch st1 x leaving entering /\
    removed_logs evs = logs_old_first st1 leaving /\
    added_logs evs = logs_old_first st1 (tl entering) ++ b_logs (snd x) /\
    chain_evs evs = [fst x] /\ head_evs evs = [].
Proof.
  intros fuel st x st' evs H Hx Hcur. unfold write_block_and_set_head in H.
  destruct (write_block_with_state st x) as [st1|] eqn:EB; [|discriminate].
  destruct (reorg_if_needed T fuel st1 x) as [[st2 ev2]|] eqn:ER; [|discriminate].
  destruct (write_head_block fuel st2 x) as [st3|] eqn:EW; [|discriminate].
  inversion H; subst st' evs; clear H.
  destruct (rin_events _ _ _ _ _ ER Hx (Hcur st1)) as (lv & en & Hsw & Hr & Ha & (Hc & Hh) & Erc).
  destruct (whb_purge_quiet (canon st2) x) as (Pr & Pa & Pc & Ph).
  exists st1, lv, en. split; auto. split; auto.
  rewrite !removed_logs_app, !added_logs_app, !chain_evs_app, !head_evs_app.
  rewrite Hr, Ha, Hc, Hh, Pr, Pa, Pc, Ph.
  destruct (b_logs (snd x)) as [|l0 lr]; cbn; rewrite ?app_nil_r; auto.
Qed.

(* writeKnownBlock: the same switch, but nothing is announced for the new head itself *)
Lemma wkb_events : forall fuel st x st' evs,
  write_known_block T fuel st x = Ok (st', evs) -> hdr_ok x ->
  (forall cur, cur_hdr T st = Some cur -> hdr_ok cur) ->
  exists leaving entering, switch st x leaving entering /\
    removed_logs evs = logs_old_first st leaving /\
    added_logs evs = logs_old_first st (tl entering) /\
    chain_evs evs = [] /\ head_evs evs = [].
Proof.
  intros fuel st x st' evs H Hx Hcur. unfold write_known_block in H.
  destruct (reorg_if_needed T fuel st x) as [[st1 ev1]|] eqn:ER; [|discriminate].
  destruct (write_head_block fuel st1 x) as [st2|] eqn:EW; [|discriminate].
  inversion H; subst st' evs; clear H.
  destruct (rin_events _ _ _ _ _ ER Hx Hcur) as (lv & en & Hsw & Hr & Ha & (Hc & Hh) & Erc).
  destruct (whb_purge_quiet (canon st1) x) as (Pr & Pa & Pc & Ph).
  exists lv, en. split; auto.
  rewrite !removed_logs_app, !added_logs_app, !chain_evs_app, !head_evs_app.
  rewrite Hr, Ha, Hc, Hh, Pr, Pa, Pc, Ph. rewrite ?app_nil_r. auto.
Qed.

(* when the new head was not canonical before, [entering] starts with it: the entering
   blocks' logs are then exactly  tl entering (oldest first) ++ the head's *)
Lemma switch_entering : forall st x lv en, switch st x lv en ->
  en = [] \/ en = x :: tl en.
Proof.
  intros st x lv en H. destruct H as [E | cur c oc nc E EC Hdo Hdn]; [right; reflexivity|].
  destruct Hdn; [left | right]; reflexivity.
Qed.

Lemma entering_logs : forall st x en, en = x :: tl en ->
  logs_old_first st (tl en) ++ logs_of st x = logs_old_first st en.
Proof.
  intros st x en E. destruct en as [|y r]; [discriminate|]. cbn [tl] in *. inversion E; subst.
  unfold logs_old_first. cbn [rev]. rewrite flat_map_app. cbn. now rewrite app_nil_r.
Qed.

End Events.
