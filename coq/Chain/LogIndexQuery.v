(* Chain/LogIndexQuery.v — from the filter criteria to the sequence matcher
   (sequence_complete), completeness of an indexed search over a range of maps, and
   the unindexed fallback. *)
From GV Require Import Lib.Tactics Chain.LogIndex Chain.LogIndexProofs Chain.LogIndexSeq.
Local Open Scope N_scope.

Lemma in_list_In x l : in_list x l = true -> In x l.
Proof.
  unfold in_list. intros H. apply existsb_exists in H. destruct H as (y & Hy & E).
  apply N.eqb_eq in E. subst. exact Hy.
Qed.

Lemma N_seq_app s : forall a b, N_seq s (a + b) = N_seq s a ++ N_seq (s + N.of_nat a) b.
Proof.
  revert s. intros s a. revert s. induction a as [|a IH]; intros s b; simpl.
  - rewrite N.add_0_r. reflexivity.
  - rewrite IH. do 3 f_equal. lia.
Qed.

Section Query.
Variable P : params.
Variable addr_value topic_value : N -> N.
Variable row_hash : N -> nat -> N -> N.
Variable col_index : N -> N -> N.

Notation vpm := (vpm P).
Notation marked := (marked P row_hash col_index).
Notation log_len := log_len.
Notation values_of := (values_of addr_value topic_value).
Notation topic_values := (topic_values topic_value).
Notation pattern := (pattern addr_value topic_value).
Notation eval_map := (eval_map P addr_value topic_value row_hash col_index).
Notation seq_matches := (seq_matches P row_hash col_index).
Notation render_map := (render_map P row_hash col_index).

Hypothesis col_high : forall lv v, N.shiftr (col_index lv v) (p_hbits P) = lv mod vpm.
Hypothesis brl_small : p_brl P < two32.

Lemma check_topics_seq rw m : forall topics lt pos,
  check_topics topics lt = true ->
  (forall lv v, In (lv, v) (topic_values pos lt) -> marked rw m lv v) ->
  seq_matches rw m pos (map (map topic_value) topics) /\ (length topics <= length lt)%nat.
Proof.
  induction topics as [|sub r IH]; intros lt pos Hc Hm; simpl.
  - split; [exact I | lia].
  - destruct lt as [|t lr]; [discriminate|]. simpl in Hc. apply andb_true_iff in Hc.
    destruct Hc as [Hs Hr]. simpl in Hm.
    destruct (IH lr (pos + 1) Hr) as [H1 H2].
    { intros lv v Hin. apply Hm. right. exact Hin. }
    split; [|simpl; lia]. split; [|exact H1].
    destruct sub as [|s0 sub']; [left; reflexivity|]. right.
    exists (topic_value t). split.
    + apply List.in_map. apply in_list_In. exact Hs.
    + apply Hm. left. reflexivity.
Qed.

Lemma check_seq_matches rw m pos l addrs topics :
  check addrs topics l = true ->
  (forall lv v, In (lv, v) (values_of (pos, l)) -> marked rw m lv v) ->
  seq_matches rw m pos (pattern addrs topics) /\ (length topics <= length (lg_topics l))%nat.
Proof.
  unfold check. intros Hc Hm. apply andb_true_iff in Hc. destruct Hc as [Ha Ht].
  unfold LogIndex.values_of in Hm. simpl fst in Hm. simpl snd in Hm.
  destruct (check_topics_seq rw m topics (lg_topics l) (pos + 1) Ht) as [H1 H2].
  { intros lv v Hin. apply Hm. right. exact Hin. }
  split; [|exact H2]. unfold LogIndex.pattern. simpl. split; [|exact H1].
  destruct addrs as [|a0 addrs']; [left; reflexivity|]. right.
  exists (addr_value (lg_addr l)). split.
  - apply List.in_map. apply in_list_In. exact Ha.
  - apply Hm. left. reflexivity.
Qed.

(* sequence_complete: a log lying inside map m whose values are marked on the map and
   which passes the filter has its first log value index in the matcher's result
   (unless the matcher returns the wild card). *)
Theorem sequence_complete fuel rw m pos l addrs topics R :
  pos / vpm = m -> (pos + log_len l - 1) / vpm = m ->
  (forall lv v, In (lv, v) (values_of (pos, l)) -> marked rw m lv v) ->
  check addrs topics l = true ->
  eval_map fuel rw m addrs topics = Some R -> covers R pos.
Proof.
  intros Hlo Hhi Hm Hc He. unfold LogIndex.eval_map in He.
  destruct (check_seq_matches _ _ _ _ _ _ Hc Hm) as [Hs Hlen].
  assert (Hne : pattern addrs topics <> []) by (unfold LogIndex.pattern; discriminate).
  destruct (match_seq_rev_spec P row_hash col_index col_high brl_small fuel rw m pos _ _ Hne He) as [_ Hcov].
  pose proof (vpm_pos P) as Hv.
  assert (Hmlo : m * vpm <= pos).
  { subst m. rewrite N.mul_comm. apply N.mul_div_le. lia. }
  apply Hcov; [exact Hs | exact Hmlo|].
  unfold LogIndex.pattern. simpl length. rewrite map_length.
  apply (in_map_between P m _ (pos + log_len l - 1)); [exact Hhi | lia|].
  unfold LogIndex.log_len. lia.
Qed.

Lemma topic_values_range lv v : forall ts q,
  In (lv, v) (topic_values q ts) -> q <= lv /\ lv < q + N.of_nat (length ts).
Proof.
  induction ts as [|t ts IH]; intros q Hin; [destruct Hin|]. simpl in Hin.
  destruct Hin as [E|Hin]; [injection E as <- _; simpl length; lia|].
  destruct (IH _ Hin). simpl length. lia.
Qed.

(* the same, from the rendering of the map *)
Corollary sequence_complete_rendered fuel0 fuel vals rw m pos l addrs topics R :
  render_map fuel0 vals m = Some rw ->
  incl (values_of (pos, l)) vals ->
  pos / vpm = m -> (pos + log_len l - 1) / vpm = m ->
  check addrs topics l = true ->
  eval_map fuel rw m addrs topics = Some R -> covers R pos.
Proof.
  intros Hr Hincl Hlo Hhi Hc He.
  assert (Hrange : forall lv v, In (lv, v) (values_of (pos, l)) -> lv / vpm = m).
  { intros lv v Hin. unfold LogIndex.values_of in Hin. simpl fst in Hin. simpl snd in Hin.
    assert (Hb : pos <= lv /\ lv <= pos + log_len l - 1).
    { destruct Hin as [E|Hin]; [injection E as <- _; unfold LogIndex.log_len; lia|].
      destruct (topic_values_range _ _ _ _ Hin). unfold LogIndex.log_len. lia. }
    pose proof (vpm_pos P).
    apply (in_map_between P m _ (pos + log_len l - 1)); [exact Hhi | | lia].
    subst m. rewrite N.mul_comm. etransitivity; [apply N.mul_div_le; lia | lia]. }
  eapply sequence_complete; try eassumption.
  intros lv v Hin.
  apply (render_map_marked P row_hash col_index col_high brl_small fuel0 vals m rw lv v Hr).
  - apply Hincl. exact Hin.
  - apply (Hrange lv v). exact Hin.
Qed.

End Query.

(* ---- the unindexed fallback (no hypothesis on the hash functions) ---- *)

Lemma scan_blocks_app chain addrs topics : forall l1 l2,
  scan_blocks chain addrs topics (l1 ++ l2) =
  match scan_blocks chain addrs topics l1, scan_blocks chain addrs topics l2 with
  | Some a, Some b => Some (a ++ b) | _, _ => None end.
Proof.
  induction l1 as [|b l1 IH]; intros l2; simpl.
  - destruct (scan_blocks chain addrs topics l2); reflexivity.
  - rewrite IH. destruct (block_logs chain b); [|reflexivity].
    destruct (scan_blocks chain addrs topics l1); [|reflexivity].
    destruct (scan_blocks chain addrs topics l2); [|reflexivity].
    rewrite app_assoc. reflexivity.
Qed.

(* a scan of first..last is the scan of first..k-1 followed by the scan of k..last:
   the pieces a search session puts together are in chain order *)
Theorem scan_split chain addrs topics first k last :
  first < k -> k <= last ->
  scan chain addrs topics first last =
  match scan chain addrs topics first (k - 1), scan chain addrs topics k last with
  | Some a, Some b => Some (a ++ b) | _, _ => None end.
Proof.
  intros H1 H2. unfold scan, blocks_of. rewrite <- scan_blocks_app. f_equal.
  replace (N.to_nat (last + 1 - first)) with (N.to_nat (k - 1 + 1 - first) + N.to_nat (last + 1 - k))%nat by lia.
  rewrite N_seq_app. do 2 f_equal. lia.
Qed.

Lemma rng_eqb_refl r : rng_eqb r r = true.
Proof. unfold rng_eqb. rewrite !N.eqb_refl. reflexivity. Qed.

Section Fallback.
Variable P : params.
Variable addr_value topic_value : N -> N.
Variable row_hash : N -> nat -> N -> N.
Variable col_index : N -> N -> N.
Notation range_logs := (range_logs P addr_value topic_value row_hash col_index).

Lemma session_loop_S fuel chain ix rg head addrs topics k sr s :
  session_loop P addr_value topic_value row_hash col_index fuel chain ix rg head addrs topics (S k) sr s =
  if rng_eqb sr (s_match s) then Some (s_matches s)
  else match do_search_iteration P addr_value topic_value row_hash col_index fuel chain ix rg head
               addrs topics sr s with
       | Some s' => session_loop P addr_value topic_value row_hash col_index fuel chain ix rg head
                                 addrs topics k sr s'
       | None => None
       end.
Proof. reflexivity. Qed.

(* unindexed_falls_back: a range that does not meet the indexed block range is served
   by the direct scan alone (one search iteration, no index access) *)
Theorem unindexed_falls_back fuel chain ix rg head addrs topics f l :
  f <= l -> l <= head ->
  rng_empty (rng_inter (f, l + 1) (indexed_blocks rg)) = true ->
  range_logs fuel chain ix rg head addrs topics (Some f) (Some l) =
  match scan chain addrs topics f l with Some ms => QOk ms | None => QFail end.
Proof.
  intros Hfl Hlh He. unfold LogIndex.range_logs.
  assert (E1 : (l <? f) = false) by lia. assert (E2 : (head <? l) = false) by lia.
  rewrite E1, E2.
  assert (E3 : rng_eqb (f, l + 1) (0, 0) = false).
  { unfold rng_eqb. cbn [fst snd]. apply andb_false_iff. right. lia. }
  assert (Hstep : do_search_iteration P addr_value topic_value row_hash col_index fuel chain ix rg head
                    addrs topics (f, l + 1) (mkSess (0, 0) [] false) =
                  match scan chain addrs topics f l with
                  | Some ms => Some (mkSess (f, l + 1) ms true) | None => None end).
  { unfold do_search_iteration. cbn [s_match s_matches s_force].
    change (rng_empty (0, 0)) with true. cbv iota. rewrite He. cbn [negb].
    unfold search_in_range, unindexed_logs. cbn [fst snd].
    replace (l + 1 - 1) with l by lia. rewrite E2.
    destruct (scan chain addrs topics f l); reflexivity. }
  rewrite session_loop_S. cbn [s_match]. rewrite E3, Hstep.
  destruct (scan chain addrs topics f l) as [ms|]; [|reflexivity].
  rewrite session_loop_S. cbn [s_match s_matches]. rewrite rng_eqb_refl. reflexivity.
Qed.

End Fallback.

(* ---- a concrete instance (used by the non-vacuity example of Properties/C40.v) ---- *)
Definition demoP : params := mkParams 3 2 1 2 1.  (* 8 values per map, 2 hash bits, base row length 2 *)
Definition demo_col (lv v : N) : N := N.shiftl (lv mod 8) 2 + (lv + v) mod 4.
Definition demo_row (mmi : N) (layer : nat) (v : N) : N := (v + mmi + N.of_nat layer) mod 2.
(* two logs (address 5, topics 6 6) at indices 9 and 12 of map 1 *)
Definition demo_vals : list (N * N) := [(9, 5); (10, 6); (11, 6); (12, 5); (13, 6); (14, 6)].
Definition idv (x : N) : N := x.

Definition c40_demo : bool :=
  forallb (fun lv => forallb (fun v => N.shiftr (demo_col lv v) 2 =? lv mod 8) (N_seq 0 8)) (N_seq 0 64)
  && match render_map demoP demo_row demo_col 8 demo_vals 1 with
     | Some rw =>
         ((2 <? N.of_nat (length (rw 0))) || (2 <? N.of_nat (length (rw 1))))   (* a row overflowed *)
         && match eval_map demoP idv idv demo_row demo_col 8 rw 1 [5] [[6; 7]; []] with
            | Some (Some l) => existsb (N.eqb 9) l && existsb (N.eqb 12) l
            | _ => false
            end
     | None => false
     end.
