(* Chain/Canonical.v — executable model of the canonical-chain bookkeeping of
   /repo/core/blockchain.go (C38), transcribed function by function.

   DB state: which blocks are stored ([known]: header+body, written and deleted
   together), which have receipts ([rcpt]), whose state trie is reachable
   ([avail] = bc.HasState(root) — hash scheme, non-archive; [disk] = the part
   that survives a restart), the canonical number->hash index ([canon],
   rawdb.ReadCanonicalHash), the tx lookup index ([lookup], rawdb.ReadTxLookupEntry:
   tx hash -> block number) and the three head markers (block / header / snap).

   Failure is never totalised away: a nil header in a walk, a missing block,
   fuel exhaustion are explicit error classes.  Definitions only; proofs are in
   Chain/CanonicalProofs.v. *)
From Coq Require Import List NArith Bool.
From GV Require Import Chain.Tree.
Import ListNotations.
Local Open Scope N_scope.

Inductive err :=
| EOutOfFuel          (* model artefact; excluded by C38_reorg_terminates *)
| EInvalidOldChain    (* errInvalidOldChain *)
| EInvalidNewChain    (* errInvalidNewChain *)
| EUnknownAncestor    (* consensus.ErrUnknownAncestor *)
| EPrunedAncestor     (* consensus.ErrPrunedAncestor surfacing from the import loop *)
| EMissingParent      (* errors.New("missing parent") *)
| ENonContiguous      (* InsertChain: non contiguous insert *)
| EUnknownBlock       (* the operation names a block that is not in the tree / not in the DB *)
| ENestedPruned       (* a re-import started by insertSideChain/recoverAncestors hit a pruned ancestor again *)
| EHeadMissing.       (* head marker points to a block that is not stored (Reset / "current block missing") *)

Inductive res (A : Type) := Ok (a : A) | Err (e : err).
Arguments Ok {A}. Arguments Err {A}.

Inductive event :=
| EvChain (h : N)             (* chainFeed: ChainEvent{Header} *)
| EvLogs (l : list N)         (* logsFeed: []*types.Log *)
| EvRemoved (l : list N)      (* rmLogsFeed: RemovedLogsEvent *)
| EvHead (h : N)              (* chainHeadFeed: ChainHeadEvent *)
| EvPurgeReplace              (* not a feed: bc.txLookupCache.Purge() in writeHeadBlock when it replaces a
                                 different canonical block at its height (since /repo 34cd8539c8; the
                                 legacy cache semantics of Chain/LookupCache.v ignores this marker) *)
| EvPurge.                    (* not a feed: bc.txLookupCache.Purge() (end of reorg, setHeadBeyondRoot,
                                 a new BlockChain instance) -- what the cached public lookup path
                                 BlockChain.GetCanonicalTransaction depends on; see Run/C38.v *)

Record db := mkdb {
  known : list N; rcpt : N -> bool; avail : N -> bool; disk : N -> bool;
  canon : N -> option N; lookup : N -> option N;
  hd_block : N; hd_header : N; hd_snap : N }.

Definition upd {A} (f : N -> A) (k : N) (v : A) : N -> A := fun x => if x =? k then v else f x.
Definition mem (x : N) (l : list N) : bool := existsb (N.eqb x) l.
Definition oeqb (a : option N) (h : N) : bool := match a with Some x => x =? h | None => false end.

Definition genesis_db : db :=
  mkdb [0] (fun _ => false) (fun h => h =? 0) (fun h => h =? 0)
       (fun n => if n =? 0 then Some 0 else None) (fun _ => None) 0 0 0.

(* the outcome of a public operation: the DB and the events are kept even when
   the operation returns an error (Go returns err after partial effects) *)
Definition outcome : Type := (db * list event * option err)%type.

Section Model.
Variable T : tree.

Definition hdr : Type := (N * block)%type.
Definition hnum (x : hdr) : N := b_number (snd x).

Definition is_known (st : db) (h : N) : bool := mem h (known st).

(* bc.GetHeader(hash, number) / bc.GetBlock(hash, number): keyed by both *)
Definition get_header (st : db) (h n : N) : option hdr :=
  match T h with
  | Some b => if is_known st h && (b_number b =? n) then Some (h, b) else None
  | None => None
  end.
(* bc.GetBlockByHash / GetHeaderByHash *)
Definition get_by_hash (st : db) (h : N) : option hdr :=
  match T h with
  | Some b => if is_known st h then Some (h, b) else None
  | None => None
  end.
(* GetHeader(x.ParentHash, x.Number-1); at number 0 the uint64 subtraction wraps
   to 2^64-1, a key that is never stored: nil *)
Definition parent_hdr (st : db) (x : hdr) : option hdr :=
  if hnum x =? 0 then None else get_header st (b_parent (snd x)) (hnum x - 1).

(* bc.CurrentBlock(): an in-memory header, so no DB lookup *)
Definition cur_hdr (st : db) : option hdr :=
  match T (hd_block st) with Some b => Some (hd_block st, b) | None => None end.

Definition set_known st k := mkdb k (rcpt st) (avail st) (disk st) (canon st) (lookup st) (hd_block st) (hd_header st) (hd_snap st).
Definition set_canon st c := mkdb (known st) (rcpt st) (avail st) (disk st) c (lookup st) (hd_block st) (hd_header st) (hd_snap st).
Definition set_lookup st l := mkdb (known st) (rcpt st) (avail st) (disk st) (canon st) l (hd_block st) (hd_header st) (hd_snap st).

(* rawdb.WriteTxLookupEntriesByBlock *)
Definition write_lookups (lk : N -> option N) (n : N) (txs : list N) : N -> option N :=
  fold_left (fun l tx => upd l tx (Some n)) txs lk.

(* reorg's last loop and writeHeadBlock's clean-up loop: for i := number+1; ; i++ { if ReadCanonicalHash(i) == 0 break; Delete(i) } *)
Fixpoint del_canon_from (fuel : nat) (c : N -> option N) (i : N) : option (N -> option N) :=
  match fuel with
  | O => None
  | S f => match c i with
           | None => Some c
           | Some _ => del_canon_from f (upd c i None) (i + 1)
           end
  end.

(* blockchain.go:1298 writeHeadBlock: canonical hash, tx lookups and all three
   head markers in one batch, then the in-memory markers.  Since 337872da5f: if the
   block replaces a DIFFERENT canonical block at its own height (no reorg has cleared
   the slot: the head block had been rewound below the head header), the canonical
   markers above it are deleted in the same batch.  [None] = fuel exhausted. *)
Definition whb_clear (fuel : nat) (c : N -> option N) (x : hdr) : option (N -> option N) :=
  match c (hnum x) with
  | Some old => if old =? fst x then Some c else del_canon_from fuel c (hnum x + 1)
  | None => Some c
  end.

Definition write_head_block (fuel : nat) (st : db) (x : hdr) : option db :=
  match whb_clear fuel (canon st) x with
  | None => None
  | Some c1 =>
    Some (mkdb (known st) (rcpt st) (avail st) (disk st)
               (upd c1 (hnum x) (Some (fst x)))
               (write_lookups (lookup st) (hnum x) (b_txs (snd x)))
               (fst x) (fst x) (fst x))
  end.

(* writeHeadBlock's "replaced" flag: the slot at the block's height holds another hash;
   then, after the batch is written, the tx lookup cache is purged (34cd8539c8) *)
Definition whb_replaces (c : N -> option N) (x : hdr) : bool :=
  match c (hnum x) with Some old => negb (old =? fst x) | None => false end.
Definition whb_purge (c : N -> option N) (x : hdr) : list event :=
  if whb_replaces c x then [EvPurgeReplace] else [].

(* writeHeadBlock over a list of blocks, oldest first (reorg's "Apply new blocks"; the
   purges it may cause there are subsumed by reorg's own final Purge) *)
Definition fold_whb (fuel : nat) (l : list hdr) (st : db) : option db :=
  fold_left (fun acc x => match acc with Some s => write_head_block fuel s x | None => None end)
            l (Some st).

(* blockchain.go:2548 collectReceiptsAndLogs: logs come from the stored receipts;
   without receipts (block written by writeBlockWithoutState) there are none *)
Definition logs_of (st : db) (x : hdr) : list N :=
  if rcpt st (fst x) then b_logs (snd x) else [].

(* the "append; if len > 512 { Send; reset }" accumulation of reorg *)
Fixpoint chunk_logs (bs : list (list N)) (acc : list N) : list (list N) :=
  match bs with
  | [] => match acc with [] => [] | _ => [acc] end
  | l :: r => let acc' := acc ++ l in
              if Nat.ltb 512 (length acc') then acc' :: chunk_logs r [] else chunk_logs r acc'
  end.

(* reorg, first loop: for ; x != nil && x.Number != target; x = parent(x) { chain = append(chain, x) } *)
Fixpoint reduce (fuel : nat) (st : db) (x : option hdr) (target : N) (acc : list hdr)
  : option (option hdr * list hdr) :=
  match fuel with
  | O => None
  | S f => match x with
           | None => Some (None, acc)
           | Some h => if hnum h =? target then Some (Some h, acc)
                       else reduce f st (parent_hdr st h) target (acc ++ [h])
           end
  end.

(* reorg, second loop: step both sides back until the hashes agree *)
Fixpoint find_common (fuel : nat) (st : db) (o n : hdr) (oc nc : list hdr)
  : res (hdr * list hdr * list hdr) :=
  match fuel with
  | O => Err EOutOfFuel
  | S f => if fst o =? fst n then Ok (o, oc, nc)
           else match parent_hdr st o with
                | None => Err EInvalidOldChain
                | Some o' => match parent_hdr st n with
                             | None => Err EInvalidNewChain
                             | Some n' => find_common f st o' n' (oc ++ [o]) (nc ++ [n])
                             end
                end
  end.

Definition hdr_txs (l : list hdr) : list N := flat_map (fun x => b_txs (snd x)) l.
Definition delete_lookups (lk : N -> option N) (txs : list N) : N -> option N :=
  fold_left (fun l tx => upd l tx None) txs lk.

(* blockchain.go:2575 reorg(oldHead, newHead).  oldChain/newChain are newest
   first; the new head itself (newChain[0]) is NOT written here.  Every error
   return precedes the first mutation, so the result is all-or-nothing. *)
Definition reorg (fuel : nat) (st : db) (old new : hdr) : res (db * list event) :=
  match (if hnum new <? hnum old
         then match reduce fuel st (Some old) (hnum new) [] with
              | None => Err EOutOfFuel
              | Some (o, oc) => Ok (o, Some new, oc, [])
              end
         else match reduce fuel st (Some new) (hnum old) [] with
              | None => Err EOutOfFuel
              | Some (n, nc) => Ok (Some old, n, [], nc)
              end) with
  | Err e => Err e
  | Ok (o, n, oc0, nc0) =>
    match o with
    | None => Err EInvalidOldChain
    | Some o1 =>
      match n with
      | None => Err EInvalidNewChain
      | Some n1 =>
        match find_common fuel st o1 n1 oc0 nc0 with
        | Err e => Err e
        | Ok (c, oc, nc) =>
          (* deleted logs, forward (oldest first) order, chunked *)
          let removed := map EvRemoved (chunk_logs (map (logs_of st) (rev oc)) []) in
          let deleted_txs := hdr_txs oc in
          (* newChain[len-1 .. 1], oldest first *)
          let nb := rev (tl nc) in
          let rebirth_txs := hdr_txs nb in
          let added := map EvLogs (chunk_logs (map (logs_of st) nb) []) in
          match fold_whb fuel nb st with
          | None => Err EOutOfFuel
          | Some st1 =>
            (* types.HashDifference(deletedTxs, rebirthTxs) *)
            let st2 := set_lookup st1 (delete_lookups (lookup st1)
                          (filter (fun tx => negb (mem tx rebirth_txs)) deleted_txs)) in
            let number := match nc with _ :: x1 :: _ => hnum x1 | _ => hnum c end in
            match del_canon_from fuel (canon st2) (number + 1) with
            | None => Err EOutOfFuel
            | Some c' => Ok (set_canon st2 c', removed ++ added ++ [EvPurge])
            end
          end
        end
      end
    end
  end.

(* "if block.ParentHash() != current.Hash() { reorg(current, block) }" shared by
   writeKnownBlock, writeBlockAndSetHead and SetCanonical *)
Definition reorg_if_needed (fuel : nat) (st : db) (x : hdr) : res (db * list event) :=
  if b_parent (snd x) =? hd_block st then Ok (st, [])
  else match cur_hdr st with
       | None => Err EHeadMissing
       | Some cur => reorg fuel st cur x
       end.

(* blockchain.go:1630 writeKnownBlock *)
Definition write_known_block (fuel : nat) (st : db) (x : hdr) : res (db * list event) :=
  match reorg_if_needed fuel st x with
  | Err e => Err e
  | Ok (st1, ev) => match write_head_block fuel st1 x with
                    | Some st2 => Ok (st2, ev ++ whb_purge (canon st1) x)
                    | None => Err EOutOfFuel
                    end
  end.

Definition add_known (st : db) (h : N) : db :=
  if is_known st h then st else set_known st (h :: known st).

(* blockchain.go:1643 writeBlockWithState: block + receipts, state committed to
   the trie database (in memory: HasState becomes true) *)
Definition write_block_with_state (st : db) (x : hdr) : res db :=
  if negb (is_known st (b_parent (snd x))) && negb (hnum x =? 0) then Err EUnknownAncestor
  else let st1 := add_known st (fst x) in
       Ok (mkdb (known st1) (upd (rcpt st1) (fst x) true) (upd (avail st1) (fst x) true)
                (disk st1) (canon st1) (lookup st1) (hd_block st1) (hd_header st1) (hd_snap st1)).

(* blockchain.go:1616 writeBlockWithoutState: header+body only *)
Definition write_block_without_state (st : db) (x : hdr) : db := add_known st (fst x).

(* blockchain.go:1750 writeBlockAndSetHead (emitHeadEvent = false from insertChain) *)
Definition write_block_and_set_head (fuel : nat) (st : db) (x : hdr) : res (db * list event) :=
  match write_block_with_state st x with
  | Err e => Err e
  | Ok st1 =>
    match reorg_if_needed fuel st1 x with
    | Err e => Err e
    | Ok (st2, ev) =>
      match write_head_block fuel st2 x with
      | None => Err EOutOfFuel
      | Some st3 =>
        Ok (st3, ev ++ whb_purge (canon st2) x ++ [EvChain (fst x)] ++
                 (match b_logs (snd x) with [] => [] | l => [EvLogs l] end))
      end
    end
  end.

(* insertIterator.next(): header verification (ethash VerifyHeaders: the first
   header needs its parent in the DB, later ones use the batch) then
   BlockValidator.ValidateBody's known-block / ancestor checks *)
Inductive cls := CFresh | CKnown | CUnknown | CPruned.
Definition classify (st : db) (first : bool) (x : hdr) : cls :=
  let p := b_parent (snd x) in
  if first && negb (is_known st p) then CUnknown
  else if is_known st (fst x) && avail st (fst x) then CKnown
  else if is_known st p && avail st p then CFresh
  else if negb (is_known st p) then CUnknown else CPruned.

Definition is_CKnown (c : cls) : bool := match c with CKnown => true | _ => false end.

(* insertChain, "Skip all known blocks that are behind us" *)
Fixpoint skip_known (st : db) (cur_num : N) (first : bool) (l : list hdr) : list hdr * bool :=
  match l with
  | [] => ([], first)
  | x :: r =>
    if is_CKnown (classify st first x)
    then if (cur_num <? hnum x) || negb (oeqb (canon st (hnum x)) (fst x)) then (l, first)
         else skip_known st cur_num false r
    else (l, first)
  end.

(* insertChain, "Writing previously known block" loop *)
Fixpoint write_knowns (fuel : nat) (st : db) (first : bool) (l : list hdr) (last : option N) (evs : list event)
  : db * list hdr * bool * option N * list event * option err :=
  match l with
  | [] => (st, [], first, last, evs, None)
  | x :: r =>
    if is_CKnown (classify st first x)
    then match write_known_block fuel st x with
         | Err e => (st, l, first, last, evs, Some e)
         | Ok (st1, ev) => write_knowns fuel st1 false r (Some (fst x)) (evs ++ ev)
         end
    else (st, l, first, last, evs, None)
  end.

(* insertChain, the main import loop (blockchain.go:1929) *)
Fixpoint import_loop (fuel : nat) (st : db) (set_head : bool) (first : bool) (l : list hdr)
                     (last : option N) (evs : list event)
  : db * option N * list event * option err :=
  match l with
  | [] => (st, last, evs, None)
  | x :: r =>
    match classify st first x with
    | CKnown =>
      (* "Inserted known block": empty receipts are written when the block has no txs *)
      let st0 := match b_txs (snd x) with
                 | [] => mkdb (known st) (upd (rcpt st) (fst x) true) (avail st) (disk st) (canon st)
                              (lookup st) (hd_block st) (hd_header st) (hd_snap st)
                 | _ => st end in
      match write_known_block fuel st0 x with
      | Err e => (st0, last, evs, Some e)
      | Ok (st1, ev) => import_loop fuel st1 set_head false r (Some (fst x)) (evs ++ ev)
      end
    | CFresh =>
      if set_head
      then match write_block_and_set_head fuel st x with
           | Err e => (st, last, evs, Some e)
           | Ok (st1, ev) => import_loop fuel st1 set_head false r (Some (fst x)) (evs ++ ev)
           end
      else (* WriteHead = false: writeBlockWithState, then "return witness, it.index, nil" *)
           match write_block_with_state st x with
           | Err e => (st, last, evs, Some e)
           | Ok st1 => (st1, last, evs, None)
           end
    | CUnknown => (st, last, evs, Some EUnknownAncestor)
    | CPruned => (st, last, evs, Some EPrunedAncestor)
    end
  end.

(* the deferred "Fire a single chain head event if we've progressed the chain" *)
Definition head_event (st : db) (last : option N) : list event :=
  match last with
  | Some h => if h =? hd_block st then [EvHead h] else []
  | None => []
  end.

(* blockchain.go:1829 insertChain; [pruned] is what runs when the first block not
   skipped has a pruned ancestor (insertSideChain / recoverAncestors) *)
Definition insert_chain_core (pruned : db -> bool -> list hdr -> outcome)
           (fuel : nat) (st : db) (set_head : bool) (l : list hdr) : outcome :=
  match l with
  | [] => (st, [], None)
  | x0 :: _ =>
    let cur_num := match cur_hdr st with Some c => hnum c | None => 0 end in
    let '(l1, first1) :=
        if is_CKnown (classify st true x0) then skip_known st cur_num true l else (l, true) in
    let '(st2, l2, first2, last, evs, e) :=
        if is_CKnown (classify st true x0) then write_knowns fuel st first1 l1 None []
        else (st, l1, first1, None, [], None) in
    match e with
    | Some e => (st2, evs ++ head_event st2 last, Some e)
    | None =>
      match l2 with
      | [] => (st2, evs ++ head_event st2 last, None)
      | x :: _ =>
        match classify st2 first2 x with
        | CPruned =>
          let '(st3, ev3, e3) := pruned st2 set_head l2 in
          (st3, evs ++ ev3 ++ head_event st3 last, e3)
        | CUnknown => (st2, evs ++ head_event st2 last, Some EUnknownAncestor)
        | _ =>
          let '(st3, last3, ev3, e3) := import_loop fuel st2 set_head first2 l2 last evs in
          (st3, ev3 ++ head_event st3 last3, e3)
        end
      end
    end
  end.

(* the nested insertChain of insertSideChain / recoverAncestors: its first block's
   parent has state, so the pruned case cannot recur; if it did it is an explicit error *)
Definition insert_chain0 := insert_chain_core (fun st _ _ => (st, [], Some ENestedPruned)).

(* "for parent != nil && !bc.HasState(parent.Root) { hashes = append(hashes, parent); parent = GetHeader(parent.ParentHash, n-1) }"
   (hash scheme: StateRecoverable is always false) *)
Fixpoint stateless_walk (fuel : nat) (st : db) (x : option hdr) (acc : list hdr)
  : option (option hdr * list hdr) :=
  match fuel with
  | O => None
  | S f => match x with
           | None => Some (None, acc)
           | Some h => if avail st (fst h) then Some (Some h, acc)
                       else stateless_walk f st (parent_hdr st h) (acc ++ [h])
           end
  end.

(* blockchain.go:2388 insertSideChain: first loop *)
Fixpoint side_write (st : db) (cur_num : N) (l : list hdr) (prev : option hdr) : db * option hdr :=
  match l with
  | [] => (st, prev)
  | x :: r =>
    match classify st false x with
    | CPruned =>
      if (hnum x <=? cur_num) && oeqb (canon st (hnum x)) (fst x)
      then side_write st cur_num r (Some x)     (* re-import of a canon block: continue *)
      else side_write (if is_known st (fst x) then st else write_block_without_state st x) cur_num r (Some x)
    | _ => (st, prev)
    end
  end.

(* one insertChain(blocks, true) over the collected stateless ancestors, oldest first *)
Definition insert_side_chain (fuel : nat) (st : db) (l : list hdr) : outcome :=
  let cur_num := match cur_hdr st with Some c => hnum c | None => 0 end in
  (* (the canonical.Root() == block.Root() "ghost state" refusal needs two distinct
     blocks with one state root; block ids stand for roots here, so it cannot fire) *)
  let '(st1, prev) := side_write st cur_num l None in
  match stateless_walk fuel st1 prev [] with
  | None => (st1, [], Some EOutOfFuel)
  | Some (None, _) => (st1, [], Some EMissingParent)
  | Some (Some _, hashes) =>
    match rev hashes with
    | [] => (st1, [], None)
    | blocks => insert_chain0 fuel st1 true blocks
    end
  end.

(* blockchain.go:2492 recoverAncestors: insertChain({b}, false) for every stateless
   ancestor, oldest first, the block itself last *)
Fixpoint recover_each (fuel : nat) (st : db) (l : list hdr) (evs : list event) : outcome :=
  match l with
  | [] => (st, evs, None)
  | x :: r =>
    let '(st1, ev1, e1) := insert_chain0 fuel st false [x] in
    match e1 with
    | Some e => (st1, evs ++ ev1, Some e)
    | None => recover_each fuel st1 r (evs ++ ev1)
    end
  end.

Definition recover_ancestors (fuel : nat) (st : db) (x : hdr) : outcome :=
  match stateless_walk fuel st (Some x) [] with
  | None => (st, [], Some EOutOfFuel)
  | Some (None, _) => (st, [], Some EMissingParent)
  | Some (Some _, hashes) => recover_each fuel st (rev hashes) []
  end.

Definition pruned_case (fuel : nat) (st : db) (set_head : bool) (l : list hdr) : outcome :=
  if set_head then insert_side_chain fuel st l
  else match l with
       | x :: _ => recover_ancestors fuel st x
       | [] => (st, [], None)
       end.

Definition insert_chain (fuel : nat) := insert_chain_core (pruned_case fuel) fuel.

(* blockchain.go:1790 InsertChain: the contiguity pre-check *)
Fixpoint contiguous (l : list hdr) : bool :=
  match l with
  | x :: ((y :: _) as r) => (hnum y =? hnum x + 1) && (b_parent (snd y) =? fst x) && contiguous r
  | _ => true
  end.

Fixpoint resolve_all (l : list N) : option (list hdr) :=
  match l with
  | [] => Some []
  | h :: r => match T h, resolve_all r with
              | Some b, Some r' => Some ((h, b) :: r')
              | _, _ => None
              end
  end.

(* blockchain.go:2779 SetCanonical *)
Definition set_canonical (fuel : nat) (st : db) (x : hdr) : outcome :=
  let '(st1, ev1, e1) :=
      if avail st (fst x) then (st, [], None) else recover_ancestors fuel st x in
  match e1 with
  | Some e => (st1, ev1, Some e)
  | None =>
    match reorg_if_needed fuel st1 x with
    | Err e => (st1, ev1, Some e)
    | Ok (st2, ev2) =>
      match write_head_block fuel st2 x with
      | None => (st1, ev1, Some EOutOfFuel)   (* model artefact: nothing applied *)
      | Some st3 =>
        (st3, ev1 ++ ev2 ++ whb_purge (canon st2) x ++ [EvChain (fst x)] ++
              (match logs_of st3 x with [] => [] | l => [EvLogs l] end) ++ [EvHead (fst x)], None)
      end
    end
  end.

(* blockchain.go:817 rewindHashHead with root = 0 (beyondRoot = true), no pivot,
   heights far below FullImmutabilityThreshold (limit = 0) *)
Fixpoint rewind (fuel : nat) (st : db) (g : hdr) (x : hdr) : option hdr :=
  match fuel with
  | O => None
  | S f => if avail st (fst x) then Some x
           else match parent_hdr st x with
                | None => Some g                      (* "Missing block in the middle, resetting to genesis" *)
                | Some p => if hnum p =? 0 then Some p else rewind f st g p
                end
  end.

(* is there any stored header at height n? (len(rawdb.ReadAllHashes(db, n)) > 0) *)
Definition any_at (st : db) (n : N) : bool :=
  existsb (fun h => match T h with Some b => b_number b =? n | None => false end) (known st).

Fixpoint heights_above (fuel : nat) (st : db) (n : N) : option (list N) :=
  match fuel with
  | O => None
  | S f => if any_at st n then match heights_above f st (n + 1) with
                               | Some l => Some (n :: l) | None => None end
           else Some []
  end.

(* headerchain.go:515 setHead loop with blockchain.go:1006 updateFn; deletions are
   batched ([dels] = heights whose headers/bodies/receipts/canonical hash go), the
   markers are written at once *)
Fixpoint set_head_loop (fuel : nat) (st : db) (g : hdr) (target : N) (origin : bool) (dels : list N)
  : res (db * list N) :=
  match fuel with
  | O => Err EOutOfFuel
  | S f =>
    match T (hd_header st) with
    | None => Err EHeadMissing
    | Some hb =>
      let num := b_number hb in
      if num <=? target then Ok (st, dels)
      else
        let parent := match parent_hdr st (hd_header st, hb) with Some p => p | None => g end in
        (* updateFn *)
        match (match cur_hdr st with
               | Some cb => if hnum parent <=? hnum cb
                            then match rewind fuel st g parent with
                                 | Some nh => Ok (fst nh) | None => Err EOutOfFuel end
                            else Ok (hd_block st)
               | None => Ok (hd_block st) end) with
        | Err e => Err e
        | Ok nb =>
          let ns := match T (hd_snap st) with
                    | Some sb => if hnum parent <? b_number sb
                                 then (if is_known st (fst parent) then fst parent else fst g)
                                 else hd_snap st
                    | None => hd_snap st end in
          let st1 := mkdb (known st) (rcpt st) (avail st) (disk st) (canon st) (lookup st) nb (fst parent) ns in
          match (if origin then heights_above fuel st (num + 1) else Some []) with
          | None => Err EOutOfFuel
          | Some up => set_head_loop f st1 g target false (dels ++ rev up ++ [num])
          end
      end
    end
  end.

Definition delete_heights (st : db) (dels : list N) : db :=
  let gone h := match T h with Some b => mem (b_number b) dels | None => false end in
  mkdb (filter (fun h => negb (gone h)) (known st))
       (fun h => rcpt st h && negb (gone h)) (avail st) (disk st)
       (fun n => if mem n dels then None else canon st n) (lookup st)
       (hd_block st) (hd_header st) (hd_snap st).

(* blockchain.go:757 SetHead = setHeadBeyondRoot(head, 0, {}, false) + loadLastState
   + sendChainHeadEvent.  Tx lookups are NOT touched ("Todo txlookup" in delFn). *)
Definition set_head (fuel : nat) (st : db) (target : N) : outcome :=
  match T 0 with
  | None => (st, [], Some EHeadMissing)
  | Some gb =>
    match set_head_loop fuel st (0, gb) target true [] with
    | Err e => (st, [], Some e)
    | Ok (st1, dels) =>
      let st2 := delete_heights st1 dels in
      (* loadLastState: head block must still be stored, else the chain is Reset *)
      if negb (is_known st2 (hd_block st2)) then (st2, [EvPurge], Some EHeadMissing)
      else (st2, [EvPurge; EvHead (hd_block st2)], None)
    end
  end.

(* Stop() (hash scheme, non-archive: commit HEAD and HEAD-1 if held in memory)
   followed by NewBlockChain on the same database (head state present: no repair;
   otherwise setHeadBeyondRoot(head, repair=true) rewinds the block marker) *)
Definition restart (fuel : nat) (st : db) : outcome :=
  match cur_hdr st, T 0 with
  | Some cb, Some gb =>
    let commit d (n : N) := match canon st n with
                            | Some h => if avail st h then upd d h true else d
                            | None => d end in
    let d0 := if 0 <? hnum cb then commit (disk st) (hnum cb) else disk st in
    let d1 := if 1 <? hnum cb then commit d0 (hnum cb - 1) else d0 in
    let st1 := mkdb (known st) (rcpt st) d1 d1 (canon st) (lookup st) (hd_block st) (hd_header st) (hd_snap st) in
    if avail st1 (hd_block st1) then (st1, [], None)
    else match rewind fuel st1 (0, gb) cb with
         | None => (st1, [], Some EOutOfFuel)
         | Some nh =>
           let ns := match T (hd_snap st1) with
                     | Some sb => if hnum cb <? b_number sb then fst cb else hd_snap st1
                     | None => hd_snap st1 end in
           (mkdb (known st1) (rcpt st1) (avail st1) (disk st1) (canon st1) (lookup st1)
                 (fst nh) (hd_header st1) ns, [], None)
         end
  | _, _ => (st, [], Some EHeadMissing)
  end.

Inductive op :=
| OInsert (l : list N)        (* bc.InsertChain(blocks) *)
| OInsertNoHead (h : N)       (* bc.InsertBlockWithoutSetHead(block) *)
| OSetCanonical (h : N)       (* bc.SetCanonical(block), block fetched from the DB *)
| OSetHead (n : N)            (* bc.SetHead(n) *)
| ORestart.                   (* bc.Stop(); core.NewBlockChain(db, ...) *)

Definition step (fuel : nat) (st : db) (o : op) : outcome :=
  match o with
  | OInsert l =>
    match resolve_all l with
    | None => (st, [], Some EUnknownBlock)
    | Some hs => if contiguous hs then insert_chain fuel st true hs else (st, [], Some ENonContiguous)
    end
  | OInsertNoHead h =>
    match T h with
    | None => (st, [], Some EUnknownBlock)
    | Some b => insert_chain fuel st false [(h, b)]
    end
  | OSetCanonical h =>
    match get_by_hash st h with
    | None => (st, [], Some EUnknownBlock)
    | Some x => set_canonical fuel st x
    end
  | OSetHead n => set_head fuel st n
  | ORestart => restart fuel st
  end.

(* rawdb.ReadCanonicalTransaction: lookup -> number -> canonical hash -> body scan *)
Definition resolve_tx (st : db) (tx : N) : option (N * N) :=
  match lookup st tx with
  | None => None
  | Some n => match canon st n with
              | None => None
              | Some h => match get_by_hash st h with
                          | Some x => if mem tx (b_txs (snd x)) then Some (h, n) else None
                          | None => None
                          end
              end
  end.

End Model.
