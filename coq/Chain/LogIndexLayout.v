(* Chain/LogIndexLayout.v — the linear log value layout (logIterator) and the
   correctness of getLogByLvIndex: block pointers, the per-map narrowing by
   lastBlockOfMap, the binary search and the walk through the block's logs. *)
From GV Require Import Lib.Tactics Chain.LogIndex Chain.LogIndexProofs.
Local Open Scope N_scope.

(* ------------------------------------------------------------------ *)
(* generic list lemmas                                                  *)

Lemma ssorted_nth_lt : forall (l : list N) i j a b, ssorted l ->
  nth_error l i = Some a -> nth_error l j = Some b -> (i < j)%nat -> a < b.
Proof.
  induction l as [|x l IH]; intros i j a b Hs Hi Hj Hlt; [destruct i; discriminate|].
  destruct (ssorted_cons_inv _ _ Hs) as [Hs' Hx].
  destruct j as [|j]; [lia|]. simpl in Hj. destruct i as [|i]; simpl in Hi.
  - injection Hi as <-. apply Hx. eapply nth_error_In. exact Hj.
  - eapply IH; try eassumption. lia.
Qed.

Lemma ssorted_nth_le (l : list N) i j a b : ssorted l ->
  nth_error l i = Some a -> nth_error l j = Some b -> (i <= j)%nat -> a <= b.
Proof.
  intros Hs Hi Hj Hle. destruct (Nat.eq_dec i j) as [->|Hne].
  - rewrite Hi in Hj. injection Hj as <-. lia.
  - pose proof (ssorted_nth_lt l i j a b Hs Hi Hj ltac:(lia)). lia.
Qed.

Lemma nth_error_split' {A} (l : list A) i a : nth_error l i = Some a ->
  l = firstn i l ++ a :: skipn (S i) l /\ length (firstn i l) = i.
Proof.
  revert i. induction l as [|x l IH]; intros i H; [destruct i; discriminate|].
  destruct i as [|i]; simpl in *.
  - injection H as <-. split; reflexivity.
  - destruct (IH _ H) as [E L]. split; [f_equal; exact E | f_equal; exact L].
Qed.

Lemma Forall2_nth {A B} (R : A -> B -> Prop) : forall l1 l2 i a b,
  Forall2 R l1 l2 -> nth_error l1 i = Some a -> nth_error l2 i = Some b -> R a b.
Proof.
  induction l1 as [|x l1 IH]; intros l2 i a b H Ha Hb; [destruct i; discriminate|].
  inversion H as [|x' y l1' l2' Hxy Hrest]; subst.
  destruct i as [|i]; simpl in *.
  - injection Ha as <-. injection Hb as <-. exact Hxy.
  - eapply IH; eassumption.
Qed.

Lemma Forall2_length' {A B} (R : A -> B -> Prop) l1 l2 : Forall2 R l1 l2 -> length l1 = length l2.
Proof. induction 1; simpl; congruence. Qed.

(* the log placed at index lv, if any *)
Definition lookup (ps : list (N * log)) (lv : N) : option log :=
  match find (fun pl => fst pl =? lv) ps with Some pl => Some (snd pl) | None => None end.

Lemma lookup_app a b lv :
  lookup (a ++ b) lv = match lookup a lv with Some x => Some x | None => lookup b lv end.
Proof.
  unfold lookup. induction a as [|x a IH]; simpl; [reflexivity|].
  destruct (fst x =? lv); [reflexivity | exact IH].
Qed.

Lemma lookup_none ps lv : (forall p l, In (p, l) ps -> p <> lv) -> lookup ps lv = None.
Proof.
  unfold lookup. induction ps as [|[p l] ps IH]; intros H; simpl; [reflexivity|].
  destruct (p =? lv) eqn:E.
  - apply N.eqb_eq in E. exfalso. eapply H; [left; reflexivity | exact E].
  - apply IH. intros p' l' Hin. apply (H p' l'). right. exact Hin.
Qed.

Lemma lookup_some ps lv l : lookup ps lv = Some l -> In (lv, l) ps.
Proof.
  unfold lookup. induction ps as [|[p l'] ps IH]; simpl; [discriminate|].
  destruct (p =? lv) eqn:E.
  - apply N.eqb_eq in E. intros H. injection H as <-. left. subst. reflexivity.
  - intros H. right. apply IH. exact H.
Qed.

(* ------------------------------------------------------------------ *)
Section Layout.
Variable P : params.
Notation vpm := (vpm P).
Notation place := (place P).
Notation layout_logs := (layout_logs P).
Notation layout_blocks := (layout_blocks P).
Notation walk_logs := (walk_logs P).

Lemma log_len_pos l : 1 <= log_len l.
Proof. unfold log_len. lia. Qed.

Lemma place_ge cur l : cur <= place cur l.
Proof. unfold LogIndex.place. destruct (vpm - cur mod vpm <? log_len l); lia. Qed.

(* a placed log never straddles a map boundary *)
Lemma place_fits cur l : log_len l <= vpm ->
  place cur l / vpm = (place cur l + log_len l - 1) / vpm.
Proof.
  intros Hfit. pose proof (vpm_pos P) as Hv. pose proof (log_len_pos l) as Hl.
  pose proof (N.div_mod cur vpm ltac:(lia)) as Hdm.
  pose proof (N.mod_lt cur vpm ltac:(lia)) as Hm.
  set (q := cur / vpm) in *. set (r := cur mod vpm) in *.
  unfold LogIndex.place. fold r. destruct (vpm - r <? log_len l) eqn:E.
  - assert (Hp : cur + (vpm - r) = vpm * (q + 1)) by lia. rewrite Hp.
    rewrite <- (N.div_unique (vpm * (q + 1)) vpm (q + 1) 0) by lia.
    apply (N.div_unique _ vpm (q + 1) (log_len l - 1)); lia.
  - rewrite <- (N.div_unique cur vpm q r) by lia.
    apply (N.div_unique _ vpm q (r + log_len l - 1)); lia.
Qed.

(* [spaced lo ps hi]: the logs of ps follow each other without overlap inside [lo, hi) *)
Inductive spaced : N -> list (N * log) -> N -> Prop :=
| sp_nil lo hi : lo <= hi -> spaced lo [] hi
| sp_cons lo p l ps hi : lo <= p -> spaced (p + log_len l) ps hi -> spaced lo ((p, l) :: ps) hi.

Lemma spaced_le lo ps hi : spaced lo ps hi -> lo <= hi.
Proof. induction 1; [assumption|]. pose proof (log_len_pos l). lia. Qed.

Lemma spaced_In lo ps hi p l : spaced lo ps hi -> In (p, l) ps -> lo <= p /\ p + log_len l <= hi.
Proof.
  induction 1 as [|lo p0 l0 ps hi Hlo Hs IH]; intros Hin; [destruct Hin|].
  destruct Hin as [E|Hin].
  - injection E as <- <-. split; [exact Hlo | eapply spaced_le; exact Hs].
  - destruct (IH Hin). pose proof (log_len_pos l0). lia.
Qed.

Lemma spaced_weaken lo lo' ps hi hi' : lo' <= lo -> hi <= hi' -> spaced lo ps hi -> spaced lo' ps hi'.
Proof.
  intros H1 H2 Hs. revert lo' H1. induction Hs as [lo hi Hle|lo p l ps hi Hlo Hs IH]; intros lo' H1.
  - constructor. lia.
  - constructor; [lia|]. apply IH; [exact H2 | lia].
Qed.

Lemma spaced_app lo a mid b hi : spaced lo a mid -> spaced mid b hi -> spaced lo (a ++ b) hi.
Proof.
  intros Ha Hb. induction Ha as [lo mid Hle|lo p l ps mid Hlo Hs IH]; simpl.
  - eapply spaced_weaken; [exact Hle | apply N.le_refl | exact Hb].
  - constructor; [exact Hlo | apply IH; exact Hb].
Qed.

Lemma spaced_sorted lo ps hi : spaced lo ps hi -> ssorted (map fst ps).
Proof.
  induction 1 as [|lo p l ps hi Hlo Hs IH]; simpl; [constructor|].
  apply ssorted_cons; [exact IH|]. intros y Hy. apply in_map_iff in Hy.
  destruct Hy as ([p' l'] & <- & Hin). simpl.
  destruct (spaced_In _ _ _ _ _ Hs Hin). pose proof (log_len_pos l). lia.
Qed.

Lemma layout_logs_spec : forall ls cur ps e, layout_logs cur ls = (ps, e) ->
  spaced cur ps e /\ map snd ps = ls /\
  ((forall l, In l ls -> log_len l <= vpm) ->
   forall p l, In (p, l) ps -> p / vpm = (p + log_len l - 1) / vpm).
Proof.
  induction ls as [|l ls IH]; intros cur ps e H; simpl in H.
  - injection H as <- <-. split; [constructor; lia|]. split; [reflexivity | intros _ ? ? []].
  - destruct (layout_logs (place cur l + log_len l) ls) as [ps' e'] eqn:E.
    injection H as <- <-. destruct (IH _ _ _ E) as (H1 & H2 & H3).
    split; [constructor; [apply place_ge | exact H1]|]. split; [simpl; f_equal; exact H2|].
    intros Hfit p l0 [E0|Hin].
    + injection E0 as <- <-. apply place_fits. apply Hfit. left. reflexivity.
    + apply H3; [|exact Hin]. intros l1 Hl1. apply Hfit. right. exact Hl1.
Qed.

(* walk_logs = lookup in the block's layout *)
Lemma walk_logs_lookup lv : forall ls cur,
  walk_logs ls cur lv = lookup (fst (layout_logs cur ls)) lv.
Proof.
  induction ls as [|l ls IH]; intros cur; simpl; [reflexivity|].
  destruct (layout_logs (place cur l + log_len l) ls) as [ps' e'] eqn:E. simpl.
  destruct (layout_logs_spec _ _ _ _ E) as (Hs & _ & _).
  unfold lookup. simpl. destruct (lv <? place cur l) eqn:E1.
  - assert (Hne : (place cur l =? lv) = false) by lia. rewrite Hne.
    change (lookup ps' lv = None -> None = lookup ps' lv) with (lookup ps' lv = None -> None = lookup ps' lv).
    symmetry. apply lookup_none. intros p l' Hin.
    destruct (spaced_In _ _ _ _ _ Hs Hin). pose proof (log_len_pos l). lia.
  - destruct (place cur l =? lv) eqn:E2; [reflexivity|].
    rewrite IH, E. reflexivity.
Qed.

(* ---- blocks ---- *)
Definition blay := list (N * list (N * log)).

Inductive bspaced : N -> blay -> N -> Prop :=
| bs_nil cur : bspaced cur [] cur
| bs_cons cur ps e rest e' : spaced cur ps e -> bspaced (e + 1) rest e' ->
                             bspaced cur ((cur, ps) :: rest) e'.

Definition lay_rel (lay : blay) (bs : list (list log)) : Prop :=
  Forall2 (fun x logs => fst (layout_logs (fst x) logs) = snd x /\ map snd (snd x) = logs) lay bs.

Lemma layout_blocks_spec : forall bs cur lay e', layout_blocks cur bs = (lay, e') ->
  bspaced cur lay e' /\ lay_rel lay bs /\
  ((forall b l, In b bs -> In l b -> log_len l <= vpm) ->
   forall p l, In (p, l) (placed_of lay) -> p / vpm = (p + log_len l - 1) / vpm).
Proof.
  induction bs as [|b bs IH]; intros cur lay e' H; simpl in H.
  - injection H as <- <-. split; [constructor|]. split; [constructor | intros _ ? ? []].
  - destruct (layout_logs cur b) as [ps e] eqn:E1.
    destruct (layout_blocks (e + 1) bs) as [rest e2] eqn:E2. injection H as <- <-.
    destruct (layout_logs_spec _ _ _ _ E1) as (Hs & Hm & Hf).
    destruct (IH _ _ _ E2) as (Hb & Hr & Hf2).
    split; [apply (bs_cons _ _ e); assumption|]. split.
    + constructor; [|exact Hr]. simpl. rewrite E1. split; [reflexivity | exact Hm].
    + intros Hfit p l Hin. unfold placed_of in Hin. simpl in Hin. apply in_app_or in Hin.
      destruct Hin as [Hin|Hin].
      * apply Hf; [|exact Hin]. intros l0 Hl0. apply (Hfit b l0); [left; reflexivity | exact Hl0].
      * apply Hf2; [|exact Hin]. intros b0 l0 Hb0 Hl0. apply (Hfit b0 l0); [right; exact Hb0 | exact Hl0].
Qed.

Lemma bspaced_le cur lay e' : bspaced cur lay e' -> cur <= e'.
Proof. induction 1 as [|cur ps e rest e' Hs Hb IH]; [lia|]. pose proof (spaced_le _ _ _ Hs). lia. Qed.

Lemma bspaced_placed cur lay e' : bspaced cur lay e' -> spaced cur (placed_of lay) e'.
Proof.
  induction 1 as [cur|cur ps e rest e' Hs Hb IH]; unfold placed_of; simpl; [constructor; lia|].
  eapply spaced_app; [exact Hs|]. eapply spaced_weaken; [|apply N.le_refl|exact IH]. lia.
Qed.

Lemma bspaced_app_inv : forall l1 cur l2 e', bspaced cur (l1 ++ l2) e' ->
  exists mid, bspaced cur l1 mid /\ bspaced mid l2 e'.
Proof.
  induction l1 as [|x l1 IH]; intros cur l2 e' H; simpl in H.
  - exists cur. split; [constructor | exact H].
  - inversion H as [|cur' ps e rest e2 Hs Hb]; subst.
    destruct (IH _ _ _ Hb) as (mid & H1 & H2). exists mid. split; [apply (bs_cons _ _ e); assumption | exact H2].
Qed.

(* block pointers are strictly increasing and below the end pointer *)
Lemma bspaced_ptrs cur lay e' : bspaced cur lay e' ->
  ssorted (map fst lay) /\ forall q, In q (map fst lay) -> cur <= q /\ q < e'.
Proof.
  induction 1 as [cur|cur ps e rest e' Hs Hb [IH1 IH2]]; simpl.
  - split; [constructor | intros ? []].
  - pose proof (spaced_le _ _ _ Hs). pose proof (bspaced_le _ _ _ Hb).
    split.
    + apply ssorted_cons; [exact IH1|]. intros y Hy. destruct (IH2 _ Hy). lia.
    + intros q [<-|Hq]; [lia|]. destruct (IH2 _ Hq). lia.
Qed.

(* the structure around block b *)
Lemma bspaced_nth cur lay e' b q ps : bspaced cur lay e' -> nth_error lay b = Some (q, ps) ->
  exists e, bspaced cur (firstn b lay) q /\ spaced q ps e /\ bspaced (e + 1) (skipn (S b) lay) e' /\
            lay = firstn b lay ++ (q, ps) :: skipn (S b) lay.
Proof.
  intros Hb Hn. destruct (nth_error_split' _ _ _ Hn) as [E _].
  rewrite E in Hb. destruct (bspaced_app_inv _ _ _ _ Hb) as (mid & H1 & H2).
  inversion H2 as [|cur' ps' e rest e2 Hs Hr]; subst.
  exists e. split; [exact H1|]. split; [exact Hs|]. split; [exact Hr | exact E].
Qed.

Lemma bspaced_next_ptr cur lay e' : bspaced cur lay e' ->
  match lay with [] => e' = cur | (q, _) :: _ => q = cur end.
Proof. destruct 1; reflexivity. Qed.

(* ---- owner (last_block_of_map) and the binary search ---- *)

Lemma owner_from_spec pos : forall r b acc, ssorted r ->
  (owner_from r b pos acc = acc /\ forall q, In q r -> pos < q) \/
  (exists i q, nth_error r i = Some q /\ owner_from r b pos acc = b + N.of_nat i /\ q <= pos /\
               forall j q', nth_error r j = Some q' -> q' <= pos -> (j <= i)%nat).
Proof.
  induction r as [|p r IH]; intros b acc Hs; simpl.
  - left. split; [reflexivity | intros ? []].
  - destruct (ssorted_cons_inv _ _ Hs) as [Hs' Hp]. destruct (p <=? pos) eqn:E.
    + right. destruct (IH (b + 1) b Hs') as [[H1 H2]|(i & q & Hn & Ho & Hq & Hmax)].
      * exists 0%nat, p. split; [reflexivity|]. split; [rewrite H1; lia|]. split; [lia|].
        intros j q' Hj Hq'. destruct j as [|j]; [lia|]. simpl in Hj.
        specialize (H2 _ (nth_error_In _ _ Hj)). lia.
      * exists (S i), q. split; [exact Hn|]. split; [rewrite Ho; lia|]. split; [exact Hq|].
        intros j q' Hj Hq'. destruct j as [|j]; [lia|]. simpl in Hj. specialize (Hmax _ _ Hj Hq'). lia.
    + left. split; [reflexivity|]. intros q [<-|Hq]; [lia|]. specialize (Hp _ Hq). lia.
Qed.

(* [own ptrs lv b]: block b is the block whose index range contains lv *)
Definition own (ptrs : list N) (lv : N) (b : nat) : Prop :=
  exists q, nth_error ptrs b = Some q /\ q <= lv /\
            forall q', nth_error ptrs (S b) = Some q' -> lv < q'.

Lemma owner_top ptrs pos p0 rest : ptrs = p0 :: rest -> p0 <= pos -> ssorted ptrs ->
  exists k, owner_from ptrs 0 pos 0 = N.of_nat k /\ own ptrs pos k.
Proof.
  intros E H0 Hs. destruct (owner_from_spec pos ptrs 0 0 Hs) as [[_ H2]|(i & q & Hn & Ho & Hq & Hmax)].
  - exfalso. specialize (H2 p0). rewrite E in H2. specialize (H2 (or_introl eq_refl)). lia.
  - exists i. split; [rewrite Ho; lia|]. exists q. split; [exact Hn|]. split; [exact Hq|].
    intros q' Hq'. destruct (N.ltb_spec pos q') as [|Hle]; [assumption|].
    specialize (Hmax _ _ Hq' Hle). lia.
Qed.

Lemma own_mono ptrs lv lv' b b' : ssorted ptrs -> own ptrs lv b -> own ptrs lv' b' -> lv <= lv' -> (b <= b')%nat.
Proof.
  intros Hs (q & Hq & Hle & Hn) (q' & Hq' & Hle' & Hn') Hlv.
  destruct (le_lt_dec b b') as [|Hlt]; [assumption|]. exfalso.
  assert (exists q2, nth_error ptrs (S b') = Some q2) as [q2 Hq2].
  { destruct (nth_error ptrs (S b')) eqn:E; [eauto|]. apply nth_error_None in E.
    assert (b < length ptrs)%nat by (apply nth_error_Some; congruence). lia. }
  specialize (Hn' _ Hq2). pose proof (ssorted_nth_le ptrs (S b') b q2 q Hs Hq2 Hq ltac:(lia)). lia.
Qed.

Section Find.
Variable ix : index.
Notation ptrs := (ix_ptrs ix).
Hypothesis Hsorted : ssorted ptrs.

Lemma blk_ptr_nth b : blk_ptr ix (N.of_nat b) = nth_error ptrs b.
Proof. unfold blk_ptr. rewrite Nat2N.id. reflexivity. Qed.

Lemma find_block_spec lv bs : own ptrs lv bs ->
  forall fuel lo hi, (lo <= bs <= hi)%nat -> (hi < length ptrs)%nat -> (hi - lo < fuel)%nat ->
  find_block fuel ix (N.of_nat lo) (N.of_nat hi) lv = Some (N.of_nat bs).
Proof.
  intros (q & Hq & Hle & Hnext). induction fuel as [|f IH]; intros lo hi Hb Hlen Hf; [lia|].
  simpl. destruct (N.of_nat lo <? N.of_nat hi) eqn:E.
  - set (mid := ((lo + hi + 1) / 2)%nat).
    assert (Hmid : (N.of_nat lo + N.of_nat hi + 1) / 2 = N.of_nat mid).
    { unfold mid. rewrite Nat2N.inj_div. f_equal. lia. }
    rewrite Hmid. assert (Hm : (lo < mid <= hi)%nat).
    { unfold mid. split.
      - apply Nat.div_le_lower_bound; lia.
      - apply Nat.div_le_upper_bound; lia. }
    rewrite blk_ptr_nth. destruct (nth_error ptrs mid) as [p|] eqn:Ep.
    2:{ apply nth_error_None in Ep. lia. }
    destruct (lv <? p) eqn:E2.
    + replace (N.of_nat mid - 1) with (N.of_nat (mid - 1)) by lia. apply IH; [|lia|lia].
      split; [lia|]. destruct (le_lt_dec mid bs) as [Hge|]; [|lia]. exfalso.
      pose proof (ssorted_nth_le ptrs mid bs p q Hsorted Ep Hq Hge). lia.
    + apply IH; [|lia|lia]. split; [|lia].
      destruct (le_lt_dec mid bs) as [|Hlt]; [assumption|]. exfalso.
      assert (exists q2, nth_error ptrs (S bs) = Some q2) as [q2 Hq2].
      { destruct (nth_error ptrs (S bs)) eqn:E3; [eauto|]. apply nth_error_None in E3. lia. }
      specialize (Hnext _ Hq2).
      pose proof (ssorted_nth_le ptrs (S bs) mid q2 p Hsorted Hq2 Ep ltac:(lia)). lia.
  - assert (lo = bs) by lia. subst. reflexivity.
Qed.
End Find.

(* ---- getLogByLvIndex on an index whose pointers come from the chain's layout ---- *)
Section Rendered.
Variable chain : list (list log).
Variable lay : blay.
Variable e' : N.
Hypothesis Hlay : layout_blocks 0 chain = (lay, e').
Hypothesis Hne : chain <> [].
Variable ix : index.
Hypothesis Hptrs : ix_ptrs ix = map fst lay.

Let Hspec := layout_blocks_spec _ _ _ _ Hlay.

Lemma lay_length : length lay = length chain.
Proof. destruct Hspec as (_ & Hr & _). eapply Forall2_length'. exact Hr. Qed.

Lemma ptrs_sorted : ssorted (ix_ptrs ix).
Proof. rewrite Hptrs. destruct Hspec as (Hb & _ & _). apply (bspaced_ptrs _ _ _ Hb). Qed.

Lemma ptrs_head : exists rest, ix_ptrs ix = 0 :: rest.
Proof.
  rewrite Hptrs. destruct Hspec as (Hb & _ & _). pose proof (bspaced_next_ptr _ _ _ Hb) as H.
  pose proof lay_length as HL. destruct lay as [|[q ps] r]; [destruct chain; [congruence|discriminate]|].
  subst q. simpl. eauto.
Qed.

Lemma own_exists lv : exists bs, own (ix_ptrs ix) lv bs.
Proof.
  destruct ptrs_head as [rest E].
  destruct (owner_top _ lv 0 rest E ltac:(lia) ptrs_sorted) as (k & _ & Hk). eauto.
Qed.

Lemma last_block_of_map_own m : exists k, last_block_of_map P ix m = N.of_nat k /\
  own (ix_ptrs ix) ((m + 1) * vpm) k.
Proof.
  destruct ptrs_head as [rest E]. unfold last_block_of_map.
  apply (owner_top _ _ 0 rest E ltac:(lia) ptrs_sorted).
Qed.

Lemma own_lt_length lv bs : own (ix_ptrs ix) lv bs -> (bs < length chain)%nat.
Proof.
  intros (q & Hq & _). rewrite <- lay_length, <- (map_length fst), <- Hptrs.
  apply nth_error_Some. congruence.
Qed.

(* the placed logs of block bs, and why looking lv up in them is looking it up globally *)
Lemma own_block lv bs : own (ix_ptrs ix) lv bs ->
  exists q ps logs, nth_error lay bs = Some (q, ps) /\ nth_error chain bs = Some logs /\
    nth_error (ix_ptrs ix) bs = Some q /\ fst (layout_logs q logs) = ps /\
    lookup (placed_of lay) lv = lookup ps lv.
Proof.
  intros Hown. pose proof (own_lt_length _ _ Hown) as Hlt. destruct Hown as (q & Hq & Hle & Hnext).
  destruct Hspec as (Hb & Hr & _).
  destruct (nth_error lay bs) as [[q0 ps]|] eqn:En.
  2:{ apply nth_error_None in En. rewrite lay_length in En. lia. }
  assert (q0 = q).
  { rewrite Hptrs in Hq. rewrite nth_error_map, En in Hq. simpl in Hq. congruence. }
  subst q0. destruct (nth_error chain bs) as [logs|] eqn:Ec.
  2:{ apply nth_error_None in Ec. lia. }
  destruct (Forall2_nth _ _ _ _ _ _ Hr En Ec) as [Hps _]. simpl in Hps.
  exists q, ps, logs. repeat (split; [assumption || reflexivity|]).
  destruct (bspaced_nth _ _ _ _ _ _ Hb En) as (e & Hpre & Hs & Hpost & Esplit).
  set (pre := firstn bs lay) in *. set (post := skipn (S bs) lay) in *.
  assert (Epl : placed_of lay = placed_of pre ++ ps ++ placed_of post).
  { rewrite Esplit at 1. unfold placed_of. rewrite map_app, concat_app. reflexivity. }
  rewrite Epl, !lookup_app.
  rewrite (lookup_none (placed_of pre)).
  2:{ intros p l Hin. pose proof (bspaced_placed _ _ _ Hpre) as Hsp.
      destruct (spaced_In _ _ _ _ _ Hsp Hin). pose proof (log_len_pos l). lia. }
  rewrite (lookup_none (placed_of post)); [destruct (lookup ps lv); reflexivity|].
  intros p l Hin. pose proof (bspaced_placed _ _ _ Hpost) as Hsp.
  destruct (spaced_In _ _ _ _ _ Hsp Hin) as [Hp _].
  destruct post as [|[q2 ps2] post'] eqn:Epost; [destruct Hin|].
  pose proof (bspaced_next_ptr _ _ _ Hpost) as Hq2. simpl in Hq2.
  assert (Hn2 : nth_error (ix_ptrs ix) (S bs) = Some q2).
  { rewrite Hptrs, Esplit, map_app, nth_error_app2; rewrite map_length;
      destruct (nth_error_split' _ _ _ En) as [_ HL]; fold pre in HL; rewrite HL; [|lia].
    replace (S bs - bs)%nat with 1%nat by lia. reflexivity. }
  specialize (Hnext _ Hn2). lia.
Qed.

Variable rg : irange.

(* getLogByLvIndex returns the log whose first value is at lv, none otherwise *)
Theorem get_log_spec lv bf pf :
  r_bfirst rg = N.of_nat bf -> nth_error (ix_ptrs ix) bf = Some pf -> pf <= lv ->
  r_mfirst rg <= lv / vpm -> lv / vpm < r_mafter rg ->
  get_log_by_lv_index P chain ix rg lv = Some (lookup (placed_of lay) lv).
Proof.
  intros Hbf Hpf Hle Hm1 Hm2. unfold get_log_by_lv_index.
  assert (Hin : (r_mfirst rg <=? lv / vpm) && (lv / vpm <? r_mafter rg) = true) by lia.
  rewrite Hin. cbn [negb]. set (m := lv / vpm) in *.
  pose proof (vpm_pos P) as Hv.
  assert (Hlo : m * vpm <= lv) by (unfold m; rewrite N.mul_comm; apply N.mul_div_le; lia).
  assert (Hhi : lv < (m + 1) * vpm).
  { unfold m. pose proof (N.div_mod lv vpm ltac:(lia)). pose proof (N.mod_lt lv vpm ltac:(lia)). lia. }
  destruct (own_exists lv) as [bs Hown].
  destruct (last_block_of_map_own m) as (kh & Ekh & Hkh). rewrite Ekh.
  pose proof (own_mono _ _ _ _ _ ptrs_sorted Hown Hkh ltac:(lia)) as Hbs_hi.
  assert (Hbf_bs : (bf <= bs)%nat).
  { destruct (le_lt_dec bf bs) as [|Hlt]; [assumption|]. exfalso.
    destruct Hown as (q & Hq & Hqle & Hnext).
    assert (exists q2, nth_error (ix_ptrs ix) (S bs) = Some q2) as [q2 Hq2].
    { destruct (nth_error (ix_ptrs ix) (S bs)) eqn:E3; [eauto|]. apply nth_error_None in E3.
      assert (bf < length (ix_ptrs ix))%nat by (apply nth_error_Some; congruence). lia. }
    specialize (Hnext _ Hq2).
    pose proof (ssorted_nth_le _ (S bs) bf q2 pf ptrs_sorted Hq2 Hpf ltac:(lia)). lia. }
  assert (Hkh_len : (kh < length (ix_ptrs ix))%nat).
  { destruct Hkh as (q & Hq & _). apply nth_error_Some. congruence. }
  assert (Hfind : forall lo, (lo <= bs)%nat ->
            find_block (S (length (ix_ptrs ix))) ix (N.of_nat lo) (N.of_nat kh) lv = Some (N.of_nat bs)).
  { intros lo Hlo'. apply (find_block_spec ix ptrs_sorted lv bs Hown); lia. }
  assert (Hres : forall lo0, (lo0 <= bs)%nat ->
    match find_block (S (length (ix_ptrs ix))) ix
            (if N.of_nat lo0 <? r_bfirst rg then r_bfirst rg else N.of_nat lo0) (N.of_nat kh) lv with
    | Some b => match nth_error chain (N.to_nat b), blk_ptr ix b with
                | Some logs, Some p => Some (walk_logs logs p lv)
                | _, _ => None end
    | None => None end = Some (lookup (placed_of lay) lv)).
  { intros lo0 Hlo0. rewrite Hbf.
    assert (Efb : find_block (S (length (ix_ptrs ix))) ix
                    (if N.of_nat lo0 <? N.of_nat bf then N.of_nat bf else N.of_nat lo0) (N.of_nat kh) lv
                  = Some (N.of_nat bs)).
    { destruct (N.of_nat lo0 <? N.of_nat bf); apply Hfind; assumption. }
    rewrite Efb. rewrite Nat2N.id, blk_ptr_nth.
    destruct (own_block _ _ Hown) as (q & ps & logs & _ & Hc & Hq & Hps & Hlk).
    rewrite Hc, Hq, walk_logs_lookup, Hps, Hlk. reflexivity. }
  destruct (0 <? m) eqn:Em.
  - destruct (last_block_of_map_own (m - 1)) as (kl & Ekl & Hkl). rewrite Ekl.
    apply Hres. apply (own_mono _ _ _ _ _ ptrs_sorted Hkl Hown).
    replace (m - 1 + 1) with m by lia. exact Hlo.
  - change 0 with (N.of_nat 0). apply Hres. lia.
Qed.

End Rendered.

End Layout.
