(* Chain/LogIndexExact.v — query_exact: an indexed search over a block range inside the
   indexed range returns exactly the scan of the canonical logs (one equation), and the
   search session of rangeLogs composes indexed and unindexed pieces into the scan of
   the whole range. *)
From GV Require Import Lib.Tactics Chain.LogIndex Chain.LogIndexProofs Chain.LogIndexSeq Chain.LogIndexQuery Chain.LogIndexLayout.
Local Open Scope N_scope.

(* ------------------------------------------------------------------ *)
(* generic list lemmas                                                  *)

Fixpoint fmap {A} (look : N -> option A) (C : list N) : list A :=
  match C with
  | [] => []
  | c :: r => match look c with Some a => a :: fmap look r | None => fmap look r end
  end.

Lemma fmap_app {A} (look : N -> option A) a b : fmap look (a ++ b) = fmap look a ++ fmap look b.
Proof.
  induction a as [|c a IH]; simpl; [reflexivity|]. destruct (look c); simpl; rewrite IH; reflexivity.
Qed.

Lemma fmap_ext {A} (f g : N -> option A) C : (forall c, In c C -> f c = g c) -> fmap f C = fmap g C.
Proof.
  induction C as [|c C IH]; intros H; simpl; [reflexivity|].
  rewrite (H c (or_introl eq_refl)), IH; [reflexivity|]. intros c' Hc'. apply H. right. exact Hc'.
Qed.

Lemma fmap_none {A} (f : N -> option A) C : (forall c, In c C -> f c = None) -> fmap f C = [].
Proof.
  induction C as [|c C IH]; intros H; simpl; [reflexivity|].
  rewrite (H c (or_introl eq_refl)). apply IH. intros c' Hc'. apply H. right. exact Hc'.
Qed.

Lemma in_list_false x l : (forall y, In y l -> y <> x) -> in_list x l = false.
Proof.
  unfold in_list. induction l as [|y l IH]; intros H; simpl; [reflexivity|].
  rewrite IH; [|intros y' Hy'; apply H; right; exact Hy'].
  assert (y <> x) by (apply H; left; reflexivity). rewrite orb_false_r. apply N.eqb_neq. congruence.
Qed.

Lemma in_list_true x l : In x l -> in_list x l = true.
Proof.
  unfold in_list. intros H. apply existsb_exists. exists x. split; [exact H | apply N.eqb_refl].
Qed.

Lemma lookup_cons p a G c : lookup ((p, a) :: G) c = if p =? c then Some a else lookup G c.
Proof. unfold lookup. simpl. destruct (p =? c); reflexivity. Qed.

Lemma filter_nil_all {A} (f : A -> bool) l : (forall x, In x l -> f x = false) -> filter f l = [].
Proof.
  induction l as [|x l IH]; intros H; simpl; [reflexivity|].
  rewrite (H x (or_introl eq_refl)). apply IH. intros y Hy. apply H. right. exact Hy.
Qed.

(* merge join of a strictly sorted candidate list with a key-sorted association list *)
Lemma join_sorted : forall n C (G : list (N * log)),
  (length C + length G <= n)%nat -> ssorted C -> ssorted (map fst G) ->
  fmap (lookup G) C = map snd (filter (fun pl => in_list (fst pl) C) G).
Proof.
  induction n as [|n IH]; intros C G Hn HC HG.
  - destruct C; [|simpl in Hn; lia]. destruct G; [|simpl in Hn; lia]. reflexivity.
  - destruct C as [|c C'].
    + simpl. rewrite filter_nil_all; [reflexivity | intros; reflexivity].
    + destruct G as [|[p a] G'].
      * simpl. rewrite fmap_none; [reflexivity | intros; reflexivity].
      * destruct (ssorted_cons_inv _ _ HC) as [HC' Hc]. simpl map in HG.
        destruct (ssorted_cons_inv _ _ HG) as [HG' Hp].
        assert (HpG : forall pl, In pl G' -> p < fst pl).
        { intros pl Hpl. apply Hp. apply List.in_map. exact Hpl. }
        destruct (N.compare_spec c p) as [Ecp|Hlt|Hgt].
        -- (* c = p *)
           subst c. simpl fmap. rewrite lookup_cons, N.eqb_refl.
           cbn [filter fst]. assert (Ein : in_list p (p :: C') = true) by (apply in_list_true; left; reflexivity).
           rewrite Ein. simpl map. f_equal.
           rewrite (fmap_ext _ (lookup G')).
           2:{ intros c' Hc'. rewrite lookup_cons. specialize (Hc _ Hc').
               assert (E : (p =? c') = false) by lia. rewrite E. reflexivity. }
           rewrite (filter_ext_in _ (fun pl => in_list (fst pl) C')).
           2:{ intros pl Hpl. specialize (HpG _ Hpl). unfold in_list. simpl.
               assert (E : (fst pl =? p) = false) by lia. rewrite E. reflexivity. }
           apply IH; [simpl in Hn; lia | exact HC' | exact HG'].
        -- (* c < p : no log at c *)
           simpl fmap. rewrite lookup_cons. assert (E : (p =? c) = false) by lia. rewrite E.
           rewrite (lookup_none G').
           2:{ intros p' l' Hin. specialize (HpG _ Hin). simpl in HpG. lia. }
           rewrite (filter_ext_in _ (fun pl => in_list (fst pl) C')).
           2:{ intros pl [<-|Hpl]; unfold in_list; simpl.
               - assert (E2 : (p =? c) = false) by lia. rewrite E2. reflexivity.
               - specialize (HpG _ Hpl). assert (E2 : (fst pl =? c) = false) by lia. rewrite E2. reflexivity. }
           apply IH; [simpl in Hn |- *; lia | exact HC' | exact HG].
        -- (* p < c : the log at p is not a candidate *)
           rewrite (fmap_ext _ (lookup G')).
           2:{ intros c' Hc'. rewrite lookup_cons.
               assert (p < c') by (destruct Hc' as [<-|Hc']; [lia | specialize (Hc _ Hc'); lia]).
               assert (E : (p =? c') = false) by lia. rewrite E. reflexivity. }
           cbn [filter fst].
           rewrite (in_list_false p (c :: C')).
           2:{ intros y [<-|Hy]; [lia | specialize (Hc _ Hy); lia]. }
           apply IH; [simpl in Hn |- *; lia | exact HC | exact HG'].
Qed.

Lemma ssorted_app a b : ssorted a -> ssorted b -> (forall x y, In x a -> In y b -> x < y) -> ssorted (a ++ b).
Proof.
  induction a as [|x a IH]; intros Ha Hb Hlt; simpl; [exact Hb|].
  destruct (ssorted_cons_inv _ _ Ha) as [Ha' Hx]. apply ssorted_cons.
  - apply IH; [exact Ha' | exact Hb|]. intros x' y Hx' Hy. apply Hlt; [right; exact Hx' | exact Hy].
  - intros y Hy. apply in_app_or in Hy. destruct Hy as [Hy|Hy]; [apply Hx; exact Hy|].
    apply Hlt; [left; reflexivity | exact Hy].
Qed.

Lemma ssorted_filter f l : ssorted l -> ssorted (filter f l).
Proof.
  induction l as [|x l IH]; intros Hs; simpl; [constructor|].
  destruct (ssorted_cons_inv _ _ Hs) as [Hs' Hx]. destruct (f x); [|apply IH; exact Hs'].
  apply ssorted_cons; [apply IH; exact Hs'|]. intros y Hy. apply filter_In in Hy. apply Hx. tauto.
Qed.

Lemma filter_map_snd_implied {A B} (P : B -> bool) (Q : A * B -> bool) (l : list (A * B)) :
  (forall x, In x l -> P (snd x) = true -> Q x = true) ->
  filter P (map snd (filter Q l)) = filter P (map snd l).
Proof.
  induction l as [|x l IH]; intros H; simpl; [reflexivity|].
  assert (IH' : filter P (map snd (filter Q l)) = filter P (map snd l)).
  { apply IH. intros y Hy. apply H. right. exact Hy. }
  destruct (Q x) eqn:EQ; simpl.
  - rewrite IH'. reflexivity.
  - destruct (P (snd x)) eqn:EP; [|exact IH'].
    rewrite (H x (or_introl eq_refl) EP) in EQ. discriminate.
Qed.

Lemma Forall2_In_l {A B} (R : A -> B -> Prop) l1 l2 a :
  Forall2 R l1 l2 -> In a l1 -> exists b, In b l2 /\ R a b.
Proof.
  induction 1 as [|x y l1 l2 Hxy Hr IH]; intros Hin; [destruct Hin|].
  destruct Hin as [<-|Hin]; [exists y; split; [left; reflexivity | exact Hxy]|].
  destruct (IH Hin) as (b & Hb & HR). exists b. split; [right; exact Hb | exact HR].
Qed.

Lemma Forall2_impl' {A B} (R1 R2 : A -> B -> Prop) l1 l2 :
  (forall a b, R1 a b -> R2 a b) -> Forall2 R1 l1 l2 -> Forall2 R2 l1 l2.
Proof. intros H. induction 1; constructor; auto. Qed.

Lemma Forall2_skipn {A B} (R : A -> B -> Prop) : forall n l1 l2,
  Forall2 R l1 l2 -> Forall2 R (skipn n l1) (skipn n l2).
Proof.
  induction n as [|n IH]; intros l1 l2 H; [exact H|].
  destruct H; simpl; [constructor | apply IH; assumption].
Qed.

Lemma Forall2_firstn {A B} (R : A -> B -> Prop) : forall n l1 l2,
  Forall2 R l1 l2 -> Forall2 R (firstn n l1) (firstn n l2).
Proof.
  induction n as [|n IH]; intros l1 l2 H; [constructor|].
  destruct H; simpl; [constructor | constructor; [assumption | apply IH; assumption]].
Qed.

Lemma opt_all_nth {A B} (f : A -> option B) : forall l rs i a,
  opt_all (map f l) = Some rs -> nth_error l i = Some a ->
  exists r, nth_error rs i = Some r /\ f a = Some r.
Proof.
  induction l as [|x l IH]; intros rs i a H Hn; [destruct i; discriminate|].
  simpl in H. destruct (f x) as [r0|] eqn:E; [|discriminate].
  destruct (opt_all (map f l)) as [rs'|] eqn:E2; [|discriminate]. injection H as <-.
  destruct i as [|i]; simpl in Hn |- *.
  - injection Hn as <-. exists r0. split; [reflexivity | exact E].
  - apply (IH rs' i a eq_refl Hn).
Qed.

Lemma N_seq_nth : forall n s i, (i < n)%nat -> nth_error (N_seq s n) i = Some (s + N.of_nat i).
Proof.
  induction n as [|n IH]; intros s i Hi; [lia|]. destruct i as [|i]; simpl.
  - f_equal. lia.
  - rewrite IH by lia. f_equal. lia.
Qed.

Lemma N_seq_In : forall n s x, In x (N_seq s n) <-> s <= x /\ x < s + N.of_nat n.
Proof.
  induction n as [|n IH]; intros s x; simpl.
  - split; [intros [] | lia].
  - rewrite IH. split; [intros [<-|H]; lia | intros H].
    destruct (N.eq_dec s x) as [E|Hne]; [left; exact E | right; lia].
Qed.

Lemma skipn_nth_cons {A} : forall (l : list A) n a, nth_error l n = Some a -> skipn n l = a :: skipn (S n) l.
Proof.
  induction l as [|x l IH]; intros n a H; [destruct n; discriminate|].
  destruct n as [|n]; simpl in *; [injection H as <-; reflexivity | apply IH; exact H].
Qed.

Lemma div_lt_lt v x y : 0 < v -> x / v < y / v -> x < y.
Proof.
  intros Hv H. destruct (N.lt_ge_cases x y) as [|Hge]; [assumption|].
  pose proof (N.div_le_mono y x v ltac:(lia) Hge). lia.
Qed.

Lemma bspaced_placed_strict cur lay e' : bspaced cur lay e' ->
  forall p l, In (p, l) (placed_of lay) -> cur <= p /\ p + log_len l + 1 <= e'.
Proof.
  induction 1 as [cur|cur ps e rest e' Hs Hb IH]; intros p l Hin; [destruct Hin|].
  unfold placed_of in Hin. simpl in Hin. apply in_app_or in Hin. destruct Hin as [Hin|Hin].
  - destruct (spaced_In _ _ _ _ _ Hs Hin). pose proof (bspaced_le _ _ _ Hb). lia.
  - destruct (IH _ _ Hin). pose proof (spaced_le _ _ _ Hs). lia.
Qed.

Lemma bspaced_cons_lt cur x rest e' : bspaced cur (x :: rest) e' -> cur + 1 <= e'.
Proof.
  intros H. inversion H as [|c ps e r e2 Hs Hr]; subst.
  pose proof (spaced_le _ _ _ Hs). pose proof (bspaced_le _ _ _ Hr). lia.
Qed.

Lemma lay_rel_concat P lay seg : lay_rel P lay seg -> map snd (placed_of lay) = concat seg.
Proof.
  induction 1 as [|x logs lay seg [_ Hx] Hr IH]; [reflexivity|].
  unfold placed_of in *. simpl. rewrite map_app, IH, Hx. reflexivity.
Qed.

Lemma scan_blocks_seg chain addrs topics : forall k f,
  (f + k <= length chain)%nat ->
  scan_blocks chain addrs topics (N_seq (N.of_nat f) k) =
  Some (filter (check addrs topics) (concat (firstn k (skipn f chain)))).
Proof.
  induction k as [|k IH]; intros f Hlen; [reflexivity|].
  cbn [N_seq scan_blocks]. unfold block_logs. rewrite Nat2N.id.
  destruct (nth_error chain f) as [b|] eqn:E.
  2:{ apply nth_error_None in E. lia. }
  replace (N.of_nat f + 1) with (N.of_nat (S f)) by lia. rewrite IH by lia.
  rewrite (skipn_nth_cons _ _ _ E). cbn [firstn concat]. rewrite filter_app. reflexivity.
Qed.

(* ------------------------------------------------------------------ *)
Section Exact.
Variable P : params.
Variable addr_value topic_value : N -> N.
Variable row_hash : N -> nat -> N -> N.
Variable col_index : N -> N -> N.

Notation vpm := (vpm P).
Notation eval_map := (eval_map P addr_value topic_value row_hash col_index).
Notation render_map := (render_map P row_hash col_index).
Notation get_log := (get_log_by_lv_index P).
Notation process_maps := (process_maps P addr_value topic_value row_hash col_index).
Notation values_of := (values_of addr_value topic_value).
Notation all_values := (all_values addr_value topic_value).

Definition inr (fi li x : N) : bool := negb ((x <? fi) || (li <? x)).

Lemma lfm_spec chain ix rg fi li (look : N -> option log) :
  (forall x, fi <= x -> x <= li -> get_log chain ix rg x = Some (look x)) ->
  forall ms, logs_from_matches P chain ix rg fi li ms = Some (fmap look (filter (inr fi li) ms)).
Proof.
  intros H. induction ms as [|x ms IH]; [reflexivity|].
  cbn [logs_from_matches filter]. unfold inr at 1.
  destruct ((x <? fi) || (li <? x)) eqn:E; cbn [negb].
  - exact IH.
  - rewrite H by lia. rewrite IH. cbn [fmap]. destruct (look x); reflexivity.
Qed.

Lemma process_maps_spec fuel chain ix rg fi li addrs topics (look : N -> option log) :
  (forall x, fi <= x -> x <= li -> get_log chain ix rg x = Some (look x)) ->
  forall ms out, process_maps fuel chain ix rg fi li addrs topics ms = Some (IxLogs out) ->
  exists Cs, Forall2 (fun m c => eval_map fuel (ix_rows ix m) m addrs topics = Some (Some c)) ms Cs /\
             out = fmap look (filter (inr fi li) (concat Cs)).
Proof.
  intros H. induction ms as [|m ms IH]; intros out Hp; cbn [LogIndex.process_maps] in Hp.
  - injection Hp as <-. exists []. split; [constructor | reflexivity].
  - destruct (eval_map fuel (ix_rows ix m) m addrs topics) as [[c|]|] eqn:Ee; try discriminate.
    rewrite (lfm_spec _ _ _ _ _ _ H) in Hp.
    destruct (process_maps fuel chain ix rg fi li addrs topics ms) as [[|rest]|] eqn:Er; try discriminate.
    injection Hp as <-. destruct (IH _ eq_refl) as (Cs & HF & ->).
    exists (c :: Cs). split; [constructor; assumption|].
    cbn [concat]. rewrite filter_app, fmap_app. reflexivity.
Qed.

Lemma cands_sorted : forall k m0 Cs,
  Forall2 (fun m c => ssorted c /\ in_map P m c) (N_seq m0 k) Cs ->
  ssorted (concat Cs) /\ forall x, In x (concat Cs) -> m0 <= x / vpm.
Proof.
  induction k as [|k IH]; intros m0 Cs H; cbn [N_seq] in H.
  - inversion H; subst. split; [constructor | intros ? []].
  - inversion H as [|m c ms Cs' [Hc1 Hc2] Hr]; subst. destruct (IH _ _ Hr) as [Hs Hge].
    cbn [concat]. split.
    + apply ssorted_app; [exact Hc1 | exact Hs|]. intros x y Hx Hy.
      apply (div_lt_lt vpm); [apply vpm_pos|]. rewrite (Hc2 _ Hx). specialize (Hge _ Hy). lia.
    + intros x Hx. apply in_app_or in Hx. destruct Hx as [Hx|Hx]; [rewrite (Hc2 _ Hx); lia|].
      specialize (Hge _ Hx). lia.
Qed.

Hypothesis col_high : forall lv v, N.shiftr (col_index lv v) (p_hbits P) = lv mod vpm.
Hypothesis brl_small : p_brl P < two32.

Lemma eval_map_ok fuel rw m addrs topics c :
  eval_map fuel rw m addrs topics = Some (Some c) -> ssorted c /\ in_map P m c.
Proof.
  unfold LogIndex.eval_map. intros H.
  assert (Hne : pattern addr_value topic_value addrs topics <> []) by (unfold pattern; discriminate).
  destruct (match_seq_rev_spec P row_hash col_index col_high brl_small fuel rw m 0 _ _ Hne H) as [Hok _].
  exact Hok.
Qed.

(* what the theorem needs of the indexed range (filterMapsRange) relative to the index:
   the first indexed block exists and starts at or after the first rendered map, the
   block range ends at or before the head (at the head if headIndexed), and the rendered
   maps reach up to the last log of the chain *)
Definition rg_ok (lay : blay) (ix : index) (rg : irange) : Prop :=
  r_bafter rg <= N.of_nat (length (ix_ptrs ix)) /\
  (r_head_indexed rg = true -> r_bafter rg = N.of_nat (length (ix_ptrs ix))) /\
  (forall p l, In (p, l) (placed_of lay) -> p / vpm < r_mafter rg) /\
  (r_bfirst rg < r_bafter rg ->
   exists bf pf, r_bfirst rg = N.of_nat bf /\ nth_error (ix_ptrs ix) bf = Some pf /\
                 r_mfirst rg * vpm <= pf).

(* what the theorem needs of the index contents: the block pointers of the canonical chain
   and, for the maps of the indexed range ONLY, the rows rendered from the canonical chain
   (rows of other maps — unindexed tail epochs, stale rows after a reorg — are arbitrary) *)
Definition index_ok (fuel0 : nat) (lay : blay) (e' : N) (ix : index) (rg : irange) : Prop :=
  ix_ptrs ix = map fst lay /\ ix_end ix = e' /\
  forall m, r_mfirst rg <= m -> m < r_mafter rg ->
    exists rw, render_map fuel0 (all_values lay) m = Some rw /\ ix_rows ix m = rw.

Lemma indexed_blocks_bounds rg :
  fst (indexed_blocks rg) = r_bfirst rg /\ snd (indexed_blocks rg) <= r_bafter rg /\
  (snd (indexed_blocks rg) = r_bafter rg -> r_bfirst rg < r_bafter rg -> r_head_indexed rg = true).
Proof.
  unfold indexed_blocks. destruct (r_head_indexed rg); cbn [negb andb fst snd].
  - split; [reflexivity|]. split; [lia | reflexivity].
  - destruct (r_bfirst rg <? r_bafter rg) eqn:E; cbn [fst snd]; split; try reflexivity; split; lia.
Qed.

Lemma placed_of_app a b : placed_of (a ++ b) = placed_of a ++ placed_of b.
Proof. unfold placed_of. rewrite map_app, concat_app. reflexivity. Qed.

(* query_exact for ranges inside the indexed range: ONE equation *)
Theorem indexed_exact fuel0 fuel chain lay e' ix rg first last addrs topics out :
  layout_blocks P 0 chain = (lay, e') ->
  index_ok fuel0 lay e' ix rg ->
  (forall b l, In b chain -> In l b -> log_len l <= vpm) ->
  rg_ok lay ix rg ->
  fst (indexed_blocks rg) <= first -> first <= last -> last < snd (indexed_blocks rg) ->
  indexed_logs P addr_value topic_value row_hash col_index fuel chain ix rg first last addrs topics
    = Some (IxLogs out) ->
  scan chain addrs topics first last = Some out.
Proof.
  intros Hlay (Hptrs & Hend & Hrows) Hfit (Hba & Hhead & Hma & Hbfx) H1 H2 H3 Hq.
  pose proof (vpm_pos P) as Hv.
  destruct (indexed_blocks_bounds rg) as (Hib1 & Hib2 & Hib3).
  destruct (Hbfx ltac:(lia)) as (bf & pf & Hbf & Hpf0 & Hmf).
  pose proof Hpf0 as Hpf. rewrite Hptrs in Hpf, Hba, Hhead.
  destruct (layout_blocks_spec P _ _ _ _ Hlay) as (Hbs & Hrel & Hfits). specialize (Hfits Hfit).
  pose proof (Forall2_length' _ _ _ Hrel) as Hlen.
  assert (Hne : chain <> []).
  { intros ->. destruct lay; [destruct bf; discriminate | discriminate]. }
  rewrite map_length in Hba, Hhead.
  set (f := N.to_nat first). set (l := N.to_nat last).
  assert (Hl : (l < length lay)%nat) by lia.
  assert (Hfl : (f <= l)%nat) by lia.
  destruct (bspaced_ptrs _ _ _ Hbs) as [Hsorted _].
  (* the three parts of the chain: before, inside, after the searched block range *)
  set (k := (S l - f)%nat).
  set (A := firstn f lay). set (B := firstn k (skipn f lay)). set (C := skipn k (skipn f lay)).
  assert (Edec : lay = A ++ B ++ C).
  { unfold A, B, C. rewrite (firstn_skipn k), (firstn_skipn f). reflexivity. }
  assert (HbsD : bspaced 0 (A ++ B ++ C) e') by (rewrite <- Edec; exact Hbs).
  destruct (bspaced_app_inv _ _ _ _ HbsD) as (mid1 & HbA & HbBC).
  destruct (bspaced_app_inv _ _ _ _ HbBC) as (mid2 & HbB & HbC).
  destruct (nth_error lay f) as [[qf psf]|] eqn:Ef.
  2:{ apply nth_error_None in Ef. lia. }
  assert (EB : B = (qf, psf) :: firstn (k - 1) (skipn (S f) lay)).
  { unfold B. rewrite (skipn_nth_cons _ _ _ Ef). replace k with (S (k - 1)) at 1 by (unfold k; lia).
    reflexivity. }
  assert (Emid1 : qf = mid1).
  { pose proof (bspaced_next_ptr _ _ _ HbBC) as Hn. rewrite EB in Hn. exact Hn. }
  subst mid1.
  assert (Hqf : nth_error (map fst lay) f = Some qf) by (rewrite nth_error_map, Ef; reflexivity).
  assert (Hmid2 : qf + 1 <= mid2).
  { rewrite EB in HbB. exact (bspaced_cons_lt _ _ _ _ HbB). }
  assert (HlenAB : length (A ++ B) = S l).
  { unfold A, B. rewrite app_length, !firstn_length, skipn_length. unfold k. lia. }
  (* the two block pointers the search starts from *)
  assert (Hfi : get_block_lv_pointer ix rg first = Some qf).
  { unfold get_block_lv_pointer. assert (E : (r_bafter rg <=? first) = false) by lia. rewrite E.
    unfold blk_ptr. rewrite Hptrs. exact Hqf. }
  assert (Hli0 : get_block_lv_pointer ix rg (last + 1) = Some mid2).
  { unfold get_block_lv_pointer. destruct C as [|[q2 ps2] C'] eqn:EC.
    - pose proof (bspaced_next_ptr _ _ _ HbC) as Hn. simpl in Hn. subst mid2.
      assert (HlenC : length lay = S l).
      { rewrite Edec, app_assoc, app_nil_r. exact HlenAB. }
      assert (E : (r_bafter rg <=? last + 1) = true) by lia. rewrite E.
      rewrite Hib3; [rewrite Hend; reflexivity | lia | lia].
    - pose proof (bspaced_next_ptr _ _ _ HbC) as Hn. simpl in Hn. subst q2.
      assert (HlenC : (S l < length lay)%nat).
      { rewrite Edec, app_assoc, app_length, HlenAB. simpl. lia. }
      assert (E : (r_bafter rg <=? last + 1) = false).
      { destruct (N.eq_dec (snd (indexed_blocks rg)) (r_bafter rg)) as [Eq|Hneq].
        - specialize (Hib3 Eq ltac:(lia)). specialize (Hhead Hib3). lia.
        - lia. }
      rewrite E. unfold blk_ptr. rewrite Hptrs.
      replace (N.to_nat (last + 1)) with (S l) by lia.
      rewrite Edec, app_assoc, map_app, nth_error_app2; rewrite map_length, HlenAB; [|lia].
      rewrite Nat.sub_diag. reflexivity. }
  unfold indexed_logs, get_potential_matches in Hq. rewrite Hfi, Hli0 in Hq.
  assert (E0 : (0 <? mid2) = true) by lia. rewrite E0 in Hq.
  set (li := mid2 - 1) in *.
  (* where the logs of the three parts sit *)
  assert (Epl : placed_of lay = placed_of A ++ placed_of B ++ placed_of C).
  { rewrite Edec at 1. rewrite !placed_of_app. reflexivity. }
  assert (KA : forall p l0, In (p, l0) (placed_of A) -> p < qf).
  { intros p l0 Hin. destruct (bspaced_placed_strict _ _ _ HbA _ _ Hin). lia. }
  assert (KB : forall p l0, In (p, l0) (placed_of B) -> qf <= p /\ p <= li).
  { intros p l0 Hin. destruct (bspaced_placed_strict _ _ _ HbB _ _ Hin). unfold li. lia. }
  assert (KC : forall p l0, In (p, l0) (placed_of C) -> li < p).
  { intros p l0 Hin. destruct (bspaced_placed_strict _ _ _ HbC _ _ Hin). unfold li. lia. }
  assert (Kall : forall p l0, In (p, l0) (placed_of lay) -> p + 2 <= e').
  { intros p l0 Hin. destruct (bspaced_placed_strict _ _ _ Hbs _ _ Hin). pose proof (log_len_pos l0). lia. }
  (* getLogByLvIndex on the searched index range *)
  assert (Hpfqf : pf <= qf).
  { apply (ssorted_nth_le (map fst lay) bf f pf qf Hsorted Hpf Hqf). lia. }
  assert (Hget : forall x, qf <= x -> x <= li ->
            get_log_by_lv_index P chain ix rg x = Some (lookup (placed_of lay) x)).
  { intros x Hx1 Hx2.
    destruct ((r_mfirst rg <=? x / vpm) && (x / vpm <? r_mafter rg)) eqn:Em.
    - apply (get_log_spec P chain lay e' Hlay Hne ix Hptrs rg x bf pf Hbf Hpf0); lia.
    - unfold get_log_by_lv_index. rewrite Em. cbn [negb]. f_equal. symmetry.
      destruct (lookup (placed_of lay) x) as [lg|] eqn:Elk; [|reflexivity]. exfalso.
      apply lookup_some in Elk. specialize (Hma _ _ Elk).
      assert (r_mfirst rg <= x / vpm).
      { apply N.div_le_lower_bound; [lia|]. rewrite N.mul_comm. lia. }
      lia. }
  set (ms := N_seq (qf / vpm) (N.to_nat (li / vpm + 1 - qf / vpm))) in *.
  match type of Hq with match ?pm with _ => _ end = _ => destruct pm as [[|pre]|] eqn:Epm end;
    try discriminate.
  injection Hq as <-.
  destruct (process_maps_spec fuel chain ix rg qf li addrs topics _ Hget _ _ Epm) as (Cs & HF & ->).
  set (cands := filter (inr qf li) (concat Cs)).
  (* the candidates are strictly increasing and inside the searched index range *)
  assert (HFok : Forall2 (fun m c => ssorted c /\ in_map P m c) ms Cs).
  { eapply Forall2_impl'; [|exact HF]. intros m c Hmc. eapply eval_map_ok. exact Hmc. }
  destruct (cands_sorted _ _ _ HFok) as [HsC _].
  assert (Hsc : ssorted cands) by (apply ssorted_filter; exact HsC).
  assert (Hcr : forall y, In y cands -> qf <= y /\ y <= li).
  { intros y Hy. apply filter_In in Hy. destruct Hy as [_ Hy]. unfold inr in Hy. lia. }
  (* fetching the logs at the candidates = selecting the placed logs whose index is a candidate *)
  rewrite (join_sorted _ cands (placed_of lay) (le_n _) Hsc
             (spaced_sorted _ _ _ (bspaced_placed _ _ _ Hbs))).
  rewrite Epl, !filter_app.
  rewrite (filter_nil_all _ (placed_of A)).
  2:{ intros [p l0] Hin. apply in_list_false. intros y Hy. specialize (KA _ _ Hin).
      destruct (Hcr _ Hy). cbn [fst]. lia. }
  rewrite (filter_nil_all _ (placed_of C)).
  2:{ intros [p l0] Hin. apply in_list_false. intros y Hy. specialize (KC _ _ Hin).
      destruct (Hcr _ Hy). cbn [fst]. lia. }
  rewrite app_nil_l, app_nil_r.
  (* the final filter removes exactly the false positives: every matching log is a candidate *)
  rewrite filter_map_snd_implied.
  2:{ intros [p lg] Hin Hchk. cbn [fst snd] in *. apply in_list_true.
      destruct (KB _ _ Hin) as [Kp1 Kp2].
      assert (HinLay : In (p, lg) (placed_of lay)).
      { rewrite Epl. apply in_or_app. right. apply in_or_app. left. exact Hin. }
      set (m := p / vpm).
      assert (Hm_in : In m ms).
      { apply N_seq_In. pose proof (N.div_le_mono qf p vpm ltac:(lia) Kp1).
        pose proof (N.div_le_mono p li vpm ltac:(lia) Kp2). unfold m. lia. }
      destruct (Forall2_In_l _ _ _ _ HF Hm_in) as (c & Hc & Hev).
      assert (Hm1 : r_mfirst rg <= m).
      { unfold m. apply N.div_le_lower_bound; [lia|]. rewrite N.mul_comm. lia. }
      destruct (Hrows m Hm1 (Hma _ _ HinLay)) as (rw & Hren & Hrw).
      rewrite Hrw in Hev.
      pose proof (sequence_complete_rendered P addr_value topic_value row_hash col_index col_high brl_small
                    fuel0 fuel _ rw m p lg addrs topics (Some c) Hren) as Hcov.
      apply filter_In. split.
      - apply in_concat. exists c. split; [exact Hc|]. apply Hcov.
        + intros v Hvin. unfold LogIndex.all_values. apply in_concat.
          exists (values_of (p, lg)). split; [apply List.in_map; exact HinLay | exact Hvin].
        + reflexivity.
        + symmetry. apply Hfits. exact HinLay.
        + exact Hchk.
        + exact Hev.
      - unfold inr. lia. }
  (* ... which is the direct scan of the blocks first..last *)
  unfold scan, blocks_of.
  replace first with (N.of_nat f) by (unfold f; lia).
  replace (N.to_nat (last + 1 - N.of_nat f)) with k by (unfold k, l, f; lia).
  rewrite scan_blocks_seg by lia. f_equal. f_equal. symmetry.
  apply (lay_rel_concat P). unfold lay_rel in *. unfold B.
  apply Forall2_firstn, Forall2_skipn. exact Hrel.
Qed.

(* ---- the search session: indexed and unindexed pieces compose to the scan ---- *)
Section Session.
Variables (fuel0 fuel : nat) (chain : list (list log)) (lay : blay) (e' : N) (ix : index) (rg : irange).
Variables (head : N) (addrs : list N) (topics : list (list N)).
Hypothesis Hlay : layout_blocks P 0 chain = (lay, e').
Hypothesis Hbuild : index_ok fuel0 lay e' ix rg.
Hypothesis Hfit : forall b l, In b chain -> In l b -> log_len l <= vpm.
Hypothesis Hrg : rg_ok lay ix rg.

Notation search_in_range := (search_in_range P addr_value topic_value row_hash col_index fuel chain ix rg head addrs topics).
Notation do_search_iteration := (do_search_iteration P addr_value topic_value row_hash col_index fuel chain ix rg head addrs topics).
Notation session_loop := (session_loop P addr_value topic_value row_hash col_index fuel chain ix rg head addrs topics).
Notation IB := (indexed_blocks rg).

Lemma rng_inter_sub (r q : rng) : fst q <= fst r -> snd r <= snd q -> fst r <= snd r -> rng_inter r q = r.
Proof.
  destruct r as [x y], q as [a z]. cbn [fst snd]. intros H1 H2 H3. unfold rng_inter. cbn [fst snd].
  assert (E : (N.min y z <? N.max x a) = false) by lia. rewrite E. f_equal; lia.
Qed.

Lemma search_in_range_spec x y indexed force mr res f' :
  x < y -> y <= head + 1 -> (indexed = true -> fst IB <= x /\ y <= snd IB) ->
  search_in_range (x, y) indexed force = Some (mr, res, f') ->
  mr = (x, y) /\ scan chain addrs topics x (y - 1) = Some res.
Proof.
  intros Hxy Hy Hin H. unfold LogIndex.search_in_range in H. cbn [fst snd] in H.
  assert (Hun : forall fl, match unindexed_logs chain head addrs topics (x, y) with
                           | Some ms => Some ((x, y), ms, fl) | None => None end = Some (mr, res, f') ->
                           mr = (x, y) /\ scan chain addrs topics x (y - 1) = Some res).
  { intros fl Hu. unfold unindexed_logs in Hu. cbn [fst snd] in Hu.
    assert (E : (head <? y - 1) = false) by lia. rewrite E in Hu.
    destruct (scan chain addrs topics x (y - 1)) as [ms|]; [|discriminate].
    injection Hu as <- <- _. split; reflexivity. }
  destruct indexed.
  - destruct (Hin eq_refl) as [Ha Hz].
    destruct (indexed_logs P addr_value topic_value row_hash col_index fuel chain ix rg x (y - 1) addrs topics)
      as [[|res0]|] eqn:Eix; [eapply Hun; exact H | | discriminate].
    pose proof (indexed_exact fuel0 fuel chain lay e' ix rg x (y - 1) addrs topics res0
                  Hlay Hbuild Hfit Hrg Ha ltac:(lia) ltac:(lia) Eix) as Hscan.
    assert (Etrim : rng_inter (x, y) (rng_inter IB (0, head + 1)) = (x, y)).
    { apply rng_inter_sub; cbn [fst snd]; [| |lia].
      - unfold rng_inter. cbn [fst snd]. destruct (N.min (snd IB) (head + 1) <? N.max (fst IB) 0); cbn [fst]; lia.
      - unfold rng_inter. cbn [fst snd]. destruct (N.min (snd IB) (head + 1) <? N.max (fst IB) 0) eqn:E; cbn [snd]; lia. }
    unfold trim_matches in H. rewrite Etrim, rng_eqb_refl in H.
    injection H as <- <- _. split; [reflexivity | exact Hscan].
  - eapply Hun. exact H.
Qed.

Variables f l : N.
Hypothesis Hfl : f <= l.
Hypothesis Hlh : l <= head.

Definition sess_inv (s : sess) : Prop :=
  exists x y, s_match s = (x, y) /\ f <= x /\ x < y /\ y <= l + 1 /\
              scan chain addrs topics x (y - 1) = Some (s_matches s).

Lemma rng_union_adj x y w : x < y -> y < w -> rng_union (x, y) (y, w) = Some (x, w).
Proof.
  intros H1 H2. unfold rng_union. cbn [fst snd].
  assert (E : (N.min y w <? N.max x y) = false) by lia. rewrite E. f_equal. f_equal; lia.
Qed.

Lemma scan_join x y w a b : x < y -> y < w ->
  scan chain addrs topics x (y - 1) = Some a -> scan chain addrs topics y (w - 1) = Some b ->
  scan chain addrs topics x (w - 1) = Some (a ++ b).
Proof.
  intros H1 H2 Ha Hb. rewrite (scan_split chain addrs topics x y (w - 1)) by lia.
  rewrite Ha, Hb. reflexivity.
Qed.

Lemma session_step s s' :
  (s = mkSess (0, 0) [] false \/ sess_inv s) ->
  do_search_iteration (f, l + 1) s = Some s' -> sess_inv s'.
Proof.
  intros Hs H. unfold LogIndex.do_search_iteration in H. destruct Hs as [-> | (x & y & Em & Hx & Hxy & Hy & Hsc)].
  - (* first iteration *)
    cbn [s_match s_matches s_force] in H. change (rng_empty (0, 0)) with true in H. cbv iota in H.
    destruct (rng_empty (rng_inter (f, l + 1) IB)) eqn:Ee; cbn [negb] in H.
    + destruct (search_in_range (f, l + 1) false true) as [[[mr ms] fl]|] eqn:Es; [|discriminate].
      injection H as <-. destruct (search_in_range_spec f (l + 1) false true mr ms fl ltac:(lia) ltac:(lia) ltac:(discriminate) Es) as [-> Hsc].
      exists f, (l + 1). cbn [s_match s_matches]. repeat split; try lia. exact Hsc.
    + unfold rng_inter in Ee, H. cbn [fst snd] in Ee, H.
      destruct (N.min (l + 1) (snd IB) <? N.max f (fst IB)) eqn:E1; [discriminate Ee|].
      unfold rng_empty in Ee. cbn [fst snd] in Ee.
      set (x := N.max f (fst IB)) in *. set (y := N.min (l + 1) (snd IB)) in *.
      destruct (search_in_range (x, y) true false) as [[[mr ms] fl]|] eqn:Es; [|discriminate].
      injection H as <-.
      destruct (search_in_range_spec x y true false mr ms fl ltac:(lia) ltac:(lia) ltac:(intros _; lia) Es) as [-> Hsc].
      exists x, y. cbn [s_match s_matches]. repeat split; try lia. exact Hsc.
  - rewrite Em in H. cbn [fst snd] in H.
    assert (E0 : rng_empty (x, y) = false) by (unfold rng_empty; cbn [fst snd]; lia). rewrite E0 in H.
    destruct (f <? x) eqn:Efx.
    + (* the tail section is missing *)
      destruct (search_in_range (f, x) false (s_force s)) as [[[mr tms] fl]|] eqn:Es; [|discriminate].
      destruct (search_in_range_spec f x false (s_force s) mr tms fl ltac:(lia) ltac:(lia) ltac:(discriminate) Es) as [-> Hts].
      rewrite (rng_union_adj f x y) in H by lia. injection H as <-.
      exists f, y. cbn [s_match s_matches]. repeat split; try lia.
      apply (scan_join f x y); try lia; assumption.
    + assert (x = f) by lia. subst x.
      rewrite N.eqb_refl in H. cbn [andb] in H.
      destruct (y <? l + 1) eqn:Eyl; [|discriminate].
      (* the head section is missing *)
      assert (Hhead : forall hr ind fl hmr hms fl',
                fst hr = y -> y < snd hr -> snd hr <= l + 1 ->
                (ind = true -> fst IB <= y /\ snd hr <= snd IB) ->
                search_in_range hr ind fl = Some (hmr, hms, fl') ->
                (if negb (fst hmr =? y) then Some (mkSess hmr hms fl')
                 else match rng_union (f, y) hmr with
                      | Some u => Some (mkSess u (s_matches s ++ hms) fl') | None => None end) = Some s' ->
                sess_inv s').
      { intros [hx w] ind fl hmr hms fl' Eh1 Eh2 Eh3 Hind Es Hres. cbn [fst snd] in *. subst hx.
        destruct (search_in_range_spec y w ind fl hmr hms fl' Eh2 ltac:(lia) Hind Es) as [-> Hhs].
        cbn [fst] in Hres. rewrite N.eqb_refl in Hres. cbn [negb] in Hres.
        rewrite (rng_union_adj f y w) in Hres by lia. injection Hres as <-.
        exists f, w. cbn [s_match s_matches]. repeat split; try lia.
        apply (scan_join f y w); try lia; assumption. }
      destruct (s_force s).
      * destruct (search_in_range (y, l + 1) (negb true) true) as [[[hmr hms] fl']|] eqn:Es; [|discriminate].
        eapply (Hhead (y, l + 1) false true); cbn [fst snd]; try lia; try discriminate; eassumption.
      * destruct (negb (rng_empty (rng_inter (y, l + 1) IB)) && (fst (rng_inter (y, l + 1) IB) =? y)) eqn:Ec.
        -- unfold rng_inter in Ec, H. cbn [fst snd] in Ec, H.
           destruct (N.min (l + 1) (snd IB) <? N.max y (fst IB)) eqn:E1.
           { cbn in Ec. discriminate Ec. }
           unfold rng_empty in Ec. cbn [fst snd] in Ec.
           set (hx := N.max y (fst IB)) in *. set (w := N.min (l + 1) (snd IB)) in *.
           destruct (search_in_range (hx, w) (negb false) false) as [[[hmr hms] fl']|] eqn:Es; [|discriminate].
           eapply (Hhead (hx, w) true false); cbn [fst snd]; try lia; try eassumption.
        -- destruct (search_in_range (y, l + 1) (negb true) true) as [[[hmr hms] fl']|] eqn:Es; [|discriminate].
           eapply (Hhead (y, l + 1) false true); cbn [fst snd]; try lia; try discriminate; eassumption.
Qed.

Lemma session_loop_exact : forall n s ms,
  (s = mkSess (0, 0) [] false \/ sess_inv s) ->
  session_loop n (f, l + 1) s = Some ms -> scan chain addrs topics f l = Some ms.
Proof.
  induction n as [|n IH]; intros s ms Hs H; [discriminate|].
  rewrite session_loop_S in H. destruct (rng_eqb (f, l + 1) (s_match s)) eqn:Eq.
  - injection H as <-. destruct Hs as [-> | (x & y & Em & Hx & Hxy & Hy & Hsc)].
    + unfold rng_eqb in Eq. cbn in Eq. lia.
    + rewrite Em in Eq. unfold rng_eqb in Eq. cbn [fst snd] in Eq.
      assert (x = f) by lia. assert (y = l + 1) by lia. subst.
      replace (l + 1 - 1) with l in Hsc by lia. exact Hsc.
  - destruct (do_search_iteration (f, l + 1) s) as [s'|] eqn:Ed; [|discriminate].
    apply (IH s' ms); [right; eapply session_step; eassumption | exact H].
Qed.

End Session.

(* query_exact: a range query answered by rangeLogs over a rendered chain returns exactly
   the canonical logs of the block range that match the filter, in chain order — whatever
   part of the range is indexed (inside, outside or straddling the indexed blocks) *)
Theorem query_exact fuel0 fuel chain lay e' ix rg head addrs topics first last ms :
  layout_blocks P 0 chain = (lay, e') ->
  index_ok fuel0 lay e' ix rg ->
  (forall b l, In b chain -> In l b -> log_len l <= vpm) ->
  rg_ok lay ix rg ->
  range_logs P addr_value topic_value row_hash col_index fuel chain ix rg head addrs topics first last = QOk ms ->
  scan chain addrs topics (match first with Some f => f | None => head end)
                          (match last with Some l => l | None => head end) = Some ms.
Proof.
  intros Hlay Hbuild Hfit Hrg H. unfold LogIndex.range_logs in H.
  match type of H with (if ?g then _ else _) = _ => destruct g; [discriminate|] end.
  set (f := match first with Some f => f | None => head end) in *.
  set (l := match last with Some l => l | None => head end) in *.
  destruct (l <? f) eqn:E1; [discriminate|]. destruct (head <? l) eqn:E2; [discriminate|].
  match type of H with match ?sl with _ => _ end = _ => destruct sl as [ms'|] eqn:Es; [|discriminate] end.
  injection H as <-.
  eapply (session_loop_exact fuel0 fuel chain lay e' ix rg head addrs topics Hlay Hbuild Hfit Hrg f l
            ltac:(lia) ltac:(lia) 8); [left; reflexivity | exact Es].
Qed.

(* ---- the hypotheses are met by the index built from the chain with its idle range ---- *)

Lemma opt_all_length {A} : forall (l : list (option A)) rs, opt_all l = Some rs -> length rs = length l.
Proof.
  induction l as [|[x|] l IH]; intros rs H; simpl in H; [injection H as <-; reflexivity | | discriminate].
  destruct (opt_all l) as [rs'|]; [|discriminate]. injection H as <-. simpl. f_equal. apply IH. reflexivity.
Qed.

Lemma N_seq_length : forall n s, length (N_seq s n) = n.
Proof. induction n as [|n IH]; intros s; simpl; [reflexivity | f_equal; apply IH]. Qed.

Lemma build_index_ok fuel0 chain lay e' ix rg :
  layout_blocks P 0 chain = (lay, e') ->
  build_index P addr_value topic_value row_hash col_index fuel0 chain = Some ix ->
  r_mafter rg <= (e' - 2) / vpm + 1 ->
  index_ok fuel0 lay e' ix rg /\ N.of_nat (length (ix_maps ix)) = (e' - 2) / vpm + 1.
Proof.
  intros Hlay Hb Hm. unfold build_index in Hb. rewrite Hlay in Hb.
  match type of Hb with match ?o with _ => _ end = _ => destruct o as [maps|] eqn:Emaps end;
    [|discriminate].
  injection Hb as <-. split; [split; [reflexivity | split; [reflexivity|]]|].
  - intros m _ Hm2. assert (Hmn : (N.to_nat m < N.to_nat ((e' - 2) / vpm + 1))%nat) by lia.
    destruct (opt_all_nth _ _ _ _ _ Emaps (N_seq_nth _ 0 _ Hmn)) as (rw & Hrw & Hren).
    replace (0 + N.of_nat (N.to_nat m)) with m in Hren by lia.
    exists rw. split; [exact Hren|]. unfold ix_rows. cbn [ix_maps]. rewrite Hrw. reflexivity.
  - cbn [ix_maps]. rewrite (opt_all_length _ _ Emaps), map_length, N_seq_length. lia.
Qed.

Lemma idle_range_ok fuel0 chain lay e' ix head history cutoff :
  layout_blocks P 0 chain = (lay, e') ->
  build_index P addr_value topic_value row_hash col_index fuel0 chain = Some ix ->
  N.of_nat (length chain) = head + 1 ->
  rg_ok lay ix (idle_range P ix head history cutoff) /\
  index_ok fuel0 lay e' ix (idle_range P ix head history cutoff).
Proof.
  intros Hlay Hb Hhead.
  destruct (build_index_ok fuel0 chain lay e' ix (idle_range P ix head history cutoff) Hlay Hb) as [Hok Hnm].
  { destruct (build_index_ok fuel0 chain lay e' ix (mkRange 0 0 true 0 0) Hlay Hb (N.le_0_l _)) as [_ Hn].
    unfold idle_range. cbn [r_mafter]. lia. }
  split; [|exact Hok]. destruct Hok as (Hptrs & _ & _).
  assert (Hne : chain <> []) by (intros ->; simpl in Hhead; lia).
  pose proof (lay_length P chain lay e' Hlay) as Hlen.
  destruct (layout_blocks_spec P _ _ _ _ Hlay) as (Hbs & _ & _).
  pose proof (vpm_pos P) as Hv.
  unfold idle_range, rg_ok. cbn [r_bfirst r_bafter r_head_indexed r_mfirst r_mafter].
  rewrite Hptrs, map_length, Hlen. split; [lia|]. split; [intros _; lia|]. split.
  - intros p l Hin. rewrite Hnm. destruct (bspaced_placed_strict _ _ _ Hbs _ _ Hin) as [_ Hp].
    pose proof (log_len_pos l). pose proof (N.div_le_mono p (e' - 2) vpm ltac:(lia) ltac:(lia)). lia.
  - set (mf := first_epoch_map P _). intros Hlt. destruct (0 <? mf) eqn:Emf.
    + destruct (last_block_of_map_own P chain lay e' Hlay Hne ix Hptrs (mf - 1)) as (k & Ek & q & Hq & Hle & Hnext).
      rewrite Ek in Hlt |- *. exists (S k).
      destruct (nth_error (ix_ptrs ix) (S k)) as [q'|] eqn:Eq'.
      2:{ apply nth_error_None in Eq'. rewrite Hptrs, map_length, Hlen in Eq'. lia. }
      exists q'. split; [lia|]. split; [rewrite <- Hptrs; exact Eq'|].
      specialize (Hnext _ eq_refl). replace (mf - 1 + 1) with mf in Hnext by lia. lia.
    + destruct (ptrs_head P chain lay e' Hlay Hne ix Hptrs) as [rest Er].
      exists 0%nat, 0. split; [reflexivity|]. split; [rewrite <- Hptrs, Er; reflexivity|].
      assert (mf = 0) by lia. lia.
Qed.

(* query_exact for the index built from the chain, at its idle range *)
Corollary query_exact_idle fuel0 fuel chain ix head history cutoff addrs topics first last ms :
  build_index P addr_value topic_value row_hash col_index fuel0 chain = Some ix ->
  (forall b l, In b chain -> In l b -> log_len l <= vpm) ->
  N.of_nat (length chain) = head + 1 ->
  range_logs P addr_value topic_value row_hash col_index fuel chain ix
             (idle_range P ix head history cutoff) head addrs topics first last = QOk ms ->
  scan chain addrs topics (match first with Some f => f | None => head end)
                          (match last with Some l => l | None => head end) = Some ms.
Proof.
  intros Hb Hfit Hhead H. destruct (layout_blocks P 0 chain) as [lay e'] eqn:Hlay.
  destruct (idle_range_ok fuel0 chain lay e' ix head history cutoff Hlay Hb Hhead) as [Hrg Hix].
  exact (query_exact fuel0 fuel chain lay e' ix _ head addrs topics first last ms Hlay Hix Hfit Hrg H).
Qed.

End Exact.

(* ---- a concrete instance for the non-vacuity example of Properties/C40.v ---- *)
Lemma demo_col_high : forall lv v, N.shiftr (demo_col lv v) (p_hbits demoP) = lv mod vpm demoP.
Proof.
  intros lv v. unfold demo_col. change (p_hbits demoP) with 2. change (vpm demoP) with 8.
  rewrite N.shiftr_div_pow2, N.shiftl_mul_pow2. change (2 ^ 2) with 4.
  rewrite N.div_add_l by discriminate. rewrite (N.div_small ((lv + v) mod 4) 4); [lia|].
  apply N.mod_lt. discriminate.
Qed.

Definition demo_log b t i a ts := mkLog b t i a ts.
(* 7 blocks, 30 log value indices, 4 maps of 8 values, 2 maps per epoch *)
Definition demo_chain : list (list log) :=
  [ []; [demo_log 1 0 0 5 [6; 6]; demo_log 1 1 1 5 [6]]; [demo_log 2 0 0 7 [6; 6; 6]];
    [demo_log 3 0 0 5 [6; 7]; demo_log 3 0 1 5 [6]]; [];
    [demo_log 5 0 0 5 [6; 6]; demo_log 5 1 1 7 [6]]; [demo_log 6 0 0 5 [6]] ].

Fixpoint leqb (a b : list N) : bool :=
  match a, b with
  | [], [] => true
  | x :: a', y :: b' => (x =? y) && leqb a' b'
  | _, _ => false
  end.

(* the index builds, with history 3 the idle range starts at block 4 / map 2, every log
   fits a map, and the query "address 5, first topic 6" over blocks 0..latest (straddling
   the indexed range) returns the 6 logs of the direct scan *)
Definition c40_demo_query : bool :=
  forallb (forallb (fun l => log_len l <=? vpm demoP)) demo_chain &&
  match build_index demoP idv idv demo_row demo_col 16 demo_chain with
  | None => false
  | Some ix =>
      let rg := idle_range demoP ix 6 3 0 in
      (r_bfirst rg =? 4) && (r_mfirst rg =? 2) &&
      match range_logs demoP idv idv demo_row demo_col 16 demo_chain ix rg 6 [5] [[6]] (Some 0) None,
            scan demo_chain [5] [[6]] 0 6 with
      | QOk ms, Some s => (length ms =? 6)%nat &&
                          leqb (map (fun l => 16 * lg_blk l + lg_idx l) ms)
                               (map (fun l => 16 * lg_blk l + lg_idx l) s)
      | _, _ => false
      end
  end.
