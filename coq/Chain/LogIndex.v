(* Chain/LogIndex.v — executable model of the log index ("filter maps") and of
   log queries served through it.

   Transcribed from /repo/core/filtermaps (math.go, map_renderer.go, matcher.go,
   matcher_backend.go, filtermaps.go) and /repo/eth/filters/filter.go.
   No proofs in this file (see Chain/LogIndexProofs.v).

   Conventions
   * log values, addresses and topics are [N]; block / map / log-value indices are [N];
     mapping layers, fuel and list lengths are [nat].
   * outer [option] = the Go code returns an error / panics / does not terminate
     within the given fuel (never hidden);  inner [option (list N)] is Go's
     [potentialMatches]: [None] = nil = wild card, [Some l] = explicit list.
   * the hash functions are SECTION VARIABLES: [row_hash mmi layer v] stands for
     sha256(v ++ le32(mmi) ++ le32(layer)) mod mapHeight (math.go rowIndex, where mmi
     is the masked map index) and [col_index lv v] for math.go columnIndex.
     [addr_value]/[topic_value] stand for sha256 of the address / topic.
   * what is NOT modelled: the database encoding of rows (base-row groups, ext rows)
     beyond the base-layer truncation of [fetch_row]; LRU caches (incl. the
     renderer's rowMappingCache, which only skips layers already known to be full);
     render snapshots; worker goroutines of matcherEnv.process (epochs are a
     partition of the ordered map list; results are appended in epoch order);
     matchSequence's evaluation order and dropIndices optimisation (a dropped child is
     read back as nil exactly where [match_results] ignores it, see
     LogIndexProofs.match_results_drop_next / _drop_base); the block bloom pre-filter
     of unindexedLogs (sound pre-filter); indexer progress (the idle state is
     characterised by [idle_range], tied by correspondence only). *)
From Coq Require Import List NArith ZArith Bool.
Import ListNotations.
Local Open Scope N_scope.

(* math.go Params (the fields the algorithms read) *)
Record params := mkParams {
  p_lvpm : N;     (* logValuesPerMap *)
  p_hbits : N;    (* logMapWidth - logValuesPerMap ("hashBits" of columnIndex) *)
  p_lmpe : N;     (* logMapsPerEpoch *)
  p_brl : N;      (* baseRowLength (derived field) *)
  p_ldiff : N     (* logLayerDiff *)
}.

(* types.Log as far as log search is concerned; (blk, tx, idx) identify the log *)
Record log := mkLog {
  lg_blk : N; lg_tx : N; lg_idx : N;
  lg_addr : N; lg_topics : list N
}.

Definition rows := N -> list N.       (* filterMap: row index -> FilterRow *)
Definition upd (rw : rows) (k : N) (v : list N) : rows :=
  fun k' => if k' =? k then v else rw k'.
Definition empty_rows : rows := fun _ => [].

Definition two32 : N := 4294967296.

Fixpoint N_seq (start : N) (len : nat) : list N :=
  match len with O => [] | S k => start :: N_seq (start + 1) k end.

Fixpoint opt_all {A} (l : list (option A)) : option (list A) :=
  match l with
  | [] => Some []
  | None :: _ => None
  | Some x :: r => match opt_all r with Some r' => Some (x :: r') | None => None end
  end.

Section LogIndex.
Variable P : params.
Variable addr_value : N -> N.            (* math.go addressValue *)
Variable topic_value : N -> N.           (* math.go topicValue *)
Variable row_hash : N -> nat -> N -> N.  (* math.go rowIndex, as a function of the MASKED map index *)
Variable col_index : N -> N -> N.        (* math.go columnIndex lvIndex logValue *)

Definition vpm : N := 2 ^ p_lvpm P.      (* valuesPerMap *)

(* math.go maxRowLength / maskedMapIndex: min(layer*logLayerDiff, logMapsPerEpoch) *)
Definition layer_shift (layer : nat) : N := N.min (N.of_nat layer * p_ldiff P) (p_lmpe P).

(* math.go maxRowLength: baseRowLength << logLayerDiff (uint32) *)
Definition max_row_length (layer : nat) : N :=
  (N.shiftl (p_brl P) (layer_shift layer)) mod two32.

(* math.go maskedMapIndex: mapIndex & (MaxUint32 << (logMapsPerEpoch - logLayerDiff)) *)
Definition masked_map_index (m : N) (layer : nat) : N :=
  N.land m ((N.shiftl 4294967295 (p_lmpe P - layer_shift layer)) mod two32).

(* math.go rowIndex *)
Definition row_index (m : N) (layer : nat) (v : N) : N :=
  row_hash (masked_map_index m layer) layer v.

(* ------------------------------------------------------------------ *)
(* map_renderer.go logIterator: the linear log value layout            *)

Definition log_len (l : log) : N := N.of_nat (length (lg_topics l)) + 1.

(* logIterator.enforceValidState / next and filtermaps.go getLogByLvIndex: a log
   that would be split by a map boundary starts at the boundary instead *)
Definition place (cur : N) (l : log) : N :=
  let rem := vpm - cur mod vpm in
  if rem <? log_len l then cur + rem else cur.

(* one block: positions of its logs, and the position after the last value *)
Fixpoint layout_logs (cur : N) (ls : list log) : list (N * log) * N :=
  match ls with
  | [] => ([], cur)
  | l :: r => let p := place cur l in
              let '(ps, e) := layout_logs (p + log_len l) r in ((p, l) :: ps, e)
  end.

(* all blocks from genesis: (block pointer, placed logs) per block, and the pointer
   of the block after the head (= headDelimiter + 1): one delimiter entry follows
   every block *)
Fixpoint layout_blocks (cur : N) (bs : list (list log)) : list (N * list (N * log)) * N :=
  match bs with
  | [] => ([], cur)
  | b :: r => let '(ps, e) := layout_logs cur b in
              let '(rest, e') := layout_blocks (e + 1) r in ((cur, ps) :: rest, e')
  end.

(* logIterator.getValueHash: address value at the log's first index, topic i at +1+i *)
Fixpoint topic_values (pos : N) (ts : list N) : list (N * N) :=
  match ts with [] => [] | t :: r => (pos, topic_value t) :: topic_values (pos + 1) r end.
Definition values_of (pl : N * log) : list (N * N) :=
  (fst pl, addr_value (lg_addr (snd pl))) :: topic_values (fst pl + 1) (lg_topics (snd pl)).

Definition placed_of (lay : list (N * list (N * log))) : list (N * log) := concat (map snd lay).
Definition all_values (lay : list (N * list (N * log))) : list (N * N) :=
  concat (map values_of (placed_of lay)).
Definition map_values (vals : list (N * N)) (m : N) : list (N * N) :=
  filter (fun lvv => fst lvv / vpm =? m) vals.

(* ------------------------------------------------------------------ *)
(* map_renderer.go renderCurrentMap: marking one value on the map      *)

(* for uint32(len(filterMap[rowIndex])) >= maxRowLength(layer) { layer++; rowIndex = ... } *)
Fixpoint find_layer (fuel : nat) (rw : rows) (m v : N) (layer : nat) : option nat :=
  match fuel with
  | O => None
  | S f => if N.of_nat (length (rw (row_index m layer v))) <? max_row_length layer
           then Some layer else find_layer f rw m v (S layer)
  end.

Definition insert_value (fuel : nat) (rw : rows) (m lv v : N) : option rows :=
  match find_layer fuel rw m v 0 with
  | None => None
  | Some L => let r := row_index m L v in Some (upd rw r (rw r ++ [col_index lv v]))
  end.

Fixpoint render_values (fuel : nat) (rw : rows) (m : N) (vals : list (N * N)) : option rows :=
  match vals with
  | [] => Some rw
  | (lv, v) :: r => match insert_value fuel rw m lv v with
                    | None => None
                    | Some rw' => render_values fuel rw' m r
                    end
  end.

Definition render_map (fuel : nat) (vals : list (N * N)) (m : N) : option rows :=
  render_values fuel empty_rows m (map_values vals m).

(* ------------------------------------------------------------------ *)
(* math.go potentialMatches                                            *)

Fixpoint ins_sorted (x : N) (l : list N) : list N :=
  match l with
  | [] => [x]
  | y :: r => if x <? y then x :: l else if x =? y then l else y :: ins_sorted x r
  end.
(* slices.Sort + duplicate removal *)
Definition sort_dedup (l : list N) : list N := fold_right ins_sorted [] l.

(* the inner loop over one (truncated) row *)
Fixpoint row_hits (mapFirst v : N) (row : list N) : list N :=
  match row with
  | [] => []
  | c :: r => let pm := mapFirst + N.shiftr c (p_hbits P) in
              if c =? col_index pm v then pm :: row_hits mapFirst v r else row_hits mapFirst v r
  end.

(* [None] = panic("potentialMatches: insufficient list of row alternatives") *)
Fixpoint pm_scan (rws : list (list N)) (layer : nat) (mapFirst v : N) : option (list N) :=
  match rws with
  | [] => Some []
  | row :: rest =>
      let maxLen := max_row_length layer in
      let rowLen := N.min (N.of_nat (length row)) maxLen in
      let hits := row_hits mapFirst v (firstn (N.to_nat rowLen) row) in
      if N.of_nat (length row) <? maxLen then Some hits
      else match rest with
           | [] => None
           | _ => match pm_scan rest (S layer) mapFirst v with
                  | Some h => Some (hits ++ h) | None => None end
           end
  end.

Definition potential_matches (rws : list (list N)) (m v : N) : option (list N) :=
  match pm_scan rws 0 (m * vpm) v with
  | Some h => Some (sort_dedup h) | None => None end.

(* ------------------------------------------------------------------ *)
(* matcher.go singleMatcherInstance.getMatchesForLayer, for one map     *)

(* filtermaps.go getFilterMapRows with baseLayerOnly = (layer == 0) *)
Definition fetch_row (rw : rows) (r : N) (layer : nat) : list N :=
  match layer with O => firstn (N.to_nat (p_brl P)) (rw r) | _ => rw r end.

(* rows are fetched layer by layer until one is shorter than maxRowLength(layer).
   (Go fetches the row of a whole group of maps with equal masked map index using the
   row index of the group's first map; [row_index] depends on the map only through
   [masked_map_index], so this is the same row.) *)
Fixpoint collect_rows (fuel : nat) (rw : rows) (m v : N) (layer : nat) : option (list (list N)) :=
  match fuel with
  | O => None
  | S f => let row := fetch_row rw (row_index m layer v) layer in
           if N.of_nat (length row) <? max_row_length layer then Some [row]
           else match collect_rows f rw m v (S layer) with
                | Some rs => Some (row :: rs) | None => None end
  end.

Definition single_match (fuel : nat) (rw : rows) (m v : N) : option (list N) :=
  match collect_rows fuel rw m v 0 with
  | Some rws => potential_matches rws m v
  | None => None
  end.

(* ------------------------------------------------------------------ *)
(* matcher.go mergeResults (explicit lists only; nil handled by match_any) *)

Fixpoint best_of (rs : list (list N)) (i : nat) (best : option (nat * N)) : option (nat * N) :=
  match rs with
  | [] => best
  | r :: rest =>
      let best' := match r with
                   | [] => best
                   | x :: _ => match best with
                               | None => Some (i, x)
                               | Some (_, bx) => if x <? bx then Some (i, x) else best
                               end
                   end in
      best_of rest (S i) best'
  end.

Fixpoint drop_head_at (rs : list (list N)) (i : nat) : list (list N) :=
  match rs, i with
  | [], _ => []
  | r :: rest, O => tl r :: rest
  | r :: rest, S k => r :: drop_head_at rest k
  end.

(* merged is kept reversed (its last element first) *)
Fixpoint merge_loop (fuel : nat) (rs : list (list N)) (rmerged : list N) : option (list N) :=
  match fuel with
  | O => None
  | S f => match best_of rs 0%nat None with
           | None => Some (rev rmerged)
           | Some (i, x) =>
               let rm' := match rmerged with
                          | [] => [x]
                          | last :: _ => if last <? x then x :: rmerged else rmerged
                          end in
               merge_loop f (drop_head_at rs i) rm'
           end
  end.

Definition merge_results (rs : list (list N)) : option (list N) :=
  merge_loop (S (length (concat rs))) rs [].

(* matcher.go matchAny: zero alternatives = wild card; one = the child itself *)
Definition match_any (fuel : nat) (rw : rows) (m : N) (alts : list N) : option (option (list N)) :=
  match alts with
  | [] => Some None
  | [v] => match single_match fuel rw m v with Some l => Some (Some l) | None => None end
  | _ => match opt_all (map (single_match fuel rw m) alts) with
         | None => None
         | Some rs => match merge_results rs with Some l => Some (Some l) | None => None end
         end
  end.

(* ------------------------------------------------------------------ *)
(* matcher.go Params.matchResults                                      *)

Fixpoint mr_loop (off : N) (b n : list N) {struct b} : list N :=
  match b with
  | [] => []
  | b0 :: b' =>
      (fix inner (n : list N) : list N :=
         match n with
         | [] => []
         | n0 :: n' => if b0 + off <? n0 then mr_loop off b' n
                       else if n0 <? b0 + off then inner n'
                       else b0 :: mr_loop off b' n'
         end) n
  end.

Fixpoint shift_back (minv off : N) (n : list N) : list N :=
  match n with
  | [] => []
  | v :: r => if minv <=? v then (v - off) :: shift_back minv off r else shift_back minv off r
  end.

Definition is_empty_list (o : option (list N)) : bool :=
  match o with Some [] => true | _ => false end.

Definition match_results (m off : N) (baseRes nextRes : option (list N)) : option (list N) :=
  match nextRes with
  | None => baseRes
  | Some nl =>
      if is_empty_list baseRes then baseRes
      else match baseRes with
           | None => Some (shift_back (m * vpm + off) off nl)
           | Some bl => match nl with
                        | [] => Some (shift_back (m * vpm + off) off nl)
                        | _ => Some (mr_loop off bl nl)
                        end
           end
  end.

(* matcher.go newMatchSequence over the REVERSED matcher list (last matcher first):
   base = sequence of all but the last, next = the last, offset = len-1.
   [None] on the empty list = panic("zero length sequence matchers are not allowed") *)
Fixpoint match_seq_rev (fuel : nat) (rw : rows) (m : N) (rpats : list (list N)) : option (option (list N)) :=
  match rpats with
  | [] => None
  | [p] => match_any fuel rw m p
  | p :: rest =>
      match match_seq_rev fuel rw m rest, match_any fuel rw m p with
      | Some b, Some n => Some (match_results m (N.of_nat (length rest)) b n)
      | _, _ => None
      end
  end.

(* matcher.go GetPotentialMatches: matchers[0] = addresses, matchers[i+1] = topics[i] *)
Definition pattern (addrs : list N) (topics : list (list N)) : list (list N) :=
  map addr_value addrs :: map (map topic_value) topics.

Definition eval_map (fuel : nat) (rw : rows) (m : N) (addrs : list N) (topics : list (list N))
  : option (option (list N)) :=
  match_seq_rev fuel rw m (rev (pattern addrs topics)).

(* ------------------------------------------------------------------ *)
(* the index as the matcher backend sees it                            *)

Record index := mkIndex {
  ix_maps : list rows;   (* rendered maps 0 .. ; a missing map reads as empty rows, like the DB *)
  ix_ptrs : list N;      (* block number -> first log value index of the block *)
  ix_end : N             (* pointer after the head block = headDelimiter + 1 *)
}.

(* filtermaps.go filterMapsRange, as far as the matcher backend reads it *)
Record irange := mkRange {
  r_bfirst : N; r_bafter : N;     (* blocks *)
  r_head_indexed : bool;
  r_mfirst : N; r_mafter : N      (* maps *)
}.

Definition ix_rows (ix : index) (m : N) : rows :=
  match nth_error (ix_maps ix) (N.to_nat m) with Some rw => rw | None => empty_rows end.

(* rawdb.ReadBlockLvPointer: error when missing *)
Definition blk_ptr (ix : index) (b : N) : option N := nth_error (ix_ptrs ix) (N.to_nat b).

(* matcher_backend.go GetBlockLvPointer *)
Definition get_block_lv_pointer (ix : index) (rg : irange) (b : N) : option N :=
  if r_bafter rg <=? b then
    if r_head_indexed rg then Some (ix_end ix)
    else if r_bfirst rg <? r_bafter rg then blk_ptr ix (r_bafter rg - 1)
    else blk_ptr ix b
  else blk_ptr ix b.

(* map_renderer.go renderedMap.lastBlock as written by writeFinishedMaps: the block
   the iterator is in when the map is finished, i.e. the last block whose pointer is
   <= the first index of the next map *)
Fixpoint owner_from (ptrs : list N) (b pos acc : N) : N :=
  match ptrs with
  | [] => acc
  | p :: r => if p <=? pos then owner_from r (b + 1) pos b else acc
  end.
Definition last_block_of_map (ix : index) (m : N) : N :=
  owner_from (ix_ptrs ix) 0 ((m + 1) * vpm) 0.

(* filtermaps.go getLogByLvIndex: binary search on the block pointers *)
Fixpoint find_block (fuel : nat) (ix : index) (lo hi lv : N) : option N :=
  match fuel with
  | O => None
  | S f => if lo <? hi then
             let mid := (lo + hi + 1) / 2 in
             match blk_ptr ix mid with
             | None => None
             | Some p => if lv <? p then find_block f ix lo (mid - 1) lv
                         else find_block f ix mid hi lv
             end
           else Some lo
  end.

(* ... then iterate through the receipts of the block *)
Fixpoint walk_logs (ls : list log) (ptr lv : N) : option log :=
  match ls with
  | [] => None
  | l :: r => let p := place ptr l in
              if lv <? p then None
              else if p =? lv then Some l
              else walk_logs r (p + log_len l) lv
  end.

Definition get_log_by_lv_index (chain : list (list log)) (ix : index) (rg : irange) (lv : N)
  : option (option log) :=
  let m := lv / vpm in
  if negb ((r_mfirst rg <=? m) && (m <? r_mafter rg)) then Some None else
  let hi := last_block_of_map ix m in
  let lo := if 0 <? m then last_block_of_map ix (m - 1) else 0 in
  let lo := if lo <? r_bfirst rg then r_bfirst rg else lo in
  match find_block (S (length (ix_ptrs ix))) ix lo hi lv with
  | None => None
  | Some b => match nth_error chain (N.to_nat b), blk_ptr ix b with
              | Some logs, Some p => Some (walk_logs logs p lv)
              | _, _ => None
              end
  end.

(* ------------------------------------------------------------------ *)
(* building the index from the canonical chain (head rendering from genesis) *)

Definition build_index (fuel : nat) (chain : list (list log)) : option index :=
  let '(lay, e) := layout_blocks 0 chain in
  let vals := all_values lay in
  let nmaps := N.to_nat ((e - 2) / vpm + 1) in
  match opt_all (map (render_map fuel vals) (N_seq 0 nmaps)) with
  | None => None
  | Some maps => Some (mkIndex maps (map fst lay) e)
  end.

(* ------------------------------------------------------------------ *)
(* eth/filters/filter.go                                               *)

Definition in_list (x : N) (l : list N) : bool := existsb (N.eqb x) l.

Fixpoint check_topics (ts : list (list N)) (lt : list N) : bool :=
  match ts, lt with
  | [], _ => true
  | _ :: _, [] => false
  | sub :: r, t :: lr =>
      (match sub with [] => true | _ => in_list t sub end) && check_topics r lr
  end.

(* filterLogs' check (fromBlock/toBlock are nil at both call sites) *)
Definition check (addrs : list N) (topics : list (list N)) (l : log) : bool :=
  (match addrs with [] => true | _ => in_list (lg_addr l) addrs end)
  && check_topics topics (lg_topics l).

(* unindexedLogs / blockLogs / checkMatches: direct scan of blocks first..last *)
Definition block_logs (chain : list (list log)) (b : N) : option (list log) :=
  nth_error chain (N.to_nat b).

Fixpoint scan_blocks (chain : list (list log)) (addrs : list N) (topics : list (list N))
         (bs : list N) : option (list log) :=
  match bs with
  | [] => Some []
  | b :: r => match block_logs chain b, scan_blocks chain addrs topics r with
              | Some ls, Some rest => Some (filter (check addrs topics) ls ++ rest)
              | _, _ => None
              end
  end.

Definition blocks_of (first last : N) : list N :=
  N_seq first (N.to_nat (last + 1 - first)).

Definition scan (chain : list (list log)) (addrs : list N) (topics : list (list N))
           (first last : N) : option (list log) :=
  scan_blocks chain addrs topics (blocks_of first last).

(* matcher.go getLogsFromMatches *)
Fixpoint logs_from_matches (chain : list (list log)) (ix : index) (rg : irange)
         (firstIndex lastIndex : N) (ms : list N) : option (list log) :=
  match ms with
  | [] => Some []
  | x :: r =>
      if (x <? firstIndex) || (lastIndex <? x) then logs_from_matches chain ix rg firstIndex lastIndex r
      else match get_log_by_lv_index chain ix rg x, logs_from_matches chain ix rg firstIndex lastIndex r with
           | Some (Some l), Some rest => Some (l :: rest)
           | Some None, Some rest => Some rest
           | _, _ => None
           end
  end.

Inductive ixres := IxMatchAll | IxLogs (l : list log).

(* matcher.go matcherEnv.process / processEpoch over the ordered map list *)
Fixpoint process_maps (fuel : nat) (chain : list (list log)) (ix : index) (rg : irange)
         (firstIndex lastIndex : N) (addrs : list N) (topics : list (list N)) (ms : list N)
  : option ixres :=
  match ms with
  | [] => Some (IxLogs [])
  | m :: r =>
      match eval_map fuel (ix_rows ix m) m addrs topics with
      | None => None
      | Some None => Some IxMatchAll
      | Some (Some matches) =>
          match logs_from_matches chain ix rg firstIndex lastIndex matches with
          | None => None
          | Some ls =>
              match process_maps fuel chain ix rg firstIndex lastIndex addrs topics r with
              | Some (IxLogs rest) => Some (IxLogs (ls ++ rest))
              | other => other
              end
          end
      end
  end.

(* matcher.go GetPotentialMatches *)
Definition get_potential_matches (fuel : nat) (chain : list (list log)) (ix : index) (rg : irange)
           (first last : N) (addrs : list N) (topics : list (list N)) : option ixres :=
  match get_block_lv_pointer ix rg first, get_block_lv_pointer ix rg (last + 1) with
  | Some firstIndex, Some lastIndex0 =>
      let lastIndex := if 0 <? lastIndex0 then lastIndex0 - 1 else lastIndex0 in
      let firstMap := firstIndex / vpm in
      let lastMap := lastIndex / vpm in
      process_maps fuel chain ix rg firstIndex lastIndex addrs topics
                   (N_seq firstMap (N.to_nat (lastMap + 1 - firstMap)))
  | _, _ => None
  end.

(* filter.go indexedLogs: potential matches, then false positive removal *)
Definition indexed_logs (fuel : nat) (chain : list (list log)) (ix : index) (rg : irange)
           (first last : N) (addrs : list N) (topics : list (list N)) : option ixres :=
  match get_potential_matches fuel chain ix rg first last addrs topics with
  | Some (IxLogs ls) => Some (IxLogs (filter (check addrs topics) ls))
  | other => other
  end.

(* ---- common.Range[uint64] as (first, afterLast) ---- *)
Definition rng := (N * N)%type.
Definition rng_empty (r : rng) : bool := fst r =? snd r.
Definition rng_inter (r q : rng) : rng :=
  let f := N.max (fst r) (fst q) in
  let a := N.min (snd r) (snd q) in
  if a <? f then (0, 0) else (f, a).
(* Union panics for gapped ranges *)
Definition rng_union (r q : rng) : option rng :=
  if N.min (snd r) (snd q) <? N.max (fst r) (fst q) then None
  else Some (N.min (fst r) (fst q), N.max (snd r) (snd q)).
Definition rng_eqb (r q : rng) : bool := (fst r =? fst q) && (snd r =? snd q).

(* matcher_backend.go synced(): IndexedBlocks, the partially indexed last block removed *)
Definition indexed_blocks (rg : irange) : rng :=
  if negb (r_head_indexed rg) && (r_bfirst rg <? r_bafter rg)
  then (r_bfirst rg, r_bafter rg - 1) else (r_bfirst rg, r_bafter rg).

Fixpoint drop_before (f : N) (ls : list log) : list log :=
  match ls with [] => [] | l :: r => if lg_blk l <? f then drop_before f r else ls end.

(* on the reversed list: drop logs of blocks after [lastb] *)
Fixpoint drop_after (lastb : N) (rls : list log) : list log :=
  match rls with [] => [] | l :: r => if lastb <? lg_blk l then drop_after lastb r else rls end.

(* filter.go searchSession.trimMatches *)
Definition trim_matches (trimRange matchRange : rng) (matches : list log) : rng * list log :=
  let newRange := rng_inter matchRange trimRange in
  if rng_eqb newRange matchRange then (matchRange, matches)
  else if rng_empty newRange then (newRange, [])
  else (newRange,
        rev (drop_after (snd newRange - 1) (rev (drop_before (fst newRange) matches)))).

(* The search session of filter.go rangeLogs, for a chain and an index that do not
   change during the search (ValidBlocks = IndexedBlocks, the chain views agree up to
   the head; updateChainView's reorg trimming is then the identity and is omitted). *)
Section Session.
Variable fuel : nat.
Variable chain : list (list log).
Variable ix : index.
Variable rg : irange.
Variable head : N.
Variable addrs : list N.
Variable topics : list (list N).

Record sess := mkSess { s_match : rng; s_matches : list log; s_force : bool }.

Definition unindexed_logs (r : rng) : option (list log) :=
  if head <? snd r - 1 then None      (* errInvalidBlockRange from unindexedLogs; excluded by rangeLogs *)
  else scan chain addrs topics (fst r) (snd r - 1).

(* filter.go searchInRange; returns (matchRange, matches, forceUnindexed) *)
Definition search_in_range (r : rng) (indexed force : bool) : option (rng * list log * bool) :=
  let unindexed (force' : bool) :=
      match unindexed_logs r with Some ms => Some (r, ms, force') | None => None end in
  if indexed then
    match indexed_logs fuel chain ix rg (fst r) (snd r - 1) addrs topics with
    | None => None
    | Some (IxLogs res) =>
        let trimRange := rng_inter (indexed_blocks rg) (0, head + 1) in
        let '(mr, ms) := trim_matches trimRange r res in Some (mr, ms, force)
    | Some IxMatchAll => unindexed true
    end
  else unindexed force.

(* filter.go doSearchIteration; [None] also covers panic("invalid search session state") *)
Definition do_search_iteration (searchRange : rng) (s : sess) : option sess :=
  if rng_empty (s_match s) then
    let isr := rng_inter searchRange (indexed_blocks rg) in
    if negb (rng_empty isr) then
      match search_in_range isr true false with
      | Some (mr, ms, f) => Some (mkSess mr ms f) | None => None end
    else
      match search_in_range searchRange false true with
      | Some (mr, ms, f) => Some (mkSess mr ms f) | None => None end
  else if fst searchRange <? fst (s_match s) then
    let tailRange := (fst searchRange, fst (s_match s)) in
    match search_in_range tailRange false (s_force s), rng_union tailRange (s_match s) with
    | Some (_, tms, f), Some u => Some (mkSess u (tms ++ s_matches s) f)
    | _, _ => None
    end
  else if (fst (s_match s) =? fst searchRange) && (snd (s_match s) <? snd searchRange) then
    let headRange := (snd (s_match s), snd searchRange) in
    let ihr := rng_inter headRange (indexed_blocks rg) in
    let '(headRange, force) :=
        if s_force s then (headRange, true)
        else if negb (rng_empty ihr) && (fst ihr =? fst headRange) then (ihr, false)
        else (headRange, true) in
    match search_in_range headRange (negb force) force with
    | None => None
    | Some (hmr, hms, f) =>
        if negb (fst hmr =? snd (s_match s)) then Some (mkSess hmr hms f)
        else match rng_union (s_match s) hmr with
             | Some u => Some (mkSess u (s_matches s ++ hms) f)
             | None => None
             end
    end
  else None.

(* for session.searchRange != session.matchRange { doSearchIteration } *)
Fixpoint session_loop (n : nat) (searchRange : rng) (s : sess) : option (list log) :=
  match n with
  | O => None
  | S k => if rng_eqb searchRange (s_match s) then Some (s_matches s)
           else match do_search_iteration searchRange s with
                | Some s' => session_loop k searchRange s'
                | None => None
                end
  end.

Inductive qres := QOk (l : list log) | QErr (class : N) | QFail.

(* filter.go rangeLogs + newSearchSession/updateChainView; [None] = "latest" (MaxUint64).
   error classes: 1 invalid block range, 2 block range extends into the future *)
Definition range_logs (first last : option N) : qres :=
  let gt := match first, last with
            | Some f, Some l => l <? f | None, Some _ => true | _, None => false end in
  if gt then QErr 1 else
  let f := match first with Some f => f | None => head end in
  let l := match last with Some l => l | None => head end in
  if l <? f then QErr 1 else
  if head <? l then QErr 2 else
  match session_loop 8 (f, l + 1) (mkSess (0, 0) [] false) with
  | Some ms => QOk ms | None => QFail end.

End Session.

(* filter.go Filter.Logs for a range filter: resolveSpecial. rpc: pending -1, latest -2,
   finalized -3, safe -4, earliest -5 (the modelled backend has no finalized/safe block).
   error classes: 3 pending logs unsupported, 4 other resolve error *)
Definition resolve_special (head cutoff : N) (n : Z) : N + option N :=   (* inl = error class *)
  match n with
  | (-2)%Z => inr None
  | (-5)%Z => if head <? cutoff then inl 4 else inr (Some cutoff)
  | Zneg _ => inl 4
  | _ => inr (Some (Z.to_N n))
  end.

Definition filter_logs (fuel : nat) (chain : list (list log)) (ix : index) (rg : irange)
           (head cutoff : N) (addrs : list N) (topics : list (list N)) (b e : Z) : qres :=
  if (b =? -1)%Z || (e =? -1)%Z then QErr 3 else
  match resolve_special head cutoff b with
  | inl c => QErr c
  | inr first =>
      match resolve_special head cutoff e with
      | inl c => QErr c
      | inr last => range_logs fuel chain ix rg head addrs topics first last
      end
  end.

(* filter.go Filter.Logs for a block-hash filter on a known header; class 6 = pruned history *)
Definition filter_block_logs (cutoff : N) (addrs : list N) (topics : list (list N))
           (number : N) (ls : list log) : qres :=
  if number <? cutoff then QErr 6 else QOk (filter (check addrs topics) ls).

(* ------------------------------------------------------------------ *)
(* filter.go rangeLogs while the chain and the index MOVE: the search session as a state
   machine over an environment.  The environment calls of a session (SyncLogIndex and
   CurrentView) are numbered by one tick counter; [env_world t] is the canonical chain and
   the (idle) index at the time of call t, [env_valid t] the ValidBlocks range a
   SyncLogIndex at tick t reports.  An indexed search runs between two calls, on the world
   of the previous call.  (IndexedView of a sync = the world's chain; the hash-linked
   block ids make ChainView.SharedRange the length of the common prefix.) *)
Fixpoint list_eqb (a b : list N) : bool :=
  match a, b with
  | [], [] => true
  | x :: a', y :: b' => (x =? y) && list_eqb a' b'
  | _, _ => false
  end.
Definition log_eqb (a b : log) : bool :=
  (lg_blk a =? lg_blk b) && (lg_tx a =? lg_tx b) && (lg_idx a =? lg_idx b) &&
  (lg_addr a =? lg_addr b) && list_eqb (lg_topics a) (lg_topics b).
Fixpoint block_eqb (a b : list log) : bool :=
  match a, b with
  | [], [] => true
  | x :: a', y :: b' => log_eqb x y && block_eqb a' b'
  | _, _ => false
  end.
(* ChainView.SharedRange = (0, shared_len) *)
Fixpoint shared_len (c1 c2 : list (list log)) : N :=
  match c1, c2 with
  | b1 :: r1, b2 :: r2 => if block_eqb b1 b2 then 1 + shared_len r1 r2 else 0
  | _, _ => 0
  end.

Record dworld := mkDW { dw_chain : list (list log); dw_ix : index; dw_rg : irange }.
Record dsess := mkDSess {
  d_t : nat;                        (* environment calls made so far *)
  d_view : list (list log);         (* s.chainView *)
  d_ib : rng;                       (* s.syncRange.IndexedBlocks *)
  d_search : rng; d_match : rng; d_matches : list log; d_force : bool }.
Inductive dres (A : Type) := DOk (a : A) | DErr (c : N) | DFail.
Arguments DOk {A}. Arguments DErr {A}. Arguments DFail {A}.

Definition head_of (c : list (list log)) : N := N.of_nat (length c) - 1.

Section DynSession.
Variable fuel : nat.
Variable env_world : nat -> dworld.
Variable env_valid : nat -> rng.
Variable addrs : list N.
Variable topics : list (list N).
Variables firstB lastB : option N.     (* None = latest *)

(* filter.go updateChainView (one CurrentView call) *)
Definition d_update_view (s : dsess) : dres dsess :=
  let nv := dw_chain (env_world (d_t s)) in
  let head := head_of nv in
  let f := match firstB with Some f => f | None => head end in
  let l := match lastB with Some l => l | None => head end in
  if l <? f then DErr 1 else
  if head <? l then DErr 2 else
  let sr := (f, l + 1) in
  let '(mr, ms) :=
      if rng_empty (d_match s) then (d_match s, d_matches s)
      else trim_matches (rng_inter (0, shared_len nv (d_view s)) sr) (d_match s) (d_matches s) in
  DOk (mkDSess (S (d_t s)) nv (d_ib s) sr mr ms (d_force s)).

(* filter.go unindexedLogs on the session's chain view *)
Definition d_unindexed (s : dsess) (r : rng) : dres (list log) :=
  if head_of (d_view s) <? snd r - 1 then DErr 1 else
  match scan (d_view s) addrs topics (fst r) (snd r - 1) with
  | Some ms => DOk ms | None => DFail end.

(* filter.go searchInRange: (matchRange, matches, forceUnindexed, ticks, IndexedBlocks) *)
Definition d_search_in_range (s : dsess) (r : rng) (indexed force : bool)
  : dres (rng * list log * bool * nat * rng) :=
  let unindexed (force' : bool) :=
      match d_unindexed s r with
      | DOk ms => DOk (r, ms, force', d_t s, d_ib s) | DErr c => DErr c | DFail => DFail end in
  if indexed then
    let w := env_world (d_t s - 1) in
    match indexed_logs fuel (dw_chain w) (dw_ix w) (dw_rg w) (fst r) (snd r - 1) addrs topics with
    | None => DFail
    | Some IxMatchAll => unindexed true
    | Some (IxLogs res) =>
        (* SyncLogIndex at tick d_t *)
        let w' := env_world (d_t s) in
        let trimRange := rng_inter (env_valid (d_t s)) (0, shared_len (d_view s) (dw_chain w')) in
        let '(mr, ms) := trim_matches trimRange r res in
        DOk (mr, ms, force, S (d_t s), indexed_blocks (dw_rg w'))
    end
  else unindexed force.

(* filter.go doSearchIteration *)
Definition d_iteration (s : dsess) : dres dsess :=
  let upd (mr : rng) (ms : list log) (f : bool) (t : nat) (ib : rng) :=
      mkDSess t (d_view s) ib (d_search s) mr ms f in
  if rng_empty (d_match s) then
    let isr := rng_inter (d_search s) (d_ib s) in
    match (if negb (rng_empty isr) then d_search_in_range s isr true false
           else d_search_in_range s (d_search s) false true) with
    | DOk (mr, ms, f, t, ib) => DOk (upd mr ms f t ib) | DErr c => DErr c | DFail => DFail end
  else if fst (d_search s) <? fst (d_match s) then
    let tailRange := (fst (d_search s), fst (d_match s)) in
    match d_search_in_range s tailRange false (d_force s) with
    | DOk (_, tms, f, t, ib) =>
        match rng_union tailRange (d_match s) with
        | Some u => DOk (upd u (tms ++ d_matches s) f t ib) | None => DFail end
    | DErr c => DErr c | DFail => DFail end
  else if (fst (d_match s) =? fst (d_search s)) && (snd (d_match s) <? snd (d_search s)) then
    let headRange := (snd (d_match s), snd (d_search s)) in
    let ihr := rng_inter headRange (d_ib s) in
    let '(headRange, force) :=
        if d_force s then (headRange, true)
        else if negb (rng_empty ihr) && (fst ihr =? fst headRange) then (ihr, false)
        else (headRange, true) in
    match d_search_in_range s headRange (negb force) force with
    | DOk (hmr, hms, f, t, ib) =>
        if negb (fst hmr =? snd (d_match s)) then DOk (upd hmr hms f t ib)
        else match rng_union (d_match s) hmr with
             | Some u => DOk (upd u (d_matches s ++ hms) f t ib) | None => DFail end
    | DErr c => DErr c | DFail => DFail end
  else DFail.

(* for session.searchRange != session.matchRange { doSearchIteration; updateChainView } *)
Fixpoint d_loop (n : nat) (s : dsess) : dres (list log) :=
  match n with
  | O => DFail
  | S k => if rng_eqb (d_search s) (d_match s) then DOk (d_matches s)
           else match d_iteration s with
                | DOk s1 => match d_update_view s1 with
                            | DOk s2 => d_loop k s2 | DErr c => DErr c | DFail => DFail end
                | DErr c => DErr c | DFail => DFail
                end
  end.

(* filter.go rangeLogs / newSearchSession: SyncLogIndex at tick 0, CurrentView at tick 1 *)
Definition d_range_logs : dres (list log) :=
  let gt := match firstB, lastB with
            | Some f, Some l => l <? f | None, Some _ => true | _, None => false end in
  if gt then DErr 1 else
  let s0 := mkDSess 1 [] (indexed_blocks (dw_rg (env_world 0))) (0, 0) (0, 0) [] false in
  match d_update_view s0 with
  | DOk s => d_loop 8 s | DErr c => DErr c | DFail => DFail end.

End DynSession.

(* ------------------------------------------------------------------ *)
(* indexer.go: the range the indexer settles on when idle (tryUnindexTail /
   tryIndexTail / needTailEpoch), for an index rendered from genesis.
   Characterisation of the fixed point, tied by correspondence only. *)
Definition tail_target (head history : N) : N :=
  if (history =? 0) || (head <? history) then 0 else head + 1 - history.

Definition first_epoch_map (e : N) : N := N.shiftl e (p_lmpe P).
Definition last_epoch_map (e : N) : N := N.shiftl (e + 1) (p_lmpe P) - 1.

Definition need_tail_epoch (ix : index) (nmaps head history cutoff e : N) : bool :=
  if nmaps <=? first_epoch_map (e + 1) then true else
  let lbp := if 0 <? e then last_block_of_map ix (last_epoch_map (e - 1)) else 0 in
  if lbp <? cutoff then false
  else tail_target head history <=? last_block_of_map ix (last_epoch_map e).

Fixpoint first_needed (n : nat) (ix : index) (nmaps head history cutoff e : N) : N :=
  match n with
  | O => e
  | S k => if need_tail_epoch ix nmaps head history cutoff e then e
           else first_needed k ix nmaps head history cutoff (e + 1)
  end.

Definition idle_range (ix : index) (head history cutoff : N) : irange :=
  let nmaps := N.of_nat (length (ix_maps ix)) in
  let e := first_needed (length (ix_maps ix)) ix nmaps head history cutoff 0 in
  let mf := first_epoch_map e in
  let bf := if 0 <? mf then last_block_of_map ix (mf - 1) + 1 else 0 in
  mkRange bf (head + 1) true mf nmaps.

(* ------------------------------------------------------------------ *)
(* indexer.go / map_renderer.go / filtermaps.go at map and epoch granularity: the
   operations that change the index (abstractions; the Run file does not execute them,
   their end states are what the correspondence compares through [idle_range]) *)
Record istate := mkIState { is_chain : list (list log); is_ix : index; is_rg : irange }.

(* rawdb.DeleteFilterMapRows: the rows of maps [from, from+n) read as empty afterwards *)
Fixpoint clear_maps (maps : list rows) (from n : nat) : list rows :=
  match maps, from with
  | [], _ => []
  | rw :: r, O => match n with O => maps | S k => empty_rows :: clear_maps r O k end
  | rw :: r, S f => rw :: clear_maps r f n
  end.

(* filtermaps.go deleteTailEpoch, case "epoch == firstEpoch && epoch+1 < afterLastEpoch":
   maps.SetFirst(firstEpochMap(epoch+1)), blocks.SetFirst(lastBlock+1) (Range.SetFirst
   raises afterLast when it is below the new first), then the epoch's rows are deleted *)
Definition unindex_tail_epoch (st : istate) (e : N) : istate :=
  let ix := is_ix st in
  let rg := is_rg st in
  let bf := last_block_of_map ix (last_epoch_map e) + 1 in
  let ba := if r_bafter rg <? bf then bf else r_bafter rg in
  let mpe := N.to_nat (N.shiftl 1 (p_lmpe P)) in
  mkIState (is_chain st)
           (mkIndex (clear_maps (ix_maps ix) (N.to_nat (first_epoch_map e)) mpe) (ix_ptrs ix) (ix_end ix))
           (mkRange bf ba (r_head_indexed rg) (first_epoch_map (e + 1)) (r_mafter rg)).

(* map_renderer.go renderMapsBefore(MaxUint32) + run + writeFinishedMaps towards a new
   target chain (head extension or reorg), restarting at map m0 = the map after
   lastCanonicalMapBoundaryBefore: maps >= m0 are replaced by the maps rendered from the
   new chain, "future" entries are removed, block pointers rewritten; getUpdatedRange with
   the head finished: blocks.SetLast(head), headIndexed = true *)
Definition render_head (fuel : nat) (st : istate) (newchain : list (list log)) (m0 : nat)
  : option istate :=
  let '(lay, e) := layout_blocks 0 newchain in
  let vals := all_values lay in
  let nmaps := N.to_nat ((e - 2) / vpm + 1) in
  match opt_all (map (render_map fuel vals) (N_seq (N.of_nat m0) (nmaps - m0))) with
  | None => None
  | Some newmaps =>
      let rg := is_rg st in
      Some (mkIState newchain
              (mkIndex (firstn m0 (ix_maps (is_ix st)) ++ newmaps) (map fst lay) e)
              (mkRange (r_bfirst rg) (N.of_nat (length newchain)) true (r_mfirst rg) (N.of_nat nmaps)))
  end.

(* indexer.go tryIndexTail: the epoch before the first rendered one is rendered from the
   canonical chain (renderMapsBefore(maps.First)); getUpdatedRange: maps.First moves to the
   epoch start, blocks.First to the block after lastBlockOfMap(first-1) (0 at genesis) *)
Definition index_tail_epoch (fuel : nat) (st : istate) : option istate :=
  let ix := is_ix st in
  let rg := is_rg st in
  let mpe := N.shiftl 1 (p_lmpe P) in
  let mf := r_mfirst rg - mpe in
  let '(lay, e) := layout_blocks 0 (is_chain st) in
  let vals := all_values lay in
  match opt_all (map (render_map fuel vals) (N_seq mf (N.to_nat mpe))) with
  | None => None
  | Some newmaps =>
      let maps := ix_maps ix in
      let bf := if 0 <? mf then last_block_of_map ix (mf - 1) + 1 else 0 in
      Some (mkIState (is_chain st)
              (mkIndex (firstn (N.to_nat mf) maps ++ newmaps ++ skipn (N.to_nat (r_mfirst rg)) maps)
                       (ix_ptrs ix) (ix_end ix))
              (mkRange bf (r_bafter rg) (r_head_indexed rg) mf (r_mafter rg)))
  end.

End LogIndex.

Arguments DOk {A}.
Arguments DErr {A}.
Arguments DFail {A}.
