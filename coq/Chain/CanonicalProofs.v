(* Chain/CanonicalProofs.v — lemmas about Chain/Canonical.v (C38). *)
From Coq Require Import List NArith Bool Lia.
From GV Require Import Lib.Tactics Chain.Tree Chain.Canonical.
Import ListNotations.
Local Open Scope N_scope.

Section Proofs.
Variable T : tree.

Definition hdr_ok (x : hdr) : Prop := T (fst x) = Some (snd x).

(* p is the parent header of x *)
Definition parent_of (x p : hdr) : Prop :=
  hdr_ok p /\ fst p = b_parent (snd x) /\ hnum p + 1 = hnum x.

(* walking down from x to y (exclusive): the list is newest first *)
Inductive down : hdr -> list hdr -> hdr -> Prop :=
| down_nil : forall x, down x [] x
| down_cons : forall x p l y, hdr_ok x -> parent_of x p -> down p l y -> down x (x :: l) y.

(* the canonical index agrees with the ancestors of [top] up to its height *)
Definition GC (c : N -> option N) (top : hdr) : Prop :=
  forall n, n <= hnum top -> c n = anc T (fst top) n.

Lemma upd_same : forall A (f : N -> A) k v, upd f k v k = v.
Proof. intros. unfold upd. now rewrite N.eqb_refl. Qed.
Lemma upd_other : forall A (f : N -> A) k v x, x <> k -> upd f k v x = f x.
Proof. intros. unfold upd. destruct (N.eqb_spec x k); congruence. Qed.

Lemma parent_hdr_spec : forall st x p,
  parent_hdr T st x = Some p -> parent_of x p.
Proof.
  intros st x p H. unfold parent_hdr, get_header in H.
  destruct (N.eqb_spec (hnum x) 0) as [|Hn]; [discriminate|].
  destruct (T (b_parent (snd x))) as [b|] eqn:ET; [|discriminate].
  destruct (is_known st (b_parent (snd x)) && (b_number b =? hnum x - 1)) eqn:EC; [|discriminate].
  inversion H; subst p. apply andb_prop in EC as [_ EN]. apply N.eqb_eq in EN.
  unfold parent_of, hdr_ok, hnum in *. cbn [fst snd] in *. repeat split; auto. lia.
Qed.

(* ---- anc ---- *)
Lemma anc_self : forall x, hdr_ok x -> anc T (fst x) (hnum x) = Some (fst x).
Proof.
  intros [h b] H. unfold hdr_ok, anc, hnum in *. cbn [fst snd] in *. rewrite H.
  rewrite N.leb_refl. replace (b_number b - b_number b) with 0 by lia. cbn. now rewrite H.
Qed.

Lemma anc_parent : forall x p n, hdr_ok x -> parent_of x p -> n <= hnum p ->
  anc T (fst x) n = anc T (fst p) n.
Proof.
  intros [h b] [ph pb] n Hx (Hp & Hpar & Hnum) Hn.
  unfold hdr_ok, anc, hnum in *. cbn [fst snd] in *. rewrite Hx, Hp.
  assert (E1 : (n <=? b_number b) = true) by (apply N.leb_le; lia).
  assert (E2 : (n <=? b_number pb) = true) by (apply N.leb_le; lia).
  rewrite E1, E2.
  replace (N.to_nat (b_number b - n)) with (S (N.to_nat (b_number pb - n))) by lia.
  cbn [nth_parent]. rewrite Hx. now rewrite <- Hpar.
Qed.

Lemma down_hnum : forall x l y, down x l y -> hnum y <= hnum x.
Proof. induction 1; [lia|]. destruct H0 as (_ & _ & ?). lia. Qed.

Lemma down_anc : forall x l y, down x l y -> forall n, n <= hnum y ->
  anc T (fst x) n = anc T (fst y) n.
Proof.
  induction 1; intros n Hn; auto.
  rewrite (anc_parent x p n); auto. apply down_hnum in H1. lia.
Qed.

Lemma down_app : forall x l y, down x l y -> forall l' z, down y l' z -> down x (l ++ l') z.
Proof. induction 1; intros; cbn; auto. econstructor; eauto. Qed.

Lemma down_ok_end : forall x l y, down x l y -> hdr_ok x -> hdr_ok y.
Proof. induction 1; auto. intros _. apply IHdown. apply H0. Qed.

Lemma down_tl : forall x l y, down x l y ->
  match l with
  | [] => x = y
  | _ :: l' => exists p, parent_of x p /\ down p l' y
  end.
Proof. destruct 1; eauto. Qed.

(* ---- reduce / find_common ---- *)
Lemma reduce_spec : forall fuel st x target acc r acc',
  reduce T fuel st (Some x) target acc = Some (r, acc') -> hdr_ok x ->
  match r with
  | Some y => exists l, acc' = acc ++ l /\ down x l y /\ hnum y = target
  | None => True
  end.
Proof.
  induction fuel as [|f IH]; intros st x target acc r acc' H Hx; [discriminate|].
  cbn [reduce] in H. destruct (N.eqb_spec (hnum x) target) as [E|E].
  - inversion H; subst. exists []. rewrite app_nil_r. repeat split; auto. constructor.
  - destruct (parent_hdr T st x) as [p|] eqn:EP.
    + pose proof (parent_hdr_spec _ _ _ EP) as Hp.
      specialize (IH st p target (acc ++ [x]) r acc' H (proj1 Hp)).
      destruct r as [y|]; auto. destruct IH as (l & -> & Hd & Hn).
      exists (x :: l). rewrite <- app_assoc. repeat split; auto. econstructor; eauto.
    + destruct f; [discriminate|]. cbn in H. inversion H; subst. exact I.
Qed.

Lemma find_common_spec : forall fuel st o n oc nc c oc' nc',
  find_common T fuel st o n oc nc = Ok (c, oc', nc') -> hdr_ok o -> hdr_ok n ->
  exists lo ln, oc' = oc ++ lo /\ nc' = nc ++ ln /\ down o lo c /\
                (exists c', down n ln c' /\ fst c' = fst c).
Proof.
  induction fuel as [|f IH]; intros st o n oc nc c oc' nc' H Ho Hn; [discriminate|].
  cbn [find_common] in H. destruct (N.eqb_spec (fst o) (fst n)) as [E|E].
  - inversion H; subst. exists [], []. rewrite !app_nil_r. repeat split; auto; try constructor.
    exists n. split; [constructor|auto].
  - destruct (parent_hdr T st o) as [o'|] eqn:EO; [|discriminate].
    destruct (parent_hdr T st n) as [n'|] eqn:EN; [|discriminate].
    pose proof (parent_hdr_spec _ _ _ EO) as Hpo. pose proof (parent_hdr_spec _ _ _ EN) as Hpn.
    destruct (IH _ _ _ _ _ _ _ _ H (proj1 Hpo) (proj1 Hpn)) as (lo & ln & -> & -> & Hdo & c' & Hdn & Ec).
    exists (o :: lo), (n :: ln). rewrite <- !app_assoc. repeat split; auto.
    + econstructor; eauto.
    + exists c'. split; auto. econstructor; eauto.
Qed.

(* two headers with the same hash are the same header *)
Lemma hdr_ok_inj : forall x y, hdr_ok x -> hdr_ok y -> fst x = fst y -> x = y.
Proof.
  intros [h b] [h' b'] Hx Hy E. unfold hdr_ok in *. cbn [fst snd] in *. subst h'.
  rewrite Hx in Hy. now inversion Hy.
Qed.

(* ---- del_canon_from ---- *)
Lemma del_canon_below : forall fuel c i c', del_canon_from fuel c i = Some c' ->
  forall n, n < i -> c' n = c n.
Proof.
  induction fuel as [|f IH]; intros c i c' H n Hn; [discriminate|].
  cbn in H. destruct (c i) eqn:E.
  - rewrite (IH _ _ _ H n) by lia. apply upd_other. lia.
  - now inversion H.
Qed.

Lemma del_canon_above : forall fuel c i c', del_canon_from fuel c i = Some c' ->
  (forall n m, i <= n -> n <= m -> c n = None -> c m = None) ->
  forall n, i <= n -> c' n = None.
Proof.
  induction fuel as [|f IH]; intros c i c' H Hc n Hn; [discriminate|].
  cbn in H. destruct (c i) eqn:E.
  - destruct (N.eq_dec n i) as [->|Hne].
    + rewrite (del_canon_below _ _ _ _ H i) by lia. apply upd_same.
    + eapply IH; eauto; [|lia]. intros a m Ha Hle Hnone.
      rewrite upd_other in Hnone by lia. rewrite upd_other by lia. apply (Hc a m); auto; lia.
  - inversion H; subst. apply (Hc i n); auto; lia.
Qed.

Lemma del_canon_term : forall fuel c i,
  (0 < fuel)%nat -> (forall n, i + N.of_nat fuel <= n + 1 -> c n = None) ->
  del_canon_from fuel c i <> None.
Proof.
  induction fuel as [|f IH]; intros c i Hf Hc; [lia|].
  cbn. destruct (c i) eqn:E; [|discriminate].
  destruct f as [|f'].
  - rewrite Hc in E by lia. discriminate.
  - apply IH; [lia|]. intros m Hm. unfold upd. destruct (N.eqb_spec m i); auto. apply Hc. lia.
Qed.

(* ---- write_head_block ---- *)
Lemma del_canon_sub : forall fuel c i c', del_canon_from fuel c i = Some c' ->
  forall n h, c' n = Some h -> c n = Some h.
Proof.
  induction fuel as [|f IH]; intros c i c' H n h Hn; [discriminate|].
  cbn in H. destruct (c i) eqn:E; [|inversion H; subst; auto].
  specialize (IH _ _ _ H n h Hn). unfold upd in IH. destruct (n =? i); [discriminate|auto].
Qed.

Lemma whb_clear_below : forall fuel c x c1, whb_clear fuel c x = Some c1 ->
  forall n, n <= hnum x -> c1 n = c n.
Proof.
  intros fuel c x c1 H n Hn. unfold whb_clear in H. destruct (c (hnum x)) as [old|]; [|now inversion H].
  destruct (old =? fst x); [now inversion H|]. apply (del_canon_below _ _ _ _ H). lia.
Qed.

Lemma whb_clear_sub : forall fuel c x c1, whb_clear fuel c x = Some c1 ->
  forall n h, c1 n = Some h -> c n = Some h.
Proof.
  intros fuel c x c1 H n h Hn. unfold whb_clear in H. destruct (c (hnum x)) as [old|]; [|inversion H; subst; auto].
  destruct (old =? fst x); [inversion H; subst; auto|]. eapply del_canon_sub; eauto.
Qed.

Definition same_frame (st st' : db) : Prop :=
  known st' = known st /\ rcpt st' = rcpt st /\ avail st' = avail st /\ disk st' = disk st.

Lemma same_frame_refl : forall st, same_frame st st.
Proof. intros; repeat split. Qed.
Lemma same_frame_trans : forall a b c, same_frame a b -> same_frame b c -> same_frame a c.
Proof. intros a b c (?&?&?&?) (?&?&?&?). repeat split; etransitivity; eauto. Qed.

Lemma whb_spec : forall fuel st x st', write_head_block fuel st x = Some st' ->
  exists c1, whb_clear fuel (canon st) x = Some c1 /\
    canon st' = upd c1 (hnum x) (Some (fst x)) /\ same_frame st st' /\
    hd_block st' = fst x /\ hd_header st' = fst x /\ hd_snap st' = fst x.
Proof.
  intros fuel st x st' H. unfold write_head_block in H.
  destruct (whb_clear fuel (canon st) x) as [c1|]; [|discriminate]. inversion H; subst.
  exists c1. repeat split.
Qed.

Lemma whb_below : forall fuel st x st', write_head_block fuel st x = Some st' ->
  forall n, n < hnum x -> canon st' n = canon st n.
Proof.
  intros fuel st x st' H n Hn. destruct (whb_spec _ _ _ _ H) as (c1 & Hc & -> & _).
  rewrite upd_other by lia. apply (whb_clear_below _ _ _ _ Hc). lia.
Qed.

Lemma whb_at : forall fuel st x st', write_head_block fuel st x = Some st' ->
  canon st' (hnum x) = Some (fst x).
Proof. intros fuel st x st' H. destruct (whb_spec _ _ _ _ H) as (c1 & _ & -> & _). apply upd_same. Qed.

Lemma whb_sub : forall fuel st x st', write_head_block fuel st x = Some st' ->
  forall n h, canon st' n = Some h -> (n = hnum x /\ h = fst x) \/ canon st n = Some h.
Proof.
  intros fuel st x st' H n h Hn. destruct (whb_spec _ _ _ _ H) as (c1 & Hc & E & _). rewrite E in Hn.
  unfold upd in Hn. destruct (N.eqb_spec n (hnum x)); [inversion Hn; auto|].
  right. eapply whb_clear_sub; eauto.
Qed.

Lemma whb_none : forall fuel st x st', write_head_block fuel st x = Some st' ->
  forall n, canon st n = None -> n <> hnum x -> canon st' n = None.
Proof.
  intros fuel st x st' H n Hn Hne. destruct (canon st' n) as [h|] eqn:E; auto.
  destruct (whb_sub _ _ _ _ H n h E) as [[? _]|?]; congruence.
Qed.

Lemma GC_whb : forall fuel st x st' p, write_head_block fuel st x = Some st' -> hdr_ok x ->
  GC (canon st) p -> (p = x \/ parent_of x p \/ hnum x = 0) -> GC (canon st') x.
Proof.
  intros fuel st x st' p H Hx Hc Hcase n Hn. destruct (N.eq_dec n (hnum x)) as [->|Hne].
  - rewrite (whb_at _ _ _ _ H). symmetry. now apply anc_self.
  - rewrite (whb_below _ _ _ _ H) by lia.
    destruct Hcase as [->|[Hp|H0]]; [apply Hc; auto| |lia].
    rewrite (anc_parent x p n); auto; [apply Hc|]; destruct Hp as (_ & _ & ?); lia.
Qed.

Lemma whb_term : forall fuel st x, (0 < fuel)%nat ->
  (forall n, N.of_nat fuel <= n -> canon st n = None) -> write_head_block fuel st x <> None.
Proof.
  intros fuel st x Hf Hc. unfold write_head_block, whb_clear.
  destruct (canon st (hnum x)) as [old|]; [|discriminate].
  destruct (old =? fst x); [discriminate|].
  destruct (del_canon_from fuel (canon st) (hnum x + 1)) eqn:E; [discriminate|].
  exfalso. revert E. apply del_canon_term; auto. intros n Hn. apply Hc. lia.
Qed.

Lemma fold_whb_cons : forall fuel a l st,
  fold_whb fuel (a :: l) st =
  match write_head_block fuel st a with Some s => fold_whb fuel l s | None => None end.
Proof.
  intros. unfold fold_whb. cbn [fold_left]. destruct (write_head_block fuel st a); auto.
  induction l; cbn; auto.
Qed.

Lemma fold_whb_snoc : forall fuel l a st,
  fold_whb fuel (l ++ [a]) st =
  match fold_whb fuel l st with Some s => write_head_block fuel s a | None => None end.
Proof. intros. unfold fold_whb. now rewrite fold_left_app. Qed.

Lemma fold_whb_frame : forall fuel l st st', fold_whb fuel l st = Some st' -> same_frame st st'.
Proof.
  induction l as [|a l IH]; intros st st' H.
  - inversion H; subst. apply same_frame_refl.
  - rewrite fold_whb_cons in H. destruct (write_head_block fuel st a) as [s|] eqn:E; [|discriminate].
    destruct (whb_spec _ _ _ _ E) as (_ & _ & _ & Hf & _). eapply same_frame_trans; eauto.
Qed.

Lemma fold_whb_GC : forall fuel l p c0 st st', down p l c0 -> hdr_ok p -> GC (canon st) c0 ->
  fold_whb fuel (rev l) st = Some st' -> GC (canon st') p.
Proof.
  intros fuel l p c0 st st' Hd. revert st'. induction Hd; intros st' Hx Hc HF.
  - inversion HF; subst; auto.
  - cbn [rev] in HF. rewrite fold_whb_snoc in HF.
    destruct (fold_whb fuel (rev l) st) as [s|] eqn:E; [|discriminate].
    eapply GC_whb; eauto. apply IHHd; auto. apply H0.
Qed.

Lemma fold_whb_none : forall fuel l st st' n, fold_whb fuel l st = Some st' ->
  canon st n = None -> (forall z, In z l -> hnum z <> n) -> canon st' n = None.
Proof.
  induction l as [|a l IH]; intros st st' n H Hn Hl.
  - now inversion H; subst.
  - rewrite fold_whb_cons in H. destruct (write_head_block fuel st a) as [s|] eqn:E; [|discriminate].
    eapply IH; eauto; [|intros; apply Hl; now right].
    eapply whb_none; eauto. intro. apply (Hl a); [now left|auto].
Qed.

Lemma fold_whb_sub : forall fuel l st st' n h, fold_whb fuel l st = Some st' ->
  canon st' n = Some h -> canon st n = Some h \/ exists z, In z l /\ fst z = h.
Proof.
  induction l as [|a l IH]; intros st st' n h H Hn.
  - inversion H; subst; auto.
  - rewrite fold_whb_cons in H. destruct (write_head_block fuel st a) as [s|] eqn:E; [|discriminate].
    destruct (IH _ _ _ _ H Hn) as [H1|(z & Hz & Ez)].
    + destruct (whb_sub _ _ _ _ E n h H1) as [[_ ->]|H2]; auto. right. exists a. split; auto. now left.
    + right. exists z. split; auto. now right.
Qed.

Lemma fold_whb_term : forall fuel l st, (0 < fuel)%nat ->
  (forall n, N.of_nat fuel <= n -> canon st n = None) ->
  (forall z, In z l -> hnum z < N.of_nat fuel) -> fold_whb fuel l st <> None.
Proof.
  induction l as [|a l IH]; intros st Hf Hc Hl; [discriminate|].
  rewrite fold_whb_cons. destruct (write_head_block fuel st a) as [s|] eqn:E.
  - apply IH; auto; [|intros; apply Hl; now right].
    intros n Hn. eapply whb_none; eauto. specialize (Hl a (or_introl eq_refl)). lia.
  - exfalso. revert E. now apply whb_term.
Qed.

(* ---- reorg ---- *)
(* the two walks of reorg, as one statement *)
Definition reorg_walk (fuel : nat) (st : db) (old new : hdr) : res (hdr * list hdr * list hdr) :=
  match (if hnum new <? hnum old
         then match reduce T fuel st (Some old) (hnum new) [] with
              | None => Err EOutOfFuel
              | Some (o, oc) => Ok (o, Some new, oc, [])
              end
         else match reduce T fuel st (Some new) (hnum old) [] with
              | None => Err EOutOfFuel
              | Some (n, nc) => Ok (Some old, n, [], nc)
              end) with
  | Err e => Err e
  | Ok (o, n, oc0, nc0) =>
    match o with
    | None => Err EInvalidOldChain
    | Some o1 => match n with
                 | None => Err EInvalidNewChain
                 | Some n1 => find_common T fuel st o1 n1 oc0 nc0
                 end
    end
  end.

Lemma reorg_walk_spec : forall fuel st old new c oc nc,
  reorg_walk fuel st old new = Ok (c, oc, nc) -> hdr_ok old -> hdr_ok new ->
  down old oc c /\ down new nc c /\ hdr_ok c.
Proof.
  intros fuel st old new c oc nc H Ho Hn. unfold reorg_walk in H.
  assert (K : forall o1 n1 oc0 nc0, hdr_ok o1 -> hdr_ok n1 -> down old oc0 o1 -> down new nc0 n1 ->
              find_common T fuel st o1 n1 oc0 nc0 = Ok (c, oc, nc) ->
              down old oc c /\ down new nc c /\ hdr_ok c).
  { intros o1 n1 oc0 nc0 Ho1 Hn1 Hdo Hdn HF.
    destruct (find_common_spec _ _ _ _ _ _ _ _ _ HF Ho1 Hn1) as (lo & ln & -> & -> & Hlo & c' & Hln & Ec).
    assert (Hc : hdr_ok c) by (eapply down_ok_end; eauto).
    assert (Hc' : hdr_ok c') by (eapply down_ok_end; eauto).
    assert (c' = c) by (apply hdr_ok_inj; auto). subst c'.
    repeat split; auto; eapply down_app; eauto. }
  destruct (hnum new <? hnum old).
  - destruct (reduce T fuel st (Some old) (hnum new) []) as [[o oc0]|] eqn:ER; [|discriminate].
    destruct o as [o1|]; [|discriminate].
    destruct (reduce_spec _ _ _ _ _ _ _ ER Ho) as (l & -> & Hd & _). cbn [app] in *.
    apply (K o1 new l []); auto; [eapply down_ok_end; eauto | constructor].
  - destruct (reduce T fuel st (Some new) (hnum old) []) as [[n nc0]|] eqn:ER; [|discriminate].
    destruct n as [n1|]; [|discriminate].
    destruct (reduce_spec _ _ _ _ _ _ _ ER Hn) as (l & -> & Hd & _). cbn [app] in *.
    apply (K old n1 [] l); auto; [eapply down_ok_end; eauto | constructor].
Qed.

(* reorg = walks, then the rewrite; the shape used by every later lemma *)
Lemma reorg_unfold : forall fuel st old new,
  reorg T fuel st old new =
  match reorg_walk fuel st old new with
  | Err e => Err e
  | Ok (c, oc, nc) =>
    let removed := map EvRemoved (chunk_logs (map (logs_of st) (rev oc)) []) in
    let nb := rev (tl nc) in
    let added := map EvLogs (chunk_logs (map (logs_of st) nb) []) in
    match fold_whb fuel nb st with
    | None => Err EOutOfFuel
    | Some st1 =>
      let st2 := set_lookup st1 (delete_lookups (lookup st1)
                    (filter (fun tx => negb (mem tx (hdr_txs nb))) (hdr_txs oc))) in
      let number := match nc with _ :: x1 :: _ => hnum x1 | _ => hnum c end in
      match del_canon_from fuel (canon st2) (number + 1) with
      | None => Err EOutOfFuel
      | Some c' => Ok (set_canon st2 c', removed ++ added ++ [EvPurge])
      end
    end
  end.
Proof.
  intros. unfold reorg, reorg_walk.
  destruct (hnum new <? hnum old).
  - destruct (reduce T fuel st (Some old) (hnum new) []) as [[[o1|] oc0]|]; auto;
      try (destruct (find_common T fuel st o1 new oc0 []) as [[[c oc] nc]|]; auto).
  - destruct (reduce T fuel st (Some new) (hnum old) []) as [[[n1|] nc0]|]; auto;
      try (destruct (find_common T fuel st old n1 [] nc0) as [[[c oc] nc]|]; auto).
Qed.

(* the header below which the canonical index is rebuilt by reorg *)
Definition reorg_top (c : hdr) (nc : list hdr) : hdr :=
  match nc with _ :: x1 :: _ => x1 | _ => c end.

Lemma reorg_top_spec : forall new nc c, down new nc c -> hdr_ok new ->
  let p := reorg_top c nc in
  hdr_ok p /\ (p = new \/ parent_of new p) /\ down p (tl nc) c.
Proof.
  intros new nc c Hd Hn. destruct Hd as [x | x p l y Hx Hp Hd']; cbn.
  - repeat split; auto. constructor.
  - destruct Hd' as [z | z q l' y' Hz Hq Hd'']; cbn.
    + repeat split; auto; [apply Hp | constructor].
    + repeat split; auto. econstructor; eauto.
Qed.

Lemma reorg_GC : forall fuel st old new st' evs,
  reorg T fuel st old new = Ok (st', evs) -> hdr_ok old -> hdr_ok new -> GC (canon st) old ->
  exists p, GC (canon st') p /\ hdr_ok p /\ (p = new \/ parent_of new p) /\ same_frame st st'.
Proof.
  intros fuel st old new st' evs H Ho Hn HG. rewrite reorg_unfold in H.
  destruct (reorg_walk fuel st old new) as [[[c oc] nc]|] eqn:EW; [|discriminate].
  destruct (reorg_walk_spec _ _ _ _ _ _ _ EW Ho Hn) as (Hdo & Hdn & Hc).
  cbv zeta in H.
  destruct (fold_whb fuel (rev (tl nc)) st) as [st1|] eqn:EF; [|discriminate].
  match type of H with context [del_canon_from fuel ?cc ?ii] =>
    destruct (del_canon_from fuel cc ii) as [c'|] eqn:ED; [|discriminate] end.
  inversion H; subst st' evs; clear H.
  destruct (reorg_top_spec _ _ _ Hdn Hn) as (Hp & Hcase & Hdp).
  exists (reorg_top c nc). repeat split; auto; try (cbn; apply (fold_whb_frame _ _ _ _ EF)).
  assert (G1 : GC (canon st1) (reorg_top c nc)).
  { eapply fold_whb_GC; eauto.
    intros n Hle. rewrite HG by (apply down_hnum in Hdo; lia).
    eapply down_anc; eauto. }
  intros n Hle. cbn [canon set_canon].
  rewrite (del_canon_below _ _ _ _ ED n).
  + apply G1; auto.
  + unfold reorg_top in Hle. destruct nc as [|? [|? ?]]; lia.
Qed.

(* ---- events of reorg ---- *)
Definition removed_logs (evs : list event) : list N :=
  flat_map (fun e => match e with EvRemoved l => l | _ => [] end) evs.
Definition added_logs (evs : list event) : list N :=
  flat_map (fun e => match e with EvLogs l => l | _ => [] end) evs.

Lemma chunk_concat : forall bs acc, concat (chunk_logs bs acc) = acc ++ concat bs.
Proof.
  induction bs as [|l r IH]; intros acc.
  - cbn. destruct acc; cbn; now rewrite ?app_nil_r.
  - cbn [chunk_logs]. cbv zeta. destruct (Nat.ltb 512 (length (acc ++ l))).
    + change (concat ((acc ++ l) :: chunk_logs r [])) with ((acc ++ l) ++ concat (chunk_logs r [])).
      rewrite IH. cbn. now rewrite app_assoc.
    + rewrite IH. cbn. now rewrite app_assoc.
Qed.

Lemma removed_logs_app : forall a b, removed_logs (a ++ b) = removed_logs a ++ removed_logs b.
Proof. intros. unfold removed_logs. now rewrite flat_map_app. Qed.
Lemma added_logs_app : forall a b, added_logs (a ++ b) = added_logs a ++ added_logs b.
Proof. intros. unfold added_logs. now rewrite flat_map_app. Qed.
Lemma removed_of_removed : forall ls, removed_logs (map EvRemoved ls) = concat ls.
Proof. induction ls; cbn; auto. unfold removed_logs in *. cbn. now rewrite IHls. Qed.
Lemma removed_of_added : forall ls, removed_logs (map EvLogs ls) = [].
Proof. induction ls; cbn; auto. Qed.
Lemma added_of_added : forall ls, added_logs (map EvLogs ls) = concat ls.
Proof. induction ls; cbn; auto. unfold added_logs in *. cbn. now rewrite IHls. Qed.
Lemma added_of_removed : forall ls, added_logs (map EvRemoved ls) = [].
Proof. induction ls; cbn; auto. Qed.
Lemma concat_map_flat : forall A (f : A -> list N) l, concat (map f l) = flat_map f l.
Proof. induction l; cbn; auto. now rewrite IHl. Qed.

(* the two walks meet at the first height where the hashes agree: the branches
   below are hash-disjoint *)
Lemma find_common_disjoint : forall fuel st o n oc nc c oc' nc',
  find_common T fuel st o n oc nc = Ok (c, oc', nc') ->
  Forall2 (fun a b => fst a <> fst b) oc nc -> Forall2 (fun a b => fst a <> fst b) oc' nc'.
Proof.
  induction fuel as [|f IH]; intros st o n oc nc c oc' nc' H HF; [discriminate|].
  cbn [find_common] in H. destruct (N.eqb_spec (fst o) (fst n)) as [E|E].
  - now inversion H; subst.
  - destruct (parent_hdr T st o); [|discriminate]. destruct (parent_hdr T st n); [|discriminate].
    eapply IH; eauto. apply Forall2_app; auto.
Qed.

Lemma reorg_events : forall fuel st old new st' evs,
  reorg T fuel st old new = Ok (st', evs) -> hdr_ok old -> hdr_ok new ->
  exists c oc nc, down old oc c /\ down new nc c /\
    removed_logs evs = flat_map (logs_of st) (rev oc) /\
    added_logs evs = flat_map (logs_of st) (rev (tl nc)).
Proof.
  intros fuel st old new st' evs H Ho Hn. rewrite reorg_unfold in H.
  destruct (reorg_walk fuel st old new) as [[[c oc] nc]|] eqn:EW; [|discriminate].
  destruct (reorg_walk_spec _ _ _ _ _ _ _ EW Ho Hn) as (Hdo & Hdn & Hc).
  cbv zeta in H.
  destruct (fold_whb fuel (rev (tl nc)) st) as [st1|] eqn:EF; [|discriminate].
  match type of H with context [del_canon_from fuel ?cc ?ii] =>
    destruct (del_canon_from fuel cc ii) as [c'|] eqn:ED; [|discriminate] end.
  inversion H; subst st' evs; clear H.
  exists c, oc, nc. repeat split; auto.
  - rewrite !removed_logs_app, removed_of_removed, removed_of_added, chunk_concat.
    cbn. rewrite !app_nil_r. apply concat_map_flat.
  - rewrite !added_logs_app, added_of_removed, added_of_added, chunk_concat.
    cbn. rewrite !app_nil_r. apply concat_map_flat.
Qed.

(* ---- termination of reorg ---- *)
Lemma reduce_term : forall fuel st x target acc, hdr_ok x ->
  (N.to_nat (hnum x) + 1 < fuel)%nat -> reduce T fuel st (Some x) target acc <> None.
Proof.
  induction fuel as [|f IH]; intros st x target acc Hx Hf; [lia|].
  cbn [reduce]. destruct (hnum x =? target); [discriminate|].
  destruct (parent_hdr T st x) as [p|] eqn:EP.
  - pose proof (parent_hdr_spec _ _ _ EP) as (Hp & _ & Hnum). apply IH; auto. lia.
  - destruct f; [|discriminate]. lia.
Qed.

Lemma find_common_term : forall fuel st o n oc nc, hdr_ok o ->
  (N.to_nat (hnum o) < fuel)%nat -> find_common T fuel st o n oc nc <> Err EOutOfFuel.
Proof.
  induction fuel as [|f IH]; intros st o n oc nc Ho Hf; [lia|].
  cbn [find_common]. destruct (fst o =? fst n); [discriminate|].
  destruct (parent_hdr T st o) as [o'|] eqn:EO; [|discriminate].
  destruct (parent_hdr T st n) as [n'|]; [|discriminate].
  pose proof (parent_hdr_spec _ _ _ EO) as (Hp & _ & Hnum). apply IH; auto. lia.
Qed.

Lemma down_in_hnum : forall x l y, down x l y -> forall z, In z l -> hnum z <= hnum x.
Proof.
  induction 1; intros z Hz; [destruct Hz|]. destruct Hz as [<-|Hz]; [lia|].
  apply IHdown in Hz. destruct H0 as (_ & _ & ?). lia.
Qed.

Lemma reorg_terminates : forall fuel st old new, hdr_ok old -> hdr_ok new ->
  (N.to_nat (hnum old) + N.to_nat (hnum new) + 1 < fuel)%nat ->
  (forall n, N.of_nat fuel <= n -> canon st n = None) ->
  reorg T fuel st old new <> Err EOutOfFuel.
Proof.
  intros fuel st old new Ho Hn Hf Hc. rewrite reorg_unfold.
  assert (HW : reorg_walk fuel st old new <> Err EOutOfFuel).
  { unfold reorg_walk. destruct (hnum new <? hnum old).
    - destruct (reduce T fuel st (Some old) (hnum new) []) as [[[o1|] oc0]|] eqn:ER; try discriminate.
      + destruct (reduce_spec _ _ _ _ _ _ _ ER Ho) as (l & _ & Hd & _).
        apply find_common_term; [eapply down_ok_end; eauto|]. apply down_hnum in Hd. lia.
      + exfalso. eapply reduce_term; [exact Ho| |exact ER]. lia.
    - destruct (reduce T fuel st (Some new) (hnum old) []) as [[[n1|] nc0]|] eqn:ER; try discriminate.
      + apply find_common_term; auto. lia.
      + exfalso. eapply reduce_term; [exact Hn| |exact ER]. lia. }
  destruct (reorg_walk fuel st old new) as [[[c oc] nc]|] eqn:EW; [|congruence].
  destruct (reorg_walk_spec _ _ _ _ _ _ _ EW Ho Hn) as (Hdo & Hdn & Hcc).
  cbv zeta.
  assert (Hnb : forall z, In z (rev (tl nc)) -> hnum z <= hnum new).
  { intros z Hz. apply in_rev in Hz.
    assert (In z nc) by (destruct nc; [destruct Hz | now right]).
    apply (down_in_hnum _ _ _ Hdn) in H. exact H. }
  destruct (fold_whb fuel (rev (tl nc)) st) as [st1|] eqn:EF.
  2:{ exfalso. revert EF. apply fold_whb_term; auto; [lia|]. intros z Hz. specialize (Hnb z Hz). lia. }
  match goal with |- context [del_canon_from fuel ?cc ?ii] =>
    destruct (del_canon_from fuel cc ii) as [c'|] eqn:ED; [discriminate|] end.
  exfalso. revert ED. apply del_canon_term; [lia|].
  intros n Hle. cbn [canon set_lookup].
  eapply fold_whb_none; eauto; [apply Hc; lia|].
  intros z Hz. specialize (Hnb z Hz). lia.
Qed.

End Proofs.
