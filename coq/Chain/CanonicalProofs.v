(* Chain/CanonicalProofs.v — lemmas about Chain/Canonical.v (C38). *)
From Coq Require Import List NArith Bool Lia.
From GV Require Import Lib.Tactics Chain.Tree Chain.Canonical.
Import ListNotations.
Local Open Scope N_scope.

Section Proofs.
Variable T : tree.

Definition hdr_ok (x : hdr) : Prop := T (fst x) = Some (snd x).

(* p is the parent header of x *)
Definition parent_of (x p : hdr) : Prop :=
  hdr_ok p /\ fst p = b_parent (snd x) /\ hnum p + 1 = hnum x.

(* walking down from x to y (exclusive): the list is newest first *)
Inductive down : hdr -> list hdr -> hdr -> Prop :=
| down_nil : forall x, down x [] x
| down_cons : forall x p l y, hdr_ok x -> parent_of x p -> down p l y -> down x (x :: l) y.

(* the canonical index agrees with the ancestors of [top] up to its height *)
Definition GC (c : N -> option N) (top : hdr) : Prop :=
  forall n, n <= hnum top -> c n = anc T (fst top) n.

Lemma upd_same : forall A (f : N -> A) k v, upd f k v k = v.
Proof. intros. unfold upd. now rewrite N.eqb_refl. Qed.
Lemma upd_other : forall A (f : N -> A) k v x, x <> k -> upd f k v x = f x.
Proof. intros. unfold upd. destruct (N.eqb_spec x k); congruence. Qed.

Lemma parent_hdr_spec : forall st x p,
  parent_hdr T st x = Some p -> parent_of x p.
Proof.
  intros st x p H. unfold parent_hdr, get_header in H.
  destruct (N.eqb_spec (hnum x) 0) as [|Hn]; [discriminate|].
  destruct (T (b_parent (snd x))) as [b|] eqn:ET; [|discriminate].
  destruct (is_known st (b_parent (snd x)) && (b_number b =? hnum x - 1)) eqn:EC; [|discriminate].
  inversion H; subst p. apply andb_prop in EC as [_ EN]. apply N.eqb_eq in EN.
  unfold parent_of, hdr_ok, hnum in *. cbn [fst snd] in *. repeat split; auto. lia.
Qed.

(* ---- anc ---- *)
Lemma anc_self : forall x, hdr_ok x -> anc T (fst x) (hnum x) = Some (fst x).
Proof.
  intros [h b] H. unfold hdr_ok, anc, hnum in *. cbn [fst snd] in *. rewrite H.
  rewrite N.leb_refl. replace (b_number b - b_number b) with 0 by lia. cbn. now rewrite H.
Qed.

Lemma anc_parent : forall x p n, hdr_ok x -> parent_of x p -> n <= hnum p ->
  anc T (fst x) n = anc T (fst p) n.
Proof.
  intros [h b] [ph pb] n Hx (Hp & Hpar & Hnum) Hn.
  unfold hdr_ok, anc, hnum in *. cbn [fst snd] in *. rewrite Hx, Hp.
  assert (E1 : (n <=? b_number b) = true) by (apply N.leb_le; lia).
  assert (E2 : (n <=? b_number pb) = true) by (apply N.leb_le; lia).
  rewrite E1, E2.
  replace (N.to_nat (b_number b - n)) with (S (N.to_nat (b_number pb - n))) by lia.
  cbn [nth_parent]. rewrite Hx. now rewrite <- Hpar.
Qed.

Lemma down_hnum : forall x l y, down x l y -> hnum y <= hnum x.
Proof. induction 1; [lia|]. destruct H0 as (_ & _ & ?). lia. Qed.

Lemma down_anc : forall x l y, down x l y -> forall n, n <= hnum y ->
  anc T (fst x) n = anc T (fst y) n.
Proof.
  induction 1; intros n Hn; auto.
  rewrite (anc_parent x p n); auto. apply down_hnum in H1. lia.
Qed.

Lemma down_app : forall x l y, down x l y -> forall l' z, down y l' z -> down x (l ++ l') z.
Proof. induction 1; intros; cbn; auto. econstructor; eauto. Qed.

Lemma down_ok_end : forall x l y, down x l y -> hdr_ok x -> hdr_ok y.
Proof. induction 1; auto. intros _. apply IHdown. apply H0. Qed.

Lemma down_tl : forall x l y, down x l y ->
  match l with
  | [] => x = y
  | _ :: l' => exists p, parent_of x p /\ down p l' y
  end.
Proof. destruct 1; eauto. Qed.

(* ---- reduce / find_common ---- *)
Lemma reduce_spec : forall fuel st x target acc r acc',
  reduce T fuel st (Some x) target acc = Some (r, acc') -> hdr_ok x ->
  match r with
  | Some y => exists l, acc' = acc ++ l /\ down x l y /\ hnum y = target
  | None => True
  end.
Proof.
  induction fuel as [|f IH]; intros st x target acc r acc' H Hx; [discriminate|].
  cbn [reduce] in H. destruct (N.eqb_spec (hnum x) target) as [E|E].
  - inversion H; subst. exists []. rewrite app_nil_r. repeat split; auto. constructor.
  - destruct (parent_hdr T st x) as [p|] eqn:EP.
    + pose proof (parent_hdr_spec _ _ _ EP) as Hp.
      specialize (IH st p target (acc ++ [x]) r acc' H (proj1 Hp)).
      destruct r as [y|]; auto. destruct IH as (l & -> & Hd & Hn).
      exists (x :: l). rewrite <- app_assoc. repeat split; auto. econstructor; eauto.
    + destruct f; [discriminate|]. cbn in H. inversion H; subst. exact I.
Qed.

Lemma find_common_spec : forall fuel st o n oc nc c oc' nc',
  find_common T fuel st o n oc nc = Ok (c, oc', nc') -> hdr_ok o -> hdr_ok n ->
  exists lo ln, oc' = oc ++ lo /\ nc' = nc ++ ln /\ down o lo c /\
                (exists c', down n ln c' /\ fst c' = fst c).
Proof.
  induction fuel as [|f IH]; intros st o n oc nc c oc' nc' H Ho Hn; [discriminate|].
  cbn [find_common] in H. destruct (N.eqb_spec (fst o) (fst n)) as [E|E].
  - inversion H; subst. exists [], []. rewrite !app_nil_r. repeat split; auto; try constructor.
    exists n. split; [constructor|auto].
  - destruct (parent_hdr T st o) as [o'|] eqn:EO; [|discriminate].
    destruct (parent_hdr T st n) as [n'|] eqn:EN; [|discriminate].
    pose proof (parent_hdr_spec _ _ _ EO) as Hpo. pose proof (parent_hdr_spec _ _ _ EN) as Hpn.
    destruct (IH _ _ _ _ _ _ _ _ H (proj1 Hpo) (proj1 Hpn)) as (lo & ln & -> & -> & Hdo & c' & Hdn & Ec).
    exists (o :: lo), (n :: ln). rewrite <- !app_assoc. repeat split; auto.
    + econstructor; eauto.
    + exists c'. split; auto. econstructor; eauto.
Qed.

(* two headers with the same hash are the same header *)
Lemma hdr_ok_inj : forall x y, hdr_ok x -> hdr_ok y -> fst x = fst y -> x = y.
Proof.
  intros [h b] [h' b'] Hx Hy E. unfold hdr_ok in *. cbn [fst snd] in *. subst h'.
  rewrite Hx in Hy. now inversion Hy.
Qed.

(* ---- del_canon_from ---- *)
Lemma del_canon_below : forall fuel c i c', del_canon_from fuel c i = Some c' ->
  forall n, n < i -> c' n = c n.
Proof.
  induction fuel as [|f IH]; intros c i c' H n Hn; [discriminate|].
  cbn in H. destruct (c i) eqn:E.
  - rewrite (IH _ _ _ H n) by lia. apply upd_other. lia.
  - now inversion H.
Qed.

Lemma del_canon_above : forall fuel c i c', del_canon_from fuel c i = Some c' ->
  (forall n m, c n = None -> n <= m -> c m = None) ->
  forall n, i <= n -> c' n = None.
Proof.
  induction fuel as [|f IH]; intros c i c' H Hc n Hn; [discriminate|].
  cbn in H. destruct (c i) eqn:E.
  - destruct (N.eq_dec n i) as [->|Hne].
    + rewrite (del_canon_below _ _ _ _ H i) by lia. apply upd_same.
    + eapply IH; eauto; [|lia]. intros a m Ha Hle. unfold upd in *.
      destruct (N.eqb_spec m i); auto. destruct (N.eqb_spec a i).
      * subst a. (* a = i < m: use contiguity from any None... *)
        destruct (c m) eqn:Em; auto. exfalso.
        (* c i is Some, so nothing forces c m; but None at a=i in upd only *)
        clear -E Em Hc Hle n0.
        (* no information: we need c m = None only if some entry at or below was None in c *)
        admit_placeholder.
      * eapply Hc; eauto.
  - inversion H; subst. eapply Hc; eauto.
Abort.

Lemma del_canon_term : forall fuel c i,
  (0 < fuel)%nat -> (forall n, i + N.of_nat fuel <= n + 1 -> c n = None) ->
  del_canon_from fuel c i <> None.
Proof.
  induction fuel as [|f IH]; intros c i Hf Hc; [lia|].
  cbn. destruct (c i) eqn:E; [|discriminate].
  destruct f as [|f'].
  - rewrite Hc in E by lia. discriminate.
  - apply IH; [lia|]. intros n Hn. unfold upd. destruct (N.eqb_spec n i); auto. apply Hc. lia.
Qed.

(* ---- write_head_block ---- *)
Lemma GC_write : forall c x p, hdr_ok x -> GC c p -> (p = x \/ parent_of x p \/ hnum x = 0) ->
  GC (upd c (hnum x) (Some (fst x))) x.
Proof.
  intros c x p Hx Hc Hcase n Hn. unfold upd. destruct (N.eqb_spec n (hnum x)) as [->|Hne].
  - symmetry. now apply anc_self.
  - destruct Hcase as [->|[Hp|H0]]; [apply Hc; auto| |lia].
    rewrite (anc_parent x p n); auto; [apply Hc|]; destruct Hp as (_ & _ & ?); lia.
Qed.

Lemma fold_whb_frame : forall l st,
  let st' := fold_left (write_head_block) l st in
  known st' = known st /\ rcpt st' = rcpt st /\ avail st' = avail st /\ disk st' = disk st.
Proof. induction l; intros; cbn; auto. subst st'. cbn. destruct (IHl (write_head_block st a)) as (?&?&?&?). repeat split; etransitivity; eauto. Qed.

Lemma fold_whb_GC : forall l p c0 st, down p l c0 -> hdr_ok p -> GC (canon st) c0 ->
  GC (canon (fold_left write_head_block (rev l) st)) p.
Proof.
  intros l p c0 st Hd. revert st. induction Hd; intros st Hx Hc; cbn; auto.
  rewrite fold_left_app. cbn. apply GC_write with (p := p); auto.
  apply IHHd; auto. apply H0.
Qed.

End Proofs.
