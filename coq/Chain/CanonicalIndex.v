(* Chain/CanonicalIndex.v — the tx lookup index (rawdb tx hash -> block number) over
   histories (C38): every entry names a canonical block that holds the transaction, for
   all histories without SetHead along which the heads stay together. *)
From Coq Require Import List NArith Bool Lia.
From GV Require Import Lib.Tactics Chain.Tree Chain.Canonical Chain.CanonicalProofs Chain.CanonicalInv Chain.CanonicalTop.
Import ListNotations.
Local Open Scope N_scope.

Lemma wl_spec : forall txs lk n tx,
  write_lookups lk n txs tx = if mem tx txs then Some n else lk tx.
Proof.
  unfold write_lookups. induction txs as [|a r IH]; intros lk n tx; cbn; auto.
  rewrite IH. unfold mem. cbn [existsb]. unfold upd.
  destruct (existsb (N.eqb tx) r); [now rewrite orb_true_r|]. now rewrite orb_false_r.
Qed.

Lemma dl_spec : forall txs lk tx,
  delete_lookups lk txs tx = if mem tx txs then None else lk tx.
Proof.
  unfold delete_lookups. induction txs as [|a r IH]; intros lk tx; cbn; auto.
  rewrite IH. unfold mem. cbn [existsb]. unfold upd.
  destruct (existsb (N.eqb tx) r); [now rewrite orb_true_r|]. now rewrite orb_false_r.
Qed.

Lemma mem_iff : forall x l, mem x l = true <-> In x l.
Proof.
  intros. unfold mem. rewrite existsb_exists. split.
  - intros (y & Hy & E). apply N.eqb_eq in E. now subst.
  - intros H. exists x. split; auto. apply N.eqb_refl.
Qed.

Lemma whb_lookup : forall fuel st x st', write_head_block fuel st x = Some st' ->
  lookup st' = write_lookups (lookup st) (hnum x) (b_txs (snd x)).
Proof.
  intros fuel st x st' H. unfold write_head_block in H.
  destruct (whb_clear fuel (canon st) x); [|discriminate]. now inversion H.
Qed.

Lemma whb_noreplace : forall fuel st x st', write_head_block fuel st x = Some st' ->
  whb_replaces (canon st) x = false -> canon st' = upd (canon st) (hnum x) (Some (fst x)).
Proof.
  intros fuel st x st' H Hr. destruct (whb_spec _ _ _ _ H) as (c1 & Hc & E & _). rewrite E.
  unfold whb_clear, whb_replaces in *. destruct (canon st (hnum x)) as [old|]; [|now inversion Hc].
  destruct (old =? fst x); [now inversion Hc | discriminate].
Qed.

Lemma fold_whb_lookup : forall fuel l st st' tx n, fold_whb fuel l st = Some st' ->
  lookup st' tx = Some n ->
  (lookup st tx = Some n /\ forall z, In z l -> ~ In tx (b_txs (snd z))) \/
  exists z, In z l /\ In tx (b_txs (snd z)) /\ n = hnum z.
Proof.
  induction l as [|a l IH]; intros st st' tx n H Hl.
  - inversion H; subst. left. split; [exact Hl | intros z Hz; destruct Hz].
  - rewrite fold_whb_cons in H. destruct (write_head_block fuel st a) as [s|] eqn:E; [|discriminate].
    destruct (IH _ _ _ _ H Hl) as [(H1 & Hno)|(z & Hz & Hin & En)].
    + rewrite (whb_lookup _ _ _ _ E), wl_spec in H1. destruct (mem tx (b_txs (snd a))) eqn:EM.
      * inversion H1; subst. right. exists a. repeat split; [now left | now apply mem_iff].
      * left. split; auto. intros z [<-|Hz]; [|now apply Hno].
        intro Hin. apply mem_iff in Hin. congruence.
    + right. exists z. repeat split; auto. now right.
Qed.

Section Index.
Variable T : tree.
Hypothesis Hwf : wf_tree T.
Hypothesis Hgp : forall g, T 0 = Some g -> T (b_parent g) = None.

Notation hdr_ok := (hdr_ok T).
Notation GC := (GC T).

(* every lookup entry names a canonical block holding the tx *)
Definition LS (c : N -> option N) (lk : N -> option N) : Prop :=
  forall tx n, lk tx = Some n -> exists h b, c n = Some h /\ T h = Some b /\ In tx (b_txs b).

Lemma down_anc_in : forall x l y, down T x l y -> hdr_ok x -> forall z, In z l ->
  hdr_ok z /\ anc T (fst x) (hnum z) = Some (fst z) /\ hnum y < hnum z /\ hnum z <= hnum x.
Proof.
  induction 1; intros Hx z Hz; [destruct Hz|].
  pose proof (down_hnum T _ _ _ H1) as Hle. pose proof H0 as (Hpo & _ & Hn).
  destruct Hz as [<-|Hz].
  - repeat split; auto; [now apply anc_self | lia | lia].
  - destruct (IHdown Hpo z Hz) as (Hzo & Ha & H1' & H2'). split; [auto|]. split; [|lia].
    rewrite (anc_parent T x p (hnum z)); auto.
Qed.

Lemma down_anc_cover : forall x l y, down T x l y -> hdr_ok x -> forall n h,
  hnum y < n -> n <= hnum x -> anc T (fst x) n = Some h -> exists z, In z l /\ fst z = h /\ hnum z = n.
Proof.
  induction 1; intros Hx n h Hlo Hhi Ha; [lia|].
  pose proof H0 as (Hpo & _ & Hn).
  destruct (N.eq_dec n (hnum x)) as [->|Hne].
  - rewrite anc_self in Ha by auto. inversion Ha; subst. exists x. repeat split; auto. now left.
  - rewrite (anc_parent T x p n) in Ha by (auto; lia).
    destruct (IHdown Hpo n h Hlo ltac:(lia) Ha) as (z & Hz & E1 & E2). exists z. repeat split; auto. now right.
Qed.

Lemma hdr_txs_in : forall l z tx, In z l -> In tx (b_txs (snd z)) -> In tx (hdr_txs l).
Proof. intros l z tx Hz Ht. unfold hdr_txs. apply in_flat_map. exists z. auto. Qed.

(* reorg keeps the index sound *)
Lemma reorg_LS : forall fuel st old new st' evs,
  reorg T fuel st old new = Ok (st', evs) -> hdr_ok old -> hdr_ok new -> GC (canon st) old ->
  (forall n, hnum old < n -> canon st n = None) ->
  LS (canon st) (lookup st) -> LS (canon st') (lookup st').
Proof.
  intros fuel st old new st' evs H Ho Hn HG HT HL.
  rewrite reorg_unfold in H.
  destruct (reorg_walk T fuel st old new) as [[[c oc] nc]|] eqn:EW; [|discriminate].
  destruct (reorg_walk_spec T _ _ _ _ _ _ _ EW Ho Hn) as (Hdo & Hdn & Hc).
  cbv zeta in H.
  destruct (fold_whb fuel (rev (tl nc)) st) as [st1|] eqn:EF; [|discriminate].
  match type of H with context [del_canon_from fuel ?cc ?ii] =>
    destruct (del_canon_from fuel cc ii) as [c'|] eqn:ED; [|discriminate] end.
  destruct (reorg_top_spec T _ _ _ Hdn Hn) as (Hp & Hcase & Hdp).
  assert (Hnum : (match nc with _ :: x1 :: _ => hnum x1 | _ => hnum c end) = hnum (reorg_top c nc))
    by (unfold reorg_top; destruct nc as [|? [|? ?]]; reflexivity).
  rewrite Hnum in ED. set (p := reorg_top c nc) in *.
  assert (G1 : GC (canon st1) p).
  { eapply fold_whb_GC; eauto.
    intros n Hle. rewrite HG by (apply down_hnum in Hdo; lia). eapply down_anc; eauto. }
  inversion H; subst st' evs; clear H.
  intros tx n Hl. cbn [lookup set_canon set_lookup canon] in *.
  rewrite dl_spec in Hl.
  match type of Hl with (if mem tx ?F then _ else _) = _ => destruct (mem tx F) eqn:EM; [discriminate|] end.
  assert (Hbelow : forall k, k <= hnum p -> c' k = anc T (fst p) k).
  { intros k Hk. rewrite (del_canon_below _ _ _ _ ED k) by lia. now apply G1. }
  pose proof (down_hnum T _ _ _ Hdp) as Hcp. pose proof (down_hnum T _ _ _ Hdo) as Hco.
  destruct (fold_whb_lookup _ _ _ _ _ _ EF Hl) as [(Hold & Hno)|(z & Hz & Hin & ->)].
  - (* an entry reorg did not write: it was not deleted either *)
    assert (Hnr : ~ In tx (hdr_txs (rev (tl nc)))).
    { intro Hin. unfold hdr_txs in Hin. apply in_flat_map in Hin as (z & Hz & Htz). exact (Hno z Hz Htz). }
    assert (Hnd : ~ In tx (hdr_txs oc)).
    { intro Hin. assert (mem tx (filter (fun t => negb (mem t (hdr_txs (rev (tl nc))))) (hdr_txs oc)) = true); [|congruence].
      apply mem_iff. apply filter_In. split; auto.
      destruct (mem tx (hdr_txs (rev (tl nc)))) eqn:E2; auto. apply mem_iff in E2. contradiction. }
    destruct (HL tx n Hold) as (h & b & Hcn & Hb & Hin).
    destruct (N.le_gt_cases n (hnum c)) as [Hle|Hgt].
    + exists h, b. repeat split; auto. rewrite Hbelow by lia.
      rewrite (down_anc T _ _ _ Hdp n Hle), <- (down_anc T _ _ _ Hdo n Hle), <- HG by lia. exact Hcn.
    + exfalso. destruct (N.le_gt_cases n (hnum old)) as [Hle'|Hgt']; [|rewrite HT in Hcn by auto; discriminate].
      rewrite HG in Hcn by auto.
      destruct (down_anc_cover _ _ _ Hdo Ho n h Hgt Hle' Hcn) as (z & Hz & E1 & E2).
      destruct (down_anc_in _ _ _ Hdo Ho z Hz) as (Hzo & _). unfold CanonicalProofs.hdr_ok in Hzo.
      rewrite E1, Hb in Hzo. inversion Hzo; subst b. apply Hnd. eapply hdr_txs_in; eauto.
  - (* an entry written for a re-added block *)
    apply in_rev in Hz. destruct (down_anc_in _ _ _ Hdp Hp z Hz) as (Hzo & Ha & _ & Hle).
    exists (fst z), (snd z). repeat split; auto. rewrite Hbelow by lia. exact Ha.
Qed.

Lemma whb_LS : forall fuel st x st', write_head_block fuel st x = Some st' -> hdr_ok x ->
  whb_replaces (canon st) x = false -> LS (canon st) (lookup st) -> LS (canon st') (lookup st').
Proof.
  intros fuel st x st' H Hx Hr HL tx n Hl.
  rewrite (whb_noreplace _ _ _ _ H Hr). rewrite (whb_lookup _ _ _ _ H), wl_spec in Hl.
  destruct (mem tx (b_txs (snd x))) eqn:EM.
  - inversion Hl; subst. exists (fst x), (snd x). rewrite upd_same. repeat split; auto. now apply mem_iff.
  - destruct (HL tx n Hl) as (h & b & Hc & Hb & Hin). exists h, b. repeat split; auto.
    destruct (N.eq_dec n (hnum x)) as [->|Hne]; [|now rewrite upd_other].
    rewrite upd_same. unfold whb_replaces in Hr. rewrite Hc in Hr.
    destruct (N.eqb_spec h (fst x)); [now subst | discriminate].
Qed.

(* ---- completeness: every tx of a canonical block has its entry ---- *)
(* a transaction occurs at most once among the ancestors of any block (account nonces) *)
Definition tx_once_per_branch : Prop :=
  forall x n1 n2 h1 h2 b1 b2 tx, hdr_ok x ->
    anc T (fst x) n1 = Some h1 -> anc T (fst x) n2 = Some h2 -> T h1 = Some b1 -> T h2 = Some b2 ->
    In tx (b_txs b1) -> In tx (b_txs b2) -> n1 = n2.
Hypothesis HU : tx_once_per_branch.
(* the genesis block has no transactions *)
Hypothesis Hg_notx : forall g, T 0 = Some g -> forall tx, ~ In tx (b_txs g).

Definition LC (c : N -> option N) (lk : N -> option N) : Prop :=
  forall n h b tx, c n = Some h -> T h = Some b -> In tx (b_txs b) -> lk tx = Some n.

Lemma fold_whb_lookup_keep : forall fuel l st st' tx, fold_whb fuel l st = Some st' ->
  (forall z, In z l -> ~ In tx (b_txs (snd z))) -> lookup st' tx = lookup st tx.
Proof.
  induction l as [|a l IH]; intros st st' tx H Hno.
  - now inversion H.
  - rewrite fold_whb_cons in H. destruct (write_head_block fuel st a) as [s|] eqn:E; [|discriminate].
    rewrite (IH _ _ _ H) by (intros; apply Hno; now right).
    rewrite (whb_lookup _ _ _ _ E), wl_spec. destruct (mem tx (b_txs (snd a))) eqn:EM; auto.
    apply mem_iff in EM. exfalso. apply (Hno a); [now left|auto].
Qed.

Lemma fold_whb_lookup_set : forall fuel l st st' tx k, fold_whb fuel l st = Some st' ->
  (exists z, In z l /\ In tx (b_txs (snd z))) ->
  (forall z, In z l -> In tx (b_txs (snd z)) -> hnum z = k) -> lookup st' tx = Some k.
Proof.
  induction l as [|a l IH]; intros st st' tx k H (z & Hz & Hin) Hall; [destruct Hz|].
  rewrite fold_whb_cons in H. destruct (write_head_block fuel st a) as [s|] eqn:E; [|discriminate].
  destruct (existsb (fun z' => mem tx (b_txs (snd z'))) l) eqn:EX.
  - apply existsb_exists in EX as (z' & Hz' & Hm). apply mem_iff in Hm.
    eapply IH; eauto. intros; apply Hall; auto. now right.
  - rewrite (fold_whb_lookup_keep _ _ _ _ _ H).
    + rewrite (whb_lookup _ _ _ _ E), wl_spec.
      destruct Hz as [<-|Hz].
      * apply mem_iff in Hin. rewrite Hin. f_equal. apply Hall; [now left | now apply mem_iff].
      * exfalso. assert (existsb (fun z' => mem tx (b_txs (snd z'))) l = true); [|congruence].
        apply existsb_exists. exists z. split; auto. now apply mem_iff.
    + intros z' Hz' Hin'. assert (existsb (fun z'' => mem tx (b_txs (snd z''))) l = true); [|congruence].
      apply existsb_exists. exists z'. split; auto. now apply mem_iff.
Qed.

Lemma reorg_LC : forall fuel st old new st' evs,
  reorg T fuel st old new = Ok (st', evs) -> hdr_ok old -> hdr_ok new -> GC (canon st) old ->
  (forall n, hnum old < n -> canon st n = None) ->
  LC (canon st) (lookup st) -> LC (canon st') (lookup st').
Proof.
  intros fuel st old new st' evs H Ho Hn HG HT HL.
  destruct (reorg_GC_top T _ _ _ _ _ _ H Ho Hn HG (GC_closed T Hwf Hgp _ _ Ho HG HT)) as (p0 & HG0 & Hp0 & _ & Hab0).
  rewrite reorg_unfold in H.
  destruct (reorg_walk T fuel st old new) as [[[c oc] nc]|] eqn:EW; [|discriminate].
  destruct (reorg_walk_spec T _ _ _ _ _ _ _ EW Ho Hn) as (Hdo & Hdn & Hc).
  cbv zeta in H.
  destruct (fold_whb fuel (rev (tl nc)) st) as [st1|] eqn:EF; [|discriminate].
  match type of H with context [del_canon_from fuel ?cc ?ii] =>
    destruct (del_canon_from fuel cc ii) as [c'|] eqn:ED; [|discriminate] end.
  destruct (reorg_top_spec T _ _ _ Hdn Hn) as (Hp & Hcase & Hdp).
  assert (Hnum : (match nc with _ :: x1 :: _ => hnum x1 | _ => hnum c end) = hnum (reorg_top c nc))
    by (unfold reorg_top; destruct nc as [|? [|? ?]]; reflexivity).
  rewrite Hnum in ED. set (p := reorg_top c nc) in *.
  assert (G1 : GC (canon st1) p).
  { eapply fold_whb_GC; eauto.
    intros n Hle. rewrite HG by (apply down_hnum in Hdo; lia). eapply down_anc; eauto. }
  pose proof (down_hnum T _ _ _ Hdp) as Hcp. pose proof (down_hnum T _ _ _ Hdo) as Hco.
  (* nothing canonical above p afterwards *)
  assert (Hab : forall n, hnum p < n -> c' n = None).
  { intros n Hn'. apply (del_canon_above _ _ _ _ ED); [|lia].
    intros a m Ha Hm Hnone. cbn [canon set_lookup] in *.
    pose proof (fold_whb_closed T _ _ _ _ _ _ Hdp EF (fun k _ => GC_closed T Hwf Hgp _ _ Ho HG HT k)) as HC1.
    apply (HC1 (hnum p + 1) ltac:(lia) a m); auto. }
  inversion H; subst st' evs; clear H.
  intros n h b tx Hcn Hb Hin. cbn [lookup set_canon set_lookup canon] in *.
  assert (Hnp : n <= hnum p).
  { destruct (N.le_gt_cases n (hnum p)); auto. rewrite Hab in Hcn by auto. discriminate. }
  rewrite (del_canon_below _ _ _ _ ED n) in Hcn by lia. rewrite G1 in Hcn by auto.
  rewrite dl_spec.
  destruct (N.le_gt_cases n (hnum c)) as [Hle|Hgt].
  - (* a block below the common ancestor: its entry is neither rewritten nor deleted *)
    assert (Hno : forall z, In z (rev (tl nc)) -> ~ In tx (b_txs (snd z))).
    { intros z Hz Htz. apply in_rev in Hz. destruct (down_anc_in _ _ _ Hdp Hp z Hz) as (Hzo & Ha & Hlo & _).
      assert (n = hnum z); [|lia].
      eapply (HU p n (hnum z) h (fst z) b (snd z) tx); eauto. }
    assert (Hnd : ~ In tx (hdr_txs oc)).
    { intro Hi. unfold hdr_txs in Hi. apply in_flat_map in Hi as (z & Hz & Htz).
      destruct (down_anc_in _ _ _ Hdo Ho z Hz) as (Hzo & Ha & Hlo & _).
      assert (n = hnum z); [|lia].
      eapply (HU old n (hnum z) h (fst z) b (snd z) tx); eauto.
      rewrite (down_anc T _ _ _ Hdo n Hle), <- (down_anc T _ _ _ Hdp n Hle). exact Hcn. }
    match goal with |- (if mem tx ?F then _ else _) = _ => destruct (mem tx F) eqn:EM end.
    + apply mem_iff in EM. apply filter_In in EM as (Hi & _). contradiction.
    + rewrite (fold_whb_lookup_keep _ _ _ _ _ EF Hno). eapply HL; eauto.
      rewrite HG by lia. rewrite (down_anc T _ _ _ Hdo n Hle), <- (down_anc T _ _ _ Hdp n Hle). exact Hcn.
  - (* a re-added block *)
    destruct (down_anc_cover _ _ _ Hdp Hp n h Hgt Hnp Hcn) as (z & Hz & E1 & E2).
    destruct (down_anc_in _ _ _ Hdp Hp z Hz) as (Hzo & Haz & _).
    assert (Ebz : b = snd z) by (unfold CanonicalProofs.hdr_ok in Hzo; rewrite E1, Hb in Hzo; now inversion Hzo).
    subst b.
    assert (Hreb : In tx (hdr_txs (rev (tl nc)))) by (eapply hdr_txs_in; eauto; now apply -> in_rev).
    match goal with |- (if mem tx ?F then _ else _) = _ => destruct (mem tx F) eqn:EM end.
    + apply mem_iff in EM. apply filter_In in EM as (_ & Hneg). apply mem_iff in Hreb. now rewrite Hreb in Hneg.
    + rewrite <- E2. eapply fold_whb_lookup_set; eauto.
      * exists z. split; auto. now apply -> in_rev.
      * intros z' Hz' Hin'. apply in_rev in Hz'. destruct (down_anc_in _ _ _ Hdp Hp z' Hz') as (Hzo' & Haz' & _).
        eapply (HU p (hnum z') (hnum z) (fst z') (fst z) (snd z') (snd z) tx); eauto.
Qed.

Lemma whb_LC : forall fuel st x st', write_head_block fuel st x = Some st' -> hdr_ok x ->
  whb_replaces (canon st) x = false -> GC (canon st') x -> (forall n, hnum x < n -> canon st' n = None) ->
  LC (canon st) (lookup st) -> LC (canon st') (lookup st').
Proof.
  intros fuel st x st' H Hx Hr HG HN HL n h b tx Hcn Hb Hin.
  assert (Hnx : n <= hnum x).
  { destruct (N.le_gt_cases n (hnum x)); auto. rewrite HN in Hcn by auto. discriminate. }
  rewrite (whb_lookup _ _ _ _ H), wl_spec. destruct (mem tx (b_txs (snd x))) eqn:EM.
  - apply mem_iff in EM. f_equal. symmetry.
    eapply (HU x n (hnum x) h (fst x) b (snd x) tx); eauto; [now rewrite <- HG | now apply anc_self].
  - destruct (N.eq_dec n (hnum x)) as [->|Hne].
    + exfalso. rewrite HG, (anc_self T x Hx) in Hcn by lia. inversion Hcn; subst h.
      unfold CanonicalProofs.hdr_ok in Hx. rewrite Hx in Hb. inversion Hb; subst b.
      apply mem_iff in Hin. congruence.
    + rewrite (whb_noreplace _ _ _ _ H Hr), upd_other in Hcn by auto. eapply HL; eauto.
Qed.

Definition LInv (st : db) : Prop := Strict2 T st /\ LS (canon st) (lookup st) /\ LC (canon st) (lookup st).

Lemma LS_wkb : forall fuel st x st' ev, LInv st -> hdr_ok x ->
  write_known_block T fuel st x = Ok (st', ev) -> LS (canon st') (lookup st').
Proof.
  intros fuel st x st' ev (((HI & HE & HT) & HK) & HL & _) Hx H.
  unfold write_known_block, reorg_if_needed in H.
  destruct (Inv_cur T Hwf st HI) as (cb & Hcur & Hcok & HGc).
  assert (Hnumh : num_of T (hd_header st) = hnum (hd_block st, cb))
    by (rewrite <- HE; apply (num_of_ok T (hd_block st, cb)); auto).
  assert (HTc : forall n, hnum (hd_block st, cb) < n -> canon st n = None)
    by (intros n Hn; apply HT; now rewrite Hnumh).
  destruct (N.eqb_spec (b_parent (snd x)) (hd_block st)) as [E|E].
  - assert (Hh : hnum (hd_block st, cb) < hnum x).
    { destruct (wf_parent T Hwf x Hx) as [E0|(p & Hpo & _ & Hnum)].
      + exfalso. pose proof (wf_zero T Hwf x Hx E0) as Ef. destruct x as [h b]. cbn [fst snd] in *. subst h.
        unfold CanonicalProofs.hdr_ok in Hx, Hcok. cbn in Hx, Hcok.
        pose proof (Hgp _ Hx) as Hnone. rewrite E in Hnone. congruence.
      + unfold CanonicalProofs.hdr_ok in Hpo, Hcok. cbn [fst snd] in *. rewrite E in Hpo. rewrite Hpo in Hcok.
        inversion Hcok; subst. unfold hnum in *. cbn [snd] in *. lia. }
    destruct (write_head_block fuel st x) as [st2|] eqn:EW; [|discriminate]. inversion H; subst.
    eapply whb_LS; eauto. unfold whb_replaces. now rewrite (HTc _ Hh).
  - rewrite Hcur in H.
    destruct (reorg T fuel st (hd_block st, cb) x) as [[st1 ev1]|] eqn:ER; [|discriminate].
    destruct (write_head_block fuel st1 x) as [st2|] eqn:EW; [|discriminate]. inversion H; subst.
    pose proof (reorg_LS _ _ _ _ _ _ ER Hcok Hx HGc HTc HL) as HL1.
    destruct (reorg_GC_top T _ _ _ _ _ _ ER Hcok Hx HGc (GC_closed T Hwf Hgp _ _ Hcok HGc HTc))
      as (p & HGp & Hpo & Hcase & Habove).
    eapply whb_LS; eauto. unfold whb_replaces. destruct Hcase as [->|(_ & _ & Hnum)].
    + rewrite HGp by lia. rewrite (anc_self T x Hx). now rewrite N.eqb_refl.
    + rewrite Habove by lia. reflexivity.
Qed.

Lemma LC_wkb : forall fuel st x st' ev, Strict2 T st -> LC (canon st) (lookup st) -> hdr_ok x ->
  is_known st (fst x) = true ->
  write_known_block T fuel st x = Ok (st', ev) -> LC (canon st') (lookup st').
Proof.
  intros fuel st x st' ev HS2 HL Hx Hkx H.
  pose proof HS2 as ((HI & HE & HT) & HK).
  (* the state afterwards: index = ancestors of x, nothing above *)
  assert (HS' : Strict T st') by (eapply Strict_wkb; eauto; apply HS2).
  assert (Hhead : hd_header st' = fst x).
  { unfold write_known_block in H. destruct (reorg_if_needed T fuel st x) as [[s1 e1]|]; [|discriminate].
    destruct (write_head_block fuel s1 x) as [s2|] eqn:EW; [|discriminate]. inversion H; subst.
    destruct (whb_spec _ _ _ _ EW) as (_ & _ & _ & _ & _ & Eh & _). exact Eh. }
  destruct HS' as (HI' & _ & HT').
  assert (HGx : GC (canon st') x).
  { destruct (Inv_elim T st' HI') as (hb & bb & Hh & HG' & _). rewrite Hhead in *.
    unfold CanonicalProofs.hdr_ok in Hh, Hx. cbn [fst snd] in Hh. rewrite Hx in Hh. inversion Hh; subst hb.
    destruct x; exact HG'. }
  assert (HNx : forall n, hnum x < n -> canon st' n = None).
  { intros n Hn. apply HT'. rewrite Hhead, (num_of_ok T x Hx). exact Hn. }
  unfold write_known_block, reorg_if_needed in H.
  destruct (Inv_cur T Hwf st HI) as (cb & Hcur & Hcok & HGc).
  assert (Hnumh : num_of T (hd_header st) = hnum (hd_block st, cb))
    by (rewrite <- HE; apply (num_of_ok T (hd_block st, cb)); auto).
  assert (HTc : forall n, hnum (hd_block st, cb) < n -> canon st n = None)
    by (intros n Hn; apply HT; now rewrite Hnumh).
  destruct (N.eqb_spec (b_parent (snd x)) (hd_block st)) as [E|E].
  - assert (Hh : hnum (hd_block st, cb) < hnum x).
    { destruct (wf_parent T Hwf x Hx) as [E0|(p & Hpo & _ & Hnum)].
      + exfalso. pose proof (wf_zero T Hwf x Hx E0) as Ef. destruct x as [h b]. cbn [fst snd] in *.
        unfold CanonicalProofs.hdr_ok in Hx, Hcok. cbn in Hx, Hcok. rewrite Ef in Hx.
        pose proof (Hgp _ Hx) as Hnone. rewrite E in Hnone. congruence.
      + unfold CanonicalProofs.hdr_ok in Hpo, Hcok. cbn [fst snd] in *. rewrite E in Hpo. rewrite Hpo in Hcok.
        inversion Hcok; subst. unfold hnum in *. cbn [snd] in *. lia. }
    destruct (write_head_block fuel st x) as [st2|] eqn:EW; [|discriminate]. inversion H; subst.
    eapply whb_LC; eauto. unfold whb_replaces. now rewrite (HTc _ Hh).
  - rewrite Hcur in H.
    destruct (reorg T fuel st (hd_block st, cb) x) as [[st1 ev1]|] eqn:ER; [|discriminate].
    destruct (write_head_block fuel st1 x) as [st2|] eqn:EW; [|discriminate]. inversion H; subst.
    pose proof (reorg_LC _ _ _ _ _ _ ER Hcok Hx HGc HTc HL) as HL1.
    destruct (reorg_GC_top T _ _ _ _ _ _ ER Hcok Hx HGc (GC_closed T Hwf Hgp _ _ Hcok HGc HTc))
      as (p & HGp & Hpo & Hcase & Habove).
    eapply whb_LC; eauto. unfold whb_replaces. destruct Hcase as [->|(_ & _ & Hnum)].
    + rewrite HGp by lia. rewrite (anc_self T x Hx). now rewrite N.eqb_refl.
    + rewrite Habove by lia. reflexivity.
Qed.

Lemma wbws_lookup : forall st x st1, write_block_with_state st x = Ok st1 -> lookup st1 = lookup st.
Proof.
  intros st x st1 H. unfold write_block_with_state in H.
  destruct (negb (is_known st (b_parent (snd x))) && negb (hnum x =? 0)); [discriminate|].
  inversion H; subst. cbn. unfold add_known. destruct (is_known st (fst x)); reflexivity.
Qed.
Lemma add_known_lookup : forall st h, lookup (add_known st h) = lookup st.
Proof. intros. unfold add_known. destruct (is_known st h); reflexivity. Qed.

Lemma LInv_wbws : forall st x st1, LInv st -> write_block_with_state st x = Ok st1 -> LInv st1.
Proof.
  intros st x st1 (HS & HL) H. split; [eapply Strict2_wbws; eauto|].
  destruct (wbws_core _ _ _ H) as (E1 & _). now rewrite E1, (wbws_lookup _ _ _ H).
Qed.
Lemma LInv_addk : forall st h, LInv st -> LInv (add_known st h).
Proof.
  intros st h (HS & HL). split; [now apply Strict2_addk|].
  destruct (add_known_core st h) as (E1 & _). now rewrite E1, add_known_lookup.
Qed.
Lemma LInv_rcpt : forall st h, LInv st ->
  LInv (mkdb (known st) (upd (rcpt st) h true) (avail st) (disk st) (canon st) (lookup st)
             (hd_block st) (hd_header st) (hd_snap st)).
Proof. intros st h H. exact H. Qed.
Lemma LInv_wkb : forall fuel st x st' ev, LInv st -> hdr_ok x -> is_known st (fst x) = true ->
  write_known_block T fuel st x = Ok (st', ev) -> LInv st'.
Proof.
  intros fuel st x st' ev HL Hx Hk H. split; [|split; [eapply LS_wkb; eauto | eapply LC_wkb; eauto; apply HL]].
  destruct HL as (HS & _). eapply Strict2_wkb; eauto.
Qed.

Lemma restart_lookup : forall fuel st st' ev e, restart T fuel st = (st', ev, e) -> lookup st' = lookup st.
Proof.
  intros fuel st st' ev e H. unfold restart in H.
  destruct (cur_hdr T st) as [cb|]; [|inversion H; subst; auto].
  destruct (T 0) as [gb|]; [|inversion H; subst; auto].
  cbv zeta in H.
  match type of H with context [if avail ?s1 (hd_block ?s1) then _ else _] => set (st1 := s1) in * end.
  destruct (avail st1 (hd_block st1)); [inversion H; subst; auto|].
  destruct (rewind T fuel st1 (0, gb) cb) as [nh|]; inversion H; subst; auto.
Qed.

Lemma step_LInv : forall fuel st o st' ev e, not_set_head o ->
  step T fuel st o = (st', ev, e) -> LInv st -> hd_block st' = hd_header st' -> LInv st'.
Proof.
  intros fuel st o st' ev e Ho H HL HE. destruct o as [l|h|h|n|] eqn:EO; cbn in Ho; try tauto.
  - eapply (step_import_gen T LInv LInv_wbws LInv_addk LInv_rcpt LInv_wkb); eauto; exact I.
  - eapply (step_import_gen T LInv LInv_wbws LInv_addk LInv_rcpt LInv_wkb); eauto; exact I.
  - eapply (step_import_gen T LInv LInv_wbws LInv_addk LInv_rcpt LInv_wkb); eauto; exact I.
  - destruct HL as (HS & HLS). split; [eapply (step_strict2 T Hwf Hgp); eauto|].
    cbn [step] in H. destruct (restart_canon T Hgp _ _ _ _ _ H) as (E1 & _).
    now rewrite E1, (restart_lookup _ _ _ _ _ H).
Qed.

(* completeness alone also survives SetHead (entries are never deleted there) *)
Definition CInv (st : db) : Prop := Strict2 T st /\ LC (canon st) (lookup st).

Lemma CInv_wbws : forall st x st1, CInv st -> write_block_with_state st x = Ok st1 -> CInv st1.
Proof.
  intros st x st1 (HS & HL) H. split; [eapply Strict2_wbws; eauto|].
  destruct (wbws_core _ _ _ H) as (E1 & _). now rewrite E1, (wbws_lookup _ _ _ H).
Qed.
Lemma CInv_addk : forall st h, CInv st -> CInv (add_known st h).
Proof.
  intros st h (HS & HL). split; [now apply Strict2_addk|].
  destruct (add_known_core st h) as (E1 & _). now rewrite E1, add_known_lookup.
Qed.
Lemma CInv_rcpt : forall st h, CInv st ->
  CInv (mkdb (known st) (upd (rcpt st) h true) (avail st) (disk st) (canon st) (lookup st)
             (hd_block st) (hd_header st) (hd_snap st)).
Proof. intros st h H. exact H. Qed.
Lemma CInv_wkb : forall fuel st x st' ev, CInv st -> hdr_ok x -> is_known st (fst x) = true ->
  write_known_block T fuel st x = Ok (st', ev) -> CInv st'.
Proof.
  intros fuel st x st' ev (HS & HL) Hx Hk H. split; [eapply Strict2_wkb; eauto | eapply LC_wkb; eauto].
Qed.

Lemma set_head_loop_lookup : forall fuel st g target origin dels st' dels',
  set_head_loop T fuel st g target origin dels = Ok (st', dels') -> lookup st' = lookup st.
Proof.
  induction fuel as [|f IH]; intros st g target origin dels st' dels' H; [discriminate|].
  cbn [set_head_loop] in H. destruct (T (hd_header st)) as [hb|]; [|discriminate].
  destruct (b_number hb <=? target); [now inversion H|].
  match type of H with context [match ?X with Err e => Err e | Ok nb => _ end] =>
    destruct X as [nb|]; [|discriminate] end.
  match type of H with context [match ?X with None => Err EOutOfFuel | Some up => _ end] =>
    destruct X as [up|]; [|discriminate] end.
  apply IH in H. exact H.
Qed.

Lemma set_head_LC : forall fuel st target st' ev e, set_head T fuel st target = (st', ev, e) ->
  Inv T st -> LC (canon st) (lookup st) -> LC (canon st') (lookup st').
Proof.
  intros fuel st target st' ev e H HI HL. unfold set_head in H.
  remember (T 0) as t0 eqn:EG in H. symmetry in EG.
  destruct t0 as [gb|]; [|inversion H; subst; auto].
  destruct (set_head_loop T fuel st (0, gb) target true []) as [[st1 dels]|] eqn:EL; [|inversion H; subst; auto].
  destruct (set_head_loop_inv T Hwf _ _ _ _ _ _ _ _ EL HI (genesis_is T Hwf _ EG)) as (_ & EC1 & _); [intros d []|].
  pose proof (set_head_loop_lookup _ _ _ _ _ _ _ _ EL) as EL1.
  assert (Est : st' = delete_heights T st1 dels).
  { destruct (negb (is_known (delete_heights T st1 dels) (hd_block (delete_heights T st1 dels))));
      inversion H; subst; auto. }
  subst st'. intros n h b tx Hc Hb Hin. cbn [delete_heights canon lookup] in *.
  destruct (mem n dels); [discriminate|]. rewrite EL1. eapply HL; eauto. now rewrite <- EC1.
Qed.

Lemma step_CInv : forall fuel st o st' ev e,
  step T fuel st o = (st', ev, e) -> CInv st -> hd_block st' = hd_header st' -> CInv st'.
Proof.
  intros fuel st o st' ev e H HC HE. destruct o as [l|h|h|n|] eqn:EO.
  - eapply (step_import_gen T CInv CInv_wbws CInv_addk CInv_rcpt CInv_wkb); eauto; exact I.
  - eapply (step_import_gen T CInv CInv_wbws CInv_addk CInv_rcpt CInv_wkb); eauto; exact I.
  - eapply (step_import_gen T CInv CInv_wbws CInv_addk CInv_rcpt CInv_wkb); eauto; exact I.
  - destruct HC as (HS & HL). split; [eapply (step_strict2 T Hwf Hgp); eauto|].
    cbn [step] in H. eapply set_head_LC; eauto. apply HS.
  - destruct HC as (HS & HL). split; [eapply (step_strict2 T Hwf Hgp); eauto|].
    cbn [step] in H. destruct (restart_canon T Hgp _ _ _ _ _ H) as (E1 & _).
    now rewrite E1, (restart_lookup _ _ _ _ _ H).
Qed.

Lemma CInv_genesis : CInv genesis_db.
Proof.
  split; [apply (Strict2_genesis T Hwf)|].
  intros n h b tx Hc Hb Hin. cbn in Hc. destruct (n =? 0); inversion Hc; subst.
  exfalso. exact (Hg_notx b Hb tx Hin).
Qed.

Lemma LInv_genesis : LInv genesis_db.
Proof.
  split; [apply (Strict2_genesis T Hwf)|]. split; [intros tx n H; discriminate|].
  intros n h b tx Hc Hb Hin. cbn in Hc. destruct (n =? 0); inversion Hc; subst.
  exfalso. (* the genesis block carries no transaction: required of the tree *)
  exact (Hg_notx b Hb tx Hin).
Qed.

Lemma run_LInv : forall fuel ops st, Forall not_set_head ops -> heads_equal_along T fuel st ops ->
  LInv st -> LInv (run T fuel st ops).
Proof.
  induction ops as [|o r IH]; intros st HF HE HS; cbn; auto.
  inversion HF; subst. cbn in HE. destruct HE as (HE1 & HEr).
  apply IH; auto. destruct (step T fuel st o) as [[st1 ev] e] eqn:ES. cbn in *. eapply step_LInv; eauto.
Qed.

End Index.
