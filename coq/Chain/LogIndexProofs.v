(* Chain/LogIndexProofs.v — lemmas about Chain/LogIndex.v (the log index model). *)
From GV Require Import Lib.Tactics Chain.LogIndex.
From Coq Require Import Sorting.Sorted.
Local Open Scope N_scope.

(* ------------------------------------------------------------------ *)
(* pure list / sorting lemmas (outside the section)                     *)

Definition ssorted (l : list N) : Prop := StronglySorted N.lt l.

Lemma ssorted_cons_inv x l : ssorted (x :: l) -> ssorted l /\ forall y, In y l -> x < y.
Proof.
  intros H. inversion H as [|a b Hs Hf]; subst. split; [exact Hs|].
  intros y Hy. rewrite Forall_forall in Hf. exact (Hf y Hy).
Qed.

Lemma ssorted_cons x l : ssorted l -> (forall y, In y l -> x < y) -> ssorted (x :: l).
Proof. intros Hs Hf. constructor; [exact Hs|]. apply Forall_forall. exact Hf. Qed.

Lemma ins_sorted_In x y l : In y (ins_sorted x l) <-> y = x \/ In y l.
Proof.
  induction l as [|a l IH]; simpl.
  - split; [intros [H|[]]; auto | intros [H|[]]; auto].
  - destruct (x <? a) eqn:E1.
    + simpl. split; [intros [H|[H|H]]; auto | intros [H|[H|H]]; auto].
    + destruct (x =? a) eqn:E2.
      * apply N.eqb_eq in E2. subst a. simpl. split; [intros [H|H]; auto | intros [H|[H|H]]; auto].
      * simpl. rewrite IH. split; [intros [H|[H|H]]; auto | intros [H|[H|H]]; auto].
Qed.

Lemma ins_sorted_sorted x l : ssorted l -> ssorted (ins_sorted x l).
Proof.
  induction l as [|a l IH]; simpl; intros Hs.
  - apply ssorted_cons; [constructor | intros y []].
  - destruct (ssorted_cons_inv _ _ Hs) as [Hl Ha].
    destruct (x <? a) eqn:E1.
    + apply ssorted_cons; [exact Hs|]. intros y [Hy|Hy]; [subst; lia|]. specialize (Ha y Hy). lia.
    + destruct (x =? a) eqn:E2; [exact Hs|].
      apply ssorted_cons; [apply IH; exact Hl|].
      intros y Hy. apply ins_sorted_In in Hy. destruct Hy as [Hy|Hy]; [subst; lia | apply Ha; exact Hy].
Qed.

Lemma sort_dedup_In y l : In y (sort_dedup l) <-> In y l.
Proof.
  induction l as [|a l IH]; simpl; [tauto|].
  rewrite ins_sorted_In, IH. split; [intros [H|H]; auto | intros [H|H]; auto].
Qed.

Lemma sort_dedup_sorted l : ssorted (sort_dedup l).
Proof. induction l as [|a l IH]; simpl; [constructor | apply ins_sorted_sorted; exact IH]. Qed.

(* two strictly sorted lists with the same elements are equal *)
Lemma ssorted_ext l1 : forall l2, ssorted l1 -> ssorted l2 -> (forall x, In x l1 <-> In x l2) -> l1 = l2.
Proof.
  induction l1 as [|a l1 IH]; intros l2 H1 H2 Hx.
  - destruct l2 as [|b l2]; [reflexivity|]. exfalso. apply (Hx b). left; reflexivity.
  - destruct l2 as [|b l2]; [exfalso; apply (Hx a); left; reflexivity|].
    destruct (ssorted_cons_inv _ _ H1) as [H1' Ha]. destruct (ssorted_cons_inv _ _ H2) as [H2' Hb].
    assert (a = b).
    { assert (Ia : In a (b :: l2)) by (apply Hx; left; reflexivity).
      assert (Ib : In b (a :: l1)) by (apply Hx; left; reflexivity).
      destruct Ia as [Ia|Ia]; [congruence|]. destruct Ib as [Ib|Ib]; [congruence|].
      specialize (Ha _ Ib). specialize (Hb _ Ia). lia. }
    subst b. f_equal. apply IH; [exact H1'|exact H2'|].
    intros x. split; intros Hin.
    + assert (I : In x (a :: l2)) by (apply Hx; right; exact Hin).
      destruct I as [I|I]; [|exact I]. subst x. specialize (Ha _ Hin). lia.
    + assert (I : In x (a :: l1)) by (apply Hx; right; exact Hin).
      destruct I as [I|I]; [|exact I]. subst x. specialize (Hb _ Hin). lia.
Qed.

Lemma nth_error_app_l {A} (l l' : list A) p x : nth_error l p = Some x -> nth_error (l ++ l') p = Some x.
Proof.
  intros H. rewrite nth_error_app1; [exact H|]. apply nth_error_Some. congruence.
Qed.

Lemma nth_error_firstn {A} (l : list A) n p x :
  nth_error l p = Some x -> (p < n)%nat -> nth_error (firstn n l) p = Some x.
Proof.
  revert n p. induction l as [|a l IH]; intros n p H Hp; [destruct p; discriminate|].
  destruct n; [lia|]. destruct p; simpl in *; [exact H|]. apply IH; [exact H|lia].
Qed.

(* ------------------------------------------------------------------ *)
Section Proofs.
Variable P : params.
Variable row_hash : N -> nat -> N -> N.
Variable col_index : N -> N -> N.

Notation vpm := (vpm P).
Notation max_row_length := (max_row_length P).
Notation row_index := (row_index P row_hash).
Notation find_layer := (find_layer P row_hash).
Notation insert_value := (insert_value P row_hash col_index).
Notation render_values := (render_values P row_hash col_index).
Notation render_map := (render_map P row_hash col_index).
Notation fetch_row := (fetch_row P).
Notation collect_rows := (collect_rows P row_hash).
Notation row_hits := (row_hits P col_index).
Notation pm_scan := (pm_scan P col_index).
Notation potential_matches := (potential_matches P col_index).
Notation single_match := (single_match P row_hash col_index).

(* THE structural hypothesis on the column hash (math.go columnIndex: the bits above
   hashBits are lvIndex mod valuesPerMap), and the uint32 range of baseRowLength *)
Hypothesis col_high : forall lv v, N.shiftr (col_index lv v) (p_hbits P) = lv mod vpm.
Hypothesis brl_small : p_brl P < two32.

Lemma vpm_pos : 0 < vpm.
Proof. unfold LogIndex.vpm. apply N.neq_0_lt_0. apply N.pow_nonzero. discriminate. Qed.

Lemma max_row_length_0 : max_row_length 0 = p_brl P.
Proof.
  unfold LogIndex.max_row_length, layer_shift. simpl N.of_nat.
  rewrite N.mul_0_l, N.min_0_l, N.shiftl_0_r. apply N.mod_small. exact brl_small.
Qed.

(* [lv] is marked on the map for value [v]: on some layer L all lower-layer rows of v are
   full and the column of (lv, v) sits in the layer-L row below that layer's limit *)
Definition marked (rw : rows) (m lv v : N) : Prop :=
  exists L p,
    (forall i, (i < L)%nat -> max_row_length i <= N.of_nat (length (rw (row_index m i v)))) /\
    nth_error (rw (row_index m L v)) p = Some (col_index lv v) /\
    N.of_nat p < max_row_length L.

(* rows only grow by appending *)
Definition grows (rw rw' : rows) : Prop := forall r, exists s, rw' r = rw r ++ s.

Lemma grows_refl rw : grows rw rw.
Proof. intros r. exists []. rewrite app_nil_r. reflexivity. Qed.

Lemma grows_trans a b c : grows a b -> grows b c -> grows a c.
Proof.
  intros H1 H2 r. destruct (H1 r) as [s1 E1]. destruct (H2 r) as [s2 E2].
  exists (s1 ++ s2). rewrite E2, E1, app_assoc. reflexivity.
Qed.

Lemma marked_grows rw rw' m lv v : marked rw m lv v -> grows rw rw' -> marked rw' m lv v.
Proof.
  intros (L & p & Hfull & Hnth & Hp) Hg. exists L, p. split; [|split].
  - intros i Hi. specialize (Hfull i Hi). destruct (Hg (row_index m i v)) as [s E].
    rewrite E, app_length. lia.
  - destruct (Hg (row_index m L v)) as [s E]. rewrite E. apply nth_error_app_l. exact Hnth.
  - exact Hp.
Qed.

Lemma find_layer_spec fuel rw m v : forall l0 L,
  find_layer fuel rw m v l0 = Some L ->
  (l0 <= L)%nat /\
  (forall i, (l0 <= i < L)%nat -> max_row_length i <= N.of_nat (length (rw (row_index m i v)))) /\
  N.of_nat (length (rw (row_index m L v))) < max_row_length L.
Proof.
  induction fuel as [|f IH]; intros l0 L H; [discriminate|].
  simpl in H. destruct (N.of_nat (length (rw (row_index m l0 v))) <? max_row_length l0) eqn:E.
  - injection H as <-. split; [lia|]. split; [intros i Hi; lia | lia].
  - destruct (IH _ _ H) as (H1 & H2 & H3). split; [lia|]. split; [|exact H3].
    intros i Hi. destruct (Nat.eq_dec i l0) as [->|Hne]; [lia | apply H2; lia].
Qed.

Lemma upd_same rw k x : upd rw k x k = x.
Proof. unfold upd. rewrite N.eqb_refl. reflexivity. Qed.
Lemma upd_other rw k x k' : k' <> k -> upd rw k x k' = rw k'.
Proof. intros H. unfold upd. apply N.eqb_neq in H. rewrite H. reflexivity. Qed.

Lemma upd_grows rw k c : grows rw (upd rw k (rw k ++ [c])).
Proof.
  intros r. destruct (N.eq_dec r k) as [->|Hne].
  - exists [c]. apply upd_same.
  - exists []. rewrite upd_other by exact Hne. rewrite app_nil_r. reflexivity.
Qed.

Lemma insert_value_marked fuel rw m lv v rw' :
  insert_value fuel rw m lv v = Some rw' -> marked rw' m lv v /\ grows rw rw'.
Proof.
  unfold LogIndex.insert_value. intros H.
  destruct (find_layer fuel rw m v 0) as [L|] eqn:EL; [|discriminate].
  injection H as <-. split; [|apply upd_grows].
  destruct (find_layer_spec _ _ _ _ _ _ EL) as (_ & Hfull & Hlen).
  exists L, (length (rw (row_index m L v))). split; [|split].
  - intros i Hi. specialize (Hfull i ltac:(lia)).
    destruct (upd_grows rw (row_index m L v) (col_index lv v) (row_index m i v)) as [s E].
    rewrite E, app_length. lia.
  - rewrite upd_same. rewrite nth_error_app2 by lia. rewrite Nat.sub_diag. reflexivity.
  - exact Hlen.
Qed.

Lemma render_values_marked fuel m : forall vals rw rw',
  render_values fuel rw m vals = Some rw' ->
  grows rw rw' /\ forall lv v, In (lv, v) vals -> marked rw' m lv v.
Proof.
  induction vals as [|[lv0 v0] vals IH]; intros rw rw' H; simpl in H.
  - injection H as <-. split; [apply grows_refl | intros ? ? []].
  - destruct (insert_value fuel rw m lv0 v0) as [rw1|] eqn:E1; [|discriminate].
    destruct (insert_value_marked _ _ _ _ _ _ E1) as [Hm Hg1].
    destruct (IH _ _ H) as [Hg2 Hall]. split; [eapply grows_trans; eassumption|].
    intros lv v [Heq|Hin].
    + injection Heq as <- <-. eapply marked_grows; eassumption.
    + apply Hall. exact Hin.
Qed.

(* every value of the map is marked on the rendered map *)
Lemma render_map_marked fuel vals m rw lv v :
  render_map fuel vals m = Some rw -> In (lv, v) vals -> lv / vpm = m -> marked rw m lv v.
Proof.
  unfold LogIndex.render_map. intros H Hin Hm.
  destruct (render_values_marked _ _ _ _ _ H) as [_ Hall]. apply Hall.
  unfold map_values. apply filter_In. split; [exact Hin|]. simpl. apply N.eqb_eq. exact Hm.
Qed.

(* --- the matcher side --- *)

Lemma row_hits_In mapFirst v lv : forall row,
  In (col_index lv v) row -> mapFirst + lv mod vpm = lv -> In lv (row_hits mapFirst v row).
Proof.
  induction row as [|c row IH]; intros Hin Hlv; [destruct Hin|].
  simpl. destruct Hin as [Hc|Hin].
  - subst c. rewrite col_high, Hlv, N.eqb_refl. left. reflexivity.
  - destruct (c =? col_index (mapFirst + N.shiftr c (p_hbits P)) v); [right|]; apply IH; assumption.
Qed.

(* every hit lies in the map's index range *)
Lemma row_hits_range mapFirst v x : forall row,
  In x (row_hits mapFirst v row) -> exists k, x = mapFirst + k /\ k < vpm.
Proof.
  induction row as [|c row IH]; intros Hin; [destruct Hin|].
  simpl in Hin. destruct (c =? col_index (mapFirst + N.shiftr c (p_hbits P)) v) eqn:E; [|apply IH; exact Hin].
  destruct Hin as [Hx|Hin]; [|apply IH; exact Hin].
  apply N.eqb_eq in E. exists (N.shiftr c (p_hbits P)). split; [symmetry; exact Hx|].
  rewrite E at 1. rewrite col_high. apply N.mod_lt. pose proof vpm_pos. lia.
Qed.

Lemma fetch_row_length rw r layer :
  (length (fetch_row rw r layer) <= length (rw r))%nat.
Proof. destruct layer; simpl; [rewrite firstn_length; lia | lia]. Qed.

Lemma fetch_row_full rw r layer :
  max_row_length layer <= N.of_nat (length (rw r)) ->
  max_row_length layer <= N.of_nat (length (fetch_row rw r layer)).
Proof.
  destruct layer; simpl; [|auto]. rewrite max_row_length_0, firstn_length. lia.
Qed.

Lemma fetch_row_nth rw r layer p c :
  nth_error (rw r) p = Some c -> N.of_nat p < max_row_length layer ->
  nth_error (fetch_row rw r layer) p = Some c.
Proof.
  destruct layer; simpl; [|auto]. rewrite max_row_length_0. intros H Hp.
  apply nth_error_firstn; [exact H | lia].
Qed.

Lemma collect_rows_nonempty fuel rw m v : forall l0 rws,
  collect_rows fuel rw m v l0 = Some rws -> rws <> [].
Proof.
  destruct fuel as [|f]; intros l0 rws H; [discriminate|]. simpl in H.
  destruct (N.of_nat (length (fetch_row rw (row_index m l0 v) l0)) <? max_row_length l0).
  - injection H as <-. discriminate.
  - destruct (collect_rows f rw m v (S l0)); [injection H as <-; discriminate | discriminate].
Qed.

(* the rows handed to potentialMatches always end with a non-full row: no panic *)
Lemma collect_rows_no_panic fuel rw m v mapFirst v' : forall l0 rws,
  collect_rows fuel rw m v l0 = Some rws -> pm_scan rws l0 mapFirst v' <> None.
Proof.
  induction fuel as [|f IH]; intros l0 rws H; [discriminate|]. simpl in H.
  destruct (N.of_nat (length (fetch_row rw (row_index m l0 v) l0)) <? max_row_length l0) eqn:E.
  - injection H as <-. simpl. rewrite E. discriminate.
  - destruct (collect_rows f rw m v (S l0)) as [rs|] eqn:E2; [|discriminate].
    injection H as <-. simpl. rewrite E.
    pose proof (collect_rows_nonempty _ _ _ _ _ _ E2) as Hne.
    specialize (IH _ _ E2). destruct rs as [|r0 rs']; [congruence|].
    destruct (pm_scan (r0 :: rs') (S l0) mapFirst v'); [discriminate | congruence].
Qed.

Lemma collect_scan_complete fuel rw m v lv L p :
  (forall i, (i < L)%nat -> max_row_length i <= N.of_nat (length (rw (row_index m i v)))) ->
  nth_error (rw (row_index m L v)) p = Some (col_index lv v) ->
  N.of_nat p < max_row_length L ->
  m * vpm + lv mod vpm = lv ->
  forall l0 rws h, (l0 <= L)%nat ->
  collect_rows fuel rw m v l0 = Some rws -> pm_scan rws l0 (m * vpm) v = Some h -> In lv h.
Proof.
  intros Hfull Hnth Hp Hlv.
  induction fuel as [|f IH]; intros l0 rws h Hl0 Hc Hs; [discriminate|].
  simpl in Hc.
  set (row := fetch_row rw (row_index m l0 v) l0) in *.
  destruct (Nat.eq_dec l0 L) as [->|Hne].
  - (* the layer where the value was marked *)
    assert (Hrow : nth_error row p = Some (col_index lv v)) by (apply fetch_row_nth; assumption).
    assert (Hhit : In lv (row_hits (m * vpm) v
               (firstn (N.to_nat (N.min (N.of_nat (length row)) (max_row_length L))) row))).
    { apply row_hits_In; [|exact Hlv].
      apply nth_error_In with (n := p). apply nth_error_firstn; [exact Hrow|].
      assert (p < length row)%nat by (apply nth_error_Some; congruence). lia. }
    destruct (N.of_nat (length row) <? max_row_length L) eqn:E.
    + injection Hc as <-. simpl in Hs. fold row in Hs. rewrite E in Hs. injection Hs as <-. exact Hhit.
    + destruct (collect_rows f rw m v (S L)) as [rs|] eqn:E2; [|discriminate].
      injection Hc as <-. simpl in Hs. fold row in Hs. rewrite E in Hs.
      destruct rs as [|r0 rs']; [discriminate|].
      destruct (pm_scan (r0 :: rs') (S L) (m * vpm) v); [|discriminate].
      injection Hs as <-. apply in_or_app. left. exact Hhit.
  - (* a lower layer: the row is full, the matcher goes on *)
    assert (Hf : max_row_length l0 <= N.of_nat (length row)).
    { apply fetch_row_full. apply Hfull. lia. }
    destruct (N.of_nat (length row) <? max_row_length l0) eqn:E; [lia|].
    destruct (collect_rows f rw m v (S l0)) as [rs|] eqn:E2; [|discriminate].
    injection Hc as <-. simpl in Hs. fold row in Hs. rewrite E in Hs.
    destruct rs as [|r0 rs']; [discriminate|].
    destruct (pm_scan (r0 :: rs') (S l0) (m * vpm) v) as [h'|] eqn:E3; [|discriminate].
    injection Hs as <-. apply in_or_app. right.
    apply (IH (S l0) (r0 :: rs') h'); [lia | exact E2 | exact E3].
Qed.

Lemma in_map_decomp lv m : lv / vpm = m -> m * vpm + lv mod vpm = lv.
Proof. intros <-. pose proof vpm_pos. rewrite N.mul_comm. symmetry. apply N.div_mod. lia. Qed.

(* potential_matches_complete, on the rows of one map *)
Lemma single_match_complete fuel rw m lv v l :
  marked rw m lv v -> lv / vpm = m -> single_match fuel rw m v = Some l -> In lv l.
Proof.
  intros (L & p & Hfull & Hnth & Hp) Hm H. unfold LogIndex.single_match in H.
  destruct (collect_rows fuel rw m v 0) as [rws|] eqn:Ec; [|discriminate].
  unfold LogIndex.potential_matches in H.
  destruct (pm_scan rws 0 (m * vpm) v) as [h|] eqn:Es; [|discriminate].
  injection H as <-. apply sort_dedup_In.
  eapply collect_scan_complete; try eassumption; [apply in_map_decomp; exact Hm | lia].
Qed.

Theorem potential_matches_complete fuel fuel' vals m rw lv v l :
  render_map fuel vals m = Some rw -> In (lv, v) vals -> lv / vpm = m ->
  single_match fuel' rw m v = Some l -> In lv l.
Proof.
  intros Hr Hin Hm Hs. eapply single_match_complete; [|exact Hm|exact Hs].
  eapply render_map_marked; eassumption.
Qed.

(* the matcher never hits potentialMatches' panic *)
Lemma single_match_no_panic fuel rw m v rws :
  collect_rows fuel rw m v 0 = Some rws -> potential_matches rws m v <> None.
Proof.
  intros H. unfold LogIndex.potential_matches.
  pose proof (collect_rows_no_panic _ _ _ _ (m * vpm) v _ _ H) as Hn.
  destruct (pm_scan rws 0 (m * vpm) v); [discriminate | congruence].
Qed.

(* results of a single matcher: strictly sorted, within the map *)
Lemma pm_scan_range mapFirst v x : forall rws l0 h,
  pm_scan rws l0 mapFirst v = Some h -> In x h -> exists k, x = mapFirst + k /\ k < vpm.
Proof.
  induction rws as [|row rest IH]; intros l0 h H Hin; simpl in H.
  - injection H as <-. destruct Hin.
  - destruct (N.of_nat (length row) <? max_row_length l0).
    + injection H as <-. eapply row_hits_range. exact Hin.
    + destruct rest as [|r0 rest']; [discriminate|].
      destruct (pm_scan (r0 :: rest') (S l0) mapFirst v) as [h'|] eqn:E; [|discriminate].
      injection H as <-. apply in_app_or in Hin. destruct Hin as [Hin|Hin].
      * eapply row_hits_range. exact Hin.
      * eapply IH; eassumption.
Qed.

Definition in_map (m : N) (l : list N) : Prop := forall x, In x l -> x / vpm = m.

Lemma single_match_ok fuel rw m v l :
  single_match fuel rw m v = Some l -> ssorted l /\ in_map m l.
Proof.
  unfold LogIndex.single_match, LogIndex.potential_matches. intros H.
  destruct (collect_rows fuel rw m v 0) as [rws|]; [|discriminate].
  destruct (pm_scan rws 0 (m * vpm) v) as [h|] eqn:Es; [|discriminate].
  injection H as <-. split; [apply sort_dedup_sorted|].
  intros x Hx. apply (proj1 (sort_dedup_In _ _)) in Hx.
  destruct (pm_scan_range _ _ _ _ _ _ Es Hx) as (k & -> & Hk).
  symmetry. apply (N.div_unique _ _ m k); [exact Hk | lia].
Qed.

End Proofs.
