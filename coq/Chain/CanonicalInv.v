(* Chain/CanonicalInv.v — the canonical-index invariant of Chain/Canonical.v is
   preserved by InsertChain / InsertBlockWithoutSetHead / SetCanonical (C38). *)
From Coq Require Import List NArith Bool Lia.
From GV Require Import Lib.Tactics Chain.Tree Chain.Canonical Chain.CanonicalProofs.
Import ListNotations.
Local Open Scope N_scope.

Section Inv.
Variable T : tree.
Hypothesis Hwf : wf_tree T.

Notation hdr_ok := (hdr_ok T).
Notation GC := (GC T).

Lemma wf_parent : forall x, hdr_ok x -> hnum x = 0 \/
  exists p, parent_of T x (b_parent (snd x), p).
Proof.
  intros [h b] Hx. destruct Hwf as (_ & W). destruct (W h b Hx) as [[E _]|(Hpos & p & Hp & Hn)].
  - now left.
  - right. exists p. repeat split; auto.
Qed.

Lemma anc_down : forall d x k h, hdr_ok x -> N.to_nat (hnum x - k) = d -> k <= hnum x ->
  anc T (fst x) k = Some h ->
  exists bh, T h = Some bh /\ b_number bh = k /\ forall n, n <= k -> anc T h n = anc T (fst x) n.
Proof.
  induction d as [|d IH]; intros x k h Hx Hd Hk Ha.
  - assert (k = hnum x) by lia. subst k. rewrite anc_self in Ha by auto. inversion Ha; subst h.
    exists (snd x). repeat split; auto.
  - destruct (wf_parent x Hx) as [E0|(p & Hp)]; [lia|].
    pose proof Hp as (Hpo & _ & Hnum).
    rewrite (anc_parent T x _ k Hx Hp) in Ha by lia.
    destruct (IH _ k h Hpo) as (bh & Hb & Hbn & Hall); auto; [unfold hnum in *; cbn [snd] in *; lia|lia|].
    exists bh. repeat split; auto. intros n Hn. rewrite Hall by auto.
    symmetry. apply anc_parent; auto. lia.
Qed.

(* the invariant: the index is parent-linked up to the head header, which it
   names at its own height; the head block lies on that chain *)
Definition Inv (st : db) : Prop :=
  exists hb bb, T (hd_header st) = Some hb /\ T (hd_block st) = Some bb /\
    GC (canon st) (hd_header st, hb) /\ b_number bb <= b_number hb /\
    anc T (hd_header st) (b_number bb) = Some (hd_block st).

Lemma Inv_core : forall st st', canon st' = canon st -> hd_header st' = hd_header st ->
  hd_block st' = hd_block st -> Inv st -> Inv st'.
Proof. intros st st' E1 E2 E3 (hb & bb & H). exists hb, bb. now rewrite E1, E2, E3. Qed.

Lemma Inv_cur : forall st, Inv st ->
  exists cb, cur_hdr T st = Some (hd_block st, cb) /\ hdr_ok (hd_block st, cb) /\
             GC (canon st) (hd_block st, cb).
Proof.
  intros st (hb & bb & Hh & Hb & HG & Hle & Ha). exists bb. unfold cur_hdr. rewrite Hb.
  repeat split; auto. intros n Hn. unfold hnum in Hn. cbn [snd fst] in *.
  rewrite HG by (unfold hnum; cbn; lia). cbn [fst].
  destruct (anc_down _ (hd_header st, hb) (b_number bb) (hd_block st) Hh eq_refl) as (bh & Hbh & _ & Hall); auto.
  symmetry. apply Hall. auto.
Qed.

Lemma Inv_after_write : forall fuel st x st' p, write_head_block fuel st x = Some st' ->
  hdr_ok x -> GC (canon st) p ->
  (p = x \/ parent_of T x p \/ hnum x = 0) -> Inv st'.
Proof.
  intros fuel st [h b] st' p HW Hx HG Hc. exists b, b.
  destruct (whb_spec _ _ _ _ HW) as (c1 & _ & _ & _ & Eb & Eh & _). rewrite Eb, Eh. cbn [fst].
  split; [exact Hx|]. split; [exact Hx|]. split; [|split].
  - eapply (GC_whb T); eauto.
  - lia.
  - apply (anc_self T (h, b)); auto.
Qed.

Lemma wkb_inv : forall fuel st x st' ev, Inv st -> hdr_ok x ->
  write_known_block T fuel st x = Ok (st', ev) -> Inv st'.
Proof.
  intros fuel st x st' ev HI Hx H. unfold write_known_block, reorg_if_needed in H.
  destruct (Inv_cur st HI) as (cb & Hcur & Hcok & HGc).
  destruct (N.eqb_spec (b_parent (snd x)) (hd_block st)) as [E|E].
  - destruct (write_head_block fuel st x) as [st2|] eqn:EW; [|discriminate]. inversion H; subst.
    apply (Inv_after_write _ _ _ _ (hd_block st, cb) EW); auto.
    destruct (wf_parent x Hx) as [E0|(p & Hp)]; auto.
    right; left. destruct Hp as (Hpo & Hf & Hn). unfold CanonicalProofs.hdr_ok in Hpo, Hcok.
    cbn [fst snd] in *. rewrite E in Hpo. rewrite Hpo in Hcok. inversion Hcok; subst.
    repeat split; auto; try (unfold CanonicalProofs.hdr_ok; cbn; congruence).
  - rewrite Hcur in H.
    destruct (reorg T fuel st (hd_block st, cb) x) as [[st1 ev1]|] eqn:ER; [|discriminate].
    destruct (write_head_block fuel st1 x) as [st2|] eqn:EW; [|discriminate]. inversion H; subst.
    destruct (reorg_GC T _ _ _ _ _ _ ER Hcok Hx HGc) as (p & HGp & Hpo & Hcase & _).
    apply (Inv_after_write _ _ _ _ p EW); auto. tauto.
Qed.

Lemma skip_known_ok : forall st cn l first l' f', skip_known st cn first l = (l', f') ->
  Forall hdr_ok l -> Forall hdr_ok l'.
Proof.
  induction l as [|x r IH]; intros first l' f' H HF; cbn in H.
  - inversion H; auto.
  - destruct (is_CKnown (classify st first x)).
    + destruct ((cn <? hnum x) || negb (oeqb (canon st (hnum x)) (fst x))).
      * inversion H; subst; auto.
      * inversion HF; subst. eapply IH; eauto.
    + inversion H; subst; auto.
Qed.

Lemma stateless_walk_ok : forall fuel st x acc r acc',
  stateless_walk T fuel st x acc = Some (r, acc') ->
  (forall h, x = Some h -> hdr_ok h) -> Forall hdr_ok acc -> Forall hdr_ok acc'.
Proof.
  induction fuel as [|f IH]; intros st x acc r acc' H Hx HF; [discriminate|].
  cbn in H. destruct x as [h|]; [|inversion H; subst; auto].
  destruct (avail st (fst h)); [inversion H; subst; auto|].
  eapply IH; eauto.
  - intros p Hp. apply parent_hdr_spec in Hp. apply Hp.
  - apply Forall_app; split; auto.
Qed.

Lemma Forall_rev' : forall A (P : A -> Prop) l, Forall P l -> Forall P (rev l).
Proof. intros. apply Forall_forall. intros x Hx. apply in_rev in Hx. eapply Forall_forall; eauto. Qed.

Lemma resolve_all_ok : forall l hs, resolve_all T l = Some hs -> Forall hdr_ok hs.
Proof.
  induction l as [|h r IH]; intros hs H; cbn in H.
  - inversion H; constructor.
  - destruct (T h) as [b|] eqn:ET; [|discriminate].
    destruct (resolve_all T r) as [r'|]; [|discriminate]. inversion H; subst.
    constructor; auto.
Qed.

Lemma get_by_hash_ok : forall st h x, get_by_hash T st h = Some x -> hdr_ok x.
Proof.
  intros st h x H. unfold get_by_hash in H. destruct (T h) as [b|] eqn:ET; [|discriminate].
  destruct (is_known st h); inversion H; subst. exact ET.
Qed.

(* the operations covered by the proof: everything but SetHead and restart *)
Definition import_op (o : op) : Prop :=
  match o with OSetHead _ | ORestart => False | _ => True end.

Lemma wbws_core : forall st x st1, write_block_with_state st x = Ok st1 ->
  canon st1 = canon st /\ hd_header st1 = hd_header st /\ hd_block st1 = hd_block st.
Proof.
  intros st x st1 H. unfold write_block_with_state in H.
  destruct (negb (is_known st (b_parent (snd x))) && negb (hnum x =? 0)); [discriminate|].
  inversion H; subst. cbn. unfold add_known. destruct (is_known st (fst x)); cbn; auto.
Qed.

Lemma add_known_core : forall st h,
  canon (add_known st h) = canon st /\ hd_header (add_known st h) = hd_header st /\
  hd_block (add_known st h) = hd_block st.
Proof. intros. unfold add_known. destruct (is_known st h); cbn; auto. Qed.

Lemma mem_cons_or : forall x a l, mem x (a :: l) = (x =? a) || mem x l.
Proof. reflexivity. Qed.

Lemma add_known_known : forall st h k, is_known st k = true -> is_known (add_known st h) k = true.
Proof.
  intros st h k H. unfold add_known. destruct (is_known st h) eqn:E; auto.
  unfold is_known, mem in *. cbn [known set_known existsb]. rewrite H. apply orb_true_r.
Qed.
Lemma add_known_self : forall st h, is_known (add_known st h) h = true.
Proof.
  intros st h. unfold add_known. destruct (is_known st h) eqn:E; auto.
  unfold is_known, mem. cbn [known set_known existsb]. rewrite N.eqb_refl. reflexivity.
Qed.

Lemma wbws_known : forall st x st1 k, write_block_with_state st x = Ok st1 ->
  (is_known st k = true -> is_known st1 k = true) /\ is_known st1 (fst x) = true.
Proof.
  intros st x st1 k H. unfold write_block_with_state in H.
  destruct (negb (is_known st (b_parent (snd x))) && negb (hnum x =? 0)); [discriminate|].
  inversion H; subst. split.
  - intro Hk. change (is_known (add_known st (fst x)) k = true). now apply add_known_known.
  - change (is_known (add_known st (fst x)) (fst x) = true). apply add_known_self.
Qed.

Lemma classify_known : forall st first x, is_CKnown (classify st first x) = true ->
  is_known st (fst x) = true.
Proof.
  intros st first x H. unfold classify in H.
  destruct (first && negb (is_known st (b_parent (snd x)))); [discriminate|].
  destruct (is_known st (fst x)); auto. cbn in H.
  destruct (is_known st (b_parent (snd x)) && avail st (b_parent (snd x))); [discriminate|].
  destruct (negb (is_known st (b_parent (snd x)))); discriminate.
Qed.

(* reorg touches neither the stored blocks nor their state *)
Lemma reorg_frame : forall fuel st old new st' evs,
  reorg T fuel st old new = Ok (st', evs) -> same_frame st st'.
Proof.
  intros fuel st old new st' evs H. rewrite reorg_unfold in H.
  destruct (reorg_walk T fuel st old new) as [[[c oc] nc]|]; [|discriminate].
  cbv zeta in H.
  destruct (fold_whb fuel (rev (tl nc)) st) as [st1|] eqn:EF; [|discriminate].
  match type of H with context [del_canon_from fuel ?cc ?ii] =>
    destruct (del_canon_from fuel cc ii) as [c'|]; [|discriminate] end.
  inversion H; subst. repeat split; cbn; apply (fold_whb_frame _ _ _ _ EF).
Qed.

Lemma wkb_known : forall fuel st x st' ev, write_known_block T fuel st x = Ok (st', ev) ->
  known st' = known st.
Proof.
  intros fuel st x st' ev H. unfold write_known_block in H.
  destruct (reorg_if_needed T fuel st x) as [[st1 ev1]|] eqn:ER; [|discriminate].
  destruct (write_head_block fuel st1 x) as [st2|] eqn:EW; [|discriminate]. inversion H; subst.
  destruct (whb_spec _ _ _ _ EW) as (_ & _ & _ & (Ek & _) & _). rewrite Ek.
  unfold reorg_if_needed in ER. destruct (b_parent (snd x) =? hd_block st); [inversion ER; subst; auto|].
  destruct (cur_hdr T st) as [cur|]; [|discriminate]. apply (reorg_frame _ _ _ _ _ _ ER).
Qed.

(* ---- the import machinery preserves any predicate preserved by its four
        primitive state changes ---- *)
Section Generic.
Variable P : db -> Prop.
Hypothesis P_wbws : forall st x st1, P st -> write_block_with_state st x = Ok st1 -> P st1.
Hypothesis P_addk : forall st h, P st -> P (add_known st h).
Hypothesis P_rcpt : forall st h, P st ->
  P (mkdb (known st) (upd (rcpt st) h true) (avail st) (disk st) (canon st) (lookup st)
          (hd_block st) (hd_header st) (hd_snap st)).
Hypothesis P_wkb : forall fuel st x st' ev, P st -> hdr_ok x -> is_known st (fst x) = true ->
  write_known_block T fuel st x = Ok (st', ev) -> P st'.

Lemma wbash_gen : forall fuel st x st' ev, P st -> hdr_ok x ->
  write_block_and_set_head T fuel st x = Ok (st', ev) -> P st'.
Proof.
  intros fuel st x st' ev HI Hx H. unfold write_block_and_set_head in H.
  destruct (write_block_with_state st x) as [st1|] eqn:EW; [|discriminate].
  destruct (reorg_if_needed T fuel st1 x) as [[st2 ev2]|] eqn:ER; [|discriminate].
  destruct (write_head_block fuel st2 x) as [st3|] eqn:EH; [|discriminate].
  inversion H; subst.
  apply (P_wkb fuel st1 x _ (ev2 ++ whb_purge (canon st2) x)); eauto.
  - apply (wbws_known _ _ _ 0 EW).
  - unfold write_known_block. now rewrite ER, EH.
Qed.

Lemma write_knowns_gen : forall fuel l st first last evs st' l' f' last' evs' e',
  write_knowns T fuel st first l last evs = (st', l', f', last', evs', e') ->
  P st -> Forall hdr_ok l -> P st' /\ Forall hdr_ok l'.
Proof.
  induction l as [|x r IH]; intros st first last evs st' l' f' last' evs' e' H HI HF; cbn [write_knowns] in H.
  - inversion H; subst; auto.
  - inversion HF as [|? ? Hx Hr]; subst.
    destruct (is_CKnown (classify st first x)) eqn:EC.
    + destruct (write_known_block T fuel st x) as [[st1 ev]|] eqn:EK.
      * eapply IH; eauto. eapply P_wkb; eauto. eapply classify_known; eauto.
      * inversion H; subst; auto.
    + inversion H; subst; auto.
Qed.

Lemma import_loop_gen : forall fuel sh l st first last evs st' last' evs' e',
  import_loop T fuel st sh first l last evs = (st', last', evs', e') ->
  P st -> Forall hdr_ok l -> P st'.
Proof.
  induction l as [|x r IH]; intros st first last evs st' last' evs' e' H HI HF; cbn [import_loop] in H.
  - inversion H; subst; auto.
  - inversion HF as [|? ? Hx Hr]; subst.
    destruct (classify st first x) eqn:EC.
    + destruct sh.
      * destruct (write_block_and_set_head T fuel st x) as [[st1 ev]|] eqn:EW.
        -- eapply IH; eauto. eapply wbash_gen; eauto.
        -- inversion H; subst; auto.
      * destruct (write_block_with_state st x) as [st1|] eqn:EW; inversion H; subst; eauto.
    + assert (HK : is_known st (fst x) = true) by (eapply classify_known; rewrite EC; reflexivity).
      match type of H with context [write_known_block T fuel ?s0 x] => set (st0 := s0) in * end.
      assert (HI0 : P st0 /\ is_known st0 (fst x) = true).
      { subst st0. destruct (b_txs (snd x)); split; auto. }
      destruct HI0 as (HI0 & HK0).
      destruct (write_known_block T fuel st0 x) as [[st1 ev]|] eqn:EK.
      * eapply IH; eauto.
      * inversion H; subst; auto.
    + inversion H; subst; auto.
    + inversion H; subst; auto.
Qed.

Definition pruned_ok (pruned : db -> bool -> list hdr -> outcome) : Prop :=
  forall st sh l st' ev e, pruned st sh l = (st', ev, e) -> P st -> Forall hdr_ok l -> P st'.

Lemma insert_chain_core_gen : forall pruned fuel st sh l st' ev e, pruned_ok pruned ->
  insert_chain_core T pruned fuel st sh l = (st', ev, e) ->
  P st -> Forall hdr_ok l -> P st'.
Proof.
  intros pruned fuel st sh l st' ev e Hpr H HI HF. unfold insert_chain_core in H.
  destruct l as [|x0 l0]; [inversion H; subst; auto|].
  set (cn := match cur_hdr T st with Some c => hnum c | None => 0 end) in *.
  destruct (is_CKnown (classify st true x0)).
  - destruct (skip_known st cn true (x0 :: l0)) as [l1 first1] eqn:ES.
    pose proof (skip_known_ok _ _ _ _ _ _ ES HF) as HF1.
    destruct (write_knowns T fuel st first1 l1 None []) as [[[[[st2 l2] first2] last] evs] e2] eqn:EWK.
    destruct (write_knowns_gen _ _ _ _ _ _ _ _ _ _ _ _ EWK HI HF1) as (HI2 & HF2).
    destruct e2 as [e2|]; [inversion H; subst; auto|].
    destruct l2 as [|x l2']; [inversion H; subst; auto|].
    destruct (classify st2 first2 x).
    + destruct (import_loop T fuel st2 sh first2 (x :: l2') last evs) as [[[st3 last3] ev3] e3] eqn:EI.
      inversion H; subst. eapply import_loop_gen; eauto.
    + destruct (import_loop T fuel st2 sh first2 (x :: l2') last evs) as [[[st3 last3] ev3] e3] eqn:EI.
      inversion H; subst. eapply import_loop_gen; eauto.
    + inversion H; subst; auto.
    + destruct (pruned st2 sh (x :: l2')) as [[st3 ev3] e3] eqn:EP.
      inversion H; subst. eapply Hpr; eauto.
  - destruct (classify st true x0).
    + destruct (import_loop T fuel st sh true (x0 :: l0) None []) as [[[st3 last3] ev3] e3] eqn:EI.
      inversion H; subst. eapply import_loop_gen; eauto.
    + destruct (import_loop T fuel st sh true (x0 :: l0) None []) as [[[st3 last3] ev3] e3] eqn:EI.
      inversion H; subst. eapply import_loop_gen; eauto.
    + inversion H; subst; auto.
    + destruct (pruned st sh (x0 :: l0)) as [[st3 ev3] e3] eqn:EP.
      inversion H; subst. eapply Hpr; eauto.
Qed.

Lemma insert_chain0_gen : forall fuel st sh l st' ev e,
  insert_chain0 T fuel st sh l = (st', ev, e) -> P st -> Forall hdr_ok l -> P st'.
Proof.
  intros. eapply insert_chain_core_gen; eauto.
  intros s b l0 s' ev0 e0 Hp. inversion Hp; subst; auto.
Qed.

Lemma side_write_gen : forall cn l st prev st' prev', side_write st cn l prev = (st', prev') ->
  P st -> Forall hdr_ok l -> (forall h, prev = Some h -> hdr_ok h) ->
  P st' /\ (forall h, prev' = Some h -> hdr_ok h).
Proof.
  induction l as [|x r IH]; intros st prev st' prev' H HI HF Hp; cbn [side_write] in H.
  - inversion H; subst; auto.
  - inversion HF as [|? ? Hx Hr]; subst.
    destruct (classify st false x); try (inversion H; subst; auto; fail).
    assert (Hsx : forall h, Some x = Some h -> hdr_ok h) by (intros h Hh; inversion Hh; subst; auto).
    destruct ((hnum x <=? cn) && oeqb (canon st (hnum x)) (fst x)).
    + apply (IH _ _ _ _ H HI Hr Hsx).
    + refine (IH _ _ _ _ H _ Hr Hsx).
      destruct (is_known st (fst x)); auto. unfold write_block_without_state. auto.
Qed.

Lemma insert_side_chain_gen : forall fuel st l st' ev e,
  insert_side_chain T fuel st l = (st', ev, e) -> P st -> Forall hdr_ok l -> P st'.
Proof.
  intros fuel st l st' ev e H HI HF. unfold insert_side_chain in H.
  set (cn := match cur_hdr T st with Some c => hnum c | None => 0 end) in *.
  destruct (side_write st cn l None) as [st1 prev] eqn:ES.
  destruct (side_write_gen _ _ _ _ _ _ ES HI HF) as (HI1 & Hprev); [discriminate|].
  destruct (stateless_walk T fuel st1 prev []) as [[[y|] hashes]|] eqn:EW;
    try (inversion H; subst; auto; fail).
  pose proof (stateless_walk_ok _ _ _ _ _ _ EW Hprev (Forall_nil _)) as HFh.
  destruct (rev hashes) as [|b0 br] eqn:ER; [inversion H; subst; auto|].
  eapply insert_chain0_gen; eauto. rewrite <- ER. now apply Forall_rev'.
Qed.

Lemma recover_each_gen : forall fuel l st evs st' ev e,
  recover_each T fuel st l evs = (st', ev, e) -> P st -> Forall hdr_ok l -> P st'.
Proof.
  induction l as [|x r IH]; intros st evs st' ev e H HI HF; cbn [recover_each] in H.
  - inversion H; subst; auto.
  - inversion HF as [|? ? Hx Hr]; subst.
    destruct (insert_chain0 T fuel st false [x]) as [[st1 ev1] e1] eqn:EI.
    assert (HI1 : P st1) by (eapply insert_chain0_gen; eauto).
    destruct e1; [inversion H; subst; auto|]. apply (IH _ _ _ _ _ H HI1 Hr).
Qed.

Lemma recover_ancestors_gen : forall fuel st x st' ev e,
  recover_ancestors T fuel st x = (st', ev, e) -> P st -> hdr_ok x -> P st'.
Proof.
  intros fuel st x st' ev e H HI Hx. unfold recover_ancestors in H.
  destruct (stateless_walk T fuel st (Some x) []) as [[[y|] hashes]|] eqn:EW;
    try (inversion H; subst; auto; fail).
  eapply recover_each_gen; eauto. apply Forall_rev'.
  eapply stateless_walk_ok; eauto. intros h Hh; inversion Hh; subst; auto.
Qed.

Lemma pruned_case_gen : forall fuel, pruned_ok (pruned_case T fuel).
Proof.
  intros fuel st sh l st' ev e H HI HF. unfold pruned_case in H. destruct sh.
  - eapply insert_side_chain_gen; eauto.
  - destruct l as [|x r]; [inversion H; subst; auto|].
    inversion HF; subst. eapply recover_ancestors_gen; eauto.
Qed.

Lemma insert_chain_gen : forall fuel st sh l st' ev e,
  insert_chain T fuel st sh l = (st', ev, e) -> P st -> Forall hdr_ok l -> P st'.
Proof. intros. eapply insert_chain_core_gen; eauto. apply pruned_case_gen. Qed.

End Generic.

(* a predicate together with "block h0 is stored" is preserved just as well *)
Definition WithKnown (P : db -> Prop) (h0 : N) (st : db) : Prop := P st /\ is_known st h0 = true.

Section SetCanonical.
Variable P : db -> Prop.
Hypothesis P_wbws : forall st x st1, P st -> write_block_with_state st x = Ok st1 -> P st1.
Hypothesis P_addk : forall st h, P st -> P (add_known st h).
Hypothesis P_rcpt : forall st h, P st ->
  P (mkdb (known st) (upd (rcpt st) h true) (avail st) (disk st) (canon st) (lookup st)
          (hd_block st) (hd_header st) (hd_snap st)).
Hypothesis P_wkb : forall fuel st x st' ev, P st -> hdr_ok x -> is_known st (fst x) = true ->
  write_known_block T fuel st x = Ok (st', ev) -> P st'.

Lemma set_canonical_gen : forall fuel st x st' ev e,
  set_canonical T fuel st x = (st', ev, e) -> P st -> hdr_ok x -> is_known st (fst x) = true -> P st'.
Proof.
  intros fuel st x st' ev e H HI Hx HK. unfold set_canonical in H.
  destruct (if avail st (fst x) then (st, [], None) else recover_ancestors T fuel st x)
    as [[st1 ev1] e1] eqn:ER.
  assert (W1 : forall s y s1, WithKnown P (fst x) s -> write_block_with_state s y = Ok s1 -> WithKnown P (fst x) s1).
  { intros s y s1 (Hp & Hk) Hw. split; [eauto|]. apply (wbws_known _ _ _ _ Hw); auto. }
  assert (W2 : forall s h, WithKnown P (fst x) s -> WithKnown P (fst x) (add_known s h)).
  { intros s h (Hp & Hk). split; auto. now apply add_known_known. }
  assert (W3 : forall s h, WithKnown P (fst x) s ->
     WithKnown P (fst x) (mkdb (known s) (upd (rcpt s) h true) (avail s) (disk s) (canon s) (lookup s)
                               (hd_block s) (hd_header s) (hd_snap s))).
  { intros s h (Hp & Hk). split; auto. }
  assert (W4 : forall f s y s' ev0, WithKnown P (fst x) s -> hdr_ok y -> is_known s (fst y) = true ->
     write_known_block T f s y = Ok (s', ev0) -> WithKnown P (fst x) s').
  { intros f s y s' ev0 (Hp & Hk) Hy Hky Hw. split; [eauto|].
    unfold is_known in *. now rewrite (wkb_known _ _ _ _ _ Hw). }
  assert (HI1 : WithKnown P (fst x) st1).
  { destruct (avail st (fst x)); [inversion ER; subst; split; auto|].
    eapply (recover_ancestors_gen (WithKnown P (fst x)));
      first [exact W1 | exact W2 | exact W3 | exact W4 | exact ER | exact Hx | (split; assumption)]. }
  destruct HI1 as (HP1 & HK1).
  destruct e1; [inversion H; subst; auto|].
  destruct (reorg_if_needed T fuel st1 x) as [[st2 ev2]|] eqn:ERI; [|inversion H; subst; auto].
  destruct (write_head_block fuel st2 x) as [st3|] eqn:EH; inversion H; subst.
  - apply (P_wkb fuel st1 x _ (ev2 ++ whb_purge (canon st2) x)); auto. unfold write_known_block. now rewrite ERI, EH.
  - (* out of fuel after the reorg: the state returned is the reorg's *)
    exact HP1.
Qed.

Lemma get_by_hash_known : forall st h x, get_by_hash T st h = Some x ->
  hdr_ok x /\ is_known st (fst x) = true.
Proof.
  intros st h x H. unfold get_by_hash in H. destruct (T h) as [b|] eqn:ET; [|discriminate].
  destruct (is_known st h) eqn:EK; inversion H; subst. split; auto.
Qed.

Lemma step_import_gen : forall fuel st o st' ev e, import_op o ->
  step T fuel st o = (st', ev, e) -> P st -> P st'.
Proof.
  intros fuel st o st' ev e Ho H HI. destruct o as [l|h|h|n|]; cbn in Ho; try tauto; cbn [step] in H.
  - destruct (resolve_all T l) as [hs|] eqn:ER; [|inversion H; subst; auto].
    destruct (contiguous hs); [|inversion H; subst; auto].
    eapply (insert_chain_gen P); eauto; eapply resolve_all_ok; eauto.
  - destruct (T h) as [b|] eqn:ET; [|inversion H; subst; auto].
    eapply (insert_chain_gen P); eauto.
  - destruct (get_by_hash T st h) as [x|] eqn:EG; [|inversion H; subst; auto].
    destruct (get_by_hash_known _ _ _ EG). eapply set_canonical_gen; eauto.
Qed.

End SetCanonical.

(* the index invariant is such a predicate *)
Lemma Inv_wbws : forall st x st1, Inv st -> write_block_with_state st x = Ok st1 -> Inv st1.
Proof. intros st x st1 HI H. destruct (wbws_core _ _ _ H) as (E1 & E2 & E3). eapply Inv_core; eauto. Qed.
Lemma Inv_addk : forall st h, Inv st -> Inv (add_known st h).
Proof. intros st h HI. destruct (add_known_core st h) as (E1 & E2 & E3). eapply Inv_core; eauto. Qed.
Lemma Inv_rcpt : forall st h, Inv st ->
  Inv (mkdb (known st) (upd (rcpt st) h true) (avail st) (disk st) (canon st) (lookup st)
            (hd_block st) (hd_header st) (hd_snap st)).
Proof. intros st h HI. exact HI. Qed.
Lemma Inv_wkb : forall fuel st x st' ev, Inv st -> hdr_ok x -> is_known st (fst x) = true ->
  write_known_block T fuel st x = Ok (st', ev) -> Inv st'.
Proof. intros. eapply wkb_inv; eauto. Qed.

Lemma step_import_inv : forall fuel st o st' ev e, import_op o ->
  step T fuel st o = (st', ev, e) -> Inv st -> Inv st'.
Proof.
  intros. eapply (step_import_gen Inv Inv_wbws Inv_addk Inv_rcpt Inv_wkb); eauto.
Qed.

(* ---- SetHead and restart ---- *)
(* y is an ancestor (inclusive) of x *)
Definition IsAnc (x y : hdr) : Prop :=
  hdr_ok y /\ hnum y <= hnum x /\ anc T (fst x) (hnum y) = Some (fst y).

Lemma IsAnc_refl : forall x, hdr_ok x -> IsAnc x x.
Proof. intros x Hx. repeat split; auto; [lia | now apply anc_self]. Qed.

Lemma IsAnc_parent : forall x p, hdr_ok x -> parent_of T x p -> IsAnc x p.
Proof.
  intros x p Hx Hp. pose proof Hp as (Hpo & _ & Hn). repeat split; auto; [lia|].
  rewrite (anc_parent T x p (hnum p) Hx Hp) by lia. now apply anc_self.
Qed.

Lemma IsAnc_below : forall x y, hdr_ok x -> IsAnc x y ->
  forall n, n <= hnum y -> anc T (fst y) n = anc T (fst x) n.
Proof.
  intros x y Hx (Hy & Hle & Ha) n Hn.
  destruct (anc_down _ x (hnum y) (fst y) Hx eq_refl Hle Ha) as (bh & _ & _ & Hall). now apply Hall.
Qed.

Lemma IsAnc_trans : forall x y z, hdr_ok x -> IsAnc x y -> IsAnc y z -> IsAnc x z.
Proof.
  intros x y z Hx Hxy Hyz. pose proof Hxy as (Hy & Hle & Ha). pose proof Hyz as (Hz & Hle' & Ha').
  repeat split; auto; [lia|]. rewrite <- (IsAnc_below x y Hx Hxy) by lia. exact Ha'.
Qed.

Lemma GC_anc : forall c x y, hdr_ok x -> GC c x -> IsAnc x y -> GC c y.
Proof.
  intros c x y Hx HG Hxy n Hn. pose proof Hxy as (_ & Hle & _).
  rewrite HG by lia. symmetry. now apply IsAnc_below.
Qed.

Lemma wf_zero : forall x, hdr_ok x -> hnum x = 0 -> fst x = 0.
Proof.
  intros [h b] Hx H0. destruct Hwf as (_ & W). destruct (W h b Hx) as [[_ E]|(Hpos & _)]; auto.
  unfold hnum in H0. cbn in *. lia.
Qed.

Lemma anc_zero : forall d x, hdr_ok x -> N.to_nat (hnum x) = d -> anc T (fst x) 0 = Some 0.
Proof.
  induction d as [|d IH]; intros x Hx Hd.
  - assert (E : hnum x = 0) by lia. rewrite <- E at 1. rewrite anc_self by auto. f_equal. now apply wf_zero.
  - destruct (wf_parent x Hx) as [E0|(p & Hp)]; [lia|].
    rewrite (anc_parent T x _ 0 Hx Hp) by lia. pose proof Hp as (Hpo & _ & Hn).
    apply (IH _ Hpo). lia.
Qed.

Definition is_genesis (g : hdr) : Prop := hdr_ok g /\ fst g = 0 /\ hnum g = 0.

Lemma IsAnc_genesis : forall x g, hdr_ok x -> is_genesis g -> IsAnc x g.
Proof.
  intros x g Hx (Hg & Hg0 & Hgn). repeat split; auto; [lia|]. rewrite Hgn, Hg0.
  eapply anc_zero; eauto.
Qed.

Lemma rewind_anc : forall fuel st g x y, rewind T fuel st g x = Some y ->
  hdr_ok x -> is_genesis g -> IsAnc x y.
Proof.
  induction fuel as [|f IH]; intros st g x y H Hx Hg; [discriminate|].
  cbn [rewind] in H. destruct (avail st (fst x)).
  - inversion H; subst. now apply IsAnc_refl.
  - destruct (parent_hdr T st x) as [p|] eqn:EP.
    + pose proof (parent_hdr_spec T _ _ _ EP) as Hp.
      destruct (hnum p =? 0).
      * inversion H; subst. now apply IsAnc_parent.
      * apply (IsAnc_trans x p y Hx); [now apply IsAnc_parent | eapply IH; eauto; apply Hp].
    + inversion H; subst. now apply IsAnc_genesis.
Qed.

Lemma Inv_intro : forall st h b, hdr_ok h -> fst h = hd_header st -> GC (canon st) h ->
  IsAnc h b -> fst b = hd_block st -> Inv st.
Proof.
  intros st [hh hb] [bh bb] Hh Eh HG (Hb & Hle & Ha) Eb. cbn [fst] in *. subst.
  exists hb, bb. repeat split; auto.
Qed.

Lemma Inv_elim : forall st, Inv st -> exists hb bb,
  hdr_ok (hd_header st, hb) /\ GC (canon st) (hd_header st, hb) /\
  IsAnc (hd_header st, hb) (hd_block st, bb).
Proof.
  intros st (hb & bb & Hh & Hb & HG & Hle & Ha). exists hb, bb. repeat split; auto.
Qed.

Lemma heights_above_ge : forall fuel st n l, heights_above T fuel st n = Some l ->
  forall d, In d l -> n <= d.
Proof.
  induction fuel as [|f IH]; intros st n l H d Hd; [discriminate|].
  cbn in H. destruct (any_at T st n); [|inversion H; subst; destruct Hd].
  destruct (heights_above T f st (n + 1)) as [l'|] eqn:E; [|discriminate].
  inversion H; subst. destruct Hd as [<-|Hd]; [lia|]. specialize (IH _ _ _ E d Hd). lia.
Qed.

Lemma set_head_loop_inv : forall fuel st g target origin dels st' dels',
  set_head_loop T fuel st g target origin dels = Ok (st', dels') ->
  Inv st -> is_genesis g -> (forall d, In d dels -> num_of T (hd_header st) < d) ->
  Inv st' /\ canon st' = canon st /\ (forall d, In d dels' -> num_of T (hd_header st') < d).
Proof.
  induction fuel as [|f IH]; intros st g target origin dels st' dels' H HI Hg Hd; [discriminate|].
  cbn [set_head_loop] in H.
  destruct (Inv_elim st HI) as (hb & bb & Hh & HG & HA).
  unfold CanonicalProofs.hdr_ok in Hh. cbn [fst snd] in Hh. rewrite Hh in H.
  destruct (b_number hb <=? target) eqn:ET.
  - inversion H; subst. repeat split; auto.
  - apply N.leb_gt in ET.
    set (hdr0 := (hd_header st, hb)) in *.
    set (parent := match parent_hdr T st hdr0 with Some p => p | None => g end) in *.
    assert (HP : IsAnc hdr0 parent /\ hnum parent < b_number hb).
    { subst parent. destruct (parent_hdr T st hdr0) as [p|] eqn:EP.
      - pose proof (parent_hdr_spec T _ _ _ EP) as Hp. split; [now apply IsAnc_parent|].
        destruct Hp as (_ & _ & Hn). unfold hdr0, hnum in *. cbn [snd] in *. lia.
      - split; [now apply IsAnc_genesis|]. destruct Hg as (_ & _ & Hgn). lia. }
    destruct HP as (HAP & Hlt). pose proof HAP as (Hpo & _ & _).
    assert (Hcur : cur_hdr T st = Some (hd_block st, bb)).
    { unfold cur_hdr. destruct HA as (Hbo & _). unfold CanonicalProofs.hdr_ok in Hbo. cbn in Hbo. now rewrite Hbo. }
    rewrite Hcur in H.
    match type of H with context [match ?X with Err e => Err e | Ok nb => _ end] =>
      destruct X as [nb|] eqn:ENB; [|discriminate] end.
    assert (HNB : exists nbb, IsAnc parent (nb, nbb)).
    { destruct (hnum parent <=? hnum (hd_block st, bb)) eqn:EL.
      - destruct (rewind T (S f) st g parent) as [nh|] eqn:ER; [|discriminate].
        inversion ENB; subst. exists (snd nh). destruct nh; cbn. eapply rewind_anc; eauto.
      - inversion ENB; subst. exists bb. apply N.leb_gt in EL.
        pose proof HA as (Hbo & Hble & Hba). repeat split; auto; [lia|].
        rewrite (IsAnc_below hdr0 parent Hh HAP) by lia. exact Hba. }
    destruct HNB as (nbb & HNB).
    match type of H with context [match ?X with None => Err EOutOfFuel | Some up => _ end] =>
      destruct X as [up|] eqn:EUP; [|discriminate] end.
    match type of H with context [set_head_loop T f ?s1 g target false ?dd] =>
      assert (HI1 : Inv s1 /\ canon s1 = canon st /\ hd_header s1 = fst parent) end.
    { split; [|split; reflexivity].
      eapply (Inv_intro _ parent (nb, nbb)); eauto; try reflexivity.
      cbn [canon]. exact (GC_anc _ hdr0 parent Hh HG HAP). }
    destruct HI1 as (HI1 & EC1 & EH1).
    match type of H with set_head_loop T f ?s1 g target false ?dd = _ =>
      assert (HD1 : forall d, In d dd -> num_of T (hd_header s1) < d) end.
    { intros d Hin. cbn [hd_header].
      assert (Enum : num_of T (fst parent) = hnum parent).
      { unfold num_of. unfold CanonicalProofs.hdr_ok in Hpo. now rewrite Hpo. }
      rewrite Enum. apply in_app_or in Hin as [Hin|Hin].
      - specialize (Hd d Hin). unfold num_of in Hd. rewrite Hh in Hd. lia.
      - apply in_app_or in Hin as [Hin|Hin].
        + apply in_rev in Hin. destruct origin; [|inversion EUP; subst; destruct Hin].
          pose proof (heights_above_ge _ _ _ _ EUP d Hin). lia.
        + destruct Hin as [<-|[]]. lia. }
    destruct (IH _ _ _ _ _ _ _ H HI1 Hg HD1) as (HI' & EC' & HD').
    repeat split; auto; congruence.
Qed.

Lemma mem_In : forall x l, mem x l = true -> In x l.
Proof.
  intros x l H. unfold mem in H. apply existsb_exists in H as (y & Hy & E). apply N.eqb_eq in E. now subst.
Qed.

Lemma delete_heights_inv : forall st dels, Inv st ->
  (forall d, In d dels -> num_of T (hd_header st) < d) -> Inv (delete_heights T st dels).
Proof.
  intros st dels HI Hd. destruct (Inv_elim st HI) as (hb & bb & Hh & HG & HA).
  eapply (Inv_intro _ (hd_header st, hb) (hd_block st, bb)); eauto; try reflexivity.
  intros n Hn. cbn [delete_heights canon]. destruct (mem n dels) eqn:EM; [|now apply HG].
  apply mem_In in EM. specialize (Hd n EM). unfold num_of in Hd.
  unfold CanonicalProofs.hdr_ok in Hh. cbn in Hh. rewrite Hh in Hd. unfold hnum in Hn. cbn in Hn. lia.
Qed.

Lemma genesis_is : forall gb, T 0 = Some gb -> is_genesis (0, gb).
Proof.
  intros gb H. destruct Hwf as ((g & Hg & Hg0) & _). rewrite H in Hg. inversion Hg; subst.
  repeat split; auto.
Qed.

Lemma set_head_inv : forall fuel st target st' ev e,
  set_head T fuel st target = (st', ev, e) -> Inv st -> Inv st'.
Proof.
  intros fuel st target st' ev e H HI. unfold set_head in H.
  destruct (T 0) as [gb|] eqn:EG; [|inversion H; subst; auto].
  destruct (set_head_loop T fuel st (0, gb) target true []) as [[st1 dels]|] eqn:EL;
    [|inversion H; subst; auto].
  destruct (set_head_loop_inv _ _ _ _ _ _ _ _ EL HI (genesis_is _ EG)) as (HI1 & _ & HD1);
    [intros d []|].
  pose proof (delete_heights_inv st1 dels HI1 HD1) as HI2.
  destruct (negb (is_known (delete_heights T st1 dels) (hd_block (delete_heights T st1 dels))));
    inversion H; subst; auto.
Qed.

Lemma restart_inv : forall fuel st st' ev e, restart T fuel st = (st', ev, e) -> Inv st -> Inv st'.
Proof.
  intros fuel st st' ev e H HI. unfold restart in H.
  destruct (Inv_elim st HI) as (hb & bb & Hh & HG & HA).
  assert (Hcur : cur_hdr T st = Some (hd_block st, bb)).
  { unfold cur_hdr. destruct HA as (Hbo & _). unfold CanonicalProofs.hdr_ok in Hbo. cbn in Hbo. now rewrite Hbo. }
  rewrite Hcur in H. destruct (T 0) as [gb|] eqn:EG; [|inversion H; subst; auto].
  cbv zeta in H.
  match type of H with context [if avail ?s1 (hd_block ?s1) then _ else _] => set (st1 := s1) in * end.
  assert (HI1 : Inv st1) by exact HI.
  destruct (avail st1 (hd_block st1)); [inversion H; subst; auto|].
  destruct (rewind T fuel st1 (0, gb) (hd_block st, bb)) as [nh|] eqn:ER; inversion H; subst; auto.
  destruct nh as [nhh nhb].
  eapply (Inv_intro _ (hd_header st, hb) (nhh, nhb)); eauto; try reflexivity.
  eapply IsAnc_trans; eauto. eapply rewind_anc; eauto; [apply HA | now apply genesis_is].
Qed.

Lemma step_inv : forall fuel st o st' ev e, step T fuel st o = (st', ev, e) -> Inv st -> Inv st'.
Proof.
  intros fuel st o st' ev e H HI. destruct o as [l|h|h|n|] eqn:EO.
  - eapply step_import_inv; eauto; exact I.
  - eapply step_import_inv; eauto; exact I.
  - eapply step_import_inv; eauto; exact I.
  - cbn [step] in H. eapply set_head_inv; eauto.
  - cbn [step] in H. eapply restart_inv; eauto.
Qed.

Lemma Inv_genesis : Inv genesis_db.
Proof.
  destruct Hwf as ((g & Hg & Hg0) & _). exists g, g. cbn. repeat split; auto.
  - intros n Hn. unfold hnum in Hn. cbn in Hn. assert (n = 0) by lia. subst n. cbn.
    unfold anc. rewrite Hg, Hg0. cbn. now rewrite Hg.
  - lia.
  - unfold anc. rewrite Hg, Hg0. cbn. now rewrite Hg.
Qed.

(* histories *)
Fixpoint run (fuel : nat) (st : db) (ops : list op) : db :=
  match ops with
  | [] => st
  | o :: r => run fuel (fst (fst (step T fuel st o))) r
  end.

Lemma run_inv : forall fuel ops st, Inv st -> Inv (run fuel st ops).
Proof.
  induction ops as [|o r IH]; intros st HI; cbn; auto.
  apply IH. destruct (step T fuel st o) as [[st1 ev] e] eqn:ES. cbn. eapply step_inv; eauto.
Qed.

(* the invariant in the property's own words *)
Lemma Inv_linked : forall st, Inv st ->
  exists hb, T (hd_header st) = Some hb /\
    canon st (b_number hb) = Some (hd_header st) /\
    (forall n, n < b_number hb -> exists h b, canon st (n + 1) = Some h /\ T h = Some b /\
                                              b_number b = n + 1 /\ canon st n = Some (b_parent b)) /\
    (exists bb, T (hd_block st) = Some bb /\ b_number bb <= b_number hb /\
                canon st (b_number bb) = Some (hd_block st)).
Proof.
  intros st (hb & bb & Hh & Hb & HG & Hle & Ha). exists hb. repeat split; auto.
  - rewrite HG by (unfold hnum; cbn; lia). apply (anc_self T (hd_header st, hb)); auto.
  - intros n Hn.
    assert (Hn1 : n + 1 <= b_number hb) by lia.
    destruct (anc T (hd_header st) (n + 1)) as [h|] eqn:EA.
    + destruct (anc_down _ (hd_header st, hb) (n + 1) h Hh eq_refl Hn1 EA) as (b & Hbh & Hbn & Hall).
      exists h, b. repeat split; auto.
      * rewrite HG by (unfold hnum; cbn; lia). auto.
      * rewrite HG by (unfold hnum; cbn; lia). cbn [fst] in *. rewrite <- (Hall n) by lia.
        destruct (wf_parent (h, b) Hbh) as [E0|(p & Hp)]; [unfold hnum in E0; cbn in E0; lia|].
        pose proof (anc_parent T (h, b) _ n Hbh Hp) as EAP. cbn [fst snd] in EAP.
        rewrite EAP by (destruct Hp as (_ & _ & ?); unfold hnum in *; cbn in *; lia).
        destruct Hp as (Hpo & _ & Hnum).
        replace n with (hnum (b_parent b, p)) by (unfold hnum in *; cbn in *; lia).
        apply (anc_self T (b_parent b, p)); auto.
    + exfalso. unfold anc in EA. rewrite Hh in EA.
      assert (E : (n + 1 <=? b_number hb) = true) by (apply N.leb_le; lia). rewrite E in EA.
      (* the walk cannot leave a well-formed tree *)
      clear -EA Hh Hwf Hn1.
      remember (N.to_nat (b_number hb - (n + 1))) as d eqn:Ed.
      assert (Hd : (N.to_nat (b_number hb) >= d)%nat) by lia. clear Ed Hn1.
      revert hb Hh Hd EA. generalize (hd_header st). induction d as [|d IH]; intros h hb Hh Hd EA.
      * cbn in EA. rewrite Hh in EA. discriminate.
      * cbn in EA. rewrite Hh in EA.
        destruct (wf_parent (h, hb) Hh) as [E0|(p & Hpo & _ & Hnum)]; [unfold hnum in E0; cbn in E0; lia|].
        eapply (IH _ p Hpo); eauto. unfold hnum in *; cbn in *; lia.
  - exists bb. repeat split; auto. rewrite HG by (unfold hnum; cbn; lia). auto.
Qed.

End Inv.
