(* Chain/LogIndexSeq.v — the matcher combinators (mergeResults, matchResults,
   matchAny, matchSequence) and completeness of the sequence matcher. *)
From GV Require Import Lib.Tactics Chain.LogIndex Chain.LogIndexProofs.
Local Open Scope N_scope.

(* ------------------------------------------------------------------ *)
(* matchResults' two-pointer loop                                       *)

Lemma mr_loop_sub off x : forall b n, In x (mr_loop off b n) -> In x b.
Proof.
  induction b as [|b0 b' IHb]; intros n H; [destruct H|].
  induction n as [|n0 n' IHn]; simpl in H; [destruct H|].
  destruct (b0 + off <? n0); [right; eapply IHb; exact H|].
  destruct (n0 <? b0 + off); [apply IHn; exact H|].
  destruct H as [H|H]; [left; exact H | right; eapply IHb; exact H].
Qed.

Lemma mr_loop_sorted off : forall b n, ssorted b -> ssorted (mr_loop off b n).
Proof.
  induction b as [|b0 b' IHb]; intros n Hs; [constructor|].
  destruct (ssorted_cons_inv _ _ Hs) as [Hs' Hb0].
  induction n as [|n0 n' IHn]; simpl; [constructor|].
  destruct (b0 + off <? n0); [apply IHb; exact Hs'|].
  destruct (n0 <? b0 + off); [exact IHn|].
  apply ssorted_cons; [apply IHb; exact Hs'|].
  intros y Hy. apply Hb0. eapply mr_loop_sub. exact Hy.
Qed.

Lemma mr_loop_complete off x : forall b n, ssorted b -> ssorted n ->
  In x b -> In (x + off) n -> In x (mr_loop off b n).
Proof.
  induction b as [|b0 b' IHb]; intros n Hb Hn Hxb Hxn; [destruct Hxb|].
  destruct (ssorted_cons_inv _ _ Hb) as [Hb' Hb0].
  induction n as [|n0 n' IHn]; [destruct Hxn|].
  destruct (ssorted_cons_inv _ _ Hn) as [Hn' Hn0]. simpl.
  destruct (b0 + off <? n0) eqn:E1.
  - destruct Hxb as [Hx|Hx].
    + subst x. exfalso. destruct Hxn as [Hx|Hx]; [lia | specialize (Hn0 _ Hx); lia].
    + apply IHb; assumption.
  - destruct (n0 <? b0 + off) eqn:E2.
    + destruct Hxn as [Hx|Hx]; [|apply IHn; assumption].
      exfalso. destruct Hxb as [Hy|Hy]; [lia | specialize (Hb0 _ Hy); lia].
    + assert (n0 = b0 + off) by lia. destruct Hxb as [Hx|Hx]; [left; exact Hx|].
      right. apply IHb; try assumption.
      destruct Hxn as [Hy|Hy]; [specialize (Hb0 _ Hx); lia | exact Hy].
Qed.

Lemma shift_back_In minv off x : forall n,
  In x (shift_back minv off n) <-> exists v, In v n /\ minv <= v /\ x = v - off.
Proof.
  induction n as [|v n IH]; simpl.
  - split; [intros [] | intros (v & [] & _)].
  - destruct (minv <=? v) eqn:E.
    + simpl. rewrite IH. split.
      * intros [H|(w & Hw & H1 & H2)]; [exists v; split; [left; reflexivity|split; [lia|auto]] | exists w; auto].
      * intros (w & [Hw|Hw] & H1 & H2); [left; subst; reflexivity | right; exists w; auto].
    + rewrite IH. split.
      * intros (w & Hw & H1 & H2). exists w; auto.
      * intros (w & [Hw|Hw] & H1 & H2); [subst; lia | exists w; auto].
Qed.

Lemma shift_back_sorted minv off : forall n, off <= minv -> ssorted n -> ssorted (shift_back minv off n).
Proof.
  induction n as [|v n IH]; intros Hm Hs; simpl; [constructor|].
  destruct (ssorted_cons_inv _ _ Hs) as [Hs' Hv].
  destruct (minv <=? v) eqn:E; [|apply IH; assumption].
  apply ssorted_cons; [apply IH; assumption|].
  intros y Hy. apply shift_back_In in Hy. destruct Hy as (w & Hw & H1 & ->).
  specialize (Hv _ Hw). lia.
Qed.

(* ------------------------------------------------------------------ *)
(* mergeResults                                                         *)

Definition heads (rs : list (list N)) : list N :=
  flat_map (fun r => match r with [] => [] | x :: _ => [x] end) rs.

Lemma best_of_none : forall rs i b, best_of rs i b = None -> b = None /\ forall r, In r rs -> r = [].
Proof.
  induction rs as [|r rs IH]; intros i b H; simpl in H.
  - split; [exact H | intros ? []].
  - destruct r as [|x tl].
    + destruct (IH _ _ H) as [Hb Hall]. split; [exact Hb|]. intros r [<-|Hr]; auto.
    + exfalso. destruct b as [[jb bx]|].
      * destruct (x <? bx); destruct (IH _ _ H) as [Hb _]; discriminate.
      * destruct (IH _ _ H) as [Hb _]; discriminate.
Qed.

Lemma best_of_some : forall rs i b j x, best_of rs i b = Some (j, x) ->
  (forall r y tl, In r rs -> r = y :: tl -> x <= y) /\
  (forall jb bx, b = Some (jb, bx) -> x <= bx) /\
  (b = Some (j, x) \/ ((i <= j)%nat /\ exists tl, nth_error rs (j - i) = Some (x :: tl))).
Proof.
  induction rs as [|r rs IH]; intros i b j x H; simpl in H.
  - subst b. split; [intros ? ? ? []|]. split; [intros ? ? E; injection E as <- <-; lia | left; reflexivity].
  - destruct r as [|y0 tl0].
    + destruct (IH _ _ _ _ H) as (H1 & H2 & H3). split; [|split; [exact H2|]].
      * intros r y tl [<-|Hr] E; [discriminate | eapply H1; eassumption].
      * destruct H3 as [H3|(Hle & tl & Hn)]; [left; exact H3 | right].
        split; [lia|]. exists tl. replace (j - i)%nat with (S (j - S i)) by lia. exact Hn.
    + set (b' := match b with
                 | None => Some (i, y0)
                 | Some (_, bx) => if y0 <? bx then Some (i, y0) else b end) in H.
      destruct (IH _ _ _ _ H) as (H1 & H2 & H3).
      assert (Hy0 : x <= y0).
      { destruct b as [[jb bx]|]; unfold b' in H2.
        - destruct (y0 <? bx) eqn:E; [eapply H2; reflexivity | specialize (H2 _ _ eq_refl); lia].
        - eapply H2; reflexivity. }
      split; [|split].
      * intros r y tl [<-|Hr] E; [injection E as <- _; exact Hy0 | eapply H1; eassumption].
      * intros jb bx ->. unfold b' in H2. destruct (y0 <? bx) eqn:E; [specialize (H2 _ _ eq_refl); lia | eapply H2; reflexivity].
      * destruct H3 as [H3|(Hle & tl & Hn)].
        -- destruct b as [[jb bx]|]; unfold b' in H3.
           ++ destruct (y0 <? bx); [|left; exact H3].
              injection H3 as <- <-. right. split; [lia|]. exists tl0. rewrite Nat.sub_diag. reflexivity.
           ++ injection H3 as <- <-. right. split; [lia|]. exists tl0. rewrite Nat.sub_diag. reflexivity.
        -- right. split; [lia|]. exists tl. replace (j - i)%nat with (S (j - S i)) by lia. exact Hn.
Qed.

Lemma drop_head_at_spec x tl : forall rs j, nth_error rs j = Some (x :: tl) ->
  (forall y, (exists r, In r rs /\ In y r) <-> (y = x \/ exists r', In r' (drop_head_at rs j) /\ In y r')) /\
  (forall r', In r' (drop_head_at rs j) -> In r' rs \/ r' = tl).
Proof.
  induction rs as [|r rs IH]; intros j H; [destruct j; discriminate|].
  destruct j as [|j]; simpl in H |- *.
  - injection H as ->. split.
    + intros y. split.
      * intros (r & [<-|Hr] & Hy).
        -- destruct Hy as [Hy|Hy]; [left; auto | right; exists tl; split; [left; reflexivity|exact Hy]].
        -- right. exists r. split; [right; exact Hr | exact Hy].
      * intros [->|(r' & [<-|Hr] & Hy)].
        -- exists (x :: tl). split; [left; reflexivity | left; reflexivity].
        -- exists (x :: tl). split; [left; reflexivity | right; exact Hy].
        -- exists r'. split; [right; exact Hr | exact Hy].
    + intros r' [<-|Hr]; [right; reflexivity | left; right; exact Hr].
  - destruct (IH _ H) as [IH1 IH2]. split.
    + intros y. split.
      * intros (r0 & [<-|Hr] & Hy).
        -- right. exists r. split; [left; reflexivity | exact Hy].
        -- destruct (proj1 (IH1 y) (ex_intro _ r0 (conj Hr Hy))) as [->|(r' & Hr' & Hy')];
             [left; reflexivity | right; exists r'; split; [right; exact Hr' | exact Hy']].
      * intros [->|(r' & [<-|Hr] & Hy)].
        -- destruct (proj2 (IH1 x) (or_introl eq_refl)) as (r0 & Hr0 & Hy0). exists r0. split; [right; exact Hr0 | exact Hy0].
        -- exists r. split; [left; reflexivity | exact Hy].
        -- destruct (proj2 (IH1 y) (or_intror (ex_intro _ r' (conj Hr Hy)))) as (r0 & Hr0 & Hy0).
           exists r0. split; [right; exact Hr0 | exact Hy0].
    + intros r' [<-|Hr]; [left; left; reflexivity|].
      destruct (IH2 _ Hr) as [H1|H1]; [left; right; exact H1 | right; exact H1].
Qed.

Lemma ssorted_app_last l x : ssorted l -> (forall y, In y l -> y < x) -> ssorted (l ++ [x]).
Proof.
  induction l as [|a l IH]; intros Hs Hlt; simpl.
  - apply ssorted_cons; [constructor | intros ? []].
  - destruct (ssorted_cons_inv _ _ Hs) as [Hs' Ha]. apply ssorted_cons.
    + apply IH; [exact Hs' | intros y Hy; apply Hlt; right; exact Hy].
    + intros y Hy. apply in_app_or in Hy. destruct Hy as [Hy|[<-|[]]]; [apply Ha; exact Hy | apply Hlt; left; reflexivity].
Qed.

Lemma ssorted_rev_head last rest : ssorted (rev (last :: rest)) -> forall y, In y rest -> y < last.
Proof.
  simpl. revert last. induction rest as [|a rest IH] using rev_ind; intros last Hs y Hy; [destruct Hy|].
  rewrite rev_app_distr in Hs. simpl in Hs.
  destruct (ssorted_cons_inv _ _ Hs) as [Hs' Ha].
  apply in_app_or in Hy. destruct Hy as [Hy|[<-|[]]].
  - apply IH; [exact Hs' | exact Hy].
  - apply Ha. apply in_or_app. right. left. reflexivity.
Qed.

Definition merge_inv (rs : list (list N)) (rm : list N) : Prop :=
  (forall r, In r rs -> ssorted r) /\ ssorted (rev rm) /\
  (forall z r y, In z rm -> In r rs -> In y r -> z <= y).

Lemma merge_loop_spec : forall fuel rs rm out,
  merge_loop fuel rs rm = Some out -> merge_inv rs rm ->
  ssorted out /\ forall y, In y out <-> (In y rm \/ exists r, In r rs /\ In y r).
Proof.
  induction fuel as [|f IH]; intros rs rm out H (Hsr & Hsm & Hle); [discriminate|].
  simpl in H. destruct (best_of rs 0%nat None) as [[i x]|] eqn:Eb.
  - destruct (best_of_some _ _ _ _ _ Eb) as (Hmin & _ & Hnth).
    destruct Hnth as [Hnth|(_ & tl & Hnth)]; [discriminate|]. rewrite Nat.sub_0_r in Hnth.
    destruct (drop_head_at_spec _ _ _ _ Hnth) as [Hmem Hsub].
    assert (Hxr : In (x :: tl) rs) by (eapply nth_error_In; exact Hnth).
    assert (Hxmin : forall r y, In r rs -> In y r -> x <= y).
    { intros r y Hr Hy. destruct r as [|y0 tl0]; [destruct Hy|].
      pose proof (Hmin _ _ _ Hr eq_refl) as H0. destruct Hy as [<-|Hy]; [exact H0|].
      destruct (ssorted_cons_inv _ _ (Hsr _ Hr)) as [_ Hy0]. specialize (Hy0 _ Hy). lia. }
    assert (Hsr' : forall r', In r' (drop_head_at rs i) -> ssorted r').
    { intros r' Hr'. destruct (Hsub _ Hr') as [H1 | ->]; [apply Hsr; exact H1|].
      apply (ssorted_cons_inv x). apply Hsr. exact Hxr. }
    assert (Hin' : forall r' y, In r' (drop_head_at rs i) -> In y r' -> exists r, In r rs /\ In y r).
    { intros r' y Hr' Hy. apply (proj2 (Hmem y)). right. exists r'. auto. }
    set (rm' := match rm with [] => [x] | last :: _ => if last <? x then x :: rm else rm end) in H.
    assert (Hinv' : merge_inv (drop_head_at rs i) rm' /\ (forall y, In y rm' <-> In y rm \/ y = x)).
    { unfold rm'. destruct rm as [|last rest].
      - split; [|intros y; simpl; intuition congruence]. split; [exact Hsr'|]. split.
        + simpl. apply ssorted_cons; [constructor | intros ? []].
        + intros z r y [<-|[]] Hr Hy. destruct (Hin' _ _ Hr Hy) as (r0 & Hr0 & Hy0). eapply Hxmin; eassumption.
      - destruct (last <? x) eqn:El.
        + split; [|intros y; simpl; intuition congruence]. split; [exact Hsr'|]. split.
          * simpl. apply ssorted_app_last; [exact Hsm|].
            intros y Hy. apply in_app_or in Hy. destruct Hy as [Hy|[<-|[]]]; [|lia].
            apply (proj2 (in_rev _ _)) in Hy. pose proof (ssorted_rev_head _ _ Hsm _ Hy). lia.
          * intros z r y [<-|Hz] Hr Hy; destruct (Hin' _ _ Hr Hy) as (r0 & Hr0 & Hy0);
              [eapply Hxmin; eassumption | eapply Hle; eassumption].
        + assert (last = x).
          { pose proof (Hle last (x :: tl) x (or_introl eq_refl) Hxr (or_introl eq_refl)). lia. }
          subst last. split; [|intros y; simpl; intuition congruence]. split; [exact Hsr'|]. split; [exact Hsm|].
          intros z r y Hz Hr Hy. destruct (Hin' _ _ Hr Hy) as (r0 & Hr0 & Hy0). eapply Hle; eassumption. }
    destruct Hinv' as [Hinv' Hrm'].
    destruct (IH _ _ _ H Hinv') as [Hso Hmo]. split; [exact Hso|].
    intros y. rewrite Hmo, Hrm', (Hmem y). tauto.
  - injection H as <-. destruct (best_of_none _ _ _ Eb) as [_ Hall]. split; [exact Hsm|].
    intros y. rewrite <- in_rev. split; [auto|].
    intros [H|(r & Hr & Hy)]; [exact H|]. rewrite (Hall _ Hr) in Hy. destruct Hy.
Qed.

Lemma merge_results_spec rs out :
  merge_results rs = Some out -> (forall r, In r rs -> ssorted r) ->
  ssorted out /\ forall y, In y out <-> exists r, In r rs /\ In y r.
Proof.
  unfold merge_results. intros H Hs.
  destruct (merge_loop_spec _ _ _ _ H) as [H1 H2].
  - split; [exact Hs|]. split; [constructor | intros ? ? ? []].
  - split; [exact H1|]. intros y. rewrite H2. simpl. tauto.
Qed.

Lemma opt_all_map_spec {A B} (f : A -> option B) : forall l rs,
  opt_all (map f l) = Some rs ->
  (forall a, In a l -> exists r, f a = Some r /\ In r rs) /\
  (forall r, In r rs -> exists a, In a l /\ f a = Some r).
Proof.
  induction l as [|a l IH]; intros rs H; simpl in H.
  - injection H as <-. split; [intros ? [] | intros ? []].
  - destruct (f a) as [r0|] eqn:E; [|discriminate].
    destruct (opt_all (map f l)) as [rs'|] eqn:E2; [|discriminate]. injection H as <-.
    destruct (IH _ eq_refl) as [H1 H2]. split.
    + intros a' [<-|Ha]; [exists r0; split; [exact E | left; reflexivity]|].
      destruct (H1 _ Ha) as (r & Hr & Hin). exists r. split; [exact Hr | right; exact Hin].
    + intros r [<-|Hr]; [exists a; split; [left; reflexivity | exact E]|].
      destruct (H2 _ Hr) as (a' & Ha' & Hf). exists a'. split; [right; exact Ha' | exact Hf].
Qed.

(* ------------------------------------------------------------------ *)
Lemma in_map_between P m y v :
  v / vpm P = m -> m * vpm P <= y -> y <= v -> y / vpm P = m.
Proof.
  intros Hv H1 H2. pose proof (vpm_pos P).
  symmetry. apply (N.div_unique y (vpm P) m (y - m * vpm P)); [|lia].
  pose proof (N.mod_lt v (vpm P) ltac:(lia)). pose proof (N.div_mod v (vpm P) ltac:(lia)). subst m. lia.
Qed.

Section Seq.
Variable P : params.
Variable row_hash : N -> nat -> N -> N.
Variable col_index : N -> N -> N.

Notation vpm := (vpm P).
Notation single_match := (single_match P row_hash col_index).
Notation match_any := (match_any P row_hash col_index).
Notation match_results := (match_results P).
Notation match_seq_rev := (match_seq_rev P row_hash col_index).
Notation marked := (marked P row_hash col_index).
Notation in_map := (in_map P).

Hypothesis col_high : forall lv v, N.shiftr (col_index lv v) (p_hbits P) = lv mod vpm.
Hypothesis brl_small : p_brl P < two32.

(* a matcher result for map m: nil (wild card) or a strictly increasing list inside the map *)
Definition res_ok (m : N) (R : option (list N)) : Prop :=
  match R with None => True | Some l => ssorted l /\ in_map m l end.
Definition covers (R : option (list N)) (x : N) : Prop :=
  match R with None => True | Some l => In x l end.

Lemma match_any_ok fuel rw m alts R : match_any fuel rw m alts = Some R -> res_ok m R.
Proof.
  unfold LogIndex.match_any. intros H. destruct alts as [|v [|v2 alts]].
  - injection H as <-. exact I.
  - destruct (single_match fuel rw m v) as [l|] eqn:E; [|discriminate]. injection H as <-.
    eapply single_match_ok; eassumption.
  - set (al := v :: v2 :: alts) in *.
    destruct (opt_all (map (single_match fuel rw m) al)) as [rs|] eqn:E; [|discriminate].
    destruct (merge_results rs) as [l|] eqn:E2; [|discriminate]. injection H as <-.
    destruct (opt_all_map_spec _ _ _ E) as [_ Hback].
    assert (Hok : forall r, In r rs -> ssorted r /\ in_map m r).
    { intros r Hr. destruct (Hback _ Hr) as (a & _ & Ha). eapply single_match_ok; eassumption. }
    destruct (merge_results_spec _ _ E2 (fun r Hr => proj1 (Hok r Hr))) as [Hs Hm].
    split; [exact Hs|]. intros x Hx. apply Hm in Hx. destruct Hx as (r & Hr & Hx).
    exact (proj2 (Hok r Hr) x Hx).
Qed.

Lemma match_any_covers fuel rw m alts R q :
  match_any fuel rw m alts = Some R ->
  (alts = [] \/ exists v, In v alts /\ marked rw m q v) -> q / vpm = m -> covers R q.
Proof.
  unfold LogIndex.match_any. intros H Hc Hq. destruct alts as [|v [|v2 alts]].
  - injection H as <-. exact I.
  - destruct (single_match fuel rw m v) as [l|] eqn:E; [|discriminate]. injection H as <-.
    destruct Hc as [Hc|(v' & [<-|[]] & Hm)]; [discriminate|]. simpl.
    eapply single_match_complete; eassumption.
  - set (al := v :: v2 :: alts) in *.
    destruct (opt_all (map (single_match fuel rw m) al)) as [rs|] eqn:E; [|discriminate].
    destruct (merge_results rs) as [l|] eqn:E2; [|discriminate]. injection H as <-.
    destruct Hc as [Hc|(v' & Hv' & Hm)]; [discriminate|]. simpl.
    destruct (opt_all_map_spec _ _ _ E) as [Hfwd Hback].
    assert (Hok : forall r, In r rs -> ssorted r).
    { intros r Hr. destruct (Hback _ Hr) as (a & _ & Ha). eapply single_match_ok; eassumption. }
    destruct (merge_results_spec _ _ E2 Hok) as [_ Hmem].
    destruct (Hfwd _ Hv') as (r & Hr & Hin). apply Hmem. exists r. split; [exact Hin|].
    eapply single_match_complete; eassumption.
Qed.

Lemma match_results_ok m off b n : res_ok m b -> res_ok m n -> res_ok m (match_results m off b n).
Proof.
  unfold LogIndex.match_results. intros Hb Hn. destruct n as [nl|]; [|exact Hb].
  destruct (is_empty_list b) eqn:Ee; [exact Hb|].
  assert (Hsb : res_ok m (Some (shift_back (m * vpm + off) off nl))).
  { destruct Hn as [Hs Hm]. split; [apply shift_back_sorted; [lia | exact Hs]|].
    intros x Hx. apply shift_back_In in Hx. destruct Hx as (v & Hv & H1 & ->).
    apply (in_map_between P m _ v); [apply Hm; exact Hv | lia | lia]. }
  destruct b as [bl|]; [|exact Hsb]. destruct nl as [|n0 nl']; [exact Hsb|].
  destruct Hb as [Hs Hm]. split; [apply mr_loop_sorted; exact Hs|].
  intros x Hx. apply Hm. eapply mr_loop_sub. exact Hx.
Qed.

Lemma match_results_covers m off b n x :
  res_ok m b -> res_ok m n -> covers b x -> covers n (x + off) -> m * vpm <= x ->
  covers (match_results m off b n) x.
Proof.
  unfold LogIndex.match_results. intros Hb Hn Cb Cn Hx. destruct n as [nl|]; [|exact Cb].
  destruct (is_empty_list b) eqn:Ee; [exact Cb|].
  assert (Hsb : covers (Some (shift_back (m * vpm + off) off nl)) x).
  { simpl. apply shift_back_In. exists (x + off). split; [exact Cn|]. split; lia. }
  destruct b as [bl|]; [|exact Hsb]. destruct nl as [|n0 nl']; [exact Hsb|].
  simpl. apply mr_loop_complete; [exact (proj1 Hb) | exact (proj1 Hn) | exact Cb | exact Cn].
Qed.

(* the results that matchSequence's dropIndices optimisation relies on: if one child is
   known to be empty the other child's result is irrelevant *)
Lemma match_results_drop_next m off x : match_results m off (Some []) x = Some [].
Proof. unfold LogIndex.match_results. destruct x; reflexivity. Qed.
Lemma match_results_drop_base m off x : match_results m off x (Some []) = Some [].
Proof. unfold LogIndex.match_results. destruct x as [[|]|]; reflexivity. Qed.

(* --- the sequence matcher --- *)

(* [pats] (matcher list in order) matches the value sequence [vals] laid out from [pos]:
   every position is a wild card or one of its alternatives is marked at pos+i *)
Fixpoint seq_matches (rw : rows) (m pos : N) (pats : list (list N)) : Prop :=
  match pats with
  | [] => True
  | p :: r => (p = [] \/ exists v, In v p /\ marked rw m pos v) /\ seq_matches rw m (pos + 1) r
  end.

Lemma seq_matches_app rw m : forall ps pos p,
  seq_matches rw m pos (ps ++ [p]) <->
  seq_matches rw m pos ps /\ (p = [] \/ exists v, In v p /\ marked rw m (pos + N.of_nat (length ps)) v).
Proof.
  induction ps as [|p0 ps IH]; intros pos p; simpl.
  - rewrite N.add_0_r. tauto.
  - rewrite IH. replace (pos + 1 + N.of_nat (length ps)) with (pos + N.pos (Pos.of_succ_nat (length ps))) by lia.
    tauto.
Qed.

Lemma match_seq_rev_cons fuel rw m p rest : rest <> [] ->
  match_seq_rev fuel rw m (p :: rest) =
  match match_seq_rev fuel rw m rest, match_any fuel rw m p with
  | Some b, Some n => Some (match_results m (N.of_nat (length rest)) b n)
  | _, _ => None
  end.
Proof. destruct rest; [congruence | reflexivity]. Qed.

Lemma rev_nonempty {A} (l : list A) : l <> [] -> rev l <> [].
Proof.
  intros H E. apply (f_equal (@length _)) in E. rewrite rev_length in E.
  destruct l; [congruence | discriminate].
Qed.

Lemma match_seq_rev_spec fuel rw m pos : forall pats R,
  pats <> [] ->
  match_seq_rev fuel rw m (rev pats) = Some R ->
  res_ok m R /\
  (seq_matches rw m pos pats -> m * vpm <= pos ->
   (pos + N.of_nat (length pats) - 1) / vpm = m -> covers R pos).
Proof.
  induction pats as [|p ps IH] using rev_ind; intros R Hne H; [congruence|].
  rewrite rev_app_distr in H. change (rev [p] ++ rev ps) with (p :: rev ps) in H.
  destruct ps as [|p0 ps'].
  - (* single matcher *)
    simpl in *. split; [eapply match_any_ok; exact H|].
    intros [Hm _] Hlo Hhi. eapply match_any_covers; [exact H | exact Hm|].
    apply (in_map_between P m _ (pos + 1 - 1)); [exact Hhi | exact Hlo | lia].
  - set (ps := p0 :: ps') in *.
    assert (Hps : ps <> []) by discriminate.
    rewrite match_seq_rev_cons in H by (apply rev_nonempty; exact Hps).
    destruct (match_seq_rev fuel rw m (rev ps)) as [b|] eqn:Eb; [|discriminate].
    destruct (match_any fuel rw m p) as [n|] eqn:En; [|discriminate]. injection H as <-.
    destruct (IH b Hps eq_refl) as [Hbok Hbcov].
    pose proof (match_any_ok _ _ _ _ _ En) as Hnok.
    split; [apply match_results_ok; assumption|].
    intros Hsm Hlo Hhi. apply seq_matches_app in Hsm. destruct Hsm as [Hsm Hp].
    rewrite app_length in Hhi. simpl length in Hhi.
    replace (length (rev ps' ++ [p0])) with (length ps)
      by (unfold ps; rewrite app_length, rev_length; simpl; lia).
    assert (Hlen : (0 < length ps)%nat) by (unfold ps; simpl; lia).
    apply match_results_covers; try assumption.
    + apply Hbcov; [exact Hsm | exact Hlo|].
      apply (in_map_between P m _ (pos + N.of_nat (length ps + 1) - 1)); [exact Hhi | lia | lia].
    + eapply match_any_covers; [exact En | exact Hp|].
      apply (in_map_between P m _ (pos + N.of_nat (length ps + 1) - 1)); [exact Hhi | lia | lia].
Qed.

End Seq.
