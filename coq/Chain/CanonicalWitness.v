(* Chain/CanonicalWitness.v — concrete trees/histories for C38: a decidable
   well-formedness check for list-given trees, the non-vacuity example and the
   witnesses of the three refuted statements (all by vm_compute). *)
From Coq Require Import List NArith Bool Lia.
From GV Require Import Lib.Tactics Chain.Tree Chain.Canonical Chain.LookupCache Chain.CanonicalProofs Chain.CanonicalInv Chain.CanonicalTop Chain.CanonicalIndex Chain.CanonicalEvents Chain.CanonicalOps.
Import ListNotations.
Local Open Scope N_scope.

Definition wf_list (l : list (N * block)) : bool :=
  (match tree_of_list l 0 with Some g => b_number g =? 0 | None => false end) &&
  forallb (fun hb : N * block =>
             let (h, b) := hb in
             if b_number b =? 0 then h =? 0
             else match tree_of_list l (b_parent b) with
                  | Some p => b_number p + 1 =? b_number b
                  | None => false
                  end) l.

Lemma wf_list_sound : forall l, wf_list l = true -> wf_tree (tree_of_list l).
Proof.
  intros l H. apply andb_prop in H as [Hg Hall]. split.
  - destruct (tree_of_list l 0) as [g|]; [|discriminate]. exists g. split; auto. now apply N.eqb_eq.
  - intros h b Hb. unfold tree_of_list in Hb.
    destruct (find (fun p => fst p =? h) l) as [[h' b']|] eqn:EF; [|discriminate].
    inversion Hb; subst b'. apply find_some in EF as [Hin Hk]. cbn in Hk. apply N.eqb_eq in Hk. subst h'.
    rewrite forallb_forall in Hall. specialize (Hall _ Hin). cbn in Hall.
    destruct (N.eqb_spec (b_number b) 0) as [E|E].
    + left. split; auto. now apply N.eqb_eq.
    + right. split; [lia|]. destruct (tree_of_list l (b_parent b)) as [p|]; [|discriminate].
      exists p. split; auto. now apply N.eqb_eq.
Qed.

(* chain 1-2-3-4 on the genesis, competitor 5 at height 1; block 2 holds tx 7 with log 100 *)
Definition W : list (N * block) :=
  [ (0, mkblock 4294967295 0 [] []); (1, mkblock 0 1 [] []); (2, mkblock 1 2 [7] [100]);
    (3, mkblock 2 3 [] []); (4, mkblock 3 4 [] []); (5, mkblock 0 1 [9] [200]) ].
Definition WT : tree := tree_of_list W.

Lemma WT_wf : wf_tree WT.
Proof. apply wf_list_sound. vm_compute. reflexivity. Qed.

Definition wfuel : nat := 30.
Definition wrun (ops : list op) : db := run WT wfuel genesis_db ops.

(* non-vacuity: a history with a real reorg (1-2-3, then 5, then back to 3) ends linked *)
Definition nonvacuous_check : bool :=
  let st := wrun [OInsert [1;2;3]; OInsert [5]; OSetCanonical 3] in
  let mid := wrun [OInsert [1;2;3]; OInsert [5]] in
  oeqb (canon mid 1) 5 && match canon mid 2 with None => true | _ => false end &&
  oeqb (lookup mid 9) 1 && match lookup mid 7 with None => true | _ => false end &&
  oeqb (canon st 1) 1 && oeqb (canon st 2) 2 && oeqb (canon st 3) 3 && (hd_header st =? 3) &&
  oeqb (lookup st 7) 2 && match lookup st 9 with None => true | _ => false end.

Lemma nonvacuous_ok : nonvacuous_check = true.
Proof. vm_compute. reflexivity. Qed.

(* F1 (repaired by /repo 337872da5f, transcribed in whb_clear): SetHead onto a block whose
   state is gone rewinds the head block below the head header; importing a COMPETITOR on
   that head block used to leave canonical entries above the new head that were not its
   descendants (canon 2 = Some 2 under head 5).  With the repair the same history ends
   with nothing above the head. *)
Definition stale_ops : list op := [OInsert [1;2;3;4]; ORestart; OSetHead 2; OInsert [5]].
Lemma stale_repaired :
  let st := wrun stale_ops in
  hd_header st = 5 /\ hd_block st = 5 /\ canon st 1 = Some 5 /\ canon st 2 = None /\ canon st 3 = None.
Proof. vm_compute. repeat split; reflexivity. Qed.

(* what is still reachable: re-importing the SAME chain on the rewound head block pulls the
   head header down and leaves the old entries above it; they are descendants of the head *)
Definition linked_ops : list op := [OInsert [1;2;3;4]; ORestart; OSetHead 2; OInsert [1]].

(* F2: SetCanonical of a block that is already canonical (an ancestor of the head)
   emits that block's logs a second time, with no removal in between *)
Lemma reemit_witness :
  let st := wrun [OInsert [1;2;3]] in
  canon st 2 = Some 2 /\
  exists st' evs, step WT wfuel st (OSetCanonical 2) = (st', evs, None) /\
                  added_logs evs = [100] /\ removed_logs evs = [].
Proof. split; [vm_compute; reflexivity|]. eexists. eexists. split; [vm_compute; reflexivity|]. split; reflexivity. Qed.

(* F3: re-adopting known blocks through InsertChain (writeKnownBlock) switches the
   canonical chain back to 1-2 without announcing block 2's log again *)
Lemma known_reimport_witness :
  let st := wrun [OInsert [1;2]; OInsert [5]] in
  canon st 2 = None /\
  exists st' evs, step WT wfuel st (OInsert [1;2]) = (st', evs, None) /\
                  canon st' 2 = Some 2 /\ added_logs evs = [] /\ removed_logs evs = [200].
Proof. split; [vm_compute; reflexivity|]. eexists. eexists. split; [vm_compute; reflexivity|]. repeat split; reflexivity. Qed.

(* the statements exactly as Properties/C38.v gives them *)
Lemma no_entry_above_head_refuted :
  exists (T : tree) (fuel : nat) (ops : list op), wf_tree T /\
    let st := run T fuel genesis_db ops in
    hd_header st = 1 /\ hd_block st = 1 /\ num_of T 1 = 1 /\ canon st 1 = Some 1 /\
    canon st 2 = Some 2 /\ anc T 2 1 = Some 1 /\ resolve_tx T st 7 = Some (2, 2).
Proof. exists WT, wfuel, linked_ops. split; [exact WT_wf|]. vm_compute. repeat split; reflexivity. Qed.

Lemma set_canonical_reemits_logs_refuted :
  exists (T : tree) fuel st, canon st 2 = Some 2 /\
    exists st' evs, step T fuel st (OSetCanonical 2) = (st', evs, None) /\
                    added_logs evs = [100] /\ removed_logs evs = [].
Proof.
  exists WT, wfuel, (wrun [OInsert [1;2;3]]). split; [vm_compute; reflexivity|].
  eexists. eexists. split; [vm_compute; reflexivity|]. split; reflexivity.
Qed.

Lemma known_reimport_silent_refuted :
  exists (T : tree) fuel st, canon st 2 = None /\
    exists st' evs, step T fuel st (OInsert [1;2]) = (st', evs, None) /\
                    canon st' 2 = Some 2 /\ added_logs evs = [] /\ removed_logs evs = [200].
Proof.
  exists WT, wfuel, (wrun [OInsert [1;2]; OInsert [5]]). split; [vm_compute; reflexivity|].
  eexists. eexists. split; [vm_compute; reflexivity|]. repeat split; reflexivity.
Qed.

(* a history with SetHead and a restart along which the heads stay together: the
   hypotheses of C38_no_entry_above_head are met *)
Definition guarded_ops : list op :=
  [OInsert [1;2;3;4]; OSetHead 2; ORestart; OInsert [5]; OSetCanonical 2; OInsert [3]].

Lemma WT_genesis_parent : forall g, WT 0 = Some g -> WT (b_parent g) = None.
Proof. intros g H. vm_compute in H. inversion H; subst. vm_compute. reflexivity. Qed.

Lemma guarded_ok : heads_equal_along WT wfuel genesis_db guarded_ops /\ hd_header (wrun guarded_ops) = 3.
Proof. vm_compute. repeat split; reflexivity. Qed.

Lemma nonvacuous : wf_tree WT /\ nonvacuous_check = true /\
  (forall g, WT 0 = Some g -> WT (b_parent g) = None) /\
  heads_equal_along WT wfuel genesis_db guarded_ops /\ hd_header (wrun guarded_ops) = 3.
Proof.
  split; [exact WT_wf|]. split; [exact nonvacuous_ok|]. split; [exact WT_genesis_parent | exact guarded_ok].
Qed.

(* the cached public lookup path on the stale history (every tx asked after every
   operation): before /repo 34cd8539c8 ([legacy] cache semantics) writeHeadBlock replaced
   canonical block 1 by its competitor 5 and dropped marker #2 without purging the cache,
   so GetCanonicalTransaction(tx 7) kept answering block 2 (#2), which the index no longer
   resolves; with the purge it answers nothing *)
Definition cached_vs_index (legacy : bool) (ops : list op) (tx : N) : option (N * N) * option (N * N) * option N :=
  let '(st, c) := run_cache legacy WT wfuel [7; 9] genesis_db [] ops in
  (answer WT st c tx, resolve_tx WT st tx, canon st 2).

Lemma lookup_cache_stale_legacy_refuted :
  exists (ops : list op) (tx : N),
    cached_vs_index true ops tx = (Some (2, 2), None, None).
Proof. exists stale_ops, 7. vm_compute. reflexivity. Qed.

Lemma lookup_cache_repaired : cached_vs_index false stale_ops 7 = (None, None, None).
Proof. vm_compute. reflexivity. Qed.

(* ---- hypotheses of the tx-index theorem hold for WT ---- *)
Lemma once_global : forall T, wf_tree T ->
  (forall h1 h2 b1 b2 tx, T h1 = Some b1 -> T h2 = Some b2 -> In tx (b_txs b1) -> In tx (b_txs b2) -> h1 = h2) ->
  tx_once_per_branch T.
Proof.
  intros T Hwf HG x n1 n2 h1 h2 b1 b2 tx Hx A1 A2 B1 B2 I1 I2.
  assert (L1 : n1 <= hnum x) by (unfold anc in A1; unfold CanonicalProofs.hdr_ok in Hx; destruct x; cbn in *; rewrite Hx in A1; destruct (N.leb_spec n1 (b_number b)); [auto|discriminate]).
  assert (L2 : n2 <= hnum x) by (unfold anc in A2; unfold CanonicalProofs.hdr_ok in Hx; destruct x; cbn in *; rewrite Hx in A2; destruct (N.leb_spec n2 (b_number b)); [auto|discriminate]).
  destruct (anc_down T Hwf _ x n1 h1 Hx eq_refl L1 A1) as (c1 & C1 & N1 & _).
  destruct (anc_down T Hwf _ x n2 h2 Hx eq_refl L2 A2) as (c2 & C2 & N2 & _).
  assert (h1 = h2) by exact (HG h1 h2 b1 b2 tx B1 B2 I1 I2). subst h2. rewrite C1 in C2. inversion C2; subst. reflexivity.
Qed.

Lemma WT_once : tx_once_per_branch WT.
Proof.
  apply once_global; [exact WT_wf|].
  assert (K : forall h b tx, WT h = Some b -> In tx (b_txs b) -> (h = 2 /\ tx = 7) \/ (h = 5 /\ tx = 9)).
  { intros h b tx H I. unfold WT, tree_of_list, W in H. cbn -[N.eqb] in H.
    repeat match type of H with context [N.eqb ?a h] => destruct (N.eqb_spec a h) end;
      inversion H; subst; cbn in I; intuition (subst; auto). }
  intros h1 h2 b1 b2 tx H1 H2 I1 I2.
  destruct (K _ _ _ H1 I1) as [[-> ->]|[-> ->]]; destruct (K _ _ _ H2 I2) as [[-> E]|[-> E]]; auto; discriminate.
Qed.

Lemma WT_genesis_notx : forall g, WT 0 = Some g -> forall tx, ~ In tx (b_txs g).
Proof. intros g H tx I. vm_compute in H. inversion H; subst. destruct I. Qed.

(* SetHead leaves the entries of the blocks it deletes behind (C38-sethead-stale-lookups) *)
Lemma tx_index_sethead_refuted :
  let st := wrun [OInsert [1;2]; OSetHead 1] in
  lookup st 7 = Some 2 /\ canon st 2 = None /\ hd_header st = 1 /\ hd_block st = 1.
Proof. vm_compute. repeat split; reflexivity. Qed.

(* SetHead drops canonical block 2 (log 100) without any RemovedLogsEvent (C38-sethead-no-removed-logs) *)
Lemma set_head_no_removed_logs_refuted :
  let st := wrun [OInsert [1;2]] in
  canon st 2 = Some 2 /\
  exists st' evs, step WT wfuel st (OSetHead 1) = (st', evs, None) /\
                  canon st' 2 = None /\ removed_logs evs = [] /\ head_evs evs = [1].
Proof. split; [vm_compute; reflexivity|]. eexists. eexists. split; [vm_compute; reflexivity|]. repeat split; reflexivity. Qed.

(* the hypotheses of the per-operation event theorems are met: a three-block InsertChain on the
   genesis executes every block at its turn *)
Lemma fresh_segment_ok : exists l, resolve_all WT [1;2;3] = Some l /\ all_fresh WT wfuel genesis_db true l.
Proof. eexists. split; [vm_compute; reflexivity|]. vm_compute. repeat split; reflexivity. Qed.
