(* Chain/RestartCuts.v — C39: the crash cuts of the import history keep the C38
   invariant; nothing at or below the restart head is lost; witnesses (legacy reorg
   window refuted, repaired window fine, non-vacuity) by vm_compute. *)
From Coq Require Import List NArith Bool Lia.
From GV Require Import Lib.Tactics Chain.Tree Chain.Canonical Chain.CanonicalProofs Chain.CanonicalInv Chain.CanonicalTop Chain.Restart Chain.RestartProofs.
Import ListNotations.
Local Open Scope N_scope.

Section C.
Variable T : tree.
Hypothesis Hwf : wf_tree T.
Hypothesis Hgp : forall g, T 0 = Some g -> T (b_parent g) = None.

Notation Strict2 := (Strict2 T).
Notation Inv := (Inv T).

(* the image cut inside InsertChain: the state right after the block-data batch is a state
   of the invariant; the state before the head-marker batch is [before_head_write] of one *)
Lemma import_cut_pre : forall legacy fuel st l x at_head st',
  import_cut T legacy fuel st l x at_head = Some st' -> Strict2 st ->
  exists st2 b, T x = Some b /\ Strict2 st2 /\ is_known st2 x = true /\
    (at_head = false -> st' = st2) /\
    (at_head = true -> before_head_write T legacy fuel st2 (x, b) = Some st').
Proof.
  intros legacy fuel st l x at_head st' H HS. unfold import_cut in H.
  destruct (resolve_all T l) as [hs|]; [|discriminate].
  destruct (split_at x l) as [pre|]; [|discriminate].
  destruct (T x) as [b|] eqn:ET; [|discriminate].
  destruct (contiguous hs); cbn [negb] in H; [|discriminate].
  assert (HS1 : forall st1 ev e1, (match pre with [] => (st, [], None) | _ => step T fuel st (OInsert pre) end) = (st1, ev, e1) ->
                Strict2 st1).
  { intros st1 ev e1 E. destruct pre as [|a r].
    - inversion E; subst; auto.
    - eapply (step_import_strict2 T Hwf Hgp); eauto. exact I. }
  destruct (match pre with [] => (st, [], None) | _ => step T fuel st (OInsert pre) end) as [[st1 ev] e1] eqn:EP.
  specialize (HS1 _ _ _ eq_refl).
  destruct e1; [discriminate|].
  destruct (classify st1 (match pre with [] => true | _ => false end) (x, b)); try discriminate.
  destruct (write_block_with_state st1 (x, b)) as [st2|] eqn:EW; [|discriminate].
  exists st2, b. split; [reflexivity|]. split; [eapply (Strict2_wbws T); eauto|].
  split; [exact (proj2 (wbws_known st1 (x, b) st2 x EW))|].
  split; [intros ->; now inversion H | intros ->; exact H].
Qed.

Lemma bhw_noreorg : forall legacy fuel st x st', before_head_write T legacy fuel st x = Some st' ->
  b_parent (snd x) = hd_block st -> st' = st.
Proof.
  intros legacy fuel st x st' H E. unfold before_head_write in H. rewrite E, N.eqb_refl in H. now inversion H.
Qed.

(* ALL histories of imports / commits / freezes from the fresh chain, cut after the last
   operation or right after a block-data batch inside it: the image satisfies the C38
   invariant in its strict form (heads equal, nothing above the head, every canonical
   block stored) *)
Lemma crash_state_strict2 : forall cf fuel ops c p es,
  run_to_cut T cf fuel (mkp genesis_db 0) ops c = (ROk p, es) ->
  (forall x, c <> CutHead x) -> Strict2 (kv p).
Proof.
  intros cf fuel ops c p es H Hc. unfold run_to_cut in H.
  destruct (rev ops) as [|last rinit]; [inversion H; subst; apply (Strict2_genesis T Hwf)|].
  destruct (run_ops T (c_path cf) fuel (mkp genesis_db 0) (rev rinit)) as [[p1|x] es1] eqn:ER; [|discriminate].
  pose proof (run_ops_strict2 T Hwf Hgp _ _ _ _ _ _ ER (Strict2_genesis T Hwf)) as HS1.
  destruct (cut_last T (c_path cf) (c_legacy_reorg cf) fuel p1 last c) as [res e] eqn:EC.
  inversion H; subst res es; clear H.
  unfold cut_last in EC. cbv zeta in EC.
  assert (Hwhole : forall r e0, sstep T (c_path cf) fuel p1 last = (r, e0) -> r = ROk p -> Strict2 (kv p)).
  { intros r e0 E ->. eapply (sstep_strict2 T Hwf Hgp); eauto. }
  destruct last as [l|h|f]; destruct c as [|x|x]; try (now eapply Hwhole; eauto; inversion EC; eauto);
    try (exfalso; now apply (Hc x)).
  - (* CutBlock inside an import *)
    destruct (import_cut T (c_legacy_reorg cf) fuel (kv p1) l x false) as [st|] eqn:EI.
    + inversion EC; subst. cbn [kv].
      destruct (import_cut_pre _ _ _ _ _ _ _ EI HS1) as (st2 & b & _ & HS2 & _ & E & _). now rewrite (E eq_refl).
    + destruct (sstep T (c_path cf) fuel p1 (SImport l)) as [r e0] eqn:ES. inversion EC; subst. eapply Hwhole; eauto.
Qed.

(* the cut right before the head-marker batch of a block that extends the head (no reorg) *)
Lemma crash_state_head_cut_noreorg : forall legacy fuel st l x st',
  import_cut T legacy fuel st l x true = Some st' -> Strict2 st ->
  (forall st2 b, T x = Some b -> Strict2 st2 -> before_head_write T legacy fuel st2 (x, b) = Some st' ->
                 b_parent b = hd_block st2) ->
  Strict2 st'.
Proof.
  intros legacy fuel st l x st' H HS Hno.
  destruct (import_cut_pre _ _ _ _ _ _ _ H HS) as (st2 & b & ET & HS2 & _ & _ & E).
  specialize (E eq_refl). rewrite (bhw_noreorg _ _ _ _ _ E (Hno _ _ ET HS2 E)). exact HS2.
Qed.

(* T4: nothing at or below the restart head is lost: the canonical index there is what it
   was before the crash and its blocks are still stored *)
Lemma restart_no_loss : forall c fuel p p', new_blockchain T c fuel p = ROk p' ->
  Inv (kv p) -> Kc (kv p) ->
  forall n, n <= num_of T (hd_block (kv p')) ->
    canon (kv p') n = canon (kv p) n /\
    (forall h, canon (kv p) n = Some h -> is_known (kv p') h = true).
Proof.
  intros c fuel p p' H HI HK n Hn.
  destruct (nb_cases T _ _ _ _ H) as (gb & st1 & head & EG & EL & EH & _ & [[EA ->]|[EA ER]]).
  - cbn [kv] in *. apply (lls_spec T) in EL as (_ & _ & E3 & E4 & _). rewrite E3. split; auto.
    intros h Hc. specialize (HK n h Hc). unfold is_known in *. now rewrite E4.
  - pose proof (lls_inv T Hwf _ _ EL HI) as HI1. pose proof (lls_Kc T _ _ EL HK) as HK1.
    pose proof (lls_spec T _ _ EL) as (_ & _ & E3 & E4 & _).
    apply (get_by_hash_fst T) in EH as (Ef & Hok & Hkh).
    pose proof (genesis_is T Hwf _ EG) as Hg.
    unfold repair in ER. cbn [kv frozen] in ER.
    destruct (rewind_head T c fuel st1 (0, gb) head) as [nh|] eqn:ERW; [|discriminate].
    pose proof (rewind_head_anc T Hwf _ _ _ _ _ _ ERW Hok Hg) as Hanc. cbv zeta in ER.
    match type of ER with context [with_heads st1 (fst nh) (hd_header st1) ?ns] => set (snp := ns) in * end.
    set (st2 := with_heads st1 (fst nh) (hd_header st1) snp) in *.
    destruct (Inv_elim T st1 HI1) as (hb & bb & Hh & HG & HA).
    assert (E : head = (hd_block st1, bb)).
    { apply (hdr_ok_inj T head (hd_block st1, bb) Hok (proj1 HA)). cbn [fst]. exact Ef. }
    rewrite <- E in HA.
    assert (HI2 : Inv st2).
    { apply (Inv_intro T st2 (hd_header st1, hb) nh Hh eq_refl HG); [|reflexivity].
      apply (IsAnc_trans T Hwf (hd_header st1, hb) head nh Hh HA Hanc). }
    assert (HK2 : Kc st2) by exact HK1.
    assert (Hnh : num_of T (fst nh) = hnum nh) by (apply (num_of_hdr T); apply Hanc).
    destruct (hnum nh + 1 <? frozen p).
    + destruct (hc_set_head T fuel st2 (0, gb) (hnum nh) true []) as [[st3 dels]|] eqn:EHC; [|discriminate].
      destruct (load_last_state T (delete_heights T st3 dels)) as [st4|] eqn:EL2; [|discriminate].
      inversion ER; subst p'; clear ER. cbn [kv] in *.
      assert (Hb2 : num_of T (hd_block st2) <= hnum nh) by (cbn; rewrite Hnh; lia).
      destruct (hc_inv T Hwf _ _ _ _ _ _ _ _ EHC HI2 HK2 Hg Hb2) as (HI3 & HD3 & _ & Hnum); [intros d []|].
      pose proof (hc_frame T _ _ _ _ _ _ _ _ EHC) as (F1 & _ & F3 & F4 & _).
      pose proof (lls_spec T _ _ EL2) as (G1 & _ & G3 & G4 & _).
      assert (Hhead : num_of T (hd_header st3) = hnum nh).
      { apply Hnum. change (hnum nh <= num_of T (hd_header st1)).
        pose proof (num_of_hdr T (hd_header st1, hb) Hh) as Enh. cbn [fst] in Enh. rewrite Enh.
        destruct HA as (_ & Hle1 & _). destruct Hanc as (_ & Hle2 & _). unfold hnum in *. cbn [snd] in *. lia. }
      assert (Hn' : n <= hnum nh).
      { rewrite G1 in Hn. cbn [delete_heights hd_block] in Hn. rewrite F1 in Hn. cbn in Hn. now rewrite Hnh in Hn. }
      assert (Hnot : mem n dels = false).
      { destruct (mem n dels) eqn:EM; auto. apply mem_In in EM. specialize (HD3 n EM). lia. }
      split.
      * rewrite G3. cbn [delete_heights canon]. rewrite Hnot, F3. cbn. now rewrite E3.
      * intros h Hc. unfold is_known. rewrite G4.
        assert (HK3 : Kc st3) by (intros m k Hm; rewrite F3 in Hm; specialize (HK2 m k Hm); unfold is_known in *; now rewrite F4).
        apply (delete_heights_Kc T Hwf st3 dels HK3 HI3 HD3 n h); [lia|].
        cbn [delete_heights canon]. rewrite Hnot, F3. cbn. now rewrite E3.
    + destruct (load_last_state T st2) as [st4|] eqn:EL2; [|discriminate].
      inversion ER; subst p'; clear ER. cbn [kv] in *.
      pose proof (lls_spec T _ _ EL2) as (_ & _ & G3 & G4 & _). rewrite G3. cbn. rewrite E3. split; auto.
      intros h Hc. specialize (HK n h Hc). unfold is_known in *. rewrite G4. cbn. now rewrite E4.
Qed.

(* without a snapshot root to pass, the restart head is the NEWEST stateful block on the old
   head's ancestor path: a canonical block with durable state at or below the old head
   block is at or below the restart head *)
Lemma rewind_newest : forall fuel st g x y, rewind T fuel st g x = Some y -> hdr_ok T x ->
  (forall w, IsAnc T x w -> is_known st (fst w) = true) ->
  forall z, IsAnc T x z -> avail st (fst z) = true -> hnum z <= hnum y.
Proof.
  induction fuel as [|f IH]; intros st g x y H Hx Hkn z Hz Hav; [discriminate|].
  cbn [rewind] in H. destruct (avail st (fst x)) eqn:EA.
  - inversion H; subst. apply Hz.
  - destruct (N.eq_dec (hnum z) (hnum x)) as [En|En].
    { (* z = x: but x has no state *) exfalso. destruct Hz as (Hzo & _ & Ha). rewrite En, (anc_self T x Hx) in Ha.
      inversion Ha as [Ef]. rewrite <- Ef in Hav. congruence. }
    assert (Hlt : hnum z < hnum x) by (destruct Hz as (_ & Hle & _); lia).
    destruct (wf_parent T Hwf x Hx) as [E0|(p & Hp)]; [lia|].
    pose proof Hp as (Hpo & Hpf & Hpn).
    assert (Hzp : IsAnc T (b_parent (snd x), p) z).
    { destruct Hz as (Hzo & Hle & Ha). repeat split; auto; [lia|].
      rewrite <- (anc_parent T x _ (hnum z) Hx Hp) by lia. exact Ha. }
    destruct (parent_hdr T st x) as [q|] eqn:EP.
    + pose proof (parent_hdr_spec T _ _ _ EP) as Hq.
      assert (q = (b_parent (snd x), p)).
      { apply (hdr_ok_inj T); [apply Hq|exact Hpo|]. destruct Hq as (_ & -> & _). reflexivity. }
      subst q. destruct (N.eqb_spec (hnum (b_parent (snd x), p)) 0) as [E0|E0].
      * inversion H; subst. destruct Hzp as (_ & Hle & _). exact Hle.
      * eapply (IH _ _ _ _ H Hpo); eauto.
        intros w Hw. apply Hkn. apply (IsAnc_trans T Hwf x (b_parent (snd x), p) w Hx); auto. now apply IsAnc_parent.
    + (* the parent is stored (it is an ancestor of x): the walk cannot jump to genesis *)
      exfalso. apply (parent_hdr_some T Hwf Hgp st x Hx); auto; [lia|].
      intros p' Hp'. apply Hkn. now apply IsAnc_parent.
Qed.

End C.

(* ------------------------------------------------------------ witnesses *)

(* decidable well-formedness of list-given trees (as in C38's CanonicalWitness.v; repeated
   here so that C39 does not depend on that file) *)
Definition wf_list (l : list (N * block)) : bool :=
  (match tree_of_list l 0 with Some g => b_number g =? 0 | None => false end) &&
  forallb (fun hb : N * block =>
             let (h, b) := hb in
             if b_number b =? 0 then h =? 0
             else match tree_of_list l (b_parent b) with
                  | Some p => b_number p + 1 =? b_number b
                  | None => false
                  end) l.

Lemma wf_list_sound : forall l, wf_list l = true -> wf_tree (tree_of_list l).
Proof.
  intros l H. apply andb_prop in H as [Hg Hall]. split.
  - destruct (tree_of_list l 0) as [g|]; [|discriminate]. exists g. split; auto. now apply N.eqb_eq.
  - intros h b Hb. unfold tree_of_list in Hb.
    destruct (find (fun p => fst p =? h) l) as [[h' b']|] eqn:EF; [|discriminate].
    inversion Hb; subst b'. apply find_some in EF as [Hin Hk]. cbn in Hk. apply N.eqb_eq in Hk. subst h'.
    rewrite forallb_forall in Hall. specialize (Hall _ Hin). cbn in Hall.
    destruct (N.eqb_spec (b_number b) 0) as [E|E].
    + left. split; auto. now apply N.eqb_eq.
    + right. split; [lia|]. destruct (tree_of_list l (b_parent b)) as [p|]; [|discriminate].
      exists p. split; auto. now apply N.eqb_eq.
Qed.

(* chain 1-2-3-4 on the genesis, competitor 5 at height 1 *)
Definition W1 : list (N * block) :=
  [ (0, mkblock 4294967295 0 [] []); (1, mkblock 0 1 [] []); (2, mkblock 1 2 [] []);
    (3, mkblock 2 3 [] []); (4, mkblock 3 4 [] []); (5, mkblock 0 1 [] []) ].
Definition WT : tree := tree_of_list W1.
Lemma WT_wf : wf_tree WT.
Proof. apply wf_list_sound. vm_compute. reflexivity. Qed.

(* chain 1-2-3 on the genesis, competitor 6 on block 1 *)
Definition W2 : list (N * block) :=
  [ (0, mkblock 4294967295 0 [] []); (1, mkblock 0 1 [] []); (2, mkblock 1 2 [] []);
    (3, mkblock 2 3 [] []); (6, mkblock 1 2 [] []) ].
Definition WT2 : tree := tree_of_list W2.
Lemma WT2_wf : wf_tree WT2.
Proof. apply wf_list_sound. vm_compute. reflexivity. Qed.

Definition cfg_fixed : cfg := mkcfg false None false.
Definition cfg_legacy : cfg := mkcfg false None true.

Definition crash_restart (T : tree) (cf : cfg) (ops : list sop) (c : cut) (dur : list N) : rres pst :=
  match run_to_cut T cf 30 (mkp genesis_db 0) ops c with
  | (ROk p, _) => new_blockchain T cf 30 (crash p (fun h => mem h dur))
  | (RErr e, _) => RErr e
  end.

(* legacy reorg window, (a): crash between reorg's index batch and the head write of
   block 6 (whose state of block 3 is durable): the chain comes up with head header 3 at
   height 3 and NO canonical entry at heights 2 and 3 *)
Definition legacy_hole_check : bool :=
  match crash_restart WT2 cfg_legacy [SImport [1;2;3]; SImport [6]] (CutHead 6) [0; 3] with
  | ROk p => (hd_header (kv p) =? 3) && (hd_block (kv p) =? 3) &&
             match canon (kv p) 3, canon (kv p) 2 with None, None => true | _, _ => false end
  | RErr _ => false
  end.
Lemma legacy_hole : legacy_hole_check = true.
Proof. vm_compute. reflexivity. Qed.

(* (b): the same window when the common ancestor is the genesis block (competitor 5 of
   W1 at height 1): rawdb.Open refuses the database *)
Definition legacy_open_check : bool :=
  match crash_restart WT cfg_legacy [SImport [1;2;3]; SImport [5]] (CutHead 5) [0] with
  | RErr ROpenGap => true
  | _ => false
  end.
Lemma legacy_open : legacy_open_check = true.
Proof. vm_compute. reflexivity. Qed.

(* the repaired code on the same two histories: the chain comes up on the common ancestor
   (its state is gone: rewound to genesis in (a)), index linked up to the head header *)
Definition fixed_check : bool :=
  match crash_restart WT2 cfg_fixed [SImport [1;2;3]; SImport [6]] (CutHead 6) [0; 3],
        crash_restart WT cfg_fixed [SImport [1;2;3]; SImport [5]] (CutHead 5) [0] with
  | ROk p, ROk q =>
    (hd_header (kv p) =? 1) && (hd_block (kv p) =? 0) && oeqb (canon (kv p) 1) 1 &&
    match canon (kv p) 2 with None => true | _ => false end &&
    (hd_header (kv q) =? 0) && (hd_block (kv q) =? 0) &&
    match canon (kv q) 1 with None => true | _ => false end
  | _, _ => false
  end.
Lemma fixed_ok : fixed_check = true.
Proof. vm_compute. reflexivity. Qed.

(* non-vacuity: a history with a freeze, a crash that loses the head state, a repair that
   rewinds below the freezer boundary (ancient store truncated) and a re-import *)
Definition nonvacuous_check : bool :=
  match crash_restart WT cfg_fixed [SImport [1;2;3;4]; SFreeze 3] CutAfter [0; 1] with
  | ROk p =>
    (hd_block (kv p) =? 1) && (hd_header (kv p) =? 1) && (frozen p =? 2) &&
    oeqb (canon (kv p) 1) 1 && match canon (kv p) 2 with None => true | _ => false end &&
    negb (is_known (kv p) 3) &&
    (let '(q, e) := reimport WT 30 p [2;3;4] in
     match e with None => (hd_block (kv q) =? 4) && oeqb (canon (kv q) 4) 4 | Some _ => false end)
  | RErr _ => false
  end.
Lemma nonvacuous_ok : nonvacuous_check = true.
Proof. vm_compute. reflexivity. Qed.

(* the statements exactly as Properties/C39.v gives them *)
Lemma head_has_state_crash : forall T, wf_tree T -> forall c fuel p dur p',
  new_blockchain T c fuel (crash p dur) = ROk p' ->
  dur (hd_block (kv p')) = true \/ hd_block (kv p') = 0.
Proof.
  intros T Hwf c fuel p dur p' H. destruct (restart_head_has_state T Hwf _ _ _ _ H) as (Hs & Ea).
  rewrite Ea in Hs. exact Hs.
Qed.

Lemma restart_linked : forall T, wf_tree T -> forall c fuel p p',
  new_blockchain T c fuel p = ROk p' -> Inv T (kv p) -> Kc (kv p) ->
  let st := kv p' in
  exists hb, T (hd_header st) = Some hb /\
    canon st (b_number hb) = Some (hd_header st) /\
    (forall n, n < b_number hb -> exists h b, canon st (n + 1) = Some h /\ T h = Some b /\
                                              b_number b = n + 1 /\ canon st n = Some (b_parent b)) /\
    (exists bb, T (hd_block st) = Some bb /\ b_number bb <= b_number hb /\
                canon st (b_number bb) = Some (hd_block st)).
Proof.
  intros T Hwf c fuel p p' H HI HK st. apply (Inv_linked T Hwf). eapply restart_inv; eauto.
Qed.

Lemma crash_states_linked : forall T, wf_tree T -> (forall g, T 0 = Some g -> T (b_parent g) = None) ->
  forall cf fuel ops c p es dur p',
  run_to_cut T cf fuel (mkp genesis_db 0) ops c = (ROk p, es) -> (forall x, c <> CutHead x) ->
  new_blockchain T cf fuel (crash p dur) = ROk p' ->
  let st := kv p' in
  (dur (hd_block st) = true \/ hd_block st = 0) /\
  exists hb, T (hd_header st) = Some hb /\
    canon st (b_number hb) = Some (hd_header st) /\
    (forall n, n < b_number hb -> exists h b, canon st (n + 1) = Some h /\ T h = Some b /\
                                              b_number b = n + 1 /\ canon st n = Some (b_parent b)) /\
    (exists bb, T (hd_block st) = Some bb /\ b_number bb <= b_number hb /\
                canon st (b_number bb) = Some (hd_block st)).
Proof.
  intros T Hwf Hgp cf fuel ops c p es dur p' HR Hc HN st.
  destruct (crash_state_strict2 T Hwf Hgp _ _ _ _ _ _ HR Hc) as ((HI & _ & _) & HK).
  split; [eapply head_has_state_crash; eauto|].
  eapply (restart_linked T Hwf); eauto.
Qed.

Lemma no_loss_crash : forall T, wf_tree T -> (forall g, T 0 = Some g -> T (b_parent g) = None) ->
  forall cf fuel ops c p es dur p',
  run_to_cut T cf fuel (mkp genesis_db 0) ops c = (ROk p, es) -> (forall x, c <> CutHead x) ->
  new_blockchain T cf fuel (crash p dur) = ROk p' ->
  forall n, n <= num_of T (hd_block (kv p')) ->
    canon (kv p') n = canon (kv p) n /\
    (forall h, canon (kv p) n = Some h -> is_known (kv p') h = true).
Proof.
  intros T Hwf Hgp cf fuel ops c p es dur p' HR Hc HN n Hn.
  destruct (crash_state_strict2 T Hwf Hgp _ _ _ _ _ _ HR Hc) as ((HI & _ & _) & HK).
  exact (restart_no_loss T Hwf Hgp _ _ (crash p dur) _ HN HI HK n Hn).
Qed.

Lemma reimport_inv : forall T, wf_tree T -> forall fuel p l p' e,
  reimport T fuel p l = (p', e) -> Inv T (kv p) -> Inv T (kv p').
Proof.
  intros T Hwf fuel p l p' e H HI. unfold reimport in H. destruct l as [|a r]; [now inversion H; subst|].
  destruct (step T fuel (kv p) (OInsert (a :: r))) as [[st ev] e1] eqn:ES. inversion H; subst. cbn [kv].
  eapply (step_import_inv T Hwf); eauto. exact I.
Qed.

Lemma legacy_window_refuted :
  (exists T ops c dur, wf_tree T /\ crash_restart T cfg_legacy ops c dur = RErr ROpenGap) /\
  (exists T ops c dur p, wf_tree T /\ crash_restart T cfg_legacy ops c dur = ROk p /\
     hd_header (kv p) = 3 /\ num_of T 3 = 3 /\ canon (kv p) 3 = None).
Proof.
  split.
  - exists WT, [SImport [1;2;3]; SImport [5]], (CutHead 5), [0]. split; [exact WT_wf|]. vm_compute. reflexivity.
  - exists WT2, [SImport [1;2;3]; SImport [6]], (CutHead 6), [0; 3]. eexists. split; [exact WT2_wf|].
    split; [vm_compute; reflexivity|]. repeat split; reflexivity.
Qed.
