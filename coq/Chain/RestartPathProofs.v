(* Chain/RestartPathProofs.v — C39: over ALL histories of executed blocks, commits, clean
   shutdowns and crash+reopen of the path database counters (Chain/RestartPath.v), the
   state-history head equals the disk layer id — in particular after every reopen, also
   when the journal of an EARLIER clean shutdown is accepted after a later crash. *)
From Coq Require Import List NArith Bool Lia.
From GV Require Import Lib.Tactics Chain.Restart Chain.RestartPath.
Import ListNotations.
Local Open Scope N_scope.

(* the invariant of the running process *)
Definition PInv (d : pdb) : Prop :=
  pd_fh d = pd_did d /\ pd_pid d <= pd_did d /\
  match pd_jr d with
  | Some (jp, jd) => jp <= pd_pid d /\ (jp = pd_pid d -> pd_pid d <= jd /\ jd <= pd_did d)
  | None => True
  end.

Lemma PInv_init : PInv pd0.
Proof. unfold PInv, pd0. cbn. repeat split; lia. Qed.

Lemma PInv_grow : forall m d, PInv d -> PInv (pd_grow m d).
Proof.
  intros m d (Hf & Hp & Hj). unfold PInv, pd_grow. cbn [pd_fh pd_did pd_pid pd_jr].
  split; [|split].
  - destruct (N.ltb_spec (pd_did d) (N.max (pd_did d) (m - 128))); lia.
  - lia.
  - destruct (pd_jr d) as [[jp jd]|]; auto. destruct Hj as (H1 & H2). split; auto. intros E. specialize (H2 E). lia.
Qed.

Lemma PInv_commit : forall m d, PInv d -> PInv (pd_commit m d).
Proof.
  intros m d (Hf & Hp & Hj). unfold pd_commit. destruct (N.ltb_spec (pd_did d) m) as [Hlt|Hge]; [|repeat split; auto].
  unfold PInv. cbn [pd_fh pd_did pd_pid pd_jr]. split; [reflexivity|]. split; [lia|].
  destruct (pd_jr d) as [[jp jd]|]; auto. destruct Hj as (H1 & _). split; [lia|]. intros E. lia.
Qed.

Lemma PInv_stop : forall d, PInv d -> PInv (pd_stop d).
Proof.
  intros d (Hf & Hp & _). unfold PInv, pd_stop. cbn [pd_fh pd_did pd_pid pd_jr]. repeat split; auto; lia.
Qed.

Lemma PInv_reopen : forall d, PInv d -> PInv (pd_reopen d).
Proof.
  intros d (Hf & Hp & Hj). unfold pd_reopen, pd_reopen_gen. destruct (pd_jr d) as [[jp jd]|] eqn:EJ.
  - destruct Hj as (H1 & H2). destruct (N.eqb_spec jp (pd_pid d)) as [E|E].
    + specialize (H2 E). unfold PInv. cbn [pd_fh pd_did pd_pid pd_jr]. rewrite ?EJ.
      split; [lia|]. split; [lia|]. split; [lia|]. intros _. lia.
    + unfold PInv. cbn [pd_fh pd_did pd_pid pd_jr]. rewrite ?EJ.
      split; [lia|]. split; [lia|]. split; [lia|]. intros E'. contradiction.
  - unfold PInv. cbn [pd_fh pd_did pd_pid pd_jr]. rewrite ?EJ. repeat split; lia.
Qed.

Lemma PInv_step : forall d o, PInv d -> PInv (pstep d o).
Proof.
  intros d [m|m| |] H; cbn [pstep]; [apply PInv_grow|apply PInv_commit|apply PInv_stop|apply PInv_reopen]; auto.
Qed.

Lemma PInv_run : forall ops d, PInv d -> PInv (fold_left pstep ops d).
Proof. induction ops as [|o r IH]; intros d H; cbn; auto. apply IH. now apply PInv_step. Qed.

(* history head = disk layer id, persistent id at or below it, for every history *)
Lemma history_aligned : forall ops,
  let d := fold_left pstep ops pd0 in pd_fh d = pd_did d /\ pd_pid d <= pd_did d.
Proof. intros ops d. destruct (PInv_run ops pd0 PInv_init) as (H1 & H2 & _). split; auto. Qed.

(* the truncation is what this rests on: 140 blocks, clean Stop, restart, 5 more blocks,
   crash, restart — the journal of the first shutdown is accepted again (the persistent
   state has not moved) and without the truncation 5 histories dangle above the disk layer *)
Lemma reopen_without_truncation_breaks :
  let d := pd_reopen_gen true (pd_grow 145 (pd_reopen (pd_stop (pd_grow 140 pd0)))) in
  pd_did d = 12 /\ pd_fh d = 17 /\
  let d' := pd_reopen (pd_grow 145 (pd_reopen (pd_stop (pd_grow 140 pd0)))) in
  pd_did d' = 12 /\ pd_fh d' = 12.
Proof. vm_compute. repeat split; reflexivity. Qed.
