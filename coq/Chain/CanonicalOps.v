(* Chain/CanonicalOps.v — one statement per OPERATION for the event lists (C38): InsertChain of
   a contiguous segment of blocks that are all freshly executed, and the engine-API pair
   InsertBlockWithoutSetHead / SetCanonical. *)
From Coq Require Import List NArith Bool Lia.
From GV Require Import Lib.Tactics Chain.Tree Chain.Canonical Chain.CanonicalProofs Chain.CanonicalInv Chain.CanonicalState Chain.CanonicalEvents.
Import ListNotations.
Local Open Scope N_scope.

Section Ops.
Variable T : tree.
Notation hdr_ok := (hdr_ok T).

Lemma cur_hdr_ok : forall s cur, cur_hdr T s = Some cur -> hdr_ok cur.
Proof.
  intros s cur H. unfold cur_hdr in H. destruct (T (hd_block s)) as [b|] eqn:E; inversion H; subst. exact E.
Qed.

Lemma last_cons : forall (A : Type) (r : list A) (x prev : A), List.last (x :: r) prev = List.last r x.
Proof.
  induction r as [|h t IH]; intros x prev; [reflexivity|].
  change (List.last (x :: h :: t) prev) with (List.last (h :: t) prev). now rewrite !IH.
Qed.

Definition block_logs (l : list hdr) : list N := flat_map (fun x => b_logs (snd x)) l.

(* a freshly executed block on top of the current head: announced, nothing removed *)
Lemma wbash_extend : forall fuel st x st' ev,
  write_block_and_set_head T fuel st x = Ok (st', ev) -> b_parent (snd x) = hd_block st ->
  removed_logs ev = [] /\ added_logs ev = b_logs (snd x) /\ chain_evs ev = [fst x] /\ head_evs ev = [].
Proof.
  intros fuel st x st' ev H E. unfold write_block_and_set_head in H.
  destruct (write_block_with_state st x) as [st1|] eqn:EB; [|discriminate].
  assert (Eb : hd_block st1 = hd_block st).
  { unfold write_block_with_state in EB.
    destruct (negb (is_known st (b_parent (snd x))) && negb (hnum x =? 0)); [discriminate|].
    inversion EB; subst. cbn. unfold add_known. destruct (is_known st (fst x)); reflexivity. }
  unfold reorg_if_needed in H. rewrite Eb, <- E, N.eqb_refl in H.
  destruct (write_head_block fuel st1 x) as [st3|] eqn:EW; [|discriminate]. inversion H; subst.
  destruct (whb_purge_quiet (canon st1) x) as (Pr & Pa & Pc & Ph). cbn [app].
  rewrite !removed_logs_app, !added_logs_app, !chain_evs_app, !head_evs_app, Pr, Pa, Pc, Ph.
  destruct (b_logs (snd x)); cbn; rewrite ?app_nil_r; auto.
Qed.

Lemma wbash_head : forall fuel st x st' ev,
  write_block_and_set_head T fuel st x = Ok (st', ev) -> hd_block st' = fst x.
Proof.
  intros fuel st x st' ev H. unfold write_block_and_set_head in H.
  destruct (write_block_with_state st x) as [st1|]; [|discriminate].
  destruct (reorg_if_needed T fuel st1 x) as [[st2 ev2]|]; [|discriminate].
  destruct (write_head_block fuel st2 x) as [st3|] eqn:EW; [|discriminate]. inversion H; subst.
  destruct (whb_spec _ _ _ _ EW) as (_ & _ & _ & _ & Eb & _). exact Eb.
Qed.

(* every block of the segment is executed when its turn comes (no known block, no missing or
   stateless parent) *)
Fixpoint all_fresh (fuel : nat) (st : db) (first : bool) (l : list hdr) : Prop :=
  match l with
  | [] => True
  | x :: r => classify st first x = CFresh /\
              match write_block_and_set_head T fuel st x with
              | Ok (st1, _) => all_fresh fuel st1 false r
              | Err _ => True
              end
  end.

(* the blocks after the first extend the head one by one *)
Lemma import_loop_extend : forall fuel l st prev last evs st' last' evs' e',
  import_loop T fuel st true false l last evs = (st', last', evs', e') -> e' = None ->
  all_fresh fuel st false l -> hd_block st = fst prev -> contiguous (prev :: l) = true ->
  exists E, evs' = evs ++ E /\ removed_logs E = [] /\ added_logs E = block_logs l /\
            chain_evs E = map fst l /\ head_evs E = [] /\
            last' = match l with [] => last | _ => Some (fst (List.last l prev)) end /\
            hd_block st' = fst (List.last l prev).
Proof.
  induction l as [|x r IH]; intros st prev last evs st' last' evs' e' H He HF Hb HC.
  - cbn in H. inversion H; subst. exists []. rewrite app_nil_r. repeat split; auto.
  - cbn [import_loop] in H. destruct HF as (EC & HF). rewrite EC in H.
    destruct (write_block_and_set_head T fuel st x) as [[st1 ev]|] eqn:EW; [|inversion H; subst; discriminate].
    cbn [contiguous] in HC. apply andb_prop in HC as (HC1 & HC2). apply andb_prop in HC1 as (_ & HP).
    apply N.eqb_eq in HP.
    destruct (wbash_extend _ _ _ _ _ EW ltac:(congruence)) as (Er & Ea & Ec & Eh).
    destruct (IH st1 x (Some (fst x)) (evs ++ ev) st' last' evs' e' H He HF (wbash_head _ _ _ _ _ EW) HC2)
      as (E & -> & Er' & Ea' & Ec' & Eh' & El & Ehd).
    exists (ev ++ E). rewrite <- app_assoc. split; auto.
    rewrite removed_logs_app, added_logs_app, chain_evs_app, head_evs_app, Er, Ea, Ec, Eh, Er', Ea', Ec', Eh'.
    cbn [block_logs flat_map map app]. repeat split; auto.
    + rewrite El. rewrite last_cons. destruct r; reflexivity.
    + rewrite Ehd. now rewrite last_cons.
Qed.

(* InsertChain's import loop over a contiguous segment of fresh blocks: ONE switch, performed
   by the first block, then extensions.  removed = logs of the blocks leaving the canonical
   chain, added = logs of the blocks entering it (the re-added branch below the first block,
   then every block of the segment), one ChainEvent per block of the segment, in order. *)
Lemma import_loop_fresh_events : forall fuel x r st first evs st' last' evs',
  import_loop T fuel st true first (x :: r) None evs = (st', last', evs', None) ->
  all_fresh fuel st first (x :: r) -> hdr_ok x -> contiguous (x :: r) = true ->
  exists E st1 leaving entering, evs' = evs ++ E /\
    write_block_with_state st x = Ok st1 /\ switch T st1 x leaving entering /\
    removed_logs E = logs_old_first st1 leaving /\
    added_logs E = logs_old_first st1 (tl entering) ++ block_logs (x :: r) /\
    chain_evs E = map fst (x :: r) /\ head_evs E = [] /\
    last' = Some (fst (List.last r x)) /\ hd_block st' = fst (List.last r x).
Proof.
  intros fuel x r st first evs st' last' evs' H (EC & HF) Hx HC.
  cbn [import_loop] in H. rewrite EC in H.
  destruct (write_block_and_set_head T fuel st x) as [[st1 ev]|] eqn:EW; [|inversion H].
  destruct (wbash_events T _ _ _ _ _ EW Hx (fun s cur => cur_hdr_ok s cur))
    as (sw1 & lv & en & EB & Hsw & Er & Ea & Ec & Eh).
  destruct (import_loop_extend _ _ _ x _ _ _ _ _ _ H eq_refl HF (wbash_head _ _ _ _ _ EW) HC)
    as (E & -> & Er' & Ea' & Ec' & Eh' & El & Ehd).
  exists (ev ++ E), sw1, lv, en. rewrite <- app_assoc. split; auto. split; auto. split; auto.
  rewrite removed_logs_app, added_logs_app, chain_evs_app, head_evs_app, Er, Ea, Ec, Eh, Er', Ea', Ec', Eh'.
  rewrite app_nil_r. cbn [block_logs flat_map map app]. rewrite <- app_assoc. repeat split; auto.
  rewrite El. destruct r; reflexivity.
Qed.

(* insertChain proper (whatever runs on a pruned ancestor: a fresh first block never gets there) *)
Lemma core_fresh_events : forall pruned fuel x r st st' evs,
  insert_chain_core T pruned fuel st true (x :: r) = (st', evs, None) ->
  all_fresh fuel st true (x :: r) -> hdr_ok x -> contiguous (x :: r) = true ->
  exists st1 leaving entering,
    write_block_with_state st x = Ok st1 /\ switch T st1 x leaving entering /\
    removed_logs evs = logs_old_first st1 leaving /\
    added_logs evs = logs_old_first st1 (tl entering) ++ block_logs (x :: r) /\
    chain_evs evs = map fst (x :: r) /\ head_evs evs = [fst (List.last r x)] /\
    hd_block st' = fst (List.last r x).
Proof.
  intros pruned fuel x r st st' evs H HF Hx HC.
  unfold insert_chain_core in H. pose proof HF as (EC & _).
  assert (EK : is_CKnown (classify st true x) = false) by (rewrite EC; reflexivity).
  rewrite EK, EC in H.
  destruct (import_loop T fuel st true true (x :: r) None []) as [[[st3 last3] ev3] e3] eqn:EI.
  inversion H; subst st3 evs e3. clear H.
  destruct (import_loop_fresh_events _ _ _ _ _ _ _ _ _ EI HF Hx HC)
    as (E & st1 & lv & en & -> & EB & Hsw & Er & Ea & Ec & Eh & El & Ehd).
  exists st1, lv, en. cbn [app]. unfold head_event. rewrite El, Ehd, N.eqb_refl.
  rewrite removed_logs_app, added_logs_app, chain_evs_app, head_evs_app, Er, Ea, Ec, Eh.
  cbn. rewrite !app_nil_r. repeat split; auto.
Qed.

Lemma resolve_all_head_ok : forall ids x r, resolve_all T ids = Some (x :: r) -> hdr_ok x.
Proof.
  intros ids x r HR. destruct ids as [|h t]; [discriminate|]. cbn in HR. destruct (T h) as [b|] eqn:ET; [|discriminate].
  destruct (resolve_all T t); [|discriminate]. inversion HR; subst. exact ET.
Qed.

(* the whole operation InsertChain(blocks), every block freshly executed *)
Lemma insert_chain_fresh_events : forall fuel ids x r st st' evs,
  step T fuel st (OInsert ids) = (st', evs, None) -> resolve_all T ids = Some (x :: r) ->
  all_fresh fuel st true (x :: r) ->
  exists st1 leaving entering,
    write_block_with_state st x = Ok st1 /\ switch T st1 x leaving entering /\
    removed_logs evs = logs_old_first st1 leaving /\
    added_logs evs = logs_old_first st1 (tl entering) ++ block_logs (x :: r) /\
    chain_evs evs = map fst (x :: r) /\ head_evs evs = [fst (List.last r x)] /\
    hd_block st' = fst (List.last r x).
Proof.
  intros fuel ids x r st st' evs H HR HF. cbn [step] in H. rewrite HR in H.
  destruct (contiguous (x :: r)) eqn:HC; [|inversion H].
  eapply core_fresh_events; eauto. eapply resolve_all_head_ok; eauto.
Qed.

(* ---- the side-chain path: the first block's parent is stored without state.  insertSideChain
   stores the segment, walks back to the nearest ancestor with state and re-imports that whole
   list (ancestors, then the segment) with insertChain; the operation's events are exactly
   those of that import. ---- *)
Lemma side_chain_events : forall fuel x0 l0 st st' evs,
  insert_chain T fuel st true (x0 :: l0) = (st', evs, None) -> classify st true x0 = CPruned ->
  exists st1 prev y hashes,
    side_write st (match cur_hdr T st with Some c => hnum c | None => 0 end) (x0 :: l0) None = (st1, prev) /\
    stateless_walk T fuel st1 prev [] = Some (Some y, hashes) /\
    match rev hashes with
    | [] => evs = [] /\ st' = st1
    | b0 :: br =>
      all_fresh fuel st1 true (b0 :: br) -> hdr_ok b0 -> contiguous (b0 :: br) = true ->
      exists s1 leaving entering,
        write_block_with_state st1 b0 = Ok s1 /\ switch T s1 b0 leaving entering /\
        removed_logs evs = logs_old_first s1 leaving /\
        added_logs evs = logs_old_first s1 (tl entering) ++ block_logs (b0 :: br) /\
        chain_evs evs = map fst (b0 :: br) /\ head_evs evs = [fst (List.last br b0)] /\
        hd_block st' = fst (List.last br b0)
    end.
Proof.
  intros fuel x0 l0 st st' evs H EC.
  unfold insert_chain, insert_chain_core in H.
  assert (EK : is_CKnown (classify st true x0) = false) by (rewrite EC; reflexivity).
  rewrite EK, EC in H. unfold pruned_case in H.
  destruct (insert_side_chain T fuel st (x0 :: l0)) as [[st3 ev3] e3] eqn:ES.
  inversion H; subst st3 evs e3. clear H. cbn [app head_event]. rewrite app_nil_r.
  unfold insert_side_chain in ES.
  set (cn := match cur_hdr T st with Some c => hnum c | None => 0 end) in *.
  destruct (side_write st cn (x0 :: l0) None) as [st1 prev] eqn:ESW.
  destruct (stateless_walk T fuel st1 prev []) as [[[y|] hashes]|] eqn:EW; try (inversion ES; fail).
  exists st1, prev, y, hashes. split; auto. split; auto.
  destruct (rev hashes) as [|b0 br] eqn:ER.
  - inversion ES; subst. auto.
  - intros HFr Hb0 HCt. unfold insert_chain0 in ES. eapply core_fresh_events; eauto.
Qed.

(* ---- InsertBlockWithoutSetHead / the ancestor-recovery path: blocks are executed and stored,
   nothing is announced and neither the index nor the heads move ---- *)
Definition same_index (st st' : db) : Prop :=
  canon st' = canon st /\ lookup st' = lookup st /\ hd_block st' = hd_block st /\
  hd_header st' = hd_header st /\ hd_snap st' = hd_snap st.

Lemma wbws_same_index : forall st x st1, write_block_with_state st x = Ok st1 -> same_index st st1.
Proof.
  intros st x st1 H. unfold write_block_with_state in H.
  destruct (negb (is_known st (b_parent (snd x))) && negb (hnum x =? 0)); [discriminate|].
  inversion H; subst. unfold same_index, add_known. destruct (is_known st (fst x)); cbn; auto.
Qed.

Lemma nohead_fresh_silent : forall pruned fuel s y s' ev e,
  insert_chain_core T pruned fuel s false [y] = (s', ev, e) -> classify s true y = CFresh ->
  ev = [] /\ (e = None -> same_index s s').
Proof.
  intros pruned fuel s y s' ev e H EC. unfold insert_chain_core in H.
  assert (EK : is_CKnown (classify s true y) = false) by (rewrite EC; reflexivity).
  rewrite EK, EC in H. cbn [import_loop] in H. rewrite EC in H.
  destruct (write_block_with_state s y) as [s1|] eqn:EW; cbn in H; inversion H; subst.
  - split; auto. intros _. eapply wbws_same_index; eauto.
  - split; auto. discriminate.
Qed.

Lemma insert_nohead_events : forall fuel h b st st' evs,
  step T fuel st (OInsertNoHead h) = (st', evs, None) -> T h = Some b ->
  classify st true (h, b) = CFresh -> evs = [] /\ same_index st st'.
Proof.
  intros fuel h b st st' evs H HT EC. cbn [step] in H. rewrite HT in H.
  destruct (nohead_fresh_silent _ _ _ _ _ _ _ H EC) as (E & HS). split; auto.
Qed.

Fixpoint all_fresh_nh (fuel : nat) (st : db) (l : list hdr) : Prop :=
  match l with
  | [] => True
  | y :: r => classify st true y = CFresh /\
              all_fresh_nh fuel (fst (fst (insert_chain0 T fuel st false [y]))) r
  end.

Lemma same_index_trans : forall a b c, same_index a b -> same_index b c -> same_index a c.
Proof. intros a b c (?&?&?&?&?) (?&?&?&?&?). repeat split; congruence. Qed.

Lemma recover_each_silent : forall fuel l st evs st' ev e,
  recover_each T fuel st l evs = (st', ev, e) -> all_fresh_nh fuel st l ->
  ev = evs /\ (e = None -> same_index st st').
Proof.
  induction l as [|y r IH]; intros st evs st' ev e H HF; cbn [recover_each] in H.
  - inversion H; subst. split; auto. intros _. repeat split.
  - destruct HF as (EC & HF).
    destruct (insert_chain0 T fuel st false [y]) as [[s1 ev1] e1] eqn:EI. cbn [fst] in HF.
    destruct (nohead_fresh_silent _ _ _ _ _ _ _ EI EC) as (-> & HS).
    destruct e1 as [e1|].
    + inversion H; subst. rewrite app_nil_r. split; [reflexivity | discriminate].
    + rewrite app_nil_r in H. destruct (IH _ _ _ _ _ H HF) as (-> & HS').
      split; auto. intros He. eapply same_index_trans; eauto.
Qed.

(* SetCanonical in general: when the head state is missing, recoverAncestors first re-executes
   the stateless ancestors (and the block) without touching index or heads and without any
   event; then the switch is announced as in C38_set_canonical_events_exact *)
Lemma set_canonical_op_events : forall fuel st x st' evs,
  set_canonical T fuel st x = (st', evs, None) -> hdr_ok x ->
  exists st1 ev1,
    ((avail st (fst x) = true /\ st1 = st /\ ev1 = []) \/
     (avail st (fst x) = false /\ recover_ancestors T fuel st x = (st1, ev1, None))) /\
    exists leaving entering, switch T st1 x leaving entering /\
      removed_logs evs = removed_logs ev1 ++ logs_old_first st1 leaving /\
      added_logs evs = added_logs ev1 ++ logs_old_first st1 (tl entering) ++ logs_of st1 x /\
      chain_evs evs = chain_evs ev1 ++ [fst x] /\ head_evs evs = head_evs ev1 ++ [fst x].
Proof.
  intros fuel st x st' evs H Hx. destruct (avail st (fst x)) eqn:EA.
  - exists st, []. split; [left; auto|].
    destruct (set_canonical_events T _ _ _ _ _ EA H Hx (fun cur => cur_hdr_ok st cur)) as (lv & en & Hsw & Er & Ea & Ec & Eh).
    exists lv, en. cbn [app removed_logs added_logs chain_evs head_evs flat_map]. auto.
  - pose proof H as H0. unfold set_canonical in H. rewrite EA in H.
    destruct (recover_ancestors T fuel st x) as [[st1 ev1] e1] eqn:ERc.
    destruct e1 as [e1|]; [inversion H|].
    pose proof (recover_avail T _ _ _ _ _ ERc EA) as EA1.
    destruct (reorg_if_needed T fuel st1 x) as [[st2 ev2]|] eqn:ERI; [|inversion H].
    destruct (write_head_block fuel st2 x) as [st3|] eqn:EH; [|inversion H].
    clear H.
    assert (H1 : set_canonical T fuel st1 x =
                 (st3, ev2 ++ whb_purge (canon st2) x ++ [EvChain (fst x)] ++
                       (match logs_of st3 x with [] => [] | l => [EvLogs l] end) ++ [EvHead (fst x)], None)).
    { unfold set_canonical. rewrite EA1, ERI, EH. reflexivity. }
    assert (H2 : set_canonical T fuel st x =
                 (st3, ev1 ++ (ev2 ++ whb_purge (canon st2) x ++ [EvChain (fst x)] ++
                       (match logs_of st3 x with [] => [] | l => [EvLogs l] end) ++ [EvHead (fst x)]), None)).
    { unfold set_canonical. rewrite EA, ERc, ERI, EH. reflexivity. }
    remember (ev2 ++ whb_purge (canon st2) x ++ [EvChain (fst x)] ++
              (match logs_of st3 x with [] => [] | l => [EvLogs l] end) ++ [EvHead (fst x)]) as tail eqn:Et.
    rewrite H2 in H0. injection H0 as <- <-.
    destruct (set_canonical_events T _ _ _ _ _ EA1 H1 Hx (fun cur => cur_hdr_ok st1 cur)) as (lv & en & Hsw & Er & Ea & Ec & Eh).
    exists st1, ev1. split; [right; auto|]. exists lv, en. split; auto.
    rewrite removed_logs_app, added_logs_app, chain_evs_app, head_evs_app, Er, Ea, Ec, Eh. auto.
Qed.

(* ... and when every recovered block is executed at its turn, the recovery is silent *)
Lemma recover_silent : forall fuel st x st1 ev1 y hashes,
  recover_ancestors T fuel st x = (st1, ev1, None) ->
  stateless_walk T fuel st (Some x) [] = Some (Some y, hashes) ->
  all_fresh_nh fuel st (rev hashes) -> ev1 = [] /\ same_index st st1.
Proof.
  intros fuel st x st1 ev1 y hashes H EW HF. unfold recover_ancestors in H. rewrite EW in H.
  destruct (recover_each_silent _ _ _ _ _ _ _ H HF) as (-> & HS). split; auto.
Qed.

(* ---- InsertChain of a segment of blocks that are all stored with state (re-adoption through
   writeKnownBlock), the first one not canonical: ONE switch, then silent extensions.  Stated
   exception (C38-known-reimport-silent): no ChainEvent and no logs for the segment's blocks ---- *)
Lemma wkb_extend : forall fuel st x st' ev,
  write_known_block T fuel st x = Ok (st', ev) -> b_parent (snd x) = hd_block st ->
  removed_logs ev = [] /\ added_logs ev = [] /\ chain_evs ev = [] /\ head_evs ev = [].
Proof.
  intros fuel st x st' ev H E. unfold write_known_block, reorg_if_needed in H.
  rewrite E, N.eqb_refl in H. destruct (write_head_block fuel st x) as [st2|]; [|discriminate].
  inversion H; subst. cbn [app]. destruct (whb_purge_quiet (canon st) x) as (Pr & Pa & Pc & Ph). auto.
Qed.

Lemma wkb_head : forall fuel st x st' ev,
  write_known_block T fuel st x = Ok (st', ev) -> hd_block st' = fst x.
Proof.
  intros fuel st x st' ev H. unfold write_known_block in H.
  destruct (reorg_if_needed T fuel st x) as [[st1 ev1]|]; [|discriminate].
  destruct (write_head_block fuel st1 x) as [st2|] eqn:EW; [|discriminate]. inversion H; subst.
  destruct (whb_spec _ _ _ _ EW) as (_ & _ & _ & _ & Eb & _). exact Eb.
Qed.

Fixpoint all_known (fuel : nat) (st : db) (first : bool) (l : list hdr) : Prop :=
  match l with
  | [] => True
  | x :: r => is_CKnown (classify st first x) = true /\
              match write_known_block T fuel st x with
              | Ok (st1, _) => all_known fuel st1 false r
              | Err _ => True
              end
  end.

Lemma write_knowns_extend : forall fuel l st prev last evs st' l' f' last' evs',
  write_knowns T fuel st false l last evs = (st', l', f', last', evs', None) ->
  all_known fuel st false l -> hd_block st = fst prev -> contiguous (prev :: l) = true ->
  l' = [] /\ exists E, evs' = evs ++ E /\ removed_logs E = [] /\ added_logs E = [] /\
            chain_evs E = [] /\ head_evs E = [] /\
            last' = match l with [] => last | _ => Some (fst (List.last l prev)) end /\
            hd_block st' = fst (List.last l prev).
Proof.
  induction l as [|x r IH]; intros st prev last evs st' l' f' last' evs' H HF Hb HC.
  - cbn in H. inversion H; subst. split; auto. exists []. rewrite app_nil_r. repeat split; auto.
  - cbn [write_knowns] in H. destruct HF as (EC & HF). rewrite EC in H.
    destruct (write_known_block T fuel st x) as [[st1 ev]|] eqn:EW; [|inversion H].
    cbn [contiguous] in HC. apply andb_prop in HC as (HC1 & HC2). apply andb_prop in HC1 as (_ & HP).
    apply N.eqb_eq in HP.
    destruct (wkb_extend _ _ _ _ _ EW ltac:(congruence)) as (Er & Ea & Ec & Eh).
    destruct (IH st1 x (Some (fst x)) (evs ++ ev) st' l' f' last' evs' H HF (wkb_head _ _ _ _ _ EW) HC2)
      as (El' & E & -> & Er' & Ea' & Ec' & Eh' & El & Ehd).
    split; auto. exists (ev ++ E). rewrite <- app_assoc. split; auto.
    rewrite removed_logs_app, added_logs_app, chain_evs_app, head_evs_app, Er, Ea, Ec, Eh, Er', Ea', Ec', Eh'.
    repeat split; auto.
    + rewrite El. rewrite last_cons. destruct r; reflexivity.
    + rewrite Ehd. now rewrite last_cons.
Qed.

Lemma insert_chain_known_events : forall pruned fuel x r st st' evs,
  insert_chain_core T pruned fuel st true (x :: r) = (st', evs, None) ->
  all_known fuel st true (x :: r) -> hdr_ok x -> contiguous (x :: r) = true ->
  (match cur_hdr T st with Some c => hnum c | None => 0 end <? hnum x) ||
     negb (oeqb (canon st (hnum x)) (fst x)) = true ->
  exists leaving entering, switch T st x leaving entering /\
    removed_logs evs = logs_old_first st leaving /\
    added_logs evs = logs_old_first st (tl entering) /\
    chain_evs evs = [] /\ head_evs evs = [fst (List.last r x)] /\
    hd_block st' = fst (List.last r x).
Proof.
  intros pruned fuel x r st st' evs H (EC & HF) Hx HC Hnc.
  unfold insert_chain_core in H. rewrite EC in H. cbn [skip_known] in H. rewrite EC, Hnc in H.
  cbn [write_knowns] in H. rewrite EC in H.
  destruct (write_known_block T fuel st x) as [[st1 ev]|] eqn:EW; [|inversion H].
  destruct (write_knowns T fuel st1 false r (Some (fst x)) ([] ++ ev)) as [[[[[st2 l2] first2] last] evs2] e2] eqn:EWK.
  destruct e2 as [e2|]; [inversion H|].
  destruct (write_knowns_extend _ _ _ x _ _ _ _ _ _ _ EWK HF (wkb_head _ _ _ _ _ EW) HC)
    as (-> & E & -> & Er' & Ea' & Ec' & Eh' & El & Ehd).
  inversion H; subst st2 evs. clear H.
  destruct (wkb_events T _ _ _ _ _ EW Hx (fun cur => cur_hdr_ok st cur)) as (lv & en & Hsw & Er & Ea & Ec & Eh).
  exists lv, en. split; auto.
  assert (Elast : last = Some (fst (List.last r x))) by (rewrite El; destruct r; reflexivity).
  unfold head_event. rewrite Elast, Ehd, N.eqb_refl. cbn [app].
  rewrite !removed_logs_app, !added_logs_app, !chain_evs_app, !head_evs_app, Er, Ea, Ec, Eh, Er', Ea', Ec', Eh'.
  cbn. rewrite ?app_nil_r. repeat split; auto.
Qed.

(* ---- the list re-imported by insertSideChain is contiguous and made of tree blocks ---- *)
Definition link (a p : hdr) : bool := (hnum a =? hnum p + 1) && (b_parent (snd a) =? fst p).

Fixpoint linked_nf (l : list hdr) : bool :=       (* newest first: each next one is the parent *)
  match l with
  | a :: ((p :: _) as r) => link a p && linked_nf r
  | _ => true
  end.

Lemma linked_nf_snoc : forall m a p, linked_nf (m ++ [a]) = true -> link a p = true ->
  linked_nf ((m ++ [a]) ++ [p]) = true.
Proof.
  induction m as [|z m IH]; intros a p H L.
  - cbn. now rewrite L.
  - destruct m as [|z' m'].
    + cbn in *. apply andb_prop in H as (H1 & _). now rewrite H1, L.
    + change (linked_nf (z :: ((z' :: m') ++ [a]) ++ [p]) = true).
      change (linked_nf (z :: (z' :: m') ++ [a]) = true) in H.
      cbn [linked_nf app] in *. apply andb_prop in H as (H1 & H2). rewrite H1. cbn [andb].
      apply (IH a p); auto.
Qed.

Lemma linked_nf_app_l : forall m a, linked_nf (m ++ [a]) = true -> linked_nf m = true.
Proof.
  induction m as [|z m IH]; intros a H; auto.
  destruct m as [|z' m']; auto.
  change (linked_nf (z :: (z' :: m') ++ [a]) = true) in H. cbn [linked_nf app] in *.
  apply andb_prop in H as (H1 & H2). rewrite H1. cbn [andb]. eapply IH; eauto.
Qed.

Lemma contiguous_snoc : forall m p a, contiguous (m ++ [p]) = true -> link a p = true ->
  contiguous ((m ++ [p]) ++ [a]) = true.
Proof.
  induction m as [|z m IH]; intros p a H L.
  - cbn. unfold link in L. now rewrite L.
  - destruct m as [|z' m'].
    + cbn in *. apply andb_prop in H as (H1 & _). unfold link in L. now rewrite H1, L.
    + change (contiguous (z :: ((z' :: m') ++ [p]) ++ [a]) = true).
      change (contiguous (z :: (z' :: m') ++ [p]) = true) in H.
      cbn [contiguous app] in *. apply andb_prop in H as (H1 & H2). rewrite H1. cbn [andb].
      apply (IH p a); auto.
Qed.

Lemma linked_rev_contiguous : forall l, linked_nf l = true -> contiguous (rev l) = true.
Proof.
  induction l as [|a l IH]; intros H; auto.
  destruct l as [|p t]; auto.
  cbn [linked_nf] in H. apply andb_prop in H as (L & H).
  change (rev (a :: p :: t)) with ((rev t ++ [p]) ++ [a]).
  apply contiguous_snoc; [exact (IH H) | exact L].
Qed.

Lemma sw_linked : forall fuel st a acc r acc',
  stateless_walk T fuel st (Some a) acc = Some (r, acc') -> linked_nf (acc ++ [a]) = true ->
  linked_nf acc' = true.
Proof.
  induction fuel as [|f IH]; intros st a acc r acc' H HL; [discriminate|].
  cbn [stateless_walk] in H. destruct (avail st (fst a)).
  - inversion H; subst. eapply linked_nf_app_l; eauto.
  - destruct (parent_hdr T st a) as [p|] eqn:EP.
    + eapply IH; eauto. apply linked_nf_snoc; auto.
      pose proof (parent_hdr_spec T _ _ _ EP) as (_ & Hpar & Hnum). unfold link.
      apply andb_true_intro. split; apply N.eqb_eq; [lia | congruence].
    + destruct f; [discriminate|]. cbn in H. inversion H; subst. exact HL.
Qed.

Lemma side_write_prev_ok : forall cn l st prev st' prev', side_write st cn l prev = (st', prev') ->
  Forall hdr_ok l -> (forall h, prev = Some h -> hdr_ok h) -> forall h, prev' = Some h -> hdr_ok h.
Proof.
  intros cn l st prev st' prev' H HF Hp.
  destruct (side_write_gen T (fun _ => True) (fun _ _ _ => I) _ _ _ _ _ _ H I HF Hp) as (_ & R). exact R.
Qed.

(* the side-chain statement without the two side hypotheses *)
Lemma side_chain_events' : forall fuel x0 l0 st st' evs,
  insert_chain T fuel st true (x0 :: l0) = (st', evs, None) -> classify st true x0 = CPruned ->
  Forall hdr_ok (x0 :: l0) ->
  exists st1 prev y hashes,
    side_write st (match cur_hdr T st with Some c => hnum c | None => 0 end) (x0 :: l0) None = (st1, prev) /\
    stateless_walk T fuel st1 prev [] = Some (Some y, hashes) /\
    match rev hashes with
    | [] => evs = [] /\ st' = st1
    | b0 :: br =>
      all_fresh fuel st1 true (b0 :: br) ->
      exists s1 leaving entering,
        write_block_with_state st1 b0 = Ok s1 /\ switch T s1 b0 leaving entering /\
        removed_logs evs = logs_old_first s1 leaving /\
        added_logs evs = logs_old_first s1 (tl entering) ++ block_logs (b0 :: br) /\
        chain_evs evs = map fst (b0 :: br) /\ head_evs evs = [fst (List.last br b0)] /\
        hd_block st' = fst (List.last br b0)
    end.
Proof.
  intros fuel x0 l0 st st' evs H EC HF.
  destruct (side_chain_events _ _ _ _ _ _ H EC) as (st1 & prev & y & hashes & ESW & EW & Hm).
  exists st1, prev, y, hashes. split; auto. split; auto.
  destruct (rev hashes) as [|b0 br] eqn:ER; auto.
  intros HFr.
  assert (Hprev : forall h, prev = Some h -> hdr_ok h).
  { eapply side_write_prev_ok; eauto. discriminate. }
  assert (HFh : Forall hdr_ok hashes) by (eapply (stateless_walk_ok T); eauto).
  assert (Hb0 : hdr_ok b0).
  { rewrite Forall_forall in HFh. apply HFh. apply in_rev. rewrite ER. now left. }
  assert (HL : linked_nf hashes = true).
  { destruct prev as [pv|]; [|destruct fuel; cbn in EW; inversion EW; subst; discriminate].
    eapply sw_linked; eauto. }
  apply Hm; auto. rewrite <- ER. now apply linked_rev_contiguous.
Qed.

End Ops.
